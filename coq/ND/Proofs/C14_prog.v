(* Proofs/C14_prog.v -- the branches of bessel_j0 / bessel_j1 / bessel_j2 (hand model Hand/Bessel.v) REIFIED as programs of Hand/Prog.v, so that the
   program theorems of C03 / C04 apply to them: first, second, third and mixed second derivatives, every direction of every type, and agreement
   between types -- for the approximating functions the code computes (closeness to the true J_n is not a statement about dual numbers). *)
From ND Require Import Tactics C02_proofs C01_towers C01_faa C07_proofs C09_proofs Prog Agree C04_inst C03_proofs C03_second C03_third C03_mixed C03_mixed3 Bessel C14_proofs.
From NDgen Require Import Gen_Bessel.
Local Open Scope R_scope.

Definition fl0 : flit := FLit 0%Q 0%Z 0%Z.
Definition LK (l : list flit) (k : nat) : cst := CL (nth k l fl0).

(* Horner programs: x is a program evaluated once per coefficient (a variable in every use below) *)
Definition polevl_p (x : prog) (cs : list flit) : prog :=
  match cs with
  | c0 :: r => fold_left (fun acc c => PScal B_add (PBin B_mul acc x) (CL c)) r (PConst (CL c0))
  | nil => PConst CO
  end.
Definition p1evl_p (x : prog) (cs : list flit) : prog := fold_left (fun acc c => PScal B_add (PBin B_mul acc x) (CL c)) cs (PConst CO).

Definition j0_small_p (z : prog) : prog :=
  PBin B_sub (PBin B_add (PBin B_sub (PConst CO) (PScal B_div z (LK LL_bessel_j0 2))) (PScal B_div (PBin B_mul z z) (LK LL_bessel_j0 3)))
    (PScal B_div (PBin B_mul (PBin B_mul z z) z) (LK LL_bessel_j0 4)).
Definition j0_mid_p (z : prog) : prog :=
  PBin B_div (PBin B_mul (PBin B_mul (PScal B_sub z (CL BL_DR1)) (PScal B_sub z (CL BL_DR2))) (polevl_p z BL_RP0)) (p1evl_p z BL_RQ0).
(* environment [x]: z = x*x is variable 1 *)
Definition j0_small_prog : prog := PLet (PBin B_mul (PVar 0) (PVar 0)) (j0_small_p (PVar 1)).
Definition j0_mid_prog : prog := PLet (PBin B_mul (PVar 0) (PVar 0)) (j0_mid_p (PVar 1)).
(* environment [.. x ..] with x at index i and n entries: w, q, p, q', arg are the variables n .. n+4 *)
Definition asym_p (i n : nat) (pp pq qp qq : list flit) (five shift : cst) (lead : prog -> prog) : prog :=
  let x := PVar i in let w := PVar n in let q := PVar (n + 1) in let p := PVar (n + 2) in let q' := PVar (n + 3) in let arg := PVar (n + 4) in
  PLet (PScal B_mul (PUn U_recip x) five)
  (PLet (PBin B_mul w w)
  (PLet (PBin B_div (polevl_p q pp) (polevl_p q pq))
  (PLet (PBin B_div (polevl_p q qp) (p1evl_p q qq))
  (PLet (PScal B_sub x shift)
    (PBin B_mul (lead (PBin B_sub (PBin B_mul p (PUn U_cos arg)) (PBin B_mul (PBin B_mul w q') (PUn U_sin arg))))
       (PUn U_sqrt (PBin B_div (PConst (CK C_FRAC_2_PI)) x))))))).
Definition j0_asym_prog : prog := asym_p 0 1 BL_PP0 BL_PQ0 BL_QP0 BL_QQ0 (LK LL_bessel_j0 5) (CK C_FRAC_PI_4) (fun p' => p').
Definition j1_mid_prog : prog :=
  PLet (PBin B_mul (PVar 0) (PVar 0))
    (PBin B_mul (PBin B_mul (PBin B_mul (PBin B_div (polevl_p (PVar 1) BL_RP1) (p1evl_p (PVar 1) BL_RQ1)) (PVar 0)) (PScal B_sub (PVar 1) (CL BL_Z1)))
       (PScal B_sub (PVar 1) (CL BL_Z2))).
(* environment [signum self; |self|] *)
Definition j1_asym_prog : prog :=
  asym_p 1 2 BL_PP1 BL_PQ1 BL_QP1 BL_QQ1 (LK LL_bessel_j1 1) (CM (LK LL_bessel_j1 2) (CK C_FRAC_PI_4)) (fun p' => PBin B_mul (PVar 0) p').
Definition j2_series_prog : prog :=
  PLet (PBin B_mul (PVar 0) (PVar 0)) (PBin B_mul (PScal B_div (PVar 1) (LK LL_bessel_j2 1)) (polevl_p (PVar 1) BL_SJ2)).
(* the recurrence on 0.25 <= x <= 5, where both J1 and J0 take their rational branches (x > 0: |x| = x) *)
Definition j2_rec_mid_prog : prog := PBin B_sub (PBin B_div (PScal B_mul j1_mid_prog (LK LL_bessel_j2 2)) (PVar 0)) j0_mid_prog.

(* ---- the programs evaluate to the branch functions of the model, over any instance whose one is the lifted one and whose sin_cos is (sin, cos) ---- *)
Section Reify.
  Context {F T : Type} {dn : DN F T}.
  #[local] Instance flF_reify : FL F := dn_fl (T:=T).
  Hypothesis Hone : (ofF (Overload.one : F) : T) = (Overload.one : T).
  Hypothesis Hsc : forall x : T, m_sin_cos x = (m_sin x, m_cos x).

  Lemma eval_fold (env : list T) (x : prog) cs : forall acc,
    eval env (fold_left (fun a c => PScal B_add (PBin B_mul a x) (CL c)) cs acc) =
    fold_left (fun (a : T) (c : F) => (a * eval env x + c)%rs) (map (fun c => lit c : F) cs) (eval env acc).
  Proof. induction cs as [|c r IH]; intros acc; [reflexivity|]. cbn [fold_left map]. rewrite IH. reflexivity. Qed.
  Lemma eval_polevl (env : list T) x c0 r : eval env (polevl_p x (c0 :: r)) = polevl (eval env x) (map (fun c => lit c : F) (c0 :: r)).
  Proof. unfold polevl_p, polevl. cbn [map]. rewrite eval_fold. reflexivity. Qed.
  Lemma eval_p1evl (env : list T) x cs : eval env (p1evl_p x cs) = p1evl (eval env x) (map (fun c => lit c : F) cs).
  Proof. unfold p1evl_p, p1evl. rewrite eval_fold. cbn [eval]. change (cval CO : F) with (Overload.one : F). rewrite Hone. reflexivity. Qed.

  Lemma reify_j0_small (x : T) : eval (x :: nil) j0_small_prog = j0_small (x * x)%rs.
  Proof. unfold j0_small_prog, j0_small_p, j0_small. cbn [eval app nth]. change (cval CO : F) with (Overload.one : F). rewrite Hone. reflexivity. Qed.
  Lemma reify_j0_mid (x : T) : eval (x :: nil) j0_mid_prog = j0_mid (x * x)%rs.
  Proof.
    unfold j0_mid_prog, j0_mid_p, j0_mid. cbn [eval app]. unfold BL_RP0. rewrite eval_polevl, eval_p1evl. reflexivity.
  Qed.
  Lemma reify_j1_mid (x : T) : eval (x :: nil) j1_mid_prog = j1_mid x.
  Proof. unfold j1_mid_prog, j1_mid. cbn [eval app]. unfold BL_RP1. rewrite eval_polevl, eval_p1evl. reflexivity. Qed.
  Lemma reify_j2_series (x : T) : eval (x :: nil) j2_series_prog = j2_series x.
  Proof. unfold j2_series_prog, j2_series. cbn [eval app]. unfold BL_SJ2. rewrite eval_polevl. reflexivity. Qed.
  Lemma reify_j0_asym (x : T) : eval (x :: nil) j0_asym_prog = j0_asym x.
  Proof.
    unfold j0_asym_prog, asym_p, j0_asym. cbv zeta. cbn [eval app]. unfold BL_PP0, BL_PQ0, BL_QP0. rewrite !eval_polevl, eval_p1evl. rewrite Hsc. reflexivity.
  Qed.
  Lemma reify_j1_asym (x : T) : eval (m_signum x :: m_abs x :: nil) j1_asym_prog = j1_asym x.
  Proof.
    unfold j1_asym_prog, asym_p, j1_asym. cbv zeta. cbn [eval app]. unfold BL_PP1, BL_PQ1, BL_QP1. rewrite !eval_polevl, eval_p1evl. rewrite Hsc. reflexivity.
  Qed.
  Lemma reify_j2_rec_mid (x : T) : eval (x :: nil) j2_rec_mid_prog = (j1_mid x * (lk (T:=T) L_bessel_j2 2 : F) / x - j0_mid (x * x))%rs.
  Proof. unfold j2_rec_mid_prog. cbn [eval]. rewrite reify_j1_mid, reify_j0_mid. reflexivity. Qed.
End Reify.

(* ---- the two hypotheses hold in every real-number instance ---- *)
Lemma one_R : (ofF (Overload.one : R) : R) = (Overload.one : R).  Proof. reflexivity. Qed.
Lemma sc_R (x : R) : m_sin_cos x = (m_sin x, m_cos x).  Proof. reflexivity. Qed.
Lemma one_Dual : (ofF (Overload.one : R) : Dual R) = (Overload.one : Dual R).  Proof. reflexivity. Qed.
Lemma sc_Dual (x : Dual R) : m_sin_cos x = (m_sin x, m_cos x).  Proof. destruct x; reflexivity. Qed.
Lemma one_Dual2 : (ofF (Overload.one : R) : Dual2 R) = (Overload.one : Dual2 R).  Proof. reflexivity. Qed.
Lemma sc_Dual2 (x : Dual2 R) : m_sin_cos x = (m_sin x, m_cos x).  Proof. destruct x; reflexivity. Qed.
Lemma one_Dual3 : (ofF (Overload.one : R) : Dual3 R) = (Overload.one : Dual3 R).  Proof. reflexivity. Qed.
Lemma sc_Dual3 (x : Dual3 R) : m_sin_cos x = (m_sin x, m_cos x).  Proof. destruct x; reflexivity. Qed.
Lemma one_HyperDual : (ofF (Overload.one : R) : HyperDual R) = (Overload.one : HyperDual R).  Proof. reflexivity. Qed.
Lemma sc_HyperDual (x : HyperDual R) : m_sin_cos x = (m_sin x, m_cos x).  Proof. destruct x; reflexivity. Qed.
Lemma one_HHD : (ofF (Overload.one : R) : HyperHyperDual R) = (Overload.one : HyperHyperDual R).  Proof. reflexivity. Qed.
Lemma sc_HHD (x : HyperHyperDual R) : m_sin_cos x = (m_sin x, m_cos x).  Proof. destruct x; reflexivity. Qed.
Lemma one_DualVec : (ofF (Overload.one : R) : DualVec R) = (Overload.one : DualVec R).  Proof. reflexivity. Qed.
Lemma sc_DualVec (x : DualVec R) : m_sin_cos x = (m_sin x, m_cos x).  Proof. destruct x; reflexivity. Qed.
Lemma one_Dual2Vec : (ofF (Overload.one : R) : Dual2Vec R) = (Overload.one : Dual2Vec R).  Proof. reflexivity. Qed.
Lemma sc_Dual2Vec (x : Dual2Vec R) : m_sin_cos x = (m_sin x, m_cos x).  Proof. destruct x; reflexivity. Qed.
Lemma one_HyperDualVec : (ofF (Overload.one : R) : HyperDualVec R) = (Overload.one : HyperDualVec R).  Proof. reflexivity. Qed.
Lemma sc_HyperDualVec (x : HyperDualVec R) : m_sin_cos x = (m_sin x, m_cos x).  Proof. destruct x; reflexivity. Qed.

(* ---- domain conditions of the Horner programs over the reals ---- *)
Lemma okR_fold env x cs : forall acc, okR env x -> okR env acc -> okR env (fold_left (fun a c => PScal B_add (PBin B_mul a x) (CL c)) cs acc).
Proof.
  induction cs as [|c r IH]; intros acc Hx Ha; [exact Ha|]. cbn [fold_left]. apply IH; [exact Hx|]. cbn [okR].
  split; [split; [exact Ha|split; [exact Hx|intros E; discriminate E]]|intros E; discriminate E].
Qed.
Lemma okR_polevl env x cs : okR env x -> okR env (polevl_p x cs).
Proof. intros Hx. destruct cs as [|c0 r]; [exact I|]. unfold polevl_p. apply okR_fold; [exact Hx|exact I]. Qed.
Lemma okR_p1evl env x cs : okR env x -> okR env (p1evl_p x cs).
Proof. intros Hx. unfold p1evl_p. apply okR_fold; [exact Hx|exact I]. Qed.
Lemma exps_fold P x cs : forall acc, exps P x -> exps P acc -> exps P (fold_left (fun a c => PScal B_add (PBin B_mul a x) (CL c)) cs acc).
Proof. induction cs as [|c r IH]; intros acc Hx Ha; [exact Ha|]. cbn [fold_left]. apply IH; [exact Hx|]. cbn [exps]. split; assumption. Qed.
Lemma exps_polevl P x cs : exps P x -> exps P (polevl_p x cs).
Proof. intros Hx. destruct cs as [|c0 r]; [exact I|]. unfold polevl_p. apply exps_fold; [exact Hx|exact I]. Qed.
Lemma exps_p1evl P x cs : exps P x -> exps P (p1evl_p x cs).
Proof. intros Hx. unfold p1evl_p. apply exps_fold; [exact Hx|exact I]. Qed.

Lemma rep2_ext_loc t0 (f g : R -> R) r : Rep2 t0 f r -> locally t0 (fun t => f t = g t) -> Rep2 t0 g r.
Proof.
  intros [A [f' [L [B C]]]] E. split; [rewrite A; apply (locally_singleton _ _ E)|]. exists f'. split; [|split; assumption].
  pose proof (locally_locally _ _ E) as E2.
  eapply filter_imp; [|apply (filter_and _ _ L E2)]. intros t [K1 K2]; cbv beta in K1, K2.
  apply (is_derive_ext_loc f g t _ K2 K1).
Qed.

(* ---- a program P of one input, the real function g it computes, its domain ok: every order, every direction ---- *)
Section Transfer.
  Variable P : prog.
  Variable g : R -> R.
  Variable ok : R -> Prop.
  Hypothesis HokR : forall r, ok r -> okR (r :: nil) P.
  Hypothesis Hexp : exps (fun _ => True) P.
  Hypothesis HgR : forall r, eval (T:=R) (r :: nil) P = g r.

  Lemma tr_first t0 v (X : Dual R) : Rep1 t0 v X -> ok (v t0) -> Rep1 t0 (fun t => g (v t)) (eval (X :: nil) P).
  Proof.
    intros H Hk. apply (rep_ext_loc t0 (fun t => eval (T:=R) (at_t (v :: nil) t) P)).
    - apply first_order; [constructor; [exact H|constructor] | apply HokR; exact Hk].
    - apply locally_true; intros t; apply HgR.
  Qed.
  Lemma tr_second t0 v (X : Dual2 R) : Rep2 t0 v X -> ok (v t0) -> Rep2 t0 (fun t => g (v t)) (eval (X :: nil) P).
  Proof.
    intros H Hk. apply (rep2_ext_loc t0 (fun t => eval (T:=R) (at_t (v :: nil) t) P)).
    - apply second_order; [constructor; [exact H|constructor] | apply HokR; exact Hk].
    - apply locally_true; intros t; apply HgR.
  Qed.
  Lemma tr_third t0 v (X : Dual3 R) : Rep3 t0 v X -> ok (v t0) -> Rep3 t0 (fun t => g (v t)) (eval (X :: nil) P).
  Proof.
    intros H Hk. apply (rep3_ext_loc t0 (fun t => eval (T:=R) (at_t (v :: nil) t) P)).
    - apply third_order; [constructor; [exact H|constructor] | apply HokR; exact Hk].
    - apply locally_true; intros t; apply HgR.
  Qed.
  Lemma tr_mixed s0 t0 v (X : HyperDual R) : RepH s0 t0 v X -> ok (v s0 t0) -> RepH s0 t0 (fun s t => g (v s t)) (eval (X :: nil) P).
  Proof.
    intros H Hk. apply (repH_ext_loc s0 t0 (fun s t => eval (T:=R) (at_st (v :: nil) s t) P)).
    - apply mixed_second_order; [constructor; [exact H|constructor] | apply HokR; exact Hk].
    - apply locally_true; intros s; apply locally_true; intros t; apply HgR.
  Qed.
  Lemma tr_mixed3 s0 t0 u0 v (X : HyperHyperDual R) : RepT s0 t0 u0 v X -> ok (v s0 t0 u0) -> RepT s0 t0 u0 (fun s t u => g (v s t u)) (eval (X :: nil) P).
  Proof.
    intros H Hk. apply (repT_ext s0 t0 u0 (fun s t u => eval (T:=R) (at_stu (v :: nil) s t u) P)).
    - apply mixed_third_order; [constructor; [exact H|constructor] | apply HokR; exact Hk].
    - intros s t u; apply HgR.
  Qed.
End Transfer.

Lemma repX_ext {L X : Type} (part : X -> list L -> R) (wf : X -> Prop) (l : L) t0 (f g : R -> R) x :
  RepX (part:=part) (wf:=wf) l t0 f x -> (forall t, f t = g t) -> RepX (part:=part) (wf:=wf) l t0 g x.
Proof. intros [W [A D]] E. split; [exact W|]. split; [rewrite <- E; exact A|]. apply (is_derive_ext f g); [exact E|exact D]. Qed.

(* what is claimed of a branch: br is the branch function (generic in the type), g the real function it computes, ok its domain *)
Definition BranchOK (g : R -> R) (ok : R -> Prop) (br : forall (T : Type) (dn : DN R T), T -> T) : Prop :=
  (forall t0 v (X : Dual R), Rep1 t0 v X -> ok (v t0) -> Rep1 t0 (fun t => g (v t)) (br _ _ X)) /\
  (forall t0 v (X : Dual2 R), Rep2 t0 v X -> ok (v t0) -> Rep2 t0 (fun t => g (v t)) (br _ _ X)) /\
  (forall t0 v (X : Dual3 R), Rep3 t0 v X -> ok (v t0) -> Rep3 t0 (fun t => g (v t)) (br _ _ X)) /\
  (forall s0 t0 v (X : HyperDual R), RepH s0 t0 v X -> ok (v s0 t0) -> RepH s0 t0 (fun s t => g (v s t)) (br _ _ X)) /\
  (forall s0 t0 u0 v (X : HyperHyperDual R), RepT s0 t0 u0 v X -> ok (v s0 t0 u0) -> RepT s0 t0 u0 (fun s t u => g (v s t u)) (br _ _ X)) /\
  (forall k, (k = 1 \/ k = 2 \/ k = 3)%nat -> forall t0 v (X : HyperHyperDual R),
     RepX (part:=part_HHD) (wf:=fun _ => True) k t0 v X -> ok (v t0) -> RepX (part:=part_HHD) (wf:=fun _ => True) k t0 (fun t => g (v t)) (br _ _ X)) /\
  (forall (i : nat) t0 v (X : DualVec R),
     RepX (part:=part_DualVec) (wf:=fun _ => True) i t0 v X -> ok (v t0) -> RepX (part:=part_DualVec) (wf:=fun _ => True) i t0 (fun t => g (v t)) (br _ _ X)) /\
  (forall (i : nat) t0 v (X : Dual2Vec R),
     RepX (part:=part_Dual2Vec) (wf:=wf_Dual2Vec) i t0 v X -> ok (v t0) -> RepX (part:=part_Dual2Vec) (wf:=wf_Dual2Vec) i t0 (fun t => g (v t)) (br _ _ X)) /\
  (forall (l : nat + nat) t0 v (X : HyperDualVec R),
     RepX (part:=part_HyperDualVec) (wf:=wf_HyperDualVec) l t0 v X -> ok (v t0) -> RepX (part:=part_HyperDualVec) (wf:=wf_HyperDualVec) l t0 (fun t => g (v t)) (br _ _ X)).

Lemma branch_ok (P : prog) (g : R -> R) (ok : R -> Prop) (br : forall (T : Type) (dn : DN R T), T -> T) :
  (forall r, ok r -> okR (r :: nil) P) -> exps (fun _ => True) P -> (forall r, eval (T:=R) (r :: nil) P = g r) ->
  (forall X : Dual R, eval (X :: nil) P = br _ _ X) -> (forall X : Dual2 R, eval (X :: nil) P = br _ _ X) -> (forall X : Dual3 R, eval (X :: nil) P = br _ _ X) ->
  (forall X : HyperDual R, eval (X :: nil) P = br _ _ X) -> (forall X : HyperHyperDual R, eval (X :: nil) P = br _ _ X) ->
  (forall X : DualVec R, eval (X :: nil) P = br _ _ X) -> (forall X : Dual2Vec R, eval (X :: nil) P = br _ _ X) -> (forall X : HyperDualVec R, eval (X :: nil) P = br _ _ X) ->
  BranchOK g ok br.
Proof.
  intros HokR Hexp HgR E1 E2 E3 EH EHH EV E2V EHV.
  split; [|split; [|split; [|split; [|split; [|split; [|split; [|split]]]]]]].
  - intros t0 v X H Hk. rewrite <- E1. apply (tr_first P g ok HokR HgR); assumption.
  - intros t0 v X H Hk. rewrite <- E2. apply (tr_second P g ok HokR HgR); assumption.
  - intros t0 v X H Hk. rewrite <- E3. apply (tr_third P g ok HokR HgR); assumption.
  - intros s0 t0 v X H Hk. rewrite <- EH. apply (tr_mixed P g ok HokR HgR); assumption.
  - intros s0 t0 u0 v X H Hk. rewrite <- EHH. apply (tr_mixed3 P g ok HokR HgR); assumption.
  - intros k Hk t0 v X H Hv. rewrite <- EHH. apply (repX_ext _ _ _ _ (fun t => eval (T:=R) (at_t (v :: nil) t) P)); [|intros; apply HgR].
    apply (directional_HHD k Hk t0 P (v :: nil) (X :: nil)); [constructor; [exact H|constructor]|apply HokR; exact Hv|exact Hexp].
  - intros i t0 v X H Hv. rewrite <- EV. apply (repX_ext _ _ _ _ (fun t => eval (T:=R) (at_t (v :: nil) t) P)); [|intros; apply HgR].
    apply (directional_DualVec i t0 P (v :: nil) (X :: nil)); [constructor; [exact H|constructor]|apply HokR; exact Hv|exact Hexp].
  - intros i t0 v X H Hv. rewrite <- E2V. apply (repX_ext _ _ _ _ (fun t => eval (T:=R) (at_t (v :: nil) t) P)); [|intros; apply HgR].
    apply (directional_Dual2Vec i t0 P (v :: nil) (X :: nil)); [constructor; [exact H|constructor]|apply HokR; exact Hv|exact Hexp].
  - intros l t0 v X H Hv. rewrite <- EHV. apply (repX_ext _ _ _ _ (fun t => eval (T:=R) (at_t (v :: nil) t) P)); [|intros; apply HgR].
    apply (directional_HyperDualVec l t0 P (v :: nil) (X :: nil)); [constructor; [exact H|constructor]|apply HokR; exact Hv|exact Hexp].
Qed.

Ltac okr := repeat match goal with
  | |- _ /\ _ => split
  | |- True => exact I
  | |- (_ < _)%nat => cbn [length app]; lia
  | |- okR _ (polevl_p _ _) => apply okR_polevl
  | |- okR _ (p1evl_p _ _) => apply okR_p1evl
  | |- exps _ (polevl_p _ _) => apply exps_polevl
  | |- exps _ (p1evl_p _ _) => apply exps_p1evl
  | |- okR _ _ => progress cbn [okR app]
  | |- exps _ _ => progress cbn [exps]
  | |- ?a = B_div -> _ => let E := fresh in intros E; try discriminate E; clear E
  end.
Ltac litne := unfold LK; cbn [nth LL_bessel_j0 LL_bessel_j1 LL_bessel_j2]; rcbv; lra.

(* ---- J0 ---- *)
Theorem j0_small_branch : BranchOK (fun r => j0_small (T:=R) (r * r)%rs) (fun _ => True) (fun T dn x => j0_small (x * x)%rs).
Proof.
  apply (branch_ok j0_small_prog).
  - intros r _. unfold j0_small_prog, j0_small_p. okr; litne.
  - unfold j0_small_prog, j0_small_p. okr.
  - intros r. apply (reify_j0_small one_R).
  - intros X; apply (reify_j0_small one_Dual).
  - intros X; apply (reify_j0_small one_Dual2).
  - intros X; apply (reify_j0_small one_Dual3).
  - intros X; apply (reify_j0_small one_HyperDual).
  - intros X; apply (reify_j0_small one_HHD).
  - intros X; apply (reify_j0_small one_DualVec).
  - intros X; apply (reify_j0_small one_Dual2Vec).
  - intros X; apply (reify_j0_small one_HyperDualVec).
Qed.

Lemma okR_j0_mid r : okR (r :: nil) j0_mid_prog.
Proof.
  unfold j0_mid_prog, j0_mid_p. okr.
  rewrite (eval_p1evl one_R). cbn [eval nth app]. apply Rgt_not_eq. apply p1evl_pos; [apply Rle_0_sqr | exact RQ0_pos].
Qed.
Theorem j0_mid_branch : BranchOK (fun r => j0_mid (T:=R) (r * r)%rs) (fun _ => True) (fun T dn x => j0_mid (x * x)%rs).
Proof.
  apply (branch_ok j0_mid_prog).
  - intros r _. apply okR_j0_mid.
  - unfold j0_mid_prog, j0_mid_p. okr.
  - intros r. apply (reify_j0_mid one_R).
  - intros X; apply (reify_j0_mid one_Dual).
  - intros X; apply (reify_j0_mid one_Dual2).
  - intros X; apply (reify_j0_mid one_Dual3).
  - intros X; apply (reify_j0_mid one_HyperDual).
  - intros X; apply (reify_j0_mid one_HHD).
  - intros X; apply (reify_j0_mid one_DualVec).
  - intros X; apply (reify_j0_mid one_Dual2Vec).
  - intros X; apply (reify_j0_mid one_HyperDualVec).
Qed.


(* ---- J1 on |x| <= 5, J2 below 0.25 ---- *)
Lemma okR_j1_mid r : okR (r :: nil) j1_mid_prog.
Proof.
  unfold j1_mid_prog. okr.
  rewrite (eval_p1evl one_R). cbn [eval nth app]. apply Rgt_not_eq. apply p1evl_pos; [apply Rle_0_sqr | exact RQ1_pos].
Qed.
Theorem j1_mid_branch : BranchOK (fun r => j1_mid (T:=R) r) (fun _ => True) (fun T dn x => j1_mid x).
Proof.
  apply (branch_ok j1_mid_prog).
  - intros r _. apply okR_j1_mid.
  - unfold j1_mid_prog. okr.
  - intros r. apply (reify_j1_mid one_R).
  - intros X; apply (reify_j1_mid one_Dual).
  - intros X; apply (reify_j1_mid one_Dual2).
  - intros X; apply (reify_j1_mid one_Dual3).
  - intros X; apply (reify_j1_mid one_HyperDual).
  - intros X; apply (reify_j1_mid one_HHD).
  - intros X; apply (reify_j1_mid one_DualVec).
  - intros X; apply (reify_j1_mid one_Dual2Vec).
  - intros X; apply (reify_j1_mid one_HyperDualVec).
Qed.
Theorem j2_series_branch : BranchOK (fun r => j2_series (T:=R) r) (fun _ => True) (fun T dn x => j2_series x).
Proof.
  apply (branch_ok j2_series_prog).
  - intros r _. unfold j2_series_prog. okr. litne.
  - unfold j2_series_prog. okr.
  - intros r. apply (reify_j2_series (T:=R)).
  - intros X; apply (reify_j2_series (T:=Dual R)).
  - intros X; apply (reify_j2_series (T:=Dual2 R)).
  - intros X; apply (reify_j2_series (T:=Dual3 R)).
  - intros X; apply (reify_j2_series (T:=HyperDual R)).
  - intros X; apply (reify_j2_series (T:=HyperHyperDual R)).
  - intros X; apply (reify_j2_series (T:=DualVec R)).
  - intros X; apply (reify_j2_series (T:=Dual2Vec R)).
  - intros X; apply (reify_j2_series (T:=HyperDualVec R)).
Qed.
(* the recurrence 2 J1(x) / x - J0(x) where both take their rational branches *)
Theorem j2_rec_mid_branch :
  BranchOK (fun r => (j1_mid (T:=R) r * (lk (T:=R) L_bessel_j2 2 : R) / r - j0_mid (T:=R) (r * r))%rs) (fun r => r <> 0)
           (fun T dn x => (j1_mid x * (lk (T:=T) L_bessel_j2 2 : R) / x - j0_mid (x * x))%rs).
Proof.
  apply (branch_ok j2_rec_mid_prog).
  - intros r Hr. unfold j2_rec_mid_prog. cbn [okR]. split; [split; [split; [apply okR_j1_mid|intros E; discriminate E]|split; [simpl; lia|intros _; exact Hr]]|].
    split; [apply okR_j0_mid|intros E; discriminate E].
  - unfold j2_rec_mid_prog, j1_mid_prog, j0_mid_prog, j0_mid_p. okr.
  - intros r. apply (reify_j2_rec_mid one_R).
  - intros X; apply (reify_j2_rec_mid one_Dual).
  - intros X; apply (reify_j2_rec_mid one_Dual2).
  - intros X; apply (reify_j2_rec_mid one_Dual3).
  - intros X; apply (reify_j2_rec_mid one_HyperDual).
  - intros X; apply (reify_j2_rec_mid one_HHD).
  - intros X; apply (reify_j2_rec_mid one_DualVec).
  - intros X; apply (reify_j2_rec_mid one_Dual2Vec).
  - intros X; apply (reify_j2_rec_mid one_HyperDualVec).
Qed.

(* ---- the asymptotic branch of J0 on x > 0 ---- *)
Lemma okR_j0_asym r : 0 < r -> okR (r :: nil) j0_asym_prog.
Proof.
  intros Hr. unfold j0_asym_prog, asym_p. cbv zeta. okr.
  - cbn [eval nth]. simpl. lra.
  - unfold BL_PQ0. rewrite (eval_polevl (T:=R)). cbn [eval nth app Nat.add]. apply Rgt_not_eq. apply polevl_pos; [apply Rle_0_sqr | discriminate | exact PQ0_pos].
  - rewrite (eval_p1evl one_R). cbn [eval nth app Nat.add]. apply Rgt_not_eq. apply p1evl_pos; [apply Rle_0_sqr | exact QQ0_pos].
  - cbn [eval nth app]. exact I.
  - cbn [eval nth app]. exact I.
  - cbn [eval nth app]. lra.
  - cbn [eval nth app]. simpl. change (0 < (2 / PI) / r). pose proof PI_RGT_0. apply Rdiv_lt_0_compat; [apply Rdiv_lt_0_compat; lra | exact Hr].
Qed.
Theorem j0_asym_branch : BranchOK (fun r => j0_asym (T:=R) r) (fun r => 0 < r) (fun T dn x => j0_asym x).
Proof.
  apply (branch_ok j0_asym_prog).
  - intros r Hr. apply okR_j0_asym; exact Hr.
  - unfold j0_asym_prog, asym_p. cbv zeta. okr.
  - intros r. apply (reify_j0_asym one_R sc_R).
  - intros X; apply (reify_j0_asym one_Dual sc_Dual).
  - intros X; apply (reify_j0_asym one_Dual2 sc_Dual2).
  - intros X; apply (reify_j0_asym one_Dual3 sc_Dual3).
  - intros X; apply (reify_j0_asym one_HyperDual sc_HyperDual).
  - intros X; apply (reify_j0_asym one_HHD sc_HHD).
  - intros X; apply (reify_j0_asym one_DualVec sc_DualVec).
  - intros X; apply (reify_j0_asym one_Dual2Vec sc_Dual2Vec).
  - intros X; apply (reify_j0_asym one_HyperDualVec sc_HyperDualVec).
Qed.

(* ---- the asymptotic branch of J1 on x > 0: there signum = 1 and |x| = x, and the branch is the one-input program below ---- *)
Definition j1_asym_pos_prog : prog :=
  asym_p 0 1 BL_PP1 BL_PQ1 BL_QP1 BL_QQ1 (LK LL_bessel_j1 1) (CM (LK LL_bessel_j1 2) (CK C_FRAC_PI_4)) (fun p' => PBin B_mul (PConst CO) p').
Definition j1_asym_pos {F T : Type} {dn : DN F T} (x : T) : T := eval (x :: nil) j1_asym_pos_prog.
Section Pos.
  Context {F T : Type} {dn : DN F T}.
  #[local] Instance flF_pos : FL F := dn_fl (T:=T).
  Hypothesis Hone : (ofF (Overload.one : F) : T) = (Overload.one : T).
  Hypothesis Hsc : forall x : T, m_sin_cos x = (m_sin x, m_cos x).
  Lemma j1_asym_is_pos (x : T) : m_signum x = (Overload.one : T) -> m_abs x = x -> j1_asym x = j1_asym_pos x.
  Proof.
    intros Hs Ha. rewrite <- (reify_j1_asym Hone Hsc). rewrite Hs, Ha. unfold j1_asym_pos, j1_asym_pos_prog, j1_asym_prog, asym_p. cbv zeta. cbn [eval app nth Nat.add].
    change (cval CO : F) with (Overload.one : F). rewrite Hone. reflexivity.
  Qed.
End Pos.
Lemma sg_Dual2 (d : Dual2 R) : 0 < Dual2_f_re d -> m_signum d = (Overload.one : Dual2 R) /\ m_abs d = d.
Proof. destruct d; intros H; cbn in H. split; rcbv; unfold Rleb, Reqb; dec_R; reflexivity. Qed.
Lemma sg_R (d : R) : 0 < d -> m_signum d = (Overload.one : R) /\ m_abs d = d.
Proof. intros H. split; rcbv; unfold Rleb, Reqb; dec_R; try reflexivity. apply Rabs_pos_eq; lra. Qed.
Lemma sg_Dual (d : Dual R) : 0 < Dual_f_re d -> m_signum d = (Overload.one : Dual R) /\ m_abs d = d.
Proof. destruct d; intros H; cbn in H. split; rcbv; unfold Rleb, Reqb; dec_R; reflexivity. Qed.
Lemma sg_Dual3 (d : Dual3 R) : 0 < Dual3_f_re d -> m_signum d = (Overload.one : Dual3 R) /\ m_abs d = d.
Proof. destruct d; intros H; cbn in H. split; rcbv; unfold Rleb, Reqb; dec_R; reflexivity. Qed.
Lemma sg_HyperDual (d : HyperDual R) : 0 < HyperDual_f_re d -> m_signum d = (Overload.one : HyperDual R) /\ m_abs d = d.
Proof. destruct d; intros H; cbn in H. split; rcbv; unfold Rleb, Reqb; dec_R; reflexivity. Qed.
Lemma sg_HHD (d : HyperHyperDual R) : 0 < part_HHD d nil -> m_signum d = (Overload.one : HyperHyperDual R) /\ m_abs d = d.
Proof. destruct d; intros H; cbn in H. split; rcbv; unfold Rleb, Reqb; dec_R; reflexivity. Qed.
Lemma sg_DualVec (d : DualVec R) : 0 < part_DualVec d nil -> m_signum d = (Overload.one : DualVec R) /\ m_abs d = d.
Proof. destruct d; intros H; cbn in H. split; rcbv; unfold Rleb, Reqb; dec_R; reflexivity. Qed.
Lemma sg_Dual2Vec (d : Dual2Vec R) : 0 < part_Dual2Vec d nil -> m_signum d = (Overload.one : Dual2Vec R) /\ m_abs d = d.
Proof. destruct d; intros H; cbn in H. split; rcbv; unfold Rleb, Reqb; dec_R; reflexivity. Qed.
Lemma sg_HyperDualVec (d : HyperDualVec R) : 0 < part_HyperDualVec d nil -> m_signum d = (Overload.one : HyperDualVec R) /\ m_abs d = d.
Proof. destruct d; intros H; cbn in H. split; rcbv; unfold Rleb, Reqb; dec_R; reflexivity. Qed.
Lemma okR_j1_asym_pos r : 0 < r -> okR (r :: nil) j1_asym_pos_prog.
Proof.
  intros Hr. unfold j1_asym_pos_prog, asym_p. cbv zeta. okr.
  - cbn [eval nth]. simpl. lra.
  - unfold BL_PQ1. rewrite (eval_polevl (T:=R)). cbn [eval nth app Nat.add]. apply Rgt_not_eq. apply polevl_pos; [apply Rle_0_sqr | discriminate | exact PQ1_pos].
  - rewrite (eval_p1evl one_R). cbn [eval nth app Nat.add]. apply Rgt_not_eq. apply p1evl_pos; [apply Rle_0_sqr | exact QQ1_pos].
  - cbn [eval nth app]. exact I.
  - cbn [eval nth app]. exact I.
  - cbn [eval nth app]. lra.
  - cbn [eval nth app]. simpl. change (0 < (2 / PI) / r). pose proof PI_RGT_0. apply Rdiv_lt_0_compat; [apply Rdiv_lt_0_compat; lra | exact Hr].
Qed.
Theorem j1_asym_pos_branch : BranchOK (fun r => j1_asym_pos (T:=R) r) (fun r => 0 < r) (fun T dn x => j1_asym_pos x).
Proof.
  apply (branch_ok j1_asym_pos_prog); try (intros; reflexivity).
  - intros r Hr. apply okR_j1_asym_pos; exact Hr.
  - unfold j1_asym_pos_prog, asym_p. cbv zeta. okr.
Qed.
(* on a positive real part the model's branch IS that program, in every type *)
Theorem j1_asym_positive :
  (forall x : R, 0 < x -> j1_asym x = j1_asym_pos x) /\ (forall x : Dual R, 0 < Dual_f_re x -> j1_asym x = j1_asym_pos x) /\
  (forall x : Dual2 R, 0 < Dual2_f_re x -> j1_asym x = j1_asym_pos x) /\ (forall x : Dual3 R, 0 < Dual3_f_re x -> j1_asym x = j1_asym_pos x) /\
  (forall x : HyperDual R, 0 < HyperDual_f_re x -> j1_asym x = j1_asym_pos x) /\ (forall x : HyperHyperDual R, 0 < part_HHD x nil -> j1_asym x = j1_asym_pos x) /\
  (forall x : DualVec R, 0 < part_DualVec x nil -> j1_asym x = j1_asym_pos x) /\ (forall x : Dual2Vec R, 0 < part_Dual2Vec x nil -> j1_asym x = j1_asym_pos x) /\
  (forall x : HyperDualVec R, 0 < part_HyperDualVec x nil -> j1_asym x = j1_asym_pos x).
Proof.
  split; [|split; [|split; [|split; [|split; [|split; [|split; [|split]]]]]]]; intros x Hx.
  - destruct (sg_R x Hx). apply (j1_asym_is_pos one_R sc_R); assumption.
  - destruct (sg_Dual x Hx). apply (j1_asym_is_pos one_Dual sc_Dual); assumption.
  - destruct (sg_Dual2 x Hx). apply (j1_asym_is_pos one_Dual2 sc_Dual2); assumption.
  - destruct (sg_Dual3 x Hx). apply (j1_asym_is_pos one_Dual3 sc_Dual3); assumption.
  - destruct (sg_HyperDual x Hx). apply (j1_asym_is_pos one_HyperDual sc_HyperDual); assumption.
  - destruct (sg_HHD x Hx). apply (j1_asym_is_pos one_HHD sc_HHD); assumption.
  - destruct (sg_DualVec x Hx). apply (j1_asym_is_pos one_DualVec sc_DualVec); assumption.
  - destruct (sg_Dual2Vec x Hx). apply (j1_asym_is_pos one_Dual2Vec sc_Dual2Vec); assumption.
  - destruct (sg_HyperDualVec x Hx). apply (j1_asym_is_pos one_HyperDualVec sc_HyperDualVec); assumption.
Qed.

(* ---- the functions themselves (branch selection included) at second and third order, on the open ranges ---- *)
Lemma neg_Dual2 (d : Dual2 R) : (m_is_negative d : bool) = if Rlt_dec (m_re d) 0 then true else false.
Proof. destruct d; simpl. rcbv. unfold Rleb. dec_R; reflexivity. Qed.
Lemma neg_Dual3 (d : Dual3 R) : (m_is_negative d : bool) = if Rlt_dec (m_re d) 0 then true else false.
Proof. destruct d; simpl. rcbv. unfold Rleb. dec_R; reflexivity. Qed.
Ltac j0br T negL := unfold bessel_j0; rewrite negL;
  repeat split; intros; (match goal with |- context [Rlt_dec ?a 0] => destruct (Rlt_dec a 0); [lra|] end);
    change (@lk R T _ L_bessel_j0 0) with (@lk R R _ L_bessel_j0 0); change (@lk R T _ L_bessel_j0 1) with (@lk R R _ L_bessel_j0 1);
    change (@hleb R R _) with Rleb; change (@hltb R R _) with Rltb; unfold Rleb, Rltb; dec_R; reflexivity.
Lemma j0_branches_Dual2 (d : Dual2 R) :
  (lk (T:=R) L_bessel_j0 1 <= m_re d <= lk (T:=R) L_bessel_j0 0 -> 0 <= m_re d -> bessel_j0 d = j0_mid (d * d)%rs) /\
  (lk (T:=R) L_bessel_j0 0 < m_re d -> 0 <= m_re d -> bessel_j0 d = j0_asym d).
Proof. j0br (Dual2 R) neg_Dual2. Qed.
Lemma j0_branches_Dual3 (d : Dual3 R) :
  (lk (T:=R) L_bessel_j0 1 <= m_re d <= lk (T:=R) L_bessel_j0 0 -> 0 <= m_re d -> bessel_j0 d = j0_mid (d * d)%rs) /\
  (lk (T:=R) L_bessel_j0 0 < m_re d -> 0 <= m_re d -> bessel_j0 d = j0_asym d).
Proof. j0br (Dual3 R) neg_Dual3. Qed.

Ltac j0mid_loc v t0 Hd Ha Hb :=
  pose proof (locally_gt v t0 _ _ Hd Ha) as La; pose proof (locally_lt v t0 _ _ Hd Hb) as Lb;
  apply (filter_imp (fun t => lk (T:=R) L_bessel_j0 1 < v t /\ v t < lk (T:=R) L_bessel_j0 0)); [|apply filter_and; assumption];
  let t := fresh "t" in let Ta := fresh in let Tb := fresh in
  intros t [Ta Tb]; destruct (j0_branches_R (v t) ltac:(lra)) as [_ [Bm' _]]; rewrite Bm' by lra; reflexivity.
Ltac j0out_loc v t0 Hd Ha :=
  pose proof (locally_gt v t0 _ _ Hd Ha) as La;
  apply (filter_imp (fun t => lk (T:=R) L_bessel_j0 0 < v t)); [|exact La];
  let t := fresh "t" in let Ta := fresh in
  intros t Ta; destruct (j0_branches_R (v t) ltac:(lra)) as [_ [_ Bo']]; rewrite Bo' by lra; reflexivity.

Theorem j0_second_mid t0 v (x : Dual2 R) : Rep2 t0 v x -> lk (T:=R) L_bessel_j0 1 < v t0 < lk (T:=R) L_bessel_j0 0 ->
  Rep2 t0 (fun t => bessel_j0 (T:=R) (v t)) (bessel_j0 x).
Proof.
  intros H [Ha Hb]. destruct lits_j0 as [E1 E0]. pose proof H as [Hre [v' [Lv _]]]. pose proof (rep2_at _ _ _ Lv) as Hd.
  assert (Hx : m_re x = v t0) by exact Hre.
  destruct (j0_branches_Dual2 x) as [Bm _]. rewrite Bm by (rewrite Hx; lra).
  apply (rep2_ext_loc t0 (fun t => j0_mid (T:=R) (v t * v t)%rs)).
  - destruct j0_mid_branch as [_ [B2 _]]. apply (B2 t0 v x H I).
  - j0mid_loc v t0 Hd Ha Hb.
Qed.
Theorem j0_second_outer t0 v (x : Dual2 R) : Rep2 t0 v x -> lk (T:=R) L_bessel_j0 0 < v t0 ->
  Rep2 t0 (fun t => bessel_j0 (T:=R) (v t)) (bessel_j0 x).
Proof.
  intros H Ha. destruct lits_j0 as [E1 E0]. pose proof H as [Hre [v' [Lv _]]]. pose proof (rep2_at _ _ _ Lv) as Hd.
  assert (Hx : m_re x = v t0) by exact Hre.
  destruct (j0_branches_Dual2 x) as [_ Bo]. rewrite Bo by (rewrite Hx; lra).
  apply (rep2_ext_loc t0 (fun t => j0_asym (T:=R) (v t))).
  - destruct j0_asym_branch as [_ [B2 _]]. apply (B2 t0 v x H). lra.
  - j0out_loc v t0 Hd Ha.
Qed.
Theorem j0_third_mid t0 v (x : Dual3 R) : Rep3 t0 v x -> lk (T:=R) L_bessel_j0 1 < v t0 < lk (T:=R) L_bessel_j0 0 ->
  Rep3 t0 (fun t => bessel_j0 (T:=R) (v t)) (bessel_j0 x).
Proof.
  intros H [Ha Hb]. destruct lits_j0 as [E1 E0]. pose proof H as [Hre [v' [v'' [Lv _]]]]. pose proof (rep2_at _ _ _ Lv) as Hd.
  assert (Hx : m_re x = v t0) by exact Hre.
  destruct (j0_branches_Dual3 x) as [Bm _]. rewrite Bm by (rewrite Hx; lra).
  apply (rep3_ext_loc t0 (fun t => j0_mid (T:=R) (v t * v t)%rs)).
  - destruct j0_mid_branch as [_ [_ [B3 _]]]. apply (B3 t0 v x H I).
  - j0mid_loc v t0 Hd Ha Hb.
Qed.
Theorem j0_third_outer t0 v (x : Dual3 R) : Rep3 t0 v x -> lk (T:=R) L_bessel_j0 0 < v t0 ->
  Rep3 t0 (fun t => bessel_j0 (T:=R) (v t)) (bessel_j0 x).
Proof.
  intros H Ha. destruct lits_j0 as [E1 E0]. pose proof H as [Hre [v' [v'' [Lv _]]]]. pose proof (rep2_at _ _ _ Lv) as Hd.
  assert (Hx : m_re x = v t0) by exact Hre.
  destruct (j0_branches_Dual3 x) as [_ Bo]. rewrite Bo by (rewrite Hx; lra).
  apply (rep3_ext_loc t0 (fun t => j0_asym (T:=R) (v t))).
  - destruct j0_asym_branch as [_ [_ [B3 _]]]. apply (B3 t0 v x H). lra.
  - j0out_loc v t0 Hd Ha.
Qed.

Lemma re_abs_Dual2 (d : Dual2 R) : m_re (m_abs d) = Rabs (m_re d).
Proof. destruct d as [r a b]. rcbv. unfold Rleb. destruct (Rle_dec 0 r); simpl; unfold Rabs; destruct (Rcase_abs r); lra. Qed.
Lemma re_abs_Dual3 (d : Dual3 R) : m_re (m_abs d) = Rabs (m_re d).
Proof. destruct d as [r a b c]. rcbv. unfold Rleb. destruct (Rle_dec 0 r); simpl; unfold Rabs; destruct (Rcase_abs r); lra. Qed.
Lemma j1_branch_Dual2 (d : Dual2 R) : Rabs (m_re d) <= lk (T:=R) L_bessel_j1 0 -> bessel_j1 d = j1_mid d.
Proof.
  intros H. unfold bessel_j1. cbv zeta. change (@hleb R R _) with Rleb.
  match goal with |- context [Rleb ?t ?c] => replace t with (Rabs (m_re d)) by (symmetry; exact (re_abs_Dual2 d)); change c with (lk (T:=R) L_bessel_j1 0) end.
  rewrite (Rleb_abs _ _ H). reflexivity.
Qed.
Lemma j1_branch_Dual3 (d : Dual3 R) : Rabs (m_re d) <= lk (T:=R) L_bessel_j1 0 -> bessel_j1 d = j1_mid d.
Proof.
  intros H. unfold bessel_j1. cbv zeta. change (@hleb R R _) with Rleb.
  match goal with |- context [Rleb ?t ?c] => replace t with (Rabs (m_re d)) by (symmetry; exact (re_abs_Dual3 d)); change c with (lk (T:=R) L_bessel_j1 0) end.
  rewrite (Rleb_abs _ _ H). reflexivity.
Qed.
Ltac j1_loc v t0 Hd Ha E0 :=
  rewrite E0 in Ha; apply Rabs_def2 in Ha; destruct Ha as [Hb Hc];
  pose proof (locally_gt v t0 _ _ Hd Hc) as La; pose proof (locally_lt v t0 _ _ Hd Hb) as Lb;
  apply (filter_imp (fun t => -5 < v t /\ v t < 5)); [|apply filter_and; assumption];
  let t := fresh "t" in let Ta := fresh in let Tb := fresh in
  intros t [Ta Tb]; rewrite j1_branch_R; [reflexivity|]; rewrite E0; apply Rabs_le_between; lra.
Theorem j1_second_mid t0 v (x : Dual2 R) : Rep2 t0 v x -> Rabs (v t0) < lk (T:=R) L_bessel_j1 0 ->
  Rep2 t0 (fun t => bessel_j1 (T:=R) (v t)) (bessel_j1 x).
Proof.
  intros H Ha. pose proof lits_j1 as E0. pose proof H as [Hre [v' [Lv _]]]. pose proof (rep2_at _ _ _ Lv) as Hd.
  assert (Hx : m_re x = v t0) by exact Hre.
  rewrite (j1_branch_Dual2 x) by (rewrite Hx; lra).
  apply (rep2_ext_loc t0 (fun t => j1_mid (T:=R) (v t))).
  - destruct j1_mid_branch as [_ [B2 _]]. apply (B2 t0 v x H I).
  - j1_loc v t0 Hd Ha E0.
Qed.
Theorem j1_third_mid t0 v (x : Dual3 R) : Rep3 t0 v x -> Rabs (v t0) < lk (T:=R) L_bessel_j1 0 ->
  Rep3 t0 (fun t => bessel_j1 (T:=R) (v t)) (bessel_j1 x).
Proof.
  intros H Ha. pose proof lits_j1 as E0. pose proof H as [Hre [v' [v'' [Lv _]]]]. pose proof (rep2_at _ _ _ Lv) as Hd.
  assert (Hx : m_re x = v t0) by exact Hre.
  rewrite (j1_branch_Dual3 x) by (rewrite Hx; lra).
  apply (rep3_ext_loc t0 (fun t => j1_mid (T:=R) (v t))).
  - destruct j1_mid_branch as [_ [_ [B3 _]]]. apply (B3 t0 v x H I).
  - j1_loc v t0 Hd Ha E0.
Qed.

Lemma j2_branch_Dual2 (d : Dual2 R) : Rabs (m_re d) < lk (T:=R) L_bessel_j2 0 -> bessel_j2 d = j2_series d.
Proof.
  unfold bessel_j2. change (std_abs (m_re d : R)) with (Rabs (m_re d)).
  change (@lk R (Dual2 R) _ L_bessel_j2 0) with (@lk R R _ L_bessel_j2 0). change (@hltb R R _) with Rltb. unfold Rltb.
  intros H; dec_R; reflexivity.
Qed.
Lemma j2_branch_Dual3 (d : Dual3 R) : Rabs (m_re d) < lk (T:=R) L_bessel_j2 0 -> bessel_j2 d = j2_series d.
Proof.
  unfold bessel_j2. change (std_abs (m_re d : R)) with (Rabs (m_re d)).
  change (@lk R (Dual3 R) _ L_bessel_j2 0) with (@lk R R _ L_bessel_j2 0). change (@hltb R R _) with Rltb. unfold Rltb.
  intros H; dec_R; reflexivity.
Qed.
Ltac j2_loc v t0 Hd Ha E0 :=
  rewrite E0 in Ha; apply Rabs_def2 in Ha; destruct Ha as [Hb Hc];
  pose proof (locally_gt v t0 _ _ Hd Hc) as La; pose proof (locally_lt v t0 _ _ Hd Hb) as Lb;
  apply (filter_imp (fun t => - (1 / 4) < v t /\ v t < 1 / 4)); [|apply filter_and; assumption];
  let t := fresh "t" in let Ta := fresh in let Tb := fresh in
  intros t [Ta Tb]; rewrite j2_branch_R; [reflexivity|]; rewrite E0; apply Rabs_def1; lra.
Theorem j2_second_small t0 v (x : Dual2 R) : Rep2 t0 v x -> Rabs (v t0) < lk (T:=R) L_bessel_j2 0 ->
  Rep2 t0 (fun t => bessel_j2 (T:=R) (v t)) (bessel_j2 x).
Proof.
  intros H Ha. pose proof lits_j2 as E0. pose proof H as [Hre [v' [Lv _]]]. pose proof (rep2_at _ _ _ Lv) as Hd.
  assert (Hx : m_re x = v t0) by exact Hre.
  rewrite (j2_branch_Dual2 x) by (rewrite Hx; exact Ha).
  apply (rep2_ext_loc t0 (fun t => j2_series (T:=R) (v t))).
  - destruct j2_series_branch as [_ [B2 _]]. apply (B2 t0 v x H I).
  - j2_loc v t0 Hd Ha E0.
Qed.
Theorem j2_third_small t0 v (x : Dual3 R) : Rep3 t0 v x -> Rabs (v t0) < lk (T:=R) L_bessel_j2 0 ->
  Rep3 t0 (fun t => bessel_j2 (T:=R) (v t)) (bessel_j2 x).
Proof.
  intros H Ha. pose proof lits_j2 as E0. pose proof H as [Hre [v' [v'' [Lv _]]]]. pose proof (rep2_at _ _ _ Lv) as Hd.
  assert (Hx : m_re x = v t0) by exact Hre.
  rewrite (j2_branch_Dual3 x) by (rewrite Hx; exact Ha).
  apply (rep3_ext_loc t0 (fun t => j2_series (T:=R) (v t))).
  - destruct j2_series_branch as [_ [_ [B3 _]]]. apply (B3 t0 v x H I).
  - j2_loc v t0 Hd Ha E0.
Qed.

(* non-vacuity: x = 2 on the middle range of J0 with the unit seed at second order *)
Example example_c14_second : Rep2 2 (fun t => t) (mkDual2 2 1 0) /\ lk (T:=R) L_bessel_j0 1 < 2 < lk (T:=R) L_bessel_j0 0.
Proof.
  split; [|destruct lits_j0 as [-> ->]; lra].
  split; [reflexivity|]. exists (fun _ => 1). split; [|split].
  - apply locally_true. intros t. apply (is_derive_id (K:=R_AbsRing) t).
  - reflexivity.
  - apply (is_derive_const (V:=R_NormedModule) 1 2).
Qed.

(* ---- bessel_j2 itself on 0.25 < x < 5: the recurrence 2 J1(x)/x - J0(x) with both functions on their rational branches, at first order ---- *)
Lemma j2_rec_R (r : R) : 1 / 4 < r < 5 ->
  bessel_j2 (T:=R) r = (j1_mid (T:=R) r * (lk (T:=R) L_bessel_j2 2 : R) / r - j0_mid (T:=R) (r * r))%rs.
Proof.
  intros [Ha Hb]. pose proof lits_j2 as E2. destruct lits_j0 as [E1 E0]. pose proof lits_j1 as EJ1.
  assert (Hr : Rabs r = r) by (apply Rabs_pos_eq; lra).
  unfold bessel_j2. change (std_abs (m_re r : R)) with (Rabs r). change (@hltb R R _) with Rltb. unfold Rltb.
  destruct (Rlt_dec (Rabs r) (lk (T:=R) L_bessel_j2 0)) as [H|_]; [assert (H' : r < 1 / 4) by (rewrite <- Hr, <- E2; exact H); lra|].
  unfold j2_rec. rewrite (j1_branch_R r) by (rewrite EJ1, Hr; lra).
  destruct (j0_branches_R r ltac:(lra)) as [_ [Bm _]]. rewrite Bm by (rewrite E1, E0; lra). reflexivity.
Qed.
Theorem j2_derivative_rec_mid t0 v (x : Dual R) : Rep1 t0 v x -> 1 / 4 < v t0 < 5 ->
  Rep1 t0 (fun t => bessel_j2 (T:=R) (v t)) (bessel_j2 x).
Proof.
  intros H [Ha Hb]. pose proof lits_j2 as E2. destruct lits_j0 as [E1 E0]. pose proof lits_j1 as EJ1. pose proof H as [Hre Hd].
  assert (Hx : m_re x = v t0) by exact Hre.
  assert (Hr : Rabs (v t0) = v t0) by (apply Rabs_pos_eq; lra).
  destruct (j2_branches x) as [_ Br]. rewrite Br by (rewrite Hx, Hr, E2; lra).
  rewrite (j1_branch_Dual x) by (rewrite Hx, EJ1, Hr; lra).
  destruct (j0_branches x) as [_ [Bm _]]. rewrite Bm by (rewrite Hx, ?E1, ?E0; lra).
  apply (rep_ext_loc t0 (fun t => (j1_mid (T:=R) (v t) * (lk (T:=R) L_bessel_j2 2 : R) / v t - j0_mid (T:=R) (v t * v t))%rs)).
  - destruct j2_rec_mid_branch as [B1 _]. apply (B1 t0 v x H). lra.
  - pose proof (locally_gt v t0 _ _ Hd Ha) as La. pose proof (locally_lt v t0 _ _ Hd Hb) as Lb.
    apply (filter_imp (fun t => 1 / 4 < v t /\ v t < 5)); [|apply filter_and; assumption].
    intros t [Ta Tb]. rewrite j2_rec_R by (split; assumption). reflexivity.
Qed.
