(* Proofs/C03_third.v -- third order: for every program, the v3 part of the evaluation over Dual3 is the THIRD derivative of the real function the
   program computes along the input curves (v1 the first, v2 the second), at every point of the domain.
   Rep3 t0 v d: there are derivative functions v', v'' of v, v' near t0 with v1 = v'(t0), v2 = v''(t0), and v3 is the derivative of v'' at t0. *)
From ND Require Import Tactics C02_proofs C01_towers C01_faa C07_proofs C09_proofs Prog Agree C04_inst C03_proofs C03_second.
Local Open Scope R_scope.

Definition Rep3 (t0 : R) (v : R -> R) (d : Dual3 R) : Prop :=
  Dual3_f_re d = v t0 /\
  exists v' v'' : R -> R, locally t0 (fun t => is_derive v t (v' t)) /\ locally t0 (fun t => is_derive v' t (v'' t)) /\
    Dual3_f_v1 d = v' t0 /\ Dual3_f_v2 d = v'' t0 /\ is_derive v'' t0 (Dual3_f_v3 d).

Lemma dual3_parts (d : Dual3 R) : part_Dual3 d nil = Dual3_f_re d /\ part_Dual3 d (tt :: nil) = Dual3_f_v1 d /\
  part_Dual3 d (tt :: tt :: nil) = Dual3_f_v2 d /\ part_Dual3 d (tt :: tt :: tt :: nil) = Dual3_f_v3 d.
Proof. destruct d; repeat split; reflexivity. Qed.
Lemma faa_three {L} f (p : @block L -> R) i j k : faa f p (i :: j :: k :: nil) =
  f 1%nat * p (i :: j :: k :: nil) + f 2%nat * (p (i :: nil) * p (j :: k :: nil) + p (j :: nil) * p (i :: k :: nil) + p (k :: nil) * p (i :: j :: nil))
  + f 3%nat * p (i :: nil) * p (j :: nil) * p (k :: nil).
Proof. unfold faa; simpl. ring. Qed.

Ltac un H := match type of H with is_derive ?f ?x ?l => rewrite ?(is_derive_unique (fun y : R => f y) x l H) end.
Ltac exd := repeat split; try (eexists; eassumption); auto.
Ltac loc4 A B C D := match goal with |- locally ?t0 _ =>
  apply (filter_imp (fun t => (A t /\ B t) /\ (C t /\ D t))); [|apply filter_and; apply filter_and; assumption] end.

Section Third.
  Variable t0 : R.

  Lemma rep3_const c : Rep3 t0 (fun _ => c) (ofF c).
  Proof.
    split; [reflexivity|]. exists (fun _ => 0), (fun _ => 0). split; [|split; [|split; [|split]]].
    - apply locally_true. intros t. apply (is_derive_const (V:=R_NormedModule) c t).
    - apply locally_true. intros t. apply (is_derive_const (V:=R_NormedModule) 0 t).
    - reflexivity.
    - reflexivity.
    - apply (is_derive_const (V:=R_NormedModule) 0 t0).
  Qed.

  Lemma rep3_bin b v w x y : Rep3 t0 v x -> Rep3 t0 w y -> (b = B_div -> w t0 <> 0) ->
    Rep3 t0 (fun t => eval_bin (T:=R) b (v t) (w t)) (eval_bin b x y).
  Proof.
    intros [Hx [v' [v'' [Lv [Lv' [Hx1 [Hx2 Dv'']]]]]]] [Hy [w' [w'' [Lw [Lw' [Hy1 [Hy2 Dw'']]]]]]] Hd.
    pose proof (rep2_at _ _ _ Lv) as Dv. pose proof (rep2_at _ _ _ Lw) as Dw.
    pose proof (rep2_at _ _ _ Lv') as Dv'. pose proof (rep2_at _ _ _ Lw') as Dw'.
    destruct x as [x0 x1 x2 x3], y as [y0 y1 y2 y3]; simpl in Hx, Hy, Hx1, Hy1, Hx2, Hy2, Dv'', Dw''. subst x0 y0 x1 y1 x2 y2.
    assert (L4 : locally t0 (fun t => (is_derive v t (v' t) /\ is_derive v' t (v'' t)) /\ (is_derive w t (w' t) /\ is_derive w' t (w'' t)))).
    { apply filter_and; apply filter_and; assumption. }
    destruct b.
    - split; [rcbv; reflexivity|]. exists (fun t => v' t + w' t), (fun t => v'' t + w'' t). split; [|split; [|split; [|split]]].
      + eapply filter_imp; [|exact L4]. intros t H; destruct H as [[A _] [B _]]. apply (is_derive_plus (V:=R_NormedModule) v w t _ _ A B).
      + eapply filter_imp; [|exact L4]. intros t H; destruct H as [[_ A] [_ B]]. apply (is_derive_plus (V:=R_NormedModule) v' w' t _ _ A B).
      + rcbv; reflexivity.
      + rcbv; reflexivity.
      + eapply is_derive_val; [apply (is_derive_plus (V:=R_NormedModule) v'' w'' t0 _ _ Dv'' Dw'')|]. rcbv. reflexivity.
    - split; [rcbv; reflexivity|]. exists (fun t => v' t - w' t), (fun t => v'' t - w'' t). split; [|split; [|split; [|split]]].
      + eapply filter_imp; [|exact L4]. intros t H; destruct H as [[A _] [B _]]. apply (is_derive_minus (V:=R_NormedModule) v w t _ _ A B).
      + eapply filter_imp; [|exact L4]. intros t H; destruct H as [[_ A] [_ B]]. apply (is_derive_minus (V:=R_NormedModule) v' w' t _ _ A B).
      + rcbv; reflexivity.
      + rcbv; reflexivity.
      + eapply is_derive_val; [apply (is_derive_minus (V:=R_NormedModule) v'' w'' t0 _ _ Dv'' Dw'')|]. rcbv. reflexivity.
    - split; [rcbv; reflexivity|].
      exists (fun t => v' t * w t + v t * w' t), (fun t => v'' t * w t + 2 * (v' t * w' t) + v t * w'' t). split; [|split; [|split; [|split]]].
      + eapply filter_imp; [|exact L4]. intros t H; destruct H as [[A _] [B _]]. change (is_derive (fun s => v s * w s) t (v' t * w t + v t * w' t)). auto_derive; [exd|]. un A; un B. ring.
      + eapply filter_imp; [|exact L4]. intros t H; destruct H as [[A A'] [B B']]. auto_derive; [exd|]. un A; un B; un A'; un B'. ring.
      + rcbv. ring.
      + rcbv. ring.
      + auto_derive; [exd|]. un Dv; un Dw; un Dv'; un Dw'; un Dv''; un Dw''. rcbv. ring.
    - assert (Hw : w t0 <> 0) by (apply Hd; reflexivity).
      pose proof (locally_ne0 w t0 _ Dw Hw) as Ln.
      split; [rcbv; field; exact Hw|].
      exists (fun t => (v' t * w t - v t * w' t) / (w t * w t)),
             (fun t => ((v'' t * w t - v t * w'' t) * w t - 2 * w' t * (v' t * w t - v t * w' t)) / (w t * w t * w t)). split; [|split; [|split; [|split]]].
      + eapply filter_imp; [|exact (filter_and _ _ L4 Ln)]. intros t H; destruct H as [[[A _] [B _]] C]. change (is_derive (fun s => v s / w s) t ((v' t * w t - v t * w' t) / (w t * w t))). auto_derive; [exd|]. un A; un B. field. exact C.
      + eapply filter_imp; [|exact (filter_and _ _ L4 Ln)]. intros t H; destruct H as [[[A A'] [B B']] C]. auto_derive; [exd|]. un A; un B; un A'; un B'. field. exact C.
      + rcbv. field. exact Hw.
      + rcbv. field. exact Hw.
      + auto_derive; [exd|]. un Dv; un Dw; un Dv'; un Dw'; un Dv''; un Dw''. rcbv. field. exact Hw.
  Qed.

  Lemma rep3_scal b v x (c : R) : Rep3 t0 v x -> (b = B_div -> c <> 0) -> Rep3 t0 (fun t => eval_scal (T:=R) b (v t) c) (eval_scal b x c).
  Proof.
    intros [Hx [v' [v'' [Lv [Lv' [Hx1 [Hx2 Dv'']]]]]]] Hc.
    pose proof (rep2_at _ _ _ Lv) as Dv. pose proof (rep2_at _ _ _ Lv') as Dv'.
    destruct x as [x0 x1 x2 x3]; simpl in Hx, Hx1, Hx2, Dv''. subst x0 x1 x2.
    destruct b.
    - split; [rcbv; reflexivity|]. exists v', v''. split; [|split; [|split; [|split]]].
      + eapply filter_imp; [|exact Lv]. intros t A; cbv beta in A. change (is_derive (fun s => v s + c) t (v' t)). auto_derive; [exd|]. un A. ring.
      + exact Lv'.
      + rcbv; reflexivity.
      + rcbv; reflexivity.
      + eapply is_derive_val; [exact Dv''|]. rcbv. reflexivity.
    - split; [rcbv; reflexivity|]. exists v', v''. split; [|split; [|split; [|split]]].
      + eapply filter_imp; [|exact Lv]. intros t A; cbv beta in A. change (is_derive (fun s => v s - c) t (v' t)). auto_derive; [exd|]. un A. ring.
      + exact Lv'.
      + rcbv; reflexivity.
      + rcbv; reflexivity.
      + eapply is_derive_val; [exact Dv''|]. rcbv. reflexivity.
    - split; [rcbv; reflexivity|]. exists (fun t => v' t * c), (fun t => v'' t * c). split; [|split; [|split; [|split]]].
      + eapply filter_imp; [|exact Lv]. intros t A; cbv beta in A. change (is_derive (fun s => v s * c) t (v' t * c)). auto_derive; [exd|]. un A. ring.
      + eapply filter_imp; [|exact Lv']. intros t A; cbv beta in A. auto_derive; [exd|]. un A. ring.
      + rcbv; reflexivity.
      + rcbv; reflexivity.
      + auto_derive; [exd|]. un Dv''. rcbv. ring.
    - assert (H : c <> 0) by (apply Hc; reflexivity).
      split; [rcbv; reflexivity|]. exists (fun t => v' t / c), (fun t => v'' t / c). split; [|split; [|split; [|split]]].
      + eapply filter_imp; [|exact Lv]. intros t A; cbv beta in A. change (is_derive (fun s => v s / c) t (v' t / c)). auto_derive; [exd|]. un A. field. exact H.
      + eapply filter_imp; [|exact Lv']. intros t A; cbv beta in A. auto_derive; [exd|]. un A. field. exact H.
      + rcbv; reflexivity.
      + rcbv; reflexivity.
      + auto_derive; [exd|]. un Dv''. rcbv. field. exact H.
  Qed.

  Ltac tw3t L := match goal with |- is_derive _ ?x _ => let H := fresh in pose proof L as H; destruct H as [_ [_ [_ H]]]; exact H end.
  Lemma tw_un_derive3 u x : u <> U_neg -> dom_un u x -> is_derive (fun t => tw_un u t 2) x (tw_un u x 3).
  Proof.
    intros Hu Hd. destruct u; try (exfalso; apply Hu; reflexivity); simpl in Hd; unfold tw_un; cbn [eval_un].
    - tw3t (tower_recip x Hd). - tw3t (tower_sqrt x Hd). - tw3t (tower_cbrt x Hd). - tw3t (tower_exp x). - tw3t (tower_exp2 x). - tw3t (tower_exp_m1 x).
    - tw3t (tower_ln x Hd). - tw3t (tower_log2 x Hd). - tw3t (tower_log10 x Hd). - tw3t (tower_ln_1p x Hd). - tw3t (tower_sin x). - tw3t (tower_cos x).
    - tw3t (tower_tan x Hd). - tw3t (tower_asin x Hd). - tw3t (tower_acos x Hd). - tw3t (tower_atan x). - tw3t (tower_sinh x). - tw3t (tower_cosh x).
    - tw3t (tower_tanh x). - tw3t (tower_asinh x). - tw3t (tower_acosh x Hd). - tw3t (tower_atanh x Hd).
  Qed.

  (* composition with a function whose three derivative steps T0' = T1, T1' = T2, T2' = T3 hold on an open set containing v t0 *)
  Lemma rep3_compose (T0 T1 T2 T3 : R -> R) (dom : R -> Prop) v (x r : Dual3 R) :
    (forall s, dom s -> locally s dom) ->
    (forall s, dom s -> is_derive T0 s (T1 s)) -> (forall s, dom s -> is_derive T1 s (T2 s)) -> (forall s, dom s -> is_derive T2 s (T3 s)) ->
    Rep3 t0 v x -> dom (v t0) ->
    Dual3_f_re r = T0 (v t0) -> Dual3_f_v1 r = T1 (v t0) * Dual3_f_v1 x ->
    Dual3_f_v2 r = T1 (v t0) * Dual3_f_v2 x + T2 (v t0) * Dual3_f_v1 x * Dual3_f_v1 x ->
    Dual3_f_v3 r = T1 (v t0) * Dual3_f_v3 x + T2 (v t0) * (Dual3_f_v1 x * Dual3_f_v2 x + Dual3_f_v1 x * Dual3_f_v2 x + Dual3_f_v1 x * Dual3_f_v2 x)
                   + T3 (v t0) * Dual3_f_v1 x * Dual3_f_v1 x * Dual3_f_v1 x ->
    Rep3 t0 (fun t => T0 (v t)) r.
  Proof.
    intros Hopen H1 H2 H3 [Hx [v' [v'' [Lv [Lv' [Hx1 [Hx2 Dv'']]]]]]] Hd E0 E1 E2 E3.
    pose proof (rep2_at _ _ _ Lv) as Dv. pose proof (rep2_at _ _ _ Lv') as Dv'.
    rewrite Hx1 in E1, E2, E3. rewrite Hx2 in E2, E3.
    assert (C : continuous v t0) by (apply (ex_derive_continuous v t0); exists (v' t0); exact Dv).
    assert (Ld : locally t0 (fun t => dom (v t))) by exact (C dom (Hopen _ Hd)).
    split; [exact E0|].
    exists (fun t => T1 (v t) * v' t), (fun t => T2 (v t) * v' t * v' t + T1 (v t) * v'' t). split; [|split; [|split; [|split]]].
    - eapply filter_imp; [|exact (filter_and _ _ Ld Lv)]. intros t H; cbv beta in H; destruct H as [Dt A].
      pose proof (H1 _ Dt) as B. auto_derive; [exd|]. un A; un B. ring.
    - eapply filter_imp; [|exact (filter_and _ _ Ld (filter_and _ _ Lv Lv'))]. intros t H; cbv beta in H; destruct H as [Dt [A A']].
      pose proof (H2 _ Dt) as B. auto_derive; [exd|]. un A; un A'; un B. ring.
    - rewrite E1. ring.
    - rewrite E2. ring.
    - rewrite E3. pose proof (H2 _ Hd) as B2. pose proof (H3 _ Hd) as B3.
      auto_derive; [exd|]. un Dv; un Dv'; un Dv''; un B2; un B3. ring.
  Qed.

  Lemma rep3_ext_loc (f g : R -> R) r : Rep3 t0 f r -> locally t0 (fun t => f t = g t) -> Rep3 t0 g r.
  Proof.
    intros [A [f' [f'' [L1 [L2 [B1 [B2 B3]]]]]]] H. split; [rewrite A; apply (locally_singleton _ _ H)|].
    exists f', f''. split; [|split; [|split; [|split]]]; try assumption.
    pose proof (locally_locally _ _ H) as HH.
    eapply filter_imp; [|exact (filter_and _ _ HH L1)]. intros t K; cbv beta in K; destruct K as [K1 K2].
    apply (is_derive_ext_loc f g t _ K1 K2).
  Qed.

  Lemma rep3_un u v x : Rep3 t0 v x -> dom_un u (v t0) -> Rep3 t0 (fun t => eval_un (T:=R) u (v t)) (eval_un u x).
  Proof.
    intros H Hd. destruct (unop_eq_neg u) as [->|Hu].
    - destruct H as [Hx [v' [v'' [Lv [Lv' [Hx1 [Hx2 Dv'']]]]]]].
      destruct x as [x0 x1 x2 x3]; simpl in Hx, Hx1, Hx2, Dv''. subst x0 x1 x2.
      split; [rcbv; reflexivity|]. exists (fun t => - v' t), (fun t => - v'' t). split; [|split; [|split; [|split]]].
      + eapply filter_imp; [|exact Lv]. intros t A; cbv beta in A. change (is_derive (fun s => - v s) t (- v' t)). auto_derive; [exd|]. un A. ring.
      + eapply filter_imp; [|exact Lv']. intros t A; cbv beta in A. auto_derive; [exd|]. un A. ring.
      + rcbv; reflexivity.
      + rcbv; reflexivity.
      + auto_derive; [exd|]. un Dv''. rcbv. ring.
    - pose proof H as [Hx _].
      assert (Hdx : dom_un u (part_Dual3 x nil)) by (destruct x; simpl in *; rewrite Hx; exact Hd).
      pose proof (jf_un _ _ _ _ _ JA_c04_Dual3 u x Hu I Hdx nil ltac:(left; reflexivity)) as E0.
      pose proof (jf_un _ _ _ _ _ JA_c04_Dual3 u x Hu I Hdx (tt :: nil) ltac:(right; left; reflexivity)) as E1.
      pose proof (jf_un _ _ _ _ _ JA_c04_Dual3 u x Hu I Hdx (tt :: tt :: nil) ltac:(right; right; left; reflexivity)) as E2.
      pose proof (jf_un _ _ _ _ _ JA_c04_Dual3 u x Hu I Hdx (tt :: tt :: tt :: nil) ltac:(right; right; right; left; reflexivity)) as E3.
      destruct (dual3_parts (eval_un u x)) as [Q0 [Q1 [Q2 Q3]]]. destruct (dual3_parts x) as [P0 [P1 [P2 P3]]].
      rewrite Q0, faa_nil in E0. rewrite Q1, faa_one in E1. rewrite Q2, faa_two in E2. rewrite Q3, faa_three in E3.
      change (part_Dual3 x nil) with (Dual3_f_re x) in E0, E1, E2, E3. change (part_Dual3 x (tt :: nil)) with (Dual3_f_v1 x) in E1, E2, E3.
      change (part_Dual3 x (tt :: tt :: nil)) with (Dual3_f_v2 x) in E2, E3. change (part_Dual3 x (tt :: tt :: tt :: nil)) with (Dual3_f_v3 x) in E3.
      rewrite Hx in E0, E1, E2, E3.
      apply (rep3_ext_loc (fun t => tw_un u (v t) 0)).
      + apply (rep3_compose (fun s => tw_un u s 0) (fun s => tw_un u s 1) (fun s => tw_un u s 2) (fun s => tw_un u s 3) (dom_un u) v x (eval_un u x)).
        * intros s Hs. apply dom_un_open; exact Hs.
        * intros s Hs. apply tw_un_derive; assumption.
        * intros s Hs. apply tw_un_derive2; assumption.
        * intros s Hs. apply tw_un_derive3; assumption.
        * exact H.
        * exact Hd.
        * exact E0.
        * exact E1.
        * rewrite E2. ring.
        * rewrite E3. ring.
      + apply locally_true. intros t. rewrite eval_un_R_all. destruct u; reflexivity.
  Qed.

  Lemma rep3_powi n v x : Rep3 t0 v x -> pw_ok n (v t0) -> Rep3 t0 (fun t => m_powi (v t : R) n) (m_powi x n).
  Proof.
    intros H Hp. pose proof H as [Hx _].
    set (tw := tw3 (fun q => m_powi q n)).
    pose proof (jf_powi _ _ _ _ _ JA_c04_Dual3 n x I I nil ltac:(left; reflexivity)) as E0.
    pose proof (jf_powi _ _ _ _ _ JA_c04_Dual3 n x I I (tt :: nil) ltac:(right; left; reflexivity)) as E1.
    pose proof (jf_powi _ _ _ _ _ JA_c04_Dual3 n x I I (tt :: tt :: nil) ltac:(right; right; left; reflexivity)) as E2.
    pose proof (jf_powi _ _ _ _ _ JA_c04_Dual3 n x I I (tt :: tt :: tt :: nil) ltac:(right; right; right; left; reflexivity)) as E3.
    destruct (dual3_parts (m_powi x n)) as [Q0 [Q1 [Q2 Q3]]].
    rewrite Q0, faa_nil in E0. rewrite Q1, faa_one in E1. rewrite Q2, faa_two in E2. rewrite Q3, faa_three in E3.
    change (part_Dual3 x nil) with (Dual3_f_re x) in E0, E1, E2, E3. change (part_Dual3 x (tt :: nil)) with (Dual3_f_v1 x) in E1, E2, E3.
    change (part_Dual3 x (tt :: tt :: nil)) with (Dual3_f_v2 x) in E2, E3. change (part_Dual3 x (tt :: tt :: tt :: nil)) with (Dual3_f_v3 x) in E3.
    rewrite Hx in E0, E1, E2, E3. fold tw in E0, E1, E2, E3.
    apply (rep3_ext_loc (fun t => tw (v t) 0%nat)).
    - apply (rep3_compose (fun s => tw s 0%nat) (fun s => tw s 1%nat) (fun s => tw s 2%nat) (fun s => tw s 3%nat) (pw_ok n) v x (m_powi x n)).
      + intros s Hs. apply pw_ok_open; exact Hs.
      + intros s Hs. apply (powi_tower_any n s Hs).
      + intros s Hs. apply (powi_tower_any n s Hs).
      + intros s Hs. apply (powi_tower_any n s Hs).
      + exact H.
      + exact Hp.
      + exact E0.
      + exact E1.
      + rewrite E2. ring.
      + rewrite E3. ring.
    - destruct H as [_ [v' [_ [Lv _]]]]. pose proof (rep2_at _ _ _ Lv) as Dv.
      assert (C : continuous v t0) by (apply (ex_derive_continuous v t0); exists (v' t0); exact Dv).
      assert (Ld : locally t0 (fun t => pw_ok n (v t))) by exact (C (pw_ok n) (pw_ok_open n (v t0) Hp)).
      eapply filter_imp; [|exact Ld]. intros t Pt; cbv beta in Pt. apply (powi_tower_any n (v t) Pt).
  Qed.

  (* ---- the theorem ---- *)
  Theorem third_order p : forall (envV : list (R -> R)) (envD : list (Dual3 R)),
    Forall2 (Rep3 t0) envV envD -> okR (at_t envV t0) p ->
    Rep3 t0 (fun t => eval (T:=R) (at_t envV t) p) (eval envD p).
  Proof.
    induction p as [i|c|u a IH|b a IHa c IHc|b a IH c|a IH n|a IHa body IHb]; intros envV envD HE Hok; simpl in *.
    - unfold at_t in Hok; rewrite map_length in Hok. revert i Hok. induction HE as [|x y ex ey Hxy HE' IHE]; intros i Hi; simpl in *; [lia|].
      destruct i; [|apply IHE; lia]. apply (rep3_ext_loc x); [exact Hxy|]. apply locally_true; intros; reflexivity.
    - apply rep3_const.
    - destruct Hok as [Ha Hd]. apply (rep3_un u (fun t => eval (T:=R) (at_t envV t) a)); [apply IH; assumption|exact Hd].
    - destruct Hok as [Ha [Hc Hd]]. apply (rep3_bin b (fun t => eval (T:=R) (at_t envV t) a) (fun t => eval (T:=R) (at_t envV t) c)); [apply IHa|apply IHc|]; assumption.
    - destruct Hok as [Ha Hc]. apply (rep3_scal b (fun t => eval (T:=R) (at_t envV t) a)); [apply IH; assumption|exact Hc].
    - destruct Hok as [Ha Hp]. apply (rep3_powi n (fun t => eval (T:=R) (at_t envV t) a)); [apply IH; assumption|exact Hp].
    - destruct Hok as [Ha Hb].
      pose proof (IHa envV envD HE Ha) as Ra.
      assert (HE' : Forall2 (Rep3 t0) (envV ++ ((fun t => eval (T:=R) (at_t envV t) a) :: nil)) (envD ++ (eval envD a :: nil))).
      { apply Forall2_app; [assumption|]. constructor; [exact Ra|constructor]. }
      assert (Hm : forall t, at_t (envV ++ ((fun t => eval (T:=R) (at_t envV t) a) :: nil)) t = at_t envV t ++ (eval (T:=R) (at_t envV t) a :: nil)).
      { intros t. unfold at_t. rewrite map_app. reflexivity. }
      specialize (IHb _ _ HE'). rewrite Hm in IHb. specialize (IHb Hb).
      apply (rep3_ext_loc _ _ _ IHb). apply locally_true. intros t. simpl. rewrite Hm. reflexivity.
  Qed.
End Third.

(* the scalar third-derivative driver on a program: value and the first three derivatives *)
Corollary third_derivative_program p x : okR (x :: nil) p ->
  let d := eval (mkDual3 x 1 0 0 :: nil) p in
  Dual3_f_re d = eval (T:=R) (x :: nil) p /\
  exists f' f'' : R -> R, locally x (fun t => is_derive (fun s => eval (T:=R) (s :: nil) p) t (f' t)) /\ locally x (fun t => is_derive f' t (f'' t)) /\
    Dual3_f_v1 d = f' x /\ Dual3_f_v2 d = f'' x /\ is_derive f'' x (Dual3_f_v3 d).
Proof.
  intros Hok. assert (HE : Forall2 (Rep3 x) ((fun t => t) :: nil) (mkDual3 x 1 0 0 :: nil)).
  { constructor; [|constructor]. split; [reflexivity|]. exists (fun _ => 1), (fun _ => 0). split; [|split; [|split; [|split]]].
    - apply locally_true. intros t. apply (is_derive_id (K:=R_AbsRing) t).
    - apply locally_true. intros t. apply (is_derive_const (V:=R_NormedModule) 1 t).
    - reflexivity.
    - reflexivity.
    - apply (is_derive_const (V:=R_NormedModule) 0 x). }
  exact (third_order x p _ _ HE Hok).
Qed.
