"""C04 -- all number types, nestings and storage variants agree on shared derivatives."""
import mpmath
from mpmath import mpf
import vlib, pyjet, genvals, genprog
from vlib import Case
from props.base import BaseProp, Violation
from props import c03

LEVEL_ORDER = {'Dual': 1, 'DualVec': 1, 'Dual2': 2, 'Dual2Vec': 2, 'HyperDual': 2, 'HyperDualVec': 2, 'Dual3': 3, 'HyperHyperDual': 3}


def expected_nderiv(ty):
    n = 0
    while not ty.is_float:
        n += LEVEL_ORDER[ty.struct]
        ty = ty.inner
    return n


def build_value(ty, getpart, level=0, prefix=()):
    """the value of type ty whose part at block S is getpart(S) (a float); all optional parts present"""
    if ty.is_float:
        return genvals.enc_leaf(getpart(prefix), ty.width)
    owns = pyjet.OWN[ty.struct](ty.dims)
    flds = ty.fields()
    by_field = {}
    for own in owns:
        fi, entry = pyjet.own_field(ty.struct, own)
        by_field.setdefault(fi, []).append((own, entry))
    out = []
    for fi, fld in enumerate(flds):
        lst = by_field.get(fi, [])
        if fld['kind'] == 'T':
            own = lst[0][0]
            out.append(build_value(ty.inner, getpart, level + 1, prefix + tuple((level, x) for x in own)))
        else:
            r, c = ty.shape(fld)
            es = [None] * (r * c)
            for own, (i, j) in lst:
                es[j * r + i] = build_value(ty.inner, getpart, level + 1, prefix + tuple((level, x) for x in own))
            out.append((r, c, es))
    return out


def to32(v, ty64, ty32):
    """the same value with binary32 leaves (the leaves are binary32-representable)"""
    if ty64.is_float:
        return vlib.f2b32(vlib.b2f(v))
    out = []
    for fld, x in zip(ty64.fields(), v):
        if fld['kind'] == 'T':
            out.append(to32(x, ty64.inner, ty32.inner))
        elif x is None:
            out.append(None)
        else:
            out.append((x[0], x[1], [to32(e, ty64.inner, ty32.inner) for e in x[2]]))
    return out


def round32(v, ty):
    if ty.is_float:
        return vlib.f2b(vlib.b2f32(vlib.f2b32(vlib.b2f(v))))
    out = []
    for fld, x in zip(ty.fields(), v):
        if fld['kind'] == 'T':
            out.append(round32(x, ty.inner))
        elif x is None:
            out.append(None)
        else:
            out.append((x[0], x[1], [round32(e, ty.inner) for e in x[2]]))
    return out


ALL00 = lambda l: (0, 0)
IDENT = lambda l: l


def pairings(rng, tier):
    """(name, X type, Y type, label map Y -> X, mode)"""
    T = vlib.types()
    P = []
    for y in ('HyperHyperDual64', 'Dual_Dual_Dual64', 'Dual2_Dual64', 'Dual_Dual2_64', 'HyperDual_Dual64', 'Dual_HyperDual64', 'Dual2_64', 'HyperDual64', 'Dual_Dual64', 'Dual64'):
        P.append(('third-order scalar vs %s (all directions on the same variable)' % y, 'Dual3_64', y, ALL00, 'tol'))
    for y in ('HyperDual64', 'Dual_Dual64', 'Dual64'):
        P.append(('second-order scalar vs %s' % y, 'Dual2_64', y, ALL00, 'tol'))
    P.append(('hyper-dual vs nested first-order numbers', 'HyperDual64', 'Dual_Dual64', lambda l: (0, 1 + l[0]), 'tol'))
    P.append(('hyper-hyper-dual vs triply nested first-order numbers', 'HyperHyperDual64', 'Dual_Dual_Dual64', lambda l: (0, 1 + l[0]), 'tol'))
    for k in (1, 2):
        P.append(('hyper-dual direction %d vs first-order scalar' % k, 'HyperDual64', 'Dual64', (lambda l, k=k: (0, k)), 'tol'))
    for k in (1, 2, 3):
        P.append(('hyper-hyper-dual direction %d vs first-order scalar' % k, 'HyperHyperDual64', 'Dual64', (lambda l, k=k: (0, k)), 'tol'))
    P.append(('hyper-hyper-dual directions (1,3) vs hyper-dual', 'HyperHyperDual64', 'HyperDual64', (lambda l: (0, 1 if l[1] == 1 else 3)), 'tol'))
    dims = (1, 2, 3, 4, 5, 6)
    for n in dims:
        for st in ('DualSVec64_%d' % n, 'DualDVec64:%d' % n):
            i = rng.below(n)
            P.append(('gradient component %d of %s vs first-order scalar' % (i, st), st, 'Dual64', (lambda l, i=i: (0, i)), 'tol'))
        for st in ('Dual2SVec64_%d' % n, 'Dual2DVec64:%d' % n):
            i, j = rng.below(n), rng.below(n)
            P.append(('hessian entries (%d), (%d), (%d,%d) of %s vs hyper-dual' % (i, j, i, j, st), st, 'HyperDual64',
                      (lambda l, i=i, j=j: (0, i if l[1] == 1 else j)), 'tol'))
            P.append(('hessian entries (%d), (%d,%d) of %s vs second-order scalar' % (i, i, i, st), st, 'Dual2_64', (lambda l, i=i: (0, i)), 'tol'))
        P.append(('static vs dynamic storage, DualVec dimension %d' % n, 'DualSVec64_%d' % n, 'DualDVec64:%d' % n, IDENT, 'bits'))
        P.append(('static vs dynamic storage, Dual2Vec dimension %d' % n, 'Dual2SVec64_%d' % n, 'Dual2DVec64:%d' % n, IDENT, 'bits'))
    for (m, n) in ((1, 1), (2, 3), (3, 2), (3, 3)):
        P.append(('static vs dynamic storage, HyperDualVec %dx%d' % (m, n), 'HyperDualSVec64_%d_%d' % (m, n), 'HyperDualDVec64:%d:%d' % (m, n), IDENT, 'bits'))
        for st in ('HyperDualSVec64_%d_%d' % (m, n), 'HyperDualDVec64:%d:%d' % (m, n)):
            i, j = rng.below(m), rng.below(n)
            P.append(('partial hessian entries x%d, y%d of %s vs hyper-dual' % (i, j, st), st, 'HyperDual64',
                      (lambda l, i=i, j=j: (0, ('L', i)) if l[1] == 1 else (0, ('R', j))), 'tol'))
    for m, n in ((4, 1), (1, 4)):
        i, j = rng.below(m), rng.below(n)
        P.append(('partial hessian entries x%d, y%d of HyperDualDVec64 %dx%d vs hyper-dual' % (i, j, m, n), 'HyperDualDVec64:%d:%d' % (m, n), 'HyperDual64',
                  (lambda l, i=i, j=j: (0, ('L', i)) if l[1] == 1 else (0, ('R', j))), 'tol'))
    for x, y in (('Dual64', 'Dual32'), ('Dual2_64', 'Dual2_32'), ('Dual3_64', 'Dual3_32'), ('HyperDual64', 'HyperDual32'),
                 ('DualSVec64_2', 'DualSVec32_2'), ('Dual2SVec64_2', 'Dual2SVec32_2')):
        P.append(('32-bit vs 64-bit, %s' % x, x, y, IDENT, 'f32'))
    return [(nm, T[x], T[y], f, mode) for nm, x, y, f, mode in P]


class Prop(BaseProp):
    replay_whole = True
    coq_targets = ['ND/Proofs/Agree.vo', 'ND/Proofs/C04_inst.vo', 'ND/Proofs/C04_proofs.vo', 'ND/Proofs/C04_nested.vo', 'ND/Proofs/C03_proofs.vo',
                   'ND/Proofs/C04_real.vo', 'ND/Proofs/C04_nderiv.vo']
    extra_model_targets = ['ND/Hand/Prog.vo']
    extra_imports = 'From ND Require Import Prog.'
    model_shard, model_rounds = 32, 12
    n_quick, n_thorough = 200, 4000

    def cases(self, rng, n, depth=4, libm_limit=3):
        P = pairings(rng.fork('pairings'), self.tier)
        self.pairs = {}
        out = []
        k = 0
        while k < n:
            nm, tx, ty, f, mode = P[k % len(P)]
            cx = c03.gen_program_case(rng, 'c%dx' % k, tx, rational=False, max_depth=depth, libm_limit=libm_limit)
            if mode == 'f32':
                cx.args = [round32(a, tx) for a in cx.args]
                xs = [genvals.real_part(a, tx) for a in cx.args]
                if genprog.real_eval(list(cx.aux[0]), xs) is None:
                    continue
                yargs = [to32(a, tx, ty) for a in cx.args]
            elif mode == 'bits':
                yargs = [a for a in cx.args]
            else:
                yargs = []
                for a in cx.args:
                    def getpart(S, a=a):
                        b = pyjet.part_bits(a, tx, tuple(f(l) for l in S))
                        return vlib.b2f(b) if b is not None else 0.0
                    yargs.append(build_value(ty, getpart))
            cy = Case('c%dy' % k, ty, cx.op, yargs, cx.aux, tag=mode)
            cx.tag = 'x:' + mode
            self.pairs[cy.id] = (cx.id, f, nm)
            out += [cx, cy]
            k += 1
        # the advertised derivative order of every type
        for t in vlib.types().values():
            if not t.is_float:
                out.append(Case('n%s' % t.hname.replace(':', '_'), t, 'nderiv', [], [], tag='nderiv'))
        return out

    def search_cases(self, rng, n):
        return self.cases(rng, n // 2, depth=5, libm_limit=None)

    def model_applicable(self, case):
        return case.ty.leaf().width == 64

    def oracle(self, case, impl):
        if case.op == 'nderiv':
            want = expected_nderiv(case.ty)
            if impl != want:
                return Violation('counterexample', 'NDERIV of %s is %r, the sum over its levels is %d' % (case.ty, impl, want), case=case, expected=want, obtained=impl)
            return None
        if case.id not in getattr(self, 'pairs', {}):
            return None
        st = self.cov.setdefault('oracle_stream', {'pairs_compared': 0, 'bitwise': 0, 'skipped_outside_margined_domain': 0, 'max_difference_over_bound': 0.0})
        xid, f, nm = self.pairs[case.id]
        cx = self.case_by_id[xid]
        ix = self.impl_results[xid]
        text = pyjet.prog_str(list(case.aux[0]), len(case.args))
        if impl == 'panic' or ix == 'panic':
            return Violation('counterexample', '%s: program %s panics on %s' % (nm, text, case.ty if impl == 'panic' else cx.ty), case=case, obtained='panic',
                             detail={'partner': cx.describe()})
        if case.tag == 'bits':
            st['bitwise'] += 1
            if impl != ix:
                return Violation('counterexample', '%s: program %s gives different results' % (nm, text), case=case, expected={'static': ix}, obtained={'dynamic': impl},
                                 detail={'partner': cx.describe()})
            return None
        rx, ry = c03.reference(cx), c03.reference(case)
        if rx is None or ry is None:
            st['skipped_outside_margined_domain'] += 1
            return None
        st['pairs_compared'] += 1
        wx, wy = cx.ty.leaf().width, case.ty.leaf().width
        for S in ry.fam:
            SX = tuple(f(l) for l in S)
            by, bx = pyjet.part_bits(impl, case.ty, S), pyjet.part_bits(ix, cx.ty, SX)
            if by == vlib.NAN or bx == vlib.NAN:
                return Violation('counterexample', '%s: program %s: part %s / %s is NaN' % (nm, text, S, SX), case=case, obtained='NaN', detail={'partner': cx.describe()})
            gy, gx = pyjet.mpf_of_bits(by, wy), pyjet.mpf_of_bits(bx, wx)
            bound = ry.err[S] + rx.err[SX]
            tol = 2 * bound + mpf(10) ** -290 + (mpf(2) ** -140 if wy == 32 else 0)
            if bound > 0:
                st['max_difference_over_bound'] = max(st['max_difference_over_bound'], float(abs(gy - gx) / bound))
            if abs(gy - gx) > tol:
                return Violation('counterexample', '%s: program %s: part %s of %s = %s but part %s of %s = %s (sum of the two rounding-error bounds %s)' % (
                    nm, text, S, case.ty, mpmath.nstr(gy, 17), SX, cx.ty, mpmath.nstr(gx, 17), mpmath.nstr(bound, 4)), case=case,
                    expected=mpmath.nstr(gx, 25), obtained=mpmath.nstr(gy, 25), detail={'block': str(S), 'partner_block': str(SX), 'partner': cx.describe(), 'program': text})
        return None

    def nontrivial(self, case, impl):
        if impl == 'panic':
            return False
        if case.op == 'nderiv':
            return True
        lv = vlib.leaves(impl, case.ty)
        return any(x not in (0, vlib.NAN) for x in lv[1:])

    def rule_text(self):
        return ('pairs (X, Y) of types / seedings exposing the same partial derivatives (Dual3 vs HyperHyperDual / triply nested Dual / Dual2<Dual> / Dual<Dual2> / '
                'HyperDual<Dual> / Dual<HyperDual>; Dual2 vs HyperDual / Dual<Dual>; HyperDual vs Dual<Dual>; HyperHyperDual vs Dual<Dual<Dual>>; vector types '
                'of dimension 1..6, static and dynamic, component-wise vs the scalar types; static vs dynamic storage bit for bit; binary32 vs binary64 on '
                'binary32-representable inputs): a random program of Hand/Prog.v and a point in its domain (as in C03), X inputs with arbitrary derivative '
                'parts, Y inputs derived through the relabelling f of the agreement theorem (part y S = part x (map f S)); the implementation is run on '
                'both and each part of Y is compared with the corresponding part of X within twice the sum of the two first-order running error bounds '
                '(storage pairs: exact equality).  All 64-bit evaluations are also run through the translated model inside Coq and must agree bit for bit.  '
                'NDERIV of every type of the matrix equals the sum over its levels')
