(* Hand/DriverFns.v -- the test closures of the driver correspondence, written once more in Gallina over an arbitrary dual type D
   (the Rust versions are `poly` / `poly2` in harness/src/main.rs; same order of operations, so results agree bit for bit). *)
From ND Require Import Overload Float Mat Opt Wire.
From NDgen Require Import Classes.
From Coq Require Import Arith.
Local Open Scope rs_scope.

Section Fns.
  Context {F D : Type} {dn : DN F D}.
  #[local] Instance flF_fns : FL F := dn_fl (T:=D).
  Definition cji (j i : nat) : F := castZ (Z.of_nat (1 + (3 * j + 5 * i) mod 7)).
  Definition half : F := lit (FLit (1 # 2)%Q 4602678819172646912 1056964608).
  Definition quarter : F := lit (FLit (1 # 4)%Q 4598175219545276416 1048576000).
  Definition nthd (x : list D) (i : nat) : D := nth i x (zero : D).
  (* f_j(x) = e_j + sum_i (x_i * x_i * x_{(i+1) mod n}) * c(j,i) + [x_0 / (x_1^2 + 3) if n >= 2] + x_{j mod n} * d_j; a constant e_j (no derivative parts) for odd j >= 3 *)
  Definition poly (x : list D) (j : nat) : D :=
    let n := length x in
    if (Nat.leb 3 j && Nat.odd j)%bool then (ofF (half * (castZ (Z.of_nat j) : F)) : D) else
    let acc := fold_left (fun acc i => acc + (nthd x i * nthd x i * nthd x ((i + 1) mod n)) * cji j i) (seq 0 n)
                         (ofF (half * (castZ (Z.of_nat j) : F)) : D) in
    let acc := if Nat.leb 2 n then acc + nthd x 0 / (nthd x 1 * nthd x 1 + (castZ 3 : F)) else acc in
    if Nat.eqb n 0 then acc else acc + nthd x (j mod n) * ((castZ 2 : F) + (castZ (Z.of_nat j) : F)).
  (* h(x, y) = 1/4 + sum_i sum_k (x_i * y_k * y_k) * c(i,k) + x_0 / (y_0^2 + 3) + sum_i x_i * (2 + i) *)
  Definition poly2 (x y : list D) : D :=
    let a1 := fold_left (fun acc i => fold_left (fun acc k => acc + (nthd x i * nthd y k * nthd y k) * cji i k) (seq 0 (length y)) acc)
                        (seq 0 (length x)) (ofF quarter : D) in
    let a1 := if (Nat.leb 1 (length x) && Nat.leb 1 (length y))%bool then a1 + nthd x 0 / (nthd y 0 * nthd y 0 + (castZ 3 : F)) else a1 in
    fold_left (fun acc i => acc + nthd x i * ((castZ 2 : F) + (castZ (Z.of_nat i) : F))) (seq 0 (length x)) a1.
End Fns.
