(* Proofs/C09_proofs.v -- powers.  powi: integer exponents on non-zero bases; powf: real exponents on positive bases;
   powd: x^n = exp(n ln x) with a dual exponent.  Towers are read off the generated third-order code as in C01. *)
From ND Require Import Tactics C01_towers C01_faa.
Local Open Scope R_scope.

Lemma wrap32_small z : (-2147483648 <= z <= 2147483647)%Z -> wrap32 z = z.
Proof. intros H; apply wrap32_id; unfold i32_in_range; apply andb_true_intro; split; apply Z.leb_le; lia. Qed.

Ltac to_pz := repeat match goal with |- context [powerRZ ?a ?b] => change (powerRZ a b) with (pz b a) end.
Ltac to_rp := repeat match goal with |- context [Rpower ?a ?b] => change (Rpower a b) with (rp b a) end.
Ltac rcbvZ_derive := match goal with |- is_derive ?f ?x ?l =>
  let f' := eval rredZ in f in let l' := eval rredZ in l in change (is_derive f' x l') end.

(* ---------------- powi ---------------- *)
Definition g_powi (n : Z) (x : R) := powerRZ x n.

Lemma pz3 n x : x <> 0 -> powerRZ x n = pz (n - 3) x * x * x * x.
Proof.
  intros H. replace n with ((n - 3) + 1 + 1 + 1)%Z at 1 by ring.
  change (powerRZ x (n - 3 + 1 + 1 + 1)) with (pz (n - 3 + 1 + 1 + 1) x). rewrite !pz_succ by assumption. reflexivity.
Qed.

(* the general branch (exponent other than 0, 1, 2), with the i32 subtractions inside the range *)
Lemma tower_powi_general n x : x <> 0 -> (-2147483645 <= n <= 2147483647)%Z ->
  (n <> 0 /\ n <> 1 /\ n <> 2)%Z -> is_tower (g_powi n) (tw3 (fun d => m_powi d n)) x.
Proof.
  intros Hx Hr [H0 [H1 H2]]. unfold is_tower, g_powi.
  assert (E : forall t k, tw3 (fun d => m_powi d n) t k =
     match k with
     | 0%nat => pz (n - 3) t * t * t * t | 1%nat => pz (n - 3) t * t * t * IZR n * 1
     | 2%nat => pz (n - 3) t * t * (IZR n * IZR (n - 1)) * 1 * 1 + pz (n - 3) t * t * t * IZR n * 0
     | 3%nat => pz (n - 3) t * (IZR n * IZR (n - 1) * IZR (n - 2)) * 1 * 1 * 1 + (1 + 1 + 1) * (pz (n - 3) t * t * (IZR n * IZR (n - 1))) * 1 * 0
                + pz (n - 3) t * t * t * IZR n * 0
     | _ => 0 end).
  { intros t k. destruct n as [|[[p|p|]|[p|p|]|]|p]; try (exfalso; lia);
    (destruct k as [|[|[|[|k]]]]; rcbvZ; rewrite ?wrap32_small by lia; reflexivity). }
  split; [rewrite E; symmetry; apply pz3; assumption|].
  split; [|split]; (eapply is_derive_ext; [intros t; symmetry; apply E|]; rewrite E; auto_derive; [side|]; rewrite ?pz_pred by assumption; rewrite ?minus_IZR; field; assumption).
Qed.
Ltac dstep tac := rcbv_derive;
  first [ lazymatch goal with |- is_derive ?f ?x ?l => let c := eval cbv beta in (f x) in exact (is_derive_const (V:=R_NormedModule) c x) end
        | auto_derive; [side | tac] ].
Ltac tower' tac := unfold is_tower; split; [rcbv; try reflexivity; try (unfold powerRZ; simpl; ring); tac | split; [|split]]; dstep tac.
Lemma tower_powi_0 x : is_tower (g_powi 0) (tw3 (fun d => m_powi d 0%Z)) x.
Proof. unfold g_powi. tower' fs. Qed.
Lemma tower_powi_1 x : is_tower (g_powi 1) (tw3 (fun d => m_powi d 1%Z)) x.
Proof. unfold g_powi. tower' fs. Qed.
Lemma tower_powi_2 x : is_tower (g_powi 2) (tw3 (fun d => m_powi d 2%Z)) x.
Proof. unfold g_powi. tower' fs. Qed.
Theorem tower_powi n x : x <> 0 -> (-2147483645 <= n <= 2147483647)%Z -> is_tower (g_powi n) (tw3 (fun d => m_powi d n)) x.
Proof.
  intros Hx Hr. destruct (Z.eq_dec n 0) as [->|H0]; [apply tower_powi_0|].
  destruct (Z.eq_dec n 1) as [->|H1]; [apply tower_powi_1|].
  destruct (Z.eq_dec n 2) as [->|H2]; [apply tower_powi_2|].
  apply tower_powi_general; auto.
Qed.

(* ---------------- powf ---------------- *)
Definition g_powf (n x : R) := Rpower x n.
Definition eps64 : R := / 4503599627370496.

Lemma tower_powf_general n x : 0 < x -> n <> 0 -> n <> 1 -> ~ Rabs (n - 1 - 1) < eps64 ->
  is_tower (g_powf n) (tw3 (fun d => m_powf d n)) x.
Proof.
  intros Hx H0 H1 H2. unfold is_tower, g_powf.
  assert (E : forall t k, tw3 (fun d => m_powf d n) t k =
     match k with
     | 0%nat => rp n t | 1%nat => rp (n - 1) t * n * 1
     | 2%nat => rp (n - 1 - 1) t * n * (n - 1) * 1 * 1 + rp (n - 1) t * n * 0
     | 3%nat => rp (n - 1 - 1 - 1) t * n * (n - 1) * (n - 1 - 1) * 1 * 1 * 1 + (1 + 1 + 1) * (rp (n - 1 - 1) t * n * (n - 1)) * 1 * 0 + rp (n - 1) t * n * 0
     | _ => 0 end).
  { intros t k. unfold tw3. rcbv. unfold Reqb, Rltb.
    destruct (Req_EM_T n 0) as [?|_]; [contradiction|]. destruct (Req_EM_T n 1) as [?|_]; [contradiction|].
    destruct (Rlt_dec (Rabs (n - 1 - 1)) (/ 4503599627370496)) as [?|_]; [contradiction|].
    destruct k as [|[|[|[|k]]]]; reflexivity. }
  split; [rewrite E; reflexivity|].
  split; [|split]; (eapply is_derive_ext; [intros t; symmetry; apply E|]; rewrite E; auto_derive; [side|]; rewrite ?(rp_pred _ _ Hx); field; lra).
Qed.
Lemma tower_powf_two x : is_tower (g_powi 2) (tw3 (fun d => m_powf d 2)) x.
Proof.
  unfold is_tower, g_powi.
  assert (E : forall t k, tw3 (fun d => m_powf d 2) t k = tw3 (fun d => m_powi d 2%Z) t k).
  { intros t k. unfold tw3. rcbv. unfold Reqb, Rltb.
    destruct (Req_EM_T 2 0) as [?|_]; [lra|]. destruct (Req_EM_T 2 1) as [?|_]; [lra|].
    destruct (Rlt_dec (Rabs (2 - 1 - 1)) (/ 4503599627370496)) as [_|N]; [reflexivity|].
    exfalso; apply N. replace (2 - 1 - 1) with 0 by ring. rewrite Rabs_R0. lra. }
  pose proof (tower_powi_2 x) as [T0 [T1 [T2 T3]]].
  split; [rewrite E; exact T0|].
  split; [|split]; (eapply is_derive_ext; [intros t; symmetry; apply E|]; rewrite E; assumption).
Qed.
