(* Proofs/C18_proofs.v -- textual rendering.  The expected layout is written here independently of the code: real part first,
   then each part in declaration order as " + ", its numbers, its documented symbol; absent parts contribute nothing.
   The GENERATED token lists (gen/Gen_Display.v, from the format strings of the source) are proved equal to it, for an
   arbitrary way of showing the inner number (so the statements hold for nested types too). *)
From ND Require Import Overload Float Mat Opt Wire Show DerFmt.
From NDgen Require Import Classes Gen_Derivative Gen_Dual Gen_Dual2 Gen_Dual3 Gen_HyperDual Gen_HyperHyperDual Gen_DualVec Gen_Dual2Vec Gen_HyperDualVec Gen_Display.

(* documented symbols, as code points *)
Definition s_eps : list nat := [949]%nat.                        (* ε *)
Definition s_eps1 : list nat := [949; 49]%nat.                   (* ε1 *)
Definition s_eps2 : list nat := [949; 50]%nat.
Definition s_eps3 : list nat := [949; 51]%nat.
Definition s_eps1sq : list nat := [949; 49; 178]%nat.            (* ε1² *)
Definition s_eps12 : list nat := [949; 49; 949; 50]%nat.         (* ε1ε2 *)
Definition s_eps13 : list nat := [949; 49; 949; 51]%nat.
Definition s_eps23 : list nat := [949; 50; 949; 51]%nat.
Definition s_eps123 : list nat := [949; 49; 949; 50; 949; 51]%nat.
Definition s_v1 : list nat := [118; 49]%nat.                     (* v1 *)
Definition s_v2 : list nat := [118; 50]%nat.
Definition s_v3 : list nat := [118; 51]%nat.
Definition plus : list nat := [32; 43; 32]%nat.                  (* " + " *)

(* the text a token list prints, for any formatting of numbers and any two-dimensional matrix layout *)
Section Render.
  Context {F : Type} (fmt : F -> list nat) (mfmt : list (list (list nat)) -> list nat).
  Fixpoint render_tok (t : token F) : list nat :=
    match t with
    | TNum x => fmt x | TLit s => s | TOpen => [] | TClose => [] | TSep => []
    | TMat rows => mfmt (map (fun r => map (fun cell => flat_map render_tok cell) r) rows)
    end.
  Definition render (l : list (token F)) : list nat := flat_map render_tok l.
  Lemma render_app a b : render (a ++ b) = render a ++ render b.
  Proof. unfold render. apply flat_map_app. Qed.
  Lemma render_lit s : render [TLit s] = s.
  Proof. unfold render; simpl. apply app_nil_r. Qed.
End Render.

Section Layout.
  Context {F T : Type} {showT : Show F T}.
  Variable fmt : F -> list nat.
  Variable mfmt : list (list (list nat)) -> list nat.
  Notation rd := (render fmt mfmt).
  (* a scalar part: " + " number(s) symbol *)
  Definition part_text (v : T) (sym : list nat) : list nat := plus ++ rd (tokens v) ++ sym.
  Definition layout (re : T) (parts : list (T * list nat)) : list nat :=
    rd (tokens re) ++ flat_map (fun p => part_text (fst p) (snd p)) parts.

  Ltac lay := intros x; destruct x;
    cbv [tokens Show_Dual Show_Dual2 Show_Dual3 Show_HyperDual Show_HyperHyperDual
         Dual_Display_fmt Dual2_Display_fmt Dual3_Display_fmt HyperDual_Display_fmt HyperHyperDual_Display_fmt];
    cbv [layout part_text flat_map fst snd]; cbn -[render app]; rewrite ?render_app, ?render_lit;
    cbv [plus s_eps s_eps1 s_eps2 s_eps3 s_eps1sq s_eps12 s_eps13 s_eps23 s_eps123 s_v1 s_v2 s_v3];
    repeat rewrite <- app_assoc; cbn [app]; reflexivity.

  Lemma layout_Dual : forall x : Dual T, rd (tokens x) = layout (Dual_f_re x) [(Dual_f_eps x, s_eps)].
  Proof. lay. Qed.
  Lemma layout_Dual2 : forall x : Dual2 T, rd (tokens x) = layout (Dual2_f_re x) [(Dual2_f_v1 x, s_eps1); (Dual2_f_v2 x, s_eps1sq)].
  Proof. lay. Qed.
  Lemma layout_Dual3 : forall x : Dual3 T, rd (tokens x) = layout (Dual3_f_re x) [(Dual3_f_v1 x, s_v1); (Dual3_f_v2 x, s_v2); (Dual3_f_v3 x, s_v3)].
  Proof. lay. Qed.
  Lemma layout_HyperDual : forall x : HyperDual T, rd (tokens x) =
    layout (HyperDual_f_re x) [(HyperDual_f_eps1 x, s_eps1); (HyperDual_f_eps2 x, s_eps2); (HyperDual_f_eps1eps2 x, s_eps12)].
  Proof. lay. Qed.
  Lemma layout_HyperHyperDual : forall x : HyperHyperDual T, rd (tokens x) =
    layout (HyperHyperDual_f_re x) [(HyperHyperDual_f_eps1 x, s_eps1); (HyperHyperDual_f_eps2 x, s_eps2); (HyperHyperDual_f_eps3 x, s_eps3);
      (HyperHyperDual_f_eps1eps2 x, s_eps12); (HyperHyperDual_f_eps1eps3 x, s_eps13); (HyperHyperDual_f_eps2eps3 x, s_eps23);
      (HyperHyperDual_f_eps1eps2eps3 x, s_eps123)].
  Proof. lay. Qed.

  (* vector types: real part, then each optional part through Derivative::fmt with its documented symbol *)
  Lemma layout_DualVec : forall x : DualVec T, tokens x = tokens (DualVec_f_re x) ++ der_fmt (DualVec_f_eps x) s_eps.
  Proof. intros x; destruct x; reflexivity. Qed.
  Lemma layout_Dual2Vec : forall x : Dual2Vec T,
    tokens x = tokens (Dual2Vec_f_re x) ++ der_fmt (Dual2Vec_f_v1 x) s_eps1 ++ der_fmt (Dual2Vec_f_v2 x) s_eps1sq.
  Proof. intros x; destruct x; reflexivity. Qed.
  Lemma layout_HyperDualVec : forall x : HyperDualVec T,
    tokens x = tokens (HyperDualVec_f_re x) ++ der_fmt (HyperDualVec_f_eps1 x) s_eps1 ++ der_fmt (HyperDualVec_f_eps2 x) s_eps2
               ++ der_fmt (HyperDualVec_f_eps1eps2 x) s_eps12.
  Proof. intros x; destruct x; reflexivity. Qed.

  (* the (hand-modelled) rendering of an optional part: nothing when absent; " + ", the entries, the symbol when present *)
  Lemma der_fmt_absent sym : der_fmt (mkDerivative (T:=T) None) sym = [].
  Proof. reflexivity. Qed.
  Lemma der_fmt_present_numbers (m : mat T) sym :
    exists body, der_fmt (mkDerivative (Some m)) sym = [TLit plus] ++ body ++ [TLit sym].
  Proof. unfold der_fmt; simpl. eexists; reflexivity. Qed.
End Layout.

(* at the leaves the numbers shown are exactly the stored parts, in order: nothing dropped, duplicated or swapped *)
Section Faithful.
  Context {F : Type}.
  Lemma shown_Dual (x : Dual F) : shown_numbers (tokens x) = [Dual_f_re x; Dual_f_eps x].
  Proof. destruct x; reflexivity. Qed.
  Lemma shown_Dual2 (x : Dual2 F) : shown_numbers (tokens x) = [Dual2_f_re x; Dual2_f_v1 x; Dual2_f_v2 x].
  Proof. destruct x; reflexivity. Qed.
  Lemma shown_Dual3 (x : Dual3 F) : shown_numbers (tokens x) = [Dual3_f_re x; Dual3_f_v1 x; Dual3_f_v2 x; Dual3_f_v3 x].
  Proof. destruct x; reflexivity. Qed.
  Lemma shown_HyperDual (x : HyperDual F) : shown_numbers (tokens x) = [HyperDual_f_re x; HyperDual_f_eps1 x; HyperDual_f_eps2 x; HyperDual_f_eps1eps2 x].
  Proof. destruct x; reflexivity. Qed.
  Lemma shown_HyperHyperDual (x : HyperHyperDual F) : shown_numbers (tokens x) =
    [HyperHyperDual_f_re x; HyperHyperDual_f_eps1 x; HyperHyperDual_f_eps2 x; HyperHyperDual_f_eps3 x; HyperHyperDual_f_eps1eps2 x;
     HyperHyperDual_f_eps1eps3 x; HyperHyperDual_f_eps2eps3 x; HyperHyperDual_f_eps1eps2eps3 x].
  Proof. destruct x; reflexivity. Qed.
  Lemma shown_nested (x : Dual (Dual F)) : shown_numbers (tokens x) =
    [Dual_f_re (Dual_f_re x); Dual_f_eps (Dual_f_re x); Dual_f_re (Dual_f_eps x); Dual_f_eps (Dual_f_eps x)].
  Proof. destruct x as [[] []]; reflexivity. Qed.
  (* hence the rendering is injective on the scalar types *)
  Lemma display_injective_Dual3 (x y : Dual3 F) : tokens x = tokens y -> x = y.
  Proof. intros H. apply (f_equal shown_numbers) in H. rewrite !shown_Dual3 in H. destruct x, y; simpl in H. congruence. Qed.
  Lemma display_injective_HyperDual (x y : HyperDual F) : tokens x = tokens y -> x = y.
  Proof. intros H. apply (f_equal shown_numbers) in H. rewrite !shown_HyperDual in H. destruct x, y; simpl in H. congruence. Qed.
  (* a present vector part shows its entries in storage order *)
  Lemma shown_DualVec_present (r : F) (m : mat F) : mcols m = 1%nat -> mrows m <> 1%nat ->
    shown_numbers (tokens (mkDualVec r (mkDerivative (Some m)))) = r :: mat_to_list m.
  Proof.
    intros Hc Hr. cbv [tokens Show_DualVec DualVec_Display_fmt f_re f_eps DualVec_Fd_re DualVec_Fd_eps DualVec_f_re DualVec_f_eps der_fmt Derivative_f_0].
    rewrite Hc. apply Nat.eqb_neq in Hr. rewrite Hr. simpl.
    unfold shown_numbers. simpl. f_equal. rewrite flat_map_app. simpl. rewrite app_nil_r.
    induction (mat_to_list m) as [|a l IH]; [reflexivity|]. destruct l as [|b l']; [reflexivity|].
    simpl in *. f_equal. exact IH.
  Qed.
End Faithful.
