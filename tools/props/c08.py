"""C08 -- all syntactic forms of an operation give the same result."""
import vlib, pyjet, genvals
from vlib import Case
from props.base import BaseProp, Violation
from props.c06 import ulps

GROUPS = {  # reference form -> forms that must return bit-identical results
    'add': ['add_rr', 'add_rv', 'add_vr', 'add_vv', 'add_assign'],
    'sub': ['sub_rr', 'sub_rv', 'sub_vr', 'sub_vv', 'sub_assign'],
    'mul': ['mul_rr', 'mul_rv', 'mul_vr', 'mul_vv', 'mul_assign'],
    'div': ['div_rr', 'div_rv', 'div_vr', 'div_vv', 'div_assign'],
    'neg': ['neg_r', 'neg_v'],
    'recip': ['inv'],
    'sum3': ['sum_r3'], 'product3': ['product_r3'],
}
SCALAR = {'add_F': ('add', 'add_assign_F'), 'sub_F': ('sub', 'sub_assign_F'), 'mul_F': ('mul', 'mul_assign_F'), 'div_F': ('div', 'div_assign_F')}


PRIM = {'i8': (-128, 127), 'i16': (-2 ** 15, 2 ** 15 - 1), 'i64': (-2 ** 63, 2 ** 63 - 1), 'i128': (-2 ** 127, 2 ** 127 - 1), 'isize': (-2 ** 63, 2 ** 63 - 1),
        'u8': (0, 255), 'u16': (0, 2 ** 16 - 1), 'u32': (0, 2 ** 32 - 1), 'u64': (0, 2 ** 64 - 1), 'u128': (0, 2 ** 128 - 1), 'usize': (0, 2 ** 64 - 1)}


class Prop(BaseProp):
    coq_targets = ['ND/Proofs/C08_forms.vo', 'ND/Proofs/C08_lift.vo']
    n_quick, n_thorough = 900, 12000

    def cases(self, rng, n):
        tys = genvals.type_list(self.tier, include32=False)
        out = []
        self.groups = []   # (kind, [case ids], info)
        k = 0
        kinds = list(GROUPS) + list(SCALAR) + ['mul_add', 'consts']
        # the 128-bit conversions beyond the 64-bit range and two more kinds at the ends of their ranges, on every type, every run
        for ty in tys:
            ids = []
            picks = [('i128', -(1 << 63) - 1 - rng.below(1 << 40)), ('u128', (1 << 64) + rng.below(1 << 40)), ('i128', (1 << 100) + rng.below(1 << 50))]
            for kd in (rng.choice(sorted(PRIM)), rng.choice(sorted(PRIM))):
                picks.append((kd, rng.choice(PRIM[kd])))
            for kd, v in picks:
                c = Case('c%d' % len(out), ty, 'from_prim', [], [kd, v], tag='prim')
                out.append(c)
                ids.append(c.id)
            self.groups.append(('prim', ids, None))
        while len(out) < n:
            ty = tys[k % len(tys)]
            kind = kinds[(k // len(tys)) % len(kinds)]
            k += 1
            re_leaf = lambda r: r.choice([1, -1]) * r.uniform(0.2, 4)
            def val():
                return genvals.gen_value(rng, ty, genvals.leaf_rand, re_leaf=re_leaf)
            ids = []
            def add(op, args, aux=()):
                c = Case('c%d' % len(out), ty, op, args, aux, tag=kind)
                out.append(c)
                ids.append(c.id)
            if ty.is_float:
                continue
            if kind in GROUPS:
                nargs = vlib.OPS[kind][2]
                args = [val() for _ in range(nargs)]
                if kind in ('product3', 'sum3', 'mul') and rng.below(2) == 0:
                    # a factor / term with real part exactly zero and non-zero derivative parts (not the last one: the running product / sum goes through zero)
                    zi = rng.below(max(1, nargs - 1))
                    args[zi] = genvals.gen_value(rng, ty, genvals.leaf_rand, re_leaf=lambda r: 0.0)
                add(kind, args)
                for f in GROUPS[kind]:
                    add(f, args)
                if kind == 'sum3':
                    add('add', [args[0], args[1]])     # then + args[2] is checked against the model only
                self.groups.append(('identical', ids, kind))
            elif kind in SCALAR:
                a = val()
                q = rng.choice([1.0, -1.0, 0.5, 3.0, 2.75, -0.125, 1e-3, 7.1]) * rng.uniform(0.5, 2)
                qb = vlib.f2b(q)
                lifted = genvals.zero_value(ty)
                t, v = ty, lifted
                path = []
                while not t.is_float:
                    path.append(v)
                    v, t = v[0], t.inner
                # set innermost real part
                def set_re(v, t):
                    if t.is_float:
                        return qb
                    w = list(v)
                    w[0] = set_re(v[0], t.inner)
                    return w
                lifted = set_re(lifted, ty)
                add(kind, [a], [qb])
                add(SCALAR[kind][1], [a], [qb])
                add(SCALAR[kind][0], [a, lifted])
                add('from_F', [], [qb])
                add('from_inner_F', [], [qb])
                self.groups.append(('scalar', ids, kind))
            elif kind == 'mul_add':
                a, b, c = val(), val(), val()
                add('mul_add', [a, b, c])
                add('mul', [a, b])
                self.groups.append(('mul_add', ids, (c,)))
            else:
                add('zero', [])
                add('one', [])
                add('sum0', [])
                add('product0', [])
                add('from_i32', [], [rng.choice([0, 1, -7, 42, 2 ** 31 - 1, -2 ** 31])])
                self.groups.append(('consts', ids, None))
                # the other integer conversions of FromPrimitive, values up to the ends of each range (64-bit leaves: Python's int -> float conversion
                # is the correctly rounded one, as `n as f64`)
                if ty.leaf().width == 64:
                    ids = []
                    for _ in range(2):
                        kind = rng.choice(sorted(PRIM))
                        lo, hi = PRIM[kind]
                        v = rng.choice([lo, hi, 0, 1, hi // 2 + 1, lo // 3, rng.below(1 << 20), hi - rng.below(1 << 10), min(hi, (1 << 64) + rng.below(1 << 30)),
                                        max(lo, -(1 << 63) - 1 - rng.below(1 << 30))])
                        v = max(lo, min(hi, v))
                        add('from_prim', [], [kind, v])
                    self.groups.append(('prim', ids, None))
        return out

    def extra_checks(self):
        impl = getattr(self, 'impl_results', None)
        if not impl:
            return
        C = self.case_by_id
        for kind, ids, info in self.groups:
            if kind == 'identical':
                ref = impl[ids[0]]
                for i in ids[1:]:
                    if C[i].op == 'add' and info == 'sum3':
                        continue
                    if impl[i] != ref:
                        self.violations.append(Violation('counterexample', 'form %s differs from %s on %s (same operands)' % (C[i].op, C[ids[0]].op, C[i].ty),
                                                         case=C[i], expected=ref, obtained=impl[i]))
            elif kind == 'scalar':
                a, b, c, f, fin = (impl[i] for i in ids)
                ty = C[ids[0]].ty
                if fin != f:
                    self.violations.append(Violation('counterexample', 'DualNum::from_inner of the lifted scalar differs from From<F> on %s' % ty, case=C[ids[4]], expected=f, obtained=fin))
                if a != b:
                    self.violations.append(Violation('counterexample', '%s and its compound-assignment form differ on %s' % (info, ty), case=C[ids[1]], expected=a, obtained=b))
                if 'panic' in (a, c, f):
                    continue
                # the scalar form against the operation with the lifted constant: numerically equal (additive), a few ulps (multiplicative)
                tol = 0 if info in ('add_F', 'sub_F', 'mul_F') else 4
                for S in pyjet.family(ty):
                    x, y = pyjet.part_bits(a, ty, S), pyjet.part_bits(c, ty, S)
                    x = 0 if x is None else x
                    y = 0 if y is None else y
                    if x == y or (x == vlib.NAN and y == vlib.NAN):
                        continue
                    if x == vlib.NAN or y == vlib.NAN or ulps(x, y) > tol:
                        self.violations.append(Violation('counterexample', '%s on %s: part %s differs from the operation with the lifted constant' % (info, ty, S),
                                                         case=C[ids[0]], expected=y, obtained=x))
                        break
                # the lifted constant has zero derivative parts
                lv = vlib.leaves(f, ty)
                if any(v not in (0,) for v in lv[1:]):
                    self.violations.append(Violation('counterexample', 'From<F> on %s has a non-zero derivative part' % ty, case=C[ids[3]], obtained=f))
            elif kind == 'prim':
                for i in ids:
                    r = impl[i]
                    ty = C[i].ty
                    pk, n = C[i].aux
                    want = vlib.canon_bits(vlib.f2b(float(n)))
                    lv = None if (r is None or r == 'panic') else vlib.leaves(r[1], ty)
                    if lv is None or lv[0] != want or any(x != 0 for x in lv[1:]):
                        self.violations.append(Violation('counterexample', 'FromPrimitive::from_%s(%d) on %s is not the lifted constant %r' % (pk, n, ty, float(n)), case=C[i],
                                                         expected=want, obtained=r))
            elif kind == 'consts':
                z, o, s0, p0, fi = (impl[i] for i in ids)
                ty = C[ids[0]].ty
                one_bits = vlib.f2b(1.0)
                for name, v, rv in (('zero', z, 0), ('one', o, one_bits), ('empty sum', s0, 0), ('empty product', p0, one_bits)):
                    lv = vlib.leaves(v, ty)
                    if lv[0] != rv or any(x != 0 for x in lv[1:]):
                        self.violations.append(Violation('counterexample', '%s of %s is not the constant with zero derivative parts' % (name, ty), case=C[ids[0]], obtained=v))
                if fi is None or fi == 'panic':
                    self.violations.append(Violation('counterexample', 'from_i32 fails on %s' % ty, case=C[ids[4]], obtained=fi))
                else:
                    lv = vlib.leaves(fi[1], ty)
                    n = C[ids[4]].aux[0]
                    if lv[0] != vlib.canon_bits(vlib.f2b(float(n))) or any(x != 0 for x in lv[1:]):
                        self.violations.append(Violation('counterexample', 'from_i32(%d) on %s is not the lifted constant' % (n, ty), case=C[ids[4]], obtained=fi))

    def model_applicable(self, case):
        return case.op != 'from_prim' and BaseProp.model_applicable(self, case)

    def nontrivial(self, case, impl):
        return impl != 'panic' and case.op not in ('zero', 'one', 'sum0', 'product0')

    def rule_text(self):
        return ('groups of cases on identical operands: the five forms of each binary operator (and neg, inv/recip, sum/product by value and by reference) must be '
                'bit-identical; scalar forms against their compound form (bit-identical) and against the operation with the lifted constant (numerically equal, '
                '4 ulps for division); zero/one/empty sum/empty product/from_i32/From<F>/from_inner and the other integer conversions of FromPrimitive (values to the ends of each range, 128-bit included) are the lifted constant with zero derivative parts; mul_add against the model of x*a+b')
