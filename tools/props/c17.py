"""C17 -- Python bindings are a transparent view of the Rust operations."""
import vlib, genvals
from vlib import Case, f2b, b2f
from props.base import BaseProp, Violation

PY_TYPES = ['Dual64', 'Dual2_64', 'Dual3_64', 'HyperDual64', 'HyperHyperDual64', 'HyperDual_Dual64', 'Dual2_Dual64', 'Dual3_Dual64']
# python method -> operation of the Rust interface (names as in vlib.OPS)
UNARY = {'recip': 'recip', 'sqrt': 'sqrt', 'cbrt': 'cbrt', 'exp': 'exp', 'exp2': 'exp2', 'expm1': 'exp_m1', 'log': 'ln', 'log2': 'log2', 'log10': 'log10',
         'log1p': 'ln_1p', 'sin': 'sin', 'cos': 'cos', 'tan': 'tan', 'arcsin': 'asin', 'arccos': 'acos', 'arctan': 'atan', 'sinh': 'sinh', 'cosh': 'cosh',
         'tanh': 'tanh', 'arcsinh': 'asinh', 'arccosh': 'acosh', 'arctanh': 'atanh', 'sph_j0': 'sph_j0', 'sph_j1': 'sph_j1', 'sph_j2': 'sph_j2', 'neg': 'neg'}
DOMAIN = {'sqrt': (0.05, 9), 'log': (0.05, 9), 'log2': (0.05, 9), 'log10': (0.05, 9), 'log1p': (-0.9, 5), 'arcsin': (-0.9, 0.9), 'arccos': (-0.9, 0.9),
          'arctanh': (-0.9, 0.9), 'arccosh': (1.1, 9), 'tan': (-1.3, 1.3), 'recip': (0.2, 5), 'cbrt': (0.05, 9)}
BIN = {'add': ('add', 'add_F'), 'sub': ('sub', 'sub_F'), 'mul': ('mul', 'mul_F'), 'truediv': ('div', 'div_F')}
# reflected operators, as src/python_macro.rs defines them: f + d = d + f; f - d = (-d) + f; f * d = d * f; f / d = recip(d) * f
REFLECTED = {'add': [('add_F',)], 'sub': [('neg',), ('add_F',)], 'mul': [('mul_F',)], 'truediv': [('recip',), ('mul_F',)]}
GETTERS = {   # getter -> indices of the fields it returns (declaration order)
    'Dual64': {'value': [0], 'first_derivative': [1]},
    'Dual2_64': {'value': [0], 'first_derivative': [1], 'second_derivative': [2]},
    'Dual3_64': {'value': [0], 'first_derivative': [1], 'second_derivative': [2], 'third_derivative': [3]},
    'HyperDual64': {'value': [0], 'first_derivative': [1, 2], 'second_derivative': [3]},
    'HyperHyperDual64': {'value': [0], 'first_derivative': [1, 2, 3], 'second_derivative': [4, 5, 6], 'third_derivative': [7]},
    'HyperDual_Dual64': {'value': [0], 'first_derivative': [1, 2], 'second_derivative': [3]},
    'Dual2_Dual64': {'value': [0], 'first_derivative': [1], 'second_derivative': [2]},
    'Dual3_Dual64': {'value': [0], 'first_derivative': [1], 'second_derivative': [2], 'third_derivative': [3]},
}


import re
_NEGZERO = re.compile(r'(?<![0-9.eE])-0(?![0-9.eE])')


def norm(sv):
    """renderings are compared as they are (the expected values keep their raw bit patterns, sign of zero included)"""
    return sv


class Prop(BaseProp):
    coq_targets = ['ND/Proofs/C17_proofs.vo']
    extra_model_targets = ['ND/Hand/PyWrap.vo', 'gen/Gen_PyWrap.vo']
    n_quick, n_thorough = 420, 6000

    # ---------------------------------------------------------------------------------------------
    def gen(self, rng, n):
        """python cases, each with the chain of Rust operations that defines the expected value"""
        T = vlib.types()
        out = []
        unary = sorted(UNARY)
        # the driver functions on the dynamically sized classes (beyond the fixed-size dispatch), every run
        for force in (('partial_hessian', 7, 3), ('partial_hessian', 3, 7), ('partial_hessian', 6, 6), ('gradient', 12, 0), ('hessian', 11, 0), ('jacobian', 10, 6),
                      ('jacobian', 3, 6), ('partial_hessian', 5, 5)):
            out.append(self.driver_case(rng, 'p%d' % len(out), force))
        k = 0
        while len(out) < n:
            tn = PY_TYPES[k % len(PY_TYPES)]
            ty = T[tn]
            kind = (k // len(PY_TYPES)) % 12
            k += 1
            cid = 'p%d' % len(out)

            def val(lo=-3.0, hi=3.0):
                return genvals.gen_value(rng, ty, genvals.leaf_rand, re_leaf=lambda r: r.uniform(lo, hi))
            fl = rng.choice([0.5, -1.25, 2.0, 3.75, -0.0, 7.0, 1e-3])
            it = rng.choice([0, 1, 2, 3, -1, -2, 5])
            if kind in (0, 1, 2):
                m = unary[rng.below(len(unary))]
                lo, hi = DOMAIN.get(m, (-3.0, 3.0))
                a = val(lo, hi)
                out.append({'py': {'id': cid, 'kind': 'op', 'type': tn, 'op': m, 'args': [a]}, 'steps': [(UNARY[m], [])], 'args': [a], 'ty': ty})
            elif kind == 3:
                mode = rng.choice(['dd', 'df', 'di'])
                op = rng.choice(sorted(BIN))
                a, b = val(), val(0.3, 3.0)
                if mode == 'dd':
                    out.append({'py': {'id': cid, 'kind': 'op', 'type': tn, 'op': op, 'mode': 'dd', 'args': [a, b]}, 'steps': [(BIN[op][0], [])], 'args': [a, b], 'ty': ty})
                else:
                    c = fl if mode == 'df' else float(it if it else 3)
                    if mode == 'df' and rng.below(4) == 0:
                        c = genvals.real_part(a, ty) * rng.choice([1.0, -1.0])
                    aux = [f2b(c)] if mode == 'df' else [int(c)]
                    out.append({'py': {'id': cid, 'kind': 'op', 'type': tn, 'op': op, 'mode': mode, 'aux': aux, 'args': [a]},
                                'steps': [(BIN[op][1], [f2b(c)])], 'args': [a], 'ty': ty})
            elif kind == 4:
                mode = rng.choice(['fd', 'id'])
                op = rng.choice(sorted(REFLECTED))
                a = val(0.3, 3.0)
                c = fl if mode == 'fd' else float(it)
                if mode == 'fd' and rng.below(3) == 0:
                    c = genvals.real_part(a, ty)            # results with a zero real part: the sign of zero must match too
                aux = [f2b(c)] if mode == 'fd' else [int(c)]
                steps = [(s[0], [f2b(c)] if s[0].endswith('_F') else []) for s in REFLECTED[op]]
                out.append({'py': {'id': cid, 'kind': 'op', 'type': tn, 'op': op, 'mode': mode, 'aux': aux, 'args': [a]}, 'steps': steps, 'args': [a], 'ty': ty})
            elif kind == 5:
                mode = rng.choice(['di', 'df', 'dd'])
                a = val(0.3, 3.0)
                if mode == 'di' and rng.below(3) == 0:
                    # a Python int outside the i32 range is not an integer exponent for the wrapper: it is handed to powf as a float
                    big = rng.choice([2 ** 32 + 5, -(2 ** 32) + 7, 2 ** 33 + 2, 2 ** 31, -(2 ** 31) - 1, 2 ** 40 + 1])
                    a = genvals.gen_value(rng, ty, genvals.leaf_rand, re_leaf=lambda r: 1.0 + r.choice([1.0, -1.0, 2.0]) * 1e-9)
                    out.append({'py': {'id': cid, 'kind': 'op', 'type': tn, 'op': 'pow', 'mode': 'di', 'aux': [big], 'args': [a]},
                                'steps': [('powf', [f2b(float(big))])], 'args': [a], 'ty': ty})
                elif mode == 'di':
                    out.append({'py': {'id': cid, 'kind': 'op', 'type': tn, 'op': 'pow', 'mode': 'di', 'aux': [it], 'args': [a]}, 'steps': [('powi', [it])], 'args': [a], 'ty': ty})
                elif mode == 'df':
                    q = rng.choice([0.5, 2.5, -1.5, 3.0, 1.0, 0.0, 2.0])
                    out.append({'py': {'id': cid, 'kind': 'op', 'type': tn, 'op': 'pow', 'mode': 'df', 'aux': [f2b(q)], 'args': [a]}, 'steps': [('powf', [f2b(q)])], 'args': [a], 'ty': ty})
                else:
                    b = val(-2.0, 2.0)
                    out.append({'py': {'id': cid, 'kind': 'op', 'type': tn, 'op': 'pow', 'mode': 'dd', 'args': [a, b]}, 'steps': [('powd', [])], 'args': [a, b], 'ty': ty})
            elif kind == 6:
                a = val(0.3, 3.0)
                w = rng.below(4)
                if w == 0:
                    out.append({'py': {'id': cid, 'kind': 'op', 'type': tn, 'op': 'powi', 'aux': [it], 'args': [a]}, 'steps': [('powi', [it])], 'args': [a], 'ty': ty})
                elif w == 1:
                    q = rng.choice([0.5, 2.5, -1.5, 3.5])
                    out.append({'py': {'id': cid, 'kind': 'op', 'type': tn, 'op': 'powf', 'aux': [f2b(q)], 'args': [a]}, 'steps': [('powf', [f2b(q)])], 'args': [a], 'ty': ty})
                elif w == 2:
                    q = rng.choice([2.0, 10.0, 0.5, 7.25])
                    out.append({'py': {'id': cid, 'kind': 'op', 'type': tn, 'op': 'log_base', 'aux': [f2b(q)], 'args': [a]}, 'steps': [('log', [f2b(q)])], 'args': [a], 'ty': ty})
                else:
                    b = val(-2.0, 2.0)
                    out.append({'py': {'id': cid, 'kind': 'op', 'type': tn, 'op': 'powd', 'args': [a, b]}, 'steps': [('powd', [])], 'args': [a, b], 'ty': ty})
            elif kind == 7:
                a, b, c = val(), val(), val()
                out.append({'py': {'id': cid, 'kind': 'op', 'type': tn, 'op': 'mul_add', 'args': [a, b, c]}, 'steps': [('mul_add', [])], 'args': [a, b, c], 'ty': ty})
            elif kind == 8:
                a = val()
                out.append({'py': {'id': cid, 'kind': 'op', 'type': tn, 'op': 'sin_cos', 'args': [a]}, 'steps': [('sin_cos', [])], 'args': [a], 'ty': ty})
            elif kind == 9:
                a = val()
                out.append({'py': {'id': cid, 'kind': 'op', 'type': tn, 'op': 'getters', 'args': [a]}, 'steps': [], 'args': [a], 'ty': ty, 'getters': True})
            elif kind == 10 and not ty.inner.is_float:
                # nested classes take the inner number: from_re(Dual64(a, b)) has that real part and zero derivative parts
                e2 = rng.choice([0.0, 1.0, -2.5])
                zero = [f2b(0.0), f2b(0.0)]
                want = [[f2b(fl), f2b(e2)]] + [zero for _ in ty.fields()[1:]]
                out.append({'py': {'id': cid, 'kind': 'op', 'type': tn, 'op': 'from_re', 'aux': [f2b(fl), f2b(e2)], 'args': []}, 'steps': [], 'args': [want], 'ty': ty})
            elif kind == 10:
                out.append({'py': {'id': cid, 'kind': 'op', 'type': tn, 'op': 'from_re', 'aux': [f2b(fl)], 'args': []}, 'steps': [('from_F', [f2b(fl)])], 'args': [], 'ty': ty})
            else:
                out.append(self.driver_case(rng, cid))
        return out

    def driver_case(self, rng, cid, force=None):
        def pt(k):
            return [float(rng.below(33) - 16) / 8 for _ in range(k)]
        name = force[0] if force else rng.choice(['first_derivative', 'second_derivative', 'third_derivative', 'second_partial_derivative', 'third_partial_derivative', 'gradient', 'gradient',
                           'jacobian', 'hessian', 'hessian', 'partial_hessian', 'third_partial_derivative_vec'])
        c = {'id': cid, 'name': name, 'm': 1, 'fail': 0, 'ijk': None, 'y': []}
        if name in ('first_derivative', 'second_derivative', 'third_derivative'):
            c['x'] = pt(1)
        elif name == 'second_partial_derivative':
            c['x'], c['y'] = pt(1), pt(1)
        elif name == 'third_partial_derivative':
            c['x'] = pt(3)
        elif name == 'partial_hessian':
            c['x'], c['y'] = pt(1 + rng.below(8)), pt(1 + rng.below(8))      # fixed-size classes up to 5 x 5, the dynamic class beyond
        elif name == 'third_partial_derivative_vec':
            nn = 1 + rng.below(8)
            c['x'] = pt(nn)
            c['ijk'] = (rng.below(nn), rng.below(nn), rng.below(nn))
        elif name == 'jacobian':
            c['x'] = pt(1 + rng.below(10))         # the Python jacobian is documented for up to 10 variables (TypeError beyond)
            c['m'] = 1 + rng.below(6)
        else:
            c['x'] = pt(1 + rng.below(12))         # gradient / hessian: fixed-size classes up to 10, the dynamic class beyond
        if force:
            c['x'] = pt(force[1])
            if name == 'partial_hessian':
                c['y'] = pt(force[2])
            if name == 'jacobian':
                c['m'] = force[2]
        py = {'id': cid, 'kind': 'driver', 'name': name, 'x': [f2b(v) for v in c['x']], 'y': [f2b(v) for v in c['y']], 'm': c['m']}
        if c['ijk']:
            py['ijk'] = list(c['ijk'])
        return {'py': py, 'driver': c}

    # ---------------------------------------------------------------------------------------------
    def step_correspondence(self):
        rng = self.rng.fork('cases')
        n = self.n_quick if self.tier == 'quick' else self.n_thorough
        pc = self.gen(rng, n)
        exe = vlib.build_harness('dev')
        self.exe = exe
        moddir = vlib.build_pymodule()
        pyres = vlib.run_pymodule(moddir, [c['py'] for c in pc])
        # expected values: chains of Rust operations through the harness
        cur = {c['py']['id']: c['args'] for c in pc if 'steps' in c}
        allcases = []
        for phase in range(2):
            batch = []
            for c in pc:
                if 'steps' not in c or len(c['steps']) <= phase:
                    continue
                op, aux = c['steps'][phase]
                batch.append((c, Case('%s_s%d' % (c['py']['id'], phase), c['ty'], op, cur[c['py']['id']], aux, tag=c['py']['op'])))
            if not batch:
                break
            res = self.run_raw(exe, [b[1] for b in batch])
            for c, cs in batch:
                r = res[cs.id]           # raw bit patterns (sign of zero kept): they feed the next step and the rendering
                if r == 'panic':
                    canon = 'panic'
                elif cs.op == 'sin_cos':
                    canon = [vlib.canon_val(v, cs.ty) for v in r]
                else:
                    canon = vlib.canon_val(r, cs.ty)
                c.setdefault('rust', []).append(canon)
                cur[c['py']['id']] = [r] if cs.op != 'sin_cos' or r == 'panic' else r
                allcases.append(cs)
                c['last_case'] = cs
        # the same operations on the translated model inside Coq (the model that the theorems of C01..C11 are about)
        mcases = [cs for cs in allcases]
        model, mstats = vlib.run_model(mcases, self.pid, extra_imports=self.extra_imports, oracle_exe=exe)
        self.cov['model_stats'] = mstats
        impl_by_case = {}
        for c in pc:
            for i, r in enumerate(c.get('rust', [])):
                impl_by_case['%s_s%d' % (c['py']['id'], i)] = r
        agree = dis = merr = 0
        for cs in mcases:
            m = model[cs.id]
            if isinstance(m, tuple) and m and m[0] == 'error':
                merr += 1
                self.broken.append(Violation('correspondence-broken', 'model cannot be evaluated for %s %s' % (cs.ty, cs.op), case=cs, name='correspondence:%s:%s' % (cs.ty.struct, cs.op)))
            elif m == impl_by_case[cs.id]:
                agree += 1
            else:
                dis += 1
                if dis <= 10:
                    self.broken.append(Violation('correspondence-broken', 'model and Rust implementation differ on %s %s' % (cs.ty, cs.op), case=cs,
                                                 expected={'model': m}, obtained={'implementation': impl_by_case[cs.id]}, name='correspondence:%s:%s' % (cs.ty.struct, cs.op)))
        # Display of every expected value (and of the inner numbers the getters return)
        disp = []
        T = vlib.types()
        for c in pc:
            if 'steps' not in c:
                continue
            vals = cur[c['py']['id']]
            for j, v in enumerate(vals if c['py']['op'] in ('sin_cos',) else vals[:1]):
                if v != 'panic':
                    disp.append(Case('%s_d%d' % (c['py']['id'], j), c['ty'], 'display', [v], []))
            if c.get('getters') and not c['ty'].inner.is_float:
                for j, part in enumerate(c['args'][0]):
                    disp.append(Case('%s_g%d' % (c['py']['id'], j), T['Dual64'], 'display', [part], []))
        raw = vlib.run_harness(exe, [d.harness_line() for d in disp])
        shown = {}
        for d in disp:
            st, toks = raw[d.id]
            shown[d.id] = bytes.fromhex(toks[0][1:]).decode('utf-8') if st == 'ok' else 'panic'
        # drivers through the Rust harness
        from props import c05
        h5 = c05.Prop('C05', self.tier, self.seed)
        dcases = [c for c in pc if 'driver' in c]
        draw = vlib.run_harness(exe, [h5.harness_line(c['driver']) for c in dcases])
        ok = 0
        dist = {}
        for c in pc:
            cid = c['py']['id']
            got = pyres.get(cid)
            key = c['py'].get('op') or c['py'].get('name')
            dist[key] = dist.get(key, 0) + 1
            v = self.compare(c, got, cur, shown, draw)
            if v is not None:
                self.violations.append(v)
            else:
                ok += 1
        self.cases_run = pc
        self.cov.update({'evaluations': len(pc), 'distinct_nontrivial': ok, 'distribution': dist,
                         'correspondence': {'cases': len(mcases), 'agree': agree, 'disagree': dis, 'model_errors': merr, 'python_vs_rust': {'cases': len(pc), 'agree': ok}},
                         'samples': [dict(c['py'], python=pyres.get(c['py']['id'])) for c in pc[:: max(1, len(pc) // 6)][:6]]})
        vlib.log('%s: %d python calls, %d equal to the Rust operation; model/Rust on the expected chains: %d/%d agree' % (self.pid, len(pc), ok, agree, len(mcases)))

    def run_raw(self, exe, cases):
        raw = vlib.run_harness(exe, [c.harness_line() for c in cases])
        out = {}
        for c in cases:
            st, toks = raw[c.id]
            if st != 'ok':
                out[c.id] = 'panic'
            elif c.op == 'sin_cos':
                a, i = vlib.val_from_tokens(toks, c.ty)
                b, _ = vlib.val_from_tokens(toks, c.ty, i)
                out[c.id] = [a, b]
            else:
                out[c.id] = vlib.val_from_tokens(toks, c.ty)[0]
        return out

    def compare(self, c, got, cur, shown, draw):
        py = c['py']
        cid = py['id']
        what = '%s.%s' % (py.get('type', 'driver'), py.get('op') or py.get('name'))
        if got is None:
            return Violation('counterexample', 'python runner returned nothing for %s' % what, case=py)
        if 'driver' in c:
            st, toks = draw[cid]
            want = 'panic' if st != 'ok' else [int(t, 16) for t in toks]
            if 'error' in got:
                return Violation('counterexample', 'python driver %s (n=%d) raises %s, the Rust driver returns a value' % (py['name'], len(py['x']), got['error']), case=py,
                                 expected=want, obtained=got)
            if want == 'panic' or [b if b == b else 0 for b in got['floats']] != want:
                return Violation('counterexample', 'python driver %s (n=%d, m=%d) differs from the Rust driver on the same closure' % (py['name'], len(py['x']), py.get('m', 1)),
                                 case=py, expected=[b2f(b) for b in want] if want != 'panic' else want, obtained=[b2f(b) for b in got['floats']])
            return None
        if 'error' in got:
            return Violation('counterexample', 'python %s raises %s: %s' % (what, got['error'], got.get('message', '')), case=py, obtained=got)
        if c.get('getters'):
            want_repr = shown['%s_d0' % cid]
            if norm(got['repr']) != norm(want_repr):
                return Violation('counterexample', 'python repr of %s is %r, the Rust rendering is %r' % (py['type'], got['repr'], want_repr), case=py, expected=want_repr, obtained=got['repr'])
            v = c['args'][0]
            for g, idx in GETTERS[py['type']].items():
                if c['ty'].inner.is_float:
                    want = [v[i] for i in idx]
                    have = got['getters'].get(g, [])
                else:
                    want = [shown['%s_g%d' % (cid, i)] for i in idx]
                    have = got['getters'].get(g, [])
                if norm(want) != norm(have):
                    return Violation('counterexample', 'python getter %s.%s returns %r, the stored parts are %r' % (py['type'], g, have, want), case=py, expected=want, obtained=have)
            return None
        if py['op'] == 'sin_cos':
            want = [shown.get('%s_d%d' % (cid, j), 'panic') for j in range(2)]
            if norm(got.get('reprs')) != norm(want):
                return Violation('counterexample', 'python %s differs from the Rust operation' % what, case=py, expected=want, obtained=got.get('reprs'))
            return None
        want = shown.get('%s_d0' % cid, 'panic')
        if norm(got.get('repr')) != norm(want):
            return Violation('counterexample', 'python %s (%s) = %s, the Rust operation %s gives %s' % (
                what, py.get('mode', ''), got.get('repr'), ' then '.join(s[0] for s in c['steps']), want), case=py, expected=want, obtained=got.get('repr'))
        return None

    def step_search(self):
        pass

    def rule_text(self):
        return ('the eight registered Python classes x {every named method, sin_cos, powi/powf/powd/log_base/mul_add, + - * / with a dual, float or int on the right, '
                'float or int on the left (reflected operators), ** with int / float / dual, unary minus, constructors, from_re, the part getters, repr} on operands '
                'with arbitrary parts, and the ten driver functions on closures written with the Python operators (gradient / hessian with 1..12 variables: fixed-size '
                'classes up to 10, dynamic beyond; jacobian 1..10 x 1..6 with derivative-free outputs; partial_hessian up to 8 x 8: fixed-size classes up to 5 x 5, dynamic beyond).  Expected value: the corresponding Rust operation (for reflected '
                'operators the composition python_macro.rs names) run through the harness and rendered by Display; Python repr must equal that string (Rust float Display '
                'is the shortest round-trip decimal, so equal strings are equal bits), getters must return the stored parts, drivers must return the Rust driver\'s '
                'floats bit for bit on the same closure.  The expected chains are also evaluated on the translated model inside Coq, bit for bit.  Distinct by '
                '(class, operation, operand bits); non-trivial = Python result equal to the Rust result')

    def assumption_text(self):
        return super().assumption_text() + ['pyo3 argument conversion (int -> f64, int -> i32) and numpy are trusted; array-valued right operands (numpy broadcasting) are not exercised']
