(* Proofs/C14_proofs.v -- cylindrical Bessel functions (hand model Hand/Bessel.v with the tables regenerated from src/bessel.rs).
   What is proved: (1) polevl / p1evl are Horner evaluations of the polynomials with the given coefficients; (2) over Dual, each branch of
   bessel_j0 / bessel_j1 / bessel_j2 returns the value and the DERIVATIVE (Coquelicot is_derive) of the real function the same code computes over R,
   along any differentiable curve -- the derivative parts are the exact derivatives of the approximating function, whatever the coefficients are;
   (3) the denominators of the rational approximations are positive on z >= 0; (4) which branch is taken is decided by the real part; (5) parity.
   NOT proved: closeness of the approximating functions to the true J0, J1, J2 (a statement about 96 floating-point coefficients; decided on the
   implementation against 60-digit references). *)
From ND Require Import Tactics C02_proofs C01_towers C01_faa C07_proofs C09_proofs Prog Agree C04_inst C03_proofs Bessel.
From NDgen Require Import Gen_Bessel.
Local Open Scope R_scope.

(* ---- Horner ---- *)
Fixpoint poly_sum (x : R) (l : list R) : R := match l with nil => 0 | c :: r => c * x ^ length r + poly_sum x r end.
Lemma fold_horner (x : R) (l : list R) (a : R) :
  fold_left (fun acc c => (acc * x + c)%rs) l a = a * x ^ length l + poly_sum x l.
Proof.
  revert a; induction l as [|c r IH]; intros a; simpl.
  - ring.
  - rewrite IH. change ((a * x + c)%rs) with (a * x + c). ring.
Qed.
Lemma polevl_spec (x : R) (c0 : R) (r : list R) : polevl (T:=R) x (c0 :: r) = poly_sum x (c0 :: r).
Proof. unfold polevl. rewrite fold_horner. simpl. change (ofF c0 : R) with c0. ring. Qed.
Lemma p1evl_spec (x : R) (l : list R) : p1evl (T:=R) x l = x ^ length l + poly_sum x l.
Proof. unfold p1evl. rewrite fold_horner. change (Overload.one : R) with 1. ring. Qed.

Lemma fold_pos (x : R) (l : list R) (a : R) : 0 <= x -> 0 < a -> List.Forall (fun c => 0 < c) l ->
  0 < fold_left (fun acc c => (acc * x + c)%rs) l a.
Proof.
  intros Hx; revert a; induction l as [|c r IH]; intros a Ha Hl; simpl; [exact Ha|].
  inversion Hl; subst. apply IH; [|assumption]. change ((a * x + c)%rs) with (a * x + c). nra.
Qed.

(* ---- the first-order representation is preserved by Horner evaluation ---- *)
Section RepFold.
  Variable t0 : R.
  Lemma rep_fold (v a : R -> R) (x A : Dual R) (l : list R) : Rep1 t0 v x -> Rep1 t0 a A ->
    Rep1 t0 (fun t => fold_left (fun acc c => (acc * v t + c)%rs) l (a t)) (fold_left (fun acc c => (acc * x + c)%rs) l A).
  Proof.
    intros Hv; revert a A; induction l as [|c r IH]; intros a A Ha; simpl; [exact Ha|].
    apply (IH (fun t => (a t * v t + c)%rs)).
    apply (rep_scal t0 B_add (fun t => (a t * v t)%rs) (A * x)%rs c); [|discriminate].
    apply (rep_bin t0 B_mul a v A x Ha Hv). discriminate.
  Qed.
  Lemma rep_polevl (v : R -> R) (x : Dual R) (l : list R) : Rep1 t0 v x -> Rep1 t0 (fun t => polevl (T:=R) (v t) l) (polevl x l).
  Proof.
    intros Hv. destruct l as [|c0 r]; unfold polevl; [apply rep_const|].
    apply (rep_fold v (fun _ => c0) x (ofF c0) r Hv). apply rep_const.
  Qed.
  Lemma rep_p1evl (v : R -> R) (x : Dual R) (l : list R) : Rep1 t0 v x -> Rep1 t0 (fun t => p1evl (T:=R) (v t) l) (p1evl x l).
  Proof. intros Hv. unfold p1evl. apply (rep_fold v (fun _ => 1) x (Overload.one : Dual R) l Hv). apply (rep_const t0 1). Qed.
End RepFold.

(* ---- the branches over Dual: value and derivative of the real branch function ---- *)
Ltac rbin b := eapply (rep_bin _ b); [| |try discriminate].
Ltac rscal b := eapply (rep_scal _ b); [|try discriminate].
Section Branches.
  Variable t0 : R.
  Lemma rep_j0_mid v x : Rep1 t0 v x -> p1evl (T:=R) (v t0) B_RQ0 <> 0 -> Rep1 t0 (fun t => j0_mid (T:=R) (v t)) (j0_mid x).
  Proof.
    intros H Hq. unfold j0_mid.
    rbin B_div; [rbin B_mul; [rbin B_mul; [rscal B_sub; exact H | rscal B_sub; exact H] | apply rep_polevl; exact H] | apply rep_p1evl; exact H | intros _; exact Hq].
  Qed.
  Ltac litnz := intros _; rcbv; lra.
  Lemma rep_j0_small v x : Rep1 t0 v x -> Rep1 t0 (fun t => j0_small (T:=R) (v t)) (j0_small x).
  Proof.
    intros H. unfold j0_small.
    rbin B_sub; [rbin B_add; [rbin B_sub; [apply (rep_const t0 1) | rscal B_div; [exact H | litnz]] | rscal B_div; [rbin B_mul; exact H | litnz]] |
                 rscal B_div; [rbin B_mul; [rbin B_mul; exact H | exact H] | litnz]].
  Qed.
  Lemma rep_j1_mid v x : Rep1 t0 v x -> p1evl (T:=R) (v t0 * v t0) B_RQ1 <> 0 -> Rep1 t0 (fun t => j1_mid (T:=R) (v t)) (j1_mid x).
  Proof.
    intros H Hq. unfold j1_mid.
    assert (Hz : Rep1 t0 (fun t => (v t * v t)%rs) (x * x)%rs) by (rbin B_mul; exact H).
    rbin B_mul; [rbin B_mul; [rbin B_mul; [rbin B_div; [apply rep_polevl; exact Hz | apply rep_p1evl; exact Hz | intros _; exact Hq] | exact H] | rscal B_sub; exact Hz] | rscal B_sub; exact Hz].
  Qed.
  Lemma rep_j2_series v x : Rep1 t0 v x -> Rep1 t0 (fun t => j2_series (T:=R) (v t)) (j2_series x).
  Proof.
    intros H. unfold j2_series. cbv zeta.
    assert (Hz : Rep1 t0 (fun t => (v t * v t)%rs) (x * x)%rs) by (rbin B_mul; exact H).
    rbin B_mul; [rscal B_div; [exact Hz | litnz] | apply rep_polevl; exact Hz].
  Qed.
  Lemma rep_j0_asym v x : Rep1 t0 v x -> 0 < v t0 ->
    (let q := ((m_recip (v t0) * lk (T:=R) L_bessel_j0 5) * (m_recip (v t0) * lk (T:=R) L_bessel_j0 5))%rs in polevl (T:=R) q B_PQ0 <> 0 /\ p1evl (T:=R) q B_QQ0 <> 0) ->
    Rep1 t0 (fun t => j0_asym (T:=R) (v t)) (j0_asym x).
  Proof.
    intros H Hpos [Hq1 Hq2]. unfold j0_asym. cbv zeta. rewrite sin_cos_Dual. cbn [fst snd].
    assert (Hw : Rep1 t0 (fun t => (m_recip (v t) * lk (T:=R) L_bessel_j0 5)%rs) (m_recip x * lk (T:=Dual R) L_bessel_j0 5)%rs).
    { rscal B_mul. apply (rep_un t0 U_recip v x H). simpl. lra. }
    assert (Hqq : Rep1 t0 (fun t => ((m_recip (v t) * lk (T:=R) L_bessel_j0 5) * (m_recip (v t) * lk (T:=R) L_bessel_j0 5))%rs)
                         ((m_recip x * lk (T:=Dual R) L_bessel_j0 5) * (m_recip x * lk (T:=Dual R) L_bessel_j0 5))%rs) by (rbin B_mul; exact Hw).
    assert (Harg : Rep1 t0 (fun t => (v t - (fl_const C_FRAC_PI_4 : R))%rs) (x - (fl_const C_FRAC_PI_4 : R))%rs) by (rscal B_sub; exact H).
    rbin B_mul.
    - rbin B_sub.
      + rbin B_mul; [rbin B_div; [apply rep_polevl; exact Hqq | apply rep_polevl; exact Hqq | intros _; exact Hq1] |].
        apply (rep_un t0 U_cos _ _ Harg). exact I.
      + rbin B_mul; [rbin B_mul; [exact Hw | rbin B_div; [apply rep_polevl; exact Hqq | apply rep_p1evl; exact Hqq | intros _; exact Hq2]] |].
        apply (rep_un t0 U_sin _ _ Harg). exact I.
    - apply (rep_un t0 U_sqrt (fun t => ((ofF (fl_const C_FRAC_2_PI : R) : R) / v t)%rs) ((ofF (fl_const C_FRAC_2_PI : R) : Dual R) / x)%rs).
      + rbin B_div; [apply rep_const | exact H | intros _; lra].
      + simpl. change (0 < (2 / PI) / v t0). pose proof PI_RGT_0. apply Rdiv_lt_0_compat; [apply Rdiv_lt_0_compat; lra | exact Hpos].
  Qed.
End Branches.

(* ---- Dual R as a ring with sign operations (what parity needs) ---- *)
Ltac deq := intros; repeat match goal with d : Dual R |- _ => destruct d end; rcbv; f_equal; ring.
Lemma dneg_neg (d : Dual R) : (- (- d))%rs = d.  Proof. deq. Qed.
Lemma dmul_neg_neg (a b : Dual R) : ((- a) * (- b))%rs = (a * b)%rs.  Proof. deq. Qed.
Lemma dmul_neg_r (a b : Dual R) : (a * (- b))%rs = (- (a * b))%rs.  Proof. deq. Qed.
Lemma dmul_neg_l (a b : Dual R) : ((- a) * b)%rs = (- (a * b))%rs.  Proof. deq. Qed.
Lemma dre_neg (d : Dual R) : m_re (- d)%rs = - m_re d.  Proof. destruct d; reflexivity. Qed.

Ltac dec_R := repeat match goal with
  | |- context [Rle_dec ?a ?b] => destruct (Rle_dec a b); try lra
  | |- context [Rlt_dec ?a ?b] => destruct (Rlt_dec a b); try lra
  | |- context [Req_EM_T ?a ?b] => destruct (Req_EM_T a b); try lra end.
Lemma dabs_pos (d : Dual R) : 0 < m_re d -> m_abs d = d.
Proof. destruct d as [r e]; intros H. assert (H' : 0 < r) by exact H. rcbv. unfold Rleb. dec_R. reflexivity. Qed.
Lemma dabs_neg (d : Dual R) : m_re d < 0 -> m_abs d = (- d)%rs.
Proof. destruct d as [r e]; intros H. assert (H' : r < 0) by exact H. rcbv. unfold Rleb. dec_R. reflexivity. Qed.
Lemma dis_negative (d : Dual R) : (m_is_negative d : bool) = if Rlt_dec (m_re d) 0 then true else false.
Proof. destruct d as [r e]; simpl. rcbv. unfold Rleb. dec_R; reflexivity. Qed.
Lemma dsignum_neg (d : Dual R) : m_re d <> 0 -> m_signum (- d)%rs = (- (m_signum d))%rs.
Proof. destruct d as [r e]; intros H. assert (H' : r <> 0) by exact H. rcbv. unfold Rleb, Reqb. dec_R; f_equal; ring. Qed.
Lemma dabs_neg_eq (d : Dual R) : m_re d <> 0 -> m_abs (- d)%rs = m_abs d.
Proof.
  intros H. destruct (Rlt_dec (m_re d) 0) as [Hn|Hp].
  - rewrite (dabs_neg d Hn). apply dabs_pos. rewrite dre_neg. lra.
  - assert (0 < m_re d) by lra. rewrite (dabs_pos d H0). rewrite dabs_neg by (rewrite dre_neg; lra). apply dneg_neg.
Qed.
Lemma dscal_neg_l (a : Dual R) (c : R) : ((- a) * c)%rs = (- (a * c))%rs.  Proof. deq. Qed.
Lemma ddiv_neg_neg (a b : Dual R) : m_re b <> 0 -> ((- a) / (- b))%rs = (a / b)%rs.
Proof. destruct a as [a0 a1], b as [b0 b1]; intros H. assert (H' : b0 <> 0) by exact H. rcbv. f_equal; field; assumption. Qed.

Lemma nz_false (r : R) : r <> 0 -> nt_is_zero r = false.
Proof. intros H. unfold nt_is_zero. rcbv. unfold Reqb. dec_R; try reflexivity. Qed.
Lemma nz_true (r : R) : r = 0 -> nt_is_zero r = true.
Proof. intros H. unfold nt_is_zero. rcbv. unfold Reqb. dec_R; try reflexivity. Qed.

(* ---- parity: J0 and J2 even, J1 odd, as dual numbers (every part) ---- *)
Theorem j0_even (d : Dual R) : m_re d <> 0 -> bessel_j0 (- d)%rs = bessel_j0 d.
Proof.
  intros H. unfold bessel_j0. rewrite !dis_negative, dre_neg.
  destruct (Rlt_dec (- m_re d) 0), (Rlt_dec (m_re d) 0); try lra; rewrite ?dneg_neg; reflexivity.
Qed.
Theorem j1_odd (d : Dual R) : m_re d <> 0 -> bessel_j1 (- d)%rs = (- (bessel_j1 d))%rs.
Proof.
  intros H. unfold bessel_j1. rewrite (dabs_neg_eq d H).
  destruct ((m_re (m_abs d) : R) <=? lk L_bessel_j1 0)%rs.
  - unfold j1_mid. rewrite dmul_neg_neg. rewrite dmul_neg_r, !dmul_neg_l. reflexivity.
  - unfold j1_asym. cbv zeta. rewrite (dabs_neg_eq d H), (dsignum_neg d H). rewrite !dmul_neg_l. reflexivity.
Qed.
Theorem j2_even (d : Dual R) : m_re d <> 0 -> bessel_j2 (- d)%rs = bessel_j2 d.
Proof.
  intros H. unfold bessel_j2. rewrite dre_neg.
  change (std_abs (- m_re d : R)) with (Rabs (- m_re d)). change (std_abs (m_re d : R)) with (Rabs (m_re d)). rewrite Rabs_Ropp.
  destruct (Rabs (m_re d) <? lk L_bessel_j2 0)%rs.
  - unfold j2_series. cbv zeta. rewrite dmul_neg_neg. reflexivity.
  - unfold j2_rec. rewrite (j1_odd d H), (j0_even d H). rewrite dscal_neg_l. rewrite (ddiv_neg_neg _ d H). reflexivity.
Qed.

(* ---- which branch: decided by the real part ---- *)
Theorem j0_branches (d : Dual R) :
  (0 <= m_re d < lk (T:=R) L_bessel_j0 1 -> lk (T:=R) L_bessel_j0 1 <= lk (T:=R) L_bessel_j0 0 -> bessel_j0 d = j0_small (d * d)%rs) /\
  (lk (T:=R) L_bessel_j0 1 <= m_re d <= lk (T:=R) L_bessel_j0 0 -> 0 <= m_re d -> bessel_j0 d = j0_mid (d * d)%rs) /\
  (lk (T:=R) L_bessel_j0 0 < m_re d -> 0 <= m_re d -> bessel_j0 d = j0_asym d).
Proof.
  unfold bessel_j0. rewrite dis_negative.
  repeat split; intros; (destruct (Rlt_dec (m_re d) 0); [lra|]);
    change (@lk R (Dual R) _ L_bessel_j0 0) with (@lk R R _ L_bessel_j0 0); change (@lk R (Dual R) _ L_bessel_j0 1) with (@lk R R _ L_bessel_j0 1);
    change (@hleb R R _) with Rleb; change (@hltb R R _) with Rltb; unfold Rleb, Rltb; dec_R; reflexivity.
Qed.
Theorem j2_branches (d : Dual R) :
  (Rabs (m_re d) < lk (T:=R) L_bessel_j2 0 -> bessel_j2 d = j2_series d) /\
  (lk (T:=R) L_bessel_j2 0 <= Rabs (m_re d) -> bessel_j2 d = (bessel_j1 d * lk (T:=Dual R) L_bessel_j2 2 / d - bessel_j0 d)%rs).
Proof.
  unfold bessel_j2. change (std_abs (m_re d : R)) with (Rabs (m_re d)).
  change (@lk R (Dual R) _ L_bessel_j2 0) with (@lk R R _ L_bessel_j2 0). change (@hltb R R _) with Rltb. unfold Rltb.
  split; intros H; dec_R; reflexivity.
Qed.

(* ---- the denominators of the rational approximations are positive for z >= 0 (their coefficients are) ---- *)
Ltac allpos := repeat constructor; rcbv; lra.
Lemma RQ0_pos : List.Forall (fun c => 0 < c) (B_RQ0 (F:=R)).  Proof. unfold B_RQ0. allpos. Qed.
Lemma PQ0_pos : List.Forall (fun c => 0 < c) (B_PQ0 (F:=R)).  Proof. unfold B_PQ0. allpos. Qed.
Lemma QQ0_pos : List.Forall (fun c => 0 < c) (B_QQ0 (F:=R)).  Proof. unfold B_QQ0. allpos. Qed.
Lemma RQ1_pos : List.Forall (fun c => 0 < c) (B_RQ1 (F:=R)).  Proof. unfold B_RQ1. allpos. Qed.
Lemma PQ1_pos : List.Forall (fun c => 0 < c) (B_PQ1 (F:=R)).  Proof. unfold B_PQ1. allpos. Qed.
Lemma QQ1_pos : List.Forall (fun c => 0 < c) (B_QQ1 (F:=R)).  Proof. unfold B_QQ1. allpos. Qed.
Lemma p1evl_pos (z : R) l : 0 <= z -> List.Forall (fun c => 0 < c) l -> 0 < p1evl (T:=R) z l.
Proof. intros Hz Hl. unfold p1evl. apply fold_pos; [exact Hz | change (0 < 1); lra | exact Hl]. Qed.
Lemma polevl_pos (z : R) l : 0 <= z -> l <> nil -> List.Forall (fun c => 0 < c) l -> 0 < polevl (T:=R) z l.
Proof. intros Hz Hn Hl. destruct l as [|c0 r]; [congruence|]. inversion Hl; subst. unfold polevl. apply fold_pos; assumption. Qed.

(* hence the mid-range branches need no side condition, and the asymptotic branch only x > 0 *)
Theorem rep_j0_mid' t0 v x : Rep1 t0 v x -> Rep1 t0 (fun t => j0_mid (T:=R) (v t * v t)%rs) (j0_mid (x * x)%rs).
Proof.
  intros H. apply (rep_j0_mid t0 (fun t => (v t * v t)%rs)); [eapply (rep_bin _ B_mul); [exact H|exact H|discriminate]|].
  apply Rgt_not_eq. apply p1evl_pos; [apply Rle_0_sqr | exact RQ0_pos].
Qed.
Theorem rep_j1_mid' t0 v x : Rep1 t0 v x -> Rep1 t0 (fun t => j1_mid (T:=R) (v t)) (j1_mid x).
Proof. intros H. apply (rep_j1_mid t0 v x H). apply Rgt_not_eq. apply p1evl_pos; [apply Rle_0_sqr | exact RQ1_pos]. Qed.
Theorem rep_j0_asym' t0 v x : Rep1 t0 v x -> 0 < v t0 -> Rep1 t0 (fun t => j0_asym (T:=R) (v t)) (j0_asym x).
Proof.
  intros H Hp. apply (rep_j0_asym t0 v x H Hp). cbv zeta. split; apply Rgt_not_eq.
  - apply polevl_pos; [apply Rle_0_sqr | unfold B_PQ0; discriminate | exact PQ0_pos].
  - apply p1evl_pos; [apply Rle_0_sqr | exact QQ0_pos].
Qed.

Lemma denominators_positive (z : R) : 0 <= z ->
  0 < p1evl (T:=R) z B_RQ0 /\ 0 < polevl (T:=R) z B_PQ0 /\ 0 < p1evl (T:=R) z B_QQ0 /\
  0 < p1evl (T:=R) z B_RQ1 /\ 0 < polevl (T:=R) z B_PQ1 /\ 0 < p1evl (T:=R) z B_QQ1.
Proof.
  intros Hz. repeat split.
  - apply p1evl_pos; [exact Hz|exact RQ0_pos].
  - apply polevl_pos; [exact Hz|unfold B_PQ0; discriminate|exact PQ0_pos].
  - apply p1evl_pos; [exact Hz|exact QQ0_pos].
  - apply p1evl_pos; [exact Hz|exact RQ1_pos].
  - apply polevl_pos; [exact Hz|unfold B_PQ1; discriminate|exact PQ1_pos].
  - apply p1evl_pos; [exact Hz|exact QQ1_pos].
Qed.
Lemma example_c14 : Rep1 2 (fun t => t) (mkDual 2 1) /\ lk (T:=R) L_bessel_j0 1 <= m_re (mkDual 2 1) <= lk (T:=R) L_bessel_j0 0.
Proof.
  split; [split; [reflexivity|simpl; apply (is_derive_id (K:=R_AbsRing) 2)]|]. rcbv. lra.
Qed.
