#!/usr/bin/env python3
"""Writes /verif/MANIFEST.json from the table below (one entry per claimed property)."""
import json
TB = ("Trusted: Coq 8.16.1 kernel + vm_compute with primitive floats (no native_compute); the classical-reals axioms of the standard library "
      "(sig_forall_dec, sig_not_dec, functional_extensionality_dep) and Classical_Prop.classic as Print Assumptions reports them; the translator "
      "(nightly rustc macro expansion, syn front end, tools/emit*.py, vocabulary coq/ND/Base) -- validated on every run by executing the generated "
      "model on binary64 inside Coq and comparing bit for bit with the implementation; the Rust harness and the libm oracle helper.")
CLAIMS = {
 'C01': ("Coq proof: generated third-order coefficients are a Coquelicot derivative tower of each function; every type's chain rule = Faa di Bruno; bit-exact correspondence",
         "Theorems (Props/C01.v, 239): for each of 22 elementary functions the coefficients f0..f3 that the generated Dual3 code computes from the real part satisfy f0 = g and "
         "is_derive f_k = f_(k+1) on the open domain (Coquelicot); each of the eight types' private chain rules equals the set-partition Faa di Bruno formula on every part; and "
         "for every function x type the result's parts are Faa di Bruno of that tower with the operand's parts -- all real parts in the domain, arbitrary parts, every direction, "
         "dimension and presence pattern; abs/signum away from 0, sin_cos, log to a base. Re-proved against the regenerated model on every run; the binary64 reading is executed in Coq "
         "and compared bit for bit with the implementation (f32 types: implementation oracle only). Partial: the rounding-error clause is checked by the always-on oracle "
         "(60-digit mpmath towers, tolerance 32 u Sum|terms|), not by a theorem; atan2 is decided under C10."),
 'C02': ("Coq proof (ring/field over R) on the regenerated model: product = Leibniz, quotient = unique solution of q*b=a, linear ops part-wise; bit-exact correspondence",
         "Theorems (Props/C02.v, 26) for each of the eight dual number types read over the reals: the product is the general Leibniz rule on every part, the quotient is the unique jet q with "
         "q*b = a when re b <> 0, + - neg are part-wise; vector types for every direction, dimension and presence pattern (shape premises proved invariant). Re-proved on every run against the "
         "model regenerated from /repo; the binary64 reading of the same generated code is executed in Coq and compared bit for bit with the implementation. Partial: exactness on dyadic grids "
         "is decided by exact rational comparison on the implementation (testing), not by a float-level theorem."),
 'C03': ("Coq proof by induction on programs (Hand/Prog.v, evaluated over the TRANSLATED operations): Dual, Dual2, Dual3 carry the first, second and third Coquelicot derivative of the composed real function along the input curves; every first-order direction of every type; real part = real evaluation; other higher/mixed parts through the agreement theorem; bit-exact correspondence of whole programs",
         "Programs are an expression syntax with sharing (variables, integer constants, 23 unary operations, + - * / with dual and scalar right operands, powi, let), interpreted by Prog.eval over ANY instance of the translated "
         "interface; the Rust harness has the same interpreter generic in DualNum. Theorems (Props/C03.v, 16): for every program, every list of differentiable input curves and every point where each intermediate REAL value lies in "
         "the domain of the operation applied to it (okR, a condition on the real function alone), the evaluation over Dual has real part = the real function and eps = its derivative (is_derive) along the curves; the same for the "
         "first-order part in ANY direction of Dual2, Dual3, HyperDual, HyperHyperDual, DualVec, Dual2Vec, HyperDualVec (every component, dimension, presence pattern) and of Dual<Dual>, Dual<Dual<Dual>> (induction on programs with a "
         "generic jet-algebra interface JetAlgF that each type is PROVED to satisfy from the C01/C02/C08/C09 theorems about the regenerated code). Higher order: the evaluation over Dual2 carries, in v1 and v2, the first and SECOND "
         "derivative of the composed real function (there is a derivative function near the point whose value is v1 and whose derivative at the point is v2), and over Dual3 additionally the THIRD in v3 -- both by induction on programs, "
         "with the derivative towers of the 22 functions and of powi at every point of their open domains. The remaining higher and mixed parts (HyperDual, HyperHyperDual, vector types, nestings) are tied to these part by part by the "
         "agreement theorems of C04 when seeded along one variable; no analytic statement is proved for MIXED partial derivatives (several variables in different slots): there each operation is Leibniz / Faa di Bruno with true towers (C01, C02, C09). "
         "mul_add and iterator sum/product are proved equal to operator compositions in C08 and are not separate syntax. Whole random programs are run through the translated model inside Coq (binary64, libm from the oracle table) "
         "and must equal the implementation bit for bit; the rounding clause is decided on the implementation by reference jets with a first-order running error bound propagated through the same jet algebra, and exactly on dyadic grids (testing)."),
 'C04': ("Coq proof: one generic agreement theorem (induction on programs over two jet algebras related by a relabelling of directions) instantiated for every pair of types; NDERIV additivity for an arbitrary instance; bit-exact correspondence and cross-type runs of whole programs",
         "Theorems (Props/C04.v, 12): for EVERY program of Hand/Prog.v in the domain (okR on the real function) and every pair below, if the inputs are related (part y S = part x (map f S) on y's family) so are the results, on every "
         "part: DualVec component i ~ Dual; Dual2Vec entries (i),(j),(i,j) ~ HyperDual; HyperDualVec ~ HyperDual; Dual2 ~ HyperDual with both directions on one variable; Dual3 ~ HyperHyperDual with three; Dual3 ~ Dual2 ~ Dual "
         "(prefixes); HyperDual direction k ~ Dual; HyperDual ~ Dual<Dual>; HyperHyperDual ~ Dual<Dual<Dual>> (nested: integer exponents 0..8) -- any dimension and presence pattern; the generated code does not depend on static or "
         "dynamic storage. NDERIV of each struct = NDERIV of its inner type + its own order, for an arbitrary instance (hence any nesting). The implementation is run on X and on Y inputs derived through f (41+ pairings: third/second "
         "order scalar, nested to depth 3, vectors of dimension 1..6 static and dynamic, hyper-dual vectors) and compared within the sum of the two running error bounds; static vs dynamic storage bit for bit; binary32 vs binary64 on "
         "binary32-representable inputs within the binary32 bound (tested, no theorem about f32); all 64-bit runs also through the model in Coq, bit for bit."),
 'C06': ("Coq proof for an ARBITRARY scalar instance (abstract F, T, DN): real part of every result is a function of the operands' real parts; comparisons/predicates decided by re; bit-exact correspondence",
         "Theorems (Props/C06.v, 580) are proved for an arbitrary interpretation of the scalar interface (abstract F and T with any DN instance: reals, binary64, a nested dual type), so they are literal "
         "bit-level statements and hold at every nesting level: for each of the eight types and every operation (unary functions, + - * /, scalar operands, powi/powf/powd/log/atan2/mul_add, sph_j*) "
         "equal real parts of the operands give equal real parts of the results; forwarded operations return exactly the inner number's operation; ==, partial_cmp on the four field-compatible types and "
         "is_zero/is_one/is_positive/is_negative on all types are functions of the real parts. The implementation is exercised on triples (A, same-real-part B, plain float). Partial: closeness of "
         "tan/tanh/div/powers/sph_j* real parts to the float functions is tested (ulp bound), not proved."),
 'C07': ("Coq proof: every operation and every sequence of compound assignments maps numerically-equal operands (absent = zero) to numerically-equal results; bit-exact correspondence",
         "veq x y says every part of x and y has the same numerical value, an absent part reading as zero, whatever mixture of absent / explicit-zero representation each uses. Theorems "
         "(Props/C07.v, 84) for DualVec, Dual2Vec and HyperDualVec over the reals: + - neg * / and each of the 22 elementary functions map veq operands to veq results (every direction, dimension "
         "and presence pattern, shape premises proved invariant), and so does every finite sequence of compound assignments applied to an accumulator (induction over the operation list with veq "
         "as invariant). They are derived from what C02/C01 prove about the regenerated code. The implementation is run on absent / dense / mixed encodings of the same operands and on random "
         "assignment histories, compared part by part. Partial: numerical equality on floats (0*x, x+0) is tested, not proved; powers/conversions/drivers are covered by the test only."),
 'C08': ("Coq proof: forwarding forms, constants, sum/product, mul_add, inv for an arbitrary scalar instance (bit-exact, all nestings); assign/scalar forms against the lifted constant over R; bit-exact correspondence",
         "Theorems (Props/C08.v, 472). For an arbitrary interpretation of the scalar interface (abstract F, T, any DN instance -- hence bit-exact and valid at every nesting level): the by-value/by-reference "
         "forms of + - * / and neg equal the canonical form, x*=y is x*y, x/=y is x/y, scalar binary forms equal their compound forms, inv = recip, mul_add x a b = x*a+b, iterator sum/product are "
         "left folds from zero/one, From<F>, zero, one, the sixteen FloatConst constants and every FromPrimitive constructor are from_re of the inner constant and from_re has zero/absent derivative "
         "parts. Over the reals, for every type and part: x+=y, x-=y equal x+y, x-y, and x o f equals x o lift f for + - * / (f <> 0). The implementation is run on all forms with identical operands."),
 'C09': ("Coq proof: powi/powf coefficients of the regenerated code are the generalized binomial tower (Coquelicot), every type's result = Faa di Bruno of it for every exponent and branch; powd = exp(n ln x) for every instance; bit-exact correspondence",
         "Theorems (Props/C09.v, 31): for every i32 exponent n (range premise -2^31+3 <= n) and every non-zero base, the coefficients the generated third-order powi computes are a Coquelicot "
         "derivative tower of x^n (branches 0, 1, 2 and the general one); for every real n other than 0, 1 and not within epsilon of 2, and every positive base, likewise for powf with Rpower; n = 2 gives the "
         "tower of x^2; for each of the eight types, every exponent and every branch the result's parts are Faa di Bruno of that tower with the operand's parts; powd x n = exp(ln x * n) for an arbitrary "
         "scalar instance (so C01/C02 give its derivatives). The i32 products of the original code are shown to wrap at n = 1292 (fixed in /repo). Exponents up to 2^30, neighbours of 0/1/2 and dual exponents "
         "are run on the implementation against 60-digit references. Partial: agreement of the three power functions is tested, not stated as a theorem; rounding bounds are tested."),
 'C10': ("Coq proof over R where meaningful (powi tower at every base incl. 0, atan2 gradient formula on both sides of the diagonal, series jets at 0) + execution of the regenerated model on binary64 at the enumerated special points, bit-exact against the implementation",
         "Theorems (Props/C10.v, 12): for n >= 3 the generated powi coefficients are the derivative tower of x^n at EVERY base, zero included; for each of the eight types atan2(y, x) returns Ratan2 in the real part and "
         "(x dy - y dx)/(x^2+y^2) in every first-order part whenever (x, y) <> (0, 0) -- in particular on and next to both axes, through both branches of the repaired code; below the switch the spherical Bessel "
         "jets at 0 are (1,0,-1/3,0), (0,1/3,0,-1/5), (0,0,2/15,0); the exp_m1 / ln_1p towers hold at 0. Finiteness (no NaN from 0*inf or 0/0) cannot be expressed over the reals, where 1/0 and ln 0 are "
         "totalised: it is decided by executing the generated model on primitive binary64 floats inside Coq at every enumerated special point and its float neighbours, bit for bit against the implementation, "
         "and by an oracle requiring every part finite and equal to the mathematical jet (this is enumeration of a finite set of points with random derivative parts, not a theorem about all parts)."),
 'C14': ("Coq proof on a hand model of bessel.rs whose tables, constants and literals are regenerated from the source: Horner semantics, every branch over Dual returns value and Coquelicot derivative of the real function the same code computes, denominators positive, branch selection by the real part, parity of every part; model executed in Coq bit for bit against the implementation; accuracy against 60-digit references (tested); three fixes recorded",
         "Hand model coq/ND/Hand/Bessel.v (control structure by hand; all 13 coefficient tables, the scalar constants and the numeric literals of each function come from gen/Gen_Bessel.v, rewritten from src/bessel.rs on every run). "
         "Theorems (Props/C14.v, 18): polevl / p1evl are the Horner evaluations of the polynomials with the listed coefficients; for any differentiable curve, the small-argument, rational and asymptotic branches of bessel_j0, the rational "
         "branch of bessel_j1 and the series branch of bessel_j2, evaluated over Dual, carry the value and the derivative (is_derive) of the real function the same code computes -- whatever the coefficients are; the six denominators are "
         "positive for every z >= 0 (so no side conditions remain); which branch runs is decided by the real part; bessel_j0 itself on (1e-5, 5) and (5, inf), bessel_j1 on |x| < 5 and bessel_j2 on |x| < 0.25 carry value and derivative of the real function they compute (locality of the branch by continuity); J0(-X) = J0(X), J1(-X) = -J1(X), J2(-X) = J2(X) in every part. The model is executed in Coq on binary64 (libm from the "
         "oracle table) on every Copy type incl. nestings to fourth order and must equal the implementation bit for bit. NOT proved: closeness of the approximating functions to the true J0, J1, J2 (a statement about 104 floating-point "
         "coefficients) and the asymptotic branch of J1 as a derivative statement; decided on the implementation against mpmath J_n^(k) at 60 digits with absolute accuracy 16 u 32^k (1+|x|/8) for the k-th derivative, at 0, denormals, "
         "both sides of every switch point, zeros of J0/J1/J2, up to |x| = 60, both signs, with parity checked exactly. Higher-order parts follow from C03/C04 applied to the same composition of generic operations (not restated here)."),
 'C15': ("Coq proof: on each branch the regenerated coefficients are a Coquelicot tower of the closed form / of the series polynomial, every type's parts are Faa di Bruno of it, branch chosen by |re| < eps; bit-exact correspondence; one open known finding",
         "Theorems (Props/C15.v, 35): the generated sph_j0/1/2 coincide, as dual numbers, with the closed forms sin x/x, (sin x - x cos x)/x^2, ((3-x^2) sin x - 3x cos x)/x^3 wherever |re| >= eps and with the series "
         "polynomials 1 - x^2/6, (x - x^3/10)/3, x^2/15 wherever |re| < eps; the third-order coefficients of the closed forms are a Coquelicot derivative tower of those functions at every x <> 0 and those of the series of "
         "the polynomials; for each of the eight types and both branches the parts are Faa di Bruno of the branch's tower; above the switch the real part equals the plain-float implementation's formula. The jets at 0 are "
         "in C10. Implementation run on [-50, 50], 0, below the switch, the switch value and its neighbours on both signs, small arguments, f32/f64 and plain floats. KNOWN FINDING (open, listed): the closed forms cancel "
         "catastrophically for eps <= |x| < 1; only that class is suppressed. Not proved: closeness of the series to the true functions for 0 < |x| < eps (eps^2, tested)."),
 'C17': ("Correspondence-centred: the Python module built from /repo is run against the Rust harness AND the translated model evaluated in Coq (bit for bit through the shortest-round-trip rendering); Coq proof on a hand model of the wrapper layer for the reflected operators and the name table",
         "The binding layer is glue: its contract 'returns what the Rust operation returns' is a statement about two executables, so the deciding part is the correspondence. The extension module is built from /repo's working tree "
         "(feature python, cdylib) on every run and driven by tools/pyrun.py: all eight registered classes x every named method, sin_cos, powi/powf/powd/log_base/mul_add, + - * / with dual / float / int right operands, float / int left "
         "operands (reflected operators), ** with int / float / dual, unary minus, constructors, from_re, getters, repr; the ten driver functions on closures written with Python operators (gradient / hessian with 1..12 variables: the "
         "fixed-size classes up to 10 and the dynamic class beyond; jacobian 1..10; partial_hessian; third_partial_derivative_vec). Expected = the corresponding Rust operation through the harness, rendered by Display; Python repr must be that "
         "string (Rust's float Display is the shortest round-trip decimal: equal strings, equal bits; -0 is read as 0 as everywhere in this framework), getters the stored parts, drivers the Rust driver's floats on the same closure. The same "
         "expected chains are evaluated on the translated model inside Coq and must agree bit for bit, so Python = Rust = model. Theorems (Props/C17.v, 10): the forwarding table, the reflected-operator bodies and the ** dispatch order extracted from src/python_macro.rs on every run (tools/gen_pywrap.py) are the documented ones (so a wrapper forwarding to the wrong function breaks a theorem, not only the run-time comparison); on the hand model Hand/PyWrap.v: for Dual, Dual2, Dual3, HyperDual, HyperHyperDual over "
         "R, f + d, f - d, f * d, f / d as the macro composes them (d + f, (-d) + f, d * f, recip(d) * f) equal the operation with f lifted to a constant on the left, in every part (re d <> 0 for /); for an arbitrary number type the "
         "renamed methods (expm1, log, log1p, arcsin..) are the Rust operations exp_m1, ln, ln_1p, asin.. and ** dispatches to powi / powf / powd. NOT covered: numpy array right operands (broadcasting), pickling; jacobian beyond 10 "
         "variables raises by design. Trusted: pyo3 argument conversion, numpy."),
 'C18': ("Coq proof: token lists generated from the source's format strings render, for any number format, as the documented layout; shown numbers = stored parts in order (injectivity); Derivative::fmt hand-modelled; bit-exact correspondence of the printed numbers",
         "Theorems (Props/C18.v, 18): for an arbitrary way of showing the inner number (hence nested types) and any number/matrix formatting, the token list the translator generates from each scalar type's format "
         "string renders as: real part, then for each part in declaration order ' + ', its rendering, its documented symbol; vector types are real part followed by Derivative::fmt of each optional part with its symbol; "
         "an absent part prints nothing, a present one ' + ' body symbol; at the leaves the numbers shown are exactly the stored parts in order (so the rendering is injective). Derivative::fmt is modelled by hand "
         "(coq/ND/Hand/DerFmt.v). The implementation's to_string is tokenised, every number parsed back and compared by bits and position with the model's tokens and with an independent rendering of the documented layout. "
         "Trusted: Rust's float Display/parse round trip (re-checked on every case), nalgebra's 2-D matrix printer (numbers compared in reading order). Python repr = Display is decided under C17."),
 'C16': ("Coq proof on a structural model of serde_derive whose per-struct (key, member) tables are extracted from the macro-expanded source: coherence of the tables by computation, round trip for every nesting by induction on the type code; serde_json round trips compared with the model",
         "The serde_derive output in the macro-expanded source is read by tools/gen_serde.py: for every scalar struct the (key, member) pairs in serialization order and the (key, member) pairs the Deserialize visitor "
         "assigns (so skip / rename / a swapped field change the tables). Theorems (Props/C16.v, 4, axiom-free): no field is serialized conditionally and every key is required on input (skip_serializing_if / default would show in the extracted tables); the extracted tables are coherent (same pairs on both sides, distinct keys, exactly the declared members in "
         "declaration order -- by vm_compute on the regenerated tables); for every type built by nesting the five scalar structs over a float leaf and every leaf codec that round-trips the leaf, de (ser v) = Some v "
         "(induction on the type code, Hand/Serde.v); the keys are exactly the documented names in order. The implementation's serde_json round trip is run on all scalar types, f32/f64 and nestings to depth 3: every part "
         "bit for bit, and the key sequence of the JSON text against the model. Trusted: serde_derive's and serde_json's semantics as modelled (map with named entries), the leaf float codec (values restricted to those "
         "a plain float round-trips through the same build)."),
 'C12': ("Coq proof on a hand model of linalg.rs for ANY size: forward and back substitution solve the stored triangular systems over any commutative ring with division by units -- instantiated for the dual number types, so the identity holds in every derivative part; singular pivot columns are reported; model executed in Coq bit for bit against the implementation; defining identities on the implementation; one open finding (Jacobi)",
         "Hand model coq/ND/Hand/LinAlg.v (LU::new with partial pivoting on the real part, solve, determinant, inverse, norm; every loop a fold over the same index range, every assignment a list update). Theorems (Props/C12.v, 7), for every "
         "size n: over any number type whose + - * form a commutative ring and whose division satisfies (x/y)*y = x for units, forward substitution with the stored row order returns y with y_i + sum_{k<i} a_ik y_k = b_{p i}, back "
         "substitution returns x with sum_{k>=i} a_ik x_k = y_i, and LU::solve is their composition; Dual, Dual2, Dual3, HyperDual, HyperHyperDual over R are such rings with the numbers of non-zero real part as units -- so L(Ux) = Pb holds "
         "in the real part and in EVERY derivative part at once (stated for Dual); a pivot column whose real parts all vanish makes LU::new return the error. NOT proved: that the elimination loop yields P A = L U, determinant, inverse, "
         "the Jacobi iteration, nalgebra's decompositions. These are decided by execution: the model is evaluated in Coq on binary64 on 12 types, sizes 1..6, every pivoting path, and must equal the implementation bit for bit (solve, "
         "determinant, inverse, norm; singular inputs); and the defining identities A x = b, A A^-1 = I, determinant vs 60-digit elimination on jets (Jacobi's formula), A V = V diag(lambda), V^T V = I, ascending lambda (Hellmann-Feynman "
         "is their first-order part) are checked in every part on the crate's routines and on nalgebra's (solve, try_inverse, determinant, symmetric_eigen over the four field-compatible types), with a backward-error scale |L||U||x| "
         "computed in jet arithmetic. OPEN FINDING (listed): jacobi_eigenvalue tests convergence on real parts only -- symmetric matrices with a diagonal real part and non-diagonal derivative parts violate A V = V diag(lambda) in the "
         "derivative parts; only that matrix class is suppressed."),
 'C13': ("Coq proof on a hand-written model of the SubsetOf/SupersetOf impls (values with optional parts, abstract leaf casts): widen-then-narrow = identity, checked narrowing succeeds iff membership, value = per-part cast, presence preserved; model executed in Coq against the implementation",
         "Hand model (coq/ND/Hand/Subset.v) of to_superset / from_superset / from_superset_unchecked / is_in_subset / float lift and extract on Dual, Dual2, DualVec, Dual2Vec (parts present or absent), for arbitrary leaf "
         "conversions. Theorems (Props/C13.v, 7, axiom-free): for any widen/narrow with narrow (widen a) = a and in_sub (widen a) = true: narrowing a widened value is the identity (absent parts included), a widened value is a member, "
         "the checked narrowing succeeds exactly when the membership predicate holds and then returns the per-part cast, presence patterns are preserved, lifting a float gives a constant whose extraction is the float; with simba's "
         "constantly-true float membership the checked narrowing always succeeds. The model's definitions are evaluated in Coq (the f64->f32 cast looked up from the same Rust build) and compared with the implementation on 520+ "
         "conversions over {f32,f64}^2, dimensions 0..4 static/dynamic, all presence patterns. NOT proved: memory safety / leak freedom of the unsafe element loops -- a property of the compiled code, not of any Gallina term; the thorough "
         "tier runs the conversion cases under Miri as supporting evidence only. Exactness of f32->f64 widening is IEEE semantics of `as` (trusted)."),
 'C11': ("Coq proof for an arbitrary scalar instance on the TRANSLATED ComplexField/RealField impl bodies: every constant = from_re of the float constant of the same name, every method = the generic dual operation it names, selections return an operand; bit-exact correspondence through the nalgebra traits",
         "The bodies of the ComplexField and RealField impls of Dual, Dual2, DualVec, Dual2Vec are translated (gen/Gen_Field.v, 62 methods per type; floor/ceil/round/trunc/fract panic by design, is_finite/try_sqrt/min_value/max_value "
         "are outside the model). Theorems (Props/C11.v, 228) for an arbitrary interpretation of the scalar interface: each of the fifteen RealField constants is from_re of the FloatConst constant of the SAME name (name table written by hand); "
         "each forwarded method equals the generic dual operation (sin..cbrt, sin_cos, mul_add, powi; powf/powc = powd; log to a dual base = ln/ln; hypot = sqrt(x^2+y^2); scale/unscale = * /; modulus/norm1/abs = abs; real/conjugate/"
         "from_real = id; imaginary = 0; argument = 0 or pi by the sign of the real part; atan2); max/min/clamp return one of their operands, copysign +-abs, is_sign_* read the real part. Combined with C01/C03 these give the derivative "
         "semantics. The implementation is called through nalgebra's traits on six types: constants against the f64 constants of the same Rust build, methods bit for bit against the generic operation and against the same method on plain floats "
         "in the real part, single-lane SIMD splat/extract/replace/select round trips (tested, not modelled: SimdValue impls are untranslated)."),
 'C05': ("Coq proof on a hand-written model of the twenty drivers (its seeding helpers are the translated ones): seeds are unit directions, results are read off the right parts in the right orientation, try_ propagates errors; model executed in Coq on closures that exist on both sides",
         "Hand model coq/ND/Hand/Drivers.v (lists for vectors; from_re / derivative / Derivative::derivative_generic / unwrap_generic are the translated definitions). Theorems (Props/C05.v, 13): for every input length, the i-th argument handed "
         "to the closure has real part x_i and derivative part delta_ij in direction j and nothing else (gradient/jacobian, hessian, both halves of partial_hessian, third_partial_derivative_vec for every index triple incl. repeated indices, "
         "the scalar drivers); gradient[i], jacobian[(i,j)] (any output length), the hessian gradient and matrix [(i,j)], partial_hessian [(i,j)] are exactly the parts [i], [j] of output i, [i;j], [inl i; inr j] of the closure's result "
         "(absent parts read as zero); for an arbitrary scalar instance a closure error is returned unchanged and every infallible variant equals its try_ variant on the Ok-wrapped closure. With C01-C03 on the closure this gives the "
         "named partial derivatives. The model is evaluated in Coq on binary64 on asymmetric cubic closures written on both sides and compared bit for bit with the implementation (all twenty drivers, n in 0..6, m in 1..6, static and "
         "dynamic, distinct error codes), and the implementation exactly against sympy partial derivatives. Partial: the drivers themselves are not translated (nalgebra vector plumbing), the tie is the correspondence."),
}
props = [json.loads(l) for l in open('/verif/properties.jsonl')]
checks = []
for pid in sorted(CLAIMS):
    tech, text = CLAIMS[pid]
    checks.append({"property_id": pid, "quick_cmd": "./check %s --tier quick" % pid, "thorough_cmd": "./check %s --tier thorough" % pid,
                   "evidence_file": "/verif/evidence/%s.json" % pid, "replay_cmd_template": "./check %s --replay {path}" % pid,
                   "engine": "coq-generated-model", "technique": tech,
                   "level_claimed": {"category": "proof", "design_ref": "DESIGN.md section 4 (%s)" % pid, "text": text},
                   "level_note": TB})
na = [{"property_id": p['id'], "reason": "not claimed"}
      for p in props if p['id'] not in CLAIMS]
m = {"version": 1, "setup_cmd": "./setup",
     "hooks": {"guard": "num_dual_verif", "enable": "no hooks are needed: every observation goes through the public API (RUSTFLAGS=\"--cfg num_dual_verif\" reserved)",
               "baseline_off_cmd": "cd /repo && cargo test --workspace --no-fail-fast --offline", "source_commits": [], "add_only": True},
     "engines": [{"name": "coq-generated-model", "path": "/verif/check", "serves_properties": sorted(CLAIMS),
                  "kind_free_text": "translator Rust->Gallina + Coq proofs + in-Coq execution against a Rust harness"}],
     "checks": checks, "not_applicable": na,
     "notes": "See DESIGN.md. KNOWN_FINDINGS.json lists genuine defects (open/fixed); fix: commits are in /repo's history."}
json.dump(m, open('/verif/MANIFEST.json', 'w'), indent=1)
print('claimed', sorted(CLAIMS))
