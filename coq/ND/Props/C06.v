(* Props/C06.v -- property C06: the real part is transparent and alone decides comparisons and branches.
   Written by tools/coqgen/gen_c06.py; only statements, `exact` proofs and the axiom report. *)
From ND Require Import Overload Float Mat Opt C06_proofs.
From NDgen Require Import Classes Gen_Float Gen_Derivative Gen_Dual Gen_Dual2 Gen_Dual3 Gen_HyperDual Gen_HyperHyperDual Gen_DualVec Gen_Dual2Vec Gen_HyperDualVec.
Local Open Scope rs_scope.

Theorem C06_re_only_Dual_recip : forall {F T : Type} {dnFT : DN F T} {ordT : DNOrd T}, forall x x' : Dual T, Dual_f_re x = Dual_f_re x' -> Dual_f_re (m_recip x) = Dual_f_re (m_recip x').
Proof. intros F T dnFT ordT. exact re_only_Dual_recip. Qed.
Theorem C06_re_only_Dual_sqrt : forall {F T : Type} {dnFT : DN F T} {ordT : DNOrd T}, forall x x' : Dual T, Dual_f_re x = Dual_f_re x' -> Dual_f_re (m_sqrt x) = Dual_f_re (m_sqrt x').
Proof. intros F T dnFT ordT. exact re_only_Dual_sqrt. Qed.
Theorem C06_re_only_Dual_cbrt : forall {F T : Type} {dnFT : DN F T} {ordT : DNOrd T}, forall x x' : Dual T, Dual_f_re x = Dual_f_re x' -> Dual_f_re (m_cbrt x) = Dual_f_re (m_cbrt x').
Proof. intros F T dnFT ordT. exact re_only_Dual_cbrt. Qed.
Theorem C06_re_only_Dual_exp : forall {F T : Type} {dnFT : DN F T} {ordT : DNOrd T}, forall x x' : Dual T, Dual_f_re x = Dual_f_re x' -> Dual_f_re (m_exp x) = Dual_f_re (m_exp x').
Proof. intros F T dnFT ordT. exact re_only_Dual_exp. Qed.
Theorem C06_re_only_Dual_exp2 : forall {F T : Type} {dnFT : DN F T} {ordT : DNOrd T}, forall x x' : Dual T, Dual_f_re x = Dual_f_re x' -> Dual_f_re (m_exp2 x) = Dual_f_re (m_exp2 x').
Proof. intros F T dnFT ordT. exact re_only_Dual_exp2. Qed.
Theorem C06_re_only_Dual_exp_m1 : forall {F T : Type} {dnFT : DN F T} {ordT : DNOrd T}, forall x x' : Dual T, Dual_f_re x = Dual_f_re x' -> Dual_f_re (m_exp_m1 x) = Dual_f_re (m_exp_m1 x').
Proof. intros F T dnFT ordT. exact re_only_Dual_exp_m1. Qed.
Theorem C06_re_only_Dual_ln : forall {F T : Type} {dnFT : DN F T} {ordT : DNOrd T}, forall x x' : Dual T, Dual_f_re x = Dual_f_re x' -> Dual_f_re (m_ln x) = Dual_f_re (m_ln x').
Proof. intros F T dnFT ordT. exact re_only_Dual_ln. Qed.
Theorem C06_re_only_Dual_log2 : forall {F T : Type} {dnFT : DN F T} {ordT : DNOrd T}, forall x x' : Dual T, Dual_f_re x = Dual_f_re x' -> Dual_f_re (m_log2 x) = Dual_f_re (m_log2 x').
Proof. intros F T dnFT ordT. exact re_only_Dual_log2. Qed.
Theorem C06_re_only_Dual_log10 : forall {F T : Type} {dnFT : DN F T} {ordT : DNOrd T}, forall x x' : Dual T, Dual_f_re x = Dual_f_re x' -> Dual_f_re (m_log10 x) = Dual_f_re (m_log10 x').
Proof. intros F T dnFT ordT. exact re_only_Dual_log10. Qed.
Theorem C06_re_only_Dual_ln_1p : forall {F T : Type} {dnFT : DN F T} {ordT : DNOrd T}, forall x x' : Dual T, Dual_f_re x = Dual_f_re x' -> Dual_f_re (m_ln_1p x) = Dual_f_re (m_ln_1p x').
Proof. intros F T dnFT ordT. exact re_only_Dual_ln_1p. Qed.
Theorem C06_re_only_Dual_sin : forall {F T : Type} {dnFT : DN F T} {ordT : DNOrd T}, forall x x' : Dual T, Dual_f_re x = Dual_f_re x' -> Dual_f_re (m_sin x) = Dual_f_re (m_sin x').
Proof. intros F T dnFT ordT. exact re_only_Dual_sin. Qed.
Theorem C06_re_only_Dual_cos : forall {F T : Type} {dnFT : DN F T} {ordT : DNOrd T}, forall x x' : Dual T, Dual_f_re x = Dual_f_re x' -> Dual_f_re (m_cos x) = Dual_f_re (m_cos x').
Proof. intros F T dnFT ordT. exact re_only_Dual_cos. Qed.
Theorem C06_re_only_Dual_asin : forall {F T : Type} {dnFT : DN F T} {ordT : DNOrd T}, forall x x' : Dual T, Dual_f_re x = Dual_f_re x' -> Dual_f_re (m_asin x) = Dual_f_re (m_asin x').
Proof. intros F T dnFT ordT. exact re_only_Dual_asin. Qed.
Theorem C06_re_only_Dual_acos : forall {F T : Type} {dnFT : DN F T} {ordT : DNOrd T}, forall x x' : Dual T, Dual_f_re x = Dual_f_re x' -> Dual_f_re (m_acos x) = Dual_f_re (m_acos x').
Proof. intros F T dnFT ordT. exact re_only_Dual_acos. Qed.
Theorem C06_re_only_Dual_atan : forall {F T : Type} {dnFT : DN F T} {ordT : DNOrd T}, forall x x' : Dual T, Dual_f_re x = Dual_f_re x' -> Dual_f_re (m_atan x) = Dual_f_re (m_atan x').
Proof. intros F T dnFT ordT. exact re_only_Dual_atan. Qed.
Theorem C06_re_only_Dual_sinh : forall {F T : Type} {dnFT : DN F T} {ordT : DNOrd T}, forall x x' : Dual T, Dual_f_re x = Dual_f_re x' -> Dual_f_re (m_sinh x) = Dual_f_re (m_sinh x').
Proof. intros F T dnFT ordT. exact re_only_Dual_sinh. Qed.
Theorem C06_re_only_Dual_cosh : forall {F T : Type} {dnFT : DN F T} {ordT : DNOrd T}, forall x x' : Dual T, Dual_f_re x = Dual_f_re x' -> Dual_f_re (m_cosh x) = Dual_f_re (m_cosh x').
Proof. intros F T dnFT ordT. exact re_only_Dual_cosh. Qed.
Theorem C06_re_only_Dual_asinh : forall {F T : Type} {dnFT : DN F T} {ordT : DNOrd T}, forall x x' : Dual T, Dual_f_re x = Dual_f_re x' -> Dual_f_re (m_asinh x) = Dual_f_re (m_asinh x').
Proof. intros F T dnFT ordT. exact re_only_Dual_asinh. Qed.
Theorem C06_re_only_Dual_acosh : forall {F T : Type} {dnFT : DN F T} {ordT : DNOrd T}, forall x x' : Dual T, Dual_f_re x = Dual_f_re x' -> Dual_f_re (m_acosh x) = Dual_f_re (m_acosh x').
Proof. intros F T dnFT ordT. exact re_only_Dual_acosh. Qed.
Theorem C06_re_only_Dual_atanh : forall {F T : Type} {dnFT : DN F T} {ordT : DNOrd T}, forall x x' : Dual T, Dual_f_re x = Dual_f_re x' -> Dual_f_re (m_atanh x) = Dual_f_re (m_atanh x').
Proof. intros F T dnFT ordT. exact re_only_Dual_atanh. Qed.
Theorem C06_re_only_Dual_tan : forall {F T : Type} {dnFT : DN F T} {ordT : DNOrd T}, forall x x' : Dual T, Dual_f_re x = Dual_f_re x' -> Dual_f_re (m_tan x) = Dual_f_re (m_tan x').
Proof. intros F T dnFT ordT. exact re_only_Dual_tan. Qed.
Theorem C06_re_only_Dual_tanh : forall {F T : Type} {dnFT : DN F T} {ordT : DNOrd T}, forall x x' : Dual T, Dual_f_re x = Dual_f_re x' -> Dual_f_re (m_tanh x) = Dual_f_re (m_tanh x').
Proof. intros F T dnFT ordT. exact re_only_Dual_tanh. Qed.
Theorem C06_re_only_Dual_sph_j0 : forall {F T : Type} {dnFT : DN F T} {ordT : DNOrd T}, forall x x' : Dual T, Dual_f_re x = Dual_f_re x' -> Dual_f_re (m_sph_j0 x) = Dual_f_re (m_sph_j0 x').
Proof. intros F T dnFT ordT. exact re_only_Dual_sph_j0. Qed.
Theorem C06_re_only_Dual_sph_j1 : forall {F T : Type} {dnFT : DN F T} {ordT : DNOrd T}, forall x x' : Dual T, Dual_f_re x = Dual_f_re x' -> Dual_f_re (m_sph_j1 x) = Dual_f_re (m_sph_j1 x').
Proof. intros F T dnFT ordT. exact re_only_Dual_sph_j1. Qed.
Theorem C06_re_only_Dual_sph_j2 : forall {F T : Type} {dnFT : DN F T} {ordT : DNOrd T}, forall x x' : Dual T, Dual_f_re x = Dual_f_re x' -> Dual_f_re (m_sph_j2 x) = Dual_f_re (m_sph_j2 x').
Proof. intros F T dnFT ordT. exact re_only_Dual_sph_j2. Qed.
Theorem C06_re_only_Dual_abs : forall {F T : Type} {dnFT : DN F T} {ordT : DNOrd T}, forall x x' : Dual T, Dual_f_re x = Dual_f_re x' -> Dual_f_re (m_abs x) = Dual_f_re (m_abs x').
Proof. intros F T dnFT ordT. exact re_only_Dual_abs. Qed.
Theorem C06_re_only_Dual_signum : forall {F T : Type} {dnFT : DN F T} {ordT : DNOrd T}, forall x x' : Dual T, Dual_f_re x = Dual_f_re x' -> Dual_f_re (m_signum x) = Dual_f_re (m_signum x').
Proof. intros F T dnFT ordT. exact re_only_Dual_signum. Qed.
Theorem C06_re_only_Dual_inv : forall {F T : Type} {dnFT : DN F T} {ordT : DNOrd T}, forall x x' : Dual T, Dual_f_re x = Dual_f_re x' -> Dual_f_re (m_inv x) = Dual_f_re (m_inv x').
Proof. intros F T dnFT ordT. exact re_only_Dual_inv. Qed.
Theorem C06_re_is_inner_Dual_recip : forall {F T : Type} {dnFT : DN F T} {ordT : DNOrd T}, forall x : Dual T, Dual_f_re (m_recip x) = m_recip (Dual_f_re x).
Proof. intros F T dnFT ordT. exact re_is_inner_Dual_recip. Qed.
Theorem C06_re_is_inner_Dual_sqrt : forall {F T : Type} {dnFT : DN F T} {ordT : DNOrd T}, forall x : Dual T, Dual_f_re (m_sqrt x) = m_sqrt (Dual_f_re x).
Proof. intros F T dnFT ordT. exact re_is_inner_Dual_sqrt. Qed.
Theorem C06_re_is_inner_Dual_cbrt : forall {F T : Type} {dnFT : DN F T} {ordT : DNOrd T}, forall x : Dual T, Dual_f_re (m_cbrt x) = m_cbrt (Dual_f_re x).
Proof. intros F T dnFT ordT. exact re_is_inner_Dual_cbrt. Qed.
Theorem C06_re_is_inner_Dual_exp : forall {F T : Type} {dnFT : DN F T} {ordT : DNOrd T}, forall x : Dual T, Dual_f_re (m_exp x) = m_exp (Dual_f_re x).
Proof. intros F T dnFT ordT. exact re_is_inner_Dual_exp. Qed.
Theorem C06_re_is_inner_Dual_exp2 : forall {F T : Type} {dnFT : DN F T} {ordT : DNOrd T}, forall x : Dual T, Dual_f_re (m_exp2 x) = m_exp2 (Dual_f_re x).
Proof. intros F T dnFT ordT. exact re_is_inner_Dual_exp2. Qed.
Theorem C06_re_is_inner_Dual_exp_m1 : forall {F T : Type} {dnFT : DN F T} {ordT : DNOrd T}, forall x : Dual T, Dual_f_re (m_exp_m1 x) = m_exp_m1 (Dual_f_re x).
Proof. intros F T dnFT ordT. exact re_is_inner_Dual_exp_m1. Qed.
Theorem C06_re_is_inner_Dual_ln : forall {F T : Type} {dnFT : DN F T} {ordT : DNOrd T}, forall x : Dual T, Dual_f_re (m_ln x) = m_ln (Dual_f_re x).
Proof. intros F T dnFT ordT. exact re_is_inner_Dual_ln. Qed.
Theorem C06_re_is_inner_Dual_log2 : forall {F T : Type} {dnFT : DN F T} {ordT : DNOrd T}, forall x : Dual T, Dual_f_re (m_log2 x) = m_log2 (Dual_f_re x).
Proof. intros F T dnFT ordT. exact re_is_inner_Dual_log2. Qed.
Theorem C06_re_is_inner_Dual_log10 : forall {F T : Type} {dnFT : DN F T} {ordT : DNOrd T}, forall x : Dual T, Dual_f_re (m_log10 x) = m_log10 (Dual_f_re x).
Proof. intros F T dnFT ordT. exact re_is_inner_Dual_log10. Qed.
Theorem C06_re_is_inner_Dual_ln_1p : forall {F T : Type} {dnFT : DN F T} {ordT : DNOrd T}, forall x : Dual T, Dual_f_re (m_ln_1p x) = m_ln_1p (Dual_f_re x).
Proof. intros F T dnFT ordT. exact re_is_inner_Dual_ln_1p. Qed.
Theorem C06_re_is_inner_Dual_sin : forall {F T : Type} {dnFT : DN F T} {ordT : DNOrd T}, forall x : Dual T, Dual_f_re (m_sin x) = fst (m_sin_cos (Dual_f_re x)).
Proof. intros F T dnFT ordT. exact re_is_inner_Dual_sin. Qed.
Theorem C06_re_is_inner_Dual_cos : forall {F T : Type} {dnFT : DN F T} {ordT : DNOrd T}, forall x : Dual T, Dual_f_re (m_cos x) = snd (m_sin_cos (Dual_f_re x)).
Proof. intros F T dnFT ordT. exact re_is_inner_Dual_cos. Qed.
Theorem C06_re_is_inner_Dual_asin : forall {F T : Type} {dnFT : DN F T} {ordT : DNOrd T}, forall x : Dual T, Dual_f_re (m_asin x) = m_asin (Dual_f_re x).
Proof. intros F T dnFT ordT. exact re_is_inner_Dual_asin. Qed.
Theorem C06_re_is_inner_Dual_acos : forall {F T : Type} {dnFT : DN F T} {ordT : DNOrd T}, forall x : Dual T, Dual_f_re (m_acos x) = m_acos (Dual_f_re x).
Proof. intros F T dnFT ordT. exact re_is_inner_Dual_acos. Qed.
Theorem C06_re_is_inner_Dual_atan : forall {F T : Type} {dnFT : DN F T} {ordT : DNOrd T}, forall x : Dual T, Dual_f_re (m_atan x) = m_atan (Dual_f_re x).
Proof. intros F T dnFT ordT. exact re_is_inner_Dual_atan. Qed.
Theorem C06_re_is_inner_Dual_sinh : forall {F T : Type} {dnFT : DN F T} {ordT : DNOrd T}, forall x : Dual T, Dual_f_re (m_sinh x) = m_sinh (Dual_f_re x).
Proof. intros F T dnFT ordT. exact re_is_inner_Dual_sinh. Qed.
Theorem C06_re_is_inner_Dual_cosh : forall {F T : Type} {dnFT : DN F T} {ordT : DNOrd T}, forall x : Dual T, Dual_f_re (m_cosh x) = m_cosh (Dual_f_re x).
Proof. intros F T dnFT ordT. exact re_is_inner_Dual_cosh. Qed.
Theorem C06_re_is_inner_Dual_asinh : forall {F T : Type} {dnFT : DN F T} {ordT : DNOrd T}, forall x : Dual T, Dual_f_re (m_asinh x) = m_asinh (Dual_f_re x).
Proof. intros F T dnFT ordT. exact re_is_inner_Dual_asinh. Qed.
Theorem C06_re_is_inner_Dual_acosh : forall {F T : Type} {dnFT : DN F T} {ordT : DNOrd T}, forall x : Dual T, Dual_f_re (m_acosh x) = m_acosh (Dual_f_re x).
Proof. intros F T dnFT ordT. exact re_is_inner_Dual_acosh. Qed.
Theorem C06_re_is_inner_Dual_atanh : forall {F T : Type} {dnFT : DN F T} {ordT : DNOrd T}, forall x : Dual T, Dual_f_re (m_atanh x) = m_atanh (Dual_f_re x).
Proof. intros F T dnFT ordT. exact re_is_inner_Dual_atanh. Qed.
Theorem C06_re_only_Dual_powi : forall {F T : Type} {dnFT : DN F T} {ordT : DNOrd T}, forall (n : Z) (x x' : Dual T), Dual_f_re x = Dual_f_re x' -> Dual_f_re (m_powi x n) = Dual_f_re (m_powi x' n).
Proof. intros F T dnFT ordT. exact re_only_Dual_powi. Qed.
Theorem C06_re_only_Dual_powf : forall {F T : Type} {dnFT : DN F T} {ordT : DNOrd T}, forall (q : F) (x x' : Dual T), Dual_f_re x = Dual_f_re x' -> Dual_f_re (m_powf x q) = Dual_f_re (m_powf x' q).
Proof. intros F T dnFT ordT. exact re_only_Dual_powf. Qed.
Theorem C06_re_only_Dual_log : forall {F T : Type} {dnFT : DN F T} {ordT : DNOrd T}, forall (q : F) (x x' : Dual T), Dual_f_re x = Dual_f_re x' -> Dual_f_re (m_log x q) = Dual_f_re (m_log x' q).
Proof. intros F T dnFT ordT. exact re_only_Dual_log. Qed.
Theorem C06_re_only_Dual_add : forall {F T : Type} {dnFT : DN F T} {ordT : DNOrd T}, forall x x' y y' : Dual T, Dual_f_re x = Dual_f_re x' -> Dual_f_re y = Dual_f_re y' -> Dual_f_re (x + y) = Dual_f_re (x' + y').
Proof. intros F T dnFT ordT. exact re_only_Dual_add. Qed.
Theorem C06_re_only_Dual_sub : forall {F T : Type} {dnFT : DN F T} {ordT : DNOrd T}, forall x x' y y' : Dual T, Dual_f_re x = Dual_f_re x' -> Dual_f_re y = Dual_f_re y' -> Dual_f_re (x - y) = Dual_f_re (x' - y').
Proof. intros F T dnFT ordT. exact re_only_Dual_sub. Qed.
Theorem C06_re_only_Dual_mul : forall {F T : Type} {dnFT : DN F T} {ordT : DNOrd T}, forall x x' y y' : Dual T, Dual_f_re x = Dual_f_re x' -> Dual_f_re y = Dual_f_re y' -> Dual_f_re (x * y) = Dual_f_re (x' * y').
Proof. intros F T dnFT ordT. exact re_only_Dual_mul. Qed.
Theorem C06_re_only_Dual_div : forall {F T : Type} {dnFT : DN F T} {ordT : DNOrd T}, forall x x' y y' : Dual T, Dual_f_re x = Dual_f_re x' -> Dual_f_re y = Dual_f_re y' -> Dual_f_re (x / y) = Dual_f_re (x' / y').
Proof. intros F T dnFT ordT. exact re_only_Dual_div. Qed.
Theorem C06_re_only_Dual_powd : forall {F T : Type} {dnFT : DN F T} {ordT : DNOrd T}, forall x x' y y' : Dual T, Dual_f_re x = Dual_f_re x' -> Dual_f_re y = Dual_f_re y' -> Dual_f_re (m_powd x y) = Dual_f_re (m_powd x' y').
Proof. intros F T dnFT ordT. exact re_only_Dual_powd. Qed.
Theorem C06_re_only_Dual_atan2 : forall {F T : Type} {dnFT : DN F T} {ordT : DNOrd T}, forall x x' y y' : Dual T, Dual_f_re x = Dual_f_re x' -> Dual_f_re y = Dual_f_re y' -> Dual_f_re (m_atan2 x y) = Dual_f_re (m_atan2 x' y').
Proof. intros F T dnFT ordT. exact re_only_Dual_atan2. Qed.
Theorem C06_re_only_Dual_abs_sub : forall {F T : Type} {dnFT : DN F T} {ordT : DNOrd T}, forall x x' y y' : Dual T, Dual_f_re x = Dual_f_re x' -> Dual_f_re y = Dual_f_re y' -> Dual_f_re (m_abs_sub x y) = Dual_f_re (m_abs_sub x' y').
Proof. intros F T dnFT ordT. exact re_only_Dual_abs_sub. Qed.
Theorem C06_re_is_inner_Dual_add : forall {F T : Type} {dnFT : DN F T} {ordT : DNOrd T}, forall x y : Dual T, Dual_f_re (x + y) = Dual_f_re x + Dual_f_re y.
Proof. intros F T dnFT ordT. exact re_is_inner_Dual_add. Qed.
Theorem C06_re_is_inner_Dual_sub : forall {F T : Type} {dnFT : DN F T} {ordT : DNOrd T}, forall x y : Dual T, Dual_f_re (x - y) = Dual_f_re x - Dual_f_re y.
Proof. intros F T dnFT ordT. exact re_is_inner_Dual_sub. Qed.
Theorem C06_re_is_inner_Dual_mul : forall {F T : Type} {dnFT : DN F T} {ordT : DNOrd T}, forall x y : Dual T, Dual_f_re (x * y) = Dual_f_re x * Dual_f_re y.
Proof. intros F T dnFT ordT. exact re_is_inner_Dual_mul. Qed.
Theorem C06_re_is_inner_Dual_neg : forall {F T : Type} {dnFT : DN F T} {ordT : DNOrd T}, forall x : Dual T, Dual_f_re (- x) = - (Dual_f_re x).
Proof. intros F T dnFT ordT. exact re_is_inner_Dual_neg. Qed.
Theorem C06_re_only_Dual_mul_add : forall {F T : Type} {dnFT : DN F T} {ordT : DNOrd T}, forall x x' y y' z z' : Dual T, Dual_f_re x = Dual_f_re x' -> Dual_f_re y = Dual_f_re y' -> Dual_f_re z = Dual_f_re z' -> Dual_f_re (m_mul_add x y z) = Dual_f_re (m_mul_add x' y' z').
Proof. intros F T dnFT ordT. exact re_only_Dual_mul_add. Qed.
Theorem C06_pred_Dual_is_zero : forall {F T : Type} {dnFT : DN F T} {ordT : DNOrd T}, forall x x' : Dual T, Dual_f_re x = Dual_f_re x' -> m_is_zero x = m_is_zero x'.
Proof. intros F T dnFT ordT. exact pred_Dual_is_zero. Qed.
Theorem C06_pred_Dual_is_one : forall {F T : Type} {dnFT : DN F T} {ordT : DNOrd T}, forall x x' : Dual T, Dual_f_re x = Dual_f_re x' -> m_is_one x = m_is_one x'.
Proof. intros F T dnFT ordT. exact pred_Dual_is_one. Qed.
Theorem C06_pred_Dual_is_positive : forall {F T : Type} {dnFT : DN F T} {ordT : DNOrd T}, forall x x' : Dual T, Dual_f_re x = Dual_f_re x' -> m_is_positive x = m_is_positive x'.
Proof. intros F T dnFT ordT. exact pred_Dual_is_positive. Qed.
Theorem C06_pred_Dual_is_negative : forall {F T : Type} {dnFT : DN F T} {ordT : DNOrd T}, forall x x' : Dual T, Dual_f_re x = Dual_f_re x' -> m_is_negative x = m_is_negative x'.
Proof. intros F T dnFT ordT. exact pred_Dual_is_negative. Qed.
Theorem C06_re_only_Dual_addF : forall {F T : Type} {dnFT : DN F T} {ordT : DNOrd T}, forall (q : F) (x x' : Dual T), Dual_f_re x = Dual_f_re x' -> Dual_f_re (x + q) = Dual_f_re (x' + q).
Proof. intros F T dnFT ordT. exact re_only_Dual_addF. Qed.
Theorem C06_re_only_Dual_subF : forall {F T : Type} {dnFT : DN F T} {ordT : DNOrd T}, forall (q : F) (x x' : Dual T), Dual_f_re x = Dual_f_re x' -> Dual_f_re (x - q) = Dual_f_re (x' - q).
Proof. intros F T dnFT ordT. exact re_only_Dual_subF. Qed.
Theorem C06_re_only_Dual_mulF : forall {F T : Type} {dnFT : DN F T} {ordT : DNOrd T}, forall (q : F) (x x' : Dual T), Dual_f_re x = Dual_f_re x' -> Dual_f_re (x * q) = Dual_f_re (x' * q).
Proof. intros F T dnFT ordT. exact re_only_Dual_mulF. Qed.
Theorem C06_re_only_Dual_divF : forall {F T : Type} {dnFT : DN F T} {ordT : DNOrd T}, forall (q : F) (x x' : Dual T), Dual_f_re x = Dual_f_re x' -> Dual_f_re (x / q) = Dual_f_re (x' / q).
Proof. intros F T dnFT ordT. exact re_only_Dual_divF. Qed.
Theorem C06_re_only_Dual2_recip : forall {F T : Type} {dnFT : DN F T} {ordT : DNOrd T}, forall x x' : Dual2 T, Dual2_f_re x = Dual2_f_re x' -> Dual2_f_re (m_recip x) = Dual2_f_re (m_recip x').
Proof. intros F T dnFT ordT. exact re_only_Dual2_recip. Qed.
Theorem C06_re_only_Dual2_sqrt : forall {F T : Type} {dnFT : DN F T} {ordT : DNOrd T}, forall x x' : Dual2 T, Dual2_f_re x = Dual2_f_re x' -> Dual2_f_re (m_sqrt x) = Dual2_f_re (m_sqrt x').
Proof. intros F T dnFT ordT. exact re_only_Dual2_sqrt. Qed.
Theorem C06_re_only_Dual2_cbrt : forall {F T : Type} {dnFT : DN F T} {ordT : DNOrd T}, forall x x' : Dual2 T, Dual2_f_re x = Dual2_f_re x' -> Dual2_f_re (m_cbrt x) = Dual2_f_re (m_cbrt x').
Proof. intros F T dnFT ordT. exact re_only_Dual2_cbrt. Qed.
Theorem C06_re_only_Dual2_exp : forall {F T : Type} {dnFT : DN F T} {ordT : DNOrd T}, forall x x' : Dual2 T, Dual2_f_re x = Dual2_f_re x' -> Dual2_f_re (m_exp x) = Dual2_f_re (m_exp x').
Proof. intros F T dnFT ordT. exact re_only_Dual2_exp. Qed.
Theorem C06_re_only_Dual2_exp2 : forall {F T : Type} {dnFT : DN F T} {ordT : DNOrd T}, forall x x' : Dual2 T, Dual2_f_re x = Dual2_f_re x' -> Dual2_f_re (m_exp2 x) = Dual2_f_re (m_exp2 x').
Proof. intros F T dnFT ordT. exact re_only_Dual2_exp2. Qed.
Theorem C06_re_only_Dual2_exp_m1 : forall {F T : Type} {dnFT : DN F T} {ordT : DNOrd T}, forall x x' : Dual2 T, Dual2_f_re x = Dual2_f_re x' -> Dual2_f_re (m_exp_m1 x) = Dual2_f_re (m_exp_m1 x').
Proof. intros F T dnFT ordT. exact re_only_Dual2_exp_m1. Qed.
Theorem C06_re_only_Dual2_ln : forall {F T : Type} {dnFT : DN F T} {ordT : DNOrd T}, forall x x' : Dual2 T, Dual2_f_re x = Dual2_f_re x' -> Dual2_f_re (m_ln x) = Dual2_f_re (m_ln x').
Proof. intros F T dnFT ordT. exact re_only_Dual2_ln. Qed.
Theorem C06_re_only_Dual2_log2 : forall {F T : Type} {dnFT : DN F T} {ordT : DNOrd T}, forall x x' : Dual2 T, Dual2_f_re x = Dual2_f_re x' -> Dual2_f_re (m_log2 x) = Dual2_f_re (m_log2 x').
Proof. intros F T dnFT ordT. exact re_only_Dual2_log2. Qed.
Theorem C06_re_only_Dual2_log10 : forall {F T : Type} {dnFT : DN F T} {ordT : DNOrd T}, forall x x' : Dual2 T, Dual2_f_re x = Dual2_f_re x' -> Dual2_f_re (m_log10 x) = Dual2_f_re (m_log10 x').
Proof. intros F T dnFT ordT. exact re_only_Dual2_log10. Qed.
Theorem C06_re_only_Dual2_ln_1p : forall {F T : Type} {dnFT : DN F T} {ordT : DNOrd T}, forall x x' : Dual2 T, Dual2_f_re x = Dual2_f_re x' -> Dual2_f_re (m_ln_1p x) = Dual2_f_re (m_ln_1p x').
Proof. intros F T dnFT ordT. exact re_only_Dual2_ln_1p. Qed.
Theorem C06_re_only_Dual2_sin : forall {F T : Type} {dnFT : DN F T} {ordT : DNOrd T}, forall x x' : Dual2 T, Dual2_f_re x = Dual2_f_re x' -> Dual2_f_re (m_sin x) = Dual2_f_re (m_sin x').
Proof. intros F T dnFT ordT. exact re_only_Dual2_sin. Qed.
Theorem C06_re_only_Dual2_cos : forall {F T : Type} {dnFT : DN F T} {ordT : DNOrd T}, forall x x' : Dual2 T, Dual2_f_re x = Dual2_f_re x' -> Dual2_f_re (m_cos x) = Dual2_f_re (m_cos x').
Proof. intros F T dnFT ordT. exact re_only_Dual2_cos. Qed.
Theorem C06_re_only_Dual2_asin : forall {F T : Type} {dnFT : DN F T} {ordT : DNOrd T}, forall x x' : Dual2 T, Dual2_f_re x = Dual2_f_re x' -> Dual2_f_re (m_asin x) = Dual2_f_re (m_asin x').
Proof. intros F T dnFT ordT. exact re_only_Dual2_asin. Qed.
Theorem C06_re_only_Dual2_acos : forall {F T : Type} {dnFT : DN F T} {ordT : DNOrd T}, forall x x' : Dual2 T, Dual2_f_re x = Dual2_f_re x' -> Dual2_f_re (m_acos x) = Dual2_f_re (m_acos x').
Proof. intros F T dnFT ordT. exact re_only_Dual2_acos. Qed.
Theorem C06_re_only_Dual2_atan : forall {F T : Type} {dnFT : DN F T} {ordT : DNOrd T}, forall x x' : Dual2 T, Dual2_f_re x = Dual2_f_re x' -> Dual2_f_re (m_atan x) = Dual2_f_re (m_atan x').
Proof. intros F T dnFT ordT. exact re_only_Dual2_atan. Qed.
Theorem C06_re_only_Dual2_sinh : forall {F T : Type} {dnFT : DN F T} {ordT : DNOrd T}, forall x x' : Dual2 T, Dual2_f_re x = Dual2_f_re x' -> Dual2_f_re (m_sinh x) = Dual2_f_re (m_sinh x').
Proof. intros F T dnFT ordT. exact re_only_Dual2_sinh. Qed.
Theorem C06_re_only_Dual2_cosh : forall {F T : Type} {dnFT : DN F T} {ordT : DNOrd T}, forall x x' : Dual2 T, Dual2_f_re x = Dual2_f_re x' -> Dual2_f_re (m_cosh x) = Dual2_f_re (m_cosh x').
Proof. intros F T dnFT ordT. exact re_only_Dual2_cosh. Qed.
Theorem C06_re_only_Dual2_asinh : forall {F T : Type} {dnFT : DN F T} {ordT : DNOrd T}, forall x x' : Dual2 T, Dual2_f_re x = Dual2_f_re x' -> Dual2_f_re (m_asinh x) = Dual2_f_re (m_asinh x').
Proof. intros F T dnFT ordT. exact re_only_Dual2_asinh. Qed.
Theorem C06_re_only_Dual2_acosh : forall {F T : Type} {dnFT : DN F T} {ordT : DNOrd T}, forall x x' : Dual2 T, Dual2_f_re x = Dual2_f_re x' -> Dual2_f_re (m_acosh x) = Dual2_f_re (m_acosh x').
Proof. intros F T dnFT ordT. exact re_only_Dual2_acosh. Qed.
Theorem C06_re_only_Dual2_atanh : forall {F T : Type} {dnFT : DN F T} {ordT : DNOrd T}, forall x x' : Dual2 T, Dual2_f_re x = Dual2_f_re x' -> Dual2_f_re (m_atanh x) = Dual2_f_re (m_atanh x').
Proof. intros F T dnFT ordT. exact re_only_Dual2_atanh. Qed.
Theorem C06_re_only_Dual2_tan : forall {F T : Type} {dnFT : DN F T} {ordT : DNOrd T}, forall x x' : Dual2 T, Dual2_f_re x = Dual2_f_re x' -> Dual2_f_re (m_tan x) = Dual2_f_re (m_tan x').
Proof. intros F T dnFT ordT. exact re_only_Dual2_tan. Qed.
Theorem C06_re_only_Dual2_tanh : forall {F T : Type} {dnFT : DN F T} {ordT : DNOrd T}, forall x x' : Dual2 T, Dual2_f_re x = Dual2_f_re x' -> Dual2_f_re (m_tanh x) = Dual2_f_re (m_tanh x').
Proof. intros F T dnFT ordT. exact re_only_Dual2_tanh. Qed.
Theorem C06_re_only_Dual2_sph_j0 : forall {F T : Type} {dnFT : DN F T} {ordT : DNOrd T}, forall x x' : Dual2 T, Dual2_f_re x = Dual2_f_re x' -> Dual2_f_re (m_sph_j0 x) = Dual2_f_re (m_sph_j0 x').
Proof. intros F T dnFT ordT. exact re_only_Dual2_sph_j0. Qed.
Theorem C06_re_only_Dual2_sph_j1 : forall {F T : Type} {dnFT : DN F T} {ordT : DNOrd T}, forall x x' : Dual2 T, Dual2_f_re x = Dual2_f_re x' -> Dual2_f_re (m_sph_j1 x) = Dual2_f_re (m_sph_j1 x').
Proof. intros F T dnFT ordT. exact re_only_Dual2_sph_j1. Qed.
Theorem C06_re_only_Dual2_sph_j2 : forall {F T : Type} {dnFT : DN F T} {ordT : DNOrd T}, forall x x' : Dual2 T, Dual2_f_re x = Dual2_f_re x' -> Dual2_f_re (m_sph_j2 x) = Dual2_f_re (m_sph_j2 x').
Proof. intros F T dnFT ordT. exact re_only_Dual2_sph_j2. Qed.
Theorem C06_re_only_Dual2_abs : forall {F T : Type} {dnFT : DN F T} {ordT : DNOrd T}, forall x x' : Dual2 T, Dual2_f_re x = Dual2_f_re x' -> Dual2_f_re (m_abs x) = Dual2_f_re (m_abs x').
Proof. intros F T dnFT ordT. exact re_only_Dual2_abs. Qed.
Theorem C06_re_only_Dual2_signum : forall {F T : Type} {dnFT : DN F T} {ordT : DNOrd T}, forall x x' : Dual2 T, Dual2_f_re x = Dual2_f_re x' -> Dual2_f_re (m_signum x) = Dual2_f_re (m_signum x').
Proof. intros F T dnFT ordT. exact re_only_Dual2_signum. Qed.
Theorem C06_re_only_Dual2_inv : forall {F T : Type} {dnFT : DN F T} {ordT : DNOrd T}, forall x x' : Dual2 T, Dual2_f_re x = Dual2_f_re x' -> Dual2_f_re (m_inv x) = Dual2_f_re (m_inv x').
Proof. intros F T dnFT ordT. exact re_only_Dual2_inv. Qed.
Theorem C06_re_is_inner_Dual2_recip : forall {F T : Type} {dnFT : DN F T} {ordT : DNOrd T}, forall x : Dual2 T, Dual2_f_re (m_recip x) = m_recip (Dual2_f_re x).
Proof. intros F T dnFT ordT. exact re_is_inner_Dual2_recip. Qed.
Theorem C06_re_is_inner_Dual2_sqrt : forall {F T : Type} {dnFT : DN F T} {ordT : DNOrd T}, forall x : Dual2 T, Dual2_f_re (m_sqrt x) = m_sqrt (Dual2_f_re x).
Proof. intros F T dnFT ordT. exact re_is_inner_Dual2_sqrt. Qed.
Theorem C06_re_is_inner_Dual2_cbrt : forall {F T : Type} {dnFT : DN F T} {ordT : DNOrd T}, forall x : Dual2 T, Dual2_f_re (m_cbrt x) = m_cbrt (Dual2_f_re x).
Proof. intros F T dnFT ordT. exact re_is_inner_Dual2_cbrt. Qed.
Theorem C06_re_is_inner_Dual2_exp : forall {F T : Type} {dnFT : DN F T} {ordT : DNOrd T}, forall x : Dual2 T, Dual2_f_re (m_exp x) = m_exp (Dual2_f_re x).
Proof. intros F T dnFT ordT. exact re_is_inner_Dual2_exp. Qed.
Theorem C06_re_is_inner_Dual2_exp2 : forall {F T : Type} {dnFT : DN F T} {ordT : DNOrd T}, forall x : Dual2 T, Dual2_f_re (m_exp2 x) = m_exp2 (Dual2_f_re x).
Proof. intros F T dnFT ordT. exact re_is_inner_Dual2_exp2. Qed.
Theorem C06_re_is_inner_Dual2_exp_m1 : forall {F T : Type} {dnFT : DN F T} {ordT : DNOrd T}, forall x : Dual2 T, Dual2_f_re (m_exp_m1 x) = m_exp_m1 (Dual2_f_re x).
Proof. intros F T dnFT ordT. exact re_is_inner_Dual2_exp_m1. Qed.
Theorem C06_re_is_inner_Dual2_ln : forall {F T : Type} {dnFT : DN F T} {ordT : DNOrd T}, forall x : Dual2 T, Dual2_f_re (m_ln x) = m_ln (Dual2_f_re x).
Proof. intros F T dnFT ordT. exact re_is_inner_Dual2_ln. Qed.
Theorem C06_re_is_inner_Dual2_log2 : forall {F T : Type} {dnFT : DN F T} {ordT : DNOrd T}, forall x : Dual2 T, Dual2_f_re (m_log2 x) = m_log2 (Dual2_f_re x).
Proof. intros F T dnFT ordT. exact re_is_inner_Dual2_log2. Qed.
Theorem C06_re_is_inner_Dual2_log10 : forall {F T : Type} {dnFT : DN F T} {ordT : DNOrd T}, forall x : Dual2 T, Dual2_f_re (m_log10 x) = m_log10 (Dual2_f_re x).
Proof. intros F T dnFT ordT. exact re_is_inner_Dual2_log10. Qed.
Theorem C06_re_is_inner_Dual2_ln_1p : forall {F T : Type} {dnFT : DN F T} {ordT : DNOrd T}, forall x : Dual2 T, Dual2_f_re (m_ln_1p x) = m_ln_1p (Dual2_f_re x).
Proof. intros F T dnFT ordT. exact re_is_inner_Dual2_ln_1p. Qed.
Theorem C06_re_is_inner_Dual2_sin : forall {F T : Type} {dnFT : DN F T} {ordT : DNOrd T}, forall x : Dual2 T, Dual2_f_re (m_sin x) = fst (m_sin_cos (Dual2_f_re x)).
Proof. intros F T dnFT ordT. exact re_is_inner_Dual2_sin. Qed.
Theorem C06_re_is_inner_Dual2_cos : forall {F T : Type} {dnFT : DN F T} {ordT : DNOrd T}, forall x : Dual2 T, Dual2_f_re (m_cos x) = snd (m_sin_cos (Dual2_f_re x)).
Proof. intros F T dnFT ordT. exact re_is_inner_Dual2_cos. Qed.
Theorem C06_re_is_inner_Dual2_asin : forall {F T : Type} {dnFT : DN F T} {ordT : DNOrd T}, forall x : Dual2 T, Dual2_f_re (m_asin x) = m_asin (Dual2_f_re x).
Proof. intros F T dnFT ordT. exact re_is_inner_Dual2_asin. Qed.
Theorem C06_re_is_inner_Dual2_acos : forall {F T : Type} {dnFT : DN F T} {ordT : DNOrd T}, forall x : Dual2 T, Dual2_f_re (m_acos x) = m_acos (Dual2_f_re x).
Proof. intros F T dnFT ordT. exact re_is_inner_Dual2_acos. Qed.
Theorem C06_re_is_inner_Dual2_atan : forall {F T : Type} {dnFT : DN F T} {ordT : DNOrd T}, forall x : Dual2 T, Dual2_f_re (m_atan x) = m_atan (Dual2_f_re x).
Proof. intros F T dnFT ordT. exact re_is_inner_Dual2_atan. Qed.
Theorem C06_re_is_inner_Dual2_sinh : forall {F T : Type} {dnFT : DN F T} {ordT : DNOrd T}, forall x : Dual2 T, Dual2_f_re (m_sinh x) = m_sinh (Dual2_f_re x).
Proof. intros F T dnFT ordT. exact re_is_inner_Dual2_sinh. Qed.
Theorem C06_re_is_inner_Dual2_cosh : forall {F T : Type} {dnFT : DN F T} {ordT : DNOrd T}, forall x : Dual2 T, Dual2_f_re (m_cosh x) = m_cosh (Dual2_f_re x).
Proof. intros F T dnFT ordT. exact re_is_inner_Dual2_cosh. Qed.
Theorem C06_re_is_inner_Dual2_asinh : forall {F T : Type} {dnFT : DN F T} {ordT : DNOrd T}, forall x : Dual2 T, Dual2_f_re (m_asinh x) = m_asinh (Dual2_f_re x).
Proof. intros F T dnFT ordT. exact re_is_inner_Dual2_asinh. Qed.
Theorem C06_re_is_inner_Dual2_acosh : forall {F T : Type} {dnFT : DN F T} {ordT : DNOrd T}, forall x : Dual2 T, Dual2_f_re (m_acosh x) = m_acosh (Dual2_f_re x).
Proof. intros F T dnFT ordT. exact re_is_inner_Dual2_acosh. Qed.
Theorem C06_re_is_inner_Dual2_atanh : forall {F T : Type} {dnFT : DN F T} {ordT : DNOrd T}, forall x : Dual2 T, Dual2_f_re (m_atanh x) = m_atanh (Dual2_f_re x).
Proof. intros F T dnFT ordT. exact re_is_inner_Dual2_atanh. Qed.
Theorem C06_re_only_Dual2_powi : forall {F T : Type} {dnFT : DN F T} {ordT : DNOrd T}, forall (n : Z) (x x' : Dual2 T), Dual2_f_re x = Dual2_f_re x' -> Dual2_f_re (m_powi x n) = Dual2_f_re (m_powi x' n).
Proof. intros F T dnFT ordT. exact re_only_Dual2_powi. Qed.
Theorem C06_re_only_Dual2_powf : forall {F T : Type} {dnFT : DN F T} {ordT : DNOrd T}, forall (q : F) (x x' : Dual2 T), Dual2_f_re x = Dual2_f_re x' -> Dual2_f_re (m_powf x q) = Dual2_f_re (m_powf x' q).
Proof. intros F T dnFT ordT. exact re_only_Dual2_powf. Qed.
Theorem C06_re_only_Dual2_log : forall {F T : Type} {dnFT : DN F T} {ordT : DNOrd T}, forall (q : F) (x x' : Dual2 T), Dual2_f_re x = Dual2_f_re x' -> Dual2_f_re (m_log x q) = Dual2_f_re (m_log x' q).
Proof. intros F T dnFT ordT. exact re_only_Dual2_log. Qed.
Theorem C06_re_only_Dual2_add : forall {F T : Type} {dnFT : DN F T} {ordT : DNOrd T}, forall x x' y y' : Dual2 T, Dual2_f_re x = Dual2_f_re x' -> Dual2_f_re y = Dual2_f_re y' -> Dual2_f_re (x + y) = Dual2_f_re (x' + y').
Proof. intros F T dnFT ordT. exact re_only_Dual2_add. Qed.
Theorem C06_re_only_Dual2_sub : forall {F T : Type} {dnFT : DN F T} {ordT : DNOrd T}, forall x x' y y' : Dual2 T, Dual2_f_re x = Dual2_f_re x' -> Dual2_f_re y = Dual2_f_re y' -> Dual2_f_re (x - y) = Dual2_f_re (x' - y').
Proof. intros F T dnFT ordT. exact re_only_Dual2_sub. Qed.
Theorem C06_re_only_Dual2_mul : forall {F T : Type} {dnFT : DN F T} {ordT : DNOrd T}, forall x x' y y' : Dual2 T, Dual2_f_re x = Dual2_f_re x' -> Dual2_f_re y = Dual2_f_re y' -> Dual2_f_re (x * y) = Dual2_f_re (x' * y').
Proof. intros F T dnFT ordT. exact re_only_Dual2_mul. Qed.
Theorem C06_re_only_Dual2_div : forall {F T : Type} {dnFT : DN F T} {ordT : DNOrd T}, forall x x' y y' : Dual2 T, Dual2_f_re x = Dual2_f_re x' -> Dual2_f_re y = Dual2_f_re y' -> Dual2_f_re (x / y) = Dual2_f_re (x' / y').
Proof. intros F T dnFT ordT. exact re_only_Dual2_div. Qed.
Theorem C06_re_only_Dual2_powd : forall {F T : Type} {dnFT : DN F T} {ordT : DNOrd T}, forall x x' y y' : Dual2 T, Dual2_f_re x = Dual2_f_re x' -> Dual2_f_re y = Dual2_f_re y' -> Dual2_f_re (m_powd x y) = Dual2_f_re (m_powd x' y').
Proof. intros F T dnFT ordT. exact re_only_Dual2_powd. Qed.
Theorem C06_re_only_Dual2_atan2 : forall {F T : Type} {dnFT : DN F T} {ordT : DNOrd T}, forall x x' y y' : Dual2 T, Dual2_f_re x = Dual2_f_re x' -> Dual2_f_re y = Dual2_f_re y' -> Dual2_f_re (m_atan2 x y) = Dual2_f_re (m_atan2 x' y').
Proof. intros F T dnFT ordT. exact re_only_Dual2_atan2. Qed.
Theorem C06_re_only_Dual2_abs_sub : forall {F T : Type} {dnFT : DN F T} {ordT : DNOrd T}, forall x x' y y' : Dual2 T, Dual2_f_re x = Dual2_f_re x' -> Dual2_f_re y = Dual2_f_re y' -> Dual2_f_re (m_abs_sub x y) = Dual2_f_re (m_abs_sub x' y').
Proof. intros F T dnFT ordT. exact re_only_Dual2_abs_sub. Qed.
Theorem C06_re_is_inner_Dual2_add : forall {F T : Type} {dnFT : DN F T} {ordT : DNOrd T}, forall x y : Dual2 T, Dual2_f_re (x + y) = Dual2_f_re x + Dual2_f_re y.
Proof. intros F T dnFT ordT. exact re_is_inner_Dual2_add. Qed.
Theorem C06_re_is_inner_Dual2_sub : forall {F T : Type} {dnFT : DN F T} {ordT : DNOrd T}, forall x y : Dual2 T, Dual2_f_re (x - y) = Dual2_f_re x - Dual2_f_re y.
Proof. intros F T dnFT ordT. exact re_is_inner_Dual2_sub. Qed.
Theorem C06_re_is_inner_Dual2_mul : forall {F T : Type} {dnFT : DN F T} {ordT : DNOrd T}, forall x y : Dual2 T, Dual2_f_re (x * y) = Dual2_f_re x * Dual2_f_re y.
Proof. intros F T dnFT ordT. exact re_is_inner_Dual2_mul. Qed.
Theorem C06_re_is_inner_Dual2_neg : forall {F T : Type} {dnFT : DN F T} {ordT : DNOrd T}, forall x : Dual2 T, Dual2_f_re (- x) = - (Dual2_f_re x).
Proof. intros F T dnFT ordT. exact re_is_inner_Dual2_neg. Qed.
Theorem C06_re_only_Dual2_mul_add : forall {F T : Type} {dnFT : DN F T} {ordT : DNOrd T}, forall x x' y y' z z' : Dual2 T, Dual2_f_re x = Dual2_f_re x' -> Dual2_f_re y = Dual2_f_re y' -> Dual2_f_re z = Dual2_f_re z' -> Dual2_f_re (m_mul_add x y z) = Dual2_f_re (m_mul_add x' y' z').
Proof. intros F T dnFT ordT. exact re_only_Dual2_mul_add. Qed.
Theorem C06_pred_Dual2_is_zero : forall {F T : Type} {dnFT : DN F T} {ordT : DNOrd T}, forall x x' : Dual2 T, Dual2_f_re x = Dual2_f_re x' -> m_is_zero x = m_is_zero x'.
Proof. intros F T dnFT ordT. exact pred_Dual2_is_zero. Qed.
Theorem C06_pred_Dual2_is_one : forall {F T : Type} {dnFT : DN F T} {ordT : DNOrd T}, forall x x' : Dual2 T, Dual2_f_re x = Dual2_f_re x' -> m_is_one x = m_is_one x'.
Proof. intros F T dnFT ordT. exact pred_Dual2_is_one. Qed.
Theorem C06_pred_Dual2_is_positive : forall {F T : Type} {dnFT : DN F T} {ordT : DNOrd T}, forall x x' : Dual2 T, Dual2_f_re x = Dual2_f_re x' -> m_is_positive x = m_is_positive x'.
Proof. intros F T dnFT ordT. exact pred_Dual2_is_positive. Qed.
Theorem C06_pred_Dual2_is_negative : forall {F T : Type} {dnFT : DN F T} {ordT : DNOrd T}, forall x x' : Dual2 T, Dual2_f_re x = Dual2_f_re x' -> m_is_negative x = m_is_negative x'.
Proof. intros F T dnFT ordT. exact pred_Dual2_is_negative. Qed.
Theorem C06_re_only_Dual2_addF : forall {F T : Type} {dnFT : DN F T} {ordT : DNOrd T}, forall (q : F) (x x' : Dual2 T), Dual2_f_re x = Dual2_f_re x' -> Dual2_f_re (x + q) = Dual2_f_re (x' + q).
Proof. intros F T dnFT ordT. exact re_only_Dual2_addF. Qed.
Theorem C06_re_only_Dual2_subF : forall {F T : Type} {dnFT : DN F T} {ordT : DNOrd T}, forall (q : F) (x x' : Dual2 T), Dual2_f_re x = Dual2_f_re x' -> Dual2_f_re (x - q) = Dual2_f_re (x' - q).
Proof. intros F T dnFT ordT. exact re_only_Dual2_subF. Qed.
Theorem C06_re_only_Dual2_mulF : forall {F T : Type} {dnFT : DN F T} {ordT : DNOrd T}, forall (q : F) (x x' : Dual2 T), Dual2_f_re x = Dual2_f_re x' -> Dual2_f_re (x * q) = Dual2_f_re (x' * q).
Proof. intros F T dnFT ordT. exact re_only_Dual2_mulF. Qed.
Theorem C06_re_only_Dual2_divF : forall {F T : Type} {dnFT : DN F T} {ordT : DNOrd T}, forall (q : F) (x x' : Dual2 T), Dual2_f_re x = Dual2_f_re x' -> Dual2_f_re (x / q) = Dual2_f_re (x' / q).
Proof. intros F T dnFT ordT. exact re_only_Dual2_divF. Qed.
Theorem C06_re_only_Dual3_recip : forall {F T : Type} {dnFT : DN F T} {ordT : DNOrd T}, forall x x' : Dual3 T, Dual3_f_re x = Dual3_f_re x' -> Dual3_f_re (m_recip x) = Dual3_f_re (m_recip x').
Proof. intros F T dnFT ordT. exact re_only_Dual3_recip. Qed.
Theorem C06_re_only_Dual3_sqrt : forall {F T : Type} {dnFT : DN F T} {ordT : DNOrd T}, forall x x' : Dual3 T, Dual3_f_re x = Dual3_f_re x' -> Dual3_f_re (m_sqrt x) = Dual3_f_re (m_sqrt x').
Proof. intros F T dnFT ordT. exact re_only_Dual3_sqrt. Qed.
Theorem C06_re_only_Dual3_cbrt : forall {F T : Type} {dnFT : DN F T} {ordT : DNOrd T}, forall x x' : Dual3 T, Dual3_f_re x = Dual3_f_re x' -> Dual3_f_re (m_cbrt x) = Dual3_f_re (m_cbrt x').
Proof. intros F T dnFT ordT. exact re_only_Dual3_cbrt. Qed.
Theorem C06_re_only_Dual3_exp : forall {F T : Type} {dnFT : DN F T} {ordT : DNOrd T}, forall x x' : Dual3 T, Dual3_f_re x = Dual3_f_re x' -> Dual3_f_re (m_exp x) = Dual3_f_re (m_exp x').
Proof. intros F T dnFT ordT. exact re_only_Dual3_exp. Qed.
Theorem C06_re_only_Dual3_exp2 : forall {F T : Type} {dnFT : DN F T} {ordT : DNOrd T}, forall x x' : Dual3 T, Dual3_f_re x = Dual3_f_re x' -> Dual3_f_re (m_exp2 x) = Dual3_f_re (m_exp2 x').
Proof. intros F T dnFT ordT. exact re_only_Dual3_exp2. Qed.
Theorem C06_re_only_Dual3_exp_m1 : forall {F T : Type} {dnFT : DN F T} {ordT : DNOrd T}, forall x x' : Dual3 T, Dual3_f_re x = Dual3_f_re x' -> Dual3_f_re (m_exp_m1 x) = Dual3_f_re (m_exp_m1 x').
Proof. intros F T dnFT ordT. exact re_only_Dual3_exp_m1. Qed.
Theorem C06_re_only_Dual3_ln : forall {F T : Type} {dnFT : DN F T} {ordT : DNOrd T}, forall x x' : Dual3 T, Dual3_f_re x = Dual3_f_re x' -> Dual3_f_re (m_ln x) = Dual3_f_re (m_ln x').
Proof. intros F T dnFT ordT. exact re_only_Dual3_ln. Qed.
Theorem C06_re_only_Dual3_log2 : forall {F T : Type} {dnFT : DN F T} {ordT : DNOrd T}, forall x x' : Dual3 T, Dual3_f_re x = Dual3_f_re x' -> Dual3_f_re (m_log2 x) = Dual3_f_re (m_log2 x').
Proof. intros F T dnFT ordT. exact re_only_Dual3_log2. Qed.
Theorem C06_re_only_Dual3_log10 : forall {F T : Type} {dnFT : DN F T} {ordT : DNOrd T}, forall x x' : Dual3 T, Dual3_f_re x = Dual3_f_re x' -> Dual3_f_re (m_log10 x) = Dual3_f_re (m_log10 x').
Proof. intros F T dnFT ordT. exact re_only_Dual3_log10. Qed.
Theorem C06_re_only_Dual3_ln_1p : forall {F T : Type} {dnFT : DN F T} {ordT : DNOrd T}, forall x x' : Dual3 T, Dual3_f_re x = Dual3_f_re x' -> Dual3_f_re (m_ln_1p x) = Dual3_f_re (m_ln_1p x').
Proof. intros F T dnFT ordT. exact re_only_Dual3_ln_1p. Qed.
Theorem C06_re_only_Dual3_sin : forall {F T : Type} {dnFT : DN F T} {ordT : DNOrd T}, forall x x' : Dual3 T, Dual3_f_re x = Dual3_f_re x' -> Dual3_f_re (m_sin x) = Dual3_f_re (m_sin x').
Proof. intros F T dnFT ordT. exact re_only_Dual3_sin. Qed.
Theorem C06_re_only_Dual3_cos : forall {F T : Type} {dnFT : DN F T} {ordT : DNOrd T}, forall x x' : Dual3 T, Dual3_f_re x = Dual3_f_re x' -> Dual3_f_re (m_cos x) = Dual3_f_re (m_cos x').
Proof. intros F T dnFT ordT. exact re_only_Dual3_cos. Qed.
Theorem C06_re_only_Dual3_asin : forall {F T : Type} {dnFT : DN F T} {ordT : DNOrd T}, forall x x' : Dual3 T, Dual3_f_re x = Dual3_f_re x' -> Dual3_f_re (m_asin x) = Dual3_f_re (m_asin x').
Proof. intros F T dnFT ordT. exact re_only_Dual3_asin. Qed.
Theorem C06_re_only_Dual3_acos : forall {F T : Type} {dnFT : DN F T} {ordT : DNOrd T}, forall x x' : Dual3 T, Dual3_f_re x = Dual3_f_re x' -> Dual3_f_re (m_acos x) = Dual3_f_re (m_acos x').
Proof. intros F T dnFT ordT. exact re_only_Dual3_acos. Qed.
Theorem C06_re_only_Dual3_atan : forall {F T : Type} {dnFT : DN F T} {ordT : DNOrd T}, forall x x' : Dual3 T, Dual3_f_re x = Dual3_f_re x' -> Dual3_f_re (m_atan x) = Dual3_f_re (m_atan x').
Proof. intros F T dnFT ordT. exact re_only_Dual3_atan. Qed.
Theorem C06_re_only_Dual3_sinh : forall {F T : Type} {dnFT : DN F T} {ordT : DNOrd T}, forall x x' : Dual3 T, Dual3_f_re x = Dual3_f_re x' -> Dual3_f_re (m_sinh x) = Dual3_f_re (m_sinh x').
Proof. intros F T dnFT ordT. exact re_only_Dual3_sinh. Qed.
Theorem C06_re_only_Dual3_cosh : forall {F T : Type} {dnFT : DN F T} {ordT : DNOrd T}, forall x x' : Dual3 T, Dual3_f_re x = Dual3_f_re x' -> Dual3_f_re (m_cosh x) = Dual3_f_re (m_cosh x').
Proof. intros F T dnFT ordT. exact re_only_Dual3_cosh. Qed.
Theorem C06_re_only_Dual3_asinh : forall {F T : Type} {dnFT : DN F T} {ordT : DNOrd T}, forall x x' : Dual3 T, Dual3_f_re x = Dual3_f_re x' -> Dual3_f_re (m_asinh x) = Dual3_f_re (m_asinh x').
Proof. intros F T dnFT ordT. exact re_only_Dual3_asinh. Qed.
Theorem C06_re_only_Dual3_acosh : forall {F T : Type} {dnFT : DN F T} {ordT : DNOrd T}, forall x x' : Dual3 T, Dual3_f_re x = Dual3_f_re x' -> Dual3_f_re (m_acosh x) = Dual3_f_re (m_acosh x').
Proof. intros F T dnFT ordT. exact re_only_Dual3_acosh. Qed.
Theorem C06_re_only_Dual3_atanh : forall {F T : Type} {dnFT : DN F T} {ordT : DNOrd T}, forall x x' : Dual3 T, Dual3_f_re x = Dual3_f_re x' -> Dual3_f_re (m_atanh x) = Dual3_f_re (m_atanh x').
Proof. intros F T dnFT ordT. exact re_only_Dual3_atanh. Qed.
Theorem C06_re_only_Dual3_tan : forall {F T : Type} {dnFT : DN F T} {ordT : DNOrd T}, forall x x' : Dual3 T, Dual3_f_re x = Dual3_f_re x' -> Dual3_f_re (m_tan x) = Dual3_f_re (m_tan x').
Proof. intros F T dnFT ordT. exact re_only_Dual3_tan. Qed.
Theorem C06_re_only_Dual3_tanh : forall {F T : Type} {dnFT : DN F T} {ordT : DNOrd T}, forall x x' : Dual3 T, Dual3_f_re x = Dual3_f_re x' -> Dual3_f_re (m_tanh x) = Dual3_f_re (m_tanh x').
Proof. intros F T dnFT ordT. exact re_only_Dual3_tanh. Qed.
Theorem C06_re_only_Dual3_sph_j0 : forall {F T : Type} {dnFT : DN F T} {ordT : DNOrd T}, forall x x' : Dual3 T, Dual3_f_re x = Dual3_f_re x' -> Dual3_f_re (m_sph_j0 x) = Dual3_f_re (m_sph_j0 x').
Proof. intros F T dnFT ordT. exact re_only_Dual3_sph_j0. Qed.
Theorem C06_re_only_Dual3_sph_j1 : forall {F T : Type} {dnFT : DN F T} {ordT : DNOrd T}, forall x x' : Dual3 T, Dual3_f_re x = Dual3_f_re x' -> Dual3_f_re (m_sph_j1 x) = Dual3_f_re (m_sph_j1 x').
Proof. intros F T dnFT ordT. exact re_only_Dual3_sph_j1. Qed.
Theorem C06_re_only_Dual3_sph_j2 : forall {F T : Type} {dnFT : DN F T} {ordT : DNOrd T}, forall x x' : Dual3 T, Dual3_f_re x = Dual3_f_re x' -> Dual3_f_re (m_sph_j2 x) = Dual3_f_re (m_sph_j2 x').
Proof. intros F T dnFT ordT. exact re_only_Dual3_sph_j2. Qed.
Theorem C06_re_only_Dual3_abs : forall {F T : Type} {dnFT : DN F T} {ordT : DNOrd T}, forall x x' : Dual3 T, Dual3_f_re x = Dual3_f_re x' -> Dual3_f_re (m_abs x) = Dual3_f_re (m_abs x').
Proof. intros F T dnFT ordT. exact re_only_Dual3_abs. Qed.
Theorem C06_re_only_Dual3_signum : forall {F T : Type} {dnFT : DN F T} {ordT : DNOrd T}, forall x x' : Dual3 T, Dual3_f_re x = Dual3_f_re x' -> Dual3_f_re (m_signum x) = Dual3_f_re (m_signum x').
Proof. intros F T dnFT ordT. exact re_only_Dual3_signum. Qed.
Theorem C06_re_only_Dual3_inv : forall {F T : Type} {dnFT : DN F T} {ordT : DNOrd T}, forall x x' : Dual3 T, Dual3_f_re x = Dual3_f_re x' -> Dual3_f_re (m_inv x) = Dual3_f_re (m_inv x').
Proof. intros F T dnFT ordT. exact re_only_Dual3_inv. Qed.
Theorem C06_re_is_inner_Dual3_recip : forall {F T : Type} {dnFT : DN F T} {ordT : DNOrd T}, forall x : Dual3 T, Dual3_f_re (m_recip x) = m_recip (Dual3_f_re x).
Proof. intros F T dnFT ordT. exact re_is_inner_Dual3_recip. Qed.
Theorem C06_re_is_inner_Dual3_sqrt : forall {F T : Type} {dnFT : DN F T} {ordT : DNOrd T}, forall x : Dual3 T, Dual3_f_re (m_sqrt x) = m_sqrt (Dual3_f_re x).
Proof. intros F T dnFT ordT. exact re_is_inner_Dual3_sqrt. Qed.
Theorem C06_re_is_inner_Dual3_cbrt : forall {F T : Type} {dnFT : DN F T} {ordT : DNOrd T}, forall x : Dual3 T, Dual3_f_re (m_cbrt x) = m_cbrt (Dual3_f_re x).
Proof. intros F T dnFT ordT. exact re_is_inner_Dual3_cbrt. Qed.
Theorem C06_re_is_inner_Dual3_exp : forall {F T : Type} {dnFT : DN F T} {ordT : DNOrd T}, forall x : Dual3 T, Dual3_f_re (m_exp x) = m_exp (Dual3_f_re x).
Proof. intros F T dnFT ordT. exact re_is_inner_Dual3_exp. Qed.
Theorem C06_re_is_inner_Dual3_exp2 : forall {F T : Type} {dnFT : DN F T} {ordT : DNOrd T}, forall x : Dual3 T, Dual3_f_re (m_exp2 x) = m_exp2 (Dual3_f_re x).
Proof. intros F T dnFT ordT. exact re_is_inner_Dual3_exp2. Qed.
Theorem C06_re_is_inner_Dual3_exp_m1 : forall {F T : Type} {dnFT : DN F T} {ordT : DNOrd T}, forall x : Dual3 T, Dual3_f_re (m_exp_m1 x) = m_exp_m1 (Dual3_f_re x).
Proof. intros F T dnFT ordT. exact re_is_inner_Dual3_exp_m1. Qed.
Theorem C06_re_is_inner_Dual3_ln : forall {F T : Type} {dnFT : DN F T} {ordT : DNOrd T}, forall x : Dual3 T, Dual3_f_re (m_ln x) = m_ln (Dual3_f_re x).
Proof. intros F T dnFT ordT. exact re_is_inner_Dual3_ln. Qed.
Theorem C06_re_is_inner_Dual3_log2 : forall {F T : Type} {dnFT : DN F T} {ordT : DNOrd T}, forall x : Dual3 T, Dual3_f_re (m_log2 x) = m_log2 (Dual3_f_re x).
Proof. intros F T dnFT ordT. exact re_is_inner_Dual3_log2. Qed.
Theorem C06_re_is_inner_Dual3_log10 : forall {F T : Type} {dnFT : DN F T} {ordT : DNOrd T}, forall x : Dual3 T, Dual3_f_re (m_log10 x) = m_log10 (Dual3_f_re x).
Proof. intros F T dnFT ordT. exact re_is_inner_Dual3_log10. Qed.
Theorem C06_re_is_inner_Dual3_ln_1p : forall {F T : Type} {dnFT : DN F T} {ordT : DNOrd T}, forall x : Dual3 T, Dual3_f_re (m_ln_1p x) = m_ln_1p (Dual3_f_re x).
Proof. intros F T dnFT ordT. exact re_is_inner_Dual3_ln_1p. Qed.
Theorem C06_re_is_inner_Dual3_sin : forall {F T : Type} {dnFT : DN F T} {ordT : DNOrd T}, forall x : Dual3 T, Dual3_f_re (m_sin x) = fst (m_sin_cos (Dual3_f_re x)).
Proof. intros F T dnFT ordT. exact re_is_inner_Dual3_sin. Qed.
Theorem C06_re_is_inner_Dual3_cos : forall {F T : Type} {dnFT : DN F T} {ordT : DNOrd T}, forall x : Dual3 T, Dual3_f_re (m_cos x) = snd (m_sin_cos (Dual3_f_re x)).
Proof. intros F T dnFT ordT. exact re_is_inner_Dual3_cos. Qed.
Theorem C06_re_is_inner_Dual3_asin : forall {F T : Type} {dnFT : DN F T} {ordT : DNOrd T}, forall x : Dual3 T, Dual3_f_re (m_asin x) = m_asin (Dual3_f_re x).
Proof. intros F T dnFT ordT. exact re_is_inner_Dual3_asin. Qed.
Theorem C06_re_is_inner_Dual3_acos : forall {F T : Type} {dnFT : DN F T} {ordT : DNOrd T}, forall x : Dual3 T, Dual3_f_re (m_acos x) = m_acos (Dual3_f_re x).
Proof. intros F T dnFT ordT. exact re_is_inner_Dual3_acos. Qed.
Theorem C06_re_is_inner_Dual3_atan : forall {F T : Type} {dnFT : DN F T} {ordT : DNOrd T}, forall x : Dual3 T, Dual3_f_re (m_atan x) = m_atan (Dual3_f_re x).
Proof. intros F T dnFT ordT. exact re_is_inner_Dual3_atan. Qed.
Theorem C06_re_is_inner_Dual3_sinh : forall {F T : Type} {dnFT : DN F T} {ordT : DNOrd T}, forall x : Dual3 T, Dual3_f_re (m_sinh x) = m_sinh (Dual3_f_re x).
Proof. intros F T dnFT ordT. exact re_is_inner_Dual3_sinh. Qed.
Theorem C06_re_is_inner_Dual3_cosh : forall {F T : Type} {dnFT : DN F T} {ordT : DNOrd T}, forall x : Dual3 T, Dual3_f_re (m_cosh x) = m_cosh (Dual3_f_re x).
Proof. intros F T dnFT ordT. exact re_is_inner_Dual3_cosh. Qed.
Theorem C06_re_is_inner_Dual3_asinh : forall {F T : Type} {dnFT : DN F T} {ordT : DNOrd T}, forall x : Dual3 T, Dual3_f_re (m_asinh x) = m_asinh (Dual3_f_re x).
Proof. intros F T dnFT ordT. exact re_is_inner_Dual3_asinh. Qed.
Theorem C06_re_is_inner_Dual3_acosh : forall {F T : Type} {dnFT : DN F T} {ordT : DNOrd T}, forall x : Dual3 T, Dual3_f_re (m_acosh x) = m_acosh (Dual3_f_re x).
Proof. intros F T dnFT ordT. exact re_is_inner_Dual3_acosh. Qed.
Theorem C06_re_is_inner_Dual3_atanh : forall {F T : Type} {dnFT : DN F T} {ordT : DNOrd T}, forall x : Dual3 T, Dual3_f_re (m_atanh x) = m_atanh (Dual3_f_re x).
Proof. intros F T dnFT ordT. exact re_is_inner_Dual3_atanh. Qed.
Theorem C06_re_only_Dual3_powi : forall {F T : Type} {dnFT : DN F T} {ordT : DNOrd T}, forall (n : Z) (x x' : Dual3 T), Dual3_f_re x = Dual3_f_re x' -> Dual3_f_re (m_powi x n) = Dual3_f_re (m_powi x' n).
Proof. intros F T dnFT ordT. exact re_only_Dual3_powi. Qed.
Theorem C06_re_only_Dual3_powf : forall {F T : Type} {dnFT : DN F T} {ordT : DNOrd T}, forall (q : F) (x x' : Dual3 T), Dual3_f_re x = Dual3_f_re x' -> Dual3_f_re (m_powf x q) = Dual3_f_re (m_powf x' q).
Proof. intros F T dnFT ordT. exact re_only_Dual3_powf. Qed.
Theorem C06_re_only_Dual3_log : forall {F T : Type} {dnFT : DN F T} {ordT : DNOrd T}, forall (q : F) (x x' : Dual3 T), Dual3_f_re x = Dual3_f_re x' -> Dual3_f_re (m_log x q) = Dual3_f_re (m_log x' q).
Proof. intros F T dnFT ordT. exact re_only_Dual3_log. Qed.
Theorem C06_re_only_Dual3_add : forall {F T : Type} {dnFT : DN F T} {ordT : DNOrd T}, forall x x' y y' : Dual3 T, Dual3_f_re x = Dual3_f_re x' -> Dual3_f_re y = Dual3_f_re y' -> Dual3_f_re (x + y) = Dual3_f_re (x' + y').
Proof. intros F T dnFT ordT. exact re_only_Dual3_add. Qed.
Theorem C06_re_only_Dual3_sub : forall {F T : Type} {dnFT : DN F T} {ordT : DNOrd T}, forall x x' y y' : Dual3 T, Dual3_f_re x = Dual3_f_re x' -> Dual3_f_re y = Dual3_f_re y' -> Dual3_f_re (x - y) = Dual3_f_re (x' - y').
Proof. intros F T dnFT ordT. exact re_only_Dual3_sub. Qed.
Theorem C06_re_only_Dual3_mul : forall {F T : Type} {dnFT : DN F T} {ordT : DNOrd T}, forall x x' y y' : Dual3 T, Dual3_f_re x = Dual3_f_re x' -> Dual3_f_re y = Dual3_f_re y' -> Dual3_f_re (x * y) = Dual3_f_re (x' * y').
Proof. intros F T dnFT ordT. exact re_only_Dual3_mul. Qed.
Theorem C06_re_only_Dual3_div : forall {F T : Type} {dnFT : DN F T} {ordT : DNOrd T}, forall x x' y y' : Dual3 T, Dual3_f_re x = Dual3_f_re x' -> Dual3_f_re y = Dual3_f_re y' -> Dual3_f_re (x / y) = Dual3_f_re (x' / y').
Proof. intros F T dnFT ordT. exact re_only_Dual3_div. Qed.
Theorem C06_re_only_Dual3_powd : forall {F T : Type} {dnFT : DN F T} {ordT : DNOrd T}, forall x x' y y' : Dual3 T, Dual3_f_re x = Dual3_f_re x' -> Dual3_f_re y = Dual3_f_re y' -> Dual3_f_re (m_powd x y) = Dual3_f_re (m_powd x' y').
Proof. intros F T dnFT ordT. exact re_only_Dual3_powd. Qed.
Theorem C06_re_only_Dual3_atan2 : forall {F T : Type} {dnFT : DN F T} {ordT : DNOrd T}, forall x x' y y' : Dual3 T, Dual3_f_re x = Dual3_f_re x' -> Dual3_f_re y = Dual3_f_re y' -> Dual3_f_re (m_atan2 x y) = Dual3_f_re (m_atan2 x' y').
Proof. intros F T dnFT ordT. exact re_only_Dual3_atan2. Qed.
Theorem C06_re_only_Dual3_abs_sub : forall {F T : Type} {dnFT : DN F T} {ordT : DNOrd T}, forall x x' y y' : Dual3 T, Dual3_f_re x = Dual3_f_re x' -> Dual3_f_re y = Dual3_f_re y' -> Dual3_f_re (m_abs_sub x y) = Dual3_f_re (m_abs_sub x' y').
Proof. intros F T dnFT ordT. exact re_only_Dual3_abs_sub. Qed.
Theorem C06_re_is_inner_Dual3_add : forall {F T : Type} {dnFT : DN F T} {ordT : DNOrd T}, forall x y : Dual3 T, Dual3_f_re (x + y) = Dual3_f_re x + Dual3_f_re y.
Proof. intros F T dnFT ordT. exact re_is_inner_Dual3_add. Qed.
Theorem C06_re_is_inner_Dual3_sub : forall {F T : Type} {dnFT : DN F T} {ordT : DNOrd T}, forall x y : Dual3 T, Dual3_f_re (x - y) = Dual3_f_re x - Dual3_f_re y.
Proof. intros F T dnFT ordT. exact re_is_inner_Dual3_sub. Qed.
Theorem C06_re_is_inner_Dual3_mul : forall {F T : Type} {dnFT : DN F T} {ordT : DNOrd T}, forall x y : Dual3 T, Dual3_f_re (x * y) = Dual3_f_re x * Dual3_f_re y.
Proof. intros F T dnFT ordT. exact re_is_inner_Dual3_mul. Qed.
Theorem C06_re_is_inner_Dual3_neg : forall {F T : Type} {dnFT : DN F T} {ordT : DNOrd T}, forall x : Dual3 T, Dual3_f_re (- x) = - (Dual3_f_re x).
Proof. intros F T dnFT ordT. exact re_is_inner_Dual3_neg. Qed.
Theorem C06_re_only_Dual3_mul_add : forall {F T : Type} {dnFT : DN F T} {ordT : DNOrd T}, forall x x' y y' z z' : Dual3 T, Dual3_f_re x = Dual3_f_re x' -> Dual3_f_re y = Dual3_f_re y' -> Dual3_f_re z = Dual3_f_re z' -> Dual3_f_re (m_mul_add x y z) = Dual3_f_re (m_mul_add x' y' z').
Proof. intros F T dnFT ordT. exact re_only_Dual3_mul_add. Qed.
Theorem C06_pred_Dual3_is_zero : forall {F T : Type} {dnFT : DN F T} {ordT : DNOrd T}, forall x x' : Dual3 T, Dual3_f_re x = Dual3_f_re x' -> m_is_zero x = m_is_zero x'.
Proof. intros F T dnFT ordT. exact pred_Dual3_is_zero. Qed.
Theorem C06_pred_Dual3_is_one : forall {F T : Type} {dnFT : DN F T} {ordT : DNOrd T}, forall x x' : Dual3 T, Dual3_f_re x = Dual3_f_re x' -> m_is_one x = m_is_one x'.
Proof. intros F T dnFT ordT. exact pred_Dual3_is_one. Qed.
Theorem C06_pred_Dual3_is_positive : forall {F T : Type} {dnFT : DN F T} {ordT : DNOrd T}, forall x x' : Dual3 T, Dual3_f_re x = Dual3_f_re x' -> m_is_positive x = m_is_positive x'.
Proof. intros F T dnFT ordT. exact pred_Dual3_is_positive. Qed.
Theorem C06_pred_Dual3_is_negative : forall {F T : Type} {dnFT : DN F T} {ordT : DNOrd T}, forall x x' : Dual3 T, Dual3_f_re x = Dual3_f_re x' -> m_is_negative x = m_is_negative x'.
Proof. intros F T dnFT ordT. exact pred_Dual3_is_negative. Qed.
Theorem C06_re_only_Dual3_addF : forall {F T : Type} {dnFT : DN F T} {ordT : DNOrd T}, forall (q : F) (x x' : Dual3 T), Dual3_f_re x = Dual3_f_re x' -> Dual3_f_re (x + q) = Dual3_f_re (x' + q).
Proof. intros F T dnFT ordT. exact re_only_Dual3_addF. Qed.
Theorem C06_re_only_Dual3_subF : forall {F T : Type} {dnFT : DN F T} {ordT : DNOrd T}, forall (q : F) (x x' : Dual3 T), Dual3_f_re x = Dual3_f_re x' -> Dual3_f_re (x - q) = Dual3_f_re (x' - q).
Proof. intros F T dnFT ordT. exact re_only_Dual3_subF. Qed.
Theorem C06_re_only_Dual3_mulF : forall {F T : Type} {dnFT : DN F T} {ordT : DNOrd T}, forall (q : F) (x x' : Dual3 T), Dual3_f_re x = Dual3_f_re x' -> Dual3_f_re (x * q) = Dual3_f_re (x' * q).
Proof. intros F T dnFT ordT. exact re_only_Dual3_mulF. Qed.
Theorem C06_re_only_Dual3_divF : forall {F T : Type} {dnFT : DN F T} {ordT : DNOrd T}, forall (q : F) (x x' : Dual3 T), Dual3_f_re x = Dual3_f_re x' -> Dual3_f_re (x / q) = Dual3_f_re (x' / q).
Proof. intros F T dnFT ordT. exact re_only_Dual3_divF. Qed.
Theorem C06_re_only_HyperDual_recip : forall {F T : Type} {dnFT : DN F T} {ordT : DNOrd T}, forall x x' : HyperDual T, HyperDual_f_re x = HyperDual_f_re x' -> HyperDual_f_re (m_recip x) = HyperDual_f_re (m_recip x').
Proof. intros F T dnFT ordT. exact re_only_HyperDual_recip. Qed.
Theorem C06_re_only_HyperDual_sqrt : forall {F T : Type} {dnFT : DN F T} {ordT : DNOrd T}, forall x x' : HyperDual T, HyperDual_f_re x = HyperDual_f_re x' -> HyperDual_f_re (m_sqrt x) = HyperDual_f_re (m_sqrt x').
Proof. intros F T dnFT ordT. exact re_only_HyperDual_sqrt. Qed.
Theorem C06_re_only_HyperDual_cbrt : forall {F T : Type} {dnFT : DN F T} {ordT : DNOrd T}, forall x x' : HyperDual T, HyperDual_f_re x = HyperDual_f_re x' -> HyperDual_f_re (m_cbrt x) = HyperDual_f_re (m_cbrt x').
Proof. intros F T dnFT ordT. exact re_only_HyperDual_cbrt. Qed.
Theorem C06_re_only_HyperDual_exp : forall {F T : Type} {dnFT : DN F T} {ordT : DNOrd T}, forall x x' : HyperDual T, HyperDual_f_re x = HyperDual_f_re x' -> HyperDual_f_re (m_exp x) = HyperDual_f_re (m_exp x').
Proof. intros F T dnFT ordT. exact re_only_HyperDual_exp. Qed.
Theorem C06_re_only_HyperDual_exp2 : forall {F T : Type} {dnFT : DN F T} {ordT : DNOrd T}, forall x x' : HyperDual T, HyperDual_f_re x = HyperDual_f_re x' -> HyperDual_f_re (m_exp2 x) = HyperDual_f_re (m_exp2 x').
Proof. intros F T dnFT ordT. exact re_only_HyperDual_exp2. Qed.
Theorem C06_re_only_HyperDual_exp_m1 : forall {F T : Type} {dnFT : DN F T} {ordT : DNOrd T}, forall x x' : HyperDual T, HyperDual_f_re x = HyperDual_f_re x' -> HyperDual_f_re (m_exp_m1 x) = HyperDual_f_re (m_exp_m1 x').
Proof. intros F T dnFT ordT. exact re_only_HyperDual_exp_m1. Qed.
Theorem C06_re_only_HyperDual_ln : forall {F T : Type} {dnFT : DN F T} {ordT : DNOrd T}, forall x x' : HyperDual T, HyperDual_f_re x = HyperDual_f_re x' -> HyperDual_f_re (m_ln x) = HyperDual_f_re (m_ln x').
Proof. intros F T dnFT ordT. exact re_only_HyperDual_ln. Qed.
Theorem C06_re_only_HyperDual_log2 : forall {F T : Type} {dnFT : DN F T} {ordT : DNOrd T}, forall x x' : HyperDual T, HyperDual_f_re x = HyperDual_f_re x' -> HyperDual_f_re (m_log2 x) = HyperDual_f_re (m_log2 x').
Proof. intros F T dnFT ordT. exact re_only_HyperDual_log2. Qed.
Theorem C06_re_only_HyperDual_log10 : forall {F T : Type} {dnFT : DN F T} {ordT : DNOrd T}, forall x x' : HyperDual T, HyperDual_f_re x = HyperDual_f_re x' -> HyperDual_f_re (m_log10 x) = HyperDual_f_re (m_log10 x').
Proof. intros F T dnFT ordT. exact re_only_HyperDual_log10. Qed.
Theorem C06_re_only_HyperDual_ln_1p : forall {F T : Type} {dnFT : DN F T} {ordT : DNOrd T}, forall x x' : HyperDual T, HyperDual_f_re x = HyperDual_f_re x' -> HyperDual_f_re (m_ln_1p x) = HyperDual_f_re (m_ln_1p x').
Proof. intros F T dnFT ordT. exact re_only_HyperDual_ln_1p. Qed.
Theorem C06_re_only_HyperDual_sin : forall {F T : Type} {dnFT : DN F T} {ordT : DNOrd T}, forall x x' : HyperDual T, HyperDual_f_re x = HyperDual_f_re x' -> HyperDual_f_re (m_sin x) = HyperDual_f_re (m_sin x').
Proof. intros F T dnFT ordT. exact re_only_HyperDual_sin. Qed.
Theorem C06_re_only_HyperDual_cos : forall {F T : Type} {dnFT : DN F T} {ordT : DNOrd T}, forall x x' : HyperDual T, HyperDual_f_re x = HyperDual_f_re x' -> HyperDual_f_re (m_cos x) = HyperDual_f_re (m_cos x').
Proof. intros F T dnFT ordT. exact re_only_HyperDual_cos. Qed.
Theorem C06_re_only_HyperDual_asin : forall {F T : Type} {dnFT : DN F T} {ordT : DNOrd T}, forall x x' : HyperDual T, HyperDual_f_re x = HyperDual_f_re x' -> HyperDual_f_re (m_asin x) = HyperDual_f_re (m_asin x').
Proof. intros F T dnFT ordT. exact re_only_HyperDual_asin. Qed.
Theorem C06_re_only_HyperDual_acos : forall {F T : Type} {dnFT : DN F T} {ordT : DNOrd T}, forall x x' : HyperDual T, HyperDual_f_re x = HyperDual_f_re x' -> HyperDual_f_re (m_acos x) = HyperDual_f_re (m_acos x').
Proof. intros F T dnFT ordT. exact re_only_HyperDual_acos. Qed.
Theorem C06_re_only_HyperDual_atan : forall {F T : Type} {dnFT : DN F T} {ordT : DNOrd T}, forall x x' : HyperDual T, HyperDual_f_re x = HyperDual_f_re x' -> HyperDual_f_re (m_atan x) = HyperDual_f_re (m_atan x').
Proof. intros F T dnFT ordT. exact re_only_HyperDual_atan. Qed.
Theorem C06_re_only_HyperDual_sinh : forall {F T : Type} {dnFT : DN F T} {ordT : DNOrd T}, forall x x' : HyperDual T, HyperDual_f_re x = HyperDual_f_re x' -> HyperDual_f_re (m_sinh x) = HyperDual_f_re (m_sinh x').
Proof. intros F T dnFT ordT. exact re_only_HyperDual_sinh. Qed.
Theorem C06_re_only_HyperDual_cosh : forall {F T : Type} {dnFT : DN F T} {ordT : DNOrd T}, forall x x' : HyperDual T, HyperDual_f_re x = HyperDual_f_re x' -> HyperDual_f_re (m_cosh x) = HyperDual_f_re (m_cosh x').
Proof. intros F T dnFT ordT. exact re_only_HyperDual_cosh. Qed.
Theorem C06_re_only_HyperDual_asinh : forall {F T : Type} {dnFT : DN F T} {ordT : DNOrd T}, forall x x' : HyperDual T, HyperDual_f_re x = HyperDual_f_re x' -> HyperDual_f_re (m_asinh x) = HyperDual_f_re (m_asinh x').
Proof. intros F T dnFT ordT. exact re_only_HyperDual_asinh. Qed.
Theorem C06_re_only_HyperDual_acosh : forall {F T : Type} {dnFT : DN F T} {ordT : DNOrd T}, forall x x' : HyperDual T, HyperDual_f_re x = HyperDual_f_re x' -> HyperDual_f_re (m_acosh x) = HyperDual_f_re (m_acosh x').
Proof. intros F T dnFT ordT. exact re_only_HyperDual_acosh. Qed.
Theorem C06_re_only_HyperDual_atanh : forall {F T : Type} {dnFT : DN F T} {ordT : DNOrd T}, forall x x' : HyperDual T, HyperDual_f_re x = HyperDual_f_re x' -> HyperDual_f_re (m_atanh x) = HyperDual_f_re (m_atanh x').
Proof. intros F T dnFT ordT. exact re_only_HyperDual_atanh. Qed.
Theorem C06_re_only_HyperDual_tan : forall {F T : Type} {dnFT : DN F T} {ordT : DNOrd T}, forall x x' : HyperDual T, HyperDual_f_re x = HyperDual_f_re x' -> HyperDual_f_re (m_tan x) = HyperDual_f_re (m_tan x').
Proof. intros F T dnFT ordT. exact re_only_HyperDual_tan. Qed.
Theorem C06_re_only_HyperDual_tanh : forall {F T : Type} {dnFT : DN F T} {ordT : DNOrd T}, forall x x' : HyperDual T, HyperDual_f_re x = HyperDual_f_re x' -> HyperDual_f_re (m_tanh x) = HyperDual_f_re (m_tanh x').
Proof. intros F T dnFT ordT. exact re_only_HyperDual_tanh. Qed.
Theorem C06_re_only_HyperDual_sph_j0 : forall {F T : Type} {dnFT : DN F T} {ordT : DNOrd T}, forall x x' : HyperDual T, HyperDual_f_re x = HyperDual_f_re x' -> HyperDual_f_re (m_sph_j0 x) = HyperDual_f_re (m_sph_j0 x').
Proof. intros F T dnFT ordT. exact re_only_HyperDual_sph_j0. Qed.
Theorem C06_re_only_HyperDual_sph_j1 : forall {F T : Type} {dnFT : DN F T} {ordT : DNOrd T}, forall x x' : HyperDual T, HyperDual_f_re x = HyperDual_f_re x' -> HyperDual_f_re (m_sph_j1 x) = HyperDual_f_re (m_sph_j1 x').
Proof. intros F T dnFT ordT. exact re_only_HyperDual_sph_j1. Qed.
Theorem C06_re_only_HyperDual_sph_j2 : forall {F T : Type} {dnFT : DN F T} {ordT : DNOrd T}, forall x x' : HyperDual T, HyperDual_f_re x = HyperDual_f_re x' -> HyperDual_f_re (m_sph_j2 x) = HyperDual_f_re (m_sph_j2 x').
Proof. intros F T dnFT ordT. exact re_only_HyperDual_sph_j2. Qed.
Theorem C06_re_only_HyperDual_abs : forall {F T : Type} {dnFT : DN F T} {ordT : DNOrd T}, forall x x' : HyperDual T, HyperDual_f_re x = HyperDual_f_re x' -> HyperDual_f_re (m_abs x) = HyperDual_f_re (m_abs x').
Proof. intros F T dnFT ordT. exact re_only_HyperDual_abs. Qed.
Theorem C06_re_only_HyperDual_signum : forall {F T : Type} {dnFT : DN F T} {ordT : DNOrd T}, forall x x' : HyperDual T, HyperDual_f_re x = HyperDual_f_re x' -> HyperDual_f_re (m_signum x) = HyperDual_f_re (m_signum x').
Proof. intros F T dnFT ordT. exact re_only_HyperDual_signum. Qed.
Theorem C06_re_only_HyperDual_inv : forall {F T : Type} {dnFT : DN F T} {ordT : DNOrd T}, forall x x' : HyperDual T, HyperDual_f_re x = HyperDual_f_re x' -> HyperDual_f_re (m_inv x) = HyperDual_f_re (m_inv x').
Proof. intros F T dnFT ordT. exact re_only_HyperDual_inv. Qed.
Theorem C06_re_is_inner_HyperDual_recip : forall {F T : Type} {dnFT : DN F T} {ordT : DNOrd T}, forall x : HyperDual T, HyperDual_f_re (m_recip x) = m_recip (HyperDual_f_re x).
Proof. intros F T dnFT ordT. exact re_is_inner_HyperDual_recip. Qed.
Theorem C06_re_is_inner_HyperDual_sqrt : forall {F T : Type} {dnFT : DN F T} {ordT : DNOrd T}, forall x : HyperDual T, HyperDual_f_re (m_sqrt x) = m_sqrt (HyperDual_f_re x).
Proof. intros F T dnFT ordT. exact re_is_inner_HyperDual_sqrt. Qed.
Theorem C06_re_is_inner_HyperDual_cbrt : forall {F T : Type} {dnFT : DN F T} {ordT : DNOrd T}, forall x : HyperDual T, HyperDual_f_re (m_cbrt x) = m_cbrt (HyperDual_f_re x).
Proof. intros F T dnFT ordT. exact re_is_inner_HyperDual_cbrt. Qed.
Theorem C06_re_is_inner_HyperDual_exp : forall {F T : Type} {dnFT : DN F T} {ordT : DNOrd T}, forall x : HyperDual T, HyperDual_f_re (m_exp x) = m_exp (HyperDual_f_re x).
Proof. intros F T dnFT ordT. exact re_is_inner_HyperDual_exp. Qed.
Theorem C06_re_is_inner_HyperDual_exp2 : forall {F T : Type} {dnFT : DN F T} {ordT : DNOrd T}, forall x : HyperDual T, HyperDual_f_re (m_exp2 x) = m_exp2 (HyperDual_f_re x).
Proof. intros F T dnFT ordT. exact re_is_inner_HyperDual_exp2. Qed.
Theorem C06_re_is_inner_HyperDual_exp_m1 : forall {F T : Type} {dnFT : DN F T} {ordT : DNOrd T}, forall x : HyperDual T, HyperDual_f_re (m_exp_m1 x) = m_exp_m1 (HyperDual_f_re x).
Proof. intros F T dnFT ordT. exact re_is_inner_HyperDual_exp_m1. Qed.
Theorem C06_re_is_inner_HyperDual_ln : forall {F T : Type} {dnFT : DN F T} {ordT : DNOrd T}, forall x : HyperDual T, HyperDual_f_re (m_ln x) = m_ln (HyperDual_f_re x).
Proof. intros F T dnFT ordT. exact re_is_inner_HyperDual_ln. Qed.
Theorem C06_re_is_inner_HyperDual_log2 : forall {F T : Type} {dnFT : DN F T} {ordT : DNOrd T}, forall x : HyperDual T, HyperDual_f_re (m_log2 x) = m_log2 (HyperDual_f_re x).
Proof. intros F T dnFT ordT. exact re_is_inner_HyperDual_log2. Qed.
Theorem C06_re_is_inner_HyperDual_log10 : forall {F T : Type} {dnFT : DN F T} {ordT : DNOrd T}, forall x : HyperDual T, HyperDual_f_re (m_log10 x) = m_log10 (HyperDual_f_re x).
Proof. intros F T dnFT ordT. exact re_is_inner_HyperDual_log10. Qed.
Theorem C06_re_is_inner_HyperDual_ln_1p : forall {F T : Type} {dnFT : DN F T} {ordT : DNOrd T}, forall x : HyperDual T, HyperDual_f_re (m_ln_1p x) = m_ln_1p (HyperDual_f_re x).
Proof. intros F T dnFT ordT. exact re_is_inner_HyperDual_ln_1p. Qed.
Theorem C06_re_is_inner_HyperDual_sin : forall {F T : Type} {dnFT : DN F T} {ordT : DNOrd T}, forall x : HyperDual T, HyperDual_f_re (m_sin x) = fst (m_sin_cos (HyperDual_f_re x)).
Proof. intros F T dnFT ordT. exact re_is_inner_HyperDual_sin. Qed.
Theorem C06_re_is_inner_HyperDual_cos : forall {F T : Type} {dnFT : DN F T} {ordT : DNOrd T}, forall x : HyperDual T, HyperDual_f_re (m_cos x) = snd (m_sin_cos (HyperDual_f_re x)).
Proof. intros F T dnFT ordT. exact re_is_inner_HyperDual_cos. Qed.
Theorem C06_re_is_inner_HyperDual_asin : forall {F T : Type} {dnFT : DN F T} {ordT : DNOrd T}, forall x : HyperDual T, HyperDual_f_re (m_asin x) = m_asin (HyperDual_f_re x).
Proof. intros F T dnFT ordT. exact re_is_inner_HyperDual_asin. Qed.
Theorem C06_re_is_inner_HyperDual_acos : forall {F T : Type} {dnFT : DN F T} {ordT : DNOrd T}, forall x : HyperDual T, HyperDual_f_re (m_acos x) = m_acos (HyperDual_f_re x).
Proof. intros F T dnFT ordT. exact re_is_inner_HyperDual_acos. Qed.
Theorem C06_re_is_inner_HyperDual_atan : forall {F T : Type} {dnFT : DN F T} {ordT : DNOrd T}, forall x : HyperDual T, HyperDual_f_re (m_atan x) = m_atan (HyperDual_f_re x).
Proof. intros F T dnFT ordT. exact re_is_inner_HyperDual_atan. Qed.
Theorem C06_re_is_inner_HyperDual_sinh : forall {F T : Type} {dnFT : DN F T} {ordT : DNOrd T}, forall x : HyperDual T, HyperDual_f_re (m_sinh x) = m_sinh (HyperDual_f_re x).
Proof. intros F T dnFT ordT. exact re_is_inner_HyperDual_sinh. Qed.
Theorem C06_re_is_inner_HyperDual_cosh : forall {F T : Type} {dnFT : DN F T} {ordT : DNOrd T}, forall x : HyperDual T, HyperDual_f_re (m_cosh x) = m_cosh (HyperDual_f_re x).
Proof. intros F T dnFT ordT. exact re_is_inner_HyperDual_cosh. Qed.
Theorem C06_re_is_inner_HyperDual_asinh : forall {F T : Type} {dnFT : DN F T} {ordT : DNOrd T}, forall x : HyperDual T, HyperDual_f_re (m_asinh x) = m_asinh (HyperDual_f_re x).
Proof. intros F T dnFT ordT. exact re_is_inner_HyperDual_asinh. Qed.
Theorem C06_re_is_inner_HyperDual_acosh : forall {F T : Type} {dnFT : DN F T} {ordT : DNOrd T}, forall x : HyperDual T, HyperDual_f_re (m_acosh x) = m_acosh (HyperDual_f_re x).
Proof. intros F T dnFT ordT. exact re_is_inner_HyperDual_acosh. Qed.
Theorem C06_re_is_inner_HyperDual_atanh : forall {F T : Type} {dnFT : DN F T} {ordT : DNOrd T}, forall x : HyperDual T, HyperDual_f_re (m_atanh x) = m_atanh (HyperDual_f_re x).
Proof. intros F T dnFT ordT. exact re_is_inner_HyperDual_atanh. Qed.
Theorem C06_re_only_HyperDual_powi : forall {F T : Type} {dnFT : DN F T} {ordT : DNOrd T}, forall (n : Z) (x x' : HyperDual T), HyperDual_f_re x = HyperDual_f_re x' -> HyperDual_f_re (m_powi x n) = HyperDual_f_re (m_powi x' n).
Proof. intros F T dnFT ordT. exact re_only_HyperDual_powi. Qed.
Theorem C06_re_only_HyperDual_powf : forall {F T : Type} {dnFT : DN F T} {ordT : DNOrd T}, forall (q : F) (x x' : HyperDual T), HyperDual_f_re x = HyperDual_f_re x' -> HyperDual_f_re (m_powf x q) = HyperDual_f_re (m_powf x' q).
Proof. intros F T dnFT ordT. exact re_only_HyperDual_powf. Qed.
Theorem C06_re_only_HyperDual_log : forall {F T : Type} {dnFT : DN F T} {ordT : DNOrd T}, forall (q : F) (x x' : HyperDual T), HyperDual_f_re x = HyperDual_f_re x' -> HyperDual_f_re (m_log x q) = HyperDual_f_re (m_log x' q).
Proof. intros F T dnFT ordT. exact re_only_HyperDual_log. Qed.
Theorem C06_re_only_HyperDual_add : forall {F T : Type} {dnFT : DN F T} {ordT : DNOrd T}, forall x x' y y' : HyperDual T, HyperDual_f_re x = HyperDual_f_re x' -> HyperDual_f_re y = HyperDual_f_re y' -> HyperDual_f_re (x + y) = HyperDual_f_re (x' + y').
Proof. intros F T dnFT ordT. exact re_only_HyperDual_add. Qed.
Theorem C06_re_only_HyperDual_sub : forall {F T : Type} {dnFT : DN F T} {ordT : DNOrd T}, forall x x' y y' : HyperDual T, HyperDual_f_re x = HyperDual_f_re x' -> HyperDual_f_re y = HyperDual_f_re y' -> HyperDual_f_re (x - y) = HyperDual_f_re (x' - y').
Proof. intros F T dnFT ordT. exact re_only_HyperDual_sub. Qed.
Theorem C06_re_only_HyperDual_mul : forall {F T : Type} {dnFT : DN F T} {ordT : DNOrd T}, forall x x' y y' : HyperDual T, HyperDual_f_re x = HyperDual_f_re x' -> HyperDual_f_re y = HyperDual_f_re y' -> HyperDual_f_re (x * y) = HyperDual_f_re (x' * y').
Proof. intros F T dnFT ordT. exact re_only_HyperDual_mul. Qed.
Theorem C06_re_only_HyperDual_div : forall {F T : Type} {dnFT : DN F T} {ordT : DNOrd T}, forall x x' y y' : HyperDual T, HyperDual_f_re x = HyperDual_f_re x' -> HyperDual_f_re y = HyperDual_f_re y' -> HyperDual_f_re (x / y) = HyperDual_f_re (x' / y').
Proof. intros F T dnFT ordT. exact re_only_HyperDual_div. Qed.
Theorem C06_re_only_HyperDual_powd : forall {F T : Type} {dnFT : DN F T} {ordT : DNOrd T}, forall x x' y y' : HyperDual T, HyperDual_f_re x = HyperDual_f_re x' -> HyperDual_f_re y = HyperDual_f_re y' -> HyperDual_f_re (m_powd x y) = HyperDual_f_re (m_powd x' y').
Proof. intros F T dnFT ordT. exact re_only_HyperDual_powd. Qed.
Theorem C06_re_only_HyperDual_atan2 : forall {F T : Type} {dnFT : DN F T} {ordT : DNOrd T}, forall x x' y y' : HyperDual T, HyperDual_f_re x = HyperDual_f_re x' -> HyperDual_f_re y = HyperDual_f_re y' -> HyperDual_f_re (m_atan2 x y) = HyperDual_f_re (m_atan2 x' y').
Proof. intros F T dnFT ordT. exact re_only_HyperDual_atan2. Qed.
Theorem C06_re_only_HyperDual_abs_sub : forall {F T : Type} {dnFT : DN F T} {ordT : DNOrd T}, forall x x' y y' : HyperDual T, HyperDual_f_re x = HyperDual_f_re x' -> HyperDual_f_re y = HyperDual_f_re y' -> HyperDual_f_re (m_abs_sub x y) = HyperDual_f_re (m_abs_sub x' y').
Proof. intros F T dnFT ordT. exact re_only_HyperDual_abs_sub. Qed.
Theorem C06_re_is_inner_HyperDual_add : forall {F T : Type} {dnFT : DN F T} {ordT : DNOrd T}, forall x y : HyperDual T, HyperDual_f_re (x + y) = HyperDual_f_re x + HyperDual_f_re y.
Proof. intros F T dnFT ordT. exact re_is_inner_HyperDual_add. Qed.
Theorem C06_re_is_inner_HyperDual_sub : forall {F T : Type} {dnFT : DN F T} {ordT : DNOrd T}, forall x y : HyperDual T, HyperDual_f_re (x - y) = HyperDual_f_re x - HyperDual_f_re y.
Proof. intros F T dnFT ordT. exact re_is_inner_HyperDual_sub. Qed.
Theorem C06_re_is_inner_HyperDual_mul : forall {F T : Type} {dnFT : DN F T} {ordT : DNOrd T}, forall x y : HyperDual T, HyperDual_f_re (x * y) = HyperDual_f_re x * HyperDual_f_re y.
Proof. intros F T dnFT ordT. exact re_is_inner_HyperDual_mul. Qed.
Theorem C06_re_is_inner_HyperDual_neg : forall {F T : Type} {dnFT : DN F T} {ordT : DNOrd T}, forall x : HyperDual T, HyperDual_f_re (- x) = - (HyperDual_f_re x).
Proof. intros F T dnFT ordT. exact re_is_inner_HyperDual_neg. Qed.
Theorem C06_re_only_HyperDual_mul_add : forall {F T : Type} {dnFT : DN F T} {ordT : DNOrd T}, forall x x' y y' z z' : HyperDual T, HyperDual_f_re x = HyperDual_f_re x' -> HyperDual_f_re y = HyperDual_f_re y' -> HyperDual_f_re z = HyperDual_f_re z' -> HyperDual_f_re (m_mul_add x y z) = HyperDual_f_re (m_mul_add x' y' z').
Proof. intros F T dnFT ordT. exact re_only_HyperDual_mul_add. Qed.
Theorem C06_pred_HyperDual_is_zero : forall {F T : Type} {dnFT : DN F T} {ordT : DNOrd T}, forall x x' : HyperDual T, HyperDual_f_re x = HyperDual_f_re x' -> m_is_zero x = m_is_zero x'.
Proof. intros F T dnFT ordT. exact pred_HyperDual_is_zero. Qed.
Theorem C06_pred_HyperDual_is_one : forall {F T : Type} {dnFT : DN F T} {ordT : DNOrd T}, forall x x' : HyperDual T, HyperDual_f_re x = HyperDual_f_re x' -> m_is_one x = m_is_one x'.
Proof. intros F T dnFT ordT. exact pred_HyperDual_is_one. Qed.
Theorem C06_pred_HyperDual_is_positive : forall {F T : Type} {dnFT : DN F T} {ordT : DNOrd T}, forall x x' : HyperDual T, HyperDual_f_re x = HyperDual_f_re x' -> m_is_positive x = m_is_positive x'.
Proof. intros F T dnFT ordT. exact pred_HyperDual_is_positive. Qed.
Theorem C06_pred_HyperDual_is_negative : forall {F T : Type} {dnFT : DN F T} {ordT : DNOrd T}, forall x x' : HyperDual T, HyperDual_f_re x = HyperDual_f_re x' -> m_is_negative x = m_is_negative x'.
Proof. intros F T dnFT ordT. exact pred_HyperDual_is_negative. Qed.
Theorem C06_re_only_HyperDual_addF : forall {F T : Type} {dnFT : DN F T} {ordT : DNOrd T}, forall (q : F) (x x' : HyperDual T), HyperDual_f_re x = HyperDual_f_re x' -> HyperDual_f_re (x + q) = HyperDual_f_re (x' + q).
Proof. intros F T dnFT ordT. exact re_only_HyperDual_addF. Qed.
Theorem C06_re_only_HyperDual_subF : forall {F T : Type} {dnFT : DN F T} {ordT : DNOrd T}, forall (q : F) (x x' : HyperDual T), HyperDual_f_re x = HyperDual_f_re x' -> HyperDual_f_re (x - q) = HyperDual_f_re (x' - q).
Proof. intros F T dnFT ordT. exact re_only_HyperDual_subF. Qed.
Theorem C06_re_only_HyperDual_mulF : forall {F T : Type} {dnFT : DN F T} {ordT : DNOrd T}, forall (q : F) (x x' : HyperDual T), HyperDual_f_re x = HyperDual_f_re x' -> HyperDual_f_re (x * q) = HyperDual_f_re (x' * q).
Proof. intros F T dnFT ordT. exact re_only_HyperDual_mulF. Qed.
Theorem C06_re_only_HyperDual_divF : forall {F T : Type} {dnFT : DN F T} {ordT : DNOrd T}, forall (q : F) (x x' : HyperDual T), HyperDual_f_re x = HyperDual_f_re x' -> HyperDual_f_re (x / q) = HyperDual_f_re (x' / q).
Proof. intros F T dnFT ordT. exact re_only_HyperDual_divF. Qed.
Theorem C06_re_only_HyperHyperDual_recip : forall {F T : Type} {dnFT : DN F T} {ordT : DNOrd T}, forall x x' : HyperHyperDual T, HyperHyperDual_f_re x = HyperHyperDual_f_re x' -> HyperHyperDual_f_re (m_recip x) = HyperHyperDual_f_re (m_recip x').
Proof. intros F T dnFT ordT. exact re_only_HyperHyperDual_recip. Qed.
Theorem C06_re_only_HyperHyperDual_sqrt : forall {F T : Type} {dnFT : DN F T} {ordT : DNOrd T}, forall x x' : HyperHyperDual T, HyperHyperDual_f_re x = HyperHyperDual_f_re x' -> HyperHyperDual_f_re (m_sqrt x) = HyperHyperDual_f_re (m_sqrt x').
Proof. intros F T dnFT ordT. exact re_only_HyperHyperDual_sqrt. Qed.
Theorem C06_re_only_HyperHyperDual_cbrt : forall {F T : Type} {dnFT : DN F T} {ordT : DNOrd T}, forall x x' : HyperHyperDual T, HyperHyperDual_f_re x = HyperHyperDual_f_re x' -> HyperHyperDual_f_re (m_cbrt x) = HyperHyperDual_f_re (m_cbrt x').
Proof. intros F T dnFT ordT. exact re_only_HyperHyperDual_cbrt. Qed.
Theorem C06_re_only_HyperHyperDual_exp : forall {F T : Type} {dnFT : DN F T} {ordT : DNOrd T}, forall x x' : HyperHyperDual T, HyperHyperDual_f_re x = HyperHyperDual_f_re x' -> HyperHyperDual_f_re (m_exp x) = HyperHyperDual_f_re (m_exp x').
Proof. intros F T dnFT ordT. exact re_only_HyperHyperDual_exp. Qed.
Theorem C06_re_only_HyperHyperDual_exp2 : forall {F T : Type} {dnFT : DN F T} {ordT : DNOrd T}, forall x x' : HyperHyperDual T, HyperHyperDual_f_re x = HyperHyperDual_f_re x' -> HyperHyperDual_f_re (m_exp2 x) = HyperHyperDual_f_re (m_exp2 x').
Proof. intros F T dnFT ordT. exact re_only_HyperHyperDual_exp2. Qed.
Theorem C06_re_only_HyperHyperDual_exp_m1 : forall {F T : Type} {dnFT : DN F T} {ordT : DNOrd T}, forall x x' : HyperHyperDual T, HyperHyperDual_f_re x = HyperHyperDual_f_re x' -> HyperHyperDual_f_re (m_exp_m1 x) = HyperHyperDual_f_re (m_exp_m1 x').
Proof. intros F T dnFT ordT. exact re_only_HyperHyperDual_exp_m1. Qed.
Theorem C06_re_only_HyperHyperDual_ln : forall {F T : Type} {dnFT : DN F T} {ordT : DNOrd T}, forall x x' : HyperHyperDual T, HyperHyperDual_f_re x = HyperHyperDual_f_re x' -> HyperHyperDual_f_re (m_ln x) = HyperHyperDual_f_re (m_ln x').
Proof. intros F T dnFT ordT. exact re_only_HyperHyperDual_ln. Qed.
Theorem C06_re_only_HyperHyperDual_log2 : forall {F T : Type} {dnFT : DN F T} {ordT : DNOrd T}, forall x x' : HyperHyperDual T, HyperHyperDual_f_re x = HyperHyperDual_f_re x' -> HyperHyperDual_f_re (m_log2 x) = HyperHyperDual_f_re (m_log2 x').
Proof. intros F T dnFT ordT. exact re_only_HyperHyperDual_log2. Qed.
Theorem C06_re_only_HyperHyperDual_log10 : forall {F T : Type} {dnFT : DN F T} {ordT : DNOrd T}, forall x x' : HyperHyperDual T, HyperHyperDual_f_re x = HyperHyperDual_f_re x' -> HyperHyperDual_f_re (m_log10 x) = HyperHyperDual_f_re (m_log10 x').
Proof. intros F T dnFT ordT. exact re_only_HyperHyperDual_log10. Qed.
Theorem C06_re_only_HyperHyperDual_ln_1p : forall {F T : Type} {dnFT : DN F T} {ordT : DNOrd T}, forall x x' : HyperHyperDual T, HyperHyperDual_f_re x = HyperHyperDual_f_re x' -> HyperHyperDual_f_re (m_ln_1p x) = HyperHyperDual_f_re (m_ln_1p x').
Proof. intros F T dnFT ordT. exact re_only_HyperHyperDual_ln_1p. Qed.
Theorem C06_re_only_HyperHyperDual_sin : forall {F T : Type} {dnFT : DN F T} {ordT : DNOrd T}, forall x x' : HyperHyperDual T, HyperHyperDual_f_re x = HyperHyperDual_f_re x' -> HyperHyperDual_f_re (m_sin x) = HyperHyperDual_f_re (m_sin x').
Proof. intros F T dnFT ordT. exact re_only_HyperHyperDual_sin. Qed.
Theorem C06_re_only_HyperHyperDual_cos : forall {F T : Type} {dnFT : DN F T} {ordT : DNOrd T}, forall x x' : HyperHyperDual T, HyperHyperDual_f_re x = HyperHyperDual_f_re x' -> HyperHyperDual_f_re (m_cos x) = HyperHyperDual_f_re (m_cos x').
Proof. intros F T dnFT ordT. exact re_only_HyperHyperDual_cos. Qed.
Theorem C06_re_only_HyperHyperDual_asin : forall {F T : Type} {dnFT : DN F T} {ordT : DNOrd T}, forall x x' : HyperHyperDual T, HyperHyperDual_f_re x = HyperHyperDual_f_re x' -> HyperHyperDual_f_re (m_asin x) = HyperHyperDual_f_re (m_asin x').
Proof. intros F T dnFT ordT. exact re_only_HyperHyperDual_asin. Qed.
Theorem C06_re_only_HyperHyperDual_acos : forall {F T : Type} {dnFT : DN F T} {ordT : DNOrd T}, forall x x' : HyperHyperDual T, HyperHyperDual_f_re x = HyperHyperDual_f_re x' -> HyperHyperDual_f_re (m_acos x) = HyperHyperDual_f_re (m_acos x').
Proof. intros F T dnFT ordT. exact re_only_HyperHyperDual_acos. Qed.
Theorem C06_re_only_HyperHyperDual_atan : forall {F T : Type} {dnFT : DN F T} {ordT : DNOrd T}, forall x x' : HyperHyperDual T, HyperHyperDual_f_re x = HyperHyperDual_f_re x' -> HyperHyperDual_f_re (m_atan x) = HyperHyperDual_f_re (m_atan x').
Proof. intros F T dnFT ordT. exact re_only_HyperHyperDual_atan. Qed.
Theorem C06_re_only_HyperHyperDual_sinh : forall {F T : Type} {dnFT : DN F T} {ordT : DNOrd T}, forall x x' : HyperHyperDual T, HyperHyperDual_f_re x = HyperHyperDual_f_re x' -> HyperHyperDual_f_re (m_sinh x) = HyperHyperDual_f_re (m_sinh x').
Proof. intros F T dnFT ordT. exact re_only_HyperHyperDual_sinh. Qed.
Theorem C06_re_only_HyperHyperDual_cosh : forall {F T : Type} {dnFT : DN F T} {ordT : DNOrd T}, forall x x' : HyperHyperDual T, HyperHyperDual_f_re x = HyperHyperDual_f_re x' -> HyperHyperDual_f_re (m_cosh x) = HyperHyperDual_f_re (m_cosh x').
Proof. intros F T dnFT ordT. exact re_only_HyperHyperDual_cosh. Qed.
Theorem C06_re_only_HyperHyperDual_asinh : forall {F T : Type} {dnFT : DN F T} {ordT : DNOrd T}, forall x x' : HyperHyperDual T, HyperHyperDual_f_re x = HyperHyperDual_f_re x' -> HyperHyperDual_f_re (m_asinh x) = HyperHyperDual_f_re (m_asinh x').
Proof. intros F T dnFT ordT. exact re_only_HyperHyperDual_asinh. Qed.
Theorem C06_re_only_HyperHyperDual_acosh : forall {F T : Type} {dnFT : DN F T} {ordT : DNOrd T}, forall x x' : HyperHyperDual T, HyperHyperDual_f_re x = HyperHyperDual_f_re x' -> HyperHyperDual_f_re (m_acosh x) = HyperHyperDual_f_re (m_acosh x').
Proof. intros F T dnFT ordT. exact re_only_HyperHyperDual_acosh. Qed.
Theorem C06_re_only_HyperHyperDual_atanh : forall {F T : Type} {dnFT : DN F T} {ordT : DNOrd T}, forall x x' : HyperHyperDual T, HyperHyperDual_f_re x = HyperHyperDual_f_re x' -> HyperHyperDual_f_re (m_atanh x) = HyperHyperDual_f_re (m_atanh x').
Proof. intros F T dnFT ordT. exact re_only_HyperHyperDual_atanh. Qed.
Theorem C06_re_only_HyperHyperDual_tan : forall {F T : Type} {dnFT : DN F T} {ordT : DNOrd T}, forall x x' : HyperHyperDual T, HyperHyperDual_f_re x = HyperHyperDual_f_re x' -> HyperHyperDual_f_re (m_tan x) = HyperHyperDual_f_re (m_tan x').
Proof. intros F T dnFT ordT. exact re_only_HyperHyperDual_tan. Qed.
Theorem C06_re_only_HyperHyperDual_tanh : forall {F T : Type} {dnFT : DN F T} {ordT : DNOrd T}, forall x x' : HyperHyperDual T, HyperHyperDual_f_re x = HyperHyperDual_f_re x' -> HyperHyperDual_f_re (m_tanh x) = HyperHyperDual_f_re (m_tanh x').
Proof. intros F T dnFT ordT. exact re_only_HyperHyperDual_tanh. Qed.
Theorem C06_re_only_HyperHyperDual_sph_j0 : forall {F T : Type} {dnFT : DN F T} {ordT : DNOrd T}, forall x x' : HyperHyperDual T, HyperHyperDual_f_re x = HyperHyperDual_f_re x' -> HyperHyperDual_f_re (m_sph_j0 x) = HyperHyperDual_f_re (m_sph_j0 x').
Proof. intros F T dnFT ordT. exact re_only_HyperHyperDual_sph_j0. Qed.
Theorem C06_re_only_HyperHyperDual_sph_j1 : forall {F T : Type} {dnFT : DN F T} {ordT : DNOrd T}, forall x x' : HyperHyperDual T, HyperHyperDual_f_re x = HyperHyperDual_f_re x' -> HyperHyperDual_f_re (m_sph_j1 x) = HyperHyperDual_f_re (m_sph_j1 x').
Proof. intros F T dnFT ordT. exact re_only_HyperHyperDual_sph_j1. Qed.
Theorem C06_re_only_HyperHyperDual_sph_j2 : forall {F T : Type} {dnFT : DN F T} {ordT : DNOrd T}, forall x x' : HyperHyperDual T, HyperHyperDual_f_re x = HyperHyperDual_f_re x' -> HyperHyperDual_f_re (m_sph_j2 x) = HyperHyperDual_f_re (m_sph_j2 x').
Proof. intros F T dnFT ordT. exact re_only_HyperHyperDual_sph_j2. Qed.
Theorem C06_re_only_HyperHyperDual_abs : forall {F T : Type} {dnFT : DN F T} {ordT : DNOrd T}, forall x x' : HyperHyperDual T, HyperHyperDual_f_re x = HyperHyperDual_f_re x' -> HyperHyperDual_f_re (m_abs x) = HyperHyperDual_f_re (m_abs x').
Proof. intros F T dnFT ordT. exact re_only_HyperHyperDual_abs. Qed.
Theorem C06_re_only_HyperHyperDual_signum : forall {F T : Type} {dnFT : DN F T} {ordT : DNOrd T}, forall x x' : HyperHyperDual T, HyperHyperDual_f_re x = HyperHyperDual_f_re x' -> HyperHyperDual_f_re (m_signum x) = HyperHyperDual_f_re (m_signum x').
Proof. intros F T dnFT ordT. exact re_only_HyperHyperDual_signum. Qed.
Theorem C06_re_only_HyperHyperDual_inv : forall {F T : Type} {dnFT : DN F T} {ordT : DNOrd T}, forall x x' : HyperHyperDual T, HyperHyperDual_f_re x = HyperHyperDual_f_re x' -> HyperHyperDual_f_re (m_inv x) = HyperHyperDual_f_re (m_inv x').
Proof. intros F T dnFT ordT. exact re_only_HyperHyperDual_inv. Qed.
Theorem C06_re_is_inner_HyperHyperDual_recip : forall {F T : Type} {dnFT : DN F T} {ordT : DNOrd T}, forall x : HyperHyperDual T, HyperHyperDual_f_re (m_recip x) = m_recip (HyperHyperDual_f_re x).
Proof. intros F T dnFT ordT. exact re_is_inner_HyperHyperDual_recip. Qed.
Theorem C06_re_is_inner_HyperHyperDual_sqrt : forall {F T : Type} {dnFT : DN F T} {ordT : DNOrd T}, forall x : HyperHyperDual T, HyperHyperDual_f_re (m_sqrt x) = m_sqrt (HyperHyperDual_f_re x).
Proof. intros F T dnFT ordT. exact re_is_inner_HyperHyperDual_sqrt. Qed.
Theorem C06_re_is_inner_HyperHyperDual_cbrt : forall {F T : Type} {dnFT : DN F T} {ordT : DNOrd T}, forall x : HyperHyperDual T, HyperHyperDual_f_re (m_cbrt x) = m_cbrt (HyperHyperDual_f_re x).
Proof. intros F T dnFT ordT. exact re_is_inner_HyperHyperDual_cbrt. Qed.
Theorem C06_re_is_inner_HyperHyperDual_exp : forall {F T : Type} {dnFT : DN F T} {ordT : DNOrd T}, forall x : HyperHyperDual T, HyperHyperDual_f_re (m_exp x) = m_exp (HyperHyperDual_f_re x).
Proof. intros F T dnFT ordT. exact re_is_inner_HyperHyperDual_exp. Qed.
Theorem C06_re_is_inner_HyperHyperDual_exp2 : forall {F T : Type} {dnFT : DN F T} {ordT : DNOrd T}, forall x : HyperHyperDual T, HyperHyperDual_f_re (m_exp2 x) = m_exp2 (HyperHyperDual_f_re x).
Proof. intros F T dnFT ordT. exact re_is_inner_HyperHyperDual_exp2. Qed.
Theorem C06_re_is_inner_HyperHyperDual_exp_m1 : forall {F T : Type} {dnFT : DN F T} {ordT : DNOrd T}, forall x : HyperHyperDual T, HyperHyperDual_f_re (m_exp_m1 x) = m_exp_m1 (HyperHyperDual_f_re x).
Proof. intros F T dnFT ordT. exact re_is_inner_HyperHyperDual_exp_m1. Qed.
Theorem C06_re_is_inner_HyperHyperDual_ln : forall {F T : Type} {dnFT : DN F T} {ordT : DNOrd T}, forall x : HyperHyperDual T, HyperHyperDual_f_re (m_ln x) = m_ln (HyperHyperDual_f_re x).
Proof. intros F T dnFT ordT. exact re_is_inner_HyperHyperDual_ln. Qed.
Theorem C06_re_is_inner_HyperHyperDual_log2 : forall {F T : Type} {dnFT : DN F T} {ordT : DNOrd T}, forall x : HyperHyperDual T, HyperHyperDual_f_re (m_log2 x) = m_log2 (HyperHyperDual_f_re x).
Proof. intros F T dnFT ordT. exact re_is_inner_HyperHyperDual_log2. Qed.
Theorem C06_re_is_inner_HyperHyperDual_log10 : forall {F T : Type} {dnFT : DN F T} {ordT : DNOrd T}, forall x : HyperHyperDual T, HyperHyperDual_f_re (m_log10 x) = m_log10 (HyperHyperDual_f_re x).
Proof. intros F T dnFT ordT. exact re_is_inner_HyperHyperDual_log10. Qed.
Theorem C06_re_is_inner_HyperHyperDual_ln_1p : forall {F T : Type} {dnFT : DN F T} {ordT : DNOrd T}, forall x : HyperHyperDual T, HyperHyperDual_f_re (m_ln_1p x) = m_ln_1p (HyperHyperDual_f_re x).
Proof. intros F T dnFT ordT. exact re_is_inner_HyperHyperDual_ln_1p. Qed.
Theorem C06_re_is_inner_HyperHyperDual_sin : forall {F T : Type} {dnFT : DN F T} {ordT : DNOrd T}, forall x : HyperHyperDual T, HyperHyperDual_f_re (m_sin x) = fst (m_sin_cos (HyperHyperDual_f_re x)).
Proof. intros F T dnFT ordT. exact re_is_inner_HyperHyperDual_sin. Qed.
Theorem C06_re_is_inner_HyperHyperDual_cos : forall {F T : Type} {dnFT : DN F T} {ordT : DNOrd T}, forall x : HyperHyperDual T, HyperHyperDual_f_re (m_cos x) = snd (m_sin_cos (HyperHyperDual_f_re x)).
Proof. intros F T dnFT ordT. exact re_is_inner_HyperHyperDual_cos. Qed.
Theorem C06_re_is_inner_HyperHyperDual_asin : forall {F T : Type} {dnFT : DN F T} {ordT : DNOrd T}, forall x : HyperHyperDual T, HyperHyperDual_f_re (m_asin x) = m_asin (HyperHyperDual_f_re x).
Proof. intros F T dnFT ordT. exact re_is_inner_HyperHyperDual_asin. Qed.
Theorem C06_re_is_inner_HyperHyperDual_acos : forall {F T : Type} {dnFT : DN F T} {ordT : DNOrd T}, forall x : HyperHyperDual T, HyperHyperDual_f_re (m_acos x) = m_acos (HyperHyperDual_f_re x).
Proof. intros F T dnFT ordT. exact re_is_inner_HyperHyperDual_acos. Qed.
Theorem C06_re_is_inner_HyperHyperDual_atan : forall {F T : Type} {dnFT : DN F T} {ordT : DNOrd T}, forall x : HyperHyperDual T, HyperHyperDual_f_re (m_atan x) = m_atan (HyperHyperDual_f_re x).
Proof. intros F T dnFT ordT. exact re_is_inner_HyperHyperDual_atan. Qed.
Theorem C06_re_is_inner_HyperHyperDual_sinh : forall {F T : Type} {dnFT : DN F T} {ordT : DNOrd T}, forall x : HyperHyperDual T, HyperHyperDual_f_re (m_sinh x) = m_sinh (HyperHyperDual_f_re x).
Proof. intros F T dnFT ordT. exact re_is_inner_HyperHyperDual_sinh. Qed.
Theorem C06_re_is_inner_HyperHyperDual_cosh : forall {F T : Type} {dnFT : DN F T} {ordT : DNOrd T}, forall x : HyperHyperDual T, HyperHyperDual_f_re (m_cosh x) = m_cosh (HyperHyperDual_f_re x).
Proof. intros F T dnFT ordT. exact re_is_inner_HyperHyperDual_cosh. Qed.
Theorem C06_re_is_inner_HyperHyperDual_asinh : forall {F T : Type} {dnFT : DN F T} {ordT : DNOrd T}, forall x : HyperHyperDual T, HyperHyperDual_f_re (m_asinh x) = m_asinh (HyperHyperDual_f_re x).
Proof. intros F T dnFT ordT. exact re_is_inner_HyperHyperDual_asinh. Qed.
Theorem C06_re_is_inner_HyperHyperDual_acosh : forall {F T : Type} {dnFT : DN F T} {ordT : DNOrd T}, forall x : HyperHyperDual T, HyperHyperDual_f_re (m_acosh x) = m_acosh (HyperHyperDual_f_re x).
Proof. intros F T dnFT ordT. exact re_is_inner_HyperHyperDual_acosh. Qed.
Theorem C06_re_is_inner_HyperHyperDual_atanh : forall {F T : Type} {dnFT : DN F T} {ordT : DNOrd T}, forall x : HyperHyperDual T, HyperHyperDual_f_re (m_atanh x) = m_atanh (HyperHyperDual_f_re x).
Proof. intros F T dnFT ordT. exact re_is_inner_HyperHyperDual_atanh. Qed.
Theorem C06_re_only_HyperHyperDual_powi : forall {F T : Type} {dnFT : DN F T} {ordT : DNOrd T}, forall (n : Z) (x x' : HyperHyperDual T), HyperHyperDual_f_re x = HyperHyperDual_f_re x' -> HyperHyperDual_f_re (m_powi x n) = HyperHyperDual_f_re (m_powi x' n).
Proof. intros F T dnFT ordT. exact re_only_HyperHyperDual_powi. Qed.
Theorem C06_re_only_HyperHyperDual_powf : forall {F T : Type} {dnFT : DN F T} {ordT : DNOrd T}, forall (q : F) (x x' : HyperHyperDual T), HyperHyperDual_f_re x = HyperHyperDual_f_re x' -> HyperHyperDual_f_re (m_powf x q) = HyperHyperDual_f_re (m_powf x' q).
Proof. intros F T dnFT ordT. exact re_only_HyperHyperDual_powf. Qed.
Theorem C06_re_only_HyperHyperDual_log : forall {F T : Type} {dnFT : DN F T} {ordT : DNOrd T}, forall (q : F) (x x' : HyperHyperDual T), HyperHyperDual_f_re x = HyperHyperDual_f_re x' -> HyperHyperDual_f_re (m_log x q) = HyperHyperDual_f_re (m_log x' q).
Proof. intros F T dnFT ordT. exact re_only_HyperHyperDual_log. Qed.
Theorem C06_re_only_HyperHyperDual_add : forall {F T : Type} {dnFT : DN F T} {ordT : DNOrd T}, forall x x' y y' : HyperHyperDual T, HyperHyperDual_f_re x = HyperHyperDual_f_re x' -> HyperHyperDual_f_re y = HyperHyperDual_f_re y' -> HyperHyperDual_f_re (x + y) = HyperHyperDual_f_re (x' + y').
Proof. intros F T dnFT ordT. exact re_only_HyperHyperDual_add. Qed.
Theorem C06_re_only_HyperHyperDual_sub : forall {F T : Type} {dnFT : DN F T} {ordT : DNOrd T}, forall x x' y y' : HyperHyperDual T, HyperHyperDual_f_re x = HyperHyperDual_f_re x' -> HyperHyperDual_f_re y = HyperHyperDual_f_re y' -> HyperHyperDual_f_re (x - y) = HyperHyperDual_f_re (x' - y').
Proof. intros F T dnFT ordT. exact re_only_HyperHyperDual_sub. Qed.
Theorem C06_re_only_HyperHyperDual_mul : forall {F T : Type} {dnFT : DN F T} {ordT : DNOrd T}, forall x x' y y' : HyperHyperDual T, HyperHyperDual_f_re x = HyperHyperDual_f_re x' -> HyperHyperDual_f_re y = HyperHyperDual_f_re y' -> HyperHyperDual_f_re (x * y) = HyperHyperDual_f_re (x' * y').
Proof. intros F T dnFT ordT. exact re_only_HyperHyperDual_mul. Qed.
Theorem C06_re_only_HyperHyperDual_div : forall {F T : Type} {dnFT : DN F T} {ordT : DNOrd T}, forall x x' y y' : HyperHyperDual T, HyperHyperDual_f_re x = HyperHyperDual_f_re x' -> HyperHyperDual_f_re y = HyperHyperDual_f_re y' -> HyperHyperDual_f_re (x / y) = HyperHyperDual_f_re (x' / y').
Proof. intros F T dnFT ordT. exact re_only_HyperHyperDual_div. Qed.
Theorem C06_re_only_HyperHyperDual_powd : forall {F T : Type} {dnFT : DN F T} {ordT : DNOrd T}, forall x x' y y' : HyperHyperDual T, HyperHyperDual_f_re x = HyperHyperDual_f_re x' -> HyperHyperDual_f_re y = HyperHyperDual_f_re y' -> HyperHyperDual_f_re (m_powd x y) = HyperHyperDual_f_re (m_powd x' y').
Proof. intros F T dnFT ordT. exact re_only_HyperHyperDual_powd. Qed.
Theorem C06_re_only_HyperHyperDual_atan2 : forall {F T : Type} {dnFT : DN F T} {ordT : DNOrd T}, forall x x' y y' : HyperHyperDual T, HyperHyperDual_f_re x = HyperHyperDual_f_re x' -> HyperHyperDual_f_re y = HyperHyperDual_f_re y' -> HyperHyperDual_f_re (m_atan2 x y) = HyperHyperDual_f_re (m_atan2 x' y').
Proof. intros F T dnFT ordT. exact re_only_HyperHyperDual_atan2. Qed.
Theorem C06_re_only_HyperHyperDual_abs_sub : forall {F T : Type} {dnFT : DN F T} {ordT : DNOrd T}, forall x x' y y' : HyperHyperDual T, HyperHyperDual_f_re x = HyperHyperDual_f_re x' -> HyperHyperDual_f_re y = HyperHyperDual_f_re y' -> HyperHyperDual_f_re (m_abs_sub x y) = HyperHyperDual_f_re (m_abs_sub x' y').
Proof. intros F T dnFT ordT. exact re_only_HyperHyperDual_abs_sub. Qed.
Theorem C06_re_is_inner_HyperHyperDual_add : forall {F T : Type} {dnFT : DN F T} {ordT : DNOrd T}, forall x y : HyperHyperDual T, HyperHyperDual_f_re (x + y) = HyperHyperDual_f_re x + HyperHyperDual_f_re y.
Proof. intros F T dnFT ordT. exact re_is_inner_HyperHyperDual_add. Qed.
Theorem C06_re_is_inner_HyperHyperDual_sub : forall {F T : Type} {dnFT : DN F T} {ordT : DNOrd T}, forall x y : HyperHyperDual T, HyperHyperDual_f_re (x - y) = HyperHyperDual_f_re x - HyperHyperDual_f_re y.
Proof. intros F T dnFT ordT. exact re_is_inner_HyperHyperDual_sub. Qed.
Theorem C06_re_is_inner_HyperHyperDual_mul : forall {F T : Type} {dnFT : DN F T} {ordT : DNOrd T}, forall x y : HyperHyperDual T, HyperHyperDual_f_re (x * y) = HyperHyperDual_f_re x * HyperHyperDual_f_re y.
Proof. intros F T dnFT ordT. exact re_is_inner_HyperHyperDual_mul. Qed.
Theorem C06_re_is_inner_HyperHyperDual_neg : forall {F T : Type} {dnFT : DN F T} {ordT : DNOrd T}, forall x : HyperHyperDual T, HyperHyperDual_f_re (- x) = - (HyperHyperDual_f_re x).
Proof. intros F T dnFT ordT. exact re_is_inner_HyperHyperDual_neg. Qed.
Theorem C06_re_only_HyperHyperDual_mul_add : forall {F T : Type} {dnFT : DN F T} {ordT : DNOrd T}, forall x x' y y' z z' : HyperHyperDual T, HyperHyperDual_f_re x = HyperHyperDual_f_re x' -> HyperHyperDual_f_re y = HyperHyperDual_f_re y' -> HyperHyperDual_f_re z = HyperHyperDual_f_re z' -> HyperHyperDual_f_re (m_mul_add x y z) = HyperHyperDual_f_re (m_mul_add x' y' z').
Proof. intros F T dnFT ordT. exact re_only_HyperHyperDual_mul_add. Qed.
Theorem C06_pred_HyperHyperDual_is_zero : forall {F T : Type} {dnFT : DN F T} {ordT : DNOrd T}, forall x x' : HyperHyperDual T, HyperHyperDual_f_re x = HyperHyperDual_f_re x' -> m_is_zero x = m_is_zero x'.
Proof. intros F T dnFT ordT. exact pred_HyperHyperDual_is_zero. Qed.
Theorem C06_pred_HyperHyperDual_is_one : forall {F T : Type} {dnFT : DN F T} {ordT : DNOrd T}, forall x x' : HyperHyperDual T, HyperHyperDual_f_re x = HyperHyperDual_f_re x' -> m_is_one x = m_is_one x'.
Proof. intros F T dnFT ordT. exact pred_HyperHyperDual_is_one. Qed.
Theorem C06_pred_HyperHyperDual_is_positive : forall {F T : Type} {dnFT : DN F T} {ordT : DNOrd T}, forall x x' : HyperHyperDual T, HyperHyperDual_f_re x = HyperHyperDual_f_re x' -> m_is_positive x = m_is_positive x'.
Proof. intros F T dnFT ordT. exact pred_HyperHyperDual_is_positive. Qed.
Theorem C06_pred_HyperHyperDual_is_negative : forall {F T : Type} {dnFT : DN F T} {ordT : DNOrd T}, forall x x' : HyperHyperDual T, HyperHyperDual_f_re x = HyperHyperDual_f_re x' -> m_is_negative x = m_is_negative x'.
Proof. intros F T dnFT ordT. exact pred_HyperHyperDual_is_negative. Qed.
Theorem C06_re_only_HyperHyperDual_addF : forall {F T : Type} {dnFT : DN F T} {ordT : DNOrd T}, forall (q : F) (x x' : HyperHyperDual T), HyperHyperDual_f_re x = HyperHyperDual_f_re x' -> HyperHyperDual_f_re (x + q) = HyperHyperDual_f_re (x' + q).
Proof. intros F T dnFT ordT. exact re_only_HyperHyperDual_addF. Qed.
Theorem C06_re_only_HyperHyperDual_subF : forall {F T : Type} {dnFT : DN F T} {ordT : DNOrd T}, forall (q : F) (x x' : HyperHyperDual T), HyperHyperDual_f_re x = HyperHyperDual_f_re x' -> HyperHyperDual_f_re (x - q) = HyperHyperDual_f_re (x' - q).
Proof. intros F T dnFT ordT. exact re_only_HyperHyperDual_subF. Qed.
Theorem C06_re_only_HyperHyperDual_mulF : forall {F T : Type} {dnFT : DN F T} {ordT : DNOrd T}, forall (q : F) (x x' : HyperHyperDual T), HyperHyperDual_f_re x = HyperHyperDual_f_re x' -> HyperHyperDual_f_re (x * q) = HyperHyperDual_f_re (x' * q).
Proof. intros F T dnFT ordT. exact re_only_HyperHyperDual_mulF. Qed.
Theorem C06_re_only_HyperHyperDual_divF : forall {F T : Type} {dnFT : DN F T} {ordT : DNOrd T}, forall (q : F) (x x' : HyperHyperDual T), HyperHyperDual_f_re x = HyperHyperDual_f_re x' -> HyperHyperDual_f_re (x / q) = HyperHyperDual_f_re (x' / q).
Proof. intros F T dnFT ordT. exact re_only_HyperHyperDual_divF. Qed.
Theorem C06_re_only_DualVec_recip : forall {F T : Type} {dnFT : DN F T} {ordT : DNOrd T}, forall x x' : DualVec T, DualVec_f_re x = DualVec_f_re x' -> DualVec_f_re (m_recip x) = DualVec_f_re (m_recip x').
Proof. intros F T dnFT ordT. exact re_only_DualVec_recip. Qed.
Theorem C06_re_only_DualVec_sqrt : forall {F T : Type} {dnFT : DN F T} {ordT : DNOrd T}, forall x x' : DualVec T, DualVec_f_re x = DualVec_f_re x' -> DualVec_f_re (m_sqrt x) = DualVec_f_re (m_sqrt x').
Proof. intros F T dnFT ordT. exact re_only_DualVec_sqrt. Qed.
Theorem C06_re_only_DualVec_cbrt : forall {F T : Type} {dnFT : DN F T} {ordT : DNOrd T}, forall x x' : DualVec T, DualVec_f_re x = DualVec_f_re x' -> DualVec_f_re (m_cbrt x) = DualVec_f_re (m_cbrt x').
Proof. intros F T dnFT ordT. exact re_only_DualVec_cbrt. Qed.
Theorem C06_re_only_DualVec_exp : forall {F T : Type} {dnFT : DN F T} {ordT : DNOrd T}, forall x x' : DualVec T, DualVec_f_re x = DualVec_f_re x' -> DualVec_f_re (m_exp x) = DualVec_f_re (m_exp x').
Proof. intros F T dnFT ordT. exact re_only_DualVec_exp. Qed.
Theorem C06_re_only_DualVec_exp2 : forall {F T : Type} {dnFT : DN F T} {ordT : DNOrd T}, forall x x' : DualVec T, DualVec_f_re x = DualVec_f_re x' -> DualVec_f_re (m_exp2 x) = DualVec_f_re (m_exp2 x').
Proof. intros F T dnFT ordT. exact re_only_DualVec_exp2. Qed.
Theorem C06_re_only_DualVec_exp_m1 : forall {F T : Type} {dnFT : DN F T} {ordT : DNOrd T}, forall x x' : DualVec T, DualVec_f_re x = DualVec_f_re x' -> DualVec_f_re (m_exp_m1 x) = DualVec_f_re (m_exp_m1 x').
Proof. intros F T dnFT ordT. exact re_only_DualVec_exp_m1. Qed.
Theorem C06_re_only_DualVec_ln : forall {F T : Type} {dnFT : DN F T} {ordT : DNOrd T}, forall x x' : DualVec T, DualVec_f_re x = DualVec_f_re x' -> DualVec_f_re (m_ln x) = DualVec_f_re (m_ln x').
Proof. intros F T dnFT ordT. exact re_only_DualVec_ln. Qed.
Theorem C06_re_only_DualVec_log2 : forall {F T : Type} {dnFT : DN F T} {ordT : DNOrd T}, forall x x' : DualVec T, DualVec_f_re x = DualVec_f_re x' -> DualVec_f_re (m_log2 x) = DualVec_f_re (m_log2 x').
Proof. intros F T dnFT ordT. exact re_only_DualVec_log2. Qed.
Theorem C06_re_only_DualVec_log10 : forall {F T : Type} {dnFT : DN F T} {ordT : DNOrd T}, forall x x' : DualVec T, DualVec_f_re x = DualVec_f_re x' -> DualVec_f_re (m_log10 x) = DualVec_f_re (m_log10 x').
Proof. intros F T dnFT ordT. exact re_only_DualVec_log10. Qed.
Theorem C06_re_only_DualVec_ln_1p : forall {F T : Type} {dnFT : DN F T} {ordT : DNOrd T}, forall x x' : DualVec T, DualVec_f_re x = DualVec_f_re x' -> DualVec_f_re (m_ln_1p x) = DualVec_f_re (m_ln_1p x').
Proof. intros F T dnFT ordT. exact re_only_DualVec_ln_1p. Qed.
Theorem C06_re_only_DualVec_sin : forall {F T : Type} {dnFT : DN F T} {ordT : DNOrd T}, forall x x' : DualVec T, DualVec_f_re x = DualVec_f_re x' -> DualVec_f_re (m_sin x) = DualVec_f_re (m_sin x').
Proof. intros F T dnFT ordT. exact re_only_DualVec_sin. Qed.
Theorem C06_re_only_DualVec_cos : forall {F T : Type} {dnFT : DN F T} {ordT : DNOrd T}, forall x x' : DualVec T, DualVec_f_re x = DualVec_f_re x' -> DualVec_f_re (m_cos x) = DualVec_f_re (m_cos x').
Proof. intros F T dnFT ordT. exact re_only_DualVec_cos. Qed.
Theorem C06_re_only_DualVec_asin : forall {F T : Type} {dnFT : DN F T} {ordT : DNOrd T}, forall x x' : DualVec T, DualVec_f_re x = DualVec_f_re x' -> DualVec_f_re (m_asin x) = DualVec_f_re (m_asin x').
Proof. intros F T dnFT ordT. exact re_only_DualVec_asin. Qed.
Theorem C06_re_only_DualVec_acos : forall {F T : Type} {dnFT : DN F T} {ordT : DNOrd T}, forall x x' : DualVec T, DualVec_f_re x = DualVec_f_re x' -> DualVec_f_re (m_acos x) = DualVec_f_re (m_acos x').
Proof. intros F T dnFT ordT. exact re_only_DualVec_acos. Qed.
Theorem C06_re_only_DualVec_atan : forall {F T : Type} {dnFT : DN F T} {ordT : DNOrd T}, forall x x' : DualVec T, DualVec_f_re x = DualVec_f_re x' -> DualVec_f_re (m_atan x) = DualVec_f_re (m_atan x').
Proof. intros F T dnFT ordT. exact re_only_DualVec_atan. Qed.
Theorem C06_re_only_DualVec_sinh : forall {F T : Type} {dnFT : DN F T} {ordT : DNOrd T}, forall x x' : DualVec T, DualVec_f_re x = DualVec_f_re x' -> DualVec_f_re (m_sinh x) = DualVec_f_re (m_sinh x').
Proof. intros F T dnFT ordT. exact re_only_DualVec_sinh. Qed.
Theorem C06_re_only_DualVec_cosh : forall {F T : Type} {dnFT : DN F T} {ordT : DNOrd T}, forall x x' : DualVec T, DualVec_f_re x = DualVec_f_re x' -> DualVec_f_re (m_cosh x) = DualVec_f_re (m_cosh x').
Proof. intros F T dnFT ordT. exact re_only_DualVec_cosh. Qed.
Theorem C06_re_only_DualVec_asinh : forall {F T : Type} {dnFT : DN F T} {ordT : DNOrd T}, forall x x' : DualVec T, DualVec_f_re x = DualVec_f_re x' -> DualVec_f_re (m_asinh x) = DualVec_f_re (m_asinh x').
Proof. intros F T dnFT ordT. exact re_only_DualVec_asinh. Qed.
Theorem C06_re_only_DualVec_acosh : forall {F T : Type} {dnFT : DN F T} {ordT : DNOrd T}, forall x x' : DualVec T, DualVec_f_re x = DualVec_f_re x' -> DualVec_f_re (m_acosh x) = DualVec_f_re (m_acosh x').
Proof. intros F T dnFT ordT. exact re_only_DualVec_acosh. Qed.
Theorem C06_re_only_DualVec_atanh : forall {F T : Type} {dnFT : DN F T} {ordT : DNOrd T}, forall x x' : DualVec T, DualVec_f_re x = DualVec_f_re x' -> DualVec_f_re (m_atanh x) = DualVec_f_re (m_atanh x').
Proof. intros F T dnFT ordT. exact re_only_DualVec_atanh. Qed.
Theorem C06_re_only_DualVec_tan : forall {F T : Type} {dnFT : DN F T} {ordT : DNOrd T}, forall x x' : DualVec T, DualVec_f_re x = DualVec_f_re x' -> DualVec_f_re (m_tan x) = DualVec_f_re (m_tan x').
Proof. intros F T dnFT ordT. exact re_only_DualVec_tan. Qed.
Theorem C06_re_only_DualVec_tanh : forall {F T : Type} {dnFT : DN F T} {ordT : DNOrd T}, forall x x' : DualVec T, DualVec_f_re x = DualVec_f_re x' -> DualVec_f_re (m_tanh x) = DualVec_f_re (m_tanh x').
Proof. intros F T dnFT ordT. exact re_only_DualVec_tanh. Qed.
Theorem C06_re_only_DualVec_sph_j0 : forall {F T : Type} {dnFT : DN F T} {ordT : DNOrd T}, forall x x' : DualVec T, DualVec_f_re x = DualVec_f_re x' -> DualVec_f_re (m_sph_j0 x) = DualVec_f_re (m_sph_j0 x').
Proof. intros F T dnFT ordT. exact re_only_DualVec_sph_j0. Qed.
Theorem C06_re_only_DualVec_sph_j1 : forall {F T : Type} {dnFT : DN F T} {ordT : DNOrd T}, forall x x' : DualVec T, DualVec_f_re x = DualVec_f_re x' -> DualVec_f_re (m_sph_j1 x) = DualVec_f_re (m_sph_j1 x').
Proof. intros F T dnFT ordT. exact re_only_DualVec_sph_j1. Qed.
Theorem C06_re_only_DualVec_sph_j2 : forall {F T : Type} {dnFT : DN F T} {ordT : DNOrd T}, forall x x' : DualVec T, DualVec_f_re x = DualVec_f_re x' -> DualVec_f_re (m_sph_j2 x) = DualVec_f_re (m_sph_j2 x').
Proof. intros F T dnFT ordT. exact re_only_DualVec_sph_j2. Qed.
Theorem C06_re_only_DualVec_abs : forall {F T : Type} {dnFT : DN F T} {ordT : DNOrd T}, forall x x' : DualVec T, DualVec_f_re x = DualVec_f_re x' -> DualVec_f_re (m_abs x) = DualVec_f_re (m_abs x').
Proof. intros F T dnFT ordT. exact re_only_DualVec_abs. Qed.
Theorem C06_re_only_DualVec_signum : forall {F T : Type} {dnFT : DN F T} {ordT : DNOrd T}, forall x x' : DualVec T, DualVec_f_re x = DualVec_f_re x' -> DualVec_f_re (m_signum x) = DualVec_f_re (m_signum x').
Proof. intros F T dnFT ordT. exact re_only_DualVec_signum. Qed.
Theorem C06_re_only_DualVec_inv : forall {F T : Type} {dnFT : DN F T} {ordT : DNOrd T}, forall x x' : DualVec T, DualVec_f_re x = DualVec_f_re x' -> DualVec_f_re (m_inv x) = DualVec_f_re (m_inv x').
Proof. intros F T dnFT ordT. exact re_only_DualVec_inv. Qed.
Theorem C06_re_is_inner_DualVec_recip : forall {F T : Type} {dnFT : DN F T} {ordT : DNOrd T}, forall x : DualVec T, DualVec_f_re (m_recip x) = m_recip (DualVec_f_re x).
Proof. intros F T dnFT ordT. exact re_is_inner_DualVec_recip. Qed.
Theorem C06_re_is_inner_DualVec_sqrt : forall {F T : Type} {dnFT : DN F T} {ordT : DNOrd T}, forall x : DualVec T, DualVec_f_re (m_sqrt x) = m_sqrt (DualVec_f_re x).
Proof. intros F T dnFT ordT. exact re_is_inner_DualVec_sqrt. Qed.
Theorem C06_re_is_inner_DualVec_cbrt : forall {F T : Type} {dnFT : DN F T} {ordT : DNOrd T}, forall x : DualVec T, DualVec_f_re (m_cbrt x) = m_cbrt (DualVec_f_re x).
Proof. intros F T dnFT ordT. exact re_is_inner_DualVec_cbrt. Qed.
Theorem C06_re_is_inner_DualVec_exp : forall {F T : Type} {dnFT : DN F T} {ordT : DNOrd T}, forall x : DualVec T, DualVec_f_re (m_exp x) = m_exp (DualVec_f_re x).
Proof. intros F T dnFT ordT. exact re_is_inner_DualVec_exp. Qed.
Theorem C06_re_is_inner_DualVec_exp2 : forall {F T : Type} {dnFT : DN F T} {ordT : DNOrd T}, forall x : DualVec T, DualVec_f_re (m_exp2 x) = m_exp2 (DualVec_f_re x).
Proof. intros F T dnFT ordT. exact re_is_inner_DualVec_exp2. Qed.
Theorem C06_re_is_inner_DualVec_exp_m1 : forall {F T : Type} {dnFT : DN F T} {ordT : DNOrd T}, forall x : DualVec T, DualVec_f_re (m_exp_m1 x) = m_exp_m1 (DualVec_f_re x).
Proof. intros F T dnFT ordT. exact re_is_inner_DualVec_exp_m1. Qed.
Theorem C06_re_is_inner_DualVec_ln : forall {F T : Type} {dnFT : DN F T} {ordT : DNOrd T}, forall x : DualVec T, DualVec_f_re (m_ln x) = m_ln (DualVec_f_re x).
Proof. intros F T dnFT ordT. exact re_is_inner_DualVec_ln. Qed.
Theorem C06_re_is_inner_DualVec_log2 : forall {F T : Type} {dnFT : DN F T} {ordT : DNOrd T}, forall x : DualVec T, DualVec_f_re (m_log2 x) = m_log2 (DualVec_f_re x).
Proof. intros F T dnFT ordT. exact re_is_inner_DualVec_log2. Qed.
Theorem C06_re_is_inner_DualVec_log10 : forall {F T : Type} {dnFT : DN F T} {ordT : DNOrd T}, forall x : DualVec T, DualVec_f_re (m_log10 x) = m_log10 (DualVec_f_re x).
Proof. intros F T dnFT ordT. exact re_is_inner_DualVec_log10. Qed.
Theorem C06_re_is_inner_DualVec_ln_1p : forall {F T : Type} {dnFT : DN F T} {ordT : DNOrd T}, forall x : DualVec T, DualVec_f_re (m_ln_1p x) = m_ln_1p (DualVec_f_re x).
Proof. intros F T dnFT ordT. exact re_is_inner_DualVec_ln_1p. Qed.
Theorem C06_re_is_inner_DualVec_sin : forall {F T : Type} {dnFT : DN F T} {ordT : DNOrd T}, forall x : DualVec T, DualVec_f_re (m_sin x) = fst (m_sin_cos (DualVec_f_re x)).
Proof. intros F T dnFT ordT. exact re_is_inner_DualVec_sin. Qed.
Theorem C06_re_is_inner_DualVec_cos : forall {F T : Type} {dnFT : DN F T} {ordT : DNOrd T}, forall x : DualVec T, DualVec_f_re (m_cos x) = snd (m_sin_cos (DualVec_f_re x)).
Proof. intros F T dnFT ordT. exact re_is_inner_DualVec_cos. Qed.
Theorem C06_re_is_inner_DualVec_asin : forall {F T : Type} {dnFT : DN F T} {ordT : DNOrd T}, forall x : DualVec T, DualVec_f_re (m_asin x) = m_asin (DualVec_f_re x).
Proof. intros F T dnFT ordT. exact re_is_inner_DualVec_asin. Qed.
Theorem C06_re_is_inner_DualVec_acos : forall {F T : Type} {dnFT : DN F T} {ordT : DNOrd T}, forall x : DualVec T, DualVec_f_re (m_acos x) = m_acos (DualVec_f_re x).
Proof. intros F T dnFT ordT. exact re_is_inner_DualVec_acos. Qed.
Theorem C06_re_is_inner_DualVec_atan : forall {F T : Type} {dnFT : DN F T} {ordT : DNOrd T}, forall x : DualVec T, DualVec_f_re (m_atan x) = m_atan (DualVec_f_re x).
Proof. intros F T dnFT ordT. exact re_is_inner_DualVec_atan. Qed.
Theorem C06_re_is_inner_DualVec_sinh : forall {F T : Type} {dnFT : DN F T} {ordT : DNOrd T}, forall x : DualVec T, DualVec_f_re (m_sinh x) = m_sinh (DualVec_f_re x).
Proof. intros F T dnFT ordT. exact re_is_inner_DualVec_sinh. Qed.
Theorem C06_re_is_inner_DualVec_cosh : forall {F T : Type} {dnFT : DN F T} {ordT : DNOrd T}, forall x : DualVec T, DualVec_f_re (m_cosh x) = m_cosh (DualVec_f_re x).
Proof. intros F T dnFT ordT. exact re_is_inner_DualVec_cosh. Qed.
Theorem C06_re_is_inner_DualVec_asinh : forall {F T : Type} {dnFT : DN F T} {ordT : DNOrd T}, forall x : DualVec T, DualVec_f_re (m_asinh x) = m_asinh (DualVec_f_re x).
Proof. intros F T dnFT ordT. exact re_is_inner_DualVec_asinh. Qed.
Theorem C06_re_is_inner_DualVec_acosh : forall {F T : Type} {dnFT : DN F T} {ordT : DNOrd T}, forall x : DualVec T, DualVec_f_re (m_acosh x) = m_acosh (DualVec_f_re x).
Proof. intros F T dnFT ordT. exact re_is_inner_DualVec_acosh. Qed.
Theorem C06_re_is_inner_DualVec_atanh : forall {F T : Type} {dnFT : DN F T} {ordT : DNOrd T}, forall x : DualVec T, DualVec_f_re (m_atanh x) = m_atanh (DualVec_f_re x).
Proof. intros F T dnFT ordT. exact re_is_inner_DualVec_atanh. Qed.
Theorem C06_re_only_DualVec_powi : forall {F T : Type} {dnFT : DN F T} {ordT : DNOrd T}, forall (n : Z) (x x' : DualVec T), DualVec_f_re x = DualVec_f_re x' -> DualVec_f_re (m_powi x n) = DualVec_f_re (m_powi x' n).
Proof. intros F T dnFT ordT. exact re_only_DualVec_powi. Qed.
Theorem C06_re_only_DualVec_powf : forall {F T : Type} {dnFT : DN F T} {ordT : DNOrd T}, forall (q : F) (x x' : DualVec T), DualVec_f_re x = DualVec_f_re x' -> DualVec_f_re (m_powf x q) = DualVec_f_re (m_powf x' q).
Proof. intros F T dnFT ordT. exact re_only_DualVec_powf. Qed.
Theorem C06_re_only_DualVec_log : forall {F T : Type} {dnFT : DN F T} {ordT : DNOrd T}, forall (q : F) (x x' : DualVec T), DualVec_f_re x = DualVec_f_re x' -> DualVec_f_re (m_log x q) = DualVec_f_re (m_log x' q).
Proof. intros F T dnFT ordT. exact re_only_DualVec_log. Qed.
Theorem C06_re_only_DualVec_add : forall {F T : Type} {dnFT : DN F T} {ordT : DNOrd T}, forall x x' y y' : DualVec T, DualVec_f_re x = DualVec_f_re x' -> DualVec_f_re y = DualVec_f_re y' -> DualVec_f_re (x + y) = DualVec_f_re (x' + y').
Proof. intros F T dnFT ordT. exact re_only_DualVec_add. Qed.
Theorem C06_re_only_DualVec_sub : forall {F T : Type} {dnFT : DN F T} {ordT : DNOrd T}, forall x x' y y' : DualVec T, DualVec_f_re x = DualVec_f_re x' -> DualVec_f_re y = DualVec_f_re y' -> DualVec_f_re (x - y) = DualVec_f_re (x' - y').
Proof. intros F T dnFT ordT. exact re_only_DualVec_sub. Qed.
Theorem C06_re_only_DualVec_mul : forall {F T : Type} {dnFT : DN F T} {ordT : DNOrd T}, forall x x' y y' : DualVec T, DualVec_f_re x = DualVec_f_re x' -> DualVec_f_re y = DualVec_f_re y' -> DualVec_f_re (x * y) = DualVec_f_re (x' * y').
Proof. intros F T dnFT ordT. exact re_only_DualVec_mul. Qed.
Theorem C06_re_only_DualVec_div : forall {F T : Type} {dnFT : DN F T} {ordT : DNOrd T}, forall x x' y y' : DualVec T, DualVec_f_re x = DualVec_f_re x' -> DualVec_f_re y = DualVec_f_re y' -> DualVec_f_re (x / y) = DualVec_f_re (x' / y').
Proof. intros F T dnFT ordT. exact re_only_DualVec_div. Qed.
Theorem C06_re_only_DualVec_powd : forall {F T : Type} {dnFT : DN F T} {ordT : DNOrd T}, forall x x' y y' : DualVec T, DualVec_f_re x = DualVec_f_re x' -> DualVec_f_re y = DualVec_f_re y' -> DualVec_f_re (m_powd x y) = DualVec_f_re (m_powd x' y').
Proof. intros F T dnFT ordT. exact re_only_DualVec_powd. Qed.
Theorem C06_re_only_DualVec_atan2 : forall {F T : Type} {dnFT : DN F T} {ordT : DNOrd T}, forall x x' y y' : DualVec T, DualVec_f_re x = DualVec_f_re x' -> DualVec_f_re y = DualVec_f_re y' -> DualVec_f_re (m_atan2 x y) = DualVec_f_re (m_atan2 x' y').
Proof. intros F T dnFT ordT. exact re_only_DualVec_atan2. Qed.
Theorem C06_re_only_DualVec_abs_sub : forall {F T : Type} {dnFT : DN F T} {ordT : DNOrd T}, forall x x' y y' : DualVec T, DualVec_f_re x = DualVec_f_re x' -> DualVec_f_re y = DualVec_f_re y' -> DualVec_f_re (m_abs_sub x y) = DualVec_f_re (m_abs_sub x' y').
Proof. intros F T dnFT ordT. exact re_only_DualVec_abs_sub. Qed.
Theorem C06_re_is_inner_DualVec_add : forall {F T : Type} {dnFT : DN F T} {ordT : DNOrd T}, forall x y : DualVec T, DualVec_f_re (x + y) = DualVec_f_re x + DualVec_f_re y.
Proof. intros F T dnFT ordT. exact re_is_inner_DualVec_add. Qed.
Theorem C06_re_is_inner_DualVec_sub : forall {F T : Type} {dnFT : DN F T} {ordT : DNOrd T}, forall x y : DualVec T, DualVec_f_re (x - y) = DualVec_f_re x - DualVec_f_re y.
Proof. intros F T dnFT ordT. exact re_is_inner_DualVec_sub. Qed.
Theorem C06_re_is_inner_DualVec_mul : forall {F T : Type} {dnFT : DN F T} {ordT : DNOrd T}, forall x y : DualVec T, DualVec_f_re (x * y) = DualVec_f_re x * DualVec_f_re y.
Proof. intros F T dnFT ordT. exact re_is_inner_DualVec_mul. Qed.
Theorem C06_re_is_inner_DualVec_neg : forall {F T : Type} {dnFT : DN F T} {ordT : DNOrd T}, forall x : DualVec T, DualVec_f_re (- x) = - (DualVec_f_re x).
Proof. intros F T dnFT ordT. exact re_is_inner_DualVec_neg. Qed.
Theorem C06_re_only_DualVec_mul_add : forall {F T : Type} {dnFT : DN F T} {ordT : DNOrd T}, forall x x' y y' z z' : DualVec T, DualVec_f_re x = DualVec_f_re x' -> DualVec_f_re y = DualVec_f_re y' -> DualVec_f_re z = DualVec_f_re z' -> DualVec_f_re (m_mul_add x y z) = DualVec_f_re (m_mul_add x' y' z').
Proof. intros F T dnFT ordT. exact re_only_DualVec_mul_add. Qed.
Theorem C06_pred_DualVec_is_zero : forall {F T : Type} {dnFT : DN F T} {ordT : DNOrd T}, forall x x' : DualVec T, DualVec_f_re x = DualVec_f_re x' -> m_is_zero x = m_is_zero x'.
Proof. intros F T dnFT ordT. exact pred_DualVec_is_zero. Qed.
Theorem C06_pred_DualVec_is_one : forall {F T : Type} {dnFT : DN F T} {ordT : DNOrd T}, forall x x' : DualVec T, DualVec_f_re x = DualVec_f_re x' -> m_is_one x = m_is_one x'.
Proof. intros F T dnFT ordT. exact pred_DualVec_is_one. Qed.
Theorem C06_pred_DualVec_is_positive : forall {F T : Type} {dnFT : DN F T} {ordT : DNOrd T}, forall x x' : DualVec T, DualVec_f_re x = DualVec_f_re x' -> m_is_positive x = m_is_positive x'.
Proof. intros F T dnFT ordT. exact pred_DualVec_is_positive. Qed.
Theorem C06_pred_DualVec_is_negative : forall {F T : Type} {dnFT : DN F T} {ordT : DNOrd T}, forall x x' : DualVec T, DualVec_f_re x = DualVec_f_re x' -> m_is_negative x = m_is_negative x'.
Proof. intros F T dnFT ordT. exact pred_DualVec_is_negative. Qed.
Theorem C06_re_only_DualVec_addF : forall {F T : Type} {dnFT : DN F T} {ordT : DNOrd T}, forall (q : F) (x x' : DualVec T), DualVec_f_re x = DualVec_f_re x' -> DualVec_f_re (x + q) = DualVec_f_re (x' + q).
Proof. intros F T dnFT ordT. exact re_only_DualVec_addF. Qed.
Theorem C06_re_only_DualVec_subF : forall {F T : Type} {dnFT : DN F T} {ordT : DNOrd T}, forall (q : F) (x x' : DualVec T), DualVec_f_re x = DualVec_f_re x' -> DualVec_f_re (x - q) = DualVec_f_re (x' - q).
Proof. intros F T dnFT ordT. exact re_only_DualVec_subF. Qed.
Theorem C06_re_only_DualVec_mulF : forall {F T : Type} {dnFT : DN F T} {ordT : DNOrd T}, forall (q : F) (x x' : DualVec T), DualVec_f_re x = DualVec_f_re x' -> DualVec_f_re (x * q) = DualVec_f_re (x' * q).
Proof. intros F T dnFT ordT. exact re_only_DualVec_mulF. Qed.
Theorem C06_re_only_DualVec_divF : forall {F T : Type} {dnFT : DN F T} {ordT : DNOrd T}, forall (q : F) (x x' : DualVec T), DualVec_f_re x = DualVec_f_re x' -> DualVec_f_re (x / q) = DualVec_f_re (x' / q).
Proof. intros F T dnFT ordT. exact re_only_DualVec_divF. Qed.
Theorem C06_re_only_Dual2Vec_recip : forall {F T : Type} {dnFT : DN F T} {ordT : DNOrd T}, forall x x' : Dual2Vec T, Dual2Vec_f_re x = Dual2Vec_f_re x' -> Dual2Vec_f_re (m_recip x) = Dual2Vec_f_re (m_recip x').
Proof. intros F T dnFT ordT. exact re_only_Dual2Vec_recip. Qed.
Theorem C06_re_only_Dual2Vec_sqrt : forall {F T : Type} {dnFT : DN F T} {ordT : DNOrd T}, forall x x' : Dual2Vec T, Dual2Vec_f_re x = Dual2Vec_f_re x' -> Dual2Vec_f_re (m_sqrt x) = Dual2Vec_f_re (m_sqrt x').
Proof. intros F T dnFT ordT. exact re_only_Dual2Vec_sqrt. Qed.
Theorem C06_re_only_Dual2Vec_cbrt : forall {F T : Type} {dnFT : DN F T} {ordT : DNOrd T}, forall x x' : Dual2Vec T, Dual2Vec_f_re x = Dual2Vec_f_re x' -> Dual2Vec_f_re (m_cbrt x) = Dual2Vec_f_re (m_cbrt x').
Proof. intros F T dnFT ordT. exact re_only_Dual2Vec_cbrt. Qed.
Theorem C06_re_only_Dual2Vec_exp : forall {F T : Type} {dnFT : DN F T} {ordT : DNOrd T}, forall x x' : Dual2Vec T, Dual2Vec_f_re x = Dual2Vec_f_re x' -> Dual2Vec_f_re (m_exp x) = Dual2Vec_f_re (m_exp x').
Proof. intros F T dnFT ordT. exact re_only_Dual2Vec_exp. Qed.
Theorem C06_re_only_Dual2Vec_exp2 : forall {F T : Type} {dnFT : DN F T} {ordT : DNOrd T}, forall x x' : Dual2Vec T, Dual2Vec_f_re x = Dual2Vec_f_re x' -> Dual2Vec_f_re (m_exp2 x) = Dual2Vec_f_re (m_exp2 x').
Proof. intros F T dnFT ordT. exact re_only_Dual2Vec_exp2. Qed.
Theorem C06_re_only_Dual2Vec_exp_m1 : forall {F T : Type} {dnFT : DN F T} {ordT : DNOrd T}, forall x x' : Dual2Vec T, Dual2Vec_f_re x = Dual2Vec_f_re x' -> Dual2Vec_f_re (m_exp_m1 x) = Dual2Vec_f_re (m_exp_m1 x').
Proof. intros F T dnFT ordT. exact re_only_Dual2Vec_exp_m1. Qed.
Theorem C06_re_only_Dual2Vec_ln : forall {F T : Type} {dnFT : DN F T} {ordT : DNOrd T}, forall x x' : Dual2Vec T, Dual2Vec_f_re x = Dual2Vec_f_re x' -> Dual2Vec_f_re (m_ln x) = Dual2Vec_f_re (m_ln x').
Proof. intros F T dnFT ordT. exact re_only_Dual2Vec_ln. Qed.
Theorem C06_re_only_Dual2Vec_log2 : forall {F T : Type} {dnFT : DN F T} {ordT : DNOrd T}, forall x x' : Dual2Vec T, Dual2Vec_f_re x = Dual2Vec_f_re x' -> Dual2Vec_f_re (m_log2 x) = Dual2Vec_f_re (m_log2 x').
Proof. intros F T dnFT ordT. exact re_only_Dual2Vec_log2. Qed.
Theorem C06_re_only_Dual2Vec_log10 : forall {F T : Type} {dnFT : DN F T} {ordT : DNOrd T}, forall x x' : Dual2Vec T, Dual2Vec_f_re x = Dual2Vec_f_re x' -> Dual2Vec_f_re (m_log10 x) = Dual2Vec_f_re (m_log10 x').
Proof. intros F T dnFT ordT. exact re_only_Dual2Vec_log10. Qed.
Theorem C06_re_only_Dual2Vec_ln_1p : forall {F T : Type} {dnFT : DN F T} {ordT : DNOrd T}, forall x x' : Dual2Vec T, Dual2Vec_f_re x = Dual2Vec_f_re x' -> Dual2Vec_f_re (m_ln_1p x) = Dual2Vec_f_re (m_ln_1p x').
Proof. intros F T dnFT ordT. exact re_only_Dual2Vec_ln_1p. Qed.
Theorem C06_re_only_Dual2Vec_sin : forall {F T : Type} {dnFT : DN F T} {ordT : DNOrd T}, forall x x' : Dual2Vec T, Dual2Vec_f_re x = Dual2Vec_f_re x' -> Dual2Vec_f_re (m_sin x) = Dual2Vec_f_re (m_sin x').
Proof. intros F T dnFT ordT. exact re_only_Dual2Vec_sin. Qed.
Theorem C06_re_only_Dual2Vec_cos : forall {F T : Type} {dnFT : DN F T} {ordT : DNOrd T}, forall x x' : Dual2Vec T, Dual2Vec_f_re x = Dual2Vec_f_re x' -> Dual2Vec_f_re (m_cos x) = Dual2Vec_f_re (m_cos x').
Proof. intros F T dnFT ordT. exact re_only_Dual2Vec_cos. Qed.
Theorem C06_re_only_Dual2Vec_asin : forall {F T : Type} {dnFT : DN F T} {ordT : DNOrd T}, forall x x' : Dual2Vec T, Dual2Vec_f_re x = Dual2Vec_f_re x' -> Dual2Vec_f_re (m_asin x) = Dual2Vec_f_re (m_asin x').
Proof. intros F T dnFT ordT. exact re_only_Dual2Vec_asin. Qed.
Theorem C06_re_only_Dual2Vec_acos : forall {F T : Type} {dnFT : DN F T} {ordT : DNOrd T}, forall x x' : Dual2Vec T, Dual2Vec_f_re x = Dual2Vec_f_re x' -> Dual2Vec_f_re (m_acos x) = Dual2Vec_f_re (m_acos x').
Proof. intros F T dnFT ordT. exact re_only_Dual2Vec_acos. Qed.
Theorem C06_re_only_Dual2Vec_atan : forall {F T : Type} {dnFT : DN F T} {ordT : DNOrd T}, forall x x' : Dual2Vec T, Dual2Vec_f_re x = Dual2Vec_f_re x' -> Dual2Vec_f_re (m_atan x) = Dual2Vec_f_re (m_atan x').
Proof. intros F T dnFT ordT. exact re_only_Dual2Vec_atan. Qed.
Theorem C06_re_only_Dual2Vec_sinh : forall {F T : Type} {dnFT : DN F T} {ordT : DNOrd T}, forall x x' : Dual2Vec T, Dual2Vec_f_re x = Dual2Vec_f_re x' -> Dual2Vec_f_re (m_sinh x) = Dual2Vec_f_re (m_sinh x').
Proof. intros F T dnFT ordT. exact re_only_Dual2Vec_sinh. Qed.
Theorem C06_re_only_Dual2Vec_cosh : forall {F T : Type} {dnFT : DN F T} {ordT : DNOrd T}, forall x x' : Dual2Vec T, Dual2Vec_f_re x = Dual2Vec_f_re x' -> Dual2Vec_f_re (m_cosh x) = Dual2Vec_f_re (m_cosh x').
Proof. intros F T dnFT ordT. exact re_only_Dual2Vec_cosh. Qed.
Theorem C06_re_only_Dual2Vec_asinh : forall {F T : Type} {dnFT : DN F T} {ordT : DNOrd T}, forall x x' : Dual2Vec T, Dual2Vec_f_re x = Dual2Vec_f_re x' -> Dual2Vec_f_re (m_asinh x) = Dual2Vec_f_re (m_asinh x').
Proof. intros F T dnFT ordT. exact re_only_Dual2Vec_asinh. Qed.
Theorem C06_re_only_Dual2Vec_acosh : forall {F T : Type} {dnFT : DN F T} {ordT : DNOrd T}, forall x x' : Dual2Vec T, Dual2Vec_f_re x = Dual2Vec_f_re x' -> Dual2Vec_f_re (m_acosh x) = Dual2Vec_f_re (m_acosh x').
Proof. intros F T dnFT ordT. exact re_only_Dual2Vec_acosh. Qed.
Theorem C06_re_only_Dual2Vec_atanh : forall {F T : Type} {dnFT : DN F T} {ordT : DNOrd T}, forall x x' : Dual2Vec T, Dual2Vec_f_re x = Dual2Vec_f_re x' -> Dual2Vec_f_re (m_atanh x) = Dual2Vec_f_re (m_atanh x').
Proof. intros F T dnFT ordT. exact re_only_Dual2Vec_atanh. Qed.
Theorem C06_re_only_Dual2Vec_tan : forall {F T : Type} {dnFT : DN F T} {ordT : DNOrd T}, forall x x' : Dual2Vec T, Dual2Vec_f_re x = Dual2Vec_f_re x' -> Dual2Vec_f_re (m_tan x) = Dual2Vec_f_re (m_tan x').
Proof. intros F T dnFT ordT. exact re_only_Dual2Vec_tan. Qed.
Theorem C06_re_only_Dual2Vec_tanh : forall {F T : Type} {dnFT : DN F T} {ordT : DNOrd T}, forall x x' : Dual2Vec T, Dual2Vec_f_re x = Dual2Vec_f_re x' -> Dual2Vec_f_re (m_tanh x) = Dual2Vec_f_re (m_tanh x').
Proof. intros F T dnFT ordT. exact re_only_Dual2Vec_tanh. Qed.
Theorem C06_re_only_Dual2Vec_sph_j0 : forall {F T : Type} {dnFT : DN F T} {ordT : DNOrd T}, forall x x' : Dual2Vec T, Dual2Vec_f_re x = Dual2Vec_f_re x' -> Dual2Vec_f_re (m_sph_j0 x) = Dual2Vec_f_re (m_sph_j0 x').
Proof. intros F T dnFT ordT. exact re_only_Dual2Vec_sph_j0. Qed.
Theorem C06_re_only_Dual2Vec_sph_j1 : forall {F T : Type} {dnFT : DN F T} {ordT : DNOrd T}, forall x x' : Dual2Vec T, Dual2Vec_f_re x = Dual2Vec_f_re x' -> Dual2Vec_f_re (m_sph_j1 x) = Dual2Vec_f_re (m_sph_j1 x').
Proof. intros F T dnFT ordT. exact re_only_Dual2Vec_sph_j1. Qed.
Theorem C06_re_only_Dual2Vec_sph_j2 : forall {F T : Type} {dnFT : DN F T} {ordT : DNOrd T}, forall x x' : Dual2Vec T, Dual2Vec_f_re x = Dual2Vec_f_re x' -> Dual2Vec_f_re (m_sph_j2 x) = Dual2Vec_f_re (m_sph_j2 x').
Proof. intros F T dnFT ordT. exact re_only_Dual2Vec_sph_j2. Qed.
Theorem C06_re_only_Dual2Vec_abs : forall {F T : Type} {dnFT : DN F T} {ordT : DNOrd T}, forall x x' : Dual2Vec T, Dual2Vec_f_re x = Dual2Vec_f_re x' -> Dual2Vec_f_re (m_abs x) = Dual2Vec_f_re (m_abs x').
Proof. intros F T dnFT ordT. exact re_only_Dual2Vec_abs. Qed.
Theorem C06_re_only_Dual2Vec_signum : forall {F T : Type} {dnFT : DN F T} {ordT : DNOrd T}, forall x x' : Dual2Vec T, Dual2Vec_f_re x = Dual2Vec_f_re x' -> Dual2Vec_f_re (m_signum x) = Dual2Vec_f_re (m_signum x').
Proof. intros F T dnFT ordT. exact re_only_Dual2Vec_signum. Qed.
Theorem C06_re_only_Dual2Vec_inv : forall {F T : Type} {dnFT : DN F T} {ordT : DNOrd T}, forall x x' : Dual2Vec T, Dual2Vec_f_re x = Dual2Vec_f_re x' -> Dual2Vec_f_re (m_inv x) = Dual2Vec_f_re (m_inv x').
Proof. intros F T dnFT ordT. exact re_only_Dual2Vec_inv. Qed.
Theorem C06_re_is_inner_Dual2Vec_recip : forall {F T : Type} {dnFT : DN F T} {ordT : DNOrd T}, forall x : Dual2Vec T, Dual2Vec_f_re (m_recip x) = m_recip (Dual2Vec_f_re x).
Proof. intros F T dnFT ordT. exact re_is_inner_Dual2Vec_recip. Qed.
Theorem C06_re_is_inner_Dual2Vec_sqrt : forall {F T : Type} {dnFT : DN F T} {ordT : DNOrd T}, forall x : Dual2Vec T, Dual2Vec_f_re (m_sqrt x) = m_sqrt (Dual2Vec_f_re x).
Proof. intros F T dnFT ordT. exact re_is_inner_Dual2Vec_sqrt. Qed.
Theorem C06_re_is_inner_Dual2Vec_cbrt : forall {F T : Type} {dnFT : DN F T} {ordT : DNOrd T}, forall x : Dual2Vec T, Dual2Vec_f_re (m_cbrt x) = m_cbrt (Dual2Vec_f_re x).
Proof. intros F T dnFT ordT. exact re_is_inner_Dual2Vec_cbrt. Qed.
Theorem C06_re_is_inner_Dual2Vec_exp : forall {F T : Type} {dnFT : DN F T} {ordT : DNOrd T}, forall x : Dual2Vec T, Dual2Vec_f_re (m_exp x) = m_exp (Dual2Vec_f_re x).
Proof. intros F T dnFT ordT. exact re_is_inner_Dual2Vec_exp. Qed.
Theorem C06_re_is_inner_Dual2Vec_exp2 : forall {F T : Type} {dnFT : DN F T} {ordT : DNOrd T}, forall x : Dual2Vec T, Dual2Vec_f_re (m_exp2 x) = m_exp2 (Dual2Vec_f_re x).
Proof. intros F T dnFT ordT. exact re_is_inner_Dual2Vec_exp2. Qed.
Theorem C06_re_is_inner_Dual2Vec_exp_m1 : forall {F T : Type} {dnFT : DN F T} {ordT : DNOrd T}, forall x : Dual2Vec T, Dual2Vec_f_re (m_exp_m1 x) = m_exp_m1 (Dual2Vec_f_re x).
Proof. intros F T dnFT ordT. exact re_is_inner_Dual2Vec_exp_m1. Qed.
Theorem C06_re_is_inner_Dual2Vec_ln : forall {F T : Type} {dnFT : DN F T} {ordT : DNOrd T}, forall x : Dual2Vec T, Dual2Vec_f_re (m_ln x) = m_ln (Dual2Vec_f_re x).
Proof. intros F T dnFT ordT. exact re_is_inner_Dual2Vec_ln. Qed.
Theorem C06_re_is_inner_Dual2Vec_log2 : forall {F T : Type} {dnFT : DN F T} {ordT : DNOrd T}, forall x : Dual2Vec T, Dual2Vec_f_re (m_log2 x) = m_log2 (Dual2Vec_f_re x).
Proof. intros F T dnFT ordT. exact re_is_inner_Dual2Vec_log2. Qed.
Theorem C06_re_is_inner_Dual2Vec_log10 : forall {F T : Type} {dnFT : DN F T} {ordT : DNOrd T}, forall x : Dual2Vec T, Dual2Vec_f_re (m_log10 x) = m_log10 (Dual2Vec_f_re x).
Proof. intros F T dnFT ordT. exact re_is_inner_Dual2Vec_log10. Qed.
Theorem C06_re_is_inner_Dual2Vec_ln_1p : forall {F T : Type} {dnFT : DN F T} {ordT : DNOrd T}, forall x : Dual2Vec T, Dual2Vec_f_re (m_ln_1p x) = m_ln_1p (Dual2Vec_f_re x).
Proof. intros F T dnFT ordT. exact re_is_inner_Dual2Vec_ln_1p. Qed.
Theorem C06_re_is_inner_Dual2Vec_sin : forall {F T : Type} {dnFT : DN F T} {ordT : DNOrd T}, forall x : Dual2Vec T, Dual2Vec_f_re (m_sin x) = fst (m_sin_cos (Dual2Vec_f_re x)).
Proof. intros F T dnFT ordT. exact re_is_inner_Dual2Vec_sin. Qed.
Theorem C06_re_is_inner_Dual2Vec_cos : forall {F T : Type} {dnFT : DN F T} {ordT : DNOrd T}, forall x : Dual2Vec T, Dual2Vec_f_re (m_cos x) = snd (m_sin_cos (Dual2Vec_f_re x)).
Proof. intros F T dnFT ordT. exact re_is_inner_Dual2Vec_cos. Qed.
Theorem C06_re_is_inner_Dual2Vec_asin : forall {F T : Type} {dnFT : DN F T} {ordT : DNOrd T}, forall x : Dual2Vec T, Dual2Vec_f_re (m_asin x) = m_asin (Dual2Vec_f_re x).
Proof. intros F T dnFT ordT. exact re_is_inner_Dual2Vec_asin. Qed.
Theorem C06_re_is_inner_Dual2Vec_acos : forall {F T : Type} {dnFT : DN F T} {ordT : DNOrd T}, forall x : Dual2Vec T, Dual2Vec_f_re (m_acos x) = m_acos (Dual2Vec_f_re x).
Proof. intros F T dnFT ordT. exact re_is_inner_Dual2Vec_acos. Qed.
Theorem C06_re_is_inner_Dual2Vec_atan : forall {F T : Type} {dnFT : DN F T} {ordT : DNOrd T}, forall x : Dual2Vec T, Dual2Vec_f_re (m_atan x) = m_atan (Dual2Vec_f_re x).
Proof. intros F T dnFT ordT. exact re_is_inner_Dual2Vec_atan. Qed.
Theorem C06_re_is_inner_Dual2Vec_sinh : forall {F T : Type} {dnFT : DN F T} {ordT : DNOrd T}, forall x : Dual2Vec T, Dual2Vec_f_re (m_sinh x) = m_sinh (Dual2Vec_f_re x).
Proof. intros F T dnFT ordT. exact re_is_inner_Dual2Vec_sinh. Qed.
Theorem C06_re_is_inner_Dual2Vec_cosh : forall {F T : Type} {dnFT : DN F T} {ordT : DNOrd T}, forall x : Dual2Vec T, Dual2Vec_f_re (m_cosh x) = m_cosh (Dual2Vec_f_re x).
Proof. intros F T dnFT ordT. exact re_is_inner_Dual2Vec_cosh. Qed.
Theorem C06_re_is_inner_Dual2Vec_asinh : forall {F T : Type} {dnFT : DN F T} {ordT : DNOrd T}, forall x : Dual2Vec T, Dual2Vec_f_re (m_asinh x) = m_asinh (Dual2Vec_f_re x).
Proof. intros F T dnFT ordT. exact re_is_inner_Dual2Vec_asinh. Qed.
Theorem C06_re_is_inner_Dual2Vec_acosh : forall {F T : Type} {dnFT : DN F T} {ordT : DNOrd T}, forall x : Dual2Vec T, Dual2Vec_f_re (m_acosh x) = m_acosh (Dual2Vec_f_re x).
Proof. intros F T dnFT ordT. exact re_is_inner_Dual2Vec_acosh. Qed.
Theorem C06_re_is_inner_Dual2Vec_atanh : forall {F T : Type} {dnFT : DN F T} {ordT : DNOrd T}, forall x : Dual2Vec T, Dual2Vec_f_re (m_atanh x) = m_atanh (Dual2Vec_f_re x).
Proof. intros F T dnFT ordT. exact re_is_inner_Dual2Vec_atanh. Qed.
Theorem C06_re_only_Dual2Vec_powi : forall {F T : Type} {dnFT : DN F T} {ordT : DNOrd T}, forall (n : Z) (x x' : Dual2Vec T), Dual2Vec_f_re x = Dual2Vec_f_re x' -> Dual2Vec_f_re (m_powi x n) = Dual2Vec_f_re (m_powi x' n).
Proof. intros F T dnFT ordT. exact re_only_Dual2Vec_powi. Qed.
Theorem C06_re_only_Dual2Vec_powf : forall {F T : Type} {dnFT : DN F T} {ordT : DNOrd T}, forall (q : F) (x x' : Dual2Vec T), Dual2Vec_f_re x = Dual2Vec_f_re x' -> Dual2Vec_f_re (m_powf x q) = Dual2Vec_f_re (m_powf x' q).
Proof. intros F T dnFT ordT. exact re_only_Dual2Vec_powf. Qed.
Theorem C06_re_only_Dual2Vec_log : forall {F T : Type} {dnFT : DN F T} {ordT : DNOrd T}, forall (q : F) (x x' : Dual2Vec T), Dual2Vec_f_re x = Dual2Vec_f_re x' -> Dual2Vec_f_re (m_log x q) = Dual2Vec_f_re (m_log x' q).
Proof. intros F T dnFT ordT. exact re_only_Dual2Vec_log. Qed.
Theorem C06_re_only_Dual2Vec_add : forall {F T : Type} {dnFT : DN F T} {ordT : DNOrd T}, forall x x' y y' : Dual2Vec T, Dual2Vec_f_re x = Dual2Vec_f_re x' -> Dual2Vec_f_re y = Dual2Vec_f_re y' -> Dual2Vec_f_re (x + y) = Dual2Vec_f_re (x' + y').
Proof. intros F T dnFT ordT. exact re_only_Dual2Vec_add. Qed.
Theorem C06_re_only_Dual2Vec_sub : forall {F T : Type} {dnFT : DN F T} {ordT : DNOrd T}, forall x x' y y' : Dual2Vec T, Dual2Vec_f_re x = Dual2Vec_f_re x' -> Dual2Vec_f_re y = Dual2Vec_f_re y' -> Dual2Vec_f_re (x - y) = Dual2Vec_f_re (x' - y').
Proof. intros F T dnFT ordT. exact re_only_Dual2Vec_sub. Qed.
Theorem C06_re_only_Dual2Vec_mul : forall {F T : Type} {dnFT : DN F T} {ordT : DNOrd T}, forall x x' y y' : Dual2Vec T, Dual2Vec_f_re x = Dual2Vec_f_re x' -> Dual2Vec_f_re y = Dual2Vec_f_re y' -> Dual2Vec_f_re (x * y) = Dual2Vec_f_re (x' * y').
Proof. intros F T dnFT ordT. exact re_only_Dual2Vec_mul. Qed.
Theorem C06_re_only_Dual2Vec_div : forall {F T : Type} {dnFT : DN F T} {ordT : DNOrd T}, forall x x' y y' : Dual2Vec T, Dual2Vec_f_re x = Dual2Vec_f_re x' -> Dual2Vec_f_re y = Dual2Vec_f_re y' -> Dual2Vec_f_re (x / y) = Dual2Vec_f_re (x' / y').
Proof. intros F T dnFT ordT. exact re_only_Dual2Vec_div. Qed.
Theorem C06_re_only_Dual2Vec_powd : forall {F T : Type} {dnFT : DN F T} {ordT : DNOrd T}, forall x x' y y' : Dual2Vec T, Dual2Vec_f_re x = Dual2Vec_f_re x' -> Dual2Vec_f_re y = Dual2Vec_f_re y' -> Dual2Vec_f_re (m_powd x y) = Dual2Vec_f_re (m_powd x' y').
Proof. intros F T dnFT ordT. exact re_only_Dual2Vec_powd. Qed.
Theorem C06_re_only_Dual2Vec_atan2 : forall {F T : Type} {dnFT : DN F T} {ordT : DNOrd T}, forall x x' y y' : Dual2Vec T, Dual2Vec_f_re x = Dual2Vec_f_re x' -> Dual2Vec_f_re y = Dual2Vec_f_re y' -> Dual2Vec_f_re (m_atan2 x y) = Dual2Vec_f_re (m_atan2 x' y').
Proof. intros F T dnFT ordT. exact re_only_Dual2Vec_atan2. Qed.
Theorem C06_re_only_Dual2Vec_abs_sub : forall {F T : Type} {dnFT : DN F T} {ordT : DNOrd T}, forall x x' y y' : Dual2Vec T, Dual2Vec_f_re x = Dual2Vec_f_re x' -> Dual2Vec_f_re y = Dual2Vec_f_re y' -> Dual2Vec_f_re (m_abs_sub x y) = Dual2Vec_f_re (m_abs_sub x' y').
Proof. intros F T dnFT ordT. exact re_only_Dual2Vec_abs_sub. Qed.
Theorem C06_re_is_inner_Dual2Vec_add : forall {F T : Type} {dnFT : DN F T} {ordT : DNOrd T}, forall x y : Dual2Vec T, Dual2Vec_f_re (x + y) = Dual2Vec_f_re x + Dual2Vec_f_re y.
Proof. intros F T dnFT ordT. exact re_is_inner_Dual2Vec_add. Qed.
Theorem C06_re_is_inner_Dual2Vec_sub : forall {F T : Type} {dnFT : DN F T} {ordT : DNOrd T}, forall x y : Dual2Vec T, Dual2Vec_f_re (x - y) = Dual2Vec_f_re x - Dual2Vec_f_re y.
Proof. intros F T dnFT ordT. exact re_is_inner_Dual2Vec_sub. Qed.
Theorem C06_re_is_inner_Dual2Vec_mul : forall {F T : Type} {dnFT : DN F T} {ordT : DNOrd T}, forall x y : Dual2Vec T, Dual2Vec_f_re (x * y) = Dual2Vec_f_re x * Dual2Vec_f_re y.
Proof. intros F T dnFT ordT. exact re_is_inner_Dual2Vec_mul. Qed.
Theorem C06_re_is_inner_Dual2Vec_neg : forall {F T : Type} {dnFT : DN F T} {ordT : DNOrd T}, forall x : Dual2Vec T, Dual2Vec_f_re (- x) = - (Dual2Vec_f_re x).
Proof. intros F T dnFT ordT. exact re_is_inner_Dual2Vec_neg. Qed.
Theorem C06_re_only_Dual2Vec_mul_add : forall {F T : Type} {dnFT : DN F T} {ordT : DNOrd T}, forall x x' y y' z z' : Dual2Vec T, Dual2Vec_f_re x = Dual2Vec_f_re x' -> Dual2Vec_f_re y = Dual2Vec_f_re y' -> Dual2Vec_f_re z = Dual2Vec_f_re z' -> Dual2Vec_f_re (m_mul_add x y z) = Dual2Vec_f_re (m_mul_add x' y' z').
Proof. intros F T dnFT ordT. exact re_only_Dual2Vec_mul_add. Qed.
Theorem C06_pred_Dual2Vec_is_zero : forall {F T : Type} {dnFT : DN F T} {ordT : DNOrd T}, forall x x' : Dual2Vec T, Dual2Vec_f_re x = Dual2Vec_f_re x' -> m_is_zero x = m_is_zero x'.
Proof. intros F T dnFT ordT. exact pred_Dual2Vec_is_zero. Qed.
Theorem C06_pred_Dual2Vec_is_one : forall {F T : Type} {dnFT : DN F T} {ordT : DNOrd T}, forall x x' : Dual2Vec T, Dual2Vec_f_re x = Dual2Vec_f_re x' -> m_is_one x = m_is_one x'.
Proof. intros F T dnFT ordT. exact pred_Dual2Vec_is_one. Qed.
Theorem C06_pred_Dual2Vec_is_positive : forall {F T : Type} {dnFT : DN F T} {ordT : DNOrd T}, forall x x' : Dual2Vec T, Dual2Vec_f_re x = Dual2Vec_f_re x' -> m_is_positive x = m_is_positive x'.
Proof. intros F T dnFT ordT. exact pred_Dual2Vec_is_positive. Qed.
Theorem C06_pred_Dual2Vec_is_negative : forall {F T : Type} {dnFT : DN F T} {ordT : DNOrd T}, forall x x' : Dual2Vec T, Dual2Vec_f_re x = Dual2Vec_f_re x' -> m_is_negative x = m_is_negative x'.
Proof. intros F T dnFT ordT. exact pred_Dual2Vec_is_negative. Qed.
Theorem C06_re_only_Dual2Vec_addF : forall {F T : Type} {dnFT : DN F T} {ordT : DNOrd T}, forall (q : F) (x x' : Dual2Vec T), Dual2Vec_f_re x = Dual2Vec_f_re x' -> Dual2Vec_f_re (x + q) = Dual2Vec_f_re (x' + q).
Proof. intros F T dnFT ordT. exact re_only_Dual2Vec_addF. Qed.
Theorem C06_re_only_Dual2Vec_subF : forall {F T : Type} {dnFT : DN F T} {ordT : DNOrd T}, forall (q : F) (x x' : Dual2Vec T), Dual2Vec_f_re x = Dual2Vec_f_re x' -> Dual2Vec_f_re (x - q) = Dual2Vec_f_re (x' - q).
Proof. intros F T dnFT ordT. exact re_only_Dual2Vec_subF. Qed.
Theorem C06_re_only_Dual2Vec_mulF : forall {F T : Type} {dnFT : DN F T} {ordT : DNOrd T}, forall (q : F) (x x' : Dual2Vec T), Dual2Vec_f_re x = Dual2Vec_f_re x' -> Dual2Vec_f_re (x * q) = Dual2Vec_f_re (x' * q).
Proof. intros F T dnFT ordT. exact re_only_Dual2Vec_mulF. Qed.
Theorem C06_re_only_Dual2Vec_divF : forall {F T : Type} {dnFT : DN F T} {ordT : DNOrd T}, forall (q : F) (x x' : Dual2Vec T), Dual2Vec_f_re x = Dual2Vec_f_re x' -> Dual2Vec_f_re (x / q) = Dual2Vec_f_re (x' / q).
Proof. intros F T dnFT ordT. exact re_only_Dual2Vec_divF. Qed.
Theorem C06_re_only_HyperDualVec_recip : forall {F T : Type} {dnFT : DN F T} {ordT : DNOrd T}, forall x x' : HyperDualVec T, HyperDualVec_f_re x = HyperDualVec_f_re x' -> HyperDualVec_f_re (m_recip x) = HyperDualVec_f_re (m_recip x').
Proof. intros F T dnFT ordT. exact re_only_HyperDualVec_recip. Qed.
Theorem C06_re_only_HyperDualVec_sqrt : forall {F T : Type} {dnFT : DN F T} {ordT : DNOrd T}, forall x x' : HyperDualVec T, HyperDualVec_f_re x = HyperDualVec_f_re x' -> HyperDualVec_f_re (m_sqrt x) = HyperDualVec_f_re (m_sqrt x').
Proof. intros F T dnFT ordT. exact re_only_HyperDualVec_sqrt. Qed.
Theorem C06_re_only_HyperDualVec_cbrt : forall {F T : Type} {dnFT : DN F T} {ordT : DNOrd T}, forall x x' : HyperDualVec T, HyperDualVec_f_re x = HyperDualVec_f_re x' -> HyperDualVec_f_re (m_cbrt x) = HyperDualVec_f_re (m_cbrt x').
Proof. intros F T dnFT ordT. exact re_only_HyperDualVec_cbrt. Qed.
Theorem C06_re_only_HyperDualVec_exp : forall {F T : Type} {dnFT : DN F T} {ordT : DNOrd T}, forall x x' : HyperDualVec T, HyperDualVec_f_re x = HyperDualVec_f_re x' -> HyperDualVec_f_re (m_exp x) = HyperDualVec_f_re (m_exp x').
Proof. intros F T dnFT ordT. exact re_only_HyperDualVec_exp. Qed.
Theorem C06_re_only_HyperDualVec_exp2 : forall {F T : Type} {dnFT : DN F T} {ordT : DNOrd T}, forall x x' : HyperDualVec T, HyperDualVec_f_re x = HyperDualVec_f_re x' -> HyperDualVec_f_re (m_exp2 x) = HyperDualVec_f_re (m_exp2 x').
Proof. intros F T dnFT ordT. exact re_only_HyperDualVec_exp2. Qed.
Theorem C06_re_only_HyperDualVec_exp_m1 : forall {F T : Type} {dnFT : DN F T} {ordT : DNOrd T}, forall x x' : HyperDualVec T, HyperDualVec_f_re x = HyperDualVec_f_re x' -> HyperDualVec_f_re (m_exp_m1 x) = HyperDualVec_f_re (m_exp_m1 x').
Proof. intros F T dnFT ordT. exact re_only_HyperDualVec_exp_m1. Qed.
Theorem C06_re_only_HyperDualVec_ln : forall {F T : Type} {dnFT : DN F T} {ordT : DNOrd T}, forall x x' : HyperDualVec T, HyperDualVec_f_re x = HyperDualVec_f_re x' -> HyperDualVec_f_re (m_ln x) = HyperDualVec_f_re (m_ln x').
Proof. intros F T dnFT ordT. exact re_only_HyperDualVec_ln. Qed.
Theorem C06_re_only_HyperDualVec_log2 : forall {F T : Type} {dnFT : DN F T} {ordT : DNOrd T}, forall x x' : HyperDualVec T, HyperDualVec_f_re x = HyperDualVec_f_re x' -> HyperDualVec_f_re (m_log2 x) = HyperDualVec_f_re (m_log2 x').
Proof. intros F T dnFT ordT. exact re_only_HyperDualVec_log2. Qed.
Theorem C06_re_only_HyperDualVec_log10 : forall {F T : Type} {dnFT : DN F T} {ordT : DNOrd T}, forall x x' : HyperDualVec T, HyperDualVec_f_re x = HyperDualVec_f_re x' -> HyperDualVec_f_re (m_log10 x) = HyperDualVec_f_re (m_log10 x').
Proof. intros F T dnFT ordT. exact re_only_HyperDualVec_log10. Qed.
Theorem C06_re_only_HyperDualVec_ln_1p : forall {F T : Type} {dnFT : DN F T} {ordT : DNOrd T}, forall x x' : HyperDualVec T, HyperDualVec_f_re x = HyperDualVec_f_re x' -> HyperDualVec_f_re (m_ln_1p x) = HyperDualVec_f_re (m_ln_1p x').
Proof. intros F T dnFT ordT. exact re_only_HyperDualVec_ln_1p. Qed.
Theorem C06_re_only_HyperDualVec_sin : forall {F T : Type} {dnFT : DN F T} {ordT : DNOrd T}, forall x x' : HyperDualVec T, HyperDualVec_f_re x = HyperDualVec_f_re x' -> HyperDualVec_f_re (m_sin x) = HyperDualVec_f_re (m_sin x').
Proof. intros F T dnFT ordT. exact re_only_HyperDualVec_sin. Qed.
Theorem C06_re_only_HyperDualVec_cos : forall {F T : Type} {dnFT : DN F T} {ordT : DNOrd T}, forall x x' : HyperDualVec T, HyperDualVec_f_re x = HyperDualVec_f_re x' -> HyperDualVec_f_re (m_cos x) = HyperDualVec_f_re (m_cos x').
Proof. intros F T dnFT ordT. exact re_only_HyperDualVec_cos. Qed.
Theorem C06_re_only_HyperDualVec_asin : forall {F T : Type} {dnFT : DN F T} {ordT : DNOrd T}, forall x x' : HyperDualVec T, HyperDualVec_f_re x = HyperDualVec_f_re x' -> HyperDualVec_f_re (m_asin x) = HyperDualVec_f_re (m_asin x').
Proof. intros F T dnFT ordT. exact re_only_HyperDualVec_asin. Qed.
Theorem C06_re_only_HyperDualVec_acos : forall {F T : Type} {dnFT : DN F T} {ordT : DNOrd T}, forall x x' : HyperDualVec T, HyperDualVec_f_re x = HyperDualVec_f_re x' -> HyperDualVec_f_re (m_acos x) = HyperDualVec_f_re (m_acos x').
Proof. intros F T dnFT ordT. exact re_only_HyperDualVec_acos. Qed.
Theorem C06_re_only_HyperDualVec_atan : forall {F T : Type} {dnFT : DN F T} {ordT : DNOrd T}, forall x x' : HyperDualVec T, HyperDualVec_f_re x = HyperDualVec_f_re x' -> HyperDualVec_f_re (m_atan x) = HyperDualVec_f_re (m_atan x').
Proof. intros F T dnFT ordT. exact re_only_HyperDualVec_atan. Qed.
Theorem C06_re_only_HyperDualVec_sinh : forall {F T : Type} {dnFT : DN F T} {ordT : DNOrd T}, forall x x' : HyperDualVec T, HyperDualVec_f_re x = HyperDualVec_f_re x' -> HyperDualVec_f_re (m_sinh x) = HyperDualVec_f_re (m_sinh x').
Proof. intros F T dnFT ordT. exact re_only_HyperDualVec_sinh. Qed.
Theorem C06_re_only_HyperDualVec_cosh : forall {F T : Type} {dnFT : DN F T} {ordT : DNOrd T}, forall x x' : HyperDualVec T, HyperDualVec_f_re x = HyperDualVec_f_re x' -> HyperDualVec_f_re (m_cosh x) = HyperDualVec_f_re (m_cosh x').
Proof. intros F T dnFT ordT. exact re_only_HyperDualVec_cosh. Qed.
Theorem C06_re_only_HyperDualVec_asinh : forall {F T : Type} {dnFT : DN F T} {ordT : DNOrd T}, forall x x' : HyperDualVec T, HyperDualVec_f_re x = HyperDualVec_f_re x' -> HyperDualVec_f_re (m_asinh x) = HyperDualVec_f_re (m_asinh x').
Proof. intros F T dnFT ordT. exact re_only_HyperDualVec_asinh. Qed.
Theorem C06_re_only_HyperDualVec_acosh : forall {F T : Type} {dnFT : DN F T} {ordT : DNOrd T}, forall x x' : HyperDualVec T, HyperDualVec_f_re x = HyperDualVec_f_re x' -> HyperDualVec_f_re (m_acosh x) = HyperDualVec_f_re (m_acosh x').
Proof. intros F T dnFT ordT. exact re_only_HyperDualVec_acosh. Qed.
Theorem C06_re_only_HyperDualVec_atanh : forall {F T : Type} {dnFT : DN F T} {ordT : DNOrd T}, forall x x' : HyperDualVec T, HyperDualVec_f_re x = HyperDualVec_f_re x' -> HyperDualVec_f_re (m_atanh x) = HyperDualVec_f_re (m_atanh x').
Proof. intros F T dnFT ordT. exact re_only_HyperDualVec_atanh. Qed.
Theorem C06_re_only_HyperDualVec_tan : forall {F T : Type} {dnFT : DN F T} {ordT : DNOrd T}, forall x x' : HyperDualVec T, HyperDualVec_f_re x = HyperDualVec_f_re x' -> HyperDualVec_f_re (m_tan x) = HyperDualVec_f_re (m_tan x').
Proof. intros F T dnFT ordT. exact re_only_HyperDualVec_tan. Qed.
Theorem C06_re_only_HyperDualVec_tanh : forall {F T : Type} {dnFT : DN F T} {ordT : DNOrd T}, forall x x' : HyperDualVec T, HyperDualVec_f_re x = HyperDualVec_f_re x' -> HyperDualVec_f_re (m_tanh x) = HyperDualVec_f_re (m_tanh x').
Proof. intros F T dnFT ordT. exact re_only_HyperDualVec_tanh. Qed.
Theorem C06_re_only_HyperDualVec_sph_j0 : forall {F T : Type} {dnFT : DN F T} {ordT : DNOrd T}, forall x x' : HyperDualVec T, HyperDualVec_f_re x = HyperDualVec_f_re x' -> HyperDualVec_f_re (m_sph_j0 x) = HyperDualVec_f_re (m_sph_j0 x').
Proof. intros F T dnFT ordT. exact re_only_HyperDualVec_sph_j0. Qed.
Theorem C06_re_only_HyperDualVec_sph_j1 : forall {F T : Type} {dnFT : DN F T} {ordT : DNOrd T}, forall x x' : HyperDualVec T, HyperDualVec_f_re x = HyperDualVec_f_re x' -> HyperDualVec_f_re (m_sph_j1 x) = HyperDualVec_f_re (m_sph_j1 x').
Proof. intros F T dnFT ordT. exact re_only_HyperDualVec_sph_j1. Qed.
Theorem C06_re_only_HyperDualVec_sph_j2 : forall {F T : Type} {dnFT : DN F T} {ordT : DNOrd T}, forall x x' : HyperDualVec T, HyperDualVec_f_re x = HyperDualVec_f_re x' -> HyperDualVec_f_re (m_sph_j2 x) = HyperDualVec_f_re (m_sph_j2 x').
Proof. intros F T dnFT ordT. exact re_only_HyperDualVec_sph_j2. Qed.
Theorem C06_re_only_HyperDualVec_abs : forall {F T : Type} {dnFT : DN F T} {ordT : DNOrd T}, forall x x' : HyperDualVec T, HyperDualVec_f_re x = HyperDualVec_f_re x' -> HyperDualVec_f_re (m_abs x) = HyperDualVec_f_re (m_abs x').
Proof. intros F T dnFT ordT. exact re_only_HyperDualVec_abs. Qed.
Theorem C06_re_only_HyperDualVec_signum : forall {F T : Type} {dnFT : DN F T} {ordT : DNOrd T}, forall x x' : HyperDualVec T, HyperDualVec_f_re x = HyperDualVec_f_re x' -> HyperDualVec_f_re (m_signum x) = HyperDualVec_f_re (m_signum x').
Proof. intros F T dnFT ordT. exact re_only_HyperDualVec_signum. Qed.
Theorem C06_re_only_HyperDualVec_inv : forall {F T : Type} {dnFT : DN F T} {ordT : DNOrd T}, forall x x' : HyperDualVec T, HyperDualVec_f_re x = HyperDualVec_f_re x' -> HyperDualVec_f_re (m_inv x) = HyperDualVec_f_re (m_inv x').
Proof. intros F T dnFT ordT. exact re_only_HyperDualVec_inv. Qed.
Theorem C06_re_is_inner_HyperDualVec_recip : forall {F T : Type} {dnFT : DN F T} {ordT : DNOrd T}, forall x : HyperDualVec T, HyperDualVec_f_re (m_recip x) = m_recip (HyperDualVec_f_re x).
Proof. intros F T dnFT ordT. exact re_is_inner_HyperDualVec_recip. Qed.
Theorem C06_re_is_inner_HyperDualVec_sqrt : forall {F T : Type} {dnFT : DN F T} {ordT : DNOrd T}, forall x : HyperDualVec T, HyperDualVec_f_re (m_sqrt x) = m_sqrt (HyperDualVec_f_re x).
Proof. intros F T dnFT ordT. exact re_is_inner_HyperDualVec_sqrt. Qed.
Theorem C06_re_is_inner_HyperDualVec_cbrt : forall {F T : Type} {dnFT : DN F T} {ordT : DNOrd T}, forall x : HyperDualVec T, HyperDualVec_f_re (m_cbrt x) = m_cbrt (HyperDualVec_f_re x).
Proof. intros F T dnFT ordT. exact re_is_inner_HyperDualVec_cbrt. Qed.
Theorem C06_re_is_inner_HyperDualVec_exp : forall {F T : Type} {dnFT : DN F T} {ordT : DNOrd T}, forall x : HyperDualVec T, HyperDualVec_f_re (m_exp x) = m_exp (HyperDualVec_f_re x).
Proof. intros F T dnFT ordT. exact re_is_inner_HyperDualVec_exp. Qed.
Theorem C06_re_is_inner_HyperDualVec_exp2 : forall {F T : Type} {dnFT : DN F T} {ordT : DNOrd T}, forall x : HyperDualVec T, HyperDualVec_f_re (m_exp2 x) = m_exp2 (HyperDualVec_f_re x).
Proof. intros F T dnFT ordT. exact re_is_inner_HyperDualVec_exp2. Qed.
Theorem C06_re_is_inner_HyperDualVec_exp_m1 : forall {F T : Type} {dnFT : DN F T} {ordT : DNOrd T}, forall x : HyperDualVec T, HyperDualVec_f_re (m_exp_m1 x) = m_exp_m1 (HyperDualVec_f_re x).
Proof. intros F T dnFT ordT. exact re_is_inner_HyperDualVec_exp_m1. Qed.
Theorem C06_re_is_inner_HyperDualVec_ln : forall {F T : Type} {dnFT : DN F T} {ordT : DNOrd T}, forall x : HyperDualVec T, HyperDualVec_f_re (m_ln x) = m_ln (HyperDualVec_f_re x).
Proof. intros F T dnFT ordT. exact re_is_inner_HyperDualVec_ln. Qed.
Theorem C06_re_is_inner_HyperDualVec_log2 : forall {F T : Type} {dnFT : DN F T} {ordT : DNOrd T}, forall x : HyperDualVec T, HyperDualVec_f_re (m_log2 x) = m_log2 (HyperDualVec_f_re x).
Proof. intros F T dnFT ordT. exact re_is_inner_HyperDualVec_log2. Qed.
Theorem C06_re_is_inner_HyperDualVec_log10 : forall {F T : Type} {dnFT : DN F T} {ordT : DNOrd T}, forall x : HyperDualVec T, HyperDualVec_f_re (m_log10 x) = m_log10 (HyperDualVec_f_re x).
Proof. intros F T dnFT ordT. exact re_is_inner_HyperDualVec_log10. Qed.
Theorem C06_re_is_inner_HyperDualVec_ln_1p : forall {F T : Type} {dnFT : DN F T} {ordT : DNOrd T}, forall x : HyperDualVec T, HyperDualVec_f_re (m_ln_1p x) = m_ln_1p (HyperDualVec_f_re x).
Proof. intros F T dnFT ordT. exact re_is_inner_HyperDualVec_ln_1p. Qed.
Theorem C06_re_is_inner_HyperDualVec_sin : forall {F T : Type} {dnFT : DN F T} {ordT : DNOrd T}, forall x : HyperDualVec T, HyperDualVec_f_re (m_sin x) = fst (m_sin_cos (HyperDualVec_f_re x)).
Proof. intros F T dnFT ordT. exact re_is_inner_HyperDualVec_sin. Qed.
Theorem C06_re_is_inner_HyperDualVec_cos : forall {F T : Type} {dnFT : DN F T} {ordT : DNOrd T}, forall x : HyperDualVec T, HyperDualVec_f_re (m_cos x) = snd (m_sin_cos (HyperDualVec_f_re x)).
Proof. intros F T dnFT ordT. exact re_is_inner_HyperDualVec_cos. Qed.
Theorem C06_re_is_inner_HyperDualVec_asin : forall {F T : Type} {dnFT : DN F T} {ordT : DNOrd T}, forall x : HyperDualVec T, HyperDualVec_f_re (m_asin x) = m_asin (HyperDualVec_f_re x).
Proof. intros F T dnFT ordT. exact re_is_inner_HyperDualVec_asin. Qed.
Theorem C06_re_is_inner_HyperDualVec_acos : forall {F T : Type} {dnFT : DN F T} {ordT : DNOrd T}, forall x : HyperDualVec T, HyperDualVec_f_re (m_acos x) = m_acos (HyperDualVec_f_re x).
Proof. intros F T dnFT ordT. exact re_is_inner_HyperDualVec_acos. Qed.
Theorem C06_re_is_inner_HyperDualVec_atan : forall {F T : Type} {dnFT : DN F T} {ordT : DNOrd T}, forall x : HyperDualVec T, HyperDualVec_f_re (m_atan x) = m_atan (HyperDualVec_f_re x).
Proof. intros F T dnFT ordT. exact re_is_inner_HyperDualVec_atan. Qed.
Theorem C06_re_is_inner_HyperDualVec_sinh : forall {F T : Type} {dnFT : DN F T} {ordT : DNOrd T}, forall x : HyperDualVec T, HyperDualVec_f_re (m_sinh x) = m_sinh (HyperDualVec_f_re x).
Proof. intros F T dnFT ordT. exact re_is_inner_HyperDualVec_sinh. Qed.
Theorem C06_re_is_inner_HyperDualVec_cosh : forall {F T : Type} {dnFT : DN F T} {ordT : DNOrd T}, forall x : HyperDualVec T, HyperDualVec_f_re (m_cosh x) = m_cosh (HyperDualVec_f_re x).
Proof. intros F T dnFT ordT. exact re_is_inner_HyperDualVec_cosh. Qed.
Theorem C06_re_is_inner_HyperDualVec_asinh : forall {F T : Type} {dnFT : DN F T} {ordT : DNOrd T}, forall x : HyperDualVec T, HyperDualVec_f_re (m_asinh x) = m_asinh (HyperDualVec_f_re x).
Proof. intros F T dnFT ordT. exact re_is_inner_HyperDualVec_asinh. Qed.
Theorem C06_re_is_inner_HyperDualVec_acosh : forall {F T : Type} {dnFT : DN F T} {ordT : DNOrd T}, forall x : HyperDualVec T, HyperDualVec_f_re (m_acosh x) = m_acosh (HyperDualVec_f_re x).
Proof. intros F T dnFT ordT. exact re_is_inner_HyperDualVec_acosh. Qed.
Theorem C06_re_is_inner_HyperDualVec_atanh : forall {F T : Type} {dnFT : DN F T} {ordT : DNOrd T}, forall x : HyperDualVec T, HyperDualVec_f_re (m_atanh x) = m_atanh (HyperDualVec_f_re x).
Proof. intros F T dnFT ordT. exact re_is_inner_HyperDualVec_atanh. Qed.
Theorem C06_re_only_HyperDualVec_powi : forall {F T : Type} {dnFT : DN F T} {ordT : DNOrd T}, forall (n : Z) (x x' : HyperDualVec T), HyperDualVec_f_re x = HyperDualVec_f_re x' -> HyperDualVec_f_re (m_powi x n) = HyperDualVec_f_re (m_powi x' n).
Proof. intros F T dnFT ordT. exact re_only_HyperDualVec_powi. Qed.
Theorem C06_re_only_HyperDualVec_powf : forall {F T : Type} {dnFT : DN F T} {ordT : DNOrd T}, forall (q : F) (x x' : HyperDualVec T), HyperDualVec_f_re x = HyperDualVec_f_re x' -> HyperDualVec_f_re (m_powf x q) = HyperDualVec_f_re (m_powf x' q).
Proof. intros F T dnFT ordT. exact re_only_HyperDualVec_powf. Qed.
Theorem C06_re_only_HyperDualVec_log : forall {F T : Type} {dnFT : DN F T} {ordT : DNOrd T}, forall (q : F) (x x' : HyperDualVec T), HyperDualVec_f_re x = HyperDualVec_f_re x' -> HyperDualVec_f_re (m_log x q) = HyperDualVec_f_re (m_log x' q).
Proof. intros F T dnFT ordT. exact re_only_HyperDualVec_log. Qed.
Theorem C06_re_only_HyperDualVec_add : forall {F T : Type} {dnFT : DN F T} {ordT : DNOrd T}, forall x x' y y' : HyperDualVec T, HyperDualVec_f_re x = HyperDualVec_f_re x' -> HyperDualVec_f_re y = HyperDualVec_f_re y' -> HyperDualVec_f_re (x + y) = HyperDualVec_f_re (x' + y').
Proof. intros F T dnFT ordT. exact re_only_HyperDualVec_add. Qed.
Theorem C06_re_only_HyperDualVec_sub : forall {F T : Type} {dnFT : DN F T} {ordT : DNOrd T}, forall x x' y y' : HyperDualVec T, HyperDualVec_f_re x = HyperDualVec_f_re x' -> HyperDualVec_f_re y = HyperDualVec_f_re y' -> HyperDualVec_f_re (x - y) = HyperDualVec_f_re (x' - y').
Proof. intros F T dnFT ordT. exact re_only_HyperDualVec_sub. Qed.
Theorem C06_re_only_HyperDualVec_mul : forall {F T : Type} {dnFT : DN F T} {ordT : DNOrd T}, forall x x' y y' : HyperDualVec T, HyperDualVec_f_re x = HyperDualVec_f_re x' -> HyperDualVec_f_re y = HyperDualVec_f_re y' -> HyperDualVec_f_re (x * y) = HyperDualVec_f_re (x' * y').
Proof. intros F T dnFT ordT. exact re_only_HyperDualVec_mul. Qed.
Theorem C06_re_only_HyperDualVec_div : forall {F T : Type} {dnFT : DN F T} {ordT : DNOrd T}, forall x x' y y' : HyperDualVec T, HyperDualVec_f_re x = HyperDualVec_f_re x' -> HyperDualVec_f_re y = HyperDualVec_f_re y' -> HyperDualVec_f_re (x / y) = HyperDualVec_f_re (x' / y').
Proof. intros F T dnFT ordT. exact re_only_HyperDualVec_div. Qed.
Theorem C06_re_only_HyperDualVec_powd : forall {F T : Type} {dnFT : DN F T} {ordT : DNOrd T}, forall x x' y y' : HyperDualVec T, HyperDualVec_f_re x = HyperDualVec_f_re x' -> HyperDualVec_f_re y = HyperDualVec_f_re y' -> HyperDualVec_f_re (m_powd x y) = HyperDualVec_f_re (m_powd x' y').
Proof. intros F T dnFT ordT. exact re_only_HyperDualVec_powd. Qed.
Theorem C06_re_only_HyperDualVec_atan2 : forall {F T : Type} {dnFT : DN F T} {ordT : DNOrd T}, forall x x' y y' : HyperDualVec T, HyperDualVec_f_re x = HyperDualVec_f_re x' -> HyperDualVec_f_re y = HyperDualVec_f_re y' -> HyperDualVec_f_re (m_atan2 x y) = HyperDualVec_f_re (m_atan2 x' y').
Proof. intros F T dnFT ordT. exact re_only_HyperDualVec_atan2. Qed.
Theorem C06_re_only_HyperDualVec_abs_sub : forall {F T : Type} {dnFT : DN F T} {ordT : DNOrd T}, forall x x' y y' : HyperDualVec T, HyperDualVec_f_re x = HyperDualVec_f_re x' -> HyperDualVec_f_re y = HyperDualVec_f_re y' -> HyperDualVec_f_re (m_abs_sub x y) = HyperDualVec_f_re (m_abs_sub x' y').
Proof. intros F T dnFT ordT. exact re_only_HyperDualVec_abs_sub. Qed.
Theorem C06_re_is_inner_HyperDualVec_add : forall {F T : Type} {dnFT : DN F T} {ordT : DNOrd T}, forall x y : HyperDualVec T, HyperDualVec_f_re (x + y) = HyperDualVec_f_re x + HyperDualVec_f_re y.
Proof. intros F T dnFT ordT. exact re_is_inner_HyperDualVec_add. Qed.
Theorem C06_re_is_inner_HyperDualVec_sub : forall {F T : Type} {dnFT : DN F T} {ordT : DNOrd T}, forall x y : HyperDualVec T, HyperDualVec_f_re (x - y) = HyperDualVec_f_re x - HyperDualVec_f_re y.
Proof. intros F T dnFT ordT. exact re_is_inner_HyperDualVec_sub. Qed.
Theorem C06_re_is_inner_HyperDualVec_mul : forall {F T : Type} {dnFT : DN F T} {ordT : DNOrd T}, forall x y : HyperDualVec T, HyperDualVec_f_re (x * y) = HyperDualVec_f_re x * HyperDualVec_f_re y.
Proof. intros F T dnFT ordT. exact re_is_inner_HyperDualVec_mul. Qed.
Theorem C06_re_is_inner_HyperDualVec_neg : forall {F T : Type} {dnFT : DN F T} {ordT : DNOrd T}, forall x : HyperDualVec T, HyperDualVec_f_re (- x) = - (HyperDualVec_f_re x).
Proof. intros F T dnFT ordT. exact re_is_inner_HyperDualVec_neg. Qed.
Theorem C06_re_only_HyperDualVec_mul_add : forall {F T : Type} {dnFT : DN F T} {ordT : DNOrd T}, forall x x' y y' z z' : HyperDualVec T, HyperDualVec_f_re x = HyperDualVec_f_re x' -> HyperDualVec_f_re y = HyperDualVec_f_re y' -> HyperDualVec_f_re z = HyperDualVec_f_re z' -> HyperDualVec_f_re (m_mul_add x y z) = HyperDualVec_f_re (m_mul_add x' y' z').
Proof. intros F T dnFT ordT. exact re_only_HyperDualVec_mul_add. Qed.
Theorem C06_pred_HyperDualVec_is_zero : forall {F T : Type} {dnFT : DN F T} {ordT : DNOrd T}, forall x x' : HyperDualVec T, HyperDualVec_f_re x = HyperDualVec_f_re x' -> m_is_zero x = m_is_zero x'.
Proof. intros F T dnFT ordT. exact pred_HyperDualVec_is_zero. Qed.
Theorem C06_pred_HyperDualVec_is_one : forall {F T : Type} {dnFT : DN F T} {ordT : DNOrd T}, forall x x' : HyperDualVec T, HyperDualVec_f_re x = HyperDualVec_f_re x' -> m_is_one x = m_is_one x'.
Proof. intros F T dnFT ordT. exact pred_HyperDualVec_is_one. Qed.
Theorem C06_pred_HyperDualVec_is_positive : forall {F T : Type} {dnFT : DN F T} {ordT : DNOrd T}, forall x x' : HyperDualVec T, HyperDualVec_f_re x = HyperDualVec_f_re x' -> m_is_positive x = m_is_positive x'.
Proof. intros F T dnFT ordT. exact pred_HyperDualVec_is_positive. Qed.
Theorem C06_pred_HyperDualVec_is_negative : forall {F T : Type} {dnFT : DN F T} {ordT : DNOrd T}, forall x x' : HyperDualVec T, HyperDualVec_f_re x = HyperDualVec_f_re x' -> m_is_negative x = m_is_negative x'.
Proof. intros F T dnFT ordT. exact pred_HyperDualVec_is_negative. Qed.
Theorem C06_re_only_HyperDualVec_addF : forall {F T : Type} {dnFT : DN F T} {ordT : DNOrd T}, forall (q : F) (x x' : HyperDualVec T), HyperDualVec_f_re x = HyperDualVec_f_re x' -> HyperDualVec_f_re (x + q) = HyperDualVec_f_re (x' + q).
Proof. intros F T dnFT ordT. exact re_only_HyperDualVec_addF. Qed.
Theorem C06_re_only_HyperDualVec_subF : forall {F T : Type} {dnFT : DN F T} {ordT : DNOrd T}, forall (q : F) (x x' : HyperDualVec T), HyperDualVec_f_re x = HyperDualVec_f_re x' -> HyperDualVec_f_re (x - q) = HyperDualVec_f_re (x' - q).
Proof. intros F T dnFT ordT. exact re_only_HyperDualVec_subF. Qed.
Theorem C06_re_only_HyperDualVec_mulF : forall {F T : Type} {dnFT : DN F T} {ordT : DNOrd T}, forall (q : F) (x x' : HyperDualVec T), HyperDualVec_f_re x = HyperDualVec_f_re x' -> HyperDualVec_f_re (x * q) = HyperDualVec_f_re (x' * q).
Proof. intros F T dnFT ordT. exact re_only_HyperDualVec_mulF. Qed.
Theorem C06_re_only_HyperDualVec_divF : forall {F T : Type} {dnFT : DN F T} {ordT : DNOrd T}, forall (q : F) (x x' : HyperDualVec T), HyperDualVec_f_re x = HyperDualVec_f_re x' -> HyperDualVec_f_re (x / q) = HyperDualVec_f_re (x' / q).
Proof. intros F T dnFT ordT. exact re_only_HyperDualVec_divF. Qed.
Theorem C06_cmp_Dual_eq : forall {F T : Type} {dnFT : DN F T} {ordT : DNOrd T}, forall x x' y y' : Dual T, Dual_f_re x = Dual_f_re x' -> Dual_f_re y = Dual_f_re y' -> (x == y) = (x' == y').
Proof. intros F T dnFT ordT. exact cmp_Dual_eq. Qed.
Theorem C06_cmp_Dual_partial_cmp : forall {F T : Type} {dnFT : DN F T} {ordT : DNOrd T}, forall x x' y y' : Dual T, Dual_f_re x = Dual_f_re x' -> Dual_f_re y = Dual_f_re y' -> Dual_PartialOrd_partial_cmp x y = Dual_PartialOrd_partial_cmp x' y'.
Proof. intros F T dnFT ordT. exact cmp_Dual_partial_cmp. Qed.
Theorem C06_cmp_Dual_is_inner : forall {F T : Type} {dnFT : DN F T} {ordT : DNOrd T}, forall x y : Dual T, (x == y) = (Dual_f_re x == Dual_f_re y) /\ Dual_PartialOrd_partial_cmp x y = m_partial_cmp (Dual_f_re x) (Dual_f_re y).
Proof. intros F T dnFT ordT. exact cmp_Dual_is_inner. Qed.
Theorem C06_cmp_Dual2_eq : forall {F T : Type} {dnFT : DN F T} {ordT : DNOrd T}, forall x x' y y' : Dual2 T, Dual2_f_re x = Dual2_f_re x' -> Dual2_f_re y = Dual2_f_re y' -> (x == y) = (x' == y').
Proof. intros F T dnFT ordT. exact cmp_Dual2_eq. Qed.
Theorem C06_cmp_Dual2_partial_cmp : forall {F T : Type} {dnFT : DN F T} {ordT : DNOrd T}, forall x x' y y' : Dual2 T, Dual2_f_re x = Dual2_f_re x' -> Dual2_f_re y = Dual2_f_re y' -> Dual2_PartialOrd_partial_cmp x y = Dual2_PartialOrd_partial_cmp x' y'.
Proof. intros F T dnFT ordT. exact cmp_Dual2_partial_cmp. Qed.
Theorem C06_cmp_Dual2_is_inner : forall {F T : Type} {dnFT : DN F T} {ordT : DNOrd T}, forall x y : Dual2 T, (x == y) = (Dual2_f_re x == Dual2_f_re y) /\ Dual2_PartialOrd_partial_cmp x y = m_partial_cmp (Dual2_f_re x) (Dual2_f_re y).
Proof. intros F T dnFT ordT. exact cmp_Dual2_is_inner. Qed.
Theorem C06_cmp_DualVec_eq : forall {F T : Type} {dnFT : DN F T} {ordT : DNOrd T}, forall x x' y y' : DualVec T, DualVec_f_re x = DualVec_f_re x' -> DualVec_f_re y = DualVec_f_re y' -> (x == y) = (x' == y').
Proof. intros F T dnFT ordT. exact cmp_DualVec_eq. Qed.
Theorem C06_cmp_DualVec_partial_cmp : forall {F T : Type} {dnFT : DN F T} {ordT : DNOrd T}, forall x x' y y' : DualVec T, DualVec_f_re x = DualVec_f_re x' -> DualVec_f_re y = DualVec_f_re y' -> DualVec_PartialOrd_partial_cmp x y = DualVec_PartialOrd_partial_cmp x' y'.
Proof. intros F T dnFT ordT. exact cmp_DualVec_partial_cmp. Qed.
Theorem C06_cmp_DualVec_is_inner : forall {F T : Type} {dnFT : DN F T} {ordT : DNOrd T}, forall x y : DualVec T, (x == y) = (DualVec_f_re x == DualVec_f_re y) /\ DualVec_PartialOrd_partial_cmp x y = m_partial_cmp (DualVec_f_re x) (DualVec_f_re y).
Proof. intros F T dnFT ordT. exact cmp_DualVec_is_inner. Qed.
Theorem C06_cmp_Dual2Vec_eq : forall {F T : Type} {dnFT : DN F T} {ordT : DNOrd T}, forall x x' y y' : Dual2Vec T, Dual2Vec_f_re x = Dual2Vec_f_re x' -> Dual2Vec_f_re y = Dual2Vec_f_re y' -> (x == y) = (x' == y').
Proof. intros F T dnFT ordT. exact cmp_Dual2Vec_eq. Qed.
Theorem C06_cmp_Dual2Vec_partial_cmp : forall {F T : Type} {dnFT : DN F T} {ordT : DNOrd T}, forall x x' y y' : Dual2Vec T, Dual2Vec_f_re x = Dual2Vec_f_re x' -> Dual2Vec_f_re y = Dual2Vec_f_re y' -> Dual2Vec_PartialOrd_partial_cmp x y = Dual2Vec_PartialOrd_partial_cmp x' y'.
Proof. intros F T dnFT ordT. exact cmp_Dual2Vec_partial_cmp. Qed.
Theorem C06_cmp_Dual2Vec_is_inner : forall {F T : Type} {dnFT : DN F T} {ordT : DNOrd T}, forall x y : Dual2Vec T, (x == y) = (Dual2Vec_f_re x == Dual2Vec_f_re y) /\ Dual2Vec_PartialOrd_partial_cmp x y = m_partial_cmp (Dual2Vec_f_re x) (Dual2Vec_f_re y).
Proof. intros F T dnFT ordT. exact cmp_Dual2Vec_is_inner. Qed.

Definition C06_bundle := (@C06_re_only_Dual_recip,
  @C06_re_only_Dual_sqrt,
  @C06_re_only_Dual_cbrt,
  @C06_re_only_Dual_exp,
  @C06_re_only_Dual_exp2,
  @C06_re_only_Dual_exp_m1,
  @C06_re_only_Dual_ln,
  @C06_re_only_Dual_log2,
  @C06_re_only_Dual_log10,
  @C06_re_only_Dual_ln_1p,
  @C06_re_only_Dual_sin,
  @C06_re_only_Dual_cos,
  @C06_re_only_Dual_asin,
  @C06_re_only_Dual_acos,
  @C06_re_only_Dual_atan,
  @C06_re_only_Dual_sinh,
  @C06_re_only_Dual_cosh,
  @C06_re_only_Dual_asinh,
  @C06_re_only_Dual_acosh,
  @C06_re_only_Dual_atanh,
  @C06_re_only_Dual_tan,
  @C06_re_only_Dual_tanh,
  @C06_re_only_Dual_sph_j0,
  @C06_re_only_Dual_sph_j1,
  @C06_re_only_Dual_sph_j2,
  @C06_re_only_Dual_abs,
  @C06_re_only_Dual_signum,
  @C06_re_only_Dual_inv,
  @C06_re_is_inner_Dual_recip,
  @C06_re_is_inner_Dual_sqrt,
  @C06_re_is_inner_Dual_cbrt,
  @C06_re_is_inner_Dual_exp,
  @C06_re_is_inner_Dual_exp2,
  @C06_re_is_inner_Dual_exp_m1,
  @C06_re_is_inner_Dual_ln,
  @C06_re_is_inner_Dual_log2,
  @C06_re_is_inner_Dual_log10,
  @C06_re_is_inner_Dual_ln_1p,
  @C06_re_is_inner_Dual_sin,
  @C06_re_is_inner_Dual_cos,
  @C06_re_is_inner_Dual_asin,
  @C06_re_is_inner_Dual_acos,
  @C06_re_is_inner_Dual_atan,
  @C06_re_is_inner_Dual_sinh,
  @C06_re_is_inner_Dual_cosh,
  @C06_re_is_inner_Dual_asinh,
  @C06_re_is_inner_Dual_acosh,
  @C06_re_is_inner_Dual_atanh,
  @C06_re_only_Dual_powi,
  @C06_re_only_Dual_powf,
  @C06_re_only_Dual_log,
  @C06_re_only_Dual_add,
  @C06_re_only_Dual_sub,
  @C06_re_only_Dual_mul,
  @C06_re_only_Dual_div,
  @C06_re_only_Dual_powd,
  @C06_re_only_Dual_atan2,
  @C06_re_only_Dual_abs_sub,
  @C06_re_is_inner_Dual_add,
  @C06_re_is_inner_Dual_sub,
  @C06_re_is_inner_Dual_mul,
  @C06_re_is_inner_Dual_neg,
  @C06_re_only_Dual_mul_add,
  @C06_pred_Dual_is_zero,
  @C06_pred_Dual_is_one,
  @C06_pred_Dual_is_positive,
  @C06_pred_Dual_is_negative,
  @C06_re_only_Dual_addF,
  @C06_re_only_Dual_subF,
  @C06_re_only_Dual_mulF,
  @C06_re_only_Dual_divF,
  @C06_re_only_Dual2_recip,
  @C06_re_only_Dual2_sqrt,
  @C06_re_only_Dual2_cbrt,
  @C06_re_only_Dual2_exp,
  @C06_re_only_Dual2_exp2,
  @C06_re_only_Dual2_exp_m1,
  @C06_re_only_Dual2_ln,
  @C06_re_only_Dual2_log2,
  @C06_re_only_Dual2_log10,
  @C06_re_only_Dual2_ln_1p,
  @C06_re_only_Dual2_sin,
  @C06_re_only_Dual2_cos,
  @C06_re_only_Dual2_asin,
  @C06_re_only_Dual2_acos,
  @C06_re_only_Dual2_atan,
  @C06_re_only_Dual2_sinh,
  @C06_re_only_Dual2_cosh,
  @C06_re_only_Dual2_asinh,
  @C06_re_only_Dual2_acosh,
  @C06_re_only_Dual2_atanh,
  @C06_re_only_Dual2_tan,
  @C06_re_only_Dual2_tanh,
  @C06_re_only_Dual2_sph_j0,
  @C06_re_only_Dual2_sph_j1,
  @C06_re_only_Dual2_sph_j2,
  @C06_re_only_Dual2_abs,
  @C06_re_only_Dual2_signum,
  @C06_re_only_Dual2_inv,
  @C06_re_is_inner_Dual2_recip,
  @C06_re_is_inner_Dual2_sqrt,
  @C06_re_is_inner_Dual2_cbrt,
  @C06_re_is_inner_Dual2_exp,
  @C06_re_is_inner_Dual2_exp2,
  @C06_re_is_inner_Dual2_exp_m1,
  @C06_re_is_inner_Dual2_ln,
  @C06_re_is_inner_Dual2_log2,
  @C06_re_is_inner_Dual2_log10,
  @C06_re_is_inner_Dual2_ln_1p,
  @C06_re_is_inner_Dual2_sin,
  @C06_re_is_inner_Dual2_cos,
  @C06_re_is_inner_Dual2_asin,
  @C06_re_is_inner_Dual2_acos,
  @C06_re_is_inner_Dual2_atan,
  @C06_re_is_inner_Dual2_sinh,
  @C06_re_is_inner_Dual2_cosh,
  @C06_re_is_inner_Dual2_asinh,
  @C06_re_is_inner_Dual2_acosh,
  @C06_re_is_inner_Dual2_atanh,
  @C06_re_only_Dual2_powi,
  @C06_re_only_Dual2_powf,
  @C06_re_only_Dual2_log,
  @C06_re_only_Dual2_add,
  @C06_re_only_Dual2_sub,
  @C06_re_only_Dual2_mul,
  @C06_re_only_Dual2_div,
  @C06_re_only_Dual2_powd,
  @C06_re_only_Dual2_atan2,
  @C06_re_only_Dual2_abs_sub,
  @C06_re_is_inner_Dual2_add,
  @C06_re_is_inner_Dual2_sub,
  @C06_re_is_inner_Dual2_mul,
  @C06_re_is_inner_Dual2_neg,
  @C06_re_only_Dual2_mul_add,
  @C06_pred_Dual2_is_zero,
  @C06_pred_Dual2_is_one,
  @C06_pred_Dual2_is_positive,
  @C06_pred_Dual2_is_negative,
  @C06_re_only_Dual2_addF,
  @C06_re_only_Dual2_subF,
  @C06_re_only_Dual2_mulF,
  @C06_re_only_Dual2_divF,
  @C06_re_only_Dual3_recip,
  @C06_re_only_Dual3_sqrt,
  @C06_re_only_Dual3_cbrt,
  @C06_re_only_Dual3_exp,
  @C06_re_only_Dual3_exp2,
  @C06_re_only_Dual3_exp_m1,
  @C06_re_only_Dual3_ln,
  @C06_re_only_Dual3_log2,
  @C06_re_only_Dual3_log10,
  @C06_re_only_Dual3_ln_1p,
  @C06_re_only_Dual3_sin,
  @C06_re_only_Dual3_cos,
  @C06_re_only_Dual3_asin,
  @C06_re_only_Dual3_acos,
  @C06_re_only_Dual3_atan,
  @C06_re_only_Dual3_sinh,
  @C06_re_only_Dual3_cosh,
  @C06_re_only_Dual3_asinh,
  @C06_re_only_Dual3_acosh,
  @C06_re_only_Dual3_atanh,
  @C06_re_only_Dual3_tan,
  @C06_re_only_Dual3_tanh,
  @C06_re_only_Dual3_sph_j0,
  @C06_re_only_Dual3_sph_j1,
  @C06_re_only_Dual3_sph_j2,
  @C06_re_only_Dual3_abs,
  @C06_re_only_Dual3_signum,
  @C06_re_only_Dual3_inv,
  @C06_re_is_inner_Dual3_recip,
  @C06_re_is_inner_Dual3_sqrt,
  @C06_re_is_inner_Dual3_cbrt,
  @C06_re_is_inner_Dual3_exp,
  @C06_re_is_inner_Dual3_exp2,
  @C06_re_is_inner_Dual3_exp_m1,
  @C06_re_is_inner_Dual3_ln,
  @C06_re_is_inner_Dual3_log2,
  @C06_re_is_inner_Dual3_log10,
  @C06_re_is_inner_Dual3_ln_1p,
  @C06_re_is_inner_Dual3_sin,
  @C06_re_is_inner_Dual3_cos,
  @C06_re_is_inner_Dual3_asin,
  @C06_re_is_inner_Dual3_acos,
  @C06_re_is_inner_Dual3_atan,
  @C06_re_is_inner_Dual3_sinh,
  @C06_re_is_inner_Dual3_cosh,
  @C06_re_is_inner_Dual3_asinh,
  @C06_re_is_inner_Dual3_acosh,
  @C06_re_is_inner_Dual3_atanh,
  @C06_re_only_Dual3_powi,
  @C06_re_only_Dual3_powf,
  @C06_re_only_Dual3_log,
  @C06_re_only_Dual3_add,
  @C06_re_only_Dual3_sub,
  @C06_re_only_Dual3_mul,
  @C06_re_only_Dual3_div,
  @C06_re_only_Dual3_powd,
  @C06_re_only_Dual3_atan2,
  @C06_re_only_Dual3_abs_sub,
  @C06_re_is_inner_Dual3_add,
  @C06_re_is_inner_Dual3_sub,
  @C06_re_is_inner_Dual3_mul,
  @C06_re_is_inner_Dual3_neg,
  @C06_re_only_Dual3_mul_add,
  @C06_pred_Dual3_is_zero,
  @C06_pred_Dual3_is_one,
  @C06_pred_Dual3_is_positive,
  @C06_pred_Dual3_is_negative,
  @C06_re_only_Dual3_addF,
  @C06_re_only_Dual3_subF,
  @C06_re_only_Dual3_mulF,
  @C06_re_only_Dual3_divF,
  @C06_re_only_HyperDual_recip,
  @C06_re_only_HyperDual_sqrt,
  @C06_re_only_HyperDual_cbrt,
  @C06_re_only_HyperDual_exp,
  @C06_re_only_HyperDual_exp2,
  @C06_re_only_HyperDual_exp_m1,
  @C06_re_only_HyperDual_ln,
  @C06_re_only_HyperDual_log2,
  @C06_re_only_HyperDual_log10,
  @C06_re_only_HyperDual_ln_1p,
  @C06_re_only_HyperDual_sin,
  @C06_re_only_HyperDual_cos,
  @C06_re_only_HyperDual_asin,
  @C06_re_only_HyperDual_acos,
  @C06_re_only_HyperDual_atan,
  @C06_re_only_HyperDual_sinh,
  @C06_re_only_HyperDual_cosh,
  @C06_re_only_HyperDual_asinh,
  @C06_re_only_HyperDual_acosh,
  @C06_re_only_HyperDual_atanh,
  @C06_re_only_HyperDual_tan,
  @C06_re_only_HyperDual_tanh,
  @C06_re_only_HyperDual_sph_j0,
  @C06_re_only_HyperDual_sph_j1,
  @C06_re_only_HyperDual_sph_j2,
  @C06_re_only_HyperDual_abs,
  @C06_re_only_HyperDual_signum,
  @C06_re_only_HyperDual_inv,
  @C06_re_is_inner_HyperDual_recip,
  @C06_re_is_inner_HyperDual_sqrt,
  @C06_re_is_inner_HyperDual_cbrt,
  @C06_re_is_inner_HyperDual_exp,
  @C06_re_is_inner_HyperDual_exp2,
  @C06_re_is_inner_HyperDual_exp_m1,
  @C06_re_is_inner_HyperDual_ln,
  @C06_re_is_inner_HyperDual_log2,
  @C06_re_is_inner_HyperDual_log10,
  @C06_re_is_inner_HyperDual_ln_1p,
  @C06_re_is_inner_HyperDual_sin,
  @C06_re_is_inner_HyperDual_cos,
  @C06_re_is_inner_HyperDual_asin,
  @C06_re_is_inner_HyperDual_acos,
  @C06_re_is_inner_HyperDual_atan,
  @C06_re_is_inner_HyperDual_sinh,
  @C06_re_is_inner_HyperDual_cosh,
  @C06_re_is_inner_HyperDual_asinh,
  @C06_re_is_inner_HyperDual_acosh,
  @C06_re_is_inner_HyperDual_atanh,
  @C06_re_only_HyperDual_powi,
  @C06_re_only_HyperDual_powf,
  @C06_re_only_HyperDual_log,
  @C06_re_only_HyperDual_add,
  @C06_re_only_HyperDual_sub,
  @C06_re_only_HyperDual_mul,
  @C06_re_only_HyperDual_div,
  @C06_re_only_HyperDual_powd,
  @C06_re_only_HyperDual_atan2,
  @C06_re_only_HyperDual_abs_sub,
  @C06_re_is_inner_HyperDual_add,
  @C06_re_is_inner_HyperDual_sub,
  @C06_re_is_inner_HyperDual_mul,
  @C06_re_is_inner_HyperDual_neg,
  @C06_re_only_HyperDual_mul_add,
  @C06_pred_HyperDual_is_zero,
  @C06_pred_HyperDual_is_one,
  @C06_pred_HyperDual_is_positive,
  @C06_pred_HyperDual_is_negative,
  @C06_re_only_HyperDual_addF,
  @C06_re_only_HyperDual_subF,
  @C06_re_only_HyperDual_mulF,
  @C06_re_only_HyperDual_divF,
  @C06_re_only_HyperHyperDual_recip,
  @C06_re_only_HyperHyperDual_sqrt,
  @C06_re_only_HyperHyperDual_cbrt,
  @C06_re_only_HyperHyperDual_exp,
  @C06_re_only_HyperHyperDual_exp2,
  @C06_re_only_HyperHyperDual_exp_m1,
  @C06_re_only_HyperHyperDual_ln,
  @C06_re_only_HyperHyperDual_log2,
  @C06_re_only_HyperHyperDual_log10,
  @C06_re_only_HyperHyperDual_ln_1p,
  @C06_re_only_HyperHyperDual_sin,
  @C06_re_only_HyperHyperDual_cos,
  @C06_re_only_HyperHyperDual_asin,
  @C06_re_only_HyperHyperDual_acos,
  @C06_re_only_HyperHyperDual_atan,
  @C06_re_only_HyperHyperDual_sinh,
  @C06_re_only_HyperHyperDual_cosh,
  @C06_re_only_HyperHyperDual_asinh,
  @C06_re_only_HyperHyperDual_acosh,
  @C06_re_only_HyperHyperDual_atanh,
  @C06_re_only_HyperHyperDual_tan,
  @C06_re_only_HyperHyperDual_tanh,
  @C06_re_only_HyperHyperDual_sph_j0,
  @C06_re_only_HyperHyperDual_sph_j1,
  @C06_re_only_HyperHyperDual_sph_j2,
  @C06_re_only_HyperHyperDual_abs,
  @C06_re_only_HyperHyperDual_signum,
  @C06_re_only_HyperHyperDual_inv,
  @C06_re_is_inner_HyperHyperDual_recip,
  @C06_re_is_inner_HyperHyperDual_sqrt,
  @C06_re_is_inner_HyperHyperDual_cbrt,
  @C06_re_is_inner_HyperHyperDual_exp,
  @C06_re_is_inner_HyperHyperDual_exp2,
  @C06_re_is_inner_HyperHyperDual_exp_m1,
  @C06_re_is_inner_HyperHyperDual_ln,
  @C06_re_is_inner_HyperHyperDual_log2,
  @C06_re_is_inner_HyperHyperDual_log10,
  @C06_re_is_inner_HyperHyperDual_ln_1p,
  @C06_re_is_inner_HyperHyperDual_sin,
  @C06_re_is_inner_HyperHyperDual_cos,
  @C06_re_is_inner_HyperHyperDual_asin,
  @C06_re_is_inner_HyperHyperDual_acos,
  @C06_re_is_inner_HyperHyperDual_atan,
  @C06_re_is_inner_HyperHyperDual_sinh,
  @C06_re_is_inner_HyperHyperDual_cosh,
  @C06_re_is_inner_HyperHyperDual_asinh,
  @C06_re_is_inner_HyperHyperDual_acosh,
  @C06_re_is_inner_HyperHyperDual_atanh,
  @C06_re_only_HyperHyperDual_powi,
  @C06_re_only_HyperHyperDual_powf,
  @C06_re_only_HyperHyperDual_log,
  @C06_re_only_HyperHyperDual_add,
  @C06_re_only_HyperHyperDual_sub,
  @C06_re_only_HyperHyperDual_mul,
  @C06_re_only_HyperHyperDual_div,
  @C06_re_only_HyperHyperDual_powd,
  @C06_re_only_HyperHyperDual_atan2,
  @C06_re_only_HyperHyperDual_abs_sub,
  @C06_re_is_inner_HyperHyperDual_add,
  @C06_re_is_inner_HyperHyperDual_sub,
  @C06_re_is_inner_HyperHyperDual_mul,
  @C06_re_is_inner_HyperHyperDual_neg,
  @C06_re_only_HyperHyperDual_mul_add,
  @C06_pred_HyperHyperDual_is_zero,
  @C06_pred_HyperHyperDual_is_one,
  @C06_pred_HyperHyperDual_is_positive,
  @C06_pred_HyperHyperDual_is_negative,
  @C06_re_only_HyperHyperDual_addF,
  @C06_re_only_HyperHyperDual_subF,
  @C06_re_only_HyperHyperDual_mulF,
  @C06_re_only_HyperHyperDual_divF,
  @C06_re_only_DualVec_recip,
  @C06_re_only_DualVec_sqrt,
  @C06_re_only_DualVec_cbrt,
  @C06_re_only_DualVec_exp,
  @C06_re_only_DualVec_exp2,
  @C06_re_only_DualVec_exp_m1,
  @C06_re_only_DualVec_ln,
  @C06_re_only_DualVec_log2,
  @C06_re_only_DualVec_log10,
  @C06_re_only_DualVec_ln_1p,
  @C06_re_only_DualVec_sin,
  @C06_re_only_DualVec_cos,
  @C06_re_only_DualVec_asin,
  @C06_re_only_DualVec_acos,
  @C06_re_only_DualVec_atan,
  @C06_re_only_DualVec_sinh,
  @C06_re_only_DualVec_cosh,
  @C06_re_only_DualVec_asinh,
  @C06_re_only_DualVec_acosh,
  @C06_re_only_DualVec_atanh,
  @C06_re_only_DualVec_tan,
  @C06_re_only_DualVec_tanh,
  @C06_re_only_DualVec_sph_j0,
  @C06_re_only_DualVec_sph_j1,
  @C06_re_only_DualVec_sph_j2,
  @C06_re_only_DualVec_abs,
  @C06_re_only_DualVec_signum,
  @C06_re_only_DualVec_inv,
  @C06_re_is_inner_DualVec_recip,
  @C06_re_is_inner_DualVec_sqrt,
  @C06_re_is_inner_DualVec_cbrt,
  @C06_re_is_inner_DualVec_exp,
  @C06_re_is_inner_DualVec_exp2,
  @C06_re_is_inner_DualVec_exp_m1,
  @C06_re_is_inner_DualVec_ln,
  @C06_re_is_inner_DualVec_log2,
  @C06_re_is_inner_DualVec_log10,
  @C06_re_is_inner_DualVec_ln_1p,
  @C06_re_is_inner_DualVec_sin,
  @C06_re_is_inner_DualVec_cos,
  @C06_re_is_inner_DualVec_asin,
  @C06_re_is_inner_DualVec_acos,
  @C06_re_is_inner_DualVec_atan,
  @C06_re_is_inner_DualVec_sinh,
  @C06_re_is_inner_DualVec_cosh,
  @C06_re_is_inner_DualVec_asinh,
  @C06_re_is_inner_DualVec_acosh,
  @C06_re_is_inner_DualVec_atanh,
  @C06_re_only_DualVec_powi,
  @C06_re_only_DualVec_powf,
  @C06_re_only_DualVec_log,
  @C06_re_only_DualVec_add,
  @C06_re_only_DualVec_sub,
  @C06_re_only_DualVec_mul,
  @C06_re_only_DualVec_div,
  @C06_re_only_DualVec_powd,
  @C06_re_only_DualVec_atan2,
  @C06_re_only_DualVec_abs_sub,
  @C06_re_is_inner_DualVec_add,
  @C06_re_is_inner_DualVec_sub,
  @C06_re_is_inner_DualVec_mul,
  @C06_re_is_inner_DualVec_neg,
  @C06_re_only_DualVec_mul_add,
  @C06_pred_DualVec_is_zero,
  @C06_pred_DualVec_is_one,
  @C06_pred_DualVec_is_positive,
  @C06_pred_DualVec_is_negative,
  @C06_re_only_DualVec_addF,
  @C06_re_only_DualVec_subF,
  @C06_re_only_DualVec_mulF,
  @C06_re_only_DualVec_divF,
  @C06_re_only_Dual2Vec_recip,
  @C06_re_only_Dual2Vec_sqrt,
  @C06_re_only_Dual2Vec_cbrt,
  @C06_re_only_Dual2Vec_exp,
  @C06_re_only_Dual2Vec_exp2,
  @C06_re_only_Dual2Vec_exp_m1,
  @C06_re_only_Dual2Vec_ln,
  @C06_re_only_Dual2Vec_log2,
  @C06_re_only_Dual2Vec_log10,
  @C06_re_only_Dual2Vec_ln_1p,
  @C06_re_only_Dual2Vec_sin,
  @C06_re_only_Dual2Vec_cos,
  @C06_re_only_Dual2Vec_asin,
  @C06_re_only_Dual2Vec_acos,
  @C06_re_only_Dual2Vec_atan,
  @C06_re_only_Dual2Vec_sinh,
  @C06_re_only_Dual2Vec_cosh,
  @C06_re_only_Dual2Vec_asinh,
  @C06_re_only_Dual2Vec_acosh,
  @C06_re_only_Dual2Vec_atanh,
  @C06_re_only_Dual2Vec_tan,
  @C06_re_only_Dual2Vec_tanh,
  @C06_re_only_Dual2Vec_sph_j0,
  @C06_re_only_Dual2Vec_sph_j1,
  @C06_re_only_Dual2Vec_sph_j2,
  @C06_re_only_Dual2Vec_abs,
  @C06_re_only_Dual2Vec_signum,
  @C06_re_only_Dual2Vec_inv,
  @C06_re_is_inner_Dual2Vec_recip,
  @C06_re_is_inner_Dual2Vec_sqrt,
  @C06_re_is_inner_Dual2Vec_cbrt,
  @C06_re_is_inner_Dual2Vec_exp,
  @C06_re_is_inner_Dual2Vec_exp2,
  @C06_re_is_inner_Dual2Vec_exp_m1,
  @C06_re_is_inner_Dual2Vec_ln,
  @C06_re_is_inner_Dual2Vec_log2,
  @C06_re_is_inner_Dual2Vec_log10,
  @C06_re_is_inner_Dual2Vec_ln_1p,
  @C06_re_is_inner_Dual2Vec_sin,
  @C06_re_is_inner_Dual2Vec_cos,
  @C06_re_is_inner_Dual2Vec_asin,
  @C06_re_is_inner_Dual2Vec_acos,
  @C06_re_is_inner_Dual2Vec_atan,
  @C06_re_is_inner_Dual2Vec_sinh,
  @C06_re_is_inner_Dual2Vec_cosh,
  @C06_re_is_inner_Dual2Vec_asinh,
  @C06_re_is_inner_Dual2Vec_acosh,
  @C06_re_is_inner_Dual2Vec_atanh,
  @C06_re_only_Dual2Vec_powi,
  @C06_re_only_Dual2Vec_powf,
  @C06_re_only_Dual2Vec_log,
  @C06_re_only_Dual2Vec_add,
  @C06_re_only_Dual2Vec_sub,
  @C06_re_only_Dual2Vec_mul,
  @C06_re_only_Dual2Vec_div,
  @C06_re_only_Dual2Vec_powd,
  @C06_re_only_Dual2Vec_atan2,
  @C06_re_only_Dual2Vec_abs_sub,
  @C06_re_is_inner_Dual2Vec_add,
  @C06_re_is_inner_Dual2Vec_sub,
  @C06_re_is_inner_Dual2Vec_mul,
  @C06_re_is_inner_Dual2Vec_neg,
  @C06_re_only_Dual2Vec_mul_add,
  @C06_pred_Dual2Vec_is_zero,
  @C06_pred_Dual2Vec_is_one,
  @C06_pred_Dual2Vec_is_positive,
  @C06_pred_Dual2Vec_is_negative,
  @C06_re_only_Dual2Vec_addF,
  @C06_re_only_Dual2Vec_subF,
  @C06_re_only_Dual2Vec_mulF,
  @C06_re_only_Dual2Vec_divF,
  @C06_re_only_HyperDualVec_recip,
  @C06_re_only_HyperDualVec_sqrt,
  @C06_re_only_HyperDualVec_cbrt,
  @C06_re_only_HyperDualVec_exp,
  @C06_re_only_HyperDualVec_exp2,
  @C06_re_only_HyperDualVec_exp_m1,
  @C06_re_only_HyperDualVec_ln,
  @C06_re_only_HyperDualVec_log2,
  @C06_re_only_HyperDualVec_log10,
  @C06_re_only_HyperDualVec_ln_1p,
  @C06_re_only_HyperDualVec_sin,
  @C06_re_only_HyperDualVec_cos,
  @C06_re_only_HyperDualVec_asin,
  @C06_re_only_HyperDualVec_acos,
  @C06_re_only_HyperDualVec_atan,
  @C06_re_only_HyperDualVec_sinh,
  @C06_re_only_HyperDualVec_cosh,
  @C06_re_only_HyperDualVec_asinh,
  @C06_re_only_HyperDualVec_acosh,
  @C06_re_only_HyperDualVec_atanh,
  @C06_re_only_HyperDualVec_tan,
  @C06_re_only_HyperDualVec_tanh,
  @C06_re_only_HyperDualVec_sph_j0,
  @C06_re_only_HyperDualVec_sph_j1,
  @C06_re_only_HyperDualVec_sph_j2,
  @C06_re_only_HyperDualVec_abs,
  @C06_re_only_HyperDualVec_signum,
  @C06_re_only_HyperDualVec_inv,
  @C06_re_is_inner_HyperDualVec_recip,
  @C06_re_is_inner_HyperDualVec_sqrt,
  @C06_re_is_inner_HyperDualVec_cbrt,
  @C06_re_is_inner_HyperDualVec_exp,
  @C06_re_is_inner_HyperDualVec_exp2,
  @C06_re_is_inner_HyperDualVec_exp_m1,
  @C06_re_is_inner_HyperDualVec_ln,
  @C06_re_is_inner_HyperDualVec_log2,
  @C06_re_is_inner_HyperDualVec_log10,
  @C06_re_is_inner_HyperDualVec_ln_1p,
  @C06_re_is_inner_HyperDualVec_sin,
  @C06_re_is_inner_HyperDualVec_cos,
  @C06_re_is_inner_HyperDualVec_asin,
  @C06_re_is_inner_HyperDualVec_acos,
  @C06_re_is_inner_HyperDualVec_atan,
  @C06_re_is_inner_HyperDualVec_sinh,
  @C06_re_is_inner_HyperDualVec_cosh,
  @C06_re_is_inner_HyperDualVec_asinh,
  @C06_re_is_inner_HyperDualVec_acosh,
  @C06_re_is_inner_HyperDualVec_atanh,
  @C06_re_only_HyperDualVec_powi,
  @C06_re_only_HyperDualVec_powf,
  @C06_re_only_HyperDualVec_log,
  @C06_re_only_HyperDualVec_add,
  @C06_re_only_HyperDualVec_sub,
  @C06_re_only_HyperDualVec_mul,
  @C06_re_only_HyperDualVec_div,
  @C06_re_only_HyperDualVec_powd,
  @C06_re_only_HyperDualVec_atan2,
  @C06_re_only_HyperDualVec_abs_sub,
  @C06_re_is_inner_HyperDualVec_add,
  @C06_re_is_inner_HyperDualVec_sub,
  @C06_re_is_inner_HyperDualVec_mul,
  @C06_re_is_inner_HyperDualVec_neg,
  @C06_re_only_HyperDualVec_mul_add,
  @C06_pred_HyperDualVec_is_zero,
  @C06_pred_HyperDualVec_is_one,
  @C06_pred_HyperDualVec_is_positive,
  @C06_pred_HyperDualVec_is_negative,
  @C06_re_only_HyperDualVec_addF,
  @C06_re_only_HyperDualVec_subF,
  @C06_re_only_HyperDualVec_mulF,
  @C06_re_only_HyperDualVec_divF,
  @C06_cmp_Dual_eq,
  @C06_cmp_Dual_partial_cmp,
  @C06_cmp_Dual_is_inner,
  @C06_cmp_Dual2_eq,
  @C06_cmp_Dual2_partial_cmp,
  @C06_cmp_Dual2_is_inner,
  @C06_cmp_DualVec_eq,
  @C06_cmp_DualVec_partial_cmp,
  @C06_cmp_DualVec_is_inner,
  @C06_cmp_Dual2Vec_eq,
  @C06_cmp_Dual2Vec_partial_cmp,
  @C06_cmp_Dual2Vec_is_inner).
Print Assumptions C06_bundle.
