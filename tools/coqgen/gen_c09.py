#!/usr/bin/env python3
"""Writes coq/ND/Proofs/C09_faa.v and coq/ND/Props/C09.v.
NOTE: development-time generator, not run by ./check; Props/C09.v has since been extended by hand (C09_agree_* theorems) -- do not re-run without merging."""
import re
src = open('/verif/tools/coqgen/gen_c01.py').read()
ns = {}
exec(src[src.index('TYPES = ['):src.index('CHAIN = {')], ns)
TYPES = ns['TYPES']
out = ['''(* Proofs/C09_faa.v -- written by tools/coqgen/gen_c09.py: for every type, every exponent and every branch, the parts of
   powi / powf are Faa di Bruno of the tower read off the generated third-order code (C09_proofs.v proves that tower to be
   the generalized binomial derivatives); powd is exp(n ln x) by definition, for every scalar instance. *)
From ND Require Import Tactics C01_towers C01_faa C09_proofs.
Local Open Scope R_scope.
Ltac zring := rcbvZ; ring.
Ltac cond_ring := rcbv; unfold Reqb, Rltb; repeat match goal with |- context [Req_EM_T ?a ?b] => destruct (Req_EM_T a b) end;
  repeat match goal with |- context [Rlt_dec ?a ?b] => destruct (Rlt_dec a b) end; ring.
''']
L = []
for (T, part, idx, bind, wf, destr, re_) in TYPES:
    b = ('forall %s, ' % bind) if bind else ''
    wfp = ('%s -> ' % wf) if wf else ''
    st = '%sforall (n : Z) (x : %s R), %sforall S, In S %s ->\n  %s (m_powi x n) S = faa (tw3 (fun d => m_powi d n) (%s x)) (%s x) S' % (b, T, wfp, idx, part, re_, part)
    pr = 'intros %s n x %s S H; %s; destruct n as [|[[p|p|]|[p|p|]|]|p]; each_block H zring.' % (bind, 'Hwf' if wf else '', destr)
    L.append(('faa_%s_powi' % T, st, pr))
    st = '%sforall (n : R) (x : %s R), %sforall S, In S %s ->\n  %s (m_powf x n) S = faa (tw3 (fun d => m_powf d n) (%s x)) (%s x) S' % (b, T, wfp, idx, part, re_, part)
    pr = 'intros %s n x %s S H; %s; each_block H cond_ring.' % (bind, 'Hwf' if wf else '', destr)
    L.append(('faa_%s_powf' % T, st, pr))
for n, st, pr in L:
    out.append('Lemma %s : %s.\nProof. %s Qed.' % (n, st, pr))
open('/verif/coq/ND/Proofs/C09_faa.v', 'w').write('\n'.join(out) + '\n')

G = []
for (T, part, idx, bind, wf, destr, re_) in TYPES:
    G.append(('powd_%s' % T, 'forall x n : %s T, m_powd x n = m_exp (m_ln x * n)' % T))
gen = ['''(* Proofs/C09_powd.v -- written by tools/coqgen/gen_c09.py *)
From ND Require Import Overload Float Mat Opt.
From NDgen Require Import Classes Gen_Float Gen_Derivative Gen_Dual Gen_Dual2 Gen_Dual3 Gen_HyperDual Gen_HyperHyperDual Gen_DualVec Gen_Dual2Vec Gen_HyperDualVec.
Local Open Scope rs_scope.
Section Powd.
Context {F T : Type} {dnFT : DN F T} {ordT : DNOrd T}.''']
for n, st in G:
    gen.append('Lemma %s : %s.\nProof. intros; reflexivity. Qed.' % (n, st))
gen.append('End Powd.')
open('/verif/coq/ND/Proofs/C09_powd.v', 'w').write('\n'.join(gen) + '\n')

props = ['''(* Props/C09.v -- property C09: power functions are correct for every exponent.
   Written by tools/coqgen/gen_c09.py; only statements, `exact` proofs and the axiom report. *)
From ND Require Import C09_powd.
From ND Require Import Overload Float Mat Opt.
From NDgen Require Import Classes Gen_Float Gen_Derivative Gen_Dual Gen_Dual2 Gen_Dual3 Gen_HyperDual Gen_HyperHyperDual Gen_DualVec Gen_Dual2Vec Gen_HyperDualVec.
Section Powd.
Context {F T : Type} {dnFT : DN F T} {ordT : DNOrd T}.
Local Open Scope rs_scope.''']
names = []
for n, st in G:
    props.append('Theorem C09_%s : %s.\nProof. exact %s. Qed.' % (n, st, n))
    names.append('@C09_' + n)
props.append('End Powd.\nFrom ND Require Import Tactics C01_towers C01_faa C09_proofs C09_faa.\nLocal Open Scope R_scope.')
tow = open('/verif/coq/ND/Proofs/C09_proofs.v').read()
for m in re.finditer(r'(?:Lemma|Theorem) (tower_\w+) ([^:]*): ((?:.|\n)*?)\.\nProof', tow):
    nm, binders, stmt = m.group(1), m.group(2).strip(), m.group(3)
    props.append('Theorem C09_%s : forall %s, %s.\nProof. exact %s. Qed.' % (nm, binders, stmt, nm))
    names.append('C09_' + nm)
for n, st, pr in L:
    props.append('Theorem C09_%s : %s.\nProof. exact %s. Qed.' % (n, st, n))
    names.append('C09_' + n)
props.append('''
(* the refuted variant the repaired code no longer exhibits: with i32 products the third coefficient wraps already at n = 1292 *)
Example C09_i32_product_wraps : wrap32 (1292 * 1291 * 1290) <> (1292 * 1291 * 1290)%Z.
Proof. vm_compute. discriminate. Qed.
(* non-vacuity *)
Example C09_premises_hold : (2 <> 0) /\\ (-2147483645 <= 1073741824 <= 2147483647)%Z /\\ ~ Rabs (/2 - 1 - 1) < eps64.
Proof. split; [lra|]. split; [lia|]. unfold eps64. rewrite Rabs_left by lra. lra. Qed.
''')
props.append('Definition C09_bundle := (' + ',\n  '.join(names) + ').\nPrint Assumptions C09_bundle.')
open('/verif/coq/ND/Props/C09.v', 'w').write('\n'.join(props) + '\n')
print(len(names), 'theorems')
