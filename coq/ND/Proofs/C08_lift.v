(* Proofs/C08_lift.v -- written by tools/coqgen/gen_c08.py.  All syntactic forms of an operation give the same result. *)

From ND Require Import Tactics.
Local Open Scope R_scope.
(* ---- compound assignment and scalar operands against the lifted constant: over the reals, every part ---- *)
Lemma assign_Dual_add : forall (x y : Dual R) S, In S idx_Dual -> part_Dual (hadd_assign x y) S = part_Dual (x + y)%rs S.
Proof. intros  x y S H; destruct x as [r ?]; rename r into r1; destruct y as [r ?]; dmat; each_block H ltac:(rcbv; try reflexivity; ring). Qed.
Lemma assign_Dual_sub : forall (x y : Dual R) S, In S idx_Dual -> part_Dual (hsub_assign x y) S = part_Dual (x - y)%rs S.
Proof. intros  x y S H; destruct x as [r ?]; rename r into r1; destruct y as [r ?]; dmat; each_block H ltac:(rcbv; try reflexivity; ring). Qed.
Lemma lift_Dual_add : forall (x : Dual R) (q : R) S, In S idx_Dual -> part_Dual (x + q)%rs S = part_Dual (x + (ofF q : Dual R))%rs S.
Proof. intros  x q S  H; destruct x as [r ?]; each_block H ltac:(rcbv; try reflexivity; try ring; field; side). Qed.
Lemma lift_Dual_sub : forall (x : Dual R) (q : R) S, In S idx_Dual -> part_Dual (x - q)%rs S = part_Dual (x - (ofF q : Dual R))%rs S.
Proof. intros  x q S  H; destruct x as [r ?]; each_block H ltac:(rcbv; try reflexivity; try ring; field; side). Qed.
Lemma lift_Dual_mul : forall (x : Dual R) (q : R) S, In S idx_Dual -> part_Dual (x * q)%rs S = part_Dual (x * (ofF q : Dual R))%rs S.
Proof. intros  x q S  H; destruct x as [r ?]; each_block H ltac:(rcbv; try reflexivity; try ring; field; side). Qed.
Lemma lift_Dual_div : forall (x : Dual R) (q : R) S, q <> 0 -> In S idx_Dual -> part_Dual (x / q)%rs S = part_Dual (x / (ofF q : Dual R))%rs S.
Proof. intros  x q S Hq H; destruct x as [r ?]; each_block H ltac:(rcbv; try reflexivity; try ring; field; side). Qed.
Lemma assign_Dual2_add : forall (x y : Dual2 R) S, In S idx_Dual2 -> part_Dual2 (hadd_assign x y) S = part_Dual2 (x + y)%rs S.
Proof. intros  x y S H; destruct x as [r ? ?]; rename r into r1; destruct y as [r ? ?]; dmat; each_block H ltac:(rcbv; try reflexivity; ring). Qed.
Lemma assign_Dual2_sub : forall (x y : Dual2 R) S, In S idx_Dual2 -> part_Dual2 (hsub_assign x y) S = part_Dual2 (x - y)%rs S.
Proof. intros  x y S H; destruct x as [r ? ?]; rename r into r1; destruct y as [r ? ?]; dmat; each_block H ltac:(rcbv; try reflexivity; ring). Qed.
Lemma lift_Dual2_add : forall (x : Dual2 R) (q : R) S, In S idx_Dual2 -> part_Dual2 (x + q)%rs S = part_Dual2 (x + (ofF q : Dual2 R))%rs S.
Proof. intros  x q S  H; destruct x as [r ? ?]; each_block H ltac:(rcbv; try reflexivity; try ring; field; side). Qed.
Lemma lift_Dual2_sub : forall (x : Dual2 R) (q : R) S, In S idx_Dual2 -> part_Dual2 (x - q)%rs S = part_Dual2 (x - (ofF q : Dual2 R))%rs S.
Proof. intros  x q S  H; destruct x as [r ? ?]; each_block H ltac:(rcbv; try reflexivity; try ring; field; side). Qed.
Lemma lift_Dual2_mul : forall (x : Dual2 R) (q : R) S, In S idx_Dual2 -> part_Dual2 (x * q)%rs S = part_Dual2 (x * (ofF q : Dual2 R))%rs S.
Proof. intros  x q S  H; destruct x as [r ? ?]; each_block H ltac:(rcbv; try reflexivity; try ring; field; side). Qed.
Lemma lift_Dual2_div : forall (x : Dual2 R) (q : R) S, q <> 0 -> In S idx_Dual2 -> part_Dual2 (x / q)%rs S = part_Dual2 (x / (ofF q : Dual2 R))%rs S.
Proof. intros  x q S Hq H; destruct x as [r ? ?]; each_block H ltac:(rcbv; try reflexivity; try ring; field; side). Qed.
Lemma assign_Dual3_add : forall (x y : Dual3 R) S, In S idx_Dual3 -> part_Dual3 (hadd_assign x y) S = part_Dual3 (x + y)%rs S.
Proof. intros  x y S H; destruct x as [r ? ? ?]; rename r into r1; destruct y as [r ? ? ?]; dmat; each_block H ltac:(rcbv; try reflexivity; ring). Qed.
Lemma assign_Dual3_sub : forall (x y : Dual3 R) S, In S idx_Dual3 -> part_Dual3 (hsub_assign x y) S = part_Dual3 (x - y)%rs S.
Proof. intros  x y S H; destruct x as [r ? ? ?]; rename r into r1; destruct y as [r ? ? ?]; dmat; each_block H ltac:(rcbv; try reflexivity; ring). Qed.
Lemma lift_Dual3_add : forall (x : Dual3 R) (q : R) S, In S idx_Dual3 -> part_Dual3 (x + q)%rs S = part_Dual3 (x + (ofF q : Dual3 R))%rs S.
Proof. intros  x q S  H; destruct x as [r ? ? ?]; each_block H ltac:(rcbv; try reflexivity; try ring; field; side). Qed.
Lemma lift_Dual3_sub : forall (x : Dual3 R) (q : R) S, In S idx_Dual3 -> part_Dual3 (x - q)%rs S = part_Dual3 (x - (ofF q : Dual3 R))%rs S.
Proof. intros  x q S  H; destruct x as [r ? ? ?]; each_block H ltac:(rcbv; try reflexivity; try ring; field; side). Qed.
Lemma lift_Dual3_mul : forall (x : Dual3 R) (q : R) S, In S idx_Dual3 -> part_Dual3 (x * q)%rs S = part_Dual3 (x * (ofF q : Dual3 R))%rs S.
Proof. intros  x q S  H; destruct x as [r ? ? ?]; each_block H ltac:(rcbv; try reflexivity; try ring; field; side). Qed.
Lemma lift_Dual3_div : forall (x : Dual3 R) (q : R) S, q <> 0 -> In S idx_Dual3 -> part_Dual3 (x / q)%rs S = part_Dual3 (x / (ofF q : Dual3 R))%rs S.
Proof. intros  x q S Hq H; destruct x as [r ? ? ?]; each_block H ltac:(rcbv; try reflexivity; try ring; field; side). Qed.
Lemma assign_HyperDual_add : forall (x y : HyperDual R) S, In S idx_HyperDual -> part_HyperDual (hadd_assign x y) S = part_HyperDual (x + y)%rs S.
Proof. intros  x y S H; destruct x as [r ? ? ?]; rename r into r1; destruct y as [r ? ? ?]; dmat; each_block H ltac:(rcbv; try reflexivity; ring). Qed.
Lemma assign_HyperDual_sub : forall (x y : HyperDual R) S, In S idx_HyperDual -> part_HyperDual (hsub_assign x y) S = part_HyperDual (x - y)%rs S.
Proof. intros  x y S H; destruct x as [r ? ? ?]; rename r into r1; destruct y as [r ? ? ?]; dmat; each_block H ltac:(rcbv; try reflexivity; ring). Qed.
Lemma lift_HyperDual_add : forall (x : HyperDual R) (q : R) S, In S idx_HyperDual -> part_HyperDual (x + q)%rs S = part_HyperDual (x + (ofF q : HyperDual R))%rs S.
Proof. intros  x q S  H; destruct x as [r ? ? ?]; each_block H ltac:(rcbv; try reflexivity; try ring; field; side). Qed.
Lemma lift_HyperDual_sub : forall (x : HyperDual R) (q : R) S, In S idx_HyperDual -> part_HyperDual (x - q)%rs S = part_HyperDual (x - (ofF q : HyperDual R))%rs S.
Proof. intros  x q S  H; destruct x as [r ? ? ?]; each_block H ltac:(rcbv; try reflexivity; try ring; field; side). Qed.
Lemma lift_HyperDual_mul : forall (x : HyperDual R) (q : R) S, In S idx_HyperDual -> part_HyperDual (x * q)%rs S = part_HyperDual (x * (ofF q : HyperDual R))%rs S.
Proof. intros  x q S  H; destruct x as [r ? ? ?]; each_block H ltac:(rcbv; try reflexivity; try ring; field; side). Qed.
Lemma lift_HyperDual_div : forall (x : HyperDual R) (q : R) S, q <> 0 -> In S idx_HyperDual -> part_HyperDual (x / q)%rs S = part_HyperDual (x / (ofF q : HyperDual R))%rs S.
Proof. intros  x q S Hq H; destruct x as [r ? ? ?]; each_block H ltac:(rcbv; try reflexivity; try ring; field; side). Qed.
Lemma assign_HyperHyperDual_add : forall (x y : HyperHyperDual R) S, In S idx_HHD -> part_HHD (hadd_assign x y) S = part_HHD (x + y)%rs S.
Proof. intros  x y S H; destruct x as [r ? ? ? ? ? ? ?]; rename r into r1; destruct y as [r ? ? ? ? ? ? ?]; dmat; each_block H ltac:(rcbv; try reflexivity; ring). Qed.
Lemma assign_HyperHyperDual_sub : forall (x y : HyperHyperDual R) S, In S idx_HHD -> part_HHD (hsub_assign x y) S = part_HHD (x - y)%rs S.
Proof. intros  x y S H; destruct x as [r ? ? ? ? ? ? ?]; rename r into r1; destruct y as [r ? ? ? ? ? ? ?]; dmat; each_block H ltac:(rcbv; try reflexivity; ring). Qed.
Lemma lift_HyperHyperDual_add : forall (x : HyperHyperDual R) (q : R) S, In S idx_HHD -> part_HHD (x + q)%rs S = part_HHD (x + (ofF q : HyperHyperDual R))%rs S.
Proof. intros  x q S  H; destruct x as [r ? ? ? ? ? ? ?]; each_block H ltac:(rcbv; try reflexivity; try ring; field; side). Qed.
Lemma lift_HyperHyperDual_sub : forall (x : HyperHyperDual R) (q : R) S, In S idx_HHD -> part_HHD (x - q)%rs S = part_HHD (x - (ofF q : HyperHyperDual R))%rs S.
Proof. intros  x q S  H; destruct x as [r ? ? ? ? ? ? ?]; each_block H ltac:(rcbv; try reflexivity; try ring; field; side). Qed.
Lemma lift_HyperHyperDual_mul : forall (x : HyperHyperDual R) (q : R) S, In S idx_HHD -> part_HHD (x * q)%rs S = part_HHD (x * (ofF q : HyperHyperDual R))%rs S.
Proof. intros  x q S  H; destruct x as [r ? ? ? ? ? ? ?]; each_block H ltac:(rcbv; try reflexivity; try ring; field; side). Qed.
Lemma lift_HyperHyperDual_div : forall (x : HyperHyperDual R) (q : R) S, q <> 0 -> In S idx_HHD -> part_HHD (x / q)%rs S = part_HHD (x / (ofF q : HyperHyperDual R))%rs S.
Proof. intros  x q S Hq H; destruct x as [r ? ? ? ? ? ? ?]; each_block H ltac:(rcbv; try reflexivity; try ring; field; side). Qed.
Lemma assign_DualVec_add : forall i, forall (x y : DualVec R) S, In S (idx_DualVec i) -> part_DualVec (hadd_assign x y) S = part_DualVec (x + y)%rs S.
Proof. intros i x y S H; destruct x as [r [[?|]]]; dmat; rename r into r1; destruct y as [r [[?|]]]; dmat; each_block H ltac:(rcbv; try reflexivity; ring). Qed.
Lemma assign_DualVec_sub : forall i, forall (x y : DualVec R) S, In S (idx_DualVec i) -> part_DualVec (hsub_assign x y) S = part_DualVec (x - y)%rs S.
Proof. intros i x y S H; destruct x as [r [[?|]]]; dmat; rename r into r1; destruct y as [r [[?|]]]; dmat; each_block H ltac:(rcbv; try reflexivity; ring). Qed.
Lemma lift_DualVec_add : forall i, forall (x : DualVec R) (q : R) S, In S (idx_DualVec i) -> part_DualVec (x + q)%rs S = part_DualVec (x + (ofF q : DualVec R))%rs S.
Proof. intros i x q S  H; destruct x as [r [[?|]]]; dmat; each_block H ltac:(rcbv; try reflexivity; try ring; field; side). Qed.
Lemma lift_DualVec_sub : forall i, forall (x : DualVec R) (q : R) S, In S (idx_DualVec i) -> part_DualVec (x - q)%rs S = part_DualVec (x - (ofF q : DualVec R))%rs S.
Proof. intros i x q S  H; destruct x as [r [[?|]]]; dmat; each_block H ltac:(rcbv; try reflexivity; try ring; field; side). Qed.
Lemma lift_DualVec_mul : forall i, forall (x : DualVec R) (q : R) S, In S (idx_DualVec i) -> part_DualVec (x * q)%rs S = part_DualVec (x * (ofF q : DualVec R))%rs S.
Proof. intros i x q S  H; destruct x as [r [[?|]]]; dmat; each_block H ltac:(rcbv; try reflexivity; try ring; field; side). Qed.
Lemma lift_DualVec_div : forall i, forall (x : DualVec R) (q : R) S, q <> 0 -> In S (idx_DualVec i) -> part_DualVec (x / q)%rs S = part_DualVec (x / (ofF q : DualVec R))%rs S.
Proof. intros i x q S Hq H; destruct x as [r [[?|]]]; dmat; each_block H ltac:(rcbv; try reflexivity; try ring; field; side). Qed.
Lemma assign_Dual2Vec_add : forall i j, forall (x y : Dual2Vec R) S, In S (idx_Dual2Vec i j) -> part_Dual2Vec (hadd_assign x y) S = part_Dual2Vec (x + y)%rs S.
Proof. intros i j x y S H; destruct x as [r [[?|]] [[?|]]]; dmat; rename r into r1; destruct y as [r [[?|]] [[?|]]]; dmat; each_block H ltac:(rcbv; try reflexivity; ring). Qed.
Lemma assign_Dual2Vec_sub : forall i j, forall (x y : Dual2Vec R) S, In S (idx_Dual2Vec i j) -> part_Dual2Vec (hsub_assign x y) S = part_Dual2Vec (x - y)%rs S.
Proof. intros i j x y S H; destruct x as [r [[?|]] [[?|]]]; dmat; rename r into r1; destruct y as [r [[?|]] [[?|]]]; dmat; each_block H ltac:(rcbv; try reflexivity; ring). Qed.
Lemma lift_Dual2Vec_add : forall i j, forall (x : Dual2Vec R) (q : R) S, In S (idx_Dual2Vec i j) -> part_Dual2Vec (x + q)%rs S = part_Dual2Vec (x + (ofF q : Dual2Vec R))%rs S.
Proof. intros i j x q S  H; destruct x as [r [[?|]] [[?|]]]; dmat; each_block H ltac:(rcbv; try reflexivity; try ring; field; side). Qed.
Lemma lift_Dual2Vec_sub : forall i j, forall (x : Dual2Vec R) (q : R) S, In S (idx_Dual2Vec i j) -> part_Dual2Vec (x - q)%rs S = part_Dual2Vec (x - (ofF q : Dual2Vec R))%rs S.
Proof. intros i j x q S  H; destruct x as [r [[?|]] [[?|]]]; dmat; each_block H ltac:(rcbv; try reflexivity; try ring; field; side). Qed.
Lemma lift_Dual2Vec_mul : forall i j, forall (x : Dual2Vec R) (q : R) S, In S (idx_Dual2Vec i j) -> part_Dual2Vec (x * q)%rs S = part_Dual2Vec (x * (ofF q : Dual2Vec R))%rs S.
Proof. intros i j x q S  H; destruct x as [r [[?|]] [[?|]]]; dmat; each_block H ltac:(rcbv; try reflexivity; try ring; field; side). Qed.
Lemma lift_Dual2Vec_div : forall i j, forall (x : Dual2Vec R) (q : R) S, q <> 0 -> In S (idx_Dual2Vec i j) -> part_Dual2Vec (x / q)%rs S = part_Dual2Vec (x / (ofF q : Dual2Vec R))%rs S.
Proof. intros i j x q S Hq H; destruct x as [r [[?|]] [[?|]]]; dmat; each_block H ltac:(rcbv; try reflexivity; try ring; field; side). Qed.
Lemma assign_HyperDualVec_add : forall i j, forall (x y : HyperDualVec R) S, In S (idx_HyperDualVec i j) -> part_HyperDualVec (hadd_assign x y) S = part_HyperDualVec (x + y)%rs S.
Proof. intros i j x y S H; destruct x as [r [[?|]] [[?|]] [[?|]]]; dmat; rename r into r1; destruct y as [r [[?|]] [[?|]] [[?|]]]; dmat; each_block H ltac:(rcbv; try reflexivity; ring). Qed.
Lemma assign_HyperDualVec_sub : forall i j, forall (x y : HyperDualVec R) S, In S (idx_HyperDualVec i j) -> part_HyperDualVec (hsub_assign x y) S = part_HyperDualVec (x - y)%rs S.
Proof. intros i j x y S H; destruct x as [r [[?|]] [[?|]] [[?|]]]; dmat; rename r into r1; destruct y as [r [[?|]] [[?|]] [[?|]]]; dmat; each_block H ltac:(rcbv; try reflexivity; ring). Qed.
Lemma lift_HyperDualVec_add : forall i j, forall (x : HyperDualVec R) (q : R) S, In S (idx_HyperDualVec i j) -> part_HyperDualVec (x + q)%rs S = part_HyperDualVec (x + (ofF q : HyperDualVec R))%rs S.
Proof. intros i j x q S  H; destruct x as [r [[?|]] [[?|]] [[?|]]]; dmat; each_block H ltac:(rcbv; try reflexivity; try ring; field; side). Qed.
Lemma lift_HyperDualVec_sub : forall i j, forall (x : HyperDualVec R) (q : R) S, In S (idx_HyperDualVec i j) -> part_HyperDualVec (x - q)%rs S = part_HyperDualVec (x - (ofF q : HyperDualVec R))%rs S.
Proof. intros i j x q S  H; destruct x as [r [[?|]] [[?|]] [[?|]]]; dmat; each_block H ltac:(rcbv; try reflexivity; try ring; field; side). Qed.
Lemma lift_HyperDualVec_mul : forall i j, forall (x : HyperDualVec R) (q : R) S, In S (idx_HyperDualVec i j) -> part_HyperDualVec (x * q)%rs S = part_HyperDualVec (x * (ofF q : HyperDualVec R))%rs S.
Proof. intros i j x q S  H; destruct x as [r [[?|]] [[?|]] [[?|]]]; dmat; each_block H ltac:(rcbv; try reflexivity; try ring; field; side). Qed.
Lemma lift_HyperDualVec_div : forall i j, forall (x : HyperDualVec R) (q : R) S, q <> 0 -> In S (idx_HyperDualVec i j) -> part_HyperDualVec (x / q)%rs S = part_HyperDualVec (x / (ofF q : HyperDualVec R))%rs S.
Proof. intros i j x q S Hq H; destruct x as [r [[?|]] [[?|]] [[?|]]]; dmat; each_block H ltac:(rcbv; try reflexivity; try ring; field; side). Qed.
