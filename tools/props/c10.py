"""C10 -- smooth special points yield finite, correct derivatives."""
import math
import mpmath
from mpmath import mpf
import vlib, pyjet, genvals
from vlib import Case, f2b
from props.base import BaseProp, Violation

U = {64: 2.0 ** -53, 32: 2.0 ** -24}
TINY = [0.0, -0.0, 5e-324, -5e-324, 1e-300, -1e-300, 2.2250738585072014e-308]


def order_of(ty):
    o = {'Dual': 1, 'DualVec': 1, 'Dual2': 2, 'Dual2Vec': 2, 'HyperDual': 2, 'HyperDualVec': 2, 'Dual3': 3, 'HyperHyperDual': 3}
    n = 0
    while not ty.is_float:
        n += o[ty.struct]
        ty = ty.inner
    return n


def neighbours(x):
    b = f2b(x)
    out = [x]
    for d in (1, -1):
        nb = b + d
        if 0 <= nb < (1 << 64):
            y = vlib.b2f(nb)
            if y == y and abs(y) != float('inf'):
                out.append(y)
    return out


def Y0_NEGX(case):
    return genvals.real_part(case.args[0], case.ty) == 0 and genvals.real_part(case.args[1], case.ty) < 0


class Prop(BaseProp):
    coq_targets = ['ND/Proofs/C10_proofs.vo']
    extra_model_targets = ['gen/Gen_Bessel.vo', 'ND/Hand/Bessel.vo']
    extra_imports = 'From ND Require Import Bessel.\nFrom NDgen Require Import Gen_Bessel.'
    n_quick, n_thorough = 700, 12000

    def cases(self, rng, n):
        tys = genvals.type_list(self.tier, include32=False)
        out = []
        specs = []
        for e in (0, 1, 2, 3, 4, 5, 6, 10):
            specs.append(('powi', e))
        for e in (0.0, 1.0, 2.0, 3.0, 4.0, 5.0, 7.0, 1.5, 2.5, 3.5, 4.5, 6.5, 7.5, 9.5):
            specs.append(('powf', e))
        for f in ('sph_j0', 'sph_j1', 'sph_j2', 'exp_m1', 'ln_1p', 'bessel_j0', 'bessel_j1', 'bessel_j2'):
            specs.append((f, None))
        import props.c14 as c14
        Tall = vlib.types()
        btys = [Tall[t] for t in (c14.BESSEL_TYPES_QUICK if self.tier == 'quick' else c14.BESSEL_TYPES_ALL)]
        for ax in ('y0+', 'y0-', 'x0+', 'x0-'):
            specs.append(('atan2', ax))
        k = 0
        while len(out) < n:
            ty = tys[k % len(tys)]
            spec = specs[(k // len(tys)) % len(specs)] if k < len(tys) * len(specs) else rng.choice(specs)
            k += 1
            op, e = spec
            w = 64
            if op.startswith('bessel'):      # BesselDual needs Copy: the statically sized types
                ty = btys[k % len(btys)]
            x0 = rng.choice(TINY) if k % 3 else rng.choice([0.0, -0.0])
            if op == 'powi':
                a = genvals.gen_value(rng, ty, genvals.leaf_rand, re_leaf=lambda r: x0)
                out.append(Case('c%d' % len(out), ty, 'powi', [a], [e], tag='zero'))
            elif op == 'powf':
                o = order_of(ty)
                if not (float(e).is_integer() or e > o):
                    continue        # the derivative of that order is not finite at 0: outside the property
                xz = abs(x0)        # powf: non-negative bases
                a = genvals.gen_value(rng, ty, genvals.leaf_rand, re_leaf=lambda r: xz)
                out.append(Case('c%d' % len(out), ty, 'powf', [a], [f2b(e)], tag='zero'))
            elif op == 'atan2':
                c = rng.choice([1.0, 3.0, 0.25, 1e-3, 1e3])
                if e[0] == 'y':       # first operand (y) on the axis y = 0, x = +-c
                    ys, xs = rng.choice([0.0, -0.0]), (c if e[2] == '+' else -c)
                else:                 # x = 0, y = +-c
                    ys, xs = (c if e[2] == '+' else -c), rng.choice([0.0, -0.0])
                if k % 4 == 0:        # immediate neighbours of the axis
                    if e[0] == 'y':
                        ys = rng.choice([5e-324, -5e-324])
                    else:
                        xs = rng.choice([5e-324, -5e-324])
                a = genvals.gen_value(rng, ty, genvals.leaf_rand, re_leaf=lambda r: ys)
                b = genvals.gen_value(rng, ty, genvals.leaf_rand, re_leaf=lambda r: xs)
                out.append(Case('c%d' % len(out), ty, 'atan2', [a, b], tag=e))
            else:
                a = genvals.gen_value(rng, ty, genvals.leaf_rand, re_leaf=lambda r: x0)
                out.append(Case('c%d' % len(out), ty, op, [a], tag='zero'))
        return out

    def reference(self, case, conv):
        J = pyjet.jet_of_value(case.args[0], case.ty, conv)
        n = J.order()
        x = J.re
        op = case.op
        if op in ('powi', 'powf'):
            e = case.aux[0] if op == 'powi' else conv(case.aux[0])
            d, c = [], mpf(1)
            for k in range(n + 2):
                if c == 0:
                    d.append(mpf(0))
                elif e - k == 0:
                    d.append(c)
                else:
                    d.append(c * mpmath.power(x, e - k) if (x != 0 or e - k > 0) else mpf('inf'))
                c = c * (e - k)
            return J.compose(d), J.compose_abs(d)
        if op.startswith('sph_j'):
            tw = pyjet.sph_tower(int(op[-1]), n + 1)
            d = [f(x) for f in tw]
            return J.compose(d), J.compose_abs(d)
        if op == 'atan2':
            Y, X = J, pyjet.jet_of_value(case.args[1], case.ty, conv)
            if abs(X.re) >= abs(Y.re):
                Q = Y / X
                R, Rs = pyjet.apply_unary('atan', Q)
            else:
                Q = X / Y
                R, Rs = pyjet.apply_unary('atan', Q)
                R, Rs = -R, Rs
            R.p[()] = mpmath.atan2(Y.re, X.re)
            Rs.p[()] = abs(R.p[()])
            # scale: atan2 is a composition (quotient, then atan).  Where the quotient is inside the margined domain of the running-error machinery of C03,
            # the scale is that first-order bound (it accounts for the rounding of the quotient's own parts); elsewhere the outer step only
            try:
                u = mpf(U[64])
                num, den = (Y, X) if abs(X.re) >= abs(Y.re) else (X, Y)
                e = pyjet.ej_unary('atan', pyjet.ej_binary('div', pyjet.ej_exact(num), pyjet.ej_exact(den), u), u)
                for S in Rs.fam:
                    if S:
                        Rs.p[S] = max(Rs.p[S], e.err[S] / (64 * u))
            except pyjet.DomainError:
                pass
            return R, Rs
        return pyjet.apply_unary(op, J)

    def oracle(self, case, impl):
        w = 64
        conv = lambda b: pyjet.mpf_of_bits(b, w)
        if impl == 'panic':
            return Violation('counterexample', '%s on %s panics at a special point' % (case.op, case.ty), case=case, obtained='panic')
        if case.op.startswith('bessel'):
            # cylindrical Bessel functions: the accuracy model of C14 (derivatives of a rational approximation), every part finite
            import props.c14 as c14
            return c14.Prop.oracle(self, case, impl)
        ref, scale = self.reference(case, conv)
        fmin = mpf(2) ** -1022
        fmax = mpf(2) ** 1024
        lim = order_of(case.ty)
        for S in ref.fam:
            want = ref[S]
            if not mpmath.isfinite(want) or abs(want) >= fmax or scale[S] >= fmax:
                continue
            b = pyjet.part_bits(impl, case.ty, S)
            desc = '%s%s on %s at %s' % (case.op, '(%s)' % (case.aux[0] if case.op == 'powi' else vlib.b2f(case.aux[0])) if case.aux else '', case.ty,
                                          ', '.join(repr(genvals.real_part(a, case.ty)) for a in case.args))
            if b == vlib.NAN:
                return Violation('counterexample', '%s: part %s is NaN, mathematical value %s' % (desc, S, mpmath.nstr(want, 12)), case=case,
                                 expected=mpmath.nstr(want, 20), obtained='NaN', detail={'block': str(S)})
            got = conv(b)
            if not mpmath.isfinite(got):
                return Violation('counterexample', '%s: part %s is %s, mathematical value %s' % (desc, S, got, mpmath.nstr(want, 12)), case=case,
                                 expected=mpmath.nstr(want, 20), obtained=str(got), detail={'block': str(S)})
            # atan2 is a composition (quotient, then atan): its scale only accounts for the outer step, so the constant is larger
            tol = (1024 if case.op == 'atan2' else 64) * U[w] * scale[S] + fmin
            if case.op == 'atan2' and S == () and Y0_NEGX(case):
                got, want = abs(got), abs(want)      # on the branch cut the sign of pi follows the sign of the zero
            if abs(got - want) > tol:
                return Violation('counterexample', '%s: part %s = %s, mathematical value %s' % (desc, S, mpmath.nstr(got, 17), mpmath.nstr(want, 17)), case=case,
                                 expected=mpmath.nstr(want, 25), obtained=mpmath.nstr(got, 25), detail={'block': str(S)})
        return None

    def finding_env(self, c):
        env = BaseProp.finding_env(self, c)
        env['order'] = order_of(c.ty)
        return env

    def nontrivial(self, case, impl):
        return impl != 'panic'

    def rule_text(self):
        return ('enumerated special points x every type of the tier matrix: powi n in {0..6,10} and powf with integer or beyond-order exponents at +-0, the smallest '
                'subnormals and tiny normals; sph_j0/1/2, bessel_j0/1/2 (statically sized types), exp_m1, ln_1p at the same points; atan2 on both axes (both signs, signed zeros) and their immediate neighbours; '
                'derivative parts independent random; oracle: every part finite and within 64 u Sum|terms| of the mathematical jet (series / closed forms in 60-digit arithmetic)')
