(* Props/C11.v -- property C11: dual numbers satisfy nalgebra's real-field contract.  Written by tools/coqgen/gen_c11.py. *)
From ND Require Import C11_proofs.
From ND Require Import Overload Float Mat Opt Wire.
From NDgen Require Import Classes Gen_Float Gen_Derivative Gen_Dual Gen_Dual2 Gen_Dual3 Gen_HyperDual Gen_HyperHyperDual Gen_DualVec Gen_Dual2Vec Gen_HyperDualVec Gen_Field.
Local Open Scope rs_scope.
Section C11.
Context {F T : Type} {dnFT : DN F T} {ordT : DNOrd T}.
#[local] Instance flF_c11p : FL F := dn_fl (T:=T).
Theorem C11_const_Dual_pi : Dual_RealField_pi = Dual_from_re (ofF (fl_const C_PI : F) : T).
Proof. exact const_Dual_pi. Qed.
Theorem C11_const_Dual_two_pi : Dual_RealField_two_pi = Dual_from_re (ofF (fl_const C_TAU : F) : T).
Proof. exact const_Dual_two_pi. Qed.
Theorem C11_const_Dual_frac_pi_2 : Dual_RealField_frac_pi_2 = Dual_from_re (ofF (fl_const C_FRAC_PI_2 : F) : T).
Proof. exact const_Dual_frac_pi_2. Qed.
Theorem C11_const_Dual_frac_pi_3 : Dual_RealField_frac_pi_3 = Dual_from_re (ofF (fl_const C_FRAC_PI_3 : F) : T).
Proof. exact const_Dual_frac_pi_3. Qed.
Theorem C11_const_Dual_frac_pi_4 : Dual_RealField_frac_pi_4 = Dual_from_re (ofF (fl_const C_FRAC_PI_4 : F) : T).
Proof. exact const_Dual_frac_pi_4. Qed.
Theorem C11_const_Dual_frac_pi_6 : Dual_RealField_frac_pi_6 = Dual_from_re (ofF (fl_const C_FRAC_PI_6 : F) : T).
Proof. exact const_Dual_frac_pi_6. Qed.
Theorem C11_const_Dual_frac_pi_8 : Dual_RealField_frac_pi_8 = Dual_from_re (ofF (fl_const C_FRAC_PI_8 : F) : T).
Proof. exact const_Dual_frac_pi_8. Qed.
Theorem C11_const_Dual_frac_1_pi : Dual_RealField_frac_1_pi = Dual_from_re (ofF (fl_const C_FRAC_1_PI : F) : T).
Proof. exact const_Dual_frac_1_pi. Qed.
Theorem C11_const_Dual_frac_2_pi : Dual_RealField_frac_2_pi = Dual_from_re (ofF (fl_const C_FRAC_2_PI : F) : T).
Proof. exact const_Dual_frac_2_pi. Qed.
Theorem C11_const_Dual_frac_2_sqrt_pi : Dual_RealField_frac_2_sqrt_pi = Dual_from_re (ofF (fl_const C_FRAC_2_SQRT_PI : F) : T).
Proof. exact const_Dual_frac_2_sqrt_pi. Qed.
Theorem C11_const_Dual_e : Dual_RealField_e = Dual_from_re (ofF (fl_const C_E : F) : T).
Proof. exact const_Dual_e. Qed.
Theorem C11_const_Dual_log2_e : Dual_RealField_log2_e = Dual_from_re (ofF (fl_const C_LOG2_E : F) : T).
Proof. exact const_Dual_log2_e. Qed.
Theorem C11_const_Dual_log10_e : Dual_RealField_log10_e = Dual_from_re (ofF (fl_const C_LOG10_E : F) : T).
Proof. exact const_Dual_log10_e. Qed.
Theorem C11_const_Dual_ln_2 : Dual_RealField_ln_2 = Dual_from_re (ofF (fl_const C_LN_2 : F) : T).
Proof. exact const_Dual_ln_2. Qed.
Theorem C11_const_Dual_ln_10 : Dual_RealField_ln_10 = Dual_from_re (ofF (fl_const C_LN_10 : F) : T).
Proof. exact const_Dual_ln_10. Qed.
Theorem C11_fwd_Dual_recip : forall x : Dual T, Dual_ComplexField_recip x = m_recip x.
Proof. exact fwd_Dual_recip. Qed.
Theorem C11_fwd_Dual_sin : forall x : Dual T, Dual_ComplexField_sin x = m_sin x.
Proof. exact fwd_Dual_sin. Qed.
Theorem C11_fwd_Dual_cos : forall x : Dual T, Dual_ComplexField_cos x = m_cos x.
Proof. exact fwd_Dual_cos. Qed.
Theorem C11_fwd_Dual_tan : forall x : Dual T, Dual_ComplexField_tan x = m_tan x.
Proof. exact fwd_Dual_tan. Qed.
Theorem C11_fwd_Dual_asin : forall x : Dual T, Dual_ComplexField_asin x = m_asin x.
Proof. exact fwd_Dual_asin. Qed.
Theorem C11_fwd_Dual_acos : forall x : Dual T, Dual_ComplexField_acos x = m_acos x.
Proof. exact fwd_Dual_acos. Qed.
Theorem C11_fwd_Dual_atan : forall x : Dual T, Dual_ComplexField_atan x = m_atan x.
Proof. exact fwd_Dual_atan. Qed.
Theorem C11_fwd_Dual_sinh : forall x : Dual T, Dual_ComplexField_sinh x = m_sinh x.
Proof. exact fwd_Dual_sinh. Qed.
Theorem C11_fwd_Dual_cosh : forall x : Dual T, Dual_ComplexField_cosh x = m_cosh x.
Proof. exact fwd_Dual_cosh. Qed.
Theorem C11_fwd_Dual_tanh : forall x : Dual T, Dual_ComplexField_tanh x = m_tanh x.
Proof. exact fwd_Dual_tanh. Qed.
Theorem C11_fwd_Dual_asinh : forall x : Dual T, Dual_ComplexField_asinh x = m_asinh x.
Proof. exact fwd_Dual_asinh. Qed.
Theorem C11_fwd_Dual_acosh : forall x : Dual T, Dual_ComplexField_acosh x = m_acosh x.
Proof. exact fwd_Dual_acosh. Qed.
Theorem C11_fwd_Dual_atanh : forall x : Dual T, Dual_ComplexField_atanh x = m_atanh x.
Proof. exact fwd_Dual_atanh. Qed.
Theorem C11_fwd_Dual_log2 : forall x : Dual T, Dual_ComplexField_log2 x = m_log2 x.
Proof. exact fwd_Dual_log2. Qed.
Theorem C11_fwd_Dual_log10 : forall x : Dual T, Dual_ComplexField_log10 x = m_log10 x.
Proof. exact fwd_Dual_log10. Qed.
Theorem C11_fwd_Dual_ln : forall x : Dual T, Dual_ComplexField_ln x = m_ln x.
Proof. exact fwd_Dual_ln. Qed.
Theorem C11_fwd_Dual_ln_1p : forall x : Dual T, Dual_ComplexField_ln_1p x = m_ln_1p x.
Proof. exact fwd_Dual_ln_1p. Qed.
Theorem C11_fwd_Dual_sqrt : forall x : Dual T, Dual_ComplexField_sqrt x = m_sqrt x.
Proof. exact fwd_Dual_sqrt. Qed.
Theorem C11_fwd_Dual_exp : forall x : Dual T, Dual_ComplexField_exp x = m_exp x.
Proof. exact fwd_Dual_exp. Qed.
Theorem C11_fwd_Dual_exp2 : forall x : Dual T, Dual_ComplexField_exp2 x = m_exp2 x.
Proof. exact fwd_Dual_exp2. Qed.
Theorem C11_fwd_Dual_exp_m1 : forall x : Dual T, Dual_ComplexField_exp_m1 x = m_exp_m1 x.
Proof. exact fwd_Dual_exp_m1. Qed.
Theorem C11_fwd_Dual_cbrt : forall x : Dual T, Dual_ComplexField_cbrt x = m_cbrt x.
Proof. exact fwd_Dual_cbrt. Qed.
Theorem C11_fwd_Dual_sin_cos : forall x : Dual T, Dual_ComplexField_sin_cos x = m_sin_cos x.
Proof. exact fwd_Dual_sin_cos. Qed.
Theorem C11_fwd_Dual_real : forall x : Dual T, Dual_ComplexField_real x = x.
Proof. exact fwd_Dual_real. Qed.
Theorem C11_fwd_Dual_conjugate : forall x : Dual T, Dual_ComplexField_conjugate x = x.
Proof. exact fwd_Dual_conjugate. Qed.
Theorem C11_fwd_Dual_from_real : forall x : Dual T, Dual_ComplexField_from_real x = x.
Proof. exact fwd_Dual_from_real. Qed.
Theorem C11_fwd_Dual_imaginary : forall x : Dual T, Dual_ComplexField_imaginary x = (zero : Dual T).
Proof. exact fwd_Dual_imaginary. Qed.
Theorem C11_fwd_Dual_modulus : forall x : Dual T, Dual_ComplexField_modulus x = m_abs x.
Proof. exact fwd_Dual_modulus. Qed.
Theorem C11_fwd_Dual_norm1 : forall x : Dual T, Dual_ComplexField_norm1 x = m_abs x.
Proof. exact fwd_Dual_norm1. Qed.
Theorem C11_fwd_Dual_abs : forall x : Dual T, Dual_ComplexField_abs x = m_abs x.
Proof. exact fwd_Dual_abs. Qed.
Theorem C11_fwd_Dual_modulus_squared : forall x : Dual T, Dual_ComplexField_modulus_squared x = x * x.
Proof. exact fwd_Dual_modulus_squared. Qed.
Theorem C11_fwd_Dual_argument : forall x : Dual T, Dual_ComplexField_argument x = if ((zero : T) <=? Dual_f_re x) then (zero : Dual T) else Dual_from_re (ofF (fl_const C_PI : F) : T).
Proof. exact fwd_Dual_argument. Qed.
Theorem C11_fwd_Dual_scale : forall x f : Dual T, Dual_ComplexField_scale x f = x * f /\ Dual_ComplexField_unscale x f = x / f.
Proof. exact fwd_Dual_scale. Qed.
Theorem C11_fwd_Dual_hypot : forall x y : Dual T, Dual_ComplexField_hypot x y = m_sqrt (m_powi x 2%Z + m_powi y 2%Z).
Proof. exact fwd_Dual_hypot. Qed.
Theorem C11_fwd_Dual_log : forall x b : Dual T, Dual_ComplexField_log x b = m_ln x / m_ln b.
Proof. exact fwd_Dual_log. Qed.
Theorem C11_fwd_Dual_pow : forall (x n : Dual T) (k : Z), Dual_ComplexField_powf x n = m_powd x n /\ Dual_ComplexField_powc x n = m_powd x n /\ Dual_ComplexField_powi x k = m_powi x k.
Proof. exact fwd_Dual_pow. Qed.
Theorem C11_fwd_Dual_mul_add : forall x a b : Dual T, Dual_ComplexField_mul_add x a b = m_mul_add x a b.
Proof. exact fwd_Dual_mul_add. Qed.
Theorem C11_fwd_Dual_atan2 : forall y x : Dual T, Dual_RealField_atan2 y x = m_atan2 y x.
Proof. exact fwd_Dual_atan2. Qed.
Theorem C11_sel_Dual_max_min : forall x y : Dual T, (Dual_RealField_max x y = x \/ Dual_RealField_max x y = y) /\ (Dual_RealField_min x y = x \/ Dual_RealField_min x y = y).
Proof. exact sel_Dual_max_min. Qed.
Theorem C11_sel_Dual_clamp : forall x lo hi : Dual T, Dual_RealField_clamp x lo hi = x \/ Dual_RealField_clamp x lo hi = lo \/ Dual_RealField_clamp x lo hi = hi.
Proof. exact sel_Dual_clamp. Qed.
Theorem C11_sel_Dual_copysign : forall x s : Dual T, Dual_RealField_copysign x s = m_abs x \/ Dual_RealField_copysign x s = - (m_abs x).
Proof. exact sel_Dual_copysign. Qed.
Theorem C11_sign_Dual : forall x : Dual T, Dual_RealField_is_sign_positive x = fl_sign_pos (m_re (Dual_f_re x)) /\ Dual_RealField_is_sign_negative x = negb (fl_sign_pos (m_re (Dual_f_re x))).
Proof. exact sign_Dual. Qed.
Theorem C11_const_Dual2_pi : Dual2_RealField_pi = Dual2_from_re (ofF (fl_const C_PI : F) : T).
Proof. exact const_Dual2_pi. Qed.
Theorem C11_const_Dual2_two_pi : Dual2_RealField_two_pi = Dual2_from_re (ofF (fl_const C_TAU : F) : T).
Proof. exact const_Dual2_two_pi. Qed.
Theorem C11_const_Dual2_frac_pi_2 : Dual2_RealField_frac_pi_2 = Dual2_from_re (ofF (fl_const C_FRAC_PI_2 : F) : T).
Proof. exact const_Dual2_frac_pi_2. Qed.
Theorem C11_const_Dual2_frac_pi_3 : Dual2_RealField_frac_pi_3 = Dual2_from_re (ofF (fl_const C_FRAC_PI_3 : F) : T).
Proof. exact const_Dual2_frac_pi_3. Qed.
Theorem C11_const_Dual2_frac_pi_4 : Dual2_RealField_frac_pi_4 = Dual2_from_re (ofF (fl_const C_FRAC_PI_4 : F) : T).
Proof. exact const_Dual2_frac_pi_4. Qed.
Theorem C11_const_Dual2_frac_pi_6 : Dual2_RealField_frac_pi_6 = Dual2_from_re (ofF (fl_const C_FRAC_PI_6 : F) : T).
Proof. exact const_Dual2_frac_pi_6. Qed.
Theorem C11_const_Dual2_frac_pi_8 : Dual2_RealField_frac_pi_8 = Dual2_from_re (ofF (fl_const C_FRAC_PI_8 : F) : T).
Proof. exact const_Dual2_frac_pi_8. Qed.
Theorem C11_const_Dual2_frac_1_pi : Dual2_RealField_frac_1_pi = Dual2_from_re (ofF (fl_const C_FRAC_1_PI : F) : T).
Proof. exact const_Dual2_frac_1_pi. Qed.
Theorem C11_const_Dual2_frac_2_pi : Dual2_RealField_frac_2_pi = Dual2_from_re (ofF (fl_const C_FRAC_2_PI : F) : T).
Proof. exact const_Dual2_frac_2_pi. Qed.
Theorem C11_const_Dual2_frac_2_sqrt_pi : Dual2_RealField_frac_2_sqrt_pi = Dual2_from_re (ofF (fl_const C_FRAC_2_SQRT_PI : F) : T).
Proof. exact const_Dual2_frac_2_sqrt_pi. Qed.
Theorem C11_const_Dual2_e : Dual2_RealField_e = Dual2_from_re (ofF (fl_const C_E : F) : T).
Proof. exact const_Dual2_e. Qed.
Theorem C11_const_Dual2_log2_e : Dual2_RealField_log2_e = Dual2_from_re (ofF (fl_const C_LOG2_E : F) : T).
Proof. exact const_Dual2_log2_e. Qed.
Theorem C11_const_Dual2_log10_e : Dual2_RealField_log10_e = Dual2_from_re (ofF (fl_const C_LOG10_E : F) : T).
Proof. exact const_Dual2_log10_e. Qed.
Theorem C11_const_Dual2_ln_2 : Dual2_RealField_ln_2 = Dual2_from_re (ofF (fl_const C_LN_2 : F) : T).
Proof. exact const_Dual2_ln_2. Qed.
Theorem C11_const_Dual2_ln_10 : Dual2_RealField_ln_10 = Dual2_from_re (ofF (fl_const C_LN_10 : F) : T).
Proof. exact const_Dual2_ln_10. Qed.
Theorem C11_fwd_Dual2_recip : forall x : Dual2 T, Dual2_ComplexField_recip x = m_recip x.
Proof. exact fwd_Dual2_recip. Qed.
Theorem C11_fwd_Dual2_sin : forall x : Dual2 T, Dual2_ComplexField_sin x = m_sin x.
Proof. exact fwd_Dual2_sin. Qed.
Theorem C11_fwd_Dual2_cos : forall x : Dual2 T, Dual2_ComplexField_cos x = m_cos x.
Proof. exact fwd_Dual2_cos. Qed.
Theorem C11_fwd_Dual2_tan : forall x : Dual2 T, Dual2_ComplexField_tan x = m_tan x.
Proof. exact fwd_Dual2_tan. Qed.
Theorem C11_fwd_Dual2_asin : forall x : Dual2 T, Dual2_ComplexField_asin x = m_asin x.
Proof. exact fwd_Dual2_asin. Qed.
Theorem C11_fwd_Dual2_acos : forall x : Dual2 T, Dual2_ComplexField_acos x = m_acos x.
Proof. exact fwd_Dual2_acos. Qed.
Theorem C11_fwd_Dual2_atan : forall x : Dual2 T, Dual2_ComplexField_atan x = m_atan x.
Proof. exact fwd_Dual2_atan. Qed.
Theorem C11_fwd_Dual2_sinh : forall x : Dual2 T, Dual2_ComplexField_sinh x = m_sinh x.
Proof. exact fwd_Dual2_sinh. Qed.
Theorem C11_fwd_Dual2_cosh : forall x : Dual2 T, Dual2_ComplexField_cosh x = m_cosh x.
Proof. exact fwd_Dual2_cosh. Qed.
Theorem C11_fwd_Dual2_tanh : forall x : Dual2 T, Dual2_ComplexField_tanh x = m_tanh x.
Proof. exact fwd_Dual2_tanh. Qed.
Theorem C11_fwd_Dual2_asinh : forall x : Dual2 T, Dual2_ComplexField_asinh x = m_asinh x.
Proof. exact fwd_Dual2_asinh. Qed.
Theorem C11_fwd_Dual2_acosh : forall x : Dual2 T, Dual2_ComplexField_acosh x = m_acosh x.
Proof. exact fwd_Dual2_acosh. Qed.
Theorem C11_fwd_Dual2_atanh : forall x : Dual2 T, Dual2_ComplexField_atanh x = m_atanh x.
Proof. exact fwd_Dual2_atanh. Qed.
Theorem C11_fwd_Dual2_log2 : forall x : Dual2 T, Dual2_ComplexField_log2 x = m_log2 x.
Proof. exact fwd_Dual2_log2. Qed.
Theorem C11_fwd_Dual2_log10 : forall x : Dual2 T, Dual2_ComplexField_log10 x = m_log10 x.
Proof. exact fwd_Dual2_log10. Qed.
Theorem C11_fwd_Dual2_ln : forall x : Dual2 T, Dual2_ComplexField_ln x = m_ln x.
Proof. exact fwd_Dual2_ln. Qed.
Theorem C11_fwd_Dual2_ln_1p : forall x : Dual2 T, Dual2_ComplexField_ln_1p x = m_ln_1p x.
Proof. exact fwd_Dual2_ln_1p. Qed.
Theorem C11_fwd_Dual2_sqrt : forall x : Dual2 T, Dual2_ComplexField_sqrt x = m_sqrt x.
Proof. exact fwd_Dual2_sqrt. Qed.
Theorem C11_fwd_Dual2_exp : forall x : Dual2 T, Dual2_ComplexField_exp x = m_exp x.
Proof. exact fwd_Dual2_exp. Qed.
Theorem C11_fwd_Dual2_exp2 : forall x : Dual2 T, Dual2_ComplexField_exp2 x = m_exp2 x.
Proof. exact fwd_Dual2_exp2. Qed.
Theorem C11_fwd_Dual2_exp_m1 : forall x : Dual2 T, Dual2_ComplexField_exp_m1 x = m_exp_m1 x.
Proof. exact fwd_Dual2_exp_m1. Qed.
Theorem C11_fwd_Dual2_cbrt : forall x : Dual2 T, Dual2_ComplexField_cbrt x = m_cbrt x.
Proof. exact fwd_Dual2_cbrt. Qed.
Theorem C11_fwd_Dual2_sin_cos : forall x : Dual2 T, Dual2_ComplexField_sin_cos x = m_sin_cos x.
Proof. exact fwd_Dual2_sin_cos. Qed.
Theorem C11_fwd_Dual2_real : forall x : Dual2 T, Dual2_ComplexField_real x = x.
Proof. exact fwd_Dual2_real. Qed.
Theorem C11_fwd_Dual2_conjugate : forall x : Dual2 T, Dual2_ComplexField_conjugate x = x.
Proof. exact fwd_Dual2_conjugate. Qed.
Theorem C11_fwd_Dual2_from_real : forall x : Dual2 T, Dual2_ComplexField_from_real x = x.
Proof. exact fwd_Dual2_from_real. Qed.
Theorem C11_fwd_Dual2_imaginary : forall x : Dual2 T, Dual2_ComplexField_imaginary x = (zero : Dual2 T).
Proof. exact fwd_Dual2_imaginary. Qed.
Theorem C11_fwd_Dual2_modulus : forall x : Dual2 T, Dual2_ComplexField_modulus x = m_abs x.
Proof. exact fwd_Dual2_modulus. Qed.
Theorem C11_fwd_Dual2_norm1 : forall x : Dual2 T, Dual2_ComplexField_norm1 x = m_abs x.
Proof. exact fwd_Dual2_norm1. Qed.
Theorem C11_fwd_Dual2_abs : forall x : Dual2 T, Dual2_ComplexField_abs x = m_abs x.
Proof. exact fwd_Dual2_abs. Qed.
Theorem C11_fwd_Dual2_modulus_squared : forall x : Dual2 T, Dual2_ComplexField_modulus_squared x = x * x.
Proof. exact fwd_Dual2_modulus_squared. Qed.
Theorem C11_fwd_Dual2_argument : forall x : Dual2 T, Dual2_ComplexField_argument x = if ((zero : T) <=? Dual2_f_re x) then (zero : Dual2 T) else Dual2_from_re (ofF (fl_const C_PI : F) : T).
Proof. exact fwd_Dual2_argument. Qed.
Theorem C11_fwd_Dual2_scale : forall x f : Dual2 T, Dual2_ComplexField_scale x f = x * f /\ Dual2_ComplexField_unscale x f = x / f.
Proof. exact fwd_Dual2_scale. Qed.
Theorem C11_fwd_Dual2_hypot : forall x y : Dual2 T, Dual2_ComplexField_hypot x y = m_sqrt (m_powi x 2%Z + m_powi y 2%Z).
Proof. exact fwd_Dual2_hypot. Qed.
Theorem C11_fwd_Dual2_log : forall x b : Dual2 T, Dual2_ComplexField_log x b = m_ln x / m_ln b.
Proof. exact fwd_Dual2_log. Qed.
Theorem C11_fwd_Dual2_pow : forall (x n : Dual2 T) (k : Z), Dual2_ComplexField_powf x n = m_powd x n /\ Dual2_ComplexField_powc x n = m_powd x n /\ Dual2_ComplexField_powi x k = m_powi x k.
Proof. exact fwd_Dual2_pow. Qed.
Theorem C11_fwd_Dual2_mul_add : forall x a b : Dual2 T, Dual2_ComplexField_mul_add x a b = m_mul_add x a b.
Proof. exact fwd_Dual2_mul_add. Qed.
Theorem C11_fwd_Dual2_atan2 : forall y x : Dual2 T, Dual2_RealField_atan2 y x = m_atan2 y x.
Proof. exact fwd_Dual2_atan2. Qed.
Theorem C11_sel_Dual2_max_min : forall x y : Dual2 T, (Dual2_RealField_max x y = x \/ Dual2_RealField_max x y = y) /\ (Dual2_RealField_min x y = x \/ Dual2_RealField_min x y = y).
Proof. exact sel_Dual2_max_min. Qed.
Theorem C11_sel_Dual2_clamp : forall x lo hi : Dual2 T, Dual2_RealField_clamp x lo hi = x \/ Dual2_RealField_clamp x lo hi = lo \/ Dual2_RealField_clamp x lo hi = hi.
Proof. exact sel_Dual2_clamp. Qed.
Theorem C11_sel_Dual2_copysign : forall x s : Dual2 T, Dual2_RealField_copysign x s = m_abs x \/ Dual2_RealField_copysign x s = - (m_abs x).
Proof. exact sel_Dual2_copysign. Qed.
Theorem C11_sign_Dual2 : forall x : Dual2 T, Dual2_RealField_is_sign_positive x = fl_sign_pos (m_re (Dual2_f_re x)) /\ Dual2_RealField_is_sign_negative x = negb (fl_sign_pos (m_re (Dual2_f_re x))).
Proof. exact sign_Dual2. Qed.
Theorem C11_const_DualVec_pi : DualVec_RealField_pi = DualVec_from_re (ofF (fl_const C_PI : F) : T).
Proof. exact const_DualVec_pi. Qed.
Theorem C11_const_DualVec_two_pi : DualVec_RealField_two_pi = DualVec_from_re (ofF (fl_const C_TAU : F) : T).
Proof. exact const_DualVec_two_pi. Qed.
Theorem C11_const_DualVec_frac_pi_2 : DualVec_RealField_frac_pi_2 = DualVec_from_re (ofF (fl_const C_FRAC_PI_2 : F) : T).
Proof. exact const_DualVec_frac_pi_2. Qed.
Theorem C11_const_DualVec_frac_pi_3 : DualVec_RealField_frac_pi_3 = DualVec_from_re (ofF (fl_const C_FRAC_PI_3 : F) : T).
Proof. exact const_DualVec_frac_pi_3. Qed.
Theorem C11_const_DualVec_frac_pi_4 : DualVec_RealField_frac_pi_4 = DualVec_from_re (ofF (fl_const C_FRAC_PI_4 : F) : T).
Proof. exact const_DualVec_frac_pi_4. Qed.
Theorem C11_const_DualVec_frac_pi_6 : DualVec_RealField_frac_pi_6 = DualVec_from_re (ofF (fl_const C_FRAC_PI_6 : F) : T).
Proof. exact const_DualVec_frac_pi_6. Qed.
Theorem C11_const_DualVec_frac_pi_8 : DualVec_RealField_frac_pi_8 = DualVec_from_re (ofF (fl_const C_FRAC_PI_8 : F) : T).
Proof. exact const_DualVec_frac_pi_8. Qed.
Theorem C11_const_DualVec_frac_1_pi : DualVec_RealField_frac_1_pi = DualVec_from_re (ofF (fl_const C_FRAC_1_PI : F) : T).
Proof. exact const_DualVec_frac_1_pi. Qed.
Theorem C11_const_DualVec_frac_2_pi : DualVec_RealField_frac_2_pi = DualVec_from_re (ofF (fl_const C_FRAC_2_PI : F) : T).
Proof. exact const_DualVec_frac_2_pi. Qed.
Theorem C11_const_DualVec_frac_2_sqrt_pi : DualVec_RealField_frac_2_sqrt_pi = DualVec_from_re (ofF (fl_const C_FRAC_2_SQRT_PI : F) : T).
Proof. exact const_DualVec_frac_2_sqrt_pi. Qed.
Theorem C11_const_DualVec_e : DualVec_RealField_e = DualVec_from_re (ofF (fl_const C_E : F) : T).
Proof. exact const_DualVec_e. Qed.
Theorem C11_const_DualVec_log2_e : DualVec_RealField_log2_e = DualVec_from_re (ofF (fl_const C_LOG2_E : F) : T).
Proof. exact const_DualVec_log2_e. Qed.
Theorem C11_const_DualVec_log10_e : DualVec_RealField_log10_e = DualVec_from_re (ofF (fl_const C_LOG10_E : F) : T).
Proof. exact const_DualVec_log10_e. Qed.
Theorem C11_const_DualVec_ln_2 : DualVec_RealField_ln_2 = DualVec_from_re (ofF (fl_const C_LN_2 : F) : T).
Proof. exact const_DualVec_ln_2. Qed.
Theorem C11_const_DualVec_ln_10 : DualVec_RealField_ln_10 = DualVec_from_re (ofF (fl_const C_LN_10 : F) : T).
Proof. exact const_DualVec_ln_10. Qed.
Theorem C11_fwd_DualVec_recip : forall x : DualVec T, DualVec_ComplexField_recip x = m_recip x.
Proof. exact fwd_DualVec_recip. Qed.
Theorem C11_fwd_DualVec_sin : forall x : DualVec T, DualVec_ComplexField_sin x = m_sin x.
Proof. exact fwd_DualVec_sin. Qed.
Theorem C11_fwd_DualVec_cos : forall x : DualVec T, DualVec_ComplexField_cos x = m_cos x.
Proof. exact fwd_DualVec_cos. Qed.
Theorem C11_fwd_DualVec_tan : forall x : DualVec T, DualVec_ComplexField_tan x = m_tan x.
Proof. exact fwd_DualVec_tan. Qed.
Theorem C11_fwd_DualVec_asin : forall x : DualVec T, DualVec_ComplexField_asin x = m_asin x.
Proof. exact fwd_DualVec_asin. Qed.
Theorem C11_fwd_DualVec_acos : forall x : DualVec T, DualVec_ComplexField_acos x = m_acos x.
Proof. exact fwd_DualVec_acos. Qed.
Theorem C11_fwd_DualVec_atan : forall x : DualVec T, DualVec_ComplexField_atan x = m_atan x.
Proof. exact fwd_DualVec_atan. Qed.
Theorem C11_fwd_DualVec_sinh : forall x : DualVec T, DualVec_ComplexField_sinh x = m_sinh x.
Proof. exact fwd_DualVec_sinh. Qed.
Theorem C11_fwd_DualVec_cosh : forall x : DualVec T, DualVec_ComplexField_cosh x = m_cosh x.
Proof. exact fwd_DualVec_cosh. Qed.
Theorem C11_fwd_DualVec_tanh : forall x : DualVec T, DualVec_ComplexField_tanh x = m_tanh x.
Proof. exact fwd_DualVec_tanh. Qed.
Theorem C11_fwd_DualVec_asinh : forall x : DualVec T, DualVec_ComplexField_asinh x = m_asinh x.
Proof. exact fwd_DualVec_asinh. Qed.
Theorem C11_fwd_DualVec_acosh : forall x : DualVec T, DualVec_ComplexField_acosh x = m_acosh x.
Proof. exact fwd_DualVec_acosh. Qed.
Theorem C11_fwd_DualVec_atanh : forall x : DualVec T, DualVec_ComplexField_atanh x = m_atanh x.
Proof. exact fwd_DualVec_atanh. Qed.
Theorem C11_fwd_DualVec_log2 : forall x : DualVec T, DualVec_ComplexField_log2 x = m_log2 x.
Proof. exact fwd_DualVec_log2. Qed.
Theorem C11_fwd_DualVec_log10 : forall x : DualVec T, DualVec_ComplexField_log10 x = m_log10 x.
Proof. exact fwd_DualVec_log10. Qed.
Theorem C11_fwd_DualVec_ln : forall x : DualVec T, DualVec_ComplexField_ln x = m_ln x.
Proof. exact fwd_DualVec_ln. Qed.
Theorem C11_fwd_DualVec_ln_1p : forall x : DualVec T, DualVec_ComplexField_ln_1p x = m_ln_1p x.
Proof. exact fwd_DualVec_ln_1p. Qed.
Theorem C11_fwd_DualVec_sqrt : forall x : DualVec T, DualVec_ComplexField_sqrt x = m_sqrt x.
Proof. exact fwd_DualVec_sqrt. Qed.
Theorem C11_fwd_DualVec_exp : forall x : DualVec T, DualVec_ComplexField_exp x = m_exp x.
Proof. exact fwd_DualVec_exp. Qed.
Theorem C11_fwd_DualVec_exp2 : forall x : DualVec T, DualVec_ComplexField_exp2 x = m_exp2 x.
Proof. exact fwd_DualVec_exp2. Qed.
Theorem C11_fwd_DualVec_exp_m1 : forall x : DualVec T, DualVec_ComplexField_exp_m1 x = m_exp_m1 x.
Proof. exact fwd_DualVec_exp_m1. Qed.
Theorem C11_fwd_DualVec_cbrt : forall x : DualVec T, DualVec_ComplexField_cbrt x = m_cbrt x.
Proof. exact fwd_DualVec_cbrt. Qed.
Theorem C11_fwd_DualVec_sin_cos : forall x : DualVec T, DualVec_ComplexField_sin_cos x = m_sin_cos x.
Proof. exact fwd_DualVec_sin_cos. Qed.
Theorem C11_fwd_DualVec_real : forall x : DualVec T, DualVec_ComplexField_real x = x.
Proof. exact fwd_DualVec_real. Qed.
Theorem C11_fwd_DualVec_conjugate : forall x : DualVec T, DualVec_ComplexField_conjugate x = x.
Proof. exact fwd_DualVec_conjugate. Qed.
Theorem C11_fwd_DualVec_from_real : forall x : DualVec T, DualVec_ComplexField_from_real x = x.
Proof. exact fwd_DualVec_from_real. Qed.
Theorem C11_fwd_DualVec_imaginary : forall x : DualVec T, DualVec_ComplexField_imaginary x = (zero : DualVec T).
Proof. exact fwd_DualVec_imaginary. Qed.
Theorem C11_fwd_DualVec_modulus : forall x : DualVec T, DualVec_ComplexField_modulus x = m_abs x.
Proof. exact fwd_DualVec_modulus. Qed.
Theorem C11_fwd_DualVec_norm1 : forall x : DualVec T, DualVec_ComplexField_norm1 x = m_abs x.
Proof. exact fwd_DualVec_norm1. Qed.
Theorem C11_fwd_DualVec_abs : forall x : DualVec T, DualVec_ComplexField_abs x = m_abs x.
Proof. exact fwd_DualVec_abs. Qed.
Theorem C11_fwd_DualVec_modulus_squared : forall x : DualVec T, DualVec_ComplexField_modulus_squared x = x * x.
Proof. exact fwd_DualVec_modulus_squared. Qed.
Theorem C11_fwd_DualVec_argument : forall x : DualVec T, DualVec_ComplexField_argument x = if ((zero : T) <=? DualVec_f_re x) then (zero : DualVec T) else DualVec_from_re (ofF (fl_const C_PI : F) : T).
Proof. exact fwd_DualVec_argument. Qed.
Theorem C11_fwd_DualVec_scale : forall x f : DualVec T, DualVec_ComplexField_scale x f = x * f /\ DualVec_ComplexField_unscale x f = x / f.
Proof. exact fwd_DualVec_scale. Qed.
Theorem C11_fwd_DualVec_hypot : forall x y : DualVec T, DualVec_ComplexField_hypot x y = m_sqrt (m_powi x 2%Z + m_powi y 2%Z).
Proof. exact fwd_DualVec_hypot. Qed.
Theorem C11_fwd_DualVec_log : forall x b : DualVec T, DualVec_ComplexField_log x b = m_ln x / m_ln b.
Proof. exact fwd_DualVec_log. Qed.
Theorem C11_fwd_DualVec_pow : forall (x n : DualVec T) (k : Z), DualVec_ComplexField_powf x n = m_powd x n /\ DualVec_ComplexField_powc x n = m_powd x n /\ DualVec_ComplexField_powi x k = m_powi x k.
Proof. exact fwd_DualVec_pow. Qed.
Theorem C11_fwd_DualVec_mul_add : forall x a b : DualVec T, DualVec_ComplexField_mul_add x a b = m_mul_add x a b.
Proof. exact fwd_DualVec_mul_add. Qed.
Theorem C11_fwd_DualVec_atan2 : forall y x : DualVec T, DualVec_RealField_atan2 y x = m_atan2 y x.
Proof. exact fwd_DualVec_atan2. Qed.
Theorem C11_sel_DualVec_max_min : forall x y : DualVec T, (DualVec_RealField_max x y = x \/ DualVec_RealField_max x y = y) /\ (DualVec_RealField_min x y = x \/ DualVec_RealField_min x y = y).
Proof. exact sel_DualVec_max_min. Qed.
Theorem C11_sel_DualVec_clamp : forall x lo hi : DualVec T, DualVec_RealField_clamp x lo hi = x \/ DualVec_RealField_clamp x lo hi = lo \/ DualVec_RealField_clamp x lo hi = hi.
Proof. exact sel_DualVec_clamp. Qed.
Theorem C11_sel_DualVec_copysign : forall x s : DualVec T, DualVec_RealField_copysign x s = m_abs x \/ DualVec_RealField_copysign x s = - (m_abs x).
Proof. exact sel_DualVec_copysign. Qed.
Theorem C11_sign_DualVec : forall x : DualVec T, DualVec_RealField_is_sign_positive x = fl_sign_pos (m_re (DualVec_f_re x)) /\ DualVec_RealField_is_sign_negative x = negb (fl_sign_pos (m_re (DualVec_f_re x))).
Proof. exact sign_DualVec. Qed.
Theorem C11_const_Dual2Vec_pi : Dual2Vec_RealField_pi = Dual2Vec_from_re (ofF (fl_const C_PI : F) : T).
Proof. exact const_Dual2Vec_pi. Qed.
Theorem C11_const_Dual2Vec_two_pi : Dual2Vec_RealField_two_pi = Dual2Vec_from_re (ofF (fl_const C_TAU : F) : T).
Proof. exact const_Dual2Vec_two_pi. Qed.
Theorem C11_const_Dual2Vec_frac_pi_2 : Dual2Vec_RealField_frac_pi_2 = Dual2Vec_from_re (ofF (fl_const C_FRAC_PI_2 : F) : T).
Proof. exact const_Dual2Vec_frac_pi_2. Qed.
Theorem C11_const_Dual2Vec_frac_pi_3 : Dual2Vec_RealField_frac_pi_3 = Dual2Vec_from_re (ofF (fl_const C_FRAC_PI_3 : F) : T).
Proof. exact const_Dual2Vec_frac_pi_3. Qed.
Theorem C11_const_Dual2Vec_frac_pi_4 : Dual2Vec_RealField_frac_pi_4 = Dual2Vec_from_re (ofF (fl_const C_FRAC_PI_4 : F) : T).
Proof. exact const_Dual2Vec_frac_pi_4. Qed.
Theorem C11_const_Dual2Vec_frac_pi_6 : Dual2Vec_RealField_frac_pi_6 = Dual2Vec_from_re (ofF (fl_const C_FRAC_PI_6 : F) : T).
Proof. exact const_Dual2Vec_frac_pi_6. Qed.
Theorem C11_const_Dual2Vec_frac_pi_8 : Dual2Vec_RealField_frac_pi_8 = Dual2Vec_from_re (ofF (fl_const C_FRAC_PI_8 : F) : T).
Proof. exact const_Dual2Vec_frac_pi_8. Qed.
Theorem C11_const_Dual2Vec_frac_1_pi : Dual2Vec_RealField_frac_1_pi = Dual2Vec_from_re (ofF (fl_const C_FRAC_1_PI : F) : T).
Proof. exact const_Dual2Vec_frac_1_pi. Qed.
Theorem C11_const_Dual2Vec_frac_2_pi : Dual2Vec_RealField_frac_2_pi = Dual2Vec_from_re (ofF (fl_const C_FRAC_2_PI : F) : T).
Proof. exact const_Dual2Vec_frac_2_pi. Qed.
Theorem C11_const_Dual2Vec_frac_2_sqrt_pi : Dual2Vec_RealField_frac_2_sqrt_pi = Dual2Vec_from_re (ofF (fl_const C_FRAC_2_SQRT_PI : F) : T).
Proof. exact const_Dual2Vec_frac_2_sqrt_pi. Qed.
Theorem C11_const_Dual2Vec_e : Dual2Vec_RealField_e = Dual2Vec_from_re (ofF (fl_const C_E : F) : T).
Proof. exact const_Dual2Vec_e. Qed.
Theorem C11_const_Dual2Vec_log2_e : Dual2Vec_RealField_log2_e = Dual2Vec_from_re (ofF (fl_const C_LOG2_E : F) : T).
Proof. exact const_Dual2Vec_log2_e. Qed.
Theorem C11_const_Dual2Vec_log10_e : Dual2Vec_RealField_log10_e = Dual2Vec_from_re (ofF (fl_const C_LOG10_E : F) : T).
Proof. exact const_Dual2Vec_log10_e. Qed.
Theorem C11_const_Dual2Vec_ln_2 : Dual2Vec_RealField_ln_2 = Dual2Vec_from_re (ofF (fl_const C_LN_2 : F) : T).
Proof. exact const_Dual2Vec_ln_2. Qed.
Theorem C11_const_Dual2Vec_ln_10 : Dual2Vec_RealField_ln_10 = Dual2Vec_from_re (ofF (fl_const C_LN_10 : F) : T).
Proof. exact const_Dual2Vec_ln_10. Qed.
Theorem C11_fwd_Dual2Vec_recip : forall x : Dual2Vec T, Dual2Vec_ComplexField_recip x = m_recip x.
Proof. exact fwd_Dual2Vec_recip. Qed.
Theorem C11_fwd_Dual2Vec_sin : forall x : Dual2Vec T, Dual2Vec_ComplexField_sin x = m_sin x.
Proof. exact fwd_Dual2Vec_sin. Qed.
Theorem C11_fwd_Dual2Vec_cos : forall x : Dual2Vec T, Dual2Vec_ComplexField_cos x = m_cos x.
Proof. exact fwd_Dual2Vec_cos. Qed.
Theorem C11_fwd_Dual2Vec_tan : forall x : Dual2Vec T, Dual2Vec_ComplexField_tan x = m_tan x.
Proof. exact fwd_Dual2Vec_tan. Qed.
Theorem C11_fwd_Dual2Vec_asin : forall x : Dual2Vec T, Dual2Vec_ComplexField_asin x = m_asin x.
Proof. exact fwd_Dual2Vec_asin. Qed.
Theorem C11_fwd_Dual2Vec_acos : forall x : Dual2Vec T, Dual2Vec_ComplexField_acos x = m_acos x.
Proof. exact fwd_Dual2Vec_acos. Qed.
Theorem C11_fwd_Dual2Vec_atan : forall x : Dual2Vec T, Dual2Vec_ComplexField_atan x = m_atan x.
Proof. exact fwd_Dual2Vec_atan. Qed.
Theorem C11_fwd_Dual2Vec_sinh : forall x : Dual2Vec T, Dual2Vec_ComplexField_sinh x = m_sinh x.
Proof. exact fwd_Dual2Vec_sinh. Qed.
Theorem C11_fwd_Dual2Vec_cosh : forall x : Dual2Vec T, Dual2Vec_ComplexField_cosh x = m_cosh x.
Proof. exact fwd_Dual2Vec_cosh. Qed.
Theorem C11_fwd_Dual2Vec_tanh : forall x : Dual2Vec T, Dual2Vec_ComplexField_tanh x = m_tanh x.
Proof. exact fwd_Dual2Vec_tanh. Qed.
Theorem C11_fwd_Dual2Vec_asinh : forall x : Dual2Vec T, Dual2Vec_ComplexField_asinh x = m_asinh x.
Proof. exact fwd_Dual2Vec_asinh. Qed.
Theorem C11_fwd_Dual2Vec_acosh : forall x : Dual2Vec T, Dual2Vec_ComplexField_acosh x = m_acosh x.
Proof. exact fwd_Dual2Vec_acosh. Qed.
Theorem C11_fwd_Dual2Vec_atanh : forall x : Dual2Vec T, Dual2Vec_ComplexField_atanh x = m_atanh x.
Proof. exact fwd_Dual2Vec_atanh. Qed.
Theorem C11_fwd_Dual2Vec_log2 : forall x : Dual2Vec T, Dual2Vec_ComplexField_log2 x = m_log2 x.
Proof. exact fwd_Dual2Vec_log2. Qed.
Theorem C11_fwd_Dual2Vec_log10 : forall x : Dual2Vec T, Dual2Vec_ComplexField_log10 x = m_log10 x.
Proof. exact fwd_Dual2Vec_log10. Qed.
Theorem C11_fwd_Dual2Vec_ln : forall x : Dual2Vec T, Dual2Vec_ComplexField_ln x = m_ln x.
Proof. exact fwd_Dual2Vec_ln. Qed.
Theorem C11_fwd_Dual2Vec_ln_1p : forall x : Dual2Vec T, Dual2Vec_ComplexField_ln_1p x = m_ln_1p x.
Proof. exact fwd_Dual2Vec_ln_1p. Qed.
Theorem C11_fwd_Dual2Vec_sqrt : forall x : Dual2Vec T, Dual2Vec_ComplexField_sqrt x = m_sqrt x.
Proof. exact fwd_Dual2Vec_sqrt. Qed.
Theorem C11_fwd_Dual2Vec_exp : forall x : Dual2Vec T, Dual2Vec_ComplexField_exp x = m_exp x.
Proof. exact fwd_Dual2Vec_exp. Qed.
Theorem C11_fwd_Dual2Vec_exp2 : forall x : Dual2Vec T, Dual2Vec_ComplexField_exp2 x = m_exp2 x.
Proof. exact fwd_Dual2Vec_exp2. Qed.
Theorem C11_fwd_Dual2Vec_exp_m1 : forall x : Dual2Vec T, Dual2Vec_ComplexField_exp_m1 x = m_exp_m1 x.
Proof. exact fwd_Dual2Vec_exp_m1. Qed.
Theorem C11_fwd_Dual2Vec_cbrt : forall x : Dual2Vec T, Dual2Vec_ComplexField_cbrt x = m_cbrt x.
Proof. exact fwd_Dual2Vec_cbrt. Qed.
Theorem C11_fwd_Dual2Vec_sin_cos : forall x : Dual2Vec T, Dual2Vec_ComplexField_sin_cos x = m_sin_cos x.
Proof. exact fwd_Dual2Vec_sin_cos. Qed.
Theorem C11_fwd_Dual2Vec_real : forall x : Dual2Vec T, Dual2Vec_ComplexField_real x = x.
Proof. exact fwd_Dual2Vec_real. Qed.
Theorem C11_fwd_Dual2Vec_conjugate : forall x : Dual2Vec T, Dual2Vec_ComplexField_conjugate x = x.
Proof. exact fwd_Dual2Vec_conjugate. Qed.
Theorem C11_fwd_Dual2Vec_from_real : forall x : Dual2Vec T, Dual2Vec_ComplexField_from_real x = x.
Proof. exact fwd_Dual2Vec_from_real. Qed.
Theorem C11_fwd_Dual2Vec_imaginary : forall x : Dual2Vec T, Dual2Vec_ComplexField_imaginary x = (zero : Dual2Vec T).
Proof. exact fwd_Dual2Vec_imaginary. Qed.
Theorem C11_fwd_Dual2Vec_modulus : forall x : Dual2Vec T, Dual2Vec_ComplexField_modulus x = m_abs x.
Proof. exact fwd_Dual2Vec_modulus. Qed.
Theorem C11_fwd_Dual2Vec_norm1 : forall x : Dual2Vec T, Dual2Vec_ComplexField_norm1 x = m_abs x.
Proof. exact fwd_Dual2Vec_norm1. Qed.
Theorem C11_fwd_Dual2Vec_abs : forall x : Dual2Vec T, Dual2Vec_ComplexField_abs x = m_abs x.
Proof. exact fwd_Dual2Vec_abs. Qed.
Theorem C11_fwd_Dual2Vec_modulus_squared : forall x : Dual2Vec T, Dual2Vec_ComplexField_modulus_squared x = x * x.
Proof. exact fwd_Dual2Vec_modulus_squared. Qed.
Theorem C11_fwd_Dual2Vec_argument : forall x : Dual2Vec T, Dual2Vec_ComplexField_argument x = if ((zero : T) <=? Dual2Vec_f_re x) then (zero : Dual2Vec T) else Dual2Vec_from_re (ofF (fl_const C_PI : F) : T).
Proof. exact fwd_Dual2Vec_argument. Qed.
Theorem C11_fwd_Dual2Vec_scale : forall x f : Dual2Vec T, Dual2Vec_ComplexField_scale x f = x * f /\ Dual2Vec_ComplexField_unscale x f = x / f.
Proof. exact fwd_Dual2Vec_scale. Qed.
Theorem C11_fwd_Dual2Vec_hypot : forall x y : Dual2Vec T, Dual2Vec_ComplexField_hypot x y = m_sqrt (m_powi x 2%Z + m_powi y 2%Z).
Proof. exact fwd_Dual2Vec_hypot. Qed.
Theorem C11_fwd_Dual2Vec_log : forall x b : Dual2Vec T, Dual2Vec_ComplexField_log x b = m_ln x / m_ln b.
Proof. exact fwd_Dual2Vec_log. Qed.
Theorem C11_fwd_Dual2Vec_pow : forall (x n : Dual2Vec T) (k : Z), Dual2Vec_ComplexField_powf x n = m_powd x n /\ Dual2Vec_ComplexField_powc x n = m_powd x n /\ Dual2Vec_ComplexField_powi x k = m_powi x k.
Proof. exact fwd_Dual2Vec_pow. Qed.
Theorem C11_fwd_Dual2Vec_mul_add : forall x a b : Dual2Vec T, Dual2Vec_ComplexField_mul_add x a b = m_mul_add x a b.
Proof. exact fwd_Dual2Vec_mul_add. Qed.
Theorem C11_fwd_Dual2Vec_atan2 : forall y x : Dual2Vec T, Dual2Vec_RealField_atan2 y x = m_atan2 y x.
Proof. exact fwd_Dual2Vec_atan2. Qed.
Theorem C11_sel_Dual2Vec_max_min : forall x y : Dual2Vec T, (Dual2Vec_RealField_max x y = x \/ Dual2Vec_RealField_max x y = y) /\ (Dual2Vec_RealField_min x y = x \/ Dual2Vec_RealField_min x y = y).
Proof. exact sel_Dual2Vec_max_min. Qed.
Theorem C11_sel_Dual2Vec_clamp : forall x lo hi : Dual2Vec T, Dual2Vec_RealField_clamp x lo hi = x \/ Dual2Vec_RealField_clamp x lo hi = lo \/ Dual2Vec_RealField_clamp x lo hi = hi.
Proof. exact sel_Dual2Vec_clamp. Qed.
Theorem C11_sel_Dual2Vec_copysign : forall x s : Dual2Vec T, Dual2Vec_RealField_copysign x s = m_abs x \/ Dual2Vec_RealField_copysign x s = - (m_abs x).
Proof. exact sel_Dual2Vec_copysign. Qed.
Theorem C11_sign_Dual2Vec : forall x : Dual2Vec T, Dual2Vec_RealField_is_sign_positive x = fl_sign_pos (m_re (Dual2Vec_f_re x)) /\ Dual2Vec_RealField_is_sign_negative x = negb (fl_sign_pos (m_re (Dual2Vec_f_re x))).
Proof. exact sign_Dual2Vec. Qed.
End C11.
Definition C11_bundle := (@C11_const_Dual_pi,
  @C11_const_Dual_two_pi,
  @C11_const_Dual_frac_pi_2,
  @C11_const_Dual_frac_pi_3,
  @C11_const_Dual_frac_pi_4,
  @C11_const_Dual_frac_pi_6,
  @C11_const_Dual_frac_pi_8,
  @C11_const_Dual_frac_1_pi,
  @C11_const_Dual_frac_2_pi,
  @C11_const_Dual_frac_2_sqrt_pi,
  @C11_const_Dual_e,
  @C11_const_Dual_log2_e,
  @C11_const_Dual_log10_e,
  @C11_const_Dual_ln_2,
  @C11_const_Dual_ln_10,
  @C11_fwd_Dual_recip,
  @C11_fwd_Dual_sin,
  @C11_fwd_Dual_cos,
  @C11_fwd_Dual_tan,
  @C11_fwd_Dual_asin,
  @C11_fwd_Dual_acos,
  @C11_fwd_Dual_atan,
  @C11_fwd_Dual_sinh,
  @C11_fwd_Dual_cosh,
  @C11_fwd_Dual_tanh,
  @C11_fwd_Dual_asinh,
  @C11_fwd_Dual_acosh,
  @C11_fwd_Dual_atanh,
  @C11_fwd_Dual_log2,
  @C11_fwd_Dual_log10,
  @C11_fwd_Dual_ln,
  @C11_fwd_Dual_ln_1p,
  @C11_fwd_Dual_sqrt,
  @C11_fwd_Dual_exp,
  @C11_fwd_Dual_exp2,
  @C11_fwd_Dual_exp_m1,
  @C11_fwd_Dual_cbrt,
  @C11_fwd_Dual_sin_cos,
  @C11_fwd_Dual_real,
  @C11_fwd_Dual_conjugate,
  @C11_fwd_Dual_from_real,
  @C11_fwd_Dual_imaginary,
  @C11_fwd_Dual_modulus,
  @C11_fwd_Dual_norm1,
  @C11_fwd_Dual_abs,
  @C11_fwd_Dual_modulus_squared,
  @C11_fwd_Dual_argument,
  @C11_fwd_Dual_scale,
  @C11_fwd_Dual_hypot,
  @C11_fwd_Dual_log,
  @C11_fwd_Dual_pow,
  @C11_fwd_Dual_mul_add,
  @C11_fwd_Dual_atan2,
  @C11_sel_Dual_max_min,
  @C11_sel_Dual_clamp,
  @C11_sel_Dual_copysign,
  @C11_sign_Dual,
  @C11_const_Dual2_pi,
  @C11_const_Dual2_two_pi,
  @C11_const_Dual2_frac_pi_2,
  @C11_const_Dual2_frac_pi_3,
  @C11_const_Dual2_frac_pi_4,
  @C11_const_Dual2_frac_pi_6,
  @C11_const_Dual2_frac_pi_8,
  @C11_const_Dual2_frac_1_pi,
  @C11_const_Dual2_frac_2_pi,
  @C11_const_Dual2_frac_2_sqrt_pi,
  @C11_const_Dual2_e,
  @C11_const_Dual2_log2_e,
  @C11_const_Dual2_log10_e,
  @C11_const_Dual2_ln_2,
  @C11_const_Dual2_ln_10,
  @C11_fwd_Dual2_recip,
  @C11_fwd_Dual2_sin,
  @C11_fwd_Dual2_cos,
  @C11_fwd_Dual2_tan,
  @C11_fwd_Dual2_asin,
  @C11_fwd_Dual2_acos,
  @C11_fwd_Dual2_atan,
  @C11_fwd_Dual2_sinh,
  @C11_fwd_Dual2_cosh,
  @C11_fwd_Dual2_tanh,
  @C11_fwd_Dual2_asinh,
  @C11_fwd_Dual2_acosh,
  @C11_fwd_Dual2_atanh,
  @C11_fwd_Dual2_log2,
  @C11_fwd_Dual2_log10,
  @C11_fwd_Dual2_ln,
  @C11_fwd_Dual2_ln_1p,
  @C11_fwd_Dual2_sqrt,
  @C11_fwd_Dual2_exp,
  @C11_fwd_Dual2_exp2,
  @C11_fwd_Dual2_exp_m1,
  @C11_fwd_Dual2_cbrt,
  @C11_fwd_Dual2_sin_cos,
  @C11_fwd_Dual2_real,
  @C11_fwd_Dual2_conjugate,
  @C11_fwd_Dual2_from_real,
  @C11_fwd_Dual2_imaginary,
  @C11_fwd_Dual2_modulus,
  @C11_fwd_Dual2_norm1,
  @C11_fwd_Dual2_abs,
  @C11_fwd_Dual2_modulus_squared,
  @C11_fwd_Dual2_argument,
  @C11_fwd_Dual2_scale,
  @C11_fwd_Dual2_hypot,
  @C11_fwd_Dual2_log,
  @C11_fwd_Dual2_pow,
  @C11_fwd_Dual2_mul_add,
  @C11_fwd_Dual2_atan2,
  @C11_sel_Dual2_max_min,
  @C11_sel_Dual2_clamp,
  @C11_sel_Dual2_copysign,
  @C11_sign_Dual2,
  @C11_const_DualVec_pi,
  @C11_const_DualVec_two_pi,
  @C11_const_DualVec_frac_pi_2,
  @C11_const_DualVec_frac_pi_3,
  @C11_const_DualVec_frac_pi_4,
  @C11_const_DualVec_frac_pi_6,
  @C11_const_DualVec_frac_pi_8,
  @C11_const_DualVec_frac_1_pi,
  @C11_const_DualVec_frac_2_pi,
  @C11_const_DualVec_frac_2_sqrt_pi,
  @C11_const_DualVec_e,
  @C11_const_DualVec_log2_e,
  @C11_const_DualVec_log10_e,
  @C11_const_DualVec_ln_2,
  @C11_const_DualVec_ln_10,
  @C11_fwd_DualVec_recip,
  @C11_fwd_DualVec_sin,
  @C11_fwd_DualVec_cos,
  @C11_fwd_DualVec_tan,
  @C11_fwd_DualVec_asin,
  @C11_fwd_DualVec_acos,
  @C11_fwd_DualVec_atan,
  @C11_fwd_DualVec_sinh,
  @C11_fwd_DualVec_cosh,
  @C11_fwd_DualVec_tanh,
  @C11_fwd_DualVec_asinh,
  @C11_fwd_DualVec_acosh,
  @C11_fwd_DualVec_atanh,
  @C11_fwd_DualVec_log2,
  @C11_fwd_DualVec_log10,
  @C11_fwd_DualVec_ln,
  @C11_fwd_DualVec_ln_1p,
  @C11_fwd_DualVec_sqrt,
  @C11_fwd_DualVec_exp,
  @C11_fwd_DualVec_exp2,
  @C11_fwd_DualVec_exp_m1,
  @C11_fwd_DualVec_cbrt,
  @C11_fwd_DualVec_sin_cos,
  @C11_fwd_DualVec_real,
  @C11_fwd_DualVec_conjugate,
  @C11_fwd_DualVec_from_real,
  @C11_fwd_DualVec_imaginary,
  @C11_fwd_DualVec_modulus,
  @C11_fwd_DualVec_norm1,
  @C11_fwd_DualVec_abs,
  @C11_fwd_DualVec_modulus_squared,
  @C11_fwd_DualVec_argument,
  @C11_fwd_DualVec_scale,
  @C11_fwd_DualVec_hypot,
  @C11_fwd_DualVec_log,
  @C11_fwd_DualVec_pow,
  @C11_fwd_DualVec_mul_add,
  @C11_fwd_DualVec_atan2,
  @C11_sel_DualVec_max_min,
  @C11_sel_DualVec_clamp,
  @C11_sel_DualVec_copysign,
  @C11_sign_DualVec,
  @C11_const_Dual2Vec_pi,
  @C11_const_Dual2Vec_two_pi,
  @C11_const_Dual2Vec_frac_pi_2,
  @C11_const_Dual2Vec_frac_pi_3,
  @C11_const_Dual2Vec_frac_pi_4,
  @C11_const_Dual2Vec_frac_pi_6,
  @C11_const_Dual2Vec_frac_pi_8,
  @C11_const_Dual2Vec_frac_1_pi,
  @C11_const_Dual2Vec_frac_2_pi,
  @C11_const_Dual2Vec_frac_2_sqrt_pi,
  @C11_const_Dual2Vec_e,
  @C11_const_Dual2Vec_log2_e,
  @C11_const_Dual2Vec_log10_e,
  @C11_const_Dual2Vec_ln_2,
  @C11_const_Dual2Vec_ln_10,
  @C11_fwd_Dual2Vec_recip,
  @C11_fwd_Dual2Vec_sin,
  @C11_fwd_Dual2Vec_cos,
  @C11_fwd_Dual2Vec_tan,
  @C11_fwd_Dual2Vec_asin,
  @C11_fwd_Dual2Vec_acos,
  @C11_fwd_Dual2Vec_atan,
  @C11_fwd_Dual2Vec_sinh,
  @C11_fwd_Dual2Vec_cosh,
  @C11_fwd_Dual2Vec_tanh,
  @C11_fwd_Dual2Vec_asinh,
  @C11_fwd_Dual2Vec_acosh,
  @C11_fwd_Dual2Vec_atanh,
  @C11_fwd_Dual2Vec_log2,
  @C11_fwd_Dual2Vec_log10,
  @C11_fwd_Dual2Vec_ln,
  @C11_fwd_Dual2Vec_ln_1p,
  @C11_fwd_Dual2Vec_sqrt,
  @C11_fwd_Dual2Vec_exp,
  @C11_fwd_Dual2Vec_exp2,
  @C11_fwd_Dual2Vec_exp_m1,
  @C11_fwd_Dual2Vec_cbrt,
  @C11_fwd_Dual2Vec_sin_cos,
  @C11_fwd_Dual2Vec_real,
  @C11_fwd_Dual2Vec_conjugate,
  @C11_fwd_Dual2Vec_from_real,
  @C11_fwd_Dual2Vec_imaginary,
  @C11_fwd_Dual2Vec_modulus,
  @C11_fwd_Dual2Vec_norm1,
  @C11_fwd_Dual2Vec_abs,
  @C11_fwd_Dual2Vec_modulus_squared,
  @C11_fwd_Dual2Vec_argument,
  @C11_fwd_Dual2Vec_scale,
  @C11_fwd_Dual2Vec_hypot,
  @C11_fwd_Dual2Vec_log,
  @C11_fwd_Dual2Vec_pow,
  @C11_fwd_Dual2Vec_mul_add,
  @C11_fwd_Dual2Vec_atan2,
  @C11_sel_Dual2Vec_max_min,
  @C11_sel_Dual2Vec_clamp,
  @C11_sel_Dual2Vec_copysign,
  @C11_sign_Dual2Vec).
Print Assumptions C11_bundle.
