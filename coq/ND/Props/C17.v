(* Props/C17.v -- property C17: Python bindings are a transparent view of the Rust operations.
   The wrapper layer (src/python_macro.rs) is modelled by hand in Hand/PyWrap.v; the statement "returns bit for bit what the Rust operation returns"
   is decided by running the Python module against the Rust harness and the translated model (correspondence).  What can be stated as theorems about
   the model: the reflected operators, which the macro writes as compositions, are the operations with the float lifted to a constant on the left.
   Only `exact` proofs here. *)
From ND Require Import Tactics PyWrap C17_proofs.
Local Open Scope R_scope.

Theorem C17_reflected_Dual : forall (d : Dual R) (f : R),
  py_radd d f = ((ofF f : Dual R) + d)%rs /\ py_rsub d f = ((ofF f : Dual R) - d)%rs /\ py_rmul d f = ((ofF f : Dual R) * d)%rs /\ (m_re d <> 0 -> py_rtruediv d f = ((ofF f : Dual R) / d)%rs).
Proof. exact refl_Dual. Qed.
Theorem C17_reflected_Dual2 : forall (d : Dual2 R) (f : R),
  py_radd d f = ((ofF f : Dual2 R) + d)%rs /\ py_rsub d f = ((ofF f : Dual2 R) - d)%rs /\ py_rmul d f = ((ofF f : Dual2 R) * d)%rs /\ (m_re d <> 0 -> py_rtruediv d f = ((ofF f : Dual2 R) / d)%rs).
Proof. exact refl_Dual2. Qed.
Theorem C17_reflected_Dual3 : forall (d : Dual3 R) (f : R),
  py_radd d f = ((ofF f : Dual3 R) + d)%rs /\ py_rsub d f = ((ofF f : Dual3 R) - d)%rs /\ py_rmul d f = ((ofF f : Dual3 R) * d)%rs /\ (m_re d <> 0 -> py_rtruediv d f = ((ofF f : Dual3 R) / d)%rs).
Proof. exact refl_Dual3. Qed.
Theorem C17_reflected_HyperDual : forall (d : HyperDual R) (f : R),
  py_radd d f = ((ofF f : HyperDual R) + d)%rs /\ py_rsub d f = ((ofF f : HyperDual R) - d)%rs /\ py_rmul d f = ((ofF f : HyperDual R) * d)%rs /\ (m_re d <> 0 -> py_rtruediv d f = ((ofF f : HyperDual R) / d)%rs).
Proof. exact refl_HyperDual. Qed.
Theorem C17_reflected_HyperHyperDual : forall (d : HyperHyperDual R) (f : R),
  py_radd d f = ((ofF f : HyperHyperDual R) + d)%rs /\ py_rsub d f = ((ofF f : HyperHyperDual R) - d)%rs /\ py_rmul d f = ((ofF f : HyperHyperDual R) * d)%rs /\
  (m_re d <> 0 -> py_rtruediv d f = ((ofF f : HyperHyperDual R) / d)%rs).
Proof. exact refl_HHD. Qed.

From NDgen Require Import Classes.
Section Forward.
  Context {F T : Type} {dn : DN F T}.
  (* the Python names that differ from the Rust names, for an arbitrary number type *)
  Theorem C17_forward_names : forall d : T,
    py_method Py_expm1 d = m_exp_m1 d /\ py_method Py_log d = m_ln d /\ py_method Py_log1p d = m_ln_1p d /\ py_method Py_arcsin d = m_asin d /\
    py_method Py_arccos d = m_acos d /\ py_method Py_arctan d = m_atan d /\ py_method Py_arcsinh d = m_asinh d /\ py_method Py_arccosh d = m_acosh d /\
    py_method Py_arctanh d = m_atanh d /\ py_method Py_neg d = (- d)%rs.
  Proof. exact forward_names. Qed.
  Theorem C17_pow_dispatch : forall (d e : T) (n : Z) (q : F), py_pow_int d n = m_powi d n /\ py_pow_float d q = m_powf d q /\ py_pow_dual d e = m_powd d e.
  Proof. exact pow_dispatch. Qed.
End Forward.

(* the wrapper macro in the source (extracted by tools/gen_pywrap.py on every run): every Python method forwards to the Rust method of the documented
   name, the reflected operators are the compositions modelled in Hand/PyWrap.v, and ** tries int, float, dual in that order *)
From Coq Require Import String List.
From NDgen Require Import Gen_PyWrap.
Theorem C17_forwarding_table : py_forward_bodies = [("recip"%string, "self.0.recip().into()"%string);
  ("powi"%string, "self.0.powi(n).into()"%string);
  ("powf"%string, "self.0.powf(n).into()"%string);
  ("powd"%string, "self.0.powd(n.0).into()"%string);
  ("sqrt"%string, "self.0.sqrt().into()"%string);
  ("cbrt"%string, "self.0.cbrt().into()"%string);
  ("exp"%string, "self.0.exp().into()"%string);
  ("exp2"%string, "self.0.exp2().into()"%string);
  ("expm1"%string, "self.0.exp_m1().into()"%string);
  ("log"%string, "self.0.ln().into()"%string);
  ("log_base"%string, "self.0.log(base).into()"%string);
  ("log2"%string, "self.0.log2().into()"%string);
  ("log10"%string, "self.0.log10().into()"%string);
  ("log1p"%string, "self.0.ln_1p().into()"%string);
  ("sin"%string, "self.0.sin().into()"%string);
  ("cos"%string, "self.0.cos().into()"%string);
  ("tan"%string, "self.0.tan().into()"%string);
  ("sin_cos"%string, "let (a, b) = self.0.sin_cos(); (a.into(), b.into())"%string);
  ("arcsin"%string, "self.0.asin().into()"%string);
  ("arccos"%string, "self.0.acos().into()"%string);
  ("arctan"%string, "self.0.atan().into()"%string);
  ("sinh"%string, "self.0.sinh().into()"%string);
  ("cosh"%string, "self.0.cosh().into()"%string);
  ("tanh"%string, "self.0.tanh().into()"%string);
  ("arcsinh"%string, "self.0.asinh().into()"%string);
  ("arccosh"%string, "self.0.acosh().into()"%string);
  ("arctanh"%string, "self.0.atanh().into()"%string);
  ("sph_j0"%string, "self.0.sph_j0().into()"%string);
  ("sph_j1"%string, "self.0.sph_j1().into()"%string);
  ("sph_j2"%string, "self.0.sph_j2().into()"%string);
  ("mul_add"%string, "self.0.mul_add(a.0, b.0).into()"%string)].
Proof. reflexivity. Qed.
Theorem C17_reflected_bodies : py_reflected = [("__radd__"%string, "(self.0.clone() + lhs).into()"%string);
  ("__rsub__"%string, "(-self.0.clone() + lhs).into()"%string);
  ("__rmul__"%string, "(self.0.clone() * lhs).into()"%string);
  ("__rtruediv__"%string, "(self.0.recip() * lhs).into()"%string)].
Proof. reflexivity. Qed.
Theorem C17_pow_order : py_pow_dispatch = [("i32"%string, "powi"%string); ("f64"%string, "powf"%string); ("Self"%string, "powd"%string)].
Proof. reflexivity. Qed.

Example C17_example : py_rsub (mkDual 1 2) 5 = mkDual 4 (-2).
Proof. rcbv. f_equal; ring. Qed.

Definition C17_bundle := (C17_reflected_Dual, C17_reflected_Dual2, C17_reflected_Dual3, C17_reflected_HyperDual, C17_reflected_HyperHyperDual,
  @C17_forward_names, @C17_pow_dispatch, C17_forwarding_table, C17_reflected_bodies, C17_pow_order).
Print Assumptions C17_bundle.
