(* Proofs/C09_three.v -- the three power functions, repeated multiplication / division and exp(n ln x) agree (integer exponents), as NUMBERS of the
   five scalar types: consequences of C03_unique (the derivative parts depend on the real function alone). *)
From ND Require Import Tactics C02_proofs C01_towers C01_faa C07_proofs C09_proofs Prog Agree C04_inst C03_proofs C03_second C03_third C03_mixed C03_mixed3 C03_unique.
Local Open Scope R_scope.

(* x * x * ... * x (n factors, starting from the lifted one) *)
Fixpoint mul_prog (n : nat) : prog := match n with O => PConst 1 | S k => PBin B_mul (mul_prog k) (PVar 0) end.
Definition powd_prog (n : Z) : prog := PUn U_exp (PBin B_mul (PUn U_ln (PVar 0)) (PConst n)).

Lemma eval_mul_prog_R (a : R) n : eval (T:=R) (a :: nil) (mul_prog n) = a ^ n.
Proof. induction n as [|n IH]; simpl; [rcbv; reflexivity|]. rewrite IH. rcbv. ring. Qed.
Lemma okR_mul_prog (a : R) n : okR (a :: nil) (mul_prog n).
Proof. induction n as [|n IH]; simpl; [exact I|]. split; [exact IH|]. split; [lia|intros E; discriminate E]. Qed.
Lemma near1 d (env : list R) (r : R) : near d env (r :: nil) -> exists a, env = a :: nil /\ r - d < a < r + d.
Proof. intros H. inversion H as [|a r' l l' Ha Hl]; subst. inversion Hl; subst. exists a. split; [reflexivity|exact Ha]. Qed.

Lemma same_powi_mul (r : R) n : same_near (PPowi (PVar 0) (Z.of_nat n)) (mul_prog n) (r :: nil).
Proof.
  exists 1. split; [lra|]. intros env H. destruct (near1 _ _ _ H) as [a [-> _]]. rewrite eval_mul_prog_R. simpl. symmetry. apply pow_powerRZ.
Qed.
Lemma same_powi_div (r : R) n : r <> 0 -> same_near (PPowi (PVar 0) (- Z.of_nat n)) (PBin B_div (PConst 1) (mul_prog n)) (r :: nil).
Proof.
  intros Hr. exists (Rabs r / 2). assert (0 < Rabs r) by (apply Rabs_pos_lt; exact Hr). split; [lra|].
  intros env H'. destruct (near1 _ _ _ H') as [a [-> Ha]].
  assert (Hane : a <> 0) by (intros ->; unfold Rabs in *; destruct (Rcase_abs r); lra).
  cbn [eval]. rewrite eval_mul_prog_R. simpl. rcbv.
  destruct n as [|n]; [simpl; field|]. change (powerRZ a (- Z.of_nat (S n)) = 1 / a ^ S n).
  rewrite <- Pos2Z.opp_pos || idtac. unfold powerRZ. simpl Z.of_nat. cbn [Z.opp]. rewrite SuccNat2Pos.id_succ. field. apply pow_nonzero; exact Hane.
Qed.
Lemma same_powi_powd (r : R) (n : Z) : 0 < r -> same_near (PPowi (PVar 0) n) (powd_prog n) (r :: nil).
Proof.
  intros Hr. exists (r / 2). split; [lra|]. intros env H. destruct (near1 _ _ _ H) as [a [-> Ha]].
  assert (Hpos : 0 < a) by lra. unfold powd_prog. cbn [eval eval_un eval_bin nth]. rcbv.
  change (powerRZ a n = exp (ln a * IZR n)). rewrite (powerRZ_Rpower a n Hpos). unfold Rpower. f_equal. ring.
Qed.

Theorem powers_agree_Dual :
  (forall (X : Dual R) n, pw_ok (Z.of_nat n) (Dual_f_re X) -> (m_powi X (Z.of_nat n : Z) : Dual R) = eval (X :: nil) (mul_prog n)) /\
  (forall (X : Dual R) n, Dual_f_re X <> 0 -> pw_ok (- Z.of_nat n) (Dual_f_re X) -> (m_powi X (- Z.of_nat n : Z)%Z : Dual R) = eval (X :: nil) (PBin B_div (PConst 1) (mul_prog n))) /\
  (forall (X : Dual R) z, 0 < Dual_f_re X -> pw_ok z (Dual_f_re X) -> (m_powi X (z : Z) : Dual R) = m_powd X (ofF (IZR z) : Dual R)).
Proof.
  split; [|split].
  - intros X n Hp. apply (denot_Dual (PPowi (PVar 0) (Z.of_nat n)) (mul_prog n) (X :: nil)).
    + simpl. split; [lia|exact Hp].
    + apply okR_mul_prog.
    + apply same_powi_mul.
  - intros X n Hr Hp. apply (denot_Dual (PPowi (PVar 0) (- Z.of_nat n)) (PBin B_div (PConst 1) (mul_prog n)) (X :: nil)).
    + simpl. split; [lia|exact Hp].
    + cbn [okR map]. split; [exact I|]. split; [apply okR_mul_prog|]. intros _. rewrite eval_mul_prog_R. apply pow_nonzero; exact Hr.
    + apply same_powi_div; exact Hr.
  - intros X z Hr Hp. change (m_powd X (ofF (IZR z) : Dual R)) with (eval (X :: nil) (powd_prog z)).
    apply (denot_Dual (PPowi (PVar 0) z) (powd_prog z) (X :: nil)).
    + simpl. split; [lia|exact Hp].
    + unfold powd_prog. cbn [okR map]. split; [|exact I]. split; [split; [simpl; lia|exact Hr]|]. split; [exact I|intros E; discriminate E].
    + apply same_powi_powd; exact Hr.
Qed.
Theorem powers_agree_Dual2 :
  (forall (X : Dual2 R) n, pw_ok (Z.of_nat n) (Dual2_f_re X) -> (m_powi X (Z.of_nat n : Z) : Dual2 R) = eval (X :: nil) (mul_prog n)) /\
  (forall (X : Dual2 R) n, Dual2_f_re X <> 0 -> pw_ok (- Z.of_nat n) (Dual2_f_re X) -> (m_powi X (- Z.of_nat n : Z)%Z : Dual2 R) = eval (X :: nil) (PBin B_div (PConst 1) (mul_prog n))) /\
  (forall (X : Dual2 R) z, 0 < Dual2_f_re X -> pw_ok z (Dual2_f_re X) -> (m_powi X (z : Z) : Dual2 R) = m_powd X (ofF (IZR z) : Dual2 R)).
Proof.
  split; [|split].
  - intros X n Hp. apply (denot_Dual2 (PPowi (PVar 0) (Z.of_nat n)) (mul_prog n) (X :: nil)).
    + simpl. split; [lia|exact Hp].
    + apply okR_mul_prog.
    + apply same_powi_mul.
  - intros X n Hr Hp. apply (denot_Dual2 (PPowi (PVar 0) (- Z.of_nat n)) (PBin B_div (PConst 1) (mul_prog n)) (X :: nil)).
    + simpl. split; [lia|exact Hp].
    + cbn [okR map]. split; [exact I|]. split; [apply okR_mul_prog|]. intros _. rewrite eval_mul_prog_R. apply pow_nonzero; exact Hr.
    + apply same_powi_div; exact Hr.
  - intros X z Hr Hp. change (m_powd X (ofF (IZR z) : Dual2 R)) with (eval (X :: nil) (powd_prog z)).
    apply (denot_Dual2 (PPowi (PVar 0) z) (powd_prog z) (X :: nil)).
    + simpl. split; [lia|exact Hp].
    + unfold powd_prog. cbn [okR map]. split; [|exact I]. split; [split; [simpl; lia|exact Hr]|]. split; [exact I|intros E; discriminate E].
    + apply same_powi_powd; exact Hr.
Qed.
Theorem powers_agree_Dual3 :
  (forall (X : Dual3 R) n, pw_ok (Z.of_nat n) (Dual3_f_re X) -> (m_powi X (Z.of_nat n : Z) : Dual3 R) = eval (X :: nil) (mul_prog n)) /\
  (forall (X : Dual3 R) n, Dual3_f_re X <> 0 -> pw_ok (- Z.of_nat n) (Dual3_f_re X) -> (m_powi X (- Z.of_nat n : Z)%Z : Dual3 R) = eval (X :: nil) (PBin B_div (PConst 1) (mul_prog n))) /\
  (forall (X : Dual3 R) z, 0 < Dual3_f_re X -> pw_ok z (Dual3_f_re X) -> (m_powi X (z : Z) : Dual3 R) = m_powd X (ofF (IZR z) : Dual3 R)).
Proof.
  split; [|split].
  - intros X n Hp. apply (denot_Dual3 (PPowi (PVar 0) (Z.of_nat n)) (mul_prog n) (X :: nil)).
    + simpl. split; [lia|exact Hp].
    + apply okR_mul_prog.
    + apply same_powi_mul.
  - intros X n Hr Hp. apply (denot_Dual3 (PPowi (PVar 0) (- Z.of_nat n)) (PBin B_div (PConst 1) (mul_prog n)) (X :: nil)).
    + simpl. split; [lia|exact Hp].
    + cbn [okR map]. split; [exact I|]. split; [apply okR_mul_prog|]. intros _. rewrite eval_mul_prog_R. apply pow_nonzero; exact Hr.
    + apply same_powi_div; exact Hr.
  - intros X z Hr Hp. change (m_powd X (ofF (IZR z) : Dual3 R)) with (eval (X :: nil) (powd_prog z)).
    apply (denot_Dual3 (PPowi (PVar 0) z) (powd_prog z) (X :: nil)).
    + simpl. split; [lia|exact Hp].
    + unfold powd_prog. cbn [okR map]. split; [|exact I]. split; [split; [simpl; lia|exact Hr]|]. split; [exact I|intros E; discriminate E].
    + apply same_powi_powd; exact Hr.
Qed.
Theorem powers_agree_HyperDual :
  (forall (X : HyperDual R) n, pw_ok (Z.of_nat n) (HyperDual_f_re X) -> (m_powi X (Z.of_nat n : Z) : HyperDual R) = eval (X :: nil) (mul_prog n)) /\
  (forall (X : HyperDual R) n, HyperDual_f_re X <> 0 -> pw_ok (- Z.of_nat n) (HyperDual_f_re X) -> (m_powi X (- Z.of_nat n : Z)%Z : HyperDual R) = eval (X :: nil) (PBin B_div (PConst 1) (mul_prog n))) /\
  (forall (X : HyperDual R) z, 0 < HyperDual_f_re X -> pw_ok z (HyperDual_f_re X) -> (m_powi X (z : Z) : HyperDual R) = m_powd X (ofF (IZR z) : HyperDual R)).
Proof.
  split; [|split].
  - intros X n Hp. apply (denot_HyperDual (PPowi (PVar 0) (Z.of_nat n)) (mul_prog n) (X :: nil)).
    + simpl. split; [lia|exact Hp].
    + apply okR_mul_prog.
    + apply same_powi_mul.
  - intros X n Hr Hp. apply (denot_HyperDual (PPowi (PVar 0) (- Z.of_nat n)) (PBin B_div (PConst 1) (mul_prog n)) (X :: nil)).
    + simpl. split; [lia|exact Hp].
    + cbn [okR map]. split; [exact I|]. split; [apply okR_mul_prog|]. intros _. rewrite eval_mul_prog_R. apply pow_nonzero; exact Hr.
    + apply same_powi_div; exact Hr.
  - intros X z Hr Hp. change (m_powd X (ofF (IZR z) : HyperDual R)) with (eval (X :: nil) (powd_prog z)).
    apply (denot_HyperDual (PPowi (PVar 0) z) (powd_prog z) (X :: nil)).
    + simpl. split; [lia|exact Hp].
    + unfold powd_prog. cbn [okR map]. split; [|exact I]. split; [split; [simpl; lia|exact Hr]|]. split; [exact I|intros E; discriminate E].
    + apply same_powi_powd; exact Hr.
Qed.
Theorem powers_agree_HyperHyperDual :
  (forall (X : HyperHyperDual R) n, pw_ok (Z.of_nat n) (HyperHyperDual_f_re X) -> (m_powi X (Z.of_nat n : Z) : HyperHyperDual R) = eval (X :: nil) (mul_prog n)) /\
  (forall (X : HyperHyperDual R) n, HyperHyperDual_f_re X <> 0 -> pw_ok (- Z.of_nat n) (HyperHyperDual_f_re X) -> (m_powi X (- Z.of_nat n : Z)%Z : HyperHyperDual R) = eval (X :: nil) (PBin B_div (PConst 1) (mul_prog n))) /\
  (forall (X : HyperHyperDual R) z, 0 < HyperHyperDual_f_re X -> pw_ok z (HyperHyperDual_f_re X) -> (m_powi X (z : Z) : HyperHyperDual R) = m_powd X (ofF (IZR z) : HyperHyperDual R)).
Proof.
  split; [|split].
  - intros X n Hp. apply (denot_HyperHyperDual (PPowi (PVar 0) (Z.of_nat n)) (mul_prog n) (X :: nil)).
    + simpl. split; [lia|exact Hp].
    + apply okR_mul_prog.
    + apply same_powi_mul.
  - intros X n Hr Hp. apply (denot_HyperHyperDual (PPowi (PVar 0) (- Z.of_nat n)) (PBin B_div (PConst 1) (mul_prog n)) (X :: nil)).
    + simpl. split; [lia|exact Hp].
    + cbn [okR map]. split; [exact I|]. split; [apply okR_mul_prog|]. intros _. rewrite eval_mul_prog_R. apply pow_nonzero; exact Hr.
    + apply same_powi_div; exact Hr.
  - intros X z Hr Hp. change (m_powd X (ofF (IZR z) : HyperHyperDual R)) with (eval (X :: nil) (powd_prog z)).
    apply (denot_HyperHyperDual (PPowi (PVar 0) z) (powd_prog z) (X :: nil)).
    + simpl. split; [lia|exact Hp].
    + unfold powd_prog. cbn [okR map]. split; [|exact I]. split; [split; [simpl; lia|exact Hr]|]. split; [exact I|intros E; discriminate E].
    + apply same_powi_powd; exact Hr.
Qed.
