(* Props/C18.v -- property C18: textual rendering shows every part faithfully.  Only statements, `exact` proofs, axiom report. *)
From ND Require Import Overload Float Mat Opt Wire Show DerFmt C18_proofs.
From NDgen Require Import Classes Gen_Derivative Gen_Dual Gen_Dual2 Gen_Dual3 Gen_HyperDual Gen_HyperHyperDual Gen_DualVec Gen_Dual2Vec Gen_HyperDualVec Gen_Display.
Section Layout.
  Context {F T : Type} {showT : Show F T}.
  Variable fmt : F -> list nat.
  Variable mfmt : list (list (list nat)) -> list nat.

  Theorem C18_layout_Dual : forall x : Dual T, render fmt mfmt (tokens x) = layout fmt mfmt (Dual_f_re x) [(Dual_f_eps x, s_eps)].
  Proof. exact (layout_Dual fmt mfmt). Qed.
  Theorem C18_layout_Dual2 : forall x : Dual2 T, render fmt mfmt (tokens x) = layout fmt mfmt (Dual2_f_re x) [(Dual2_f_v1 x, s_eps1); (Dual2_f_v2 x, s_eps1sq)].
  Proof. exact (layout_Dual2 fmt mfmt). Qed.
  Theorem C18_layout_Dual3 : forall x : Dual3 T, render fmt mfmt (tokens x) = layout fmt mfmt (Dual3_f_re x) [(Dual3_f_v1 x, s_v1); (Dual3_f_v2 x, s_v2); (Dual3_f_v3 x, s_v3)].
  Proof. exact (layout_Dual3 fmt mfmt). Qed.
  Theorem C18_layout_HyperDual : forall x : HyperDual T, render fmt mfmt (tokens x) =
    layout fmt mfmt (HyperDual_f_re x) [(HyperDual_f_eps1 x, s_eps1); (HyperDual_f_eps2 x, s_eps2); (HyperDual_f_eps1eps2 x, s_eps12)].
  Proof. exact (layout_HyperDual fmt mfmt). Qed.
  Theorem C18_layout_HyperHyperDual : forall x : HyperHyperDual T, render fmt mfmt (tokens x) =
    layout fmt mfmt (HyperHyperDual_f_re x) [(HyperHyperDual_f_eps1 x, s_eps1); (HyperHyperDual_f_eps2 x, s_eps2); (HyperHyperDual_f_eps3 x, s_eps3);
      (HyperHyperDual_f_eps1eps2 x, s_eps12); (HyperHyperDual_f_eps1eps3 x, s_eps13); (HyperHyperDual_f_eps2eps3 x, s_eps23);
      (HyperHyperDual_f_eps1eps2eps3 x, s_eps123)].
  Proof. exact (layout_HyperHyperDual fmt mfmt). Qed.
  Theorem C18_layout_DualVec : forall x : DualVec T, tokens x = tokens (DualVec_f_re x) ++ der_fmt (DualVec_f_eps x) s_eps.
  Proof. exact (layout_DualVec). Qed.
  Theorem C18_layout_Dual2Vec : forall x : Dual2Vec T,
    tokens x = tokens (Dual2Vec_f_re x) ++ der_fmt (Dual2Vec_f_v1 x) s_eps1 ++ der_fmt (Dual2Vec_f_v2 x) s_eps1sq.
  Proof. exact (layout_Dual2Vec). Qed.
  Theorem C18_layout_HyperDualVec : forall x : HyperDualVec T,
    tokens x = tokens (HyperDualVec_f_re x) ++ der_fmt (HyperDualVec_f_eps1 x) s_eps1 ++ der_fmt (HyperDualVec_f_eps2 x) s_eps2
               ++ der_fmt (HyperDualVec_f_eps1eps2 x) s_eps12.
  Proof. exact (layout_HyperDualVec). Qed.
  Theorem C18_der_fmt_absent : forall sym, der_fmt (mkDerivative (T:=T) None) sym = [].
  Proof. exact (der_fmt_absent). Qed.
  Theorem C18_der_fmt_present_numbers : forall (m : mat T) sym, exists body, der_fmt (mkDerivative (Some m)) sym = [TLit plus] ++ body ++ [TLit sym].
  Proof. exact (der_fmt_present_numbers). Qed.
End Layout.
Section Faithful.
  Context {F : Type}.
  Theorem C18_shown_Dual : forall (x : Dual F), shown_numbers (tokens x) = [Dual_f_re x; Dual_f_eps x].
  Proof. exact shown_Dual. Qed.
  Theorem C18_shown_Dual2 : forall (x : Dual2 F), shown_numbers (tokens x) = [Dual2_f_re x; Dual2_f_v1 x; Dual2_f_v2 x].
  Proof. exact shown_Dual2. Qed.
  Theorem C18_shown_Dual3 : forall (x : Dual3 F), shown_numbers (tokens x) = [Dual3_f_re x; Dual3_f_v1 x; Dual3_f_v2 x; Dual3_f_v3 x].
  Proof. exact shown_Dual3. Qed.
  Theorem C18_shown_HyperDual : forall (x : HyperDual F), shown_numbers (tokens x) = [HyperDual_f_re x; HyperDual_f_eps1 x; HyperDual_f_eps2 x; HyperDual_f_eps1eps2 x].
  Proof. exact shown_HyperDual. Qed.
  Theorem C18_shown_HyperHyperDual : forall (x : HyperHyperDual F), shown_numbers (tokens x) =
    [HyperHyperDual_f_re x; HyperHyperDual_f_eps1 x; HyperHyperDual_f_eps2 x; HyperHyperDual_f_eps3 x; HyperHyperDual_f_eps1eps2 x;
     HyperHyperDual_f_eps1eps3 x; HyperHyperDual_f_eps2eps3 x; HyperHyperDual_f_eps1eps2eps3 x].
  Proof. exact shown_HyperHyperDual. Qed.
  Theorem C18_display_injective_Dual3 : forall (x y : Dual3 F), tokens x = tokens y -> x = y.
  Proof. exact display_injective_Dual3. Qed.
  Theorem C18_display_injective_HyperDual : forall (x y : HyperDual F), tokens x = tokens y -> x = y.
  Proof. exact display_injective_HyperDual. Qed.
  Theorem C18_shown_DualVec_present : forall (r : F) (m : mat F), mcols m = 1%nat -> mrows m <> 1%nat ->
    shown_numbers (tokens (mkDualVec r (mkDerivative (Some m)))) = r :: mat_to_list m.
  Proof. exact shown_DualVec_present. Qed.
End Faithful.

Definition C18_bundle := (@C18_layout_Dual,
  @C18_layout_Dual2,
  @C18_layout_Dual3,
  @C18_layout_HyperDual,
  @C18_layout_HyperHyperDual,
  @C18_layout_DualVec,
  @C18_layout_Dual2Vec,
  @C18_layout_HyperDualVec,
  @C18_der_fmt_absent,
  @C18_der_fmt_present_numbers,
  @C18_shown_Dual,
  @C18_shown_Dual2,
  @C18_shown_Dual3,
  @C18_shown_HyperDual,
  @C18_shown_HyperHyperDual,
  @C18_display_injective_Dual3,
  @C18_display_injective_HyperDual,
  @C18_shown_DualVec_present).
Print Assumptions C18_bundle.
