#!/usr/bin/env python3
"""Writes coq/ND/Proofs/C07_inst.v and coq/ND/Props/C07.v: the generic congruences of C07_proofs.v instantiated for the three
vector types, every elementary function included."""
import re as _re0
_src = open('/verif/tools/coqgen/gen_c01.py').read()
_ns = {}
exec(_src[_src.index('FNS = ['):_src.index('# type, part fn')], _ns)
FNS = [(n, d) for (n, t, d, h) in _ns['FNS']]
V = {
 'DualVec': dict(part='part_DualVec', wf='(fun _ : DualVec R => True)', L='nat',
                 fam='fun S : @block nat => S = nil \\/ exists i, S = i :: nil', idx='idx_DualVec i', bind='i', re='DualVec_f_re',
                 inidx='intros S F; destruct F as [->|[i ->]]; [exists 0%nat|exists i]; simpl; auto',
                 wfpre='', wfarg=''),
 'Dual2Vec': dict(part='part_Dual2Vec', wf='wf_Dual2Vec', L='nat',
                  fam='fun S : @block nat => S = nil \\/ (exists i, S = i :: nil) \\/ exists i j, S = i :: j :: nil', idx='idx_Dual2Vec i j', bind='i j', re='Dual2Vec_f_re',
                  inidx='', wfpre='wf', wfarg=''),
 'HyperDualVec': dict(part='part_HyperDualVec', wf='wf_HyperDualVec', L='(nat + nat)%type',
                      fam='fun S : @block (nat + nat) => S = nil \\/ (exists i, S = inl i :: nil) \\/ (exists j, S = inr j :: nil) \\/ exists i j, S = inl i :: inr j :: nil',
                      idx='idx_HyperDualVec i j', bind='i j', re='HyperDualVec_f_re', inidx='', wfpre='wf', wfarg=''),
}
out = ['''(* Proofs/C07_inst.v -- written by tools/coqgen/gen_c07.py *)
From ND Require Import Tactics C02_proofs C01_towers C01_faa C08_lift C09_proofs C09_faa C07_proofs.
Local Open Scope R_scope.
''']
thms = []
for T, d in V.items():
    part, wf, fam, re = d['part'], d['wf'], d['fam'], d['re']
    out.append('Definition fam_%s := %s.' % (T, fam))
    # family facts
    if T == 'DualVec':
        cover = 'forall S, fam_DualVec S -> exists i, In S (idx_DualVec i)'
        cover_pf = 'intros S [->|[i ->]]; [exists 0%nat|exists i]; simpl; auto.'
        dec_pf = 'intros S; destruct S as [|i [|j l]]; [left; left; reflexivity | left; right; exists i; reflexivity | right; intros [H|[k H]]; discriminate].'
        len_pf = 'intros S [->|[i ->]]; simpl; lia.'
        nil_pf = 'intros S _; left; reflexivity.'
        sub_pf = 'intros i j [H|[k H]]; discriminate.'
        out0_pf = 'intros x S F; destruct S as [|i [|j l]]; [exfalso; apply F; left; reflexivity | exfalso; apply F; right; exists i; reflexivity | reflexivity].'
    elif T == 'Dual2Vec':
        cover = 'forall S, fam_Dual2Vec S -> exists i j, In S (idx_Dual2Vec i j)'
        cover_pf = 'intros S [->|[[i ->]|[i [j ->]]]]; [exists 0%nat, 0%nat|exists i, 0%nat|exists i, j]; simpl; auto.'
        dec_pf = ('intros S; destruct S as [|i [|j [|k l]]]; [left; left; reflexivity | left; right; left; exists i; reflexivity | left; right; right; exists i, j; reflexivity '
                  '| right; intros [H|[[a H]|[a [b H]]]]; discriminate].')
        len_pf = 'intros S [->|[[i ->]|[i [j ->]]]]; simpl; lia.'
        nil_pf = 'intros S _; left; reflexivity.'
        sub_pf = 'intros i j _; split; right; left; eexists; reflexivity.'
        out0_pf = ('intros x S F; destruct S as [|i [|j [|k l]]]; [exfalso; apply F; left; reflexivity | exfalso; apply F; right; left; exists i; reflexivity '
                   '| exfalso; apply F; right; right; exists i, j; reflexivity | reflexivity].')
    else:
        cover = 'forall S, fam_HyperDualVec S -> exists i j, In S (idx_HyperDualVec i j)'
        cover_pf = 'intros S [->|[[i ->]|[[j ->]|[i [j ->]]]]]; [exists 0%nat, 0%nat|exists i, 0%nat|exists 0%nat, j|exists i, j]; simpl; auto.'
        dec_pf = ('intros S; destruct S as [|[i|j] [|[i2|j2] [|k l]]]; try (right; intros [H|[[a H]|[[a H]|[a [b H]]]]]; discriminate); '
                  '[left; left; reflexivity | left; right; left; exists i; reflexivity | left; right; right; right; exists i, j2; reflexivity | left; right; right; left; exists j; reflexivity].')
        len_pf = 'intros S [->|[[i ->]|[[j ->]|[i [j ->]]]]]; simpl; lia.'
        nil_pf = 'intros S _; left; reflexivity.'
        sub_pf = ('intros a b [H|[[i H]|[[j H]|[i [j H]]]]]; try discriminate; injection H as -> ->; split; [right; left; eexists; reflexivity | right; right; left; eexists; reflexivity].')
        out0_pf = ('intros x S F; destruct S as [|[i|j] [|[i2|j2] [|k l]]]; try reflexivity; exfalso; apply F; '
                   '[left; reflexivity | right; left; exists i; reflexivity | right; right; right; exists i, j2; reflexivity | right; right; left; exists j; reflexivity].')
    out.append('Lemma fam_%s_cover : %s.\nProof. %s Qed.' % (T, cover, cover_pf))
    out.append('Lemma fam_%s_dec : forall S, fam_%s S \\/ ~ fam_%s S.\nProof. %s Qed.' % (T, T, T, dec_pf))
    out.append('Lemma fam_%s_len : forall S, fam_%s S -> (length S <= 2)%%nat.\nProof. %s Qed.' % (T, T, len_pf))
    out.append('Lemma fam_%s_nil : forall S, fam_%s S -> fam_%s nil.\nProof. %s Qed.' % (T, T, T, nil_pf))
    out.append('Lemma fam_%s_sub : forall i j, fam_%s (i :: j :: nil) -> fam_%s (i :: nil) /\\ fam_%s (j :: nil).\nProof. %s Qed.' % (T, T, T, T, sub_pf))
    out.append('Lemma out0_%s : forall (x : %s R) S, ~ fam_%s S -> %s x S = 0.\nProof. %s Qed.' % (T, T, T, part, out0_pf))
    ex = 'destruct (fam_%s_cover S F) as [i HS]' % T if T == 'DualVec' else 'destruct (fam_%s_cover S F) as [i [j HS]]' % T
    ij = 'i' if T == 'DualVec' else 'i j'
    if T == 'DualVec':
        out.append('Lemma Hmul_%s : forall a b : %s R, True -> True -> forall S, fam_%s S -> %s (a * b)%%rs S = leibniz (%s a) (%s b) S.\nProof. intros a b _ _ S F; %s; exact (mul_DualVec i a b S HS). Qed.' % (T, T, T, part, part, part, ex))
        out.append('Lemma Hdiv_%s : forall a b : %s R, True -> True -> %s b nil <> 0 -> forall S, fam_%s S -> leibniz (%s (a / b)%%rs) (%s b) S = %s a S.\nProof. intros a b _ _ Hr S F; %s; exact (div_DualVec i a b S Hr HS). Qed.' % (T, T, part, T, part, part, part, ex))
        out.append('Lemma wfops_%s : forall a b : %s R, True -> True -> True.\nProof. auto. Qed.' % (T, T))
    else:
        out.append('Lemma Hmul_%s : forall a b : %s R, %s a -> %s b -> forall S, fam_%s S -> %s (a * b)%%rs S = leibniz (%s a) (%s b) S.\nProof. intros a b Wa Wb S F; %s; exact (mul_%s i j a b Wa Wb S HS). Qed.' % (T, T, wf, wf, T, part, part, part, ex, T))
        out.append('Lemma Hdiv_%s : forall a b : %s R, %s a -> %s b -> %s b nil <> 0 -> forall S, fam_%s S -> leibniz (%s (a / b)%%rs) (%s b) S = %s a S.\nProof. intros a b Wa Wb Hr S F; %s; exact (div_%s i j a b Wa Wb Hr S HS). Qed.' % (T, T, wf, wf, part, T, part, part, part, ex, T))
        dd = 'destruct a as [? [[?|]] [[?|]]], b as [? [[?|]] [[?|]]]' if T == 'Dual2Vec' else 'destruct a as [? [[?|]] [[?|]] [[?|]]], b as [? [[?|]] [[?|]] [[?|]]]'
        unf = 'unfold wf_Dual2Vec, wf_row' if T == 'Dual2Vec' else 'unfold wf_HyperDualVec, wf_col'
        for o, sym in (('add', '+'), ('sub', '-'), ('div', '/')):
            out.append('Lemma wf_%s_%s : forall a b : %s R, %s a -> %s b -> %s (a %s b)%%rs.\nProof. intros a b; %s; dmat; %s; simpl; intros; subst; reflexivity || exact I. Qed.' % (o, T, T, wf, wf, wf, sym, dd, unf))
    out.append('Lemma Hlin_%s : forall (a b : %s R) S, fam_%s S -> %s (a + b)%%rs S = %s a S + %s b S /\\ %s (a - b)%%rs S = %s a S - %s b S /\\ %s (- a)%%rs S = - %s a S.\nProof. intros a b S F; %s; exact (lin_%s %s a b S HS). Qed.' % (
        T, T, T, part, part, part, part, part, part, part, part, ex, T, ij))
    wfm = 'wfops_DualVec' if T == 'DualVec' else 'wf_%s_mul' % T
    wfd = 'wfops_DualVec' if T == 'DualVec' else 'wf_div_%s' % T
    wfa = 'wfops_DualVec' if T == 'DualVec' else 'wf_add_%s' % T
    wfs = 'wfops_DualVec' if T == 'DualVec' else 'wf_sub_%s' % T
    ops = '(fun a b : %s R => (a + b)%%rs) (fun a b => (a - b)%%rs) (fun a b => (a * b)%%rs) (fun a b => (a / b)%%rs) (fun a => (- a)%%rs)' % T
    out.append('Definition JA_%s : JetAlg %s %s fam_%s %s :=\n  Build_JetAlg _ _ _ _ _ _ _ _ _ _ fam_%s_dec fam_%s_len fam_%s_nil fam_%s_sub out0_%s Hmul_%s Hdiv_%s Hlin_%s %s %s %s %s.' % (
        T, part, wf, T, ops, T, T, T, T, T, T, T, T, wfm, wfd, wfa, wfs))
    out.append('Definition veq_%s := @veq _ _ %s.' % (T, part))
    def thm(name, stmt, proof):
        out.append('Lemma %s : %s.\nProof. %s Qed.' % (name, stmt, proof))
        thms.append((name, stmt))
    W = lambda v: ('%s %s -> ' % (wf, v)) if T != 'DualVec' else ''
    Wa = lambda v: 'W%s' % v if T != 'DualVec' else 'I'
    intro_w = lambda vs: ' '.join('W%s' % v for v in vs) if T != 'DualVec' else ''
    for o, sym in (('add', '+'), ('sub', '-')):
        thm('cong_%s_%s' % (T, o), "forall a a' b b' : %s R, veq_%s a a' -> veq_%s b b' -> veq_%s (a %s b)%%rs (a' %s b')%%rs" % (T, T, T, T, sym, sym),
            "exact (cong_%s JA_%s)." % (o, T))
    thm('cong_%s_neg' % T, "forall a a' : %s R, veq_%s a a' -> veq_%s (- a)%%rs (- a')%%rs" % (T, T, T), "exact (cong_neg JA_%s)." % T)
    thm('cong_%s_mul' % T, "forall a a' b b' : %s R, %s%s%s%sveq_%s a a' -> veq_%s b b' -> veq_%s (a * b)%%rs (a' * b')%%rs" % (T, W('a'), W("a'"), W('b'), W("b'"), T, T, T),
        "intros a a' b b' %s; exact (cong_mul JA_%s a a' b b' %s)." % (intro_w(['a', 'a2', 'b', 'b2']), T, ' '.join(Wa(v) for v in ['a', 'a2', 'b', 'b2'])))
    thm('cong_%s_div' % T, "forall a a' b b' : %s R, %s%s%s%s%s b nil <> 0 -> veq_%s a a' -> veq_%s b b' -> veq_%s (a / b)%%rs (a' / b')%%rs" % (T, W('a'), W("a'"), W('b'), W("b'"), part, T, T, T),
        "intros a a' b b' %s; exact (cong_div JA_%s a a' b b' %s)." % (intro_w(['a', 'a2', 'b', 'b2']), T, ' '.join(Wa(v) for v in ['a', 'a2', 'b', 'b2'])))
    stp = "(@step _ (fun a b : %s R => (a + b)%%rs) (fun a b => (a - b)%%rs) (fun a b => (a * b)%%rs) (fun a b => (a / b)%%rs))" % T
    oks = "(@ok_step _ _ %s %s)" % (part, wf)
    thm('history_%s' % T, ("forall (ops : list aop) (ys ys' : list (%s R)) (acc acc' : %s R), length ys = length ops -> length ys' = length ops -> "
        "%s acc -> %s acc' -> veq_%s acc acc' -> List.Forall2 veq_%s ys ys' -> "
        "List.Forall %s (combine ops ys) -> List.Forall %s (combine ops ys') -> "
        "veq_%s (fold_left %s (combine ops ys) acc) (fold_left %s (combine ops ys') acc')") % (T, T, wf, wf, T, T, oks, oks, T, stp, stp),
        "exact (history JA_%s)." % T)
    # elementary functions
    for (fn, dom) in FNS:
        import re as _re
        domf = '(fun r : R => %s)' % dom
        wfp = '%s x -> ' % wf if T != 'DualVec' else ''
        wfp2 = "%s x' -> " % wf if T != 'DualVec' else ''
        hyp_args = ('i j x Hd Wx' if dom != 'True' else 'i j x Wx') if T != 'DualVec' else ('i x Hd' if dom != 'True' else 'i x')
        thm('cong_%s_%s' % (T, fn), "forall x x' : %s R, %s%s%s (%s x) -> veq_%s x x' -> veq_%s (m_%s x) (m_%s x')" % (T, wfp, wfp2, domf, re, T, T, fn, fn),
            ("intros x x' %s; apply (cong_unary JA_%s (fun x : %s R => m_%s x) (tw3 m_%s) %s); auto; "
             "intros y Wy Dy S F; %s; exact (faa_%s_%s %s S HS).") % (
                'Wx Wx2' if T != 'DualVec' else '', T, T, fn, fn, domf, ex, T, fn,
                ('i j y ' if T != 'DualVec' else 'i y ') + ('Dy ' if dom != 'True' else '') + ('Wy' if T != 'DualVec' else '')))
    # powers: integer and real exponents (the faa statements of C09 hold for every exponent and every operand, no domain condition)
    for pw, nty in (('powi', 'Z'), ('powf', 'R')):
        wfp = '%s x -> ' % wf if T != 'DualVec' else ''
        wfp2 = "%s x' -> " % wf if T != 'DualVec' else ''
        thm('cong_%s_%s' % (T, pw), "forall (n : %s) (x x' : %s R), %s%sveq_%s x x' -> veq_%s (m_%s x n) (m_%s x' n)" % (nty, T, wfp, wfp2, T, T, pw, pw),
            ("intros n x x' %s; apply (cong_unary JA_%s (fun x : %s R => m_%s x n) (tw3 (fun d => m_%s d n)) (fun _ : R => True)); auto; "
             "intros y Wy Dy S F; %s; exact (faa_%s_%s %s S HS).") % (
                'Wx Wx2' if T != 'DualVec' else '', T, T, pw, pw, ex, T, pw, ('i j n y Wy' if T != 'DualVec' else 'i n y')))
    out.append('')
open('/verif/coq/ND/Proofs/C07_inst.v', 'w').write('\n'.join(out) + '\n')

props = ['''(* Props/C07.v -- property C07: absent derivative parts behave exactly like all-zero derivative parts.
   veq x y : every part of x and y has the same numerical value (an absent part reads as zero), whatever representation
   each uses.  Written by tools/coqgen/gen_c07.py; only statements, `exact` proofs and the axiom report. *)
From ND Require Import Tactics C02_proofs C01_towers C01_faa C09_proofs C09_faa C07_proofs C07_inst.
Local Open Scope R_scope.
''']
for n, st in thms:
    props.append('Theorem C07_%s : %s.\nProof. exact %s. Qed.' % (n, st, n))
props.append('''
(* non-vacuity: an absent gradient and an explicit zero gradient are numerically the same and both well formed *)
Example C07_absent_is_zero :
  veq_Dual2Vec (mkDual2Vec 2 (mkDerivative None) (mkDerivative None))
               (mkDual2Vec 2 (mkDerivative (Some (mkMat 1 3 (fun _ _ => 0)))) (mkDerivative None)) /\\
  wf_Dual2Vec (mkDual2Vec 2 (mkDerivative (Some (mkMat 1 3 (fun _ _ => 0)))) (mkDerivative None)).
Proof. split; [intros [|i [|j [|k l]]]; reflexivity | reflexivity]. Qed.
''')
props.append('Definition C07_bundle := (' + ',\n  '.join('C07_' + n for n, _ in thms) + ').\nPrint Assumptions C07_bundle.')
open('/verif/coq/ND/Props/C07.v', 'w').write('\n'.join(props) + '\n')
print(len(thms), 'theorems')
