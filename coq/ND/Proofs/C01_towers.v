(* Proofs/C01_towers.v -- the coefficients f0..f3 that the GENERATED third-order code computes from the real part are a
   derivative tower of the true function: f0 = g and f(k+1) is the derivative of fk (Coquelicot), on the open domain of g.
   The tower is read off the generated Dual3 expansion itself (seed 1, 0, 0), so no formula is restated by hand. *)
From ND Require Import Tactics.
Local Open Scope R_scope.

Definition tw3 (g : Dual3 R -> Dual3 R) (x : R) (k : nat) : R :=
  let y := g (mkDual3 x 1 0 0) in
  match k with 0%nat => Dual3_f_re y | 1%nat => Dual3_f_v1 y | 2%nat => Dual3_f_v2 y | 3%nat => Dual3_f_v3 y | _ => 0 end.

Definition is_tower (g : R -> R) (tw : R -> nat -> R) (x : R) : Prop :=
  tw x 0%nat = g x /\ is_derive (fun t => tw t 0%nat) x (tw x 1%nat) /\
  is_derive (fun t => tw t 1%nat) x (tw x 2%nat) /\ is_derive (fun t => tw t 2%nat) x (tw x 3%nat).

Ltac tower tac := unfold is_tower; split; [rcbv; unfold tan, tanh; try reflexivity; tac | split; [|split]];
  (rcbv_derive; auto_derive; [side | tac]).
Ltac fs := try (field; side).
Ltac ns := try rat_nsatz'.

(* the true functions, as the real-number interpretation Base/RInst.v names them *)
Definition g_recip (x : R) := / x.
Definition g_exp2 (x : R) := exp (x * ln 2).
Definition g_exp_m1 (x : R) := exp x - 1.
Definition g_log (b x : R) := ln x / ln b.
Definition g_ln_1p (x : R) := ln (1 + x).

Lemma tower_recip x : x <> 0 -> is_tower g_recip (tw3 m_recip) x.
Proof. intros H. unfold g_recip. tower fs. Qed.
Lemma tower_sqrt x : 0 < x -> is_tower sqrt (tw3 m_sqrt) x.
Proof. intros H. tower ns. Qed.
Lemma tower_cbrt x : x <> 0 -> is_tower Rcbrt (tw3 m_cbrt) x.
Proof. intros H. tower fs. Qed.
Lemma tower_exp x : is_tower exp (tw3 m_exp) x.
Proof. tower fs. Qed.
Lemma tower_exp2 x : is_tower g_exp2 (tw3 m_exp2) x.
Proof. unfold g_exp2. tower fs. Qed.
Lemma tower_exp_m1 x : is_tower g_exp_m1 (tw3 m_exp_m1) x.
Proof. unfold g_exp_m1. tower fs. Qed.
Lemma tower_ln x : 0 < x -> is_tower ln (tw3 m_ln) x.
Proof. intros H. tower fs. Qed.
Lemma tower_log b x : 0 < x -> ln b <> 0 -> is_tower (g_log b) (tw3 (fun d => m_log d b)) x.
Proof. intros H Hb. unfold g_log. tower fs. Qed.
Lemma tower_log2 x : 0 < x -> is_tower (g_log 2) (tw3 m_log2) x.
Proof. intros H. pose proof ln2_pos. unfold g_log. tower ltac:(try replace (1 + 1) with 2 by lra; fs). Qed.
Lemma tower_log10 x : 0 < x -> is_tower (g_log 10) (tw3 m_log10) x.
Proof. intros H. pose proof ln10_pos. unfold g_log. tower fs. Qed.
Lemma tower_ln_1p x : -1 < x -> is_tower g_ln_1p (tw3 m_ln_1p) x.
Proof. intros H. unfold g_ln_1p. tower fs. Qed.
Lemma tower_sin x : is_tower sin (tw3 m_sin) x.
Proof. tower fs. Qed.
Lemma tower_cos x : is_tower cos (tw3 m_cos) x.
Proof. tower fs. Qed.
Lemma tower_tan x : cos x <> 0 -> is_tower tan (tw3 m_tan) x.
Proof. intros H. tower fs. Qed.
Lemma tower_asin x : -1 < x < 1 -> is_tower asin (tw3 m_asin) x.
Proof. intros H. assert (0 < 1 - x * x) by nra. pose proof (inv_pos_div _ H0). tower ns. Qed.
Lemma tower_acos x : -1 < x < 1 -> is_tower acos (tw3 m_acos) x.
Proof. intros H. assert (0 < 1 - x * x) by nra. pose proof (inv_pos_div _ H0). tower ns. Qed.
Lemma tower_atan x : is_tower atan (tw3 m_atan) x.
Proof. tower fs. Qed.
Lemma tower_sinh x : is_tower sinh (tw3 m_sinh) x.
Proof. tower fs. Qed.
Lemma tower_cosh x : is_tower cosh (tw3 m_cosh) x.
Proof. tower fs. Qed.
Lemma tower_tanh x : is_tower tanh (tw3 m_tanh) x.
Proof. pose proof (cosh_pos x). tower ltac:(unfold tanh; fs). Qed.
Lemma tower_asinh x : is_tower arcsinh (tw3 m_asinh) x.
Proof. assert (0 < 1 + x * x) by nra. pose proof (inv_pos_div _ H). tower ns. Qed.
Lemma tower_atanh x : -1 < x < 1 -> is_tower Ratanh (tw3 m_atanh) x.
Proof.
  intros H. assert (Hq : 0 < (1 + x) * / (1 + - x)) by (apply Rmult_lt_0_compat; [|apply Rinv_0_lt_compat]; lra).
  tower fs.
Qed.
Lemma tower_acosh x : 1 < x -> is_tower Racosh (tw3 m_acosh) x.
Proof.
  intros H. assert (Ha : 0 < x * x - 1) by nra. assert (Ha' : 0 < x * x + - (1)) by nra.
  pose proof (sqrt_lt_R0 _ Ha'). pose proof (inv_pos_div _ Ha).
  tower ns.
Qed.
