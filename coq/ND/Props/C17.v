(* Props/C17.v -- property C17: Python bindings are a transparent view of the Rust operations.
   The wrapper layer (src/python_macro.rs) is modelled by hand in Hand/PyWrap.v; the statement "returns bit for bit what the Rust operation returns"
   is decided by running the Python module against the Rust harness and the translated model (correspondence).  What can be stated as theorems about
   the model: the reflected operators, which the macro writes as compositions, are the operations with the float lifted to a constant on the left.
   Only `exact` proofs here. *)
From ND Require Import Tactics PyWrap C17_proofs.
Local Open Scope R_scope.

Theorem C17_reflected_Dual : forall (d : Dual R) (f : R),
  py_radd d f = ((ofF f : Dual R) + d)%rs /\ py_rsub d f = ((ofF f : Dual R) - d)%rs /\ py_rmul d f = ((ofF f : Dual R) * d)%rs /\ (m_re d <> 0 -> py_rtruediv d f = ((ofF f : Dual R) / d)%rs).
Proof. exact refl_Dual. Qed.
Theorem C17_reflected_Dual2 : forall (d : Dual2 R) (f : R),
  py_radd d f = ((ofF f : Dual2 R) + d)%rs /\ py_rsub d f = ((ofF f : Dual2 R) - d)%rs /\ py_rmul d f = ((ofF f : Dual2 R) * d)%rs /\ (m_re d <> 0 -> py_rtruediv d f = ((ofF f : Dual2 R) / d)%rs).
Proof. exact refl_Dual2. Qed.
Theorem C17_reflected_Dual3 : forall (d : Dual3 R) (f : R),
  py_radd d f = ((ofF f : Dual3 R) + d)%rs /\ py_rsub d f = ((ofF f : Dual3 R) - d)%rs /\ py_rmul d f = ((ofF f : Dual3 R) * d)%rs /\ (m_re d <> 0 -> py_rtruediv d f = ((ofF f : Dual3 R) / d)%rs).
Proof. exact refl_Dual3. Qed.
Theorem C17_reflected_HyperDual : forall (d : HyperDual R) (f : R),
  py_radd d f = ((ofF f : HyperDual R) + d)%rs /\ py_rsub d f = ((ofF f : HyperDual R) - d)%rs /\ py_rmul d f = ((ofF f : HyperDual R) * d)%rs /\ (m_re d <> 0 -> py_rtruediv d f = ((ofF f : HyperDual R) / d)%rs).
Proof. exact refl_HyperDual. Qed.
Theorem C17_reflected_HyperHyperDual : forall (d : HyperHyperDual R) (f : R),
  py_radd d f = ((ofF f : HyperHyperDual R) + d)%rs /\ py_rsub d f = ((ofF f : HyperHyperDual R) - d)%rs /\ py_rmul d f = ((ofF f : HyperHyperDual R) * d)%rs /\
  (m_re d <> 0 -> py_rtruediv d f = ((ofF f : HyperHyperDual R) / d)%rs).
Proof. exact refl_HHD. Qed.

From NDgen Require Import Classes.
Section Forward.
  Context {F T : Type} {dn : DN F T}.
  (* the Python names that differ from the Rust names, for an arbitrary number type *)
  Theorem C17_forward_names : forall d : T,
    py_method Py_expm1 d = m_exp_m1 d /\ py_method Py_log d = m_ln d /\ py_method Py_log1p d = m_ln_1p d /\ py_method Py_arcsin d = m_asin d /\
    py_method Py_arccos d = m_acos d /\ py_method Py_arctan d = m_atan d /\ py_method Py_arcsinh d = m_asinh d /\ py_method Py_arccosh d = m_acosh d /\
    py_method Py_arctanh d = m_atanh d /\ py_method Py_neg d = (- d)%rs.
  Proof. exact forward_names. Qed.
  Theorem C17_pow_dispatch : forall (d e : T) (n : Z) (q : F), py_pow_int d n = m_powi d n /\ py_pow_float d q = m_powf d q /\ py_pow_dual d e = m_powd d e.
  Proof. exact pow_dispatch. Qed.
End Forward.

Example C17_example : py_rsub (mkDual 1 2) 5 = mkDual 4 (-2).
Proof. rcbv. f_equal; ring. Qed.

Definition C17_bundle := (C17_reflected_Dual, C17_reflected_Dual2, C17_reflected_Dual3, C17_reflected_HyperDual, C17_reflected_HyperHyperDual,
  @C17_forward_names, @C17_pow_dispatch).
Print Assumptions C17_bundle.
