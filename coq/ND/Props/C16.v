(* Props/C16.v -- property C16: serialization round-trips every part of a dual number.
   The per-struct tables are extracted from the serde_derive output in the macro-expanded source (gen/Gen_Serde.v);
   the structural model and its round-trip theorem are in Hand/Serde.v. *)
From Coq Require Import String List Bool.
From ND Require Import Serde.
From NDgen Require Import Gen_Serde.
Import ListNotations.
Open Scope string_scope.

Definition d_Dual := {| sd_members := serde_members_Dual; sd_ser := serde_ser_Dual; sd_de := serde_de_Dual |}.
Definition d_Dual2 := {| sd_members := serde_members_Dual2; sd_ser := serde_ser_Dual2; sd_de := serde_de_Dual2 |}.
Definition d_Dual3 := {| sd_members := serde_members_Dual3; sd_ser := serde_ser_Dual3; sd_de := serde_de_Dual3 |}.
Definition d_HyperDual := {| sd_members := serde_members_HyperDual; sd_ser := serde_ser_HyperDual; sd_de := serde_de_HyperDual |}.
Definition d_HyperHyperDual := {| sd_members := serde_members_HyperHyperDual; sd_ser := serde_ser_HyperHyperDual; sd_de := serde_de_HyperHyperDual |}.
Definition all_descs := [d_Dual; d_Dual2; d_Dual3; d_HyperDual; d_HyperHyperDual].

(* every (nested) scalar dual type: a chain of the five structs over a float leaf *)
Fixpoint scalar_type (t : ty) : Prop := match t with TLeaf => True | TStruct d i => In d all_descs /\ scalar_type i end.

(* the extracted tables are coherent: same (key, member) pairs on both sides, distinct keys, exactly the declared members in order *)
Theorem C16_tables_ok : forallb okb all_descs = true.
Proof. vm_compute. reflexivity. Qed.

Lemma scalar_okt t : scalar_type t -> okt t = true.
Proof.
  induction t as [|d i IH]; intros H; [reflexivity|]. destruct H as [Hd Hi]. simpl. rewrite (IH Hi), andb_true_r.
  pose proof C16_tables_ok as T. rewrite forallb_forall in T. apply T; assumption.
Qed.

(* round trip for every scalar dual type and every nesting, for any leaf codec that round-trips the leaf *)
Theorem C16_roundtrip : forall (F : Type) (ser_leaf : F -> json F) (de_leaf : json F -> option F),
  (forall x, de_leaf (ser_leaf x) = Some x) ->
  forall t v, scalar_type t -> wt F t v -> de F de_leaf t (ser F ser_leaf t v) = Some v.
Proof. intros F sl dl Hl t v Ht Hw. apply roundtrip; [exact Hl | apply scalar_okt; exact Ht | exact Hw]. Qed.

(* each part is stored under its own stable, documented name, in order, and nothing else is stored *)
Theorem C16_fields :
  keys (TStruct d_Dual TLeaf) = ["re"; "eps"] /\
  keys (TStruct d_Dual2 TLeaf) = ["re"; "v1"; "v2"] /\
  keys (TStruct d_Dual3 TLeaf) = ["re"; "v1"; "v2"; "v3"] /\
  keys (TStruct d_HyperDual TLeaf) = ["re"; "eps1"; "eps2"; "eps1eps2"] /\
  keys (TStruct d_HyperHyperDual TLeaf) = ["re"; "eps1"; "eps2"; "eps3"; "eps1eps2"; "eps1eps3"; "eps2eps3"; "eps1eps2eps3"].
Proof. repeat split; reflexivity. Qed.

(* no field is written conditionally (skip_serializing_if) and every key is required on input (no default): the struct encoding of Hand/Serde.v
   -- every member, always -- is the one serde_derive generated *)
Theorem C16_unconditional :
  (serde_uncond_Dual && serde_uncond_Dual2 && serde_uncond_Dual3 && serde_uncond_HyperDual && serde_uncond_HyperHyperDual = true) /\
  serde_required_Dual = map fst serde_ser_Dual /\ serde_required_Dual2 = map fst serde_ser_Dual2 /\ serde_required_Dual3 = map fst serde_ser_Dual3 /\
  serde_required_HyperDual = map fst serde_ser_HyperDual /\ serde_required_HyperHyperDual = map fst serde_ser_HyperHyperDual.
Proof. vm_compute. repeat split; reflexivity. Qed.

(* non-vacuity: a nested value is well typed *)
Example C16_wt_example : wt nat (TStruct d_Dual2 (TStruct d_Dual TLeaf))
  (VRec nat [VRec nat [VLeaf nat 1; VLeaf nat 2]; VRec nat [VLeaf nat 3; VLeaf nat 4]; VRec nat [VLeaf nat 5; VLeaf nat 6]]) /\
  scalar_type (TStruct d_Dual2 (TStruct d_Dual TLeaf)).
Proof. vm_compute. intuition. Qed.

Print Assumptions C16_tables_ok. Print Assumptions C16_roundtrip. Print Assumptions C16_fields. Print Assumptions C16_unconditional.
