(* Props/C09.v -- property C09: power functions are correct for every exponent.
   Written by tools/coqgen/gen_c09.py; only statements, `exact` proofs and the axiom report. *)
From ND Require Import C09_powd.
From ND Require Import Overload Float Mat Opt.
From NDgen Require Import Classes Gen_Float Gen_Derivative Gen_Dual Gen_Dual2 Gen_Dual3 Gen_HyperDual Gen_HyperHyperDual Gen_DualVec Gen_Dual2Vec Gen_HyperDualVec.
Section Powd.
Context {F T : Type} {dnFT : DN F T} {ordT : DNOrd T}.
Local Open Scope rs_scope.
Theorem C09_powd_Dual : forall x n : Dual T, m_powd x n = m_exp (m_ln x * n).
Proof. exact powd_Dual. Qed.
Theorem C09_powd_Dual2 : forall x n : Dual2 T, m_powd x n = m_exp (m_ln x * n).
Proof. exact powd_Dual2. Qed.
Theorem C09_powd_Dual3 : forall x n : Dual3 T, m_powd x n = m_exp (m_ln x * n).
Proof. exact powd_Dual3. Qed.
Theorem C09_powd_HyperDual : forall x n : HyperDual T, m_powd x n = m_exp (m_ln x * n).
Proof. exact powd_HyperDual. Qed.
Theorem C09_powd_HyperHyperDual : forall x n : HyperHyperDual T, m_powd x n = m_exp (m_ln x * n).
Proof. exact powd_HyperHyperDual. Qed.
Theorem C09_powd_DualVec : forall x n : DualVec T, m_powd x n = m_exp (m_ln x * n).
Proof. exact powd_DualVec. Qed.
Theorem C09_powd_Dual2Vec : forall x n : Dual2Vec T, m_powd x n = m_exp (m_ln x * n).
Proof. exact powd_Dual2Vec. Qed.
Theorem C09_powd_HyperDualVec : forall x n : HyperDualVec T, m_powd x n = m_exp (m_ln x * n).
Proof. exact powd_HyperDualVec. Qed.
End Powd.
From ND Require Import Tactics C01_towers C01_faa C09_proofs C09_faa C09_agree.
From ND Require Import Prog C03_proofs C09_three.
Local Open Scope R_scope.
Theorem C09_tower_powi_general : forall n x, x <> 0 -> (-2147483645 <= n <= 2147483647)%Z ->
  (n <> 0 /\ n <> 1 /\ n <> 2)%Z -> is_tower (g_powi n) (tw3 (fun d => m_powi d n)) x.
Proof. exact tower_powi_general. Qed.
Theorem C09_tower_powi_0 : forall x, is_tower (g_powi 0) (tw3 (fun d => m_powi d 0%Z)) x.
Proof. exact tower_powi_0. Qed.
Theorem C09_tower_powi_1 : forall x, is_tower (g_powi 1) (tw3 (fun d => m_powi d 1%Z)) x.
Proof. exact tower_powi_1. Qed.
Theorem C09_tower_powi_2 : forall x, is_tower (g_powi 2) (tw3 (fun d => m_powi d 2%Z)) x.
Proof. exact tower_powi_2. Qed.
Theorem C09_tower_powi : forall n x, x <> 0 -> (-2147483645 <= n <= 2147483647)%Z -> is_tower (g_powi n) (tw3 (fun d => m_powi d n)) x.
Proof. exact tower_powi. Qed.
Theorem C09_tower_powf_general : forall n x, 0 < x -> n <> 0 -> n <> 1 -> ~ Rabs (n - 1 - 1) < eps64 ->
  is_tower (g_powf n) (tw3 (fun d => m_powf d n)) x.
Proof. exact tower_powf_general. Qed.
Theorem C09_tower_powf_two : forall x, is_tower (g_powi 2) (tw3 (fun d => m_powf d 2)) x.
Proof. exact tower_powf_two. Qed.
Theorem C09_faa_Dual_powi : forall (n : Z) (x : Dual R), forall S, In S idx_Dual ->
  part_Dual (m_powi x n) S = faa (tw3 (fun d => m_powi d n) (Dual_f_re x)) (part_Dual x) S.
Proof. exact faa_Dual_powi. Qed.
Theorem C09_faa_Dual_powf : forall (n : R) (x : Dual R), forall S, In S idx_Dual ->
  part_Dual (m_powf x n) S = faa (tw3 (fun d => m_powf d n) (Dual_f_re x)) (part_Dual x) S.
Proof. exact faa_Dual_powf. Qed.
Theorem C09_faa_Dual2_powi : forall (n : Z) (x : Dual2 R), forall S, In S idx_Dual2 ->
  part_Dual2 (m_powi x n) S = faa (tw3 (fun d => m_powi d n) (Dual2_f_re x)) (part_Dual2 x) S.
Proof. exact faa_Dual2_powi. Qed.
Theorem C09_faa_Dual2_powf : forall (n : R) (x : Dual2 R), forall S, In S idx_Dual2 ->
  part_Dual2 (m_powf x n) S = faa (tw3 (fun d => m_powf d n) (Dual2_f_re x)) (part_Dual2 x) S.
Proof. exact faa_Dual2_powf. Qed.
Theorem C09_faa_Dual3_powi : forall (n : Z) (x : Dual3 R), forall S, In S idx_Dual3 ->
  part_Dual3 (m_powi x n) S = faa (tw3 (fun d => m_powi d n) (Dual3_f_re x)) (part_Dual3 x) S.
Proof. exact faa_Dual3_powi. Qed.
Theorem C09_faa_Dual3_powf : forall (n : R) (x : Dual3 R), forall S, In S idx_Dual3 ->
  part_Dual3 (m_powf x n) S = faa (tw3 (fun d => m_powf d n) (Dual3_f_re x)) (part_Dual3 x) S.
Proof. exact faa_Dual3_powf. Qed.
Theorem C09_faa_HyperDual_powi : forall (n : Z) (x : HyperDual R), forall S, In S idx_HyperDual ->
  part_HyperDual (m_powi x n) S = faa (tw3 (fun d => m_powi d n) (HyperDual_f_re x)) (part_HyperDual x) S.
Proof. exact faa_HyperDual_powi. Qed.
Theorem C09_faa_HyperDual_powf : forall (n : R) (x : HyperDual R), forall S, In S idx_HyperDual ->
  part_HyperDual (m_powf x n) S = faa (tw3 (fun d => m_powf d n) (HyperDual_f_re x)) (part_HyperDual x) S.
Proof. exact faa_HyperDual_powf. Qed.
Theorem C09_faa_HyperHyperDual_powi : forall (n : Z) (x : HyperHyperDual R), forall S, In S idx_HHD ->
  part_HHD (m_powi x n) S = faa (tw3 (fun d => m_powi d n) (HyperHyperDual_f_re x)) (part_HHD x) S.
Proof. exact faa_HyperHyperDual_powi. Qed.
Theorem C09_faa_HyperHyperDual_powf : forall (n : R) (x : HyperHyperDual R), forall S, In S idx_HHD ->
  part_HHD (m_powf x n) S = faa (tw3 (fun d => m_powf d n) (HyperHyperDual_f_re x)) (part_HHD x) S.
Proof. exact faa_HyperHyperDual_powf. Qed.
Theorem C09_faa_DualVec_powi : forall i, forall (n : Z) (x : DualVec R), forall S, In S (idx_DualVec i) ->
  part_DualVec (m_powi x n) S = faa (tw3 (fun d => m_powi d n) (DualVec_f_re x)) (part_DualVec x) S.
Proof. exact faa_DualVec_powi. Qed.
Theorem C09_faa_DualVec_powf : forall i, forall (n : R) (x : DualVec R), forall S, In S (idx_DualVec i) ->
  part_DualVec (m_powf x n) S = faa (tw3 (fun d => m_powf d n) (DualVec_f_re x)) (part_DualVec x) S.
Proof. exact faa_DualVec_powf. Qed.
Theorem C09_faa_Dual2Vec_powi : forall i j, forall (n : Z) (x : Dual2Vec R), wf_Dual2Vec x -> forall S, In S (idx_Dual2Vec i j) ->
  part_Dual2Vec (m_powi x n) S = faa (tw3 (fun d => m_powi d n) (Dual2Vec_f_re x)) (part_Dual2Vec x) S.
Proof. exact faa_Dual2Vec_powi. Qed.
Theorem C09_faa_Dual2Vec_powf : forall i j, forall (n : R) (x : Dual2Vec R), wf_Dual2Vec x -> forall S, In S (idx_Dual2Vec i j) ->
  part_Dual2Vec (m_powf x n) S = faa (tw3 (fun d => m_powf d n) (Dual2Vec_f_re x)) (part_Dual2Vec x) S.
Proof. exact faa_Dual2Vec_powf. Qed.
Theorem C09_faa_HyperDualVec_powi : forall i j, forall (n : Z) (x : HyperDualVec R), wf_HyperDualVec x -> forall S, In S (idx_HyperDualVec i j) ->
  part_HyperDualVec (m_powi x n) S = faa (tw3 (fun d => m_powi d n) (HyperDualVec_f_re x)) (part_HyperDualVec x) S.
Proof. exact faa_HyperDualVec_powi. Qed.
Theorem C09_faa_HyperDualVec_powf : forall i j, forall (n : R) (x : HyperDualVec R), wf_HyperDualVec x -> forall S, In S (idx_HyperDualVec i j) ->
  part_HyperDualVec (m_powf x n) S = faa (tw3 (fun d => m_powf d n) (HyperDualVec_f_re x)) (part_HyperDualVec x) S.
Proof. exact faa_HyperDualVec_powf. Qed.

(* the power functions agree where their domains overlap: positive real part, integer exponent -- powi(n) and powf(n as float) have the same parts
   in every type (both towers are derivative towers of x^n on (0, inf), where powerRZ x n = Rpower x n, and such a tower is unique) *)
Theorem C09_tw_powi_powf : forall (n : Z) (x : R), 0 < x -> (-2147483645 <= n <= 2147483647)%Z ->
  forall k, tw3 (fun d => m_powi d n) x k = tw3 (fun d => m_powf d (IZR n)) x k.
Proof. exact tw_powi_powf. Qed.
Theorem C09_agree_powi_powf_Dual : forall (n : Z) (x : Dual R), 0 < Dual_f_re x -> (-2147483645 <= n <= 2147483647)%Z -> forall S, In S idx_Dual ->
  part_Dual (m_powi x n) S = part_Dual (m_powf x (IZR n)) S.
Proof. exact agree_powi_powf_Dual. Qed.
Theorem C09_agree_powi_powf_Dual2 : forall (n : Z) (x : Dual2 R), 0 < Dual2_f_re x -> (-2147483645 <= n <= 2147483647)%Z -> forall S, In S idx_Dual2 ->
  part_Dual2 (m_powi x n) S = part_Dual2 (m_powf x (IZR n)) S.
Proof. exact agree_powi_powf_Dual2. Qed.
Theorem C09_agree_powi_powf_Dual3 : forall (n : Z) (x : Dual3 R), 0 < Dual3_f_re x -> (-2147483645 <= n <= 2147483647)%Z -> forall S, In S idx_Dual3 ->
  part_Dual3 (m_powi x n) S = part_Dual3 (m_powf x (IZR n)) S.
Proof. exact agree_powi_powf_Dual3. Qed.
Theorem C09_agree_powi_powf_HyperDual : forall (n : Z) (x : HyperDual R), 0 < HyperDual_f_re x -> (-2147483645 <= n <= 2147483647)%Z -> forall S, In S idx_HyperDual ->
  part_HyperDual (m_powi x n) S = part_HyperDual (m_powf x (IZR n)) S.
Proof. exact agree_powi_powf_HyperDual. Qed.
Theorem C09_agree_powi_powf_HyperHyperDual : forall (n : Z) (x : HyperHyperDual R), 0 < HyperHyperDual_f_re x -> (-2147483645 <= n <= 2147483647)%Z -> forall S, In S idx_HHD ->
  part_HHD (m_powi x n) S = part_HHD (m_powf x (IZR n)) S.
Proof. exact agree_powi_powf_HyperHyperDual. Qed.
Theorem C09_agree_powi_powf_DualVec : forall i, forall (n : Z) (x : DualVec R), 0 < DualVec_f_re x -> (-2147483645 <= n <= 2147483647)%Z -> forall S, In S (idx_DualVec i) ->
  part_DualVec (m_powi x n) S = part_DualVec (m_powf x (IZR n)) S.
Proof. exact agree_powi_powf_DualVec. Qed.
Theorem C09_agree_powi_powf_Dual2Vec : forall i j, forall (n : Z) (x : Dual2Vec R), wf_Dual2Vec x -> 0 < Dual2Vec_f_re x -> (-2147483645 <= n <= 2147483647)%Z -> forall S, In S (idx_Dual2Vec i j) ->
  part_Dual2Vec (m_powi x n) S = part_Dual2Vec (m_powf x (IZR n)) S.
Proof. exact agree_powi_powf_Dual2Vec. Qed.
Theorem C09_agree_powi_powf_HyperDualVec : forall i j, forall (n : Z) (x : HyperDualVec R), wf_HyperDualVec x -> 0 < HyperDualVec_f_re x -> (-2147483645 <= n <= 2147483647)%Z -> forall S, In S (idx_HyperDualVec i j) ->
  part_HyperDualVec (m_powi x n) S = part_HyperDualVec (m_powf x (IZR n)) S.
Proof. exact agree_powi_powf_HyperDualVec. Qed.

(* the three power functions, repeated multiplication / division and exp(n ln x) agree as NUMBERS of the five scalar types (every part at once):
   mul_prog n is x * ... * x (n factors from the lifted one); pw_ok n r is (n in {0,1,2}) or (r <> 0 and n in the i32 range of the code);
   consequences of C03_denotational (the derivative parts depend on the real function alone) *)
Theorem C09_mul_prog_meaning : forall n, mul_prog (S n) = PBin B_mul (mul_prog n) (PVar 0) /\ mul_prog 0 = PConst 1.
Proof. exact (fun n => conj eq_refl eq_refl). Qed.
Theorem C09_powers_agree_Dual :
  (forall (X : Dual R) n, pw_ok (Z.of_nat n) (Dual_f_re X) -> (m_powi X (Z.of_nat n : Z) : Dual R) = eval (X :: nil) (mul_prog n)) /\
  (forall (X : Dual R) n, Dual_f_re X <> 0 -> pw_ok (- Z.of_nat n) (Dual_f_re X) -> (m_powi X (- Z.of_nat n : Z)%Z : Dual R) = eval (X :: nil) (PBin B_div (PConst 1) (mul_prog n))) /\
  (forall (X : Dual R) z, 0 < Dual_f_re X -> pw_ok z (Dual_f_re X) -> (m_powi X (z : Z) : Dual R) = m_powd X (ofF (IZR z) : Dual R)).
Proof. exact powers_agree_Dual. Qed.
Theorem C09_powers_agree_Dual2 :
  (forall (X : Dual2 R) n, pw_ok (Z.of_nat n) (Dual2_f_re X) -> (m_powi X (Z.of_nat n : Z) : Dual2 R) = eval (X :: nil) (mul_prog n)) /\
  (forall (X : Dual2 R) n, Dual2_f_re X <> 0 -> pw_ok (- Z.of_nat n) (Dual2_f_re X) -> (m_powi X (- Z.of_nat n : Z)%Z : Dual2 R) = eval (X :: nil) (PBin B_div (PConst 1) (mul_prog n))) /\
  (forall (X : Dual2 R) z, 0 < Dual2_f_re X -> pw_ok z (Dual2_f_re X) -> (m_powi X (z : Z) : Dual2 R) = m_powd X (ofF (IZR z) : Dual2 R)).
Proof. exact powers_agree_Dual2. Qed.
Theorem C09_powers_agree_Dual3 :
  (forall (X : Dual3 R) n, pw_ok (Z.of_nat n) (Dual3_f_re X) -> (m_powi X (Z.of_nat n : Z) : Dual3 R) = eval (X :: nil) (mul_prog n)) /\
  (forall (X : Dual3 R) n, Dual3_f_re X <> 0 -> pw_ok (- Z.of_nat n) (Dual3_f_re X) -> (m_powi X (- Z.of_nat n : Z)%Z : Dual3 R) = eval (X :: nil) (PBin B_div (PConst 1) (mul_prog n))) /\
  (forall (X : Dual3 R) z, 0 < Dual3_f_re X -> pw_ok z (Dual3_f_re X) -> (m_powi X (z : Z) : Dual3 R) = m_powd X (ofF (IZR z) : Dual3 R)).
Proof. exact powers_agree_Dual3. Qed.
Theorem C09_powers_agree_HyperDual :
  (forall (X : HyperDual R) n, pw_ok (Z.of_nat n) (HyperDual_f_re X) -> (m_powi X (Z.of_nat n : Z) : HyperDual R) = eval (X :: nil) (mul_prog n)) /\
  (forall (X : HyperDual R) n, HyperDual_f_re X <> 0 -> pw_ok (- Z.of_nat n) (HyperDual_f_re X) -> (m_powi X (- Z.of_nat n : Z)%Z : HyperDual R) = eval (X :: nil) (PBin B_div (PConst 1) (mul_prog n))) /\
  (forall (X : HyperDual R) z, 0 < HyperDual_f_re X -> pw_ok z (HyperDual_f_re X) -> (m_powi X (z : Z) : HyperDual R) = m_powd X (ofF (IZR z) : HyperDual R)).
Proof. exact powers_agree_HyperDual. Qed.
Theorem C09_powers_agree_HyperHyperDual :
  (forall (X : HyperHyperDual R) n, pw_ok (Z.of_nat n) (HyperHyperDual_f_re X) -> (m_powi X (Z.of_nat n : Z) : HyperHyperDual R) = eval (X :: nil) (mul_prog n)) /\
  (forall (X : HyperHyperDual R) n, HyperHyperDual_f_re X <> 0 -> pw_ok (- Z.of_nat n) (HyperHyperDual_f_re X) -> (m_powi X (- Z.of_nat n : Z)%Z : HyperHyperDual R) = eval (X :: nil) (PBin B_div (PConst 1) (mul_prog n))) /\
  (forall (X : HyperHyperDual R) z, 0 < HyperHyperDual_f_re X -> pw_ok z (HyperHyperDual_f_re X) -> (m_powi X (z : Z) : HyperHyperDual R) = m_powd X (ofF (IZR z) : HyperHyperDual R)).
Proof. exact powers_agree_HyperHyperDual. Qed.

(* the refuted variant the repaired code no longer exhibits: with i32 products the third coefficient wraps already at n = 1292 *)
Example C09_i32_product_wraps : wrap32 (1292 * 1291 * 1290) <> (1292 * 1291 * 1290)%Z.
Proof. vm_compute. discriminate. Qed.
(* non-vacuity *)
Example C09_premises_hold : (2 <> 0) /\ (-2147483645 <= 1073741824 <= 2147483647)%Z /\ ~ Rabs (/2 - 1 - 1) < eps64.
Proof. split; [lra|]. split; [lia|]. unfold eps64. rewrite Rabs_left by lra. lra. Qed.

Definition C09_bundle := (@C09_powd_Dual,
  @C09_powd_Dual2,
  @C09_powd_Dual3,
  @C09_powd_HyperDual,
  @C09_powd_HyperHyperDual,
  @C09_powd_DualVec,
  @C09_powd_Dual2Vec,
  @C09_powd_HyperDualVec,
  C09_tower_powi_general,
  C09_tower_powi_0,
  C09_tower_powi_1,
  C09_tower_powi_2,
  C09_tower_powi,
  C09_tower_powf_general,
  C09_tower_powf_two,
  C09_faa_Dual_powi,
  C09_faa_Dual_powf,
  C09_faa_Dual2_powi,
  C09_faa_Dual2_powf,
  C09_faa_Dual3_powi,
  C09_faa_Dual3_powf,
  C09_faa_HyperDual_powi,
  C09_faa_HyperDual_powf,
  C09_faa_HyperHyperDual_powi,
  C09_faa_HyperHyperDual_powf,
  C09_faa_DualVec_powi,
  C09_faa_DualVec_powf,
  C09_faa_Dual2Vec_powi,
  C09_faa_Dual2Vec_powf,
  C09_faa_HyperDualVec_powi,
  C09_faa_HyperDualVec_powf,
  C09_tw_powi_powf,
  C09_agree_powi_powf_Dual,
  C09_agree_powi_powf_Dual2,
  C09_agree_powi_powf_Dual3,
  C09_agree_powi_powf_HyperDual,
  C09_agree_powi_powf_HyperHyperDual,
  C09_agree_powi_powf_DualVec,
  C09_agree_powi_powf_Dual2Vec,
  C09_agree_powi_powf_HyperDualVec,
  C09_mul_prog_meaning,
  C09_powers_agree_Dual,
  C09_powers_agree_Dual2,
  C09_powers_agree_Dual3,
  C09_powers_agree_HyperDual,
  C09_powers_agree_HyperHyperDual).
Print Assumptions C09_bundle.
