(* Proofs/C09_powd.v -- written by tools/coqgen/gen_c09.py *)
From ND Require Import Overload Float Mat Opt.
From NDgen Require Import Classes Gen_Float Gen_Derivative Gen_Dual Gen_Dual2 Gen_Dual3 Gen_HyperDual Gen_HyperHyperDual Gen_DualVec Gen_Dual2Vec Gen_HyperDualVec.
Local Open Scope rs_scope.
Section Powd.
Context {F T : Type} {dnFT : DN F T} {ordT : DNOrd T}.
Lemma powd_Dual : forall x n : Dual T, m_powd x n = m_exp (m_ln x * n).
Proof. intros; reflexivity. Qed.
Lemma powd_Dual2 : forall x n : Dual2 T, m_powd x n = m_exp (m_ln x * n).
Proof. intros; reflexivity. Qed.
Lemma powd_Dual3 : forall x n : Dual3 T, m_powd x n = m_exp (m_ln x * n).
Proof. intros; reflexivity. Qed.
Lemma powd_HyperDual : forall x n : HyperDual T, m_powd x n = m_exp (m_ln x * n).
Proof. intros; reflexivity. Qed.
Lemma powd_HyperHyperDual : forall x n : HyperHyperDual T, m_powd x n = m_exp (m_ln x * n).
Proof. intros; reflexivity. Qed.
Lemma powd_DualVec : forall x n : DualVec T, m_powd x n = m_exp (m_ln x * n).
Proof. intros; reflexivity. Qed.
Lemma powd_Dual2Vec : forall x n : Dual2Vec T, m_powd x n = m_exp (m_ln x * n).
Proof. intros; reflexivity. Qed.
Lemma powd_HyperDualVec : forall x n : HyperDualVec T, m_powd x n = m_exp (m_ln x * n).
Proof. intros; reflexivity. Qed.
End Powd.
