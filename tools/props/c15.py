"""C15 -- spherical Bessel functions j0, j1, j2 are correct for every real argument."""
import mpmath
from mpmath import mpf
import vlib, pyjet, genvals
from vlib import Case, f2b
from props.base import BaseProp, Violation

U = {64: 2.0 ** -53, 32: 2.0 ** -24}
EPS = {64: 2.0 ** -52, 32: 2.0 ** -23}
OPS3 = ['sph_j0', 'sph_j1', 'sph_j2']


def scale_jet(J, d):
    """tolerance scale: magnitude of the true terms, of an x-perturbation, and the rounding level of a well-conditioned
    evaluation (the functions and their derivatives are bounded by 1)"""
    x = abs(J.re)
    out = {}
    for S in J.fam:
        if not S:
            out[S] = abs(d[0]) + x * abs(d[1]) + 1
            continue
        tot = mpf(0)
        for p in pyjet.partitions(S):
            k = len(p)
            t = abs(d[k]) + x * abs(d[k + 1]) + 1
            for B in p:
                t = t * abs(J[B])
            tot += t
        out[S] = tot
    return out


class Prop(BaseProp):
    coq_targets = ['ND/Proofs/C15_proofs.vo', 'ND/Proofs/C15_faa.vo']
    n_quick, n_thorough = 360, 8000

    def points(self, rng, w):
        e = EPS[w]
        k = rng.below(10)
        if k == 0:
            return rng.choice([0.0, -0.0])
        if k == 1:
            return rng.choice([1, -1]) * e * rng.choice([0.25, 0.5, 0.999, 1e-3, 1e-100 if w == 64 else 1e-20])
        if k == 2:      # both sides of the switch, immediate neighbours
            b = f2b(e) if w == 64 else vlib.f2b32(e)
            nb = b + rng.choice([-1, 0, 1, 2, -2])
            x = vlib.b2f(nb) if w == 64 else vlib.b2f32(nb)
            return rng.choice([1, -1]) * x
        if k == 3:
            return rng.choice([1, -1]) * 10 ** rng.uniform(-12, -1)
        if k == 4:
            return rng.choice([1, -1]) * rng.uniform(0.1, 3)
        return rng.uniform(-50, 50)

    def cases(self, rng, n):
        tys = genvals.type_list(self.tier, include32=True) + [vlib.types()['f64'], vlib.types()['f32']]
        out = []
        k = 0
        while len(out) < n:
            ty = tys[k % len(tys)]
            op = OPS3[(k // len(tys)) % 3]
            k += 1
            w = ty.leaf().width
            x0 = self.points(rng, w)
            a = genvals.gen_value(rng, ty, genvals.leaf_rand, re_leaf=lambda r: x0)
            out.append(Case('c%d' % len(out), ty, op, [a], tag='pt'))
        return out

    def oracle(self, case, impl):
        w = case.ty.leaf().width
        conv = lambda b: pyjet.mpf_of_bits(b, w)
        if impl == 'panic':
            return Violation('counterexample', '%s on %s panics' % (case.op, case.ty), case=case, obtained='panic')
        J = pyjet.jet_of_value(case.args[0], case.ty, conv)
        n = J.order()
        tw = pyjet.sph_tower(int(case.op[-1]), n + 1)
        d = [f(J.re) for f in tw]
        ref = J.compose(d)
        scale = scale_jet(J, d)
        for S in ref.fam:
            b = pyjet.part_bits(impl, case.ty, S)
            want = ref[S]
            x = genvals.real_part(case.args[0], case.ty)
            if scale[S] >= mpf(2) ** (1000 if w == 64 else 120):
                continue
            if b == vlib.NAN:
                return Violation('counterexample', '%s on %s at x=%r: part %s is NaN, true value %s' % (case.op, case.ty, x, S, mpmath.nstr(want, 12)), case=case,
                                 expected=mpmath.nstr(want, 20), obtained='NaN', detail={'block': str(S)})
            got = conv(b)
            tol = 32 * U[w] * scale[S]
            if abs(got - want) > tol:
                return Violation('counterexample', '%s on %s at x=%r: part %s = %s, true value %s (|error| = %s u scale)' % (
                    case.op, case.ty, x, S, mpmath.nstr(got, 17), mpmath.nstr(want, 17), mpmath.nstr(abs(got - want) / (U[w] * scale[S]), 4)), case=case,
                    expected=mpmath.nstr(want, 25), obtained=mpmath.nstr(got, 25), detail={'block': str(S)})
        return None

    def finding_env(self, c):
        env = BaseProp.finding_env(self, c)
        env['eps'] = EPS[c.ty.leaf().width]
        return env

    def nontrivial(self, case, impl):
        return impl != 'panic'

    def rule_text(self):
        return ('sph_j0/1/2 on every type of the tier matrix, f32 types and the plain floats; real part from: 0, +-0, below the switch, the switch value and its float neighbours on '
                'both signs, 1e-12..1e-1, 0.1..3, uniform in [-50, 50]; derivative parts independent random; reference: Maclaurin series / closed forms at 60-90 digits composed by '
                'Faa di Bruno; tolerance 32 u Sum (|f_k| + |x f_{k+1}| + 1) prod|parts|')
