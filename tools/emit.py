#!/usr/bin/env python3
"""Emitter of the translator: JSON AST of the macro-expanded crate (tools/front) -> Gallina (coq/gen/*.v).

No type inference is done here.  Rust operators and methods become overloaded Coq notations / class methods
(Base/Overload.v, gen/Classes.v) and Coq's unification resolves them, the way rustc resolves traits.
A function whose body leaves the supported subset raises Untranslatable and is listed in coverage.json.
"""
import json, sys, os, re, hashlib, struct
from fractions import Fraction
from collections import OrderedDict, defaultdict


class Untranslatable(Exception):
    pass


# ------------------------------------------------------------------------------------------------------
# configuration tables

DUAL_STRUCTS = ['Dual', 'Dual2', 'Dual3', 'HyperDual', 'HyperHyperDual', 'DualVec', 'Dual2Vec', 'HyperDualVec']
VEC_STRUCTS = ['DualVec', 'Dual2Vec', 'HyperDualVec']
ALL_STRUCTS = ['Derivative'] + DUAL_STRUCTS

DN_UNARY = ("recip sqrt cbrt exp exp2 exp_m1 ln log2 log10 ln_1p sin cos tan asin acos atan sinh cosh tanh "
            "asinh acosh atanh sph_j0 sph_j1 sph_j2 abs signum inv").split()
DN_PRED = "is_zero is_one is_positive is_negative".split()
# (field name, class application, arity of method class or None)
DN_FIELDS = [
    ('dn_zero', 'HZero T'), ('dn_one', 'HOne T'), ('dn_ofF', 'OfF F T'), ('dn_re', 'M_re T F'),
    ('dn_add', 'HAdd T T T'), ('dn_sub', 'HSub T T T'), ('dn_mul', 'HMul T T T'), ('dn_div', 'HDiv T T T'),
    ('dn_neg', 'HNeg T T'),
    ('dn_addF', 'HAdd T F T'), ('dn_subF', 'HSub T F T'), ('dn_mulF', 'HMul T F T'), ('dn_divF', 'HDiv T F T'),
    ('dn_add_assign', 'HAddAssign T T'), ('dn_sub_assign', 'HSubAssign T T'),
    ('dn_mul_assign', 'HMulAssign T T'), ('dn_div_assign', 'HDivAssign T T'),
    ('dn_add_assignF', 'HAddAssign T F'), ('dn_sub_assignF', 'HSubAssign T F'),
    ('dn_mul_assignF', 'HMulAssign T F'), ('dn_div_assignF', 'HDivAssign T F'),
] + [('dn_' + m, 'M_%s T T' % m) for m in DN_UNARY] + [('dn_' + m, 'M_%s T bool' % m) for m in DN_PRED] + [
    ('dn_sin_cos', 'M_sin_cos T (T * T)'), ('dn_powi', 'M_powi T Z T'), ('dn_powf', 'M_powf T F T'),
    ('dn_log', 'M_log T F T'), ('dn_atan2', 'M_atan2 T T T'), ('dn_powd', 'M_powd T T T'),
    ('dn_mul_add', 'M_mul_add T T T T'), ('dn_abs_sub', 'M_abs_sub T T T'),
    ('dn_eqb', 'HEqb T T'),
    ('dn_nderiv', 'NDeriv T'),
]
# method classes that always exist (name -> arity), others are added on demand
BASE_METHODS = OrderedDict()
for m in DN_UNARY + DN_PRED + ['sin_cos', 're', 'tokens']:
    BASE_METHODS[m] = 0
for m in ['powi', 'powf', 'log', 'atan2', 'powd', 'abs_sub']:
    BASE_METHODS[m] = 1
BASE_METHODS['mul_add'] = 2
BASE_METHODS['partial_cmp'] = 1

ERASED_METHODS = {'clone', 'as_ref', 'as_mut', 'borrow', 'to_owned', 'into_owned', 'cloned', 'copied'}
INT_TYPES = {'i8', 'i16', 'i32', 'i64', 'i128', 'isize', 'u8', 'u16', 'u32', 'u64', 'u128'}
BINOPS = {'+': 'hadd', '-': 'hsub', '*': 'hmul', '/': 'hdiv'}
ASSIGNOPS = {'+=': 'hadd_assign', '-=': 'hsub_assign', '*=': 'hmul_assign', '/=': 'hdiv_assign'}
OPS_TRAITS = {'Add': 'add', 'Sub': 'sub', 'Mul': 'mul', 'Div': 'div', 'Neg': 'neg', 'Rem': 'rem',
              'AddAssign': 'add_assign', 'SubAssign': 'sub_assign', 'MulAssign': 'mul_assign',
              'DivAssign': 'div_assign', 'RemAssign': 'rem_assign'}
OP_CLASS = {'add': 'HAdd', 'sub': 'HSub', 'mul': 'HMul', 'div': 'HDiv', 'neg': 'HNeg',
            'add_assign': 'HAddAssign', 'sub_assign': 'HSubAssign', 'mul_assign': 'HMulAssign',
            'div_assign': 'HDivAssign'}
FCONSTS = ("E FRAC_1_PI FRAC_1_SQRT_2 FRAC_2_PI FRAC_2_SQRT_PI FRAC_PI_2 FRAC_PI_3 FRAC_PI_4 FRAC_PI_6 FRAC_PI_8 "
           "LN_10 LN_2 LOG10_E LOG2_E PI SQRT_2 TAU LOG2_10 LOG10_2").split()
COQ_KEYWORDS = {'at', 'in', 'as', 'if', 'then', 'else', 'match', 'with', 'end', 'fun', 'forall', 'exists', 'let',
                'fix', 'cofix', 'return', 'where', 'using', 'by', 'Type', 'Prop', 'Set', 'for', 'mod', 'exp', 'ln', 'sin',
                'cos', 'tan', 'sqrt', 'abs', 'inv', 'max', 'min', 'fst', 'snd', 'id', 'pow', 'zero', 'one', 'lit', 'nil',
                'cons', 'rec', 'self', 'other', 'rhs', 'T', 'F', 'Self', 'S', 'O', 'I', 'R', 'Q', 'Z', 'N'}


def vname(n):
    """Coq variable name for a Rust local."""
    if n == 'self':
        return 'self_'
    if n in COQ_KEYWORDS or n.startswith('_'):
        return 'v_' + n.lstrip('_')
    return n


def path_ids(segs):
    return [s['id'] for s in segs]


def strip_ws(s):
    return re.sub(r'\s+', '', s)


# ------------------------------------------------------------------------------------------------------
# literals

def f64_bits(x):
    return struct.unpack('<Q', struct.pack('<d', x))[0]


def f32_bits(x):
    try:
        return struct.unpack('<I', struct.pack('<f', x))[0]
    except OverflowError:
        return 0x7f800000 if x > 0 else 0xff800000


def coq_Q(fr):
    return '(%d # %d)%%Q' % (fr.numerator, fr.denominator)


def eval_const_float(e):
    """Constant-fold an f64 literal expression: returns (exact Fraction, python float)."""
    k = e['k']
    if k == 'lit' and e['lit']['k'] == 'float':
        d = e['lit']['digits']
        return Fraction(d), float(d)
    if k == 'lit' and e['lit']['k'] == 'int':
        d = e['lit']['digits']
        return Fraction(int(d)), float(int(d))
    if k == 'unary' and e['op'] == '-':
        q, f = eval_const_float(e['e'])
        return -q, -f
    if k == 'binary' and e['op'] in '+-*/':
        ql, fl = eval_const_float(e['l'])
        qr, fr = eval_const_float(e['r'])
        op = e['op']
        if op == '+':
            return ql + qr, fl + fr
        if op == '-':
            return ql - qr, fl - fr
        if op == '*':
            return ql * qr, fl * fr
        return ql / qr, fl / fr
    raise Untranslatable('non-constant float expression')


def is_float_const_expr(e):
    k = e['k']
    if k == 'lit':
        return e['lit']['k'] == 'float'
    if k == 'unary' and e['op'] == '-':
        return is_float_const_expr(e['e'])
    if k == 'binary' and e['op'] in '+-*/':
        return is_float_const_expr(e['l']) and is_float_const_expr(e['r'])
    return False


def coq_flit(e, ty='F'):
    q, f = eval_const_float(e)
    return '(lit (FLit %s %d %d) : %s)' % (coq_Q(q), f64_bits(f), f32_bits(f), ty)


# ------------------------------------------------------------------------------------------------------
# translation context for one function

class Ctx:
    def __init__(self, em, sec, self_ty, fn_name):
        self.em = em            # Emitter
        self.sec = sec          # Section
        self.self_ty = self_ty  # Coq type of Self
        self.fn_name = fn_name
        self.aliases = {}       # var -> (place expr json, wrapper) for `Some(s)` patterns on `&mut place`
        self.fresh = 0
        self.int_vars = set()   # locals known to be i32 (integer literals next to them are Z)
        self.deps = set()

    def gensym(self, base='t'):
        self.fresh += 1
        return '%s__%d' % (base, self.fresh)


class Section:
    def __init__(self, name, struct, kind):
        self.name = name
        self.struct = struct     # Rust struct name or None
        self.kind = kind         # 'dual' | 'derivative' | 'float' | 'generic'
        self.fns = []            # FnInfo
        self.out = []


class FnInfo:
    def __init__(self, **kw):
        self.__dict__.update(kw)


# ------------------------------------------------------------------------------------------------------

class Emitter:
    def __init__(self, ast):
        self.ast = ast
        self.mods = {m['name']: m for m in ast['items'] if m['k'] == 'mod'}
        self.methods = OrderedDict(BASE_METHODS)     # name -> arity
        self.method_arity_conflicts = {}
        self.fields = OrderedDict()                  # field name -> True
        self.structs = {}                            # name -> struct item
        self.coverage = []
        self.assoc_fns = defaultdict(dict)           # struct -> fn name -> coq def name (inherent, no receiver)

    # ---------------------------------------------------------------- types
    def ty(self, t, ctx):
        """Rust type (json) -> Coq type text; '_' when unknown."""
        if t is None:
            return 'unit'
        k = t['k']
        if k == 'ref':
            return self.ty(t['elem'], ctx)
        if k == 'tuple':
            if not t['elems']:
                return 'unit'
            return '(' + ' * '.join(self.ty(x, ctx) for x in t['elems']) + ')'
        if k == 'path':
            ids = path_ids(t['segs'])
            last = t['segs'][-1]
            name = last['id']
            if t.get('qself') is not None:
                # <X as Tr>::Output etc.
                if name == 'Output' or name == 'Inner':
                    return '_'
                return '_'
            if ids == ['Self']:
                return ctx.self_ty
            if ids == ['Self', 'Output'] or ids == ['Self', 'RealField']:
                return ctx.self_ty
            if ids == ['Self', 'Inner']:
                return 'T' if ctx.sec.kind != 'float' else 'F'
            if name in ('T', 'F') and len(ids) == 1:
                return name
            if name in ('f64', 'f32') and ctx.sec.kind == 'float':
                return 'F'
            if name in INT_TYPES:
                return 'Z'
            if name == 'I' and len(ids) == 1:
                return '(list %s)' % ctx.self_ty
            if name == 'usize' or (len(ids) == 1 and name in ('R', 'C', 'D', 'M', 'N', 'R2', 'C2', 'U1')):
                return 'nat'
            if name == 'bool':
                return 'bool'
            if name == 'Option' and isinstance(last['args'], list) and len(last['args']) == 1:
                return '(option %s)' % self.ty_text(last['args'][0], ctx)
            if name in self.structs:
                return '(%s T)' % name
            if name in ('OMatrix', 'OVector', 'SMatrix', 'SVector', 'DVector', 'DMatrix', 'Matrix'):
                if isinstance(last['args'], list) and last['args']:
                    return '(mat %s)' % self.ty_text(last['args'][0], ctx)
            return '_'
        return '_'

    def ty_text(self, text, ctx):
        """type given as token text (generic argument)"""
        s = strip_ws(re.sub(r"'\w+", '', text))
        s = s.lstrip('&')
        if s in ('T', 'F'):
            return s
        if s == 'Self':
            return ctx.self_ty
        if s in ('f64', 'f32') and ctx.sec.kind == 'float':
            return 'F'
        if s == 'i32':
            return 'Z'
        m = re.match(r'^(\w+)<', s)
        if m and m.group(1) in self.structs:
            return '(%s T)' % m.group(1)
        if m and m.group(1) in ('OMatrix', 'OVector', 'SMatrix', 'SVector', 'DVector', 'DMatrix', 'Matrix'):
            inner = s[len(m.group(1)) + 1:].split(',')[0]
            return '(mat %s)' % self.ty_text(inner, ctx)
        return '_'

    # ---------------------------------------------------------------- method classes
    def mclass(self, name, arity):
        if name in self.methods and self.methods[name] != arity:
            key = '%s_%d' % (name, arity)
            self.methods.setdefault(key, arity)
            return key
        self.methods.setdefault(name, arity)
        return name

    def field_class(self, name):
        self.fields[name] = True
        return 'f_' + name

    # ---------------------------------------------------------------- expressions
    def expr(self, e, ctx):
        k = e['k']
        f = getattr(self, 'e_' + k, None)
        if f is None:
            raise Untranslatable('expression kind %s' % k)
        return f(e, ctx)

    def e_lit(self, e, ctx):
        l = e['lit']
        if l['k'] == 'float':
            return coq_flit(e)
        if l['k'] == 'int':
            suf = l['suffix']
            if suf in ('usize', 'u32', 'u8'):
                return '%s%%nat' % l['digits']
            return '%s%%Z' % l['digits']
        if l['k'] == 'bool':
            return 'true' if l['value'] else 'false'
        if l['k'] == 'str':
            return self.coq_string(l['value'])
        raise Untranslatable('literal %s' % l['k'])

    def coq_string(self, s):
        # strings are lists of unicode code points (no dependency on Coq's byte strings)
        return '[' + '; '.join('%d%%nat' % ord(c) for c in s) + ']'

    def e_path(self, e, ctx):
        ids = path_ids(e['segs'])
        if ids[-1] == 'EPSILON':
            return '(fl_eps : F)'
        if len(ids) == 1:
            n = ids[0]
            if n == 'None':
                return 'None'
            if n == 'PhantomData':
                return 'tt'
            if n == 'U1':
                return '1%nat'
            return vname(n)
        if ids[-1] == 'NDERIV':
            return '(nderiv %s)' % self.type_prefix(e, ctx)
        if ids[-1] == 'EPSILON':
            return '(fl_eps : F)'
        raise Untranslatable('path %s' % e['text'])

    def type_prefix(self, e, ctx):
        """Coq type named by the prefix of a path expression `X::f` / `<X>::f` / `<X as Tr>::f`."""
        if e.get('qself') is not None:
            return self.ty(e['qself']['ty'], ctx)
        segs = e['segs'][:-1]
        ids = path_ids(segs)
        if ids == ['Self']:
            return ctx.self_ty
        if ids == ['Self', 'Output']:
            return ctx.self_ty
        if len(ids) == 1:
            n = ids[0]
            if n in ('T', 'F'):
                return n
            if n in ('f64', 'f32') and ctx.sec.kind == 'float':
                return 'F'
            if n in self.structs:
                return '(%s T)' % n
        return '_'

    def e_ref(self, e, ctx):
        return self.expr(e['e'], ctx)

    def e_unary(self, e, ctx):
        op = e['op']
        if op == '*':
            return self.expr(e['e'], ctx)
        if op == '-':
            if is_float_const_expr(e):
                return coq_flit(e)
            ctx.deps.add(('op', 'neg'))
            return '(- %s)' % self.expr(e['e'], ctx)
        if op == '!':
            return '(negb %s)' % self.expr(e['e'], ctx)
        raise Untranslatable('unary %s' % op)

    def e_binary(self, e, ctx):
        op = e['op']
        if op in BINOPS:
            if is_float_const_expr(e):
                return coq_flit(e)
            ctx.deps.add(('op', {'+': 'add', '-': 'sub', '*': 'mul', '/': 'div'}[op]))
            return '(%s %s %s)' % (self.expr(e['l'], ctx), op, self.expr(e['r'], ctx))
        cmp = {'<': '<?', '<=': '<=?', '>': '>?', '>=': '>=?', '==': '=='}
        if op in cmp:
            ctx.deps.add(('op', 'cmp'))
            return '(%s %s %s)' % (self.expr(e['l'], ctx), cmp[op], self.expr(e['r'], ctx))
        if op == '!=':
            return '(negb (%s == %s))' % (self.expr(e['l'], ctx), self.expr(e['r'], ctx))
        if op == '&&':
            return '(andb %s %s)' % (self.expr(e['l'], ctx), self.expr(e['r'], ctx))
        if op == '||':
            return '(orb %s %s)' % (self.expr(e['l'], ctx), self.expr(e['r'], ctx))
        raise Untranslatable('binary %s' % op)

    def e_field(self, e, ctx):
        m = e['member']
        st = self.structs.get(ctx.sec.struct)
        if st is not None and any(f['name'] == m and 'PhantomData' in f['ty']['text'] for f in st['fields']):
            return 'tt'
        return '(%s %s)' % (self.field_class(m), self.expr(e['base'], ctx))

    def e_tuple(self, e, ctx):
        if not e['elems']:
            return 'tt'
        return '(' + ', '.join(self.expr(x, ctx) for x in e['elems']) + ')'

    def e_block(self, e, ctx):
        return self.block(e['stmts'], ctx, None)

    def e_unsafe(self, e, ctx):
        raise Untranslatable('unsafe block')

    def e_if(self, e, ctx):
        c = e['cond']
        if e['else'] is None:
            raise Untranslatable('if without else in expression position')
        th = self.block(e['then']['stmts'], ctx, None)
        el = self.expr(e['else'], ctx)
        if c['k'] == 'let':
            pat = self.pat(c['pat'], ctx)
            return '(match %s with %s => %s | _ => %s end)' % (self.expr(c['e'], ctx), pat, th, el)
        return '(if (%s : bool) then %s else %s)' % (self.expr(c, ctx), th, el)

    def e_match(self, e, ctx):
        scrut = self.expr(e['e'], ctx)
        arms = []
        for a in e['arms']:
            if a['guard'] is not None:
                raise Untranslatable('match guard')
            arms.append('| %s => %s' % (self.pat(a['pat'], ctx), self.expr(a['body'], ctx)))
        return '(match %s with %s end)' % (scrut, ' '.join(arms))

    def e_closure(self, e, ctx):
        ps = e['params']
        body = self.expr(e['body'], ctx)
        if not ps:
            return '(fun _ : unit => %s)' % body
        return '(fun %s => %s)' % (' '.join(self.closure_param(p, ctx) for p in ps), body)

    def closure_param(self, p, ctx):
        if p['k'] == 'ident':
            return vname(p['name'])
        if p['k'] == 'type':
            return self.closure_param(p['pat'], ctx)
        if p['k'] == 'wild':
            return '_'
        return "'" + self.pat(p, ctx)

    def e_struct(self, e, ctx):
        ids = path_ids(e['path'])
        name = ids[-1]
        if name == 'Self':
            name = ctx.sec.struct
        if name not in self.structs:
            raise Untranslatable('struct literal %s' % name)
        st = self.structs[name]
        vals = {f['member']: f['e'] for f in e['fields']}
        args = []
        for fld in self.model_fields(st):
            if fld['name'] not in vals:
                raise Untranslatable('struct literal missing field')
            args.append(self.expr(vals[fld['name']], ctx))
        return '(mk%s %s)' % (name, ' '.join(args))

    def e_macro(self, e, ctx):
        p = strip_ws(e['path'])
        if p in ('panic', 'unimplemented', 'todo', 'unreachable', '::core::panicking::panic', 'core::panicking::panic'):
            raise Untranslatable('panics by design')
        raise Untranslatable('macro %s' % p)

    def e_try(self, e, ctx):
        raise Untranslatable('? operator')

    def e_index(self, e, ctx):
        return '(hindex %s %s)' % (self.expr(e['e'], ctx), self.expr(e['index'], ctx))

    def e_cast(self, e, ctx):
        raise Untranslatable('as cast')

    def e_assign(self, e, ctx):
        raise Untranslatable('assignment in expression position')

    # ---- calls
    def e_method(self, e, ctx):
        m = e['method']
        recv = e['recv']
        args = e['args']
        # F::from(x).unwrap()  -> cast
        if m == 'unwrap' and recv['k'] == 'call' and recv['func']['k'] == 'path':
            ids = path_ids(recv['func']['segs'])
            if len(ids) == 2 and ids[1] == 'from' and ids[0] in ('F',):
                return self.cast_to_F(recv['args'][0], ctx)
        if m in ERASED_METHODS and not args:
            return self.expr(recv, ctx)
        r = self.expr(recv, ctx)
        if m == 'into' and not args:
            ctx.deps.add(('m', 'from'))
            return '(ofF %s)' % r
        a = [self.expr(x, ctx) for x in args]
        # option / container vocabulary
        if m == 'map' and len(a) == 1:
            return '(hmap %s %s)' % (a[0], r)
        if m == 'zip' and len(a) == 1:
            return '(opt_zip %s %s)' % (r, a[0])
        if m == 'and_then' and len(a) == 1:
            return '(opt_bind %s %s)' % (r, a[0])
        if m == 'unwrap_or_else' and len(a) == 1:
            return '(opt_unwrap_or_else %s %s)' % (r, a[0])
        if m == 'map_or' and len(a) == 2:
            return '(opt_map_or %s %s %s)' % (r, a[0], a[1])
        if m == 'map_or_else' and len(a) == 2:
            return '(opt_map_or_else %s %s %s)' % (r, a[0], a[1])
        if m == 'filter' and len(a) == 1:
            return '(opt_filter %s %s)' % (r, a[0])
        if m == 'fold' and len(a) == 2:
            return '(fold_left %s %s %s)' % (a[1], r, a[0])
        if m == 'unwrap' and not a:
            raise Untranslatable('unwrap')
        if len(a) == 1 and m in ('eq', 'ne', 'lt', 'le', 'gt', 'ge'):
            ctx.deps.add(('op', 'cmp'))
            return {'eq': '(%s == %s)', 'ne': '(negb (%s == %s))', 'lt': '(%s <? %s)', 'le': '(%s <=? %s)',
                    'gt': '(%s >? %s)', 'ge': '(%s >=? %s)'}[m] % (r, a[0])
        cls = self.mclass(m, len(a))
        ctx.deps.add(('m', m))
        return '(m_%s %s)' % (cls, ' '.join([r] + a))

    def cast_to_F(self, arg, ctx):
        if is_float_const_expr(arg):
            return coq_flit(arg)
        return '(castZ %s : F)' % self.expr(arg, ctx)

    def e_call(self, e, ctx):
        fn = e['func']
        args = e['args']
        if fn['k'] != 'path':
            # call of a closure value
            return '(%s %s)' % (self.expr(fn, ctx), ' '.join(self.expr(x, ctx) for x in args) or 'tt')
        ids = path_ids(fn['segs'])
        last = ids[-1]
        if len(ids) == 1 and fn.get('qself') is None:
            if last == 'Some':
                return '(Some %s)' % self.expr(args[0], ctx)
            if last == 'Ok':
                return '(Ok %s)' % self.expr(args[0], ctx)
            if last == 'Err':
                return '(Err %s)' % self.expr(args[0], ctx)
            if last == 'Self':
                # tuple struct constructor
                return self.tuple_ctor(ctx.sec.struct, args, ctx)
            if last in self.structs and self.structs[last]['tuple']:
                return self.tuple_ctor(last, args, ctx)
            a = ' '.join(self.expr(x, ctx) for x in args) or 'tt'
            ctx.deps.add(('f', last))
            return '(%s %s)' % (vname(last), a)
        tp = self.type_prefix(fn, ctx)
        a = [self.expr(x, ctx) for x in args]
        prefix_ids = ids[:-1]
        # nalgebra constructors
        if prefix_ids and prefix_ids[-1] in ('OMatrix', 'OVector', 'SVector', 'SMatrix', 'DVector', 'DMatrix', 'Matrix'):
            if last == 'zeros_generic' and len(a) == 2:
                return '(mat_zeros %s %s)' % (a[0], a[1])
            if last == 'identity' and not a and prefix_ids[-1] == 'SVector':
                return '(mat_identity 1%nat 1%nat)'
            raise Untranslatable('nalgebra constructor %s' % last)
        # <f64>::recip(*self) : std primitive of the float type
        if ctx.sec.kind == 'float' and tp == 'F' and fn.get('qself') is not None:
            return '(std_%s %s)' % (last, ' '.join(a))
        # constants / conversions
        if not a and last in ('one', 'zero'):
            return '(%s : %s)' % (last, tp)
        if not a and last == 'epsilon' and tp == 'F':
            return '(fl_eps : F)'
        if not a and last in FCONSTS and tp == 'F':
            return '(fl_const C_%s : F)' % last
        if not a and last in FCONSTS and tp == 'T':
            # FloatConst of the inner number: the lifted float constant (C08 proves this of every dual type)
            return '(ofF (fl_const C_%s : F) : T)' % last
        if tp == 'F' and len(a) == 1 and last.startswith('from_') and last[5:] in INT_TYPES | {'usize'}:
            if last == 'from_usize':
                return '(Some (castZ (Z.of_nat %s) : F))' % a[0]
            return '(Some (castZ %s : F))' % a[0]
        if last == 'from' and len(a) == 1 and tp != 'F':
            ctx.deps.add(('m', 'from'))
            return '(ofF %s : %s)' % (a[0], tp)
        # associated functions of the crate's structs
        sname = None
        if prefix_ids == ['Self'] or prefix_ids == ['Self', 'Output']:
            sname = ctx.sec.struct
        elif len(prefix_ids) == 1 and prefix_ids[0] in self.structs:
            sname = prefix_ids[0]
        elif fn.get('qself') is not None and fn['qself']['ty']['k'] == 'path':
            q = fn['qself']['ty']['segs'][-1]['id']
            if q in self.structs:
                sname = q
        if sname is not None:
            if last in self.assoc_fns[sname]:
                ctx.deps.add(('a', sname, last))
                return '(%s %s)' % (self.assoc_fns[sname][last], ' '.join(a) or 'tt') if a else self.assoc_fns[sname][last]
            # method called in UFCS form: Self::chain_rule(self, ...)
            cls = self.mclass(last, len(a) - 1) if a else None
            if cls is None:
                raise Untranslatable('unknown associated function %s::%s' % (sname, last))
            ctx.deps.add(('m', last))
            return '(m_%s %s)' % (cls, ' '.join(a))
        # trait UFCS: DualNum::recip(&self), Float::abs(x), T::to_string ...
        if a:
            cls = self.mclass(last, len(a) - 1)
            ctx.deps.add(('m', last))
            return '(m_%s %s)' % (cls, ' '.join(a))
        raise Untranslatable('call %s' % fn['text'])

    def tuple_ctor(self, sname, args, ctx):
        st = self.structs[sname]
        vals = []
        for fld, a in zip(st['fields'], args):
            if 'PhantomData' in fld['ty']['text']:
                continue
            vals.append(self.expr(a, ctx))
        return '(mk%s %s)' % (sname, ' '.join(vals))

    # ---------------------------------------------------------------- patterns
    def pat(self, p, ctx):
        k = p['k']
        if k == 'ident':
            if p['sub'] is not None:
                return '(%s as %s)' % (self.pat(p['sub'], ctx), vname(p['name']))
            if p['name'] == 'None':
                return 'None'
            return vname(p['name'])
        if k == 'wild':
            return '_'
        if k == 'tuple':
            return '(' + ', '.join(self.pat(x, ctx) for x in p['elems']) + ')'
        if k == 'tuplestruct':
            ids = path_ids(p['path'])
            if ids[-1] in ('Some', 'Ok', 'Err'):
                return '(%s %s)' % (ids[-1], ' '.join(self.pat(x, ctx) for x in p['elems']))
            raise Untranslatable('pattern %s' % ids)
        if k == 'path':
            ids = path_ids(p['segs'])
            if ids[-1] == 'None':
                return 'None'
            raise Untranslatable('pattern path %s' % ids)
        if k == 'lit':
            l = p['lit']
            if l['k'] == 'int':
                return '%s%%Z' % l['digits']
            if l['k'] == 'bool':
                return 'true' if l['value'] else 'false'
        if k == 'ref':
            return self.pat(p['pat'], ctx)
        if k == 'type':
            return self.pat(p['pat'], ctx)
        raise Untranslatable('pattern kind %s' % k)

    # ---------------------------------------------------------------- statements
    def place_root(self, e):
        """root variable and field path of an assignable place"""
        path = []
        while True:
            if e['k'] == 'field':
                path.append(e['member'])
                e = e['base']
            elif e['k'] == 'unary' and e['op'] == '*':
                e = e['e']
            elif e['k'] == 'path' and len(e['segs']) == 1:
                return e['segs'][0]['id'], list(reversed(path))
            else:
                raise Untranslatable('assignment target')

    def set_place(self, root, path, newval):
        """Coq term for root with root.path := newval"""
        v = vname(root)
        if not path:
            return newval
        # nested setters
        def go(base, p):
            if len(p) == 1:
                self.fields[p[0]] = True
                return '(set_%s %s %s)' % (p[0], newval, base)
            self.fields[p[0]] = True
            inner = go('(f_%s %s)' % (p[0], base), p[1:])
            return '(set_%s %s %s)' % (p[0], inner, base)
        return go(v, path)

    def assigned_roots(self, stmts, ctx):
        roots = []
        aliases = dict(ctx.aliases)
        class Tmp:
            pass
        tmp = Tmp()
        tmp.aliases = aliases
        def add(r):
            if r in aliases:
                r = self.place_root(aliases[r][0])[0]
            if r not in roots:
                roots.append(r)
        def visit_expr(e):
            if e is None:
                return
            k = e['k']
            if k == 'assign' or (k == 'binary' and e['op'] in ASSIGNOPS):
                try:
                    l = e['l']
                    if l['k'] == 'index':
                        l = l['e']
                    r, _ = self.place_root(l)
                    add(r)
                except Untranslatable:
                    pass
            if k == 'block':
                for s in e['stmts']:
                    visit_stmt(s)
            if k == 'if':
                if e['cond']['k'] == 'let':
                    self.bind_mut_aliases(e['cond']['e'], e['cond']['pat'], tmp)
                for s in e['then']['stmts']:
                    visit_stmt(s)
                visit_expr(e['else'])
            if k == 'match':
                for a in e['arms']:
                    self.bind_mut_aliases(e['e'], a['pat'], tmp)
                    visit_expr(a['body'])
        def visit_stmt(s):
            if s['k'] == 'expr':
                visit_expr(s['expr'])
        for s in stmts:
            visit_stmt(s)
        return roots

    def block(self, stmts, ctx, final):
        """Translate a block; `final` = Coq term to return when the block has no tail expression (unit blocks of
        state-updating functions), or None."""
        if not stmts:
            if final is None:
                return 'tt'
            return final
        s, rest = stmts[0], stmts[1:]
        k = s['k']
        if k == 'expr' and s['expr']['k'] == 'other' and s['expr'].get('text', '') == '':
            return self.block(rest, ctx, final)
        if k == 'local':
            if s['init'] is None or s['else'] is not None:
                raise Untranslatable('let without initialiser / let-else')
            p = s['pat']
            init = self.expr(s['init'], ctx)
            body = self.block(rest, ctx, final)
            if p['k'] == 'type':
                p = p['pat']
            if p['k'] == 'ident' and p['sub'] is None:
                return '(let %s := %s in\n    %s)' % (vname(p['name']), init, body)
            return "(let '%s := %s in\n    %s)" % (self.pat(p, ctx), init, body)
        if k == 'macro':
            raise Untranslatable('statement macro %s' % s['path'])
        if k == 'item':
            raise Untranslatable('nested item')
        e = s['expr']
        # early return guard: `if c { [stmts;] return v; } rest`  ==>  if c then v else rest
        if e['k'] == 'if' and e['else'] is None and e['cond']['k'] != 'let' and e['then']['stmts']:
            last = e['then']['stmts'][-1]
            if last['k'] == 'expr' and last['expr']['k'] == 'return' and last['expr']['e'] is not None:
                th_stmts = e['then']['stmts'][:-1] + [{'k': 'expr', 'expr': last['expr']['e'], 'semi': False}]
                th = self.block(th_stmts, ctx, None)
                return '(if (%s : bool) then %s else %s)' % (self.expr(e['cond'], ctx), th, self.block(rest, ctx, final))
        if e['k'] == 'return' and e['e'] is not None and not rest:
            return self.expr(e['e'], ctx)
        if not rest and not s['semi'] and not self.is_update(e):
            # tail expression
            return self.expr(e, ctx)
        # state update statements
        ek = e['k']
        if ek == 'assign' and e['l']['k'] == 'index' and e['l']['e']['k'] == 'path' and len(e['l']['e']['segs']) == 1:
            v = vname(e['l']['e']['segs'][0]['id'])
            return '(let %s := (hindex_set %s %s %s) in\n    %s)' % (v, v, self.expr(e['l']['index'], ctx), self.expr(e['r'], ctx), self.block(rest, ctx, final))
        if ek == 'assign':
            root, path = self.resolve_alias(e['l'], ctx)
            new = self.expr(e['r'], ctx)
            if isinstance(root, tuple):
                return self.alias_update(root, new, rest, ctx, final)
            return '(let %s := %s in\n    %s)' % (vname(root), self.set_place(root, path, new), self.block(rest, ctx, final))
        if ek == 'binary' and e['op'] in ASSIGNOPS:
            root, path = self.resolve_alias(e['l'], ctx)
            ctx.deps.add(('op', ASSIGNOPS[e['op']][1:]))
            if isinstance(root, tuple):
                cur = vname(root[0])
                new = '(%s %s %s)' % (ASSIGNOPS[e['op']], cur, self.expr(e['r'], ctx))
                return self.alias_update(root, new, rest, ctx, final)
            cur = self.expr(e['l'], ctx)
            new = '(%s %s %s)' % (ASSIGNOPS[e['op']], cur, self.expr(e['r'], ctx))
            return '(let %s := %s in\n    %s)' % (vname(root), self.set_place(root, path, new), self.block(rest, ctx, final))
        if ek in ('if', 'match') and self.is_update(e):
            roots = self.assigned_roots([s], ctx)
            if len(roots) != 1:
                raise Untranslatable('branch updating %d variables' % len(roots))
            v = vname(roots[0])
            upd = self.update_expr(e, ctx, v)
            return '(let %s := %s in\n    %s)' % (v, upd, self.block(rest, ctx, final))
        if ek == 'tuple' and not e['elems']:
            return self.block(rest, ctx, final)
        if ek == 'method' or ek == 'call' or ek == 'macro':
            # e.g. f.write_fmt(...)?;  handled by specialised translators
            raise Untranslatable('effectful statement')
        raise Untranslatable('statement %s' % ek)

    def normalise_roots(self, roots, ctx):
        out = []
        for r in roots:
            if r in ctx.aliases:
                r = self.place_root(ctx.aliases[r][0])[0]
            if r not in out:
                out.append(r)
        return out

    def is_update(self, e):
        k = e['k']
        if k == 'assign' or (k == 'binary' and e['op'] in ASSIGNOPS):
            return True
        if k == 'if':
            return any(self.stmt_is_update(s) for s in e['then']['stmts']) or (e['else'] is not None and self.is_update(e['else']))
        if k == 'match':
            return any(self.is_update(a['body']) for a in e['arms'])
        if k == 'block':
            return any(self.stmt_is_update(s) for s in e['stmts'])
        return False

    def stmt_is_update(self, s):
        return s['k'] == 'expr' and self.is_update(s['expr'])

    def resolve_alias(self, lhs, ctx):
        """lhs of an assignment -> (root, path) or ((alias var, place, wrapper), [])"""
        e = lhs
        while e['k'] == 'unary' and e['op'] == '*':
            e = e['e']
        if e['k'] == 'path' and len(e['segs']) == 1 and e['segs'][0]['id'] in ctx.aliases:
            n = e['segs'][0]['id']
            place, wrap = ctx.aliases[n]
            return (n, place, wrap), []
        return self.place_root(lhs)

    def alias_update(self, alias, new, rest, ctx, final):
        n, place, wrap = alias
        root, path = self.place_root(place)
        newplace = '(%s %s)' % (wrap, new)
        return '(let %s := %s in\n    %s)' % (vname(root), self.set_place(root, path, newplace), self.block(rest, ctx, final))

    def update_expr(self, e, ctx, v):
        """expression whose value is the updated variable v"""
        k = e['k']
        if k == 'block':
            return self.block(e['stmts'], ctx, v)
        if k == 'tuple' and not e['elems']:
            return v
        if k == 'if':
            c = e['cond']
            el = self.update_expr(e['else'], ctx, v) if e['else'] is not None else v
            if c['k'] == 'let':
                saved = dict(ctx.aliases)
                self.bind_mut_aliases(c['e'], c['pat'], ctx)
                th = self.block(e['then']['stmts'], ctx, v)
                pat = self.pat(c['pat'], ctx)
                scrut = self.expr(c['e'], ctx)
                ctx.aliases = saved
                return '(match %s with %s => %s | _ => %s end)' % (scrut, pat, th, el)
            th = self.block(e['then']['stmts'], ctx, v)
            return '(if (%s : bool) then %s else %s)' % (self.expr(c, ctx), th, el)
        if k == 'match':
            arms = []
            scrut = self.expr(e['e'], ctx)
            for a in e['arms']:
                if a['guard'] is not None:
                    raise Untranslatable('match guard')
                saved = dict(ctx.aliases)
                self.bind_mut_aliases(e['e'], a['pat'], ctx)
                body = a['body']
                if body['k'] == 'block':
                    b = self.block(body['stmts'], ctx, v)
                else:
                    b = self.block([{'k': 'expr', 'expr': body, 'semi': True}], ctx, v)
                arms.append('| %s => %s' % (self.pat(a['pat'], ctx), b))
                ctx.aliases = saved
            return '(match %s with %s end)' % (scrut, ' '.join(arms))
        return self.block([{'k': 'expr', 'expr': e, 'semi': True}], ctx, v)

    def bind_mut_aliases(self, scrut, pat, ctx):
        """`match (&mut self.0, rhs.0) { (Some(s), ..) => *s += ..` : s aliases the payload of self.0"""
        if scrut['k'] == 'tuple' and pat['k'] == 'tuple':
            for se, pe in zip(scrut['elems'], pat['elems']):
                self.bind_mut_aliases(se, pe, ctx)
            return
        if scrut['k'] == 'ref' and scrut['mut']:
            place = scrut['e']
            if pat['k'] == 'tuplestruct' and path_ids(pat['path'])[-1] == 'Some' and pat['elems'][0]['k'] == 'ident':
                ctx.aliases[pat['elems'][0]['name']] = (place, 'Some')
            elif pat['k'] == 'ident' and pat['sub'] is not None:
                # ours @ None : `*ours = e` assigns the place itself
                ctx.aliases[pat['name']] = (place, '')

    # ---------------------------------------------------------------- functions
    def translate_fn(self, sec, fn, self_ty, defname, recv_kind):
        """-> (params text, body text, ctx)"""
        sig = fn['sig']
        ctx = Ctx(self, sec, self_ty, sig['name'])
        params = []
        if sig['receiver'] is not None:
            params.append('(self_ : %s)' % self_ty)
        for inp in sig['inputs']:
            p = inp['pat']
            t = self.ty(inp['ty'], ctx)
            if t == '_':
                raise Untranslatable('parameter type %s' % strip_ws(inp['ty']['text']))
            if p['k'] == 'ident':
                params.append('(%s : %s)' % (vname(p['name']), t))
            elif p['k'] == 'wild':
                params.append('(_ : %s)' % t)
            else:
                params.append("'(%s : %s)" % (self.pat(p, ctx), t))
        body = fn['body']
        if body is None:
            raise Untranslatable('no body')
        final = None
        out = sig['output']
        mut_self = sig['receiver'] is not None and sig['receiver']['ref'] and sig['receiver']['mut']
        if mut_self and out is None:
            final = 'self_'
        elif out is None:
            final = 'tt'
        text = self.block(body['stmts'], ctx, final)
        rty = self_ty if (mut_self and out is None) else self.ty(out, ctx)
        return ' '.join(params), text, rty, ctx

    # ---------------------------------------------------------------- model records
    def model_fields(self, st):
        return [f for f in st['fields'] if 'PhantomData' not in f['ty']['text']]


# the remaining parts (sections, ordering, output) live in emit_sections.py to keep this file readable
if __name__ == '__main__':
    from emit_sections import main
    main()
