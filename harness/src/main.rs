// Correspondence harness: runs operations of num-dual (path dependency on /repo) on inputs given as bit
// patterns and prints the results as bit patterns.  One case per input line:
//   <id> <family> <type> <op> <aux...> | <operand tokens> | <operand tokens> ...
// Output: <id> ok <tokens>   or   <id> panic
// Tokens: a float is 16 (f64) or 8 (f32) hex digits; an optional derivative is `N` or `S <rows> <cols> <entries
// in column-major order>`; booleans `T`/`F`; integers `i<n>`; options `none` / `some ...`.
#![allow(clippy::all)]
use nalgebra::allocator::Allocator;
use nalgebra::{Const, DefaultAllocator, Dim, Dyn, OMatrix, U1};
use num_dual::*;
use num_traits::{Float, FloatConst, Inv, One, Signed, Zero};
use std::io::{BufRead, Write};

mod oracle;

pub struct Toks<'a> {
    pub v: &'a [&'a str],
    pub i: usize,
}
impl<'a> Toks<'a> {
    pub fn next(&mut self) -> &'a str {
        let s = self.v[self.i];
        self.i += 1;
        s
    }
}

pub trait FBits: DualNumFloat + Probe<F = Self> + DualNum<Self> {
    fn rdf(s: &str) -> Self;
    fn wrf(self) -> String;
}
impl FBits for f64 {
    fn rdf(s: &str) -> Self {
        f64::from_bits(u64::from_str_radix(s, 16).unwrap())
    }
    fn wrf(self) -> String {
        format!("{:016x}", self.to_bits())
    }
}
impl FBits for f32 {
    fn rdf(s: &str) -> Self {
        f32::from_bits(u32::from_str_radix(s, 16).unwrap())
    }
    fn wrf(self) -> String {
        format!("{:08x}", self.to_bits())
    }
}

pub trait Probe: Clone {
    type F: FBits;
    fn rd(t: &mut Toks) -> Self;
    fn wr(&self, out: &mut Vec<String>);
}
impl Probe for f64 {
    type F = f64;
    fn rd(t: &mut Toks) -> Self {
        f64::rdf(t.next())
    }
    fn wr(&self, out: &mut Vec<String>) {
        out.push(self.wrf())
    }
}
impl Probe for f32 {
    type F = f32;
    fn rd(t: &mut Toks) -> Self {
        f32::rdf(t.next())
    }
    fn wr(&self, out: &mut Vec<String>) {
        out.push(self.wrf())
    }
}

macro_rules! probe_scalar {
    ($s:ident, [$($f:ident),*]) => {
        impl<T: DualNum<F> + Probe<F = F>, F: FBits> Probe for $s<T, F> {
            type F = F;
            fn rd(t: &mut Toks) -> Self {
                let re = T::rd(t);
                $(let $f = T::rd(t);)*
                $s::new(re, $($f),*)
            }
            fn wr(&self, out: &mut Vec<String>) {
                self.re.wr(out);
                $(self.$f.wr(out);)*
            }
        }
    };
}
probe_scalar!(Dual, [eps]);
probe_scalar!(Dual2, [v1, v2]);
probe_scalar!(Dual3, [v1, v2, v3]);
probe_scalar!(HyperDual, [eps1, eps2, eps1eps2]);
probe_scalar!(HyperHyperDual, [eps1, eps2, eps3, eps1eps2, eps1eps3, eps2eps3, eps1eps2eps3]);

pub fn rd_deriv<T: DualNum<F> + Probe<F = F>, F: FBits, R: Dim, C: Dim>(t: &mut Toks) -> Derivative<T, F, R, C>
where
    DefaultAllocator: Allocator<R, C>,
{
    match t.next() {
        "N" => Derivative::none(),
        "S" => {
            let r: usize = t.next().parse().unwrap();
            let c: usize = t.next().parse().unwrap();
            let vals: Vec<T> = (0..r * c).map(|_| T::rd(t)).collect();
            Derivative::some(OMatrix::from_iterator_generic(R::from_usize(r), C::from_usize(c), vals))
        }
        x => panic!("bad derivative token {x}"),
    }
}
pub fn wr_mat<T: DualNum<F> + Probe<F = F>, F: FBits, R: Dim, C: Dim>(m: &OMatrix<T, R, C>, out: &mut Vec<String>)
where
    DefaultAllocator: Allocator<R, C>,
{
    out.push("S".into());
    out.push(m.nrows().to_string());
    out.push(m.ncols().to_string());
    for x in m.iter() {
        x.wr(out);
    }
}
pub fn wr_deriv<T: DualNum<F> + Probe<F = F>, F: FBits, R: Dim, C: Dim>(d: &Derivative<T, F, R, C>, out: &mut Vec<String>)
where
    DefaultAllocator: Allocator<R, C>,
{
    // presence is observed through the Debug rendering (the field is crate-private): `Derivative(None, ..` / `Derivative(Some(..`
    let dbg = format!("{:?}", d);
    if dbg.starts_with("Derivative(None") {
        out.push("N".into());
    } else {
        let (r, c) = shape_of(&dbg, d);
        let m = d.clone().unwrap_generic(R::from_usize(r), C::from_usize(c));
        wr_mat(&m, out);
    }
}
// shape of a present derivative: static dims from the type, dynamic ones recovered from unwrap on a clone
fn shape_of<T: DualNum<F>, F: FBits, R: Dim, C: Dim>(_dbg: &str, d: &Derivative<T, F, R, C>) -> (usize, usize)
where
    DefaultAllocator: Allocator<R, C>,
{
    // unwrap_generic ignores the requested shape when the part is present
    let r0 = R::try_to_usize().unwrap_or(0);
    let c0 = C::try_to_usize().unwrap_or(0);
    let m = d.clone().unwrap_generic(R::from_usize(r0), C::from_usize(c0));
    (m.nrows(), m.ncols())
}

impl<T: DualNum<F> + Probe<F = F>, F: FBits, D: Dim> Probe for DualVec<T, F, D>
where
    DefaultAllocator: Allocator<D>,
{
    type F = F;
    fn rd(t: &mut Toks) -> Self {
        let re = T::rd(t);
        let eps = rd_deriv(t);
        DualVec::new(re, eps)
    }
    fn wr(&self, out: &mut Vec<String>) {
        self.re.wr(out);
        wr_deriv(&self.eps, out);
    }
}
impl<T: DualNum<F> + Probe<F = F>, F: FBits, D: Dim> Probe for Dual2Vec<T, F, D>
where
    DefaultAllocator: Allocator<D> + Allocator<U1, D> + Allocator<D, D>,
{
    type F = F;
    fn rd(t: &mut Toks) -> Self {
        let re = T::rd(t);
        let v1 = rd_deriv(t);
        let v2 = rd_deriv(t);
        Dual2Vec::new(re, v1, v2)
    }
    fn wr(&self, out: &mut Vec<String>) {
        self.re.wr(out);
        wr_deriv(&self.v1, out);
        wr_deriv(&self.v2, out);
    }
}
impl<T: DualNum<F> + Probe<F = F>, F: FBits, M: Dim, N: Dim> Probe for HyperDualVec<T, F, M, N>
where
    DefaultAllocator: Allocator<M> + Allocator<M, N> + Allocator<U1, N>,
{
    type F = F;
    fn rd(t: &mut Toks) -> Self {
        let re = T::rd(t);
        let e1 = rd_deriv(t);
        let e2 = rd_deriv(t);
        let e12 = rd_deriv(t);
        HyperDualVec::new(re, e1, e2, e12)
    }
    fn wr(&self, out: &mut Vec<String>) {
        self.re.wr(out);
        wr_deriv(&self.eps1, out);
        wr_deriv(&self.eps2, out);
        wr_deriv(&self.eps1eps2, out);
    }
}

pub fn hex_str(s: &str) -> String {
    s.as_bytes().iter().map(|b| format!("{:02x}", b)).collect()
}

fn wb(b: bool, out: &mut Vec<String>) {
    out.push(if b { "T".into() } else { "F".into() })
}

/// interpreter of the program syntax of coq/ND/Hand/Prog.v (prefix list of integers), generic in the number type
fn prog_eval<D, F>(code: &[i64], pos: &mut usize, env: &mut Vec<D>) -> D
where
    D: DualNum<F>,
    F: FBits,
{
    let tag = code[*pos];
    *pos += 1;
    let cf = |c: i64| <F as num_traits::NumCast>::from(c).unwrap();
    match tag {
        0 => {
            let i = code[*pos] as usize;
            *pos += 1;
            env[i].clone()
        }
        1 => {
            let c = code[*pos];
            *pos += 1;
            D::from(cf(c))
        }
        2 => {
            let u = code[*pos];
            *pos += 1;
            let a = prog_eval::<D, F>(code, pos, env);
            match u {
                0 => -a,
                1 => a.recip(),
                2 => a.sqrt(),
                3 => a.cbrt(),
                4 => a.exp(),
                5 => a.exp2(),
                6 => a.exp_m1(),
                7 => a.ln(),
                8 => a.log2(),
                9 => a.log10(),
                10 => a.ln_1p(),
                11 => a.sin(),
                12 => a.cos(),
                13 => a.tan(),
                14 => a.asin(),
                15 => a.acos(),
                16 => a.atan(),
                17 => a.sinh(),
                18 => a.cosh(),
                19 => a.tanh(),
                20 => a.asinh(),
                21 => a.acosh(),
                _ => a.atanh(),
            }
        }
        3 => {
            let b = code[*pos];
            *pos += 1;
            let a = prog_eval::<D, F>(code, pos, env);
            let c = prog_eval::<D, F>(code, pos, env);
            // 4..7: the same operator in its compound-assignment form
            match b {
                0 => a + c,
                1 => a - c,
                2 => a * c,
                3 => a / c,
                4 => {
                    let mut t = a;
                    t += c;
                    t
                }
                5 => {
                    let mut t = a;
                    t -= c;
                    t
                }
                6 => {
                    let mut t = a;
                    t *= c;
                    t
                }
                _ => {
                    let mut t = a;
                    t /= c;
                    t
                }
            }
        }
        4 => {
            let b = code[*pos];
            let c = cf(code[*pos + 1]);
            *pos += 2;
            let a = prog_eval::<D, F>(code, pos, env);
            match b {
                0 => a + c,
                1 => a - c,
                2 => a * c,
                3 => a / c,
                4 => {
                    let mut t = a;
                    t += c;
                    t
                }
                5 => {
                    let mut t = a;
                    t -= c;
                    t
                }
                6 => {
                    let mut t = a;
                    t *= c;
                    t
                }
                _ => {
                    let mut t = a;
                    t /= c;
                    t
                }
            }
        }
        5 => {
            let n = code[*pos] as i32;
            *pos += 1;
            let a = prog_eval::<D, F>(code, pos, env);
            a.powi(n)
        }
        6 => {
            let a = prog_eval::<D, F>(code, pos, env);
            env.push(a);
            let r = prog_eval::<D, F>(code, pos, env);
            env.pop();
            r
        }
        _ => panic!("bad program tag {tag}"),
    }
}

/// operations available on every DualNum type
fn run_dual<D, F>(op: &str, aux: &[&str], a: &[D]) -> Vec<String>
where
    D: DualNum<F> + Probe<F = F> + std::fmt::Display,
    <D as DualNum<F>>::Inner: From<F>,
    F: FBits,
{
    let mut out = vec![];
    let o = &mut out;
    let x = || a[0].clone();
    let y = || a[1].clone();
    let fa = |i: usize| F::rdf(aux[i]);
    let ia = |i: usize| aux[i].parse::<i32>().unwrap();
    macro_rules! un {
        ($($n:ident),*) => {
            match op {
                $(stringify!($n) => { a[0].$n().wr(o); return out; })*
                _ => {}
            }
        };
    }
    un!(recip, sqrt, cbrt, exp, exp2, exp_m1, ln, log2, log10, ln_1p, sin, cos, tan, asin, acos, atan, sinh, cosh, tanh,
        asinh, acosh, atanh, sph_j0, sph_j1, sph_j2);
    match op {
        "sin_cos" => {
            let (s, c) = a[0].sin_cos();
            s.wr(o);
            c.wr(o);
        }
        "powi" => a[0].powi(ia(0)).wr(o),
        "powf" => a[0].powf(fa(0)).wr(o),
        "log" => a[0].log(fa(0)).wr(o),
        "powd" => a[0].powd(y()).wr(o),
        "atan2" => a[0].atan2(y()).wr(o),
        "mul_add" => a[0].mul_add(y(), a[2].clone()).wr(o),
        "prog" => {
            let code: Vec<i64> = aux.iter().map(|t| t.parse::<i64>().unwrap()).collect();
            let mut env: Vec<D> = a.to_vec();
            let mut pos = 0;
            prog_eval::<D, F>(&code, &mut pos, &mut env).wr(o)
        }
        "re" => o.push(a[0].re().wrf()),
        "display" => o.push(format!("s{}", hex_str(&format!("{}", a[0])))),
        "nderiv" => o.push(format!("i{}", D::NDERIV)),
        "abs" => Signed::abs(&a[0]).wr(o),
        "signum" => Signed::signum(&a[0]).wr(o),
        "abs_sub" => Signed::abs_sub(&a[0], &a[1]).wr(o),
        "is_positive" => wb(Signed::is_positive(&a[0]), o),
        "is_negative" => wb(Signed::is_negative(&a[0]), o),
        "is_zero" => wb(Zero::is_zero(&a[0]), o),
        "is_one" => wb(One::is_one(&a[0]), o),
        "zero" => D::zero().wr(o),
        "one" => D::one().wr(o),
        "eq" => wb(a[0] == a[1], o),
        "inv" => Inv::inv(x()).wr(o),
        "add_vv" => (x() + y()).wr(o),
        "add_vr" => (x() + &a[1]).wr(o),
        "sub_vv" => (x() - y()).wr(o),
        "sub_vr" => (x() - &a[1]).wr(o),
        "mul_vv" => (x() * y()).wr(o),
        "mul_vr" => (x() * &a[1]).wr(o),
        "div_vv" => (x() / y()).wr(o),
        "div_vr" => (x() / &a[1]).wr(o),
        "neg_v" => (-x()).wr(o),
        "add_assign" => {
            let mut z = x();
            z += y();
            z.wr(o)
        }
        "sub_assign" => {
            let mut z = x();
            z -= y();
            z.wr(o)
        }
        "mul_assign" => {
            let mut z = x();
            z *= y();
            z.wr(o)
        }
        "div_assign" => {
            let mut z = x();
            z /= y();
            z.wr(o)
        }
        "add_F" => (x() + fa(0)).wr(o),
        "sub_F" => (x() - fa(0)).wr(o),
        "mul_F" => (x() * fa(0)).wr(o),
        "div_F" => (x() / fa(0)).wr(o),
        "add_assign_F" => {
            let mut z = x();
            z += fa(0);
            z.wr(o)
        }
        "sub_assign_F" => {
            let mut z = x();
            z -= fa(0);
            z.wr(o)
        }
        "mul_assign_F" => {
            let mut z = x();
            z *= fa(0);
            z.wr(o)
        }
        "div_assign_F" => {
            let mut z = x();
            z /= fa(0);
            z.wr(o)
        }
        "from_F" => D::from(fa(0)).wr(o),
        "from_inner_F" => D::from_inner(<<D as DualNum<F>>::Inner as From<F>>::from(fa(0))).wr(o),
        "sum" => a.iter().cloned().sum::<D>().wr(o),
        "product" => a.iter().cloned().product::<D>().wr(o),
        "from_prim" => {
            // every integer conversion of FromPrimitive: aux = [kind, decimal value]
            let v = aux[1];
            let r: Option<D> = match aux[0] {
                "i8" => D::from_i8(v.parse().unwrap()),
                "i16" => D::from_i16(v.parse().unwrap()),
                "i64" => D::from_i64(v.parse().unwrap()),
                "i128" => D::from_i128(v.parse().unwrap()),
                "isize" => D::from_isize(v.parse().unwrap()),
                "u8" => D::from_u8(v.parse().unwrap()),
                "u16" => D::from_u16(v.parse().unwrap()),
                "u32" => D::from_u32(v.parse().unwrap()),
                "u64" => D::from_u64(v.parse().unwrap()),
                "u128" => D::from_u128(v.parse().unwrap()),
                "usize" => D::from_usize(v.parse().unwrap()),
                k => panic!("from_prim: unknown kind {k}"),
            };
            match r {
                Some(v) => {
                    o.push("some".into());
                    v.wr(o)
                }
                None => o.push("none".into()),
            }
        }
        "from_i32" => match D::from_i32(ia(0)) {
            Some(v) => {
                o.push("some".into());
                v.wr(o)
            }
            None => o.push("none".into()),
        },
        _ => panic!("unknown op {op}"),
    }
    out
}

/// operator forms that exist for references (the crate's own structs, not plain floats)
macro_rules! ref_forms {
    ($D:ty, $op:expr, $a:expr, $o:expr) => {{
        let a: &[$D] = $a;
        match $op {
            "add_rr" => (&a[0] + &a[1]).wr($o),
            "add_rv" => (&a[0] + a[1].clone()).wr($o),
            "sub_rr" => (&a[0] - &a[1]).wr($o),
            "sub_rv" => (&a[0] - a[1].clone()).wr($o),
            "mul_rr" => (&a[0] * &a[1]).wr($o),
            "mul_rv" => (&a[0] * a[1].clone()).wr($o),
            "div_rr" => (&a[0] / &a[1]).wr($o),
            "div_rv" => (&a[0] / a[1].clone()).wr($o),
            "neg_r" => (-&a[0]).wr($o),
            "sum_r" => a.iter().sum::<$D>().wr($o),
            "product_r" => a.iter().product::<$D>().wr($o),
            _ => return None,
        }
        Some(())
    }};
}

fn run_refs<D, F>(op: &str, a: &[D]) -> Option<Vec<String>>
where
    D: DualNum<F> + Probe<F = F> + std::fmt::Display + 'static,
    F: FBits,
    for<'x> &'x D: std::ops::Add<&'x D, Output = D>
        + std::ops::Sub<&'x D, Output = D>
        + std::ops::Mul<&'x D, Output = D>
        + std::ops::Div<&'x D, Output = D>
        + std::ops::Add<D, Output = D>
        + std::ops::Sub<D, Output = D>
        + std::ops::Mul<D, Output = D>
        + std::ops::Div<D, Output = D>
        + std::ops::Neg<Output = D>,
    D: for<'x> std::iter::Sum<&'x D> + for<'x> std::iter::Product<&'x D>,
{
    let mut out = vec![];
    fn inner<D, F>(op: &str, a: &[D], out: &mut Vec<String>) -> Option<()>
    where
        D: DualNum<F> + Probe<F = F> + std::fmt::Display + 'static,
        F: FBits,
        for<'x> &'x D: std::ops::Add<&'x D, Output = D>
            + std::ops::Sub<&'x D, Output = D>
            + std::ops::Mul<&'x D, Output = D>
            + std::ops::Div<&'x D, Output = D>
            + std::ops::Add<D, Output = D>
            + std::ops::Sub<D, Output = D>
            + std::ops::Mul<D, Output = D>
            + std::ops::Div<D, Output = D>
            + std::ops::Neg<Output = D>,
        D: for<'x> std::iter::Sum<&'x D> + for<'x> std::iter::Product<&'x D>,
    {
        ref_forms!(D, op, a, out)
    }
    inner::<D, F>(op, a, &mut out).map(|_| out)
}

fn case_dual<D, F>(op: &str, aux: &[&str], operands: &[Vec<&str>]) -> Vec<String>
where
    D: DualNum<F> + Probe<F = F> + std::fmt::Display + 'static,
    <D as DualNum<F>>::Inner: From<F>,
    F: FBits,
    for<'x> &'x D: std::ops::Add<&'x D, Output = D>
        + std::ops::Sub<&'x D, Output = D>
        + std::ops::Mul<&'x D, Output = D>
        + std::ops::Div<&'x D, Output = D>
        + std::ops::Add<D, Output = D>
        + std::ops::Sub<D, Output = D>
        + std::ops::Mul<D, Output = D>
        + std::ops::Div<D, Output = D>
        + std::ops::Neg<Output = D>,
    D: for<'x> std::iter::Sum<&'x D> + for<'x> std::iter::Product<&'x D>,
{
    let a: Vec<D> = operands.iter().map(|t| D::rd(&mut Toks { v: t, i: 0 })).collect();
    if let Some(r) = run_refs::<D, F>(op, &a) {
        return r;
    }
    run_dual::<D, F>(op, aux, &a)
}

fn case_float<F: FBits>(op: &str, aux: &[&str], operands: &[Vec<&str>]) -> Vec<String>
where
    <F as DualNum<F>>::Inner: From<F>,
{
    let a: Vec<F> = operands.iter().map(|t| <F as Probe>::rd(&mut Toks { v: t, i: 0 })).collect();
    run_dual::<F, F>(op, aux, &a)
}

type DD = Dual<Dual64, f64>;
type DDD = Dual<DD, f64>;

fn dispatch(family: &str, ty: &str, op: &str, aux: &[&str], operands: &[Vec<&str>]) -> Vec<String> {
    macro_rules! d {
        ($($name:expr => $t:ty, $f:ty;)*) => {
            match ty {
                $($name => return case_dual::<$t, $f>(op, aux, operands),)*
                _ => {}
            }
        };
    }
    if family == "dual" {
        if ty == "f64" {
            return case_float::<f64>(op, aux, operands);
        }
        if ty == "f32" {
            return case_float::<f32>(op, aux, operands);
        }
        d! {
            "Dual64" => Dual64, f64;
            "Dual2_64" => Dual2_64, f64;
            "Dual3_64" => Dual3_64, f64;
            "HyperDual64" => HyperDual64, f64;
            "HyperHyperDual64" => HyperHyperDual64, f64;
            "DualSVec64_1" => DualSVec64<1>, f64;
            "DualSVec64_2" => DualSVec64<2>, f64;
            "DualSVec64_3" => DualSVec64<3>, f64;
            "DualSVec64_4" => DualSVec64<4>, f64;
            "DualSVec64_5" => DualSVec64<5>, f64;
            "DualSVec64_6" => DualSVec64<6>, f64;
            "DualDVec64" => DualDVec64, f64;
            "Dual2SVec64_1" => Dual2SVec64<1>, f64;
            "Dual2SVec64_2" => Dual2SVec64<2>, f64;
            "Dual2SVec64_3" => Dual2SVec64<3>, f64;
            "Dual2SVec64_4" => Dual2SVec64<4>, f64;
            "Dual2SVec64_5" => Dual2SVec64<5>, f64;
            "Dual2SVec64_6" => Dual2SVec64<6>, f64;
            "Dual2DVec64" => Dual2DVec64, f64;
            "HyperDualSVec64_1_1" => HyperDualSVec64<1, 1>, f64;
            "HyperDualSVec64_2_3" => HyperDualSVec64<2, 3>, f64;
            "HyperDualSVec64_3_2" => HyperDualSVec64<3, 2>, f64;
            "HyperDualSVec64_3_3" => HyperDualSVec64<3, 3>, f64;
            "HyperDualDVec64" => HyperDualDVec64, f64;
            "Dual_Dual64" => DD, f64;
            "Dual_Dual_Dual64" => DDD, f64;
            "Dual2_Dual64" => Dual2<Dual64, f64>, f64;
            "Dual_Dual2_64" => Dual<Dual2_64, f64>, f64;
            "Dual3_Dual64" => Dual3<Dual64, f64>, f64;
            "HyperDual_Dual64" => HyperDual<Dual64, f64>, f64;
            "Dual_HyperDual64" => Dual<HyperDual64, f64>, f64;
            "Dual2_Dual2_64" => Dual2<Dual2_64, f64>, f64;
            "DualSVec_Dual64_2" => DualVec<Dual64, f64, Const<2>>, f64;
            "Dual32" => Dual32, f32;
            "Dual2_32" => Dual2_32, f32;
            "Dual3_32" => Dual3_32, f32;
            "HyperDual32" => HyperDual32, f32;
            "DualSVec32_2" => DualSVec32<2>, f32;
            "Dual2SVec32_2" => Dual2SVec32<2>, f32;
        }
        panic!("unknown type {ty}");
    }
    panic!("unknown family {family}");
}

/// serde_json round trip: the restored value, then the keys of the JSON text in order of appearance
fn serde_rt<D>(operands: &[Vec<&str>]) -> Vec<String>
where
    D: Probe + serde::Serialize + serde::de::DeserializeOwned,
{
    let x = D::rd(&mut Toks { v: &operands[0], i: 0 });
    let js = serde_json::to_string(&x).unwrap();
    let y: D = serde_json::from_str(&js).unwrap();
    let mut out = vec![];
    y.wr(&mut out);
    let mut keys: Vec<String> = vec![];
    let b = js.as_bytes();
    let mut i = 0;
    while i < b.len() {
        if b[i] == b'"' {
            let j = i + 1 + js[i + 1..].find('"').unwrap();
            if j + 1 < b.len() && b[j + 1] == b':' {
                keys.push(js[i + 1..j].to_string());
            }
            i = j + 1;
        } else {
            i += 1;
        }
    }
    out.push(format!("k{}", hex_str(&keys.join(","))));
    // the same through serde_json::Value (a map, which hands the keys over in alphabetical instead of declaration order)
    let z: Result<D, _> = serde_json::to_value(&x).and_then(serde_json::from_value);
    let same = match z {
        Ok(z) => {
            let (mut a, mut b) = (vec![], vec![]);
            x.wr(&mut a);
            z.wr(&mut b);
            a == b
        }
        Err(_) => false,
    };
    out.push(if same { "v1".into() } else { "v0".into() });
    out
}

fn dispatch_serde(ty: &str, operands: &[Vec<&str>]) -> Vec<String> {
    macro_rules! d {
        ($($name:expr => $t:ty;)*) => {
            match ty {
                $($name => return serde_rt::<$t>(operands),)*
                _ => panic!("serde: unknown type {ty}"),
            }
        };
    }
    d! {
        "f64" => f64; "f32" => f32;
        "Dual64" => Dual64; "Dual2_64" => Dual2_64; "Dual3_64" => Dual3_64; "HyperDual64" => HyperDual64;
        "HyperHyperDual64" => HyperHyperDual64; "Dual32" => Dual32; "Dual2_32" => Dual2_32; "Dual3_32" => Dual3_32;
        "HyperDual32" => HyperDual32; "Dual_Dual64" => DD; "Dual_Dual_Dual64" => DDD; "Dual2_Dual64" => Dual2<Dual64, f64>;
        "Dual_Dual2_64" => Dual<Dual2_64, f64>; "Dual3_Dual64" => Dual3<Dual64, f64>; "HyperDual_Dual64" => HyperDual<Dual64, f64>;
        "Dual_HyperDual64" => Dual<HyperDual64, f64>; "Dual2_Dual2_64" => Dual2<Dual2_64, f64>;
    }
}

// ---------------------------------------------------------------------------------------------------------------
// driver functions on closures that also exist in the Coq model (coq/ND/Hand/DriverFns.v)
fn cji(j: usize, i: usize) -> f64 {
    (1 + (3 * j + 5 * i) % 7) as f64
}
/// f_j(x) = e_j + sum_i (x_i * x_i * x_{(i+1) mod n}) * c(j,i) + [x_0 / (x_1^2 + 3) if n >= 2] + x_{j mod n} * d_j; f_j = e_j (a constant) for odd j >= 3
fn poly<D: DualNum<f64>>(x: &[D], j: usize) -> D {
    let n = x.len();
    // the odd outputs from the fourth on are constants: they carry no derivative information at all (eps absent in the vector types)
    if j >= 3 && j % 2 == 1 {
        return D::from(0.5 * j as f64);
    }
    let mut acc = D::from(0.5 * j as f64);
    for i in 0..n {
        acc = acc + (x[i].clone() * &x[i] * &x[(i + 1) % n]) * cji(j, i);
    }
    if n >= 2 {
        // a quotient of two expressions with non-parallel gradients
        acc = acc + x[0].clone() / (x[1].clone() * &x[1] + 3.0);
    }
    if n > 0 {
        acc = acc + x[j % n].clone() * (2.0 + j as f64);
    }
    acc
}
/// h(x, y) = 0.25 + sum_i sum_k (x_i * y_k * y_k) * c(i,k) + x_0 / (y_0^2 + 3) + sum_i x_i * (2 + i)
fn poly2<D: DualNum<f64>>(x: &[D], y: &[D]) -> D {
    let mut acc = D::from(0.25);
    for i in 0..x.len() {
        for k in 0..y.len() {
            acc = acc + (x[i].clone() * &y[k] * &y[k]) * cji(i, k);
        }
    }
    if !x.is_empty() && !y.is_empty() {
        acc = acc + x[0].clone() / (y[0].clone() * &y[0] + 3.0);
    }
    for i in 0..x.len() {
        acc = acc + x[i].clone() * (2.0 + i as f64);
    }
    acc
}
fn wf(v: f64, out: &mut Vec<String>) {
    out.push(format!("{:016x}", v.to_bits()))
}
fn driver(name: &str, aux: &[&str], operands: &[Vec<&str>]) -> Vec<String> {
    use nalgebra::{DVector, SVector};
    let x: Vec<f64> = operands.get(0).map(|t| t.iter().map(|s| f64::rdf(s)).collect()).unwrap_or_default();
    let y: Vec<f64> = operands.get(1).map(|t| t.iter().map(|s| f64::rdf(s)).collect()).unwrap_or_default();
    let m: usize = aux.get(0).map(|s| s.parse().unwrap()).unwrap_or(1);
    let fail: i32 = aux.get(1).map(|s| s.parse().unwrap()).unwrap_or(0);
    let mut out = vec![];
    let o = &mut out;
    macro_rules! res { ($r:expr, $ok:expr) => { match $r { Ok(v) => { o.push("okv".into()); $ok(v, o) } Err(e) => { o.push("err".into()); o.push(format!("i{}", e)) } } }; }
    match name {
        "first_derivative" => { let (a, b) = first_derivative(|d| poly(&[d], 1), x[0]); wf(a, o); wf(b, o) }
        "second_derivative" => { let (a, b, c) = second_derivative(|d| poly(&[d], 1), x[0]); wf(a, o); wf(b, o); wf(c, o) }
        "third_derivative" => { let (a, b, c, d) = third_derivative(|d| poly(&[d], 1), x[0]); wf(a, o); wf(b, o); wf(c, o); wf(d, o) }
        "second_partial_derivative" => { let (a, b, c, d) = second_partial_derivative(|p, q| poly2(&[p], &[q]), x[0], y[0]); wf(a, o); wf(b, o); wf(c, o); wf(d, o) }
        "third_partial_derivative" => {
            let r = third_partial_derivative(|p, q, s| poly(&[p, q, s], 2), x[0], x[1], x[2]);
            for v in [r.0, r.1, r.2, r.3, r.4, r.5, r.6, r.7] { wf(v, o) }
        }
        "third_partial_derivative_vec" => {
            let (i, j, k): (usize, usize, usize) = (aux[2].parse().unwrap(), aux[3].parse().unwrap(), aux[4].parse().unwrap());
            let r = third_partial_derivative_vec(|v| poly(v, 1), &x, i, j, k);
            for v in [r.0, r.1, r.2, r.3, r.4, r.5, r.6, r.7] { wf(v, o) }
        }
        "try_third_partial_derivative_vec" => {
            let (i, j, k): (usize, usize, usize) = (aux[2].parse().unwrap(), aux[3].parse().unwrap(), aux[4].parse().unwrap());
            let r = try_third_partial_derivative_vec(|v| if fail != 0 { Err(fail) } else { Ok(poly(v, 1)) }, &x, i, j, k);
            res!(r, |r: (f64, f64, f64, f64, f64, f64, f64, f64), o: &mut Vec<String>| for v in [r.0, r.1, r.2, r.3, r.4, r.5, r.6, r.7] { wf(v, o) })
        }
        "gradient" => { let (f, g) = gradient(|v| poly(v.as_slice(), 1), DVector::from_vec(x.clone())); wf(f, o); for v in g.iter() { wf(*v, o) } }
        "gradient_s3" => { let (f, g) = gradient(|v| poly(v.as_slice(), 1), SVector::<f64, 3>::from_row_slice(&x)); wf(f, o); for v in g.iter() { wf(*v, o) } }
        "try_gradient" => {
            let r = try_gradient(|v| if fail != 0 { Err(fail) } else { Ok(poly(v.as_slice(), 1)) }, DVector::from_vec(x.clone()));
            res!(r, |(f, g): (f64, DVector<f64>), o: &mut Vec<String>| { wf(f, o); for v in g.iter() { wf(*v, o) } })
        }
        "jacobian" => {
            let (f, jac) = jacobian(|v| DVector::from_fn(m, |j, _| poly(v.as_slice(), j)), DVector::from_vec(x.clone()));
            for v in f.iter() { wf(*v, o) }
            for i in 0..jac.nrows() { for j in 0..jac.ncols() { wf(jac[(i, j)], o) } }
        }
        "jacobian_s2x3" => {
            let (f, jac) = jacobian(|v| SVector::<_, 2>::from_fn(|j, _| poly(v.as_slice(), j)), SVector::<f64, 3>::from_row_slice(&x));
            for v in f.iter() { wf(*v, o) }
            for i in 0..2 { for j in 0..3 { wf(jac[(i, j)], o) } }
        }
        "try_jacobian" => {
            let r = try_jacobian(|v| if fail != 0 { Err(fail) } else { Ok(DVector::from_fn(m, |j, _| poly(v.as_slice(), j))) }, DVector::from_vec(x.clone()));
            res!(r, |(f, jac): (DVector<f64>, nalgebra::DMatrix<f64>), o: &mut Vec<String>| {
                for v in f.iter() { wf(*v, o) }
                for i in 0..jac.nrows() { for j in 0..jac.ncols() { wf(jac[(i, j)], o) } }
            })
        }
        "hessian" => {
            let (f, g, h) = hessian(|v| poly(v.as_slice(), 1), DVector::from_vec(x.clone()));
            wf(f, o); for v in g.iter() { wf(*v, o) }
            for i in 0..h.nrows() { for j in 0..h.ncols() { wf(h[(i, j)], o) } }
        }
        "hessian_s2" => {
            let (f, g, h) = hessian(|v| poly(v.as_slice(), 1), SVector::<f64, 2>::from_row_slice(&x));
            wf(f, o); for v in g.iter() { wf(*v, o) }
            for i in 0..2 { for j in 0..2 { wf(h[(i, j)], o) } }
        }
        "try_hessian" => {
            let r = try_hessian(|v| if fail != 0 { Err(fail) } else { Ok(poly(v.as_slice(), 1)) }, DVector::from_vec(x.clone()));
            res!(r, |(f, g, h): (f64, DVector<f64>, nalgebra::DMatrix<f64>), o: &mut Vec<String>| {
                wf(f, o); for v in g.iter() { wf(*v, o) }
                for i in 0..h.nrows() { for j in 0..h.ncols() { wf(h[(i, j)], o) } }
            })
        }
        "partial_hessian" => {
            let (f, gx, gy, h) = partial_hessian(|p, q| poly2(p.as_slice(), q.as_slice()), DVector::from_vec(x.clone()), DVector::from_vec(y.clone()));
            wf(f, o); for v in gx.iter() { wf(*v, o) } for v in gy.iter() { wf(*v, o) }
            for i in 0..h.nrows() { for j in 0..h.ncols() { wf(h[(i, j)], o) } }
        }
        "try_partial_hessian" => {
            let r = try_partial_hessian(|p, q| if fail != 0 { Err(fail) } else { Ok(poly2(p.as_slice(), q.as_slice())) }, DVector::from_vec(x.clone()), DVector::from_vec(y.clone()));
            res!(r, |(f, gx, gy, h): (f64, DVector<f64>, DVector<f64>, nalgebra::DMatrix<f64>), o: &mut Vec<String>| {
                wf(f, o); for v in gx.iter() { wf(*v, o) } for v in gy.iter() { wf(*v, o) }
                for i in 0..h.nrows() { for j in 0..h.ncols() { wf(h[(i, j)], o) } }
            })
        }
        _ => panic!("unknown driver {name}"),
    }
    out
}

/// nalgebra ComplexField / RealField methods of the four field-compatible types
fn field_ops<D>(op: &str, aux: &[&str], operands: &[Vec<&str>]) -> Vec<String>
where
    D: nalgebra::RealField + Probe,
{
    use nalgebra::{ComplexField as CF, RealField as RF};
    let a: Vec<D> = operands.iter().map(|t| D::rd(&mut Toks { v: t, i: 0 })).collect();
    let mut out = vec![];
    let o = &mut out;
    macro_rules! consts { ($($n:ident),*) => { match op { $(concat!("rf_", stringify!($n)) => { <D as RF>::$n().wr(o); return out; })* _ => {} } }; }
    consts!(pi, two_pi, frac_pi_2, frac_pi_3, frac_pi_4, frac_pi_6, frac_pi_8, frac_1_pi, frac_2_pi, frac_2_sqrt_pi, e, log2_e, log10_e, ln_2, ln_10);
    macro_rules! un { ($($n:ident),*) => { match op { $(concat!("cf_", stringify!($n)) => { CF::$n(a[0].clone()).wr(o); return out; })* _ => {} } }; }
    un!(real, imaginary, modulus, modulus_squared, argument, norm1, abs, recip, conjugate, sin, cos, tan, asin, acos, atan, sinh, cosh, tanh, asinh, acosh,
        atanh, log2, log10, ln, ln_1p, sqrt, exp, exp2, exp_m1, cbrt);
    macro_rules! bin { ($($n:ident),*) => { match op { $(concat!("cf_", stringify!($n)) => { CF::$n(a[0].clone(), a[1].clone()).wr(o); return out; })* _ => {} } }; }
    bin!(scale, unscale, hypot, log, powf, powc);
    match op {
        "cf_from_real" => <D as CF>::from_real(a[0].clone()).wr(o),
        "cf_mul_add" => CF::mul_add(a[0].clone(), a[1].clone(), a[2].clone()).wr(o),
        "cf_sin_cos" => { let (s, c) = CF::sin_cos(a[0].clone()); s.wr(o); c.wr(o) }
        "cf_powi" => CF::powi(a[0].clone(), aux[0].parse::<i32>().unwrap()).wr(o),
        "rf_copysign" => RF::copysign(a[0].clone(), a[1].clone()).wr(o),
        "rf_atan2" => RF::atan2(a[0].clone(), a[1].clone()).wr(o),
        "rf_max" => RF::max(a[0].clone(), a[1].clone()).wr(o),
        "rf_min" => RF::min(a[0].clone(), a[1].clone()).wr(o),
        "rf_clamp" => RF::clamp(a[0].clone(), a[1].clone(), a[2].clone()).wr(o),
        "rf_is_sign_positive" => wb(RF::is_sign_positive(&a[0]), o),
        // PartialOrd (the field-compatible types): the four operators and the three-way comparison
        "po_lt" => wb(a[0] < a[1], o),
        "po_le" => wb(a[0] <= a[1], o),
        "po_gt" => wb(a[0] > a[1], o),
        "po_ge" => wb(a[0] >= a[1], o),
        "po_cmp_less" => wb(a[0].partial_cmp(&a[1]) == Some(std::cmp::Ordering::Less), o),
        "po_cmp_equal" => wb(a[0].partial_cmp(&a[1]) == Some(std::cmp::Ordering::Equal), o),
        "po_cmp_greater" => wb(a[0].partial_cmp(&a[1]) == Some(std::cmp::Ordering::Greater), o),
        "po_cmp_none" => wb(a[0].partial_cmp(&a[1]).is_none(), o),
        "rf_is_sign_negative" => wb(RF::is_sign_negative(&a[0]), o),
        // single-lane SIMD view
        "simd_splat_extract" => { use nalgebra::SimdValue; <D as SimdValue>::splat(a[0].clone()).extract(0).wr(o) }
        "simd_replace_extract" => { use nalgebra::SimdValue; let mut z = a[0].clone(); z.replace(0, a[1].clone()); z.extract(0).wr(o) }
        "simd_select_true" => { use nalgebra::SimdValue; a[0].clone().select(true, a[1].clone()).wr(o) }
        "simd_select_false" => { use nalgebra::SimdValue; a[0].clone().select(false, a[1].clone()).wr(o) }
        "simd_lanes" => { use nalgebra::SimdValue; o.push(format!("i{}", <D as SimdValue>::LANES)) }
        _ => panic!("unknown field op {op}"),
    }
    out
}

fn dispatch_field(ty: &str, op: &str, aux: &[&str], operands: &[Vec<&str>]) -> Vec<String> {
    match ty {
        "f64" => field_ops::<f64>(op, aux, operands),
        "f32" => field_ops::<f32>(op, aux, operands),
        "Dual64" => field_ops::<Dual64>(op, aux, operands),
        "Dual32" => field_ops::<Dual32>(op, aux, operands),
        "Dual2_64" => field_ops::<Dual2_64>(op, aux, operands),
        "DualSVec64_2" => field_ops::<DualSVec64<2>>(op, aux, operands),
        "DualDVec64" => field_ops::<DualDVec64>(op, aux, operands),
        "Dual2SVec64_2" => field_ops::<Dual2SVec64<2>>(op, aux, operands),
        "Dual2DVec64" => field_ops::<Dual2DVec64>(op, aux, operands),
        _ => panic!("field: unknown type {ty}"),
    }
}

/// cylindrical Bessel functions (BesselDual: only Copy types over f64)
fn bessel_ops<D>(op: &str, operands: &[Vec<&str>]) -> Vec<String>
where
    D: DualNum<f64> + Copy + Probe,
{
    let a: Vec<D> = operands.iter().map(|t| D::rd(&mut Toks { v: t, i: 0 })).collect();
    let mut out = vec![];
    match op {
        "bessel_j0" => a[0].bessel_j0().wr(&mut out),
        "bessel_j1" => a[0].bessel_j1().wr(&mut out),
        "bessel_j2" => a[0].bessel_j2().wr(&mut out),
        _ => panic!("bessel: unknown op {op}"),
    }
    out
}

fn dispatch_bessel(ty: &str, op: &str, operands: &[Vec<&str>]) -> Vec<String> {
    match ty {
        "f64" => bessel_ops::<f64>(op, operands),
        "Dual64" => bessel_ops::<Dual64>(op, operands),
        "Dual2_64" => bessel_ops::<Dual2_64>(op, operands),
        "Dual3_64" => bessel_ops::<Dual3_64>(op, operands),
        "HyperDual64" => bessel_ops::<HyperDual64>(op, operands),
        "HyperHyperDual64" => bessel_ops::<HyperHyperDual64>(op, operands),
        "DualSVec64_1" => bessel_ops::<DualSVec64<1>>(op, operands),
        "DualSVec64_2" => bessel_ops::<DualSVec64<2>>(op, operands),
        "DualSVec64_3" => bessel_ops::<DualSVec64<3>>(op, operands),
        "Dual2SVec64_1" => bessel_ops::<Dual2SVec64<1>>(op, operands),
        "Dual2SVec64_2" => bessel_ops::<Dual2SVec64<2>>(op, operands),
        "Dual2SVec64_3" => bessel_ops::<Dual2SVec64<3>>(op, operands),
        "HyperDualSVec64_1_1" => bessel_ops::<HyperDualSVec64<1, 1>>(op, operands),
        "HyperDualSVec64_2_3" => bessel_ops::<HyperDualSVec64<2, 3>>(op, operands),
        "HyperDualSVec64_3_2" => bessel_ops::<HyperDualSVec64<3, 2>>(op, operands),
        "Dual_Dual64" => bessel_ops::<DD>(op, operands),
        "Dual_Dual_Dual64" => bessel_ops::<DDD>(op, operands),
        "Dual2_Dual64" => bessel_ops::<Dual2<Dual64, f64>>(op, operands),
        "Dual_Dual2_64" => bessel_ops::<Dual<Dual2_64, f64>>(op, operands),
        "Dual3_Dual64" => bessel_ops::<Dual3<Dual64, f64>>(op, operands),
        "HyperDual_Dual64" => bessel_ops::<HyperDual<Dual64, f64>>(op, operands),
        "Dual_HyperDual64" => bessel_ops::<Dual<HyperDual64, f64>>(op, operands),
        "Dual2_Dual2_64" => bessel_ops::<Dual2<Dual2_64, f64>>(op, operands),
        _ => panic!("bessel: unknown type {ty}"),
    }
}

/// crate::linalg over ndarray (LU, norm, Jacobi) -- operands: n*n matrix entries in row-major order, then (for solve) n right-hand-side entries
fn linalg_ops<D>(op: &str, aux: &[&str], operands: &[Vec<&str>]) -> Vec<String>
where
    D: DualNum<f64> + Copy + Probe + std::iter::Product,
{
    use ndarray::{Array1, Array2};
    use num_dual::linalg::{jacobi_eigenvalue, norm, smallest_ev, LU};
    let n: usize = aux[0].parse().unwrap();
    let vals: Vec<D> = operands.iter().map(|t| D::rd(&mut Toks { v: t, i: 0 })).collect();
    let mut out = vec![];
    let o = &mut out;
    if op == "norm" {
        norm(&Array1::from_vec(vals)).wr(o);
        return out;
    }
    let a = Array2::from_shape_vec((n, n), vals[..n * n].to_vec()).unwrap();
    match op {
        "lu_solve" | "lu_det" | "lu_inverse" => match LU::<D, f64>::new(a) {
            Err(_) => o.push("err".into()),
            Ok(lu) => {
                o.push("okv".into());
                match op {
                    "lu_solve" => {
                        let b = Array1::from_vec(vals[n * n..].to_vec());
                        for x in lu.solve(&b).iter() {
                            x.wr(o)
                        }
                    }
                    "lu_det" => lu.determinant().wr(o),
                    _ => {
                        let ia = lu.inverse();
                        for i in 0..n {
                            for j in 0..n {
                                ia[(i, j)].wr(o)
                            }
                        }
                    }
                }
            }
        },
        "jacobi" => {
            let (d, v) = jacobi_eigenvalue(a, 200);
            for x in d.iter() {
                x.wr(o)
            }
            for i in 0..n {
                for j in 0..n {
                    v[(i, j)].wr(o)
                }
            }
        }
        "smallest_ev" => {
            let (e, v) = smallest_ev(a);
            e.wr(o);
            for x in v.iter() {
                x.wr(o)
            }
        }
        _ => panic!("linalg: unknown op {op}"),
    }
    out
}

/// nalgebra's generic decompositions over dual scalars (the four field-compatible types)
fn nalgebra_ops<D>(op: &str, aux: &[&str], operands: &[Vec<&str>]) -> Vec<String>
where
    D: nalgebra::RealField + Probe + Copy,
{
    use nalgebra::{DMatrix, DVector};
    let n: usize = aux[0].parse().unwrap();
    let vals: Vec<D> = operands.iter().map(|t| D::rd(&mut Toks { v: t, i: 0 })).collect();
    let a = DMatrix::from_row_slice(n, n, &vals[..n * n]);
    let mut out = vec![];
    let o = &mut out;
    match op {
        "na_inverse" => match a.try_inverse() {
            None => o.push("err".into()),
            Some(ia) => {
                o.push("okv".into());
                for i in 0..n {
                    for j in 0..n {
                        ia[(i, j)].wr(o)
                    }
                }
            }
        },
        "na_solve" => {
            let b = DVector::from_row_slice(&vals[n * n..]);
            match a.lu().solve(&b) {
                None => o.push("err".into()),
                Some(x) => {
                    o.push("okv".into());
                    for v in x.iter() {
                        v.wr(o)
                    }
                }
            }
        }
        "na_det" => a.determinant().wr(o),
        "na_norm" => DVector::from_row_slice(&vals).norm().wr(o),
        "na_eigen" => {
            let e = a.symmetric_eigen();
            for v in e.eigenvalues.iter() {
                v.wr(o)
            }
            for i in 0..n {
                for j in 0..n {
                    e.eigenvectors[(i, j)].wr(o)
                }
            }
        }
        _ => panic!("nalgebra: unknown op {op}"),
    }
    out
}

fn dispatch_linalg(ty: &str, op: &str, aux: &[&str], operands: &[Vec<&str>]) -> Vec<String> {
    if op.starts_with("na_") {
        return match ty {
            "f64" => nalgebra_ops::<f64>(op, aux, operands),
            "Dual64" => nalgebra_ops::<Dual64>(op, aux, operands),
            "Dual2_64" => nalgebra_ops::<Dual2_64>(op, aux, operands),
            "DualSVec64_2" => nalgebra_ops::<DualSVec64<2>>(op, aux, operands),
            "Dual2SVec64_2" => nalgebra_ops::<Dual2SVec64<2>>(op, aux, operands),
            _ => panic!("nalgebra: unknown type {ty}"),
        };
    }
    match ty {
        "f64" => linalg_ops::<f64>(op, aux, operands),
        "Dual64" => linalg_ops::<Dual64>(op, aux, operands),
        "Dual2_64" => linalg_ops::<Dual2_64>(op, aux, operands),
        "Dual3_64" => linalg_ops::<Dual3_64>(op, aux, operands),
        "HyperDual64" => linalg_ops::<HyperDual64>(op, aux, operands),
        "HyperHyperDual64" => linalg_ops::<HyperHyperDual64>(op, aux, operands),
        "DualSVec64_2" => linalg_ops::<DualSVec64<2>>(op, aux, operands),
        "DualSVec64_3" => linalg_ops::<DualSVec64<3>>(op, aux, operands),
        "Dual2SVec64_2" => linalg_ops::<Dual2SVec64<2>>(op, aux, operands),
        "HyperDualSVec64_2_3" => linalg_ops::<HyperDualSVec64<2, 3>>(op, aux, operands),
        "Dual_Dual64" => linalg_ops::<DD>(op, aux, operands),
        "Dual2_Dual64" => linalg_ops::<Dual2<Dual64, f64>>(op, aux, operands),
        _ => panic!("linalg: unknown type {ty}"),
    }
}

/// simba subset / superset conversions between dual numbers over different float widths
fn conv_pair<A, B>(op: &str, operands: &[Vec<&str>]) -> Vec<String>
where
    A: Probe + simba::scalar::SubsetOf<B>,
    B: Probe,
{
    let mut out = vec![];
    match op {
        // A is the subset type, B the superset type
        "to_superset" => {
            let a = A::rd(&mut Toks { v: &operands[0], i: 0 });
            a.to_superset().wr(&mut out)
        }
        "from_superset" => {
            let b = B::rd(&mut Toks { v: &operands[0], i: 0 });
            match A::from_superset(&b) {
                Some(a) => {
                    out.push("some".into());
                    a.wr(&mut out)
                }
                None => out.push("none".into()),
            }
        }
        "from_superset_unchecked" => {
            let b = B::rd(&mut Toks { v: &operands[0], i: 0 });
            A::from_superset_unchecked(&b).wr(&mut out)
        }
        "is_in_subset" => {
            let b = B::rd(&mut Toks { v: &operands[0], i: 0 });
            wb(A::is_in_subset(&b), &mut out)
        }
        "roundtrip" => {
            let a = A::rd(&mut Toks { v: &operands[0], i: 0 });
            let b: B = a.to_superset();
            match A::from_superset(&b) {
                Some(a2) => {
                    out.push("some".into());
                    a2.wr(&mut out)
                }
                None => out.push("none".into()),
            }
        }
        "convert" => {
            // through nalgebra::convert on a 2-vector of dual numbers
            let a = A::rd(&mut Toks { v: &operands[0], i: 0 });
            let b: B = nalgebra::convert(a);
            b.wr(&mut out)
        }
        _ => panic!("unknown conversion {op}"),
    }
    out
}

fn dispatch_conv(sub: &str, op: &str, sup: &str, operands: &[Vec<&str>]) -> Vec<String> {
    macro_rules! p {
        ($($a:expr, $b:expr => $ta:ty, $tb:ty;)*) => {
            match (sub, sup) {
                $(($a, $b) => return conv_pair::<$ta, $tb>(op, operands),)*
                _ => panic!("conv: unknown pair {sub} {sup}"),
            }
        };
    }
    p! {
        "Dual32", "Dual64" => Dual32, Dual64; "Dual64", "Dual32" => Dual64, Dual32; "Dual64", "Dual64" => Dual64, Dual64;
        "Dual2_32", "Dual2_64" => Dual2_32, Dual2_64; "Dual2_64", "Dual2_32" => Dual2_64, Dual2_32;
        "DualSVec32_2", "DualSVec64_2" => DualSVec32<2>, DualSVec64<2>; "DualSVec64_2", "DualSVec32_2" => DualSVec64<2>, DualSVec32<2>;
        "DualDVec32", "DualDVec64" => DualDVec32, DualDVec64; "DualDVec64", "DualDVec32" => DualDVec64, DualDVec32;
        "Dual2SVec32_2", "Dual2SVec64_2" => Dual2SVec32<2>, Dual2SVec64<2>; "Dual2SVec64_2", "Dual2SVec32_2" => Dual2SVec64<2>, Dual2SVec32<2>;
        "Dual2DVec32", "Dual2DVec64" => Dual2DVec32, Dual2DVec64; "Dual2DVec64", "Dual2DVec32" => Dual2DVec64, Dual2DVec32;
    }
}

/// plain floats as a subset of a dual type (SupersetOf<f32|f64> is implemented on the dual type)
fn conv_float<A, B>(op: &str, operands: &[Vec<&str>]) -> Vec<String>
where
    A: FBits,
    B: Probe + simba::scalar::SupersetOf<A>,
{
    let mut out = vec![];
    match op {
        "lift" => {
            let a = A::rdf(operands[0][0]);
            B::from_subset(&a).wr(&mut out)
        }
        "extract" => {
            let b = B::rd(&mut Toks { v: &operands[0], i: 0 });
            match b.to_subset() {
                Some(a) => {
                    out.push("some".into());
                    out.push(a.wrf())
                }
                None => out.push("none".into()),
            }
        }
        "extract_unchecked" => {
            let b = B::rd(&mut Toks { v: &operands[0], i: 0 });
            out.push(b.to_subset_unchecked().wrf())
        }
        "is_in_subset" => {
            let b = B::rd(&mut Toks { v: &operands[0], i: 0 });
            wb(b.is_in_subset(), &mut out)
        }
        _ => panic!("unknown float conversion {op}"),
    }
    out
}

fn dispatch_conv_float(sub: &str, op: &str, sup: &str, operands: &[Vec<&str>]) -> Vec<String> {
    macro_rules! p {
        ($($a:expr, $b:expr => $ta:ty, $tb:ty;)*) => {
            match (sub, sup) {
                $(($a, $b) => return conv_float::<$ta, $tb>(op, operands),)*
                _ => panic!("conv: unknown pair {sub} {sup}"),
            }
        };
    }
    p! {
        "f32", "Dual64" => f32, Dual64; "f64", "Dual64" => f64, Dual64; "f64", "Dual32" => f64, Dual32; "f32", "Dual2_64" => f32, Dual2_64;
        "f64", "DualSVec64_2" => f64, DualSVec64<2>; "f32", "DualDVec64" => f32, DualDVec64; "f64", "Dual2DVec32" => f64, Dual2DVec32;
        "f64", "Dual2SVec64_2" => f64, Dual2SVec64<2>; "f32", "Dual32" => f32, Dual32; "f64", "Dual2_64" => f64, Dual2_64;
    }
}

fn main() {
    std::panic::set_hook(Box::new(|_| {}));
    let args: Vec<String> = std::env::args().collect();
    if args.len() > 1 && args[1] == "oracle" {
        oracle::serve();
        return;
    }
    let stdin = std::io::stdin();
    let stdout = std::io::stdout();
    let mut w = std::io::BufWriter::new(stdout.lock());
    for line in stdin.lock().lines() {
        let line = line.unwrap();
        let line = line.trim();
        if line.is_empty() || line.starts_with('#') {
            continue;
        }
        let mut sections = line.split('|');
        let head: Vec<&str> = sections.next().unwrap().split_whitespace().collect();
        let id = head[0];
        let operands: Vec<Vec<&str>> = sections.map(|s| s.split_whitespace().collect()).collect();
        let res = std::panic::catch_unwind(|| {
            if head[1] == "serde" {
                dispatch_serde(head[2], &operands)
            } else if head[1] == "driver" {
                driver(head[2], &head[3..], &operands)
            } else if head[1] == "linalg" {
                dispatch_linalg(head[2], head[3], &head[4..], &operands)
            } else if head[1] == "bessel" {
                dispatch_bessel(head[2], head[3], &operands)
            } else if head[1] == "field" {
                dispatch_field(head[2], head[3], &head[4..], &operands)
            } else if head[1] == "conv" && (head[2] == "f32" || head[2] == "f64") {
                dispatch_conv_float(head[2], head[3], head[4], &operands)
            } else if head[1] == "conv" {
                dispatch_conv(head[2], head[3], head[4], &operands)
            } else {
                dispatch(head[1], head[2], head[3], &head[4..], &operands)
            }
        });
        match res {
            Ok(toks) => writeln!(w, "{} ok {}", id, toks.join(" ")).unwrap(),
            Err(_) => writeln!(w, "{} panic", id).unwrap(),
        }
    }
    let _ = (Dyn(0), f64::PI(), <f64 as Float>::epsilon());
}
