(* Base/Wire.v -- reading model values from, and flattening them to, lists of integers: the wire format shared with
   the Rust harness (correspondence check).  Hand-written; per-record instances are emitted by the translator. *)
From ND Require Export Overload Opt Mat.
Local Open Scope Z_scope.

(* output tokens *)
Definition okey := (Z * Z * Z * Z)%type.      (* oracle key: function id, argument bit patterns (0 when unused) *)
Inductive otok := OBits (b : Z) | OMiss (k : okey) | ONone | OSome (r c : Z) | OBool (b : bool) | OInt (z : Z) | OTag (z : Z).
Class Flat (A : Type) := flat : A -> list otok.
#[global] Hint Mode Flat ! : typeclass_instances.
#[global] Instance Flat_bool : Flat bool := fun b => [OBool b].
#[global] Instance Flat_pair {A B} `{Flat A} `{Flat B} : Flat (A * B) := fun p => flat (fst p) ++ flat (snd p).
#[global] Instance Flat_option {A} `{Flat A} : Flat (option A) := fun o => match o with None => [ONone] | Some a => OTag 1 :: flat a end.
#[global] Instance Flat_list {A} `{Flat A} : Flat (list A) := fun l => OInt (Z.of_nat (length l)) :: flat_map flat l.
#[global] Instance Flat_nat : Flat nat := fun n => [OInt (Z.of_nat n)].
#[global] Instance Flat_Z : Flat Z := fun n => [OInt n].
#[global] Instance Flat_unit : Flat unit := fun _ => [].
#[global] Instance Flat_ordering : Flat ordering := fun o => [OTag (match o with Less => -1 | Equal => 0 | Greater => 1 end)].
#[global] Instance Flat_result {A E} `{Flat A} `{Flat E} : Flat (result A E) :=
  fun r => match r with Ok a => OTag 0 :: flat a | Err e => OTag 1 :: flat e end.
(* matrices: shape, then entries in column-major (nalgebra iteration) order *)
#[global] Instance Flat_mat {A} `{Flat A} : Flat (mat A) :=
  fun m => OSome (Z.of_nat (mrows m)) (Z.of_nat (mcols m)) :: flat_map flat (mat_to_list m).

Definition enc_tok (t : otok) : list Z :=
  match t with
  | OBits b => [0; b] | OMiss (a, b, c, d) => [1; a; b; c; d] | ONone => [2] | OSome r c => [3; r; c]
  | OBool b => [4; if b then 1 else 0] | OInt z => [5; z] | OTag z => [6; z]
  end.
Definition enc (l : list otok) : list Z := flat_map enc_tok l.

(* input: consume a prefix of the integer list *)
Class Rd (A : Type) := rd : list Z -> A * list Z.
#[global] Hint Mode Rd ! : typeclass_instances.
Definition rdZ (l : list Z) : Z * list Z := match l with [] => (0, []) | x :: r => (x, r) end.
#[global] Instance Rd_Z : Rd Z := rdZ.
#[global] Instance Rd_nat : Rd nat := fun l => let '(z, r) := rdZ l in (Z.to_nat z, r).
Fixpoint rd_n {A} `{Rd A} (n : nat) (l : list Z) : list A * list Z :=
  match n with O => ([], l) | S n' => let '(a, l1) := rd l in let '(r, l2) := rd_n n' l1 in (a :: r, l2) end.
#[global] Instance Rd_list {A} `{Rd A} : Rd (list A) := fun l => let '(n, l1) := rdZ l in rd_n (Z.to_nat n) l1.
#[global] Instance Rd_pair {A B} `{Rd A} `{Rd B} : Rd (A * B) := fun l => let '(a, l1) := rd l in let '(b, l2) := rd l1 in ((a, b), l2).
(* optional matrix: 0 = absent; 1 r c e_1 .. e_{rc} (column-major) = present.  [d] is only the value outside the shape *)
Definition rd_mat {A} `{Rd A} (d : A) (l : list Z) : mat A * list Z :=
  let '(r, l1) := rdZ l in let '(c, l2) := rdZ l1 in
  let '(es, l3) := rd_n (Z.to_nat r * Z.to_nat c) l2 in
  (mkMat (Z.to_nat r) (Z.to_nat c) (fun i j => nth (j * Z.to_nat r + i) es d), l3).
Definition rd_optmat {A} `{Rd A} (d : A) (l : list Z) : option (mat A) * list Z :=
  let '(tag, l1) := rdZ l in
  if Z.eqb tag 0 then (None, l1) else let '(m, l2) := rd_mat d l1 in (Some m, l2).
#[global] Instance Rd_optmat {A} `{Rd A} : Rd (option (mat A)) := rd_optmat (fst (rd [])).
#[global] Instance Rd_mat {A} `{Rd A} : Rd (mat A) := rd_mat (fst (rd [])).
