"""C13 -- subset / superset conversions are lossless, coherent (and memory-safe: not a Gallina statement, see DESIGN.md)."""
import os, re, json, struct
import vlib, genvals
from vlib import Case, InfraError, f2b, b2f, f2b32, b2f32
from props.base import BaseProp, Violation

PAIRS = [('Dual32', 'Dual64'), ('Dual64', 'Dual32'), ('Dual64', 'Dual64'), ('Dual2_32', 'Dual2_64'), ('Dual2_64', 'Dual2_32'),
         ('DualSVec32_2', 'DualSVec64_2'), ('DualSVec64_2', 'DualSVec32_2'), ('DualDVec32', 'DualDVec64'), ('DualDVec64', 'DualDVec32'),
         ('Dual2SVec32_2', 'Dual2SVec64_2'), ('Dual2SVec64_2', 'Dual2SVec32_2'), ('Dual2DVec32', 'Dual2DVec64'), ('Dual2DVec64', 'Dual2DVec32')]
FLOATS = [('f32', 'Dual64'), ('f64', 'Dual64'), ('f64', 'Dual32'), ('f32', 'Dual2_64'), ('f64', 'DualSVec64_2'), ('f32', 'DualDVec64'),
          ('f64', 'Dual2DVec32'), ('f64', 'Dual2SVec64_2'), ('f32', 'Dual32'), ('f64', 'Dual2_64')]
OPS = ['to_superset', 'from_superset', 'from_superset_unchecked', 'is_in_subset', 'roundtrip']


def mkty(name, n):
    """type descriptor for the names used by the harness' conversion dispatcher"""
    T = vlib.types()
    if name in T:
        return T[name]
    w = 32 if '32' in name.split('Vec')[-1] or name.endswith('32') else 64
    leaf = vlib.F32 if w == 32 else vlib.F64
    struct_ = 'Dual2Vec' if name.startswith('Dual2') else 'DualVec'
    return vlib.Ty(name, struct_, leaf, (n,), width=w)


def carrier(b, w):
    """bit pattern of width w -> binary64 bit pattern of the same real number (the model's carrier)"""
    return b if w == 64 else f2b(b2f32(b))


def leaf_conv(rng, w):
    k = rng.below(9)
    if k == 0:
        x = rng.choice([0.0, -0.0, 1.0, -1.5, 0.1, 1e-45, 3.4e38, 1e39, -1e39, 1e-50, 5e-324, 16777217.0, float('inf')])
    elif k == 1:
        x = float(rng.below(4096) - 2048) / 64
    else:
        x = genvals.leaf_rand(rng)
    return f2b(x) if w == 64 else f2b32(x)


def to_dv(v, ty):
    """value -> (re, parts) with carrier bit patterns; parts: None | list"""
    w = ty.leaf().width
    re = carrier(v[0], w)
    parts = []
    for fld, x in zip(ty.fields()[1:], v[1:]):
        if fld['kind'] == 'T':
            parts.append([carrier(x, w)])
        elif x is None:
            parts.append(None)
        else:
            parts.append([carrier(e, w) for e in x[2]])
    return re, parts


def coq_dv(dv):
    re, parts = dv
    return '(mkdv Z %d [%s])' % (re, '; '.join('None' if p is None else 'Some [%s]' % '; '.join(str(e) for e in p) for p in parts))


class Prop(BaseProp):
    coq_targets = ['ND/Hand/Subset.vo']
    n_quick, n_thorough = 520, 8000

    def step_correspondence(self):
        rng = self.rng.fork('cases')
        n = self.n_quick if self.tier == 'quick' else self.n_thorough
        exe = vlib.build_harness('dev')
        self.exe = exe
        lines, cases = [], []
        for k in range(n):
            if k % 5 == 4:
                fl, sup = FLOATS[(k // 5) % len(FLOATS)]
                op = ['lift', 'extract', 'extract_unchecked', 'is_in_subset'][(k // (5 * len(FLOATS))) % 4]
                nd = rng.below(4)
                tsup = mkty(sup, nd)
                wf = 32 if fl == 'f32' else 64
                if op == 'lift':
                    b = leaf_conv(rng, wf)
                    cases.append({'id': 'c%d' % k, 'kind': 'float', 'sub': fl, 'op': op, 'sup': sup, 'n': nd, 'arg': b})
                    lines.append('c%d conv %s %s %s | %s' % (k, fl, op, sup, ('%016x' if wf == 64 else '%08x') % b))
                else:
                    v = genvals.gen_value(rng, tsup, lambda r: 0.0)
                    v = self.fill(rng, v, tsup)
                    cases.append({'id': 'c%d' % k, 'kind': 'float', 'sub': fl, 'op': op, 'sup': sup, 'n': nd, 'arg': v})
                    lines.append('c%d conv %s %s %s | %s' % (k, fl, op, sup, ' '.join(vlib.val_to_tokens(v, tsup))))
                continue
            sub, sup = PAIRS[k % len(PAIRS)]
            op = OPS[(k // len(PAIRS)) % len(OPS)]
            nd = rng.below(5)
            tsub, tsup = mkty(sub, nd), mkty(sup, nd)
            src_ty = tsub if op in ('to_superset', 'roundtrip') else tsup
            v = genvals.gen_value(rng, src_ty, lambda r: 0.0)
            v = self.fill(rng, v, src_ty)
            cases.append({'id': 'c%d' % k, 'kind': 'pair', 'sub': sub, 'op': op, 'sup': sup, 'n': nd, 'arg': v})
            lines.append('c%d conv %s %s %s | %s' % (k, sub, op, sup, ' '.join(vlib.val_to_tokens(v, src_ty))))
        raw = vlib.run_harness(exe, lines)
        # narrowing oracle: every binary64 carrier value that may be cast to f32
        need = set()
        for c in cases:
            if c['kind'] == 'pair':
                src = mkty(c['sub'] if c['op'] in ('to_superset', 'roundtrip') else c['sup'], c['n'])
                re, parts = to_dv(c['arg'], src)
                for b in [re] + [e for p in parts if p for e in p]:
                    need.add(b)
            elif c['op'] == 'lift':
                need.add(carrier(c['arg'], 32 if c['sub'] == 'f32' else 64))
            else:
                re, parts = to_dv(c['arg'], mkty(c['sup'], c['n']))
                need.add(re)
        tbl = vlib.run_oracle(exe, set((64, 50, b, 0, 0) for b in need))
        narrow32 = {b: tbl[(64, 50, b, 0, 0)] for b in need}
        model = self.run_model(cases, narrow32)
        agree = 0
        for c in cases:
            st, toks = raw[c['id']]
            impl = self.decode_impl(c, st, toks)
            if impl != model[c['id']]:
                self.broken.append(Violation('correspondence-broken', 'hand model of the conversions and implementation differ: %s %s -> %s' % (c['sub'], c['op'], c['sup']),
                                             case=self.describe(c), expected={'model': model[c['id']]}, obtained={'implementation': impl},
                                             name='correspondence:Subset:%s' % c['op']))
            else:
                agree += 1
            v = self.oracle_conv(c, impl, narrow32)
            if v:
                self.violations.append(v)
        self.cases_run = cases
        self.cov.update({'evaluations': len(cases), 'distinct_nontrivial': agree,
                         'correspondence': {'cases': len(cases), 'agree': agree, 'disagree': len(cases) - agree, 'model_errors': 0},
                         'samples': [self.describe(c) for c in cases[:5]]})
        vlib.log('%s: %d conversions, %d agree with the hand model, %d property violations' % (self.pid, len(cases), agree, len(self.violations)))
        if self.tier == 'thorough':
            self.miri()

    def fill(self, rng, v, ty):
        w = ty.leaf().width
        out = [leaf_conv(rng, w)]
        for fld, x in zip(ty.fields()[1:], v[1:]):
            if fld['kind'] == 'T':
                out.append(leaf_conv(rng, w))
            else:
                r, c = ty.shape(fld)
                if rng.below(3) == 0:
                    out.append(None)
                else:
                    out.append((r, c, [leaf_conv(rng, w) for _ in range(r * c)]))
        return out

    def describe(self, c):
        d = dict(c)
        if isinstance(c['arg'], list):
            src = mkty(c['sub'] if c['op'] in ('to_superset', 'roundtrip') else c['sup'], c['n'])
            d['arg'] = vlib.val_to_tokens(c['arg'], src)
        return d

    def decode_impl(self, c, st, toks):
        """-> canonical python object in the carrier: ('none',) | ('some', re, parts) | ('val', re, parts) | bool | ('leaf', bits)"""
        if st != 'ok':
            return 'panic'
        op = c['op']
        if op == 'is_in_subset':
            return toks[0] == 'T'
        if c['kind'] == 'float':
            wf = 32 if c['sub'] == 'f32' else 64
            if op == 'lift':
                ty = mkty(c['sup'], c['n'])
                v, _ = vlib.val_from_tokens(toks, ty)
                return ('val',) + self.canon_dv(to_dv(v, ty), ty)
            if op == 'extract':
                if toks[0] == 'none':
                    return ('none',)
                return ('some', vlib.canon_bits(carrier(int(toks[1], 16), wf)))
            return ('leaf', vlib.canon_bits(carrier(int(toks[0], 16), wf)))
        res_ty = mkty(c['sup'] if op == 'to_superset' else c['sub'], c['n'])
        if op in ('from_superset', 'roundtrip'):
            if toks[0] == 'none':
                return ('none',)
            v, _ = vlib.val_from_tokens(toks[1:], res_ty)
            return ('some',) + self.canon_dv(to_dv(v, res_ty), res_ty)
        v, _ = vlib.val_from_tokens(toks, res_ty)
        return ('val',) + self.canon_dv(to_dv(v, res_ty), res_ty)

    def canon_dv(self, dv, ty):
        re, parts = dv
        return (vlib.canon_bits(re), tuple(None if p is None else tuple(vlib.canon_bits(e) for e in p) for p in parts))

    def run_model(self, cases, narrow32):
        cdir = vlib.CACHE + '/cases/C13'
        os.makedirs(cdir, exist_ok=True)
        tblz = '; '.join('(%d, %d)' % kv for kv in narrow32.items())
        src = ['From Coq Require Import ZArith List Bool.', 'From ND Require Import Subset.', 'Import ListNotations.', 'Local Open Scope Z_scope.',
               'Definition tbl : list (Z * Z) := [%s].' % tblz,
               'Fixpoint look (t : list (Z * Z)) (k : Z) : Z := match t with [] => -1 | (a, b) :: r => if Z.eqb a k then b else look r k end.',
               'Definition n32 (b : Z) : Z := look tbl b.   (* (x as f32) as f64, from the same Rust build *)',
               'Definition idz (b : Z) : Z := b.',
               'Definition tt_ (b : Z) : bool := true.',
               'Definition encp (p : option (list Z)) : list Z := match p with None => [0] | Some l => 1 :: Z.of_nat (length l) :: l end.',
               'Definition encdv (x : dv Z) : list Z := dv_re Z x :: Z.of_nat (length (dv_parts Z x)) :: flat_map encp (dv_parts Z x).',
               'Definition encopt (o : option (dv Z)) : list Z := match o with None => [0] | Some x => 1 :: encdv x end.']
        items = []
        for c in cases:
            op = c['op']
            if c['kind'] == 'pair':
                wsub = mkty(c['sub'], c['n']).leaf().width
                wsup = mkty(c['sup'], c['n']).leaf().width
                narrow = 'n32' if (wsub == 32 and wsup == 64) else 'idz'       # the cast superset -> subset
                # to_superset casts subset -> superset: f32 -> f64 exact, f64 -> f32 rounds
                widen = 'n32' if (wsub == 64 and wsup == 32) else 'idz'
                src_ty = mkty(c['sub'] if op in ('to_superset', 'roundtrip') else c['sup'], c['n'])
                dv = coq_dv(to_dv(c['arg'], src_ty))
                if op == 'to_superset':
                    items.append('2 :: encdv (to_superset %s %s)' % (widen, dv))
                elif op == 'from_superset':
                    items.append('encopt (from_superset %s tt_ %s)' % (narrow, dv))
                elif op == 'from_superset_unchecked':
                    items.append('2 :: encdv (from_superset_unchecked %s %s)' % (narrow, dv))
                elif op == 'is_in_subset':
                    items.append('[3; if is_in_subset tt_ %s then 1 else 0]' % dv)
                else:
                    items.append('encopt (from_superset %s tt_ (to_superset %s %s))' % (narrow, widen, dv))
            else:
                wf = 32 if c['sub'] == 'f32' else 64
                tsup = mkty(c['sup'], c['n'])
                wsup = tsup.leaf().width
                widen = 'n32' if (wf == 64 and wsup == 32) else 'idz'
                narrow = 'n32' if (wf == 32 and wsup == 64) else 'idz'
                if op == 'lift':
                    nparts = len(tsup.fields()) - 1
                    scalar = 'true' if tsup.struct in ('Dual', 'Dual2') else 'false'
                    items.append('2 :: encdv (lift %s %d%%nat 0 %s %d)' % (widen, nparts, scalar, carrier(c['arg'], wf)))
                else:
                    dv = coq_dv(to_dv(c['arg'], tsup))
                    if op == 'extract':
                        items.append('[if float_in_subset tt_ %s then 1 else 0; extract_unchecked %s %s]' % (dv, narrow, dv))
                    elif op == 'extract_unchecked':
                        items.append('[4; extract_unchecked %s %s]' % (narrow, dv))
                    else:
                        items.append('[3; if float_in_subset tt_ %s then 1 else 0]' % dv)
        for i in range(0, len(items), 50):
            src.append('Eval vm_compute in [' + ';\n '.join(items[i:i + 50]) + '].')
        open(cdir + '/conv.v', 'w').write('\n'.join(src) + '\n')
        rc, o, e = vlib.sh(['coqc', '-noglob'] + vlib.COQFLAGS + [cdir + '/conv.v'], 900, cwd=cdir)
        if rc != 0:
            raise InfraError('hand model evaluation failed: ' + (e or o)[-800:])
        lists = [x for blk in vlib.parse_coq_lists(o) for x in blk]
        if len(lists) != len(cases):
            raise InfraError('hand model: %d results for %d cases' % (len(lists), len(cases)))
        out = {}
        for c, zs in zip(cases, lists):
            out[c['id']] = self.decode_model(c, zs)
        return out

    def decode_model(self, c, zs):
        def dv(z):
            re, npar = z[0], z[1]
            i = 2
            parts = []
            for _ in range(npar):
                if z[i] == 0:
                    parts.append(None); i += 1
                else:
                    ln = z[i + 1]
                    parts.append(tuple(vlib.canon_bits(e) for e in z[i + 2:i + 2 + ln])); i += 2 + ln
            return (vlib.canon_bits(re), tuple(parts))
        op = c['op']
        if op == 'is_in_subset':
            return zs[1] == 1
        if c['kind'] == 'float' and op == 'extract':
            return ('some', vlib.canon_bits(zs[1])) if zs[0] == 1 else ('none',)
        if c['kind'] == 'float' and op == 'extract_unchecked':
            return ('leaf', vlib.canon_bits(zs[1]))
        if zs[0] == 0:
            return ('none',)
        if zs[0] == 1:
            return ('some',) + dv(zs[1:])
        return ('val',) + dv(zs[1:])

    def oracle_conv(self, c, impl, narrow32):
        """the property's own statement on the implementation, independent of the model"""
        if impl == 'panic':
            return Violation('counterexample', 'conversion %s %s -> %s panics' % (c['sub'], c['op'], c['sup']), case=self.describe(c), obtained='panic')
        op = c['op']
        if op == 'roundtrip' and c['kind'] == 'pair':
            wsub = mkty(c['sub'], c['n']).leaf().width
            wsup = mkty(c['sup'], c['n']).leaf().width
            if wsub <= wsup:      # widening then narrowing back must be the identity, bit for bit, presence included
                want = ('some',) + self.canon_dv(to_dv(c['arg'], mkty(c['sub'], c['n'])), None)
                if impl != want:
                    return Violation('counterexample', 'widening %s to %s and narrowing back is not the identity' % (c['sub'], c['sup']), case=self.describe(c), expected=want, obtained=impl)
        if op in ('from_superset', 'from_superset_unchecked') and c['kind'] == 'pair' and impl != ('none',):
            # narrowing returns the per-part rounded value, presence kept (checked and unchecked route alike)
            tsup = mkty(c['sup'], c['n'])
            wsub, wsup = mkty(c['sub'], c['n']).leaf().width, tsup.leaf().width
            re, parts = to_dv(c['arg'], tsup)
            f = (lambda b: narrow32[b]) if (wsup == 64 and wsub == 32) else (lambda b: b)
            want = (('some',) if op == 'from_superset' else ('val',)) + self.canon_dv((f(re), [None if q is None else [f(e) for e in q] for q in parts]), None)
            if impl != want:
                return Violation('counterexample', '%s %s -> %s does not return the per-part rounded value' % (op, c['sup'], c['sub']), case=self.describe(c), expected=want, obtained=impl)
        if op == 'from_superset' and impl == ('none',):
            return Violation('counterexample', 'checked narrowing %s -> %s fails although every part is a float (is_in_subset is true)' % (c['sup'], c['sub']),
                             case=self.describe(c), expected='some', obtained='none')
        if op == 'is_in_subset' and impl is not True:
            return Violation('counterexample', 'is_in_subset is false for a value of floats', case=self.describe(c), obtained=impl)
        return None

    def miri(self):
        """supporting evidence for the memory-safety clause (not a proof): the conversion cases under Miri"""
        lines = ['m%d conv %s %s %s | %s' % (i, sub, op, sup, arg) for i, (sub, op, sup, arg) in enumerate([
            ('DualSVec32_2', 'from_superset', 'DualSVec64_2', '3ff8000000000000 N'),
            ('DualSVec32_2', 'from_superset', 'DualSVec64_2', '3ff8000000000000 S 2 1 3ff0000000000000 4000000000000000'),
            ('DualDVec32', 'roundtrip', 'DualDVec64', '3fc00000 S 3 1 3f800000 40000000 40400000'),
            ('DualDVec32', 'roundtrip', 'DualDVec64', '3fc00000 S 0 1'),
            ('Dual2DVec64', 'to_superset', 'Dual2DVec32', '3ff8000000000000 S 1 2 3ff0000000000000 4000000000000000 S 2 2 3ff0000000000000 4000000000000000 4008000000000000 4010000000000000'),
            ('Dual2SVec32_2', 'from_superset_unchecked', 'Dual2SVec64_2', '3ff8000000000000 N S 2 2 3ff0000000000000 4000000000000000 4008000000000000 4010000000000000')])]
        try:
            rc, o, e = vlib.sh(['cargo', '+nightly', 'miri', 'run', '--offline', '--manifest-path', vlib.ROOT + '/harness/Cargo.toml', '--target-dir', vlib.CACHE + '/miri-target'],
                               2400, inp='\n'.join(lines) + '\n', env=dict(vlib.ENV, MIRIFLAGS='-Zmiri-disable-isolation'))
        except InfraError as ex:
            self.cov['miri'] = 'not completed: %s' % ex
            return
        okc = sum(1 for l in o.split('\n') if ' ok ' in l)
        self.cov['miri'] = {'exit': rc, 'cases_ok': okc, 'cases': len(lines), 'undefined_behaviour_reported': 'Undefined Behavior' in e}
        if 'Undefined Behavior' in e:
            self.violations.append(Violation('counterexample', 'Miri reports undefined behaviour in a conversion: ' + e[e.index('Undefined Behavior'):][:300],
                                             case={'miri_lines': lines}))

    def step_search(self):
        pass

    def rule_text(self):
        return ('to_superset / from_superset / from_superset_unchecked / is_in_subset / widen-then-narrow on the four convertible types x {f32,f64}^2, static dimension 2 and dynamic '
                'dimensions 0..4, parts present or absent; float lift / extract for both widths; leaf values incl. f32 overflow and underflow ranges, ties (16777217), subnormals, inf; '
                'compared with the hand model evaluated in Coq (narrowing cast from an oracle table of the same build) and against the property directly')
