(* Props/C01.v -- property C01: elementary functions carry exact derivatives on every dual number type.
   Written by tools/coqgen/gen_c01.py; only statements, `exact` proofs and axiom reports. *)
From ND Require Import Tactics C01_towers C01_faa.
Local Open Scope R_scope.

Theorem C01_tower_recip : forall x, x <> 0 -> is_tower g_recip (tw3 m_recip) x.
Proof. exact tower_recip. Qed.
Theorem C01_tower_sqrt : forall x, 0 < x -> is_tower sqrt (tw3 m_sqrt) x.
Proof. exact tower_sqrt. Qed.
Theorem C01_tower_cbrt : forall x, x <> 0 -> is_tower Rcbrt (tw3 m_cbrt) x.
Proof. exact tower_cbrt. Qed.
Theorem C01_tower_exp : forall x, is_tower exp (tw3 m_exp) x.
Proof. exact tower_exp. Qed.
Theorem C01_tower_exp2 : forall x, is_tower g_exp2 (tw3 m_exp2) x.
Proof. exact tower_exp2. Qed.
Theorem C01_tower_exp_m1 : forall x, is_tower g_exp_m1 (tw3 m_exp_m1) x.
Proof. exact tower_exp_m1. Qed.
Theorem C01_tower_ln : forall x, 0 < x -> is_tower ln (tw3 m_ln) x.
Proof. exact tower_ln. Qed.
Theorem C01_tower_log : forall b x, 0 < x -> ln b <> 0 -> is_tower (g_log b) (tw3 (fun d => m_log d b)) x.
Proof. exact tower_log. Qed.
Theorem C01_tower_log2 : forall x, 0 < x -> is_tower (g_log 2) (tw3 m_log2) x.
Proof. exact tower_log2. Qed.
Theorem C01_tower_log10 : forall x, 0 < x -> is_tower (g_log 10) (tw3 m_log10) x.
Proof. exact tower_log10. Qed.
Theorem C01_tower_ln_1p : forall x, -1 < x -> is_tower g_ln_1p (tw3 m_ln_1p) x.
Proof. exact tower_ln_1p. Qed.
Theorem C01_tower_sin : forall x, is_tower sin (tw3 m_sin) x.
Proof. exact tower_sin. Qed.
Theorem C01_tower_cos : forall x, is_tower cos (tw3 m_cos) x.
Proof. exact tower_cos. Qed.
Theorem C01_tower_tan : forall x, cos x <> 0 -> is_tower tan (tw3 m_tan) x.
Proof. exact tower_tan. Qed.
Theorem C01_tower_asin : forall x, -1 < x < 1 -> is_tower asin (tw3 m_asin) x.
Proof. exact tower_asin. Qed.
Theorem C01_tower_acos : forall x, -1 < x < 1 -> is_tower acos (tw3 m_acos) x.
Proof. exact tower_acos. Qed.
Theorem C01_tower_atan : forall x, is_tower atan (tw3 m_atan) x.
Proof. exact tower_atan. Qed.
Theorem C01_tower_sinh : forall x, is_tower sinh (tw3 m_sinh) x.
Proof. exact tower_sinh. Qed.
Theorem C01_tower_cosh : forall x, is_tower cosh (tw3 m_cosh) x.
Proof. exact tower_cosh. Qed.
Theorem C01_tower_tanh : forall x, is_tower tanh (tw3 m_tanh) x.
Proof. exact tower_tanh. Qed.
Theorem C01_tower_asinh : forall x, is_tower arcsinh (tw3 m_asinh) x.
Proof. exact tower_asinh. Qed.
Theorem C01_tower_atanh : forall x, -1 < x < 1 -> is_tower Ratanh (tw3 m_atanh) x.
Proof. exact tower_atanh. Qed.
Theorem C01_tower_acosh : forall x, 1 < x -> is_tower Racosh (tw3 m_acosh) x.
Proof. exact tower_acosh. Qed.
Theorem C01_chain_Dual : forall (x : Dual R) f0 f1, forall S, In S idx_Dual ->
  part_Dual (Dual_chain_rule x f0 f1) S = faa (coef [f0; f1]) (part_Dual x) S.
Proof. exact chain_Dual. Qed.
Theorem C01_chain_Dual2 : forall (x : Dual2 R) f0 f1 f2, forall S, In S idx_Dual2 ->
  part_Dual2 (Dual2_chain_rule x f0 f1 f2) S = faa (coef [f0; f1; f2]) (part_Dual2 x) S.
Proof. exact chain_Dual2. Qed.
Theorem C01_chain_Dual3 : forall (x : Dual3 R) f0 f1 f2 f3, forall S, In S idx_Dual3 ->
  part_Dual3 (Dual3_chain_rule x f0 f1 f2 f3) S = faa (coef [f0; f1; f2; f3]) (part_Dual3 x) S.
Proof. exact chain_Dual3. Qed.
Theorem C01_chain_HyperDual : forall (x : HyperDual R) f0 f1 f2, forall S, In S idx_HyperDual ->
  part_HyperDual (HyperDual_chain_rule x f0 f1 f2) S = faa (coef [f0; f1; f2]) (part_HyperDual x) S.
Proof. exact chain_HyperDual. Qed.
Theorem C01_chain_HyperHyperDual : forall (x : HyperHyperDual R) f0 f1 f2 f3, forall S, In S idx_HHD ->
  part_HHD (HyperHyperDual_chain_rule x f0 f1 f2 f3) S = faa (coef [f0; f1; f2; f3]) (part_HHD x) S.
Proof. exact chain_HyperHyperDual. Qed.
Theorem C01_chain_DualVec : forall i, forall (x : DualVec R) f0 f1, forall S, In S (idx_DualVec i) ->
  part_DualVec (DualVec_chain_rule x f0 f1) S = faa (coef [f0; f1]) (part_DualVec x) S.
Proof. exact chain_DualVec. Qed.
Theorem C01_chain_Dual2Vec : forall i j, forall (x : Dual2Vec R) f0 f1 f2, wf_Dual2Vec x -> forall S, In S (idx_Dual2Vec i j) ->
  part_Dual2Vec (Dual2Vec_chain_rule x f0 f1 f2) S = faa (coef [f0; f1; f2]) (part_Dual2Vec x) S.
Proof. exact chain_Dual2Vec. Qed.
Theorem C01_chain_HyperDualVec : forall i j, forall (x : HyperDualVec R) f0 f1 f2, wf_HyperDualVec x -> forall S, In S (idx_HyperDualVec i j) ->
  part_HyperDualVec (HyperDualVec_chain_rule x f0 f1 f2) S = faa (coef [f0; f1; f2]) (part_HyperDualVec x) S.
Proof. exact chain_HyperDualVec. Qed.
Theorem C01_faa_Dual_recip : forall x : Dual R, (Dual_f_re x) <> 0 -> forall S, In S idx_Dual ->
  part_Dual (m_recip x) S = faa (tw3 m_recip (Dual_f_re x)) (part_Dual x) S.
Proof. exact faa_Dual_recip. Qed.
Theorem C01_faa_Dual2_recip : forall x : Dual2 R, (Dual2_f_re x) <> 0 -> forall S, In S idx_Dual2 ->
  part_Dual2 (m_recip x) S = faa (tw3 m_recip (Dual2_f_re x)) (part_Dual2 x) S.
Proof. exact faa_Dual2_recip. Qed.
Theorem C01_faa_Dual3_recip : forall x : Dual3 R, (Dual3_f_re x) <> 0 -> forall S, In S idx_Dual3 ->
  part_Dual3 (m_recip x) S = faa (tw3 m_recip (Dual3_f_re x)) (part_Dual3 x) S.
Proof. exact faa_Dual3_recip. Qed.
Theorem C01_faa_HyperDual_recip : forall x : HyperDual R, (HyperDual_f_re x) <> 0 -> forall S, In S idx_HyperDual ->
  part_HyperDual (m_recip x) S = faa (tw3 m_recip (HyperDual_f_re x)) (part_HyperDual x) S.
Proof. exact faa_HyperDual_recip. Qed.
Theorem C01_faa_HyperHyperDual_recip : forall x : HyperHyperDual R, (HyperHyperDual_f_re x) <> 0 -> forall S, In S idx_HHD ->
  part_HHD (m_recip x) S = faa (tw3 m_recip (HyperHyperDual_f_re x)) (part_HHD x) S.
Proof. exact faa_HyperHyperDual_recip. Qed.
Theorem C01_faa_DualVec_recip : forall i, forall x : DualVec R, (DualVec_f_re x) <> 0 -> forall S, In S (idx_DualVec i) ->
  part_DualVec (m_recip x) S = faa (tw3 m_recip (DualVec_f_re x)) (part_DualVec x) S.
Proof. exact faa_DualVec_recip. Qed.
Theorem C01_faa_Dual2Vec_recip : forall i j, forall x : Dual2Vec R, (Dual2Vec_f_re x) <> 0 -> wf_Dual2Vec x -> forall S, In S (idx_Dual2Vec i j) ->
  part_Dual2Vec (m_recip x) S = faa (tw3 m_recip (Dual2Vec_f_re x)) (part_Dual2Vec x) S.
Proof. exact faa_Dual2Vec_recip. Qed.
Theorem C01_faa_HyperDualVec_recip : forall i j, forall x : HyperDualVec R, (HyperDualVec_f_re x) <> 0 -> wf_HyperDualVec x -> forall S, In S (idx_HyperDualVec i j) ->
  part_HyperDualVec (m_recip x) S = faa (tw3 m_recip (HyperDualVec_f_re x)) (part_HyperDualVec x) S.
Proof. exact faa_HyperDualVec_recip. Qed.
Theorem C01_faa_Dual_sqrt : forall x : Dual R, 0 < (Dual_f_re x) -> forall S, In S idx_Dual ->
  part_Dual (m_sqrt x) S = faa (tw3 m_sqrt (Dual_f_re x)) (part_Dual x) S.
Proof. exact faa_Dual_sqrt. Qed.
Theorem C01_faa_Dual2_sqrt : forall x : Dual2 R, 0 < (Dual2_f_re x) -> forall S, In S idx_Dual2 ->
  part_Dual2 (m_sqrt x) S = faa (tw3 m_sqrt (Dual2_f_re x)) (part_Dual2 x) S.
Proof. exact faa_Dual2_sqrt. Qed.
Theorem C01_faa_Dual3_sqrt : forall x : Dual3 R, 0 < (Dual3_f_re x) -> forall S, In S idx_Dual3 ->
  part_Dual3 (m_sqrt x) S = faa (tw3 m_sqrt (Dual3_f_re x)) (part_Dual3 x) S.
Proof. exact faa_Dual3_sqrt. Qed.
Theorem C01_faa_HyperDual_sqrt : forall x : HyperDual R, 0 < (HyperDual_f_re x) -> forall S, In S idx_HyperDual ->
  part_HyperDual (m_sqrt x) S = faa (tw3 m_sqrt (HyperDual_f_re x)) (part_HyperDual x) S.
Proof. exact faa_HyperDual_sqrt. Qed.
Theorem C01_faa_HyperHyperDual_sqrt : forall x : HyperHyperDual R, 0 < (HyperHyperDual_f_re x) -> forall S, In S idx_HHD ->
  part_HHD (m_sqrt x) S = faa (tw3 m_sqrt (HyperHyperDual_f_re x)) (part_HHD x) S.
Proof. exact faa_HyperHyperDual_sqrt. Qed.
Theorem C01_faa_DualVec_sqrt : forall i, forall x : DualVec R, 0 < (DualVec_f_re x) -> forall S, In S (idx_DualVec i) ->
  part_DualVec (m_sqrt x) S = faa (tw3 m_sqrt (DualVec_f_re x)) (part_DualVec x) S.
Proof. exact faa_DualVec_sqrt. Qed.
Theorem C01_faa_Dual2Vec_sqrt : forall i j, forall x : Dual2Vec R, 0 < (Dual2Vec_f_re x) -> wf_Dual2Vec x -> forall S, In S (idx_Dual2Vec i j) ->
  part_Dual2Vec (m_sqrt x) S = faa (tw3 m_sqrt (Dual2Vec_f_re x)) (part_Dual2Vec x) S.
Proof. exact faa_Dual2Vec_sqrt. Qed.
Theorem C01_faa_HyperDualVec_sqrt : forall i j, forall x : HyperDualVec R, 0 < (HyperDualVec_f_re x) -> wf_HyperDualVec x -> forall S, In S (idx_HyperDualVec i j) ->
  part_HyperDualVec (m_sqrt x) S = faa (tw3 m_sqrt (HyperDualVec_f_re x)) (part_HyperDualVec x) S.
Proof. exact faa_HyperDualVec_sqrt. Qed.
Theorem C01_faa_Dual_cbrt : forall x : Dual R, (Dual_f_re x) <> 0 -> forall S, In S idx_Dual ->
  part_Dual (m_cbrt x) S = faa (tw3 m_cbrt (Dual_f_re x)) (part_Dual x) S.
Proof. exact faa_Dual_cbrt. Qed.
Theorem C01_faa_Dual2_cbrt : forall x : Dual2 R, (Dual2_f_re x) <> 0 -> forall S, In S idx_Dual2 ->
  part_Dual2 (m_cbrt x) S = faa (tw3 m_cbrt (Dual2_f_re x)) (part_Dual2 x) S.
Proof. exact faa_Dual2_cbrt. Qed.
Theorem C01_faa_Dual3_cbrt : forall x : Dual3 R, (Dual3_f_re x) <> 0 -> forall S, In S idx_Dual3 ->
  part_Dual3 (m_cbrt x) S = faa (tw3 m_cbrt (Dual3_f_re x)) (part_Dual3 x) S.
Proof. exact faa_Dual3_cbrt. Qed.
Theorem C01_faa_HyperDual_cbrt : forall x : HyperDual R, (HyperDual_f_re x) <> 0 -> forall S, In S idx_HyperDual ->
  part_HyperDual (m_cbrt x) S = faa (tw3 m_cbrt (HyperDual_f_re x)) (part_HyperDual x) S.
Proof. exact faa_HyperDual_cbrt. Qed.
Theorem C01_faa_HyperHyperDual_cbrt : forall x : HyperHyperDual R, (HyperHyperDual_f_re x) <> 0 -> forall S, In S idx_HHD ->
  part_HHD (m_cbrt x) S = faa (tw3 m_cbrt (HyperHyperDual_f_re x)) (part_HHD x) S.
Proof. exact faa_HyperHyperDual_cbrt. Qed.
Theorem C01_faa_DualVec_cbrt : forall i, forall x : DualVec R, (DualVec_f_re x) <> 0 -> forall S, In S (idx_DualVec i) ->
  part_DualVec (m_cbrt x) S = faa (tw3 m_cbrt (DualVec_f_re x)) (part_DualVec x) S.
Proof. exact faa_DualVec_cbrt. Qed.
Theorem C01_faa_Dual2Vec_cbrt : forall i j, forall x : Dual2Vec R, (Dual2Vec_f_re x) <> 0 -> wf_Dual2Vec x -> forall S, In S (idx_Dual2Vec i j) ->
  part_Dual2Vec (m_cbrt x) S = faa (tw3 m_cbrt (Dual2Vec_f_re x)) (part_Dual2Vec x) S.
Proof. exact faa_Dual2Vec_cbrt. Qed.
Theorem C01_faa_HyperDualVec_cbrt : forall i j, forall x : HyperDualVec R, (HyperDualVec_f_re x) <> 0 -> wf_HyperDualVec x -> forall S, In S (idx_HyperDualVec i j) ->
  part_HyperDualVec (m_cbrt x) S = faa (tw3 m_cbrt (HyperDualVec_f_re x)) (part_HyperDualVec x) S.
Proof. exact faa_HyperDualVec_cbrt. Qed.
Theorem C01_faa_Dual_exp : forall x : Dual R, forall S, In S idx_Dual ->
  part_Dual (m_exp x) S = faa (tw3 m_exp (Dual_f_re x)) (part_Dual x) S.
Proof. exact faa_Dual_exp. Qed.
Theorem C01_faa_Dual2_exp : forall x : Dual2 R, forall S, In S idx_Dual2 ->
  part_Dual2 (m_exp x) S = faa (tw3 m_exp (Dual2_f_re x)) (part_Dual2 x) S.
Proof. exact faa_Dual2_exp. Qed.
Theorem C01_faa_Dual3_exp : forall x : Dual3 R, forall S, In S idx_Dual3 ->
  part_Dual3 (m_exp x) S = faa (tw3 m_exp (Dual3_f_re x)) (part_Dual3 x) S.
Proof. exact faa_Dual3_exp. Qed.
Theorem C01_faa_HyperDual_exp : forall x : HyperDual R, forall S, In S idx_HyperDual ->
  part_HyperDual (m_exp x) S = faa (tw3 m_exp (HyperDual_f_re x)) (part_HyperDual x) S.
Proof. exact faa_HyperDual_exp. Qed.
Theorem C01_faa_HyperHyperDual_exp : forall x : HyperHyperDual R, forall S, In S idx_HHD ->
  part_HHD (m_exp x) S = faa (tw3 m_exp (HyperHyperDual_f_re x)) (part_HHD x) S.
Proof. exact faa_HyperHyperDual_exp. Qed.
Theorem C01_faa_DualVec_exp : forall i, forall x : DualVec R, forall S, In S (idx_DualVec i) ->
  part_DualVec (m_exp x) S = faa (tw3 m_exp (DualVec_f_re x)) (part_DualVec x) S.
Proof. exact faa_DualVec_exp. Qed.
Theorem C01_faa_Dual2Vec_exp : forall i j, forall x : Dual2Vec R, wf_Dual2Vec x -> forall S, In S (idx_Dual2Vec i j) ->
  part_Dual2Vec (m_exp x) S = faa (tw3 m_exp (Dual2Vec_f_re x)) (part_Dual2Vec x) S.
Proof. exact faa_Dual2Vec_exp. Qed.
Theorem C01_faa_HyperDualVec_exp : forall i j, forall x : HyperDualVec R, wf_HyperDualVec x -> forall S, In S (idx_HyperDualVec i j) ->
  part_HyperDualVec (m_exp x) S = faa (tw3 m_exp (HyperDualVec_f_re x)) (part_HyperDualVec x) S.
Proof. exact faa_HyperDualVec_exp. Qed.
Theorem C01_faa_Dual_exp2 : forall x : Dual R, forall S, In S idx_Dual ->
  part_Dual (m_exp2 x) S = faa (tw3 m_exp2 (Dual_f_re x)) (part_Dual x) S.
Proof. exact faa_Dual_exp2. Qed.
Theorem C01_faa_Dual2_exp2 : forall x : Dual2 R, forall S, In S idx_Dual2 ->
  part_Dual2 (m_exp2 x) S = faa (tw3 m_exp2 (Dual2_f_re x)) (part_Dual2 x) S.
Proof. exact faa_Dual2_exp2. Qed.
Theorem C01_faa_Dual3_exp2 : forall x : Dual3 R, forall S, In S idx_Dual3 ->
  part_Dual3 (m_exp2 x) S = faa (tw3 m_exp2 (Dual3_f_re x)) (part_Dual3 x) S.
Proof. exact faa_Dual3_exp2. Qed.
Theorem C01_faa_HyperDual_exp2 : forall x : HyperDual R, forall S, In S idx_HyperDual ->
  part_HyperDual (m_exp2 x) S = faa (tw3 m_exp2 (HyperDual_f_re x)) (part_HyperDual x) S.
Proof. exact faa_HyperDual_exp2. Qed.
Theorem C01_faa_HyperHyperDual_exp2 : forall x : HyperHyperDual R, forall S, In S idx_HHD ->
  part_HHD (m_exp2 x) S = faa (tw3 m_exp2 (HyperHyperDual_f_re x)) (part_HHD x) S.
Proof. exact faa_HyperHyperDual_exp2. Qed.
Theorem C01_faa_DualVec_exp2 : forall i, forall x : DualVec R, forall S, In S (idx_DualVec i) ->
  part_DualVec (m_exp2 x) S = faa (tw3 m_exp2 (DualVec_f_re x)) (part_DualVec x) S.
Proof. exact faa_DualVec_exp2. Qed.
Theorem C01_faa_Dual2Vec_exp2 : forall i j, forall x : Dual2Vec R, wf_Dual2Vec x -> forall S, In S (idx_Dual2Vec i j) ->
  part_Dual2Vec (m_exp2 x) S = faa (tw3 m_exp2 (Dual2Vec_f_re x)) (part_Dual2Vec x) S.
Proof. exact faa_Dual2Vec_exp2. Qed.
Theorem C01_faa_HyperDualVec_exp2 : forall i j, forall x : HyperDualVec R, wf_HyperDualVec x -> forall S, In S (idx_HyperDualVec i j) ->
  part_HyperDualVec (m_exp2 x) S = faa (tw3 m_exp2 (HyperDualVec_f_re x)) (part_HyperDualVec x) S.
Proof. exact faa_HyperDualVec_exp2. Qed.
Theorem C01_faa_Dual_exp_m1 : forall x : Dual R, forall S, In S idx_Dual ->
  part_Dual (m_exp_m1 x) S = faa (tw3 m_exp_m1 (Dual_f_re x)) (part_Dual x) S.
Proof. exact faa_Dual_exp_m1. Qed.
Theorem C01_faa_Dual2_exp_m1 : forall x : Dual2 R, forall S, In S idx_Dual2 ->
  part_Dual2 (m_exp_m1 x) S = faa (tw3 m_exp_m1 (Dual2_f_re x)) (part_Dual2 x) S.
Proof. exact faa_Dual2_exp_m1. Qed.
Theorem C01_faa_Dual3_exp_m1 : forall x : Dual3 R, forall S, In S idx_Dual3 ->
  part_Dual3 (m_exp_m1 x) S = faa (tw3 m_exp_m1 (Dual3_f_re x)) (part_Dual3 x) S.
Proof. exact faa_Dual3_exp_m1. Qed.
Theorem C01_faa_HyperDual_exp_m1 : forall x : HyperDual R, forall S, In S idx_HyperDual ->
  part_HyperDual (m_exp_m1 x) S = faa (tw3 m_exp_m1 (HyperDual_f_re x)) (part_HyperDual x) S.
Proof. exact faa_HyperDual_exp_m1. Qed.
Theorem C01_faa_HyperHyperDual_exp_m1 : forall x : HyperHyperDual R, forall S, In S idx_HHD ->
  part_HHD (m_exp_m1 x) S = faa (tw3 m_exp_m1 (HyperHyperDual_f_re x)) (part_HHD x) S.
Proof. exact faa_HyperHyperDual_exp_m1. Qed.
Theorem C01_faa_DualVec_exp_m1 : forall i, forall x : DualVec R, forall S, In S (idx_DualVec i) ->
  part_DualVec (m_exp_m1 x) S = faa (tw3 m_exp_m1 (DualVec_f_re x)) (part_DualVec x) S.
Proof. exact faa_DualVec_exp_m1. Qed.
Theorem C01_faa_Dual2Vec_exp_m1 : forall i j, forall x : Dual2Vec R, wf_Dual2Vec x -> forall S, In S (idx_Dual2Vec i j) ->
  part_Dual2Vec (m_exp_m1 x) S = faa (tw3 m_exp_m1 (Dual2Vec_f_re x)) (part_Dual2Vec x) S.
Proof. exact faa_Dual2Vec_exp_m1. Qed.
Theorem C01_faa_HyperDualVec_exp_m1 : forall i j, forall x : HyperDualVec R, wf_HyperDualVec x -> forall S, In S (idx_HyperDualVec i j) ->
  part_HyperDualVec (m_exp_m1 x) S = faa (tw3 m_exp_m1 (HyperDualVec_f_re x)) (part_HyperDualVec x) S.
Proof. exact faa_HyperDualVec_exp_m1. Qed.
Theorem C01_faa_Dual_ln : forall x : Dual R, 0 < (Dual_f_re x) -> forall S, In S idx_Dual ->
  part_Dual (m_ln x) S = faa (tw3 m_ln (Dual_f_re x)) (part_Dual x) S.
Proof. exact faa_Dual_ln. Qed.
Theorem C01_faa_Dual2_ln : forall x : Dual2 R, 0 < (Dual2_f_re x) -> forall S, In S idx_Dual2 ->
  part_Dual2 (m_ln x) S = faa (tw3 m_ln (Dual2_f_re x)) (part_Dual2 x) S.
Proof. exact faa_Dual2_ln. Qed.
Theorem C01_faa_Dual3_ln : forall x : Dual3 R, 0 < (Dual3_f_re x) -> forall S, In S idx_Dual3 ->
  part_Dual3 (m_ln x) S = faa (tw3 m_ln (Dual3_f_re x)) (part_Dual3 x) S.
Proof. exact faa_Dual3_ln. Qed.
Theorem C01_faa_HyperDual_ln : forall x : HyperDual R, 0 < (HyperDual_f_re x) -> forall S, In S idx_HyperDual ->
  part_HyperDual (m_ln x) S = faa (tw3 m_ln (HyperDual_f_re x)) (part_HyperDual x) S.
Proof. exact faa_HyperDual_ln. Qed.
Theorem C01_faa_HyperHyperDual_ln : forall x : HyperHyperDual R, 0 < (HyperHyperDual_f_re x) -> forall S, In S idx_HHD ->
  part_HHD (m_ln x) S = faa (tw3 m_ln (HyperHyperDual_f_re x)) (part_HHD x) S.
Proof. exact faa_HyperHyperDual_ln. Qed.
Theorem C01_faa_DualVec_ln : forall i, forall x : DualVec R, 0 < (DualVec_f_re x) -> forall S, In S (idx_DualVec i) ->
  part_DualVec (m_ln x) S = faa (tw3 m_ln (DualVec_f_re x)) (part_DualVec x) S.
Proof. exact faa_DualVec_ln. Qed.
Theorem C01_faa_Dual2Vec_ln : forall i j, forall x : Dual2Vec R, 0 < (Dual2Vec_f_re x) -> wf_Dual2Vec x -> forall S, In S (idx_Dual2Vec i j) ->
  part_Dual2Vec (m_ln x) S = faa (tw3 m_ln (Dual2Vec_f_re x)) (part_Dual2Vec x) S.
Proof. exact faa_Dual2Vec_ln. Qed.
Theorem C01_faa_HyperDualVec_ln : forall i j, forall x : HyperDualVec R, 0 < (HyperDualVec_f_re x) -> wf_HyperDualVec x -> forall S, In S (idx_HyperDualVec i j) ->
  part_HyperDualVec (m_ln x) S = faa (tw3 m_ln (HyperDualVec_f_re x)) (part_HyperDualVec x) S.
Proof. exact faa_HyperDualVec_ln. Qed.
Theorem C01_faa_Dual_log2 : forall x : Dual R, 0 < (Dual_f_re x) -> forall S, In S idx_Dual ->
  part_Dual (m_log2 x) S = faa (tw3 m_log2 (Dual_f_re x)) (part_Dual x) S.
Proof. exact faa_Dual_log2. Qed.
Theorem C01_faa_Dual2_log2 : forall x : Dual2 R, 0 < (Dual2_f_re x) -> forall S, In S idx_Dual2 ->
  part_Dual2 (m_log2 x) S = faa (tw3 m_log2 (Dual2_f_re x)) (part_Dual2 x) S.
Proof. exact faa_Dual2_log2. Qed.
Theorem C01_faa_Dual3_log2 : forall x : Dual3 R, 0 < (Dual3_f_re x) -> forall S, In S idx_Dual3 ->
  part_Dual3 (m_log2 x) S = faa (tw3 m_log2 (Dual3_f_re x)) (part_Dual3 x) S.
Proof. exact faa_Dual3_log2. Qed.
Theorem C01_faa_HyperDual_log2 : forall x : HyperDual R, 0 < (HyperDual_f_re x) -> forall S, In S idx_HyperDual ->
  part_HyperDual (m_log2 x) S = faa (tw3 m_log2 (HyperDual_f_re x)) (part_HyperDual x) S.
Proof. exact faa_HyperDual_log2. Qed.
Theorem C01_faa_HyperHyperDual_log2 : forall x : HyperHyperDual R, 0 < (HyperHyperDual_f_re x) -> forall S, In S idx_HHD ->
  part_HHD (m_log2 x) S = faa (tw3 m_log2 (HyperHyperDual_f_re x)) (part_HHD x) S.
Proof. exact faa_HyperHyperDual_log2. Qed.
Theorem C01_faa_DualVec_log2 : forall i, forall x : DualVec R, 0 < (DualVec_f_re x) -> forall S, In S (idx_DualVec i) ->
  part_DualVec (m_log2 x) S = faa (tw3 m_log2 (DualVec_f_re x)) (part_DualVec x) S.
Proof. exact faa_DualVec_log2. Qed.
Theorem C01_faa_Dual2Vec_log2 : forall i j, forall x : Dual2Vec R, 0 < (Dual2Vec_f_re x) -> wf_Dual2Vec x -> forall S, In S (idx_Dual2Vec i j) ->
  part_Dual2Vec (m_log2 x) S = faa (tw3 m_log2 (Dual2Vec_f_re x)) (part_Dual2Vec x) S.
Proof. exact faa_Dual2Vec_log2. Qed.
Theorem C01_faa_HyperDualVec_log2 : forall i j, forall x : HyperDualVec R, 0 < (HyperDualVec_f_re x) -> wf_HyperDualVec x -> forall S, In S (idx_HyperDualVec i j) ->
  part_HyperDualVec (m_log2 x) S = faa (tw3 m_log2 (HyperDualVec_f_re x)) (part_HyperDualVec x) S.
Proof. exact faa_HyperDualVec_log2. Qed.
Theorem C01_faa_Dual_log10 : forall x : Dual R, 0 < (Dual_f_re x) -> forall S, In S idx_Dual ->
  part_Dual (m_log10 x) S = faa (tw3 m_log10 (Dual_f_re x)) (part_Dual x) S.
Proof. exact faa_Dual_log10. Qed.
Theorem C01_faa_Dual2_log10 : forall x : Dual2 R, 0 < (Dual2_f_re x) -> forall S, In S idx_Dual2 ->
  part_Dual2 (m_log10 x) S = faa (tw3 m_log10 (Dual2_f_re x)) (part_Dual2 x) S.
Proof. exact faa_Dual2_log10. Qed.
Theorem C01_faa_Dual3_log10 : forall x : Dual3 R, 0 < (Dual3_f_re x) -> forall S, In S idx_Dual3 ->
  part_Dual3 (m_log10 x) S = faa (tw3 m_log10 (Dual3_f_re x)) (part_Dual3 x) S.
Proof. exact faa_Dual3_log10. Qed.
Theorem C01_faa_HyperDual_log10 : forall x : HyperDual R, 0 < (HyperDual_f_re x) -> forall S, In S idx_HyperDual ->
  part_HyperDual (m_log10 x) S = faa (tw3 m_log10 (HyperDual_f_re x)) (part_HyperDual x) S.
Proof. exact faa_HyperDual_log10. Qed.
Theorem C01_faa_HyperHyperDual_log10 : forall x : HyperHyperDual R, 0 < (HyperHyperDual_f_re x) -> forall S, In S idx_HHD ->
  part_HHD (m_log10 x) S = faa (tw3 m_log10 (HyperHyperDual_f_re x)) (part_HHD x) S.
Proof. exact faa_HyperHyperDual_log10. Qed.
Theorem C01_faa_DualVec_log10 : forall i, forall x : DualVec R, 0 < (DualVec_f_re x) -> forall S, In S (idx_DualVec i) ->
  part_DualVec (m_log10 x) S = faa (tw3 m_log10 (DualVec_f_re x)) (part_DualVec x) S.
Proof. exact faa_DualVec_log10. Qed.
Theorem C01_faa_Dual2Vec_log10 : forall i j, forall x : Dual2Vec R, 0 < (Dual2Vec_f_re x) -> wf_Dual2Vec x -> forall S, In S (idx_Dual2Vec i j) ->
  part_Dual2Vec (m_log10 x) S = faa (tw3 m_log10 (Dual2Vec_f_re x)) (part_Dual2Vec x) S.
Proof. exact faa_Dual2Vec_log10. Qed.
Theorem C01_faa_HyperDualVec_log10 : forall i j, forall x : HyperDualVec R, 0 < (HyperDualVec_f_re x) -> wf_HyperDualVec x -> forall S, In S (idx_HyperDualVec i j) ->
  part_HyperDualVec (m_log10 x) S = faa (tw3 m_log10 (HyperDualVec_f_re x)) (part_HyperDualVec x) S.
Proof. exact faa_HyperDualVec_log10. Qed.
Theorem C01_faa_Dual_ln_1p : forall x : Dual R, -1 < (Dual_f_re x) -> forall S, In S idx_Dual ->
  part_Dual (m_ln_1p x) S = faa (tw3 m_ln_1p (Dual_f_re x)) (part_Dual x) S.
Proof. exact faa_Dual_ln_1p. Qed.
Theorem C01_faa_Dual2_ln_1p : forall x : Dual2 R, -1 < (Dual2_f_re x) -> forall S, In S idx_Dual2 ->
  part_Dual2 (m_ln_1p x) S = faa (tw3 m_ln_1p (Dual2_f_re x)) (part_Dual2 x) S.
Proof. exact faa_Dual2_ln_1p. Qed.
Theorem C01_faa_Dual3_ln_1p : forall x : Dual3 R, -1 < (Dual3_f_re x) -> forall S, In S idx_Dual3 ->
  part_Dual3 (m_ln_1p x) S = faa (tw3 m_ln_1p (Dual3_f_re x)) (part_Dual3 x) S.
Proof. exact faa_Dual3_ln_1p. Qed.
Theorem C01_faa_HyperDual_ln_1p : forall x : HyperDual R, -1 < (HyperDual_f_re x) -> forall S, In S idx_HyperDual ->
  part_HyperDual (m_ln_1p x) S = faa (tw3 m_ln_1p (HyperDual_f_re x)) (part_HyperDual x) S.
Proof. exact faa_HyperDual_ln_1p. Qed.
Theorem C01_faa_HyperHyperDual_ln_1p : forall x : HyperHyperDual R, -1 < (HyperHyperDual_f_re x) -> forall S, In S idx_HHD ->
  part_HHD (m_ln_1p x) S = faa (tw3 m_ln_1p (HyperHyperDual_f_re x)) (part_HHD x) S.
Proof. exact faa_HyperHyperDual_ln_1p. Qed.
Theorem C01_faa_DualVec_ln_1p : forall i, forall x : DualVec R, -1 < (DualVec_f_re x) -> forall S, In S (idx_DualVec i) ->
  part_DualVec (m_ln_1p x) S = faa (tw3 m_ln_1p (DualVec_f_re x)) (part_DualVec x) S.
Proof. exact faa_DualVec_ln_1p. Qed.
Theorem C01_faa_Dual2Vec_ln_1p : forall i j, forall x : Dual2Vec R, -1 < (Dual2Vec_f_re x) -> wf_Dual2Vec x -> forall S, In S (idx_Dual2Vec i j) ->
  part_Dual2Vec (m_ln_1p x) S = faa (tw3 m_ln_1p (Dual2Vec_f_re x)) (part_Dual2Vec x) S.
Proof. exact faa_Dual2Vec_ln_1p. Qed.
Theorem C01_faa_HyperDualVec_ln_1p : forall i j, forall x : HyperDualVec R, -1 < (HyperDualVec_f_re x) -> wf_HyperDualVec x -> forall S, In S (idx_HyperDualVec i j) ->
  part_HyperDualVec (m_ln_1p x) S = faa (tw3 m_ln_1p (HyperDualVec_f_re x)) (part_HyperDualVec x) S.
Proof. exact faa_HyperDualVec_ln_1p. Qed.
Theorem C01_faa_Dual_sin : forall x : Dual R, forall S, In S idx_Dual ->
  part_Dual (m_sin x) S = faa (tw3 m_sin (Dual_f_re x)) (part_Dual x) S.
Proof. exact faa_Dual_sin. Qed.
Theorem C01_faa_Dual2_sin : forall x : Dual2 R, forall S, In S idx_Dual2 ->
  part_Dual2 (m_sin x) S = faa (tw3 m_sin (Dual2_f_re x)) (part_Dual2 x) S.
Proof. exact faa_Dual2_sin. Qed.
Theorem C01_faa_Dual3_sin : forall x : Dual3 R, forall S, In S idx_Dual3 ->
  part_Dual3 (m_sin x) S = faa (tw3 m_sin (Dual3_f_re x)) (part_Dual3 x) S.
Proof. exact faa_Dual3_sin. Qed.
Theorem C01_faa_HyperDual_sin : forall x : HyperDual R, forall S, In S idx_HyperDual ->
  part_HyperDual (m_sin x) S = faa (tw3 m_sin (HyperDual_f_re x)) (part_HyperDual x) S.
Proof. exact faa_HyperDual_sin. Qed.
Theorem C01_faa_HyperHyperDual_sin : forall x : HyperHyperDual R, forall S, In S idx_HHD ->
  part_HHD (m_sin x) S = faa (tw3 m_sin (HyperHyperDual_f_re x)) (part_HHD x) S.
Proof. exact faa_HyperHyperDual_sin. Qed.
Theorem C01_faa_DualVec_sin : forall i, forall x : DualVec R, forall S, In S (idx_DualVec i) ->
  part_DualVec (m_sin x) S = faa (tw3 m_sin (DualVec_f_re x)) (part_DualVec x) S.
Proof. exact faa_DualVec_sin. Qed.
Theorem C01_faa_Dual2Vec_sin : forall i j, forall x : Dual2Vec R, wf_Dual2Vec x -> forall S, In S (idx_Dual2Vec i j) ->
  part_Dual2Vec (m_sin x) S = faa (tw3 m_sin (Dual2Vec_f_re x)) (part_Dual2Vec x) S.
Proof. exact faa_Dual2Vec_sin. Qed.
Theorem C01_faa_HyperDualVec_sin : forall i j, forall x : HyperDualVec R, wf_HyperDualVec x -> forall S, In S (idx_HyperDualVec i j) ->
  part_HyperDualVec (m_sin x) S = faa (tw3 m_sin (HyperDualVec_f_re x)) (part_HyperDualVec x) S.
Proof. exact faa_HyperDualVec_sin. Qed.
Theorem C01_faa_Dual_cos : forall x : Dual R, forall S, In S idx_Dual ->
  part_Dual (m_cos x) S = faa (tw3 m_cos (Dual_f_re x)) (part_Dual x) S.
Proof. exact faa_Dual_cos. Qed.
Theorem C01_faa_Dual2_cos : forall x : Dual2 R, forall S, In S idx_Dual2 ->
  part_Dual2 (m_cos x) S = faa (tw3 m_cos (Dual2_f_re x)) (part_Dual2 x) S.
Proof. exact faa_Dual2_cos. Qed.
Theorem C01_faa_Dual3_cos : forall x : Dual3 R, forall S, In S idx_Dual3 ->
  part_Dual3 (m_cos x) S = faa (tw3 m_cos (Dual3_f_re x)) (part_Dual3 x) S.
Proof. exact faa_Dual3_cos. Qed.
Theorem C01_faa_HyperDual_cos : forall x : HyperDual R, forall S, In S idx_HyperDual ->
  part_HyperDual (m_cos x) S = faa (tw3 m_cos (HyperDual_f_re x)) (part_HyperDual x) S.
Proof. exact faa_HyperDual_cos. Qed.
Theorem C01_faa_HyperHyperDual_cos : forall x : HyperHyperDual R, forall S, In S idx_HHD ->
  part_HHD (m_cos x) S = faa (tw3 m_cos (HyperHyperDual_f_re x)) (part_HHD x) S.
Proof. exact faa_HyperHyperDual_cos. Qed.
Theorem C01_faa_DualVec_cos : forall i, forall x : DualVec R, forall S, In S (idx_DualVec i) ->
  part_DualVec (m_cos x) S = faa (tw3 m_cos (DualVec_f_re x)) (part_DualVec x) S.
Proof. exact faa_DualVec_cos. Qed.
Theorem C01_faa_Dual2Vec_cos : forall i j, forall x : Dual2Vec R, wf_Dual2Vec x -> forall S, In S (idx_Dual2Vec i j) ->
  part_Dual2Vec (m_cos x) S = faa (tw3 m_cos (Dual2Vec_f_re x)) (part_Dual2Vec x) S.
Proof. exact faa_Dual2Vec_cos. Qed.
Theorem C01_faa_HyperDualVec_cos : forall i j, forall x : HyperDualVec R, wf_HyperDualVec x -> forall S, In S (idx_HyperDualVec i j) ->
  part_HyperDualVec (m_cos x) S = faa (tw3 m_cos (HyperDualVec_f_re x)) (part_HyperDualVec x) S.
Proof. exact faa_HyperDualVec_cos. Qed.
Theorem C01_faa_Dual_tan : forall x : Dual R, cos (Dual_f_re x) <> 0 -> forall S, In S idx_Dual ->
  part_Dual (m_tan x) S = faa (tw3 m_tan (Dual_f_re x)) (part_Dual x) S.
Proof. exact faa_Dual_tan. Qed.
Theorem C01_faa_Dual2_tan : forall x : Dual2 R, cos (Dual2_f_re x) <> 0 -> forall S, In S idx_Dual2 ->
  part_Dual2 (m_tan x) S = faa (tw3 m_tan (Dual2_f_re x)) (part_Dual2 x) S.
Proof. exact faa_Dual2_tan. Qed.
Theorem C01_faa_Dual3_tan : forall x : Dual3 R, cos (Dual3_f_re x) <> 0 -> forall S, In S idx_Dual3 ->
  part_Dual3 (m_tan x) S = faa (tw3 m_tan (Dual3_f_re x)) (part_Dual3 x) S.
Proof. exact faa_Dual3_tan. Qed.
Theorem C01_faa_HyperDual_tan : forall x : HyperDual R, cos (HyperDual_f_re x) <> 0 -> forall S, In S idx_HyperDual ->
  part_HyperDual (m_tan x) S = faa (tw3 m_tan (HyperDual_f_re x)) (part_HyperDual x) S.
Proof. exact faa_HyperDual_tan. Qed.
Theorem C01_faa_HyperHyperDual_tan : forall x : HyperHyperDual R, cos (HyperHyperDual_f_re x) <> 0 -> forall S, In S idx_HHD ->
  part_HHD (m_tan x) S = faa (tw3 m_tan (HyperHyperDual_f_re x)) (part_HHD x) S.
Proof. exact faa_HyperHyperDual_tan. Qed.
Theorem C01_faa_DualVec_tan : forall i, forall x : DualVec R, cos (DualVec_f_re x) <> 0 -> forall S, In S (idx_DualVec i) ->
  part_DualVec (m_tan x) S = faa (tw3 m_tan (DualVec_f_re x)) (part_DualVec x) S.
Proof. exact faa_DualVec_tan. Qed.
Theorem C01_faa_Dual2Vec_tan : forall i j, forall x : Dual2Vec R, cos (Dual2Vec_f_re x) <> 0 -> wf_Dual2Vec x -> forall S, In S (idx_Dual2Vec i j) ->
  part_Dual2Vec (m_tan x) S = faa (tw3 m_tan (Dual2Vec_f_re x)) (part_Dual2Vec x) S.
Proof. exact faa_Dual2Vec_tan. Qed.
Theorem C01_faa_HyperDualVec_tan : forall i j, forall x : HyperDualVec R, cos (HyperDualVec_f_re x) <> 0 -> wf_HyperDualVec x -> forall S, In S (idx_HyperDualVec i j) ->
  part_HyperDualVec (m_tan x) S = faa (tw3 m_tan (HyperDualVec_f_re x)) (part_HyperDualVec x) S.
Proof. exact faa_HyperDualVec_tan. Qed.
Theorem C01_faa_Dual_asin : forall x : Dual R, -1 < (Dual_f_re x) < 1 -> forall S, In S idx_Dual ->
  part_Dual (m_asin x) S = faa (tw3 m_asin (Dual_f_re x)) (part_Dual x) S.
Proof. exact faa_Dual_asin. Qed.
Theorem C01_faa_Dual2_asin : forall x : Dual2 R, -1 < (Dual2_f_re x) < 1 -> forall S, In S idx_Dual2 ->
  part_Dual2 (m_asin x) S = faa (tw3 m_asin (Dual2_f_re x)) (part_Dual2 x) S.
Proof. exact faa_Dual2_asin. Qed.
Theorem C01_faa_Dual3_asin : forall x : Dual3 R, -1 < (Dual3_f_re x) < 1 -> forall S, In S idx_Dual3 ->
  part_Dual3 (m_asin x) S = faa (tw3 m_asin (Dual3_f_re x)) (part_Dual3 x) S.
Proof. exact faa_Dual3_asin. Qed.
Theorem C01_faa_HyperDual_asin : forall x : HyperDual R, -1 < (HyperDual_f_re x) < 1 -> forall S, In S idx_HyperDual ->
  part_HyperDual (m_asin x) S = faa (tw3 m_asin (HyperDual_f_re x)) (part_HyperDual x) S.
Proof. exact faa_HyperDual_asin. Qed.
Theorem C01_faa_HyperHyperDual_asin : forall x : HyperHyperDual R, -1 < (HyperHyperDual_f_re x) < 1 -> forall S, In S idx_HHD ->
  part_HHD (m_asin x) S = faa (tw3 m_asin (HyperHyperDual_f_re x)) (part_HHD x) S.
Proof. exact faa_HyperHyperDual_asin. Qed.
Theorem C01_faa_DualVec_asin : forall i, forall x : DualVec R, -1 < (DualVec_f_re x) < 1 -> forall S, In S (idx_DualVec i) ->
  part_DualVec (m_asin x) S = faa (tw3 m_asin (DualVec_f_re x)) (part_DualVec x) S.
Proof. exact faa_DualVec_asin. Qed.
Theorem C01_faa_Dual2Vec_asin : forall i j, forall x : Dual2Vec R, -1 < (Dual2Vec_f_re x) < 1 -> wf_Dual2Vec x -> forall S, In S (idx_Dual2Vec i j) ->
  part_Dual2Vec (m_asin x) S = faa (tw3 m_asin (Dual2Vec_f_re x)) (part_Dual2Vec x) S.
Proof. exact faa_Dual2Vec_asin. Qed.
Theorem C01_faa_HyperDualVec_asin : forall i j, forall x : HyperDualVec R, -1 < (HyperDualVec_f_re x) < 1 -> wf_HyperDualVec x -> forall S, In S (idx_HyperDualVec i j) ->
  part_HyperDualVec (m_asin x) S = faa (tw3 m_asin (HyperDualVec_f_re x)) (part_HyperDualVec x) S.
Proof. exact faa_HyperDualVec_asin. Qed.
Theorem C01_faa_Dual_acos : forall x : Dual R, -1 < (Dual_f_re x) < 1 -> forall S, In S idx_Dual ->
  part_Dual (m_acos x) S = faa (tw3 m_acos (Dual_f_re x)) (part_Dual x) S.
Proof. exact faa_Dual_acos. Qed.
Theorem C01_faa_Dual2_acos : forall x : Dual2 R, -1 < (Dual2_f_re x) < 1 -> forall S, In S idx_Dual2 ->
  part_Dual2 (m_acos x) S = faa (tw3 m_acos (Dual2_f_re x)) (part_Dual2 x) S.
Proof. exact faa_Dual2_acos. Qed.
Theorem C01_faa_Dual3_acos : forall x : Dual3 R, -1 < (Dual3_f_re x) < 1 -> forall S, In S idx_Dual3 ->
  part_Dual3 (m_acos x) S = faa (tw3 m_acos (Dual3_f_re x)) (part_Dual3 x) S.
Proof. exact faa_Dual3_acos. Qed.
Theorem C01_faa_HyperDual_acos : forall x : HyperDual R, -1 < (HyperDual_f_re x) < 1 -> forall S, In S idx_HyperDual ->
  part_HyperDual (m_acos x) S = faa (tw3 m_acos (HyperDual_f_re x)) (part_HyperDual x) S.
Proof. exact faa_HyperDual_acos. Qed.
Theorem C01_faa_HyperHyperDual_acos : forall x : HyperHyperDual R, -1 < (HyperHyperDual_f_re x) < 1 -> forall S, In S idx_HHD ->
  part_HHD (m_acos x) S = faa (tw3 m_acos (HyperHyperDual_f_re x)) (part_HHD x) S.
Proof. exact faa_HyperHyperDual_acos. Qed.
Theorem C01_faa_DualVec_acos : forall i, forall x : DualVec R, -1 < (DualVec_f_re x) < 1 -> forall S, In S (idx_DualVec i) ->
  part_DualVec (m_acos x) S = faa (tw3 m_acos (DualVec_f_re x)) (part_DualVec x) S.
Proof. exact faa_DualVec_acos. Qed.
Theorem C01_faa_Dual2Vec_acos : forall i j, forall x : Dual2Vec R, -1 < (Dual2Vec_f_re x) < 1 -> wf_Dual2Vec x -> forall S, In S (idx_Dual2Vec i j) ->
  part_Dual2Vec (m_acos x) S = faa (tw3 m_acos (Dual2Vec_f_re x)) (part_Dual2Vec x) S.
Proof. exact faa_Dual2Vec_acos. Qed.
Theorem C01_faa_HyperDualVec_acos : forall i j, forall x : HyperDualVec R, -1 < (HyperDualVec_f_re x) < 1 -> wf_HyperDualVec x -> forall S, In S (idx_HyperDualVec i j) ->
  part_HyperDualVec (m_acos x) S = faa (tw3 m_acos (HyperDualVec_f_re x)) (part_HyperDualVec x) S.
Proof. exact faa_HyperDualVec_acos. Qed.
Theorem C01_faa_Dual_atan : forall x : Dual R, forall S, In S idx_Dual ->
  part_Dual (m_atan x) S = faa (tw3 m_atan (Dual_f_re x)) (part_Dual x) S.
Proof. exact faa_Dual_atan. Qed.
Theorem C01_faa_Dual2_atan : forall x : Dual2 R, forall S, In S idx_Dual2 ->
  part_Dual2 (m_atan x) S = faa (tw3 m_atan (Dual2_f_re x)) (part_Dual2 x) S.
Proof. exact faa_Dual2_atan. Qed.
Theorem C01_faa_Dual3_atan : forall x : Dual3 R, forall S, In S idx_Dual3 ->
  part_Dual3 (m_atan x) S = faa (tw3 m_atan (Dual3_f_re x)) (part_Dual3 x) S.
Proof. exact faa_Dual3_atan. Qed.
Theorem C01_faa_HyperDual_atan : forall x : HyperDual R, forall S, In S idx_HyperDual ->
  part_HyperDual (m_atan x) S = faa (tw3 m_atan (HyperDual_f_re x)) (part_HyperDual x) S.
Proof. exact faa_HyperDual_atan. Qed.
Theorem C01_faa_HyperHyperDual_atan : forall x : HyperHyperDual R, forall S, In S idx_HHD ->
  part_HHD (m_atan x) S = faa (tw3 m_atan (HyperHyperDual_f_re x)) (part_HHD x) S.
Proof. exact faa_HyperHyperDual_atan. Qed.
Theorem C01_faa_DualVec_atan : forall i, forall x : DualVec R, forall S, In S (idx_DualVec i) ->
  part_DualVec (m_atan x) S = faa (tw3 m_atan (DualVec_f_re x)) (part_DualVec x) S.
Proof. exact faa_DualVec_atan. Qed.
Theorem C01_faa_Dual2Vec_atan : forall i j, forall x : Dual2Vec R, wf_Dual2Vec x -> forall S, In S (idx_Dual2Vec i j) ->
  part_Dual2Vec (m_atan x) S = faa (tw3 m_atan (Dual2Vec_f_re x)) (part_Dual2Vec x) S.
Proof. exact faa_Dual2Vec_atan. Qed.
Theorem C01_faa_HyperDualVec_atan : forall i j, forall x : HyperDualVec R, wf_HyperDualVec x -> forall S, In S (idx_HyperDualVec i j) ->
  part_HyperDualVec (m_atan x) S = faa (tw3 m_atan (HyperDualVec_f_re x)) (part_HyperDualVec x) S.
Proof. exact faa_HyperDualVec_atan. Qed.
Theorem C01_faa_Dual_sinh : forall x : Dual R, forall S, In S idx_Dual ->
  part_Dual (m_sinh x) S = faa (tw3 m_sinh (Dual_f_re x)) (part_Dual x) S.
Proof. exact faa_Dual_sinh. Qed.
Theorem C01_faa_Dual2_sinh : forall x : Dual2 R, forall S, In S idx_Dual2 ->
  part_Dual2 (m_sinh x) S = faa (tw3 m_sinh (Dual2_f_re x)) (part_Dual2 x) S.
Proof. exact faa_Dual2_sinh. Qed.
Theorem C01_faa_Dual3_sinh : forall x : Dual3 R, forall S, In S idx_Dual3 ->
  part_Dual3 (m_sinh x) S = faa (tw3 m_sinh (Dual3_f_re x)) (part_Dual3 x) S.
Proof. exact faa_Dual3_sinh. Qed.
Theorem C01_faa_HyperDual_sinh : forall x : HyperDual R, forall S, In S idx_HyperDual ->
  part_HyperDual (m_sinh x) S = faa (tw3 m_sinh (HyperDual_f_re x)) (part_HyperDual x) S.
Proof. exact faa_HyperDual_sinh. Qed.
Theorem C01_faa_HyperHyperDual_sinh : forall x : HyperHyperDual R, forall S, In S idx_HHD ->
  part_HHD (m_sinh x) S = faa (tw3 m_sinh (HyperHyperDual_f_re x)) (part_HHD x) S.
Proof. exact faa_HyperHyperDual_sinh. Qed.
Theorem C01_faa_DualVec_sinh : forall i, forall x : DualVec R, forall S, In S (idx_DualVec i) ->
  part_DualVec (m_sinh x) S = faa (tw3 m_sinh (DualVec_f_re x)) (part_DualVec x) S.
Proof. exact faa_DualVec_sinh. Qed.
Theorem C01_faa_Dual2Vec_sinh : forall i j, forall x : Dual2Vec R, wf_Dual2Vec x -> forall S, In S (idx_Dual2Vec i j) ->
  part_Dual2Vec (m_sinh x) S = faa (tw3 m_sinh (Dual2Vec_f_re x)) (part_Dual2Vec x) S.
Proof. exact faa_Dual2Vec_sinh. Qed.
Theorem C01_faa_HyperDualVec_sinh : forall i j, forall x : HyperDualVec R, wf_HyperDualVec x -> forall S, In S (idx_HyperDualVec i j) ->
  part_HyperDualVec (m_sinh x) S = faa (tw3 m_sinh (HyperDualVec_f_re x)) (part_HyperDualVec x) S.
Proof. exact faa_HyperDualVec_sinh. Qed.
Theorem C01_faa_Dual_cosh : forall x : Dual R, forall S, In S idx_Dual ->
  part_Dual (m_cosh x) S = faa (tw3 m_cosh (Dual_f_re x)) (part_Dual x) S.
Proof. exact faa_Dual_cosh. Qed.
Theorem C01_faa_Dual2_cosh : forall x : Dual2 R, forall S, In S idx_Dual2 ->
  part_Dual2 (m_cosh x) S = faa (tw3 m_cosh (Dual2_f_re x)) (part_Dual2 x) S.
Proof. exact faa_Dual2_cosh. Qed.
Theorem C01_faa_Dual3_cosh : forall x : Dual3 R, forall S, In S idx_Dual3 ->
  part_Dual3 (m_cosh x) S = faa (tw3 m_cosh (Dual3_f_re x)) (part_Dual3 x) S.
Proof. exact faa_Dual3_cosh. Qed.
Theorem C01_faa_HyperDual_cosh : forall x : HyperDual R, forall S, In S idx_HyperDual ->
  part_HyperDual (m_cosh x) S = faa (tw3 m_cosh (HyperDual_f_re x)) (part_HyperDual x) S.
Proof. exact faa_HyperDual_cosh. Qed.
Theorem C01_faa_HyperHyperDual_cosh : forall x : HyperHyperDual R, forall S, In S idx_HHD ->
  part_HHD (m_cosh x) S = faa (tw3 m_cosh (HyperHyperDual_f_re x)) (part_HHD x) S.
Proof. exact faa_HyperHyperDual_cosh. Qed.
Theorem C01_faa_DualVec_cosh : forall i, forall x : DualVec R, forall S, In S (idx_DualVec i) ->
  part_DualVec (m_cosh x) S = faa (tw3 m_cosh (DualVec_f_re x)) (part_DualVec x) S.
Proof. exact faa_DualVec_cosh. Qed.
Theorem C01_faa_Dual2Vec_cosh : forall i j, forall x : Dual2Vec R, wf_Dual2Vec x -> forall S, In S (idx_Dual2Vec i j) ->
  part_Dual2Vec (m_cosh x) S = faa (tw3 m_cosh (Dual2Vec_f_re x)) (part_Dual2Vec x) S.
Proof. exact faa_Dual2Vec_cosh. Qed.
Theorem C01_faa_HyperDualVec_cosh : forall i j, forall x : HyperDualVec R, wf_HyperDualVec x -> forall S, In S (idx_HyperDualVec i j) ->
  part_HyperDualVec (m_cosh x) S = faa (tw3 m_cosh (HyperDualVec_f_re x)) (part_HyperDualVec x) S.
Proof. exact faa_HyperDualVec_cosh. Qed.
Theorem C01_faa_Dual_tanh : forall x : Dual R, forall S, In S idx_Dual ->
  part_Dual (m_tanh x) S = faa (tw3 m_tanh (Dual_f_re x)) (part_Dual x) S.
Proof. exact faa_Dual_tanh. Qed.
Theorem C01_faa_Dual2_tanh : forall x : Dual2 R, forall S, In S idx_Dual2 ->
  part_Dual2 (m_tanh x) S = faa (tw3 m_tanh (Dual2_f_re x)) (part_Dual2 x) S.
Proof. exact faa_Dual2_tanh. Qed.
Theorem C01_faa_Dual3_tanh : forall x : Dual3 R, forall S, In S idx_Dual3 ->
  part_Dual3 (m_tanh x) S = faa (tw3 m_tanh (Dual3_f_re x)) (part_Dual3 x) S.
Proof. exact faa_Dual3_tanh. Qed.
Theorem C01_faa_HyperDual_tanh : forall x : HyperDual R, forall S, In S idx_HyperDual ->
  part_HyperDual (m_tanh x) S = faa (tw3 m_tanh (HyperDual_f_re x)) (part_HyperDual x) S.
Proof. exact faa_HyperDual_tanh. Qed.
Theorem C01_faa_HyperHyperDual_tanh : forall x : HyperHyperDual R, forall S, In S idx_HHD ->
  part_HHD (m_tanh x) S = faa (tw3 m_tanh (HyperHyperDual_f_re x)) (part_HHD x) S.
Proof. exact faa_HyperHyperDual_tanh. Qed.
Theorem C01_faa_DualVec_tanh : forall i, forall x : DualVec R, forall S, In S (idx_DualVec i) ->
  part_DualVec (m_tanh x) S = faa (tw3 m_tanh (DualVec_f_re x)) (part_DualVec x) S.
Proof. exact faa_DualVec_tanh. Qed.
Theorem C01_faa_Dual2Vec_tanh : forall i j, forall x : Dual2Vec R, wf_Dual2Vec x -> forall S, In S (idx_Dual2Vec i j) ->
  part_Dual2Vec (m_tanh x) S = faa (tw3 m_tanh (Dual2Vec_f_re x)) (part_Dual2Vec x) S.
Proof. exact faa_Dual2Vec_tanh. Qed.
Theorem C01_faa_HyperDualVec_tanh : forall i j, forall x : HyperDualVec R, wf_HyperDualVec x -> forall S, In S (idx_HyperDualVec i j) ->
  part_HyperDualVec (m_tanh x) S = faa (tw3 m_tanh (HyperDualVec_f_re x)) (part_HyperDualVec x) S.
Proof. exact faa_HyperDualVec_tanh. Qed.
Theorem C01_faa_Dual_asinh : forall x : Dual R, forall S, In S idx_Dual ->
  part_Dual (m_asinh x) S = faa (tw3 m_asinh (Dual_f_re x)) (part_Dual x) S.
Proof. exact faa_Dual_asinh. Qed.
Theorem C01_faa_Dual2_asinh : forall x : Dual2 R, forall S, In S idx_Dual2 ->
  part_Dual2 (m_asinh x) S = faa (tw3 m_asinh (Dual2_f_re x)) (part_Dual2 x) S.
Proof. exact faa_Dual2_asinh. Qed.
Theorem C01_faa_Dual3_asinh : forall x : Dual3 R, forall S, In S idx_Dual3 ->
  part_Dual3 (m_asinh x) S = faa (tw3 m_asinh (Dual3_f_re x)) (part_Dual3 x) S.
Proof. exact faa_Dual3_asinh. Qed.
Theorem C01_faa_HyperDual_asinh : forall x : HyperDual R, forall S, In S idx_HyperDual ->
  part_HyperDual (m_asinh x) S = faa (tw3 m_asinh (HyperDual_f_re x)) (part_HyperDual x) S.
Proof. exact faa_HyperDual_asinh. Qed.
Theorem C01_faa_HyperHyperDual_asinh : forall x : HyperHyperDual R, forall S, In S idx_HHD ->
  part_HHD (m_asinh x) S = faa (tw3 m_asinh (HyperHyperDual_f_re x)) (part_HHD x) S.
Proof. exact faa_HyperHyperDual_asinh. Qed.
Theorem C01_faa_DualVec_asinh : forall i, forall x : DualVec R, forall S, In S (idx_DualVec i) ->
  part_DualVec (m_asinh x) S = faa (tw3 m_asinh (DualVec_f_re x)) (part_DualVec x) S.
Proof. exact faa_DualVec_asinh. Qed.
Theorem C01_faa_Dual2Vec_asinh : forall i j, forall x : Dual2Vec R, wf_Dual2Vec x -> forall S, In S (idx_Dual2Vec i j) ->
  part_Dual2Vec (m_asinh x) S = faa (tw3 m_asinh (Dual2Vec_f_re x)) (part_Dual2Vec x) S.
Proof. exact faa_Dual2Vec_asinh. Qed.
Theorem C01_faa_HyperDualVec_asinh : forall i j, forall x : HyperDualVec R, wf_HyperDualVec x -> forall S, In S (idx_HyperDualVec i j) ->
  part_HyperDualVec (m_asinh x) S = faa (tw3 m_asinh (HyperDualVec_f_re x)) (part_HyperDualVec x) S.
Proof. exact faa_HyperDualVec_asinh. Qed.
Theorem C01_faa_Dual_acosh : forall x : Dual R, 1 < (Dual_f_re x) -> forall S, In S idx_Dual ->
  part_Dual (m_acosh x) S = faa (tw3 m_acosh (Dual_f_re x)) (part_Dual x) S.
Proof. exact faa_Dual_acosh. Qed.
Theorem C01_faa_Dual2_acosh : forall x : Dual2 R, 1 < (Dual2_f_re x) -> forall S, In S idx_Dual2 ->
  part_Dual2 (m_acosh x) S = faa (tw3 m_acosh (Dual2_f_re x)) (part_Dual2 x) S.
Proof. exact faa_Dual2_acosh. Qed.
Theorem C01_faa_Dual3_acosh : forall x : Dual3 R, 1 < (Dual3_f_re x) -> forall S, In S idx_Dual3 ->
  part_Dual3 (m_acosh x) S = faa (tw3 m_acosh (Dual3_f_re x)) (part_Dual3 x) S.
Proof. exact faa_Dual3_acosh. Qed.
Theorem C01_faa_HyperDual_acosh : forall x : HyperDual R, 1 < (HyperDual_f_re x) -> forall S, In S idx_HyperDual ->
  part_HyperDual (m_acosh x) S = faa (tw3 m_acosh (HyperDual_f_re x)) (part_HyperDual x) S.
Proof. exact faa_HyperDual_acosh. Qed.
Theorem C01_faa_HyperHyperDual_acosh : forall x : HyperHyperDual R, 1 < (HyperHyperDual_f_re x) -> forall S, In S idx_HHD ->
  part_HHD (m_acosh x) S = faa (tw3 m_acosh (HyperHyperDual_f_re x)) (part_HHD x) S.
Proof. exact faa_HyperHyperDual_acosh. Qed.
Theorem C01_faa_DualVec_acosh : forall i, forall x : DualVec R, 1 < (DualVec_f_re x) -> forall S, In S (idx_DualVec i) ->
  part_DualVec (m_acosh x) S = faa (tw3 m_acosh (DualVec_f_re x)) (part_DualVec x) S.
Proof. exact faa_DualVec_acosh. Qed.
Theorem C01_faa_Dual2Vec_acosh : forall i j, forall x : Dual2Vec R, 1 < (Dual2Vec_f_re x) -> wf_Dual2Vec x -> forall S, In S (idx_Dual2Vec i j) ->
  part_Dual2Vec (m_acosh x) S = faa (tw3 m_acosh (Dual2Vec_f_re x)) (part_Dual2Vec x) S.
Proof. exact faa_Dual2Vec_acosh. Qed.
Theorem C01_faa_HyperDualVec_acosh : forall i j, forall x : HyperDualVec R, 1 < (HyperDualVec_f_re x) -> wf_HyperDualVec x -> forall S, In S (idx_HyperDualVec i j) ->
  part_HyperDualVec (m_acosh x) S = faa (tw3 m_acosh (HyperDualVec_f_re x)) (part_HyperDualVec x) S.
Proof. exact faa_HyperDualVec_acosh. Qed.
Theorem C01_faa_Dual_atanh : forall x : Dual R, -1 < (Dual_f_re x) < 1 -> forall S, In S idx_Dual ->
  part_Dual (m_atanh x) S = faa (tw3 m_atanh (Dual_f_re x)) (part_Dual x) S.
Proof. exact faa_Dual_atanh. Qed.
Theorem C01_faa_Dual2_atanh : forall x : Dual2 R, -1 < (Dual2_f_re x) < 1 -> forall S, In S idx_Dual2 ->
  part_Dual2 (m_atanh x) S = faa (tw3 m_atanh (Dual2_f_re x)) (part_Dual2 x) S.
Proof. exact faa_Dual2_atanh. Qed.
Theorem C01_faa_Dual3_atanh : forall x : Dual3 R, -1 < (Dual3_f_re x) < 1 -> forall S, In S idx_Dual3 ->
  part_Dual3 (m_atanh x) S = faa (tw3 m_atanh (Dual3_f_re x)) (part_Dual3 x) S.
Proof. exact faa_Dual3_atanh. Qed.
Theorem C01_faa_HyperDual_atanh : forall x : HyperDual R, -1 < (HyperDual_f_re x) < 1 -> forall S, In S idx_HyperDual ->
  part_HyperDual (m_atanh x) S = faa (tw3 m_atanh (HyperDual_f_re x)) (part_HyperDual x) S.
Proof. exact faa_HyperDual_atanh. Qed.
Theorem C01_faa_HyperHyperDual_atanh : forall x : HyperHyperDual R, -1 < (HyperHyperDual_f_re x) < 1 -> forall S, In S idx_HHD ->
  part_HHD (m_atanh x) S = faa (tw3 m_atanh (HyperHyperDual_f_re x)) (part_HHD x) S.
Proof. exact faa_HyperHyperDual_atanh. Qed.
Theorem C01_faa_DualVec_atanh : forall i, forall x : DualVec R, -1 < (DualVec_f_re x) < 1 -> forall S, In S (idx_DualVec i) ->
  part_DualVec (m_atanh x) S = faa (tw3 m_atanh (DualVec_f_re x)) (part_DualVec x) S.
Proof. exact faa_DualVec_atanh. Qed.
Theorem C01_faa_Dual2Vec_atanh : forall i j, forall x : Dual2Vec R, -1 < (Dual2Vec_f_re x) < 1 -> wf_Dual2Vec x -> forall S, In S (idx_Dual2Vec i j) ->
  part_Dual2Vec (m_atanh x) S = faa (tw3 m_atanh (Dual2Vec_f_re x)) (part_Dual2Vec x) S.
Proof. exact faa_Dual2Vec_atanh. Qed.
Theorem C01_faa_HyperDualVec_atanh : forall i j, forall x : HyperDualVec R, -1 < (HyperDualVec_f_re x) < 1 -> wf_HyperDualVec x -> forall S, In S (idx_HyperDualVec i j) ->
  part_HyperDualVec (m_atanh x) S = faa (tw3 m_atanh (HyperDualVec_f_re x)) (part_HyperDualVec x) S.
Proof. exact faa_HyperDualVec_atanh. Qed.
Theorem C01_faa_Dual_log : forall (base : R) (x : Dual R), 0 < Dual_f_re x -> ln base <> 0 -> forall S, In S idx_Dual ->
  part_Dual (m_log x base) S = faa (tw3 (fun d => m_log d base) (Dual_f_re x)) (part_Dual x) S.
Proof. exact faa_Dual_log. Qed.
Theorem C01_sin_cos_Dual : forall x : Dual R, m_sin_cos x = (m_sin x, m_cos x).
Proof. exact sin_cos_Dual. Qed.
Theorem C01_abs_Dual : forall x : Dual R, (0 < Dual_f_re x -> m_abs x = x) /\ (Dual_f_re x < 0 -> m_abs x = (- x)%rs).
Proof. exact abs_Dual. Qed.
Theorem C01_signum_Dual : forall x : Dual R, (0 < Dual_f_re x -> m_signum x = (Overload.one : Dual R)) /\ (Dual_f_re x < 0 -> m_signum x = (- (Overload.one : Dual R))%rs).
Proof. exact signum_Dual. Qed.
Theorem C01_faa_Dual2_log : forall (base : R) (x : Dual2 R), 0 < Dual2_f_re x -> ln base <> 0 -> forall S, In S idx_Dual2 ->
  part_Dual2 (m_log x base) S = faa (tw3 (fun d => m_log d base) (Dual2_f_re x)) (part_Dual2 x) S.
Proof. exact faa_Dual2_log. Qed.
Theorem C01_sin_cos_Dual2 : forall x : Dual2 R, m_sin_cos x = (m_sin x, m_cos x).
Proof. exact sin_cos_Dual2. Qed.
Theorem C01_abs_Dual2 : forall x : Dual2 R, (0 < Dual2_f_re x -> m_abs x = x) /\ (Dual2_f_re x < 0 -> m_abs x = (- x)%rs).
Proof. exact abs_Dual2. Qed.
Theorem C01_signum_Dual2 : forall x : Dual2 R, (0 < Dual2_f_re x -> m_signum x = (Overload.one : Dual2 R)) /\ (Dual2_f_re x < 0 -> m_signum x = (- (Overload.one : Dual2 R))%rs).
Proof. exact signum_Dual2. Qed.
Theorem C01_faa_Dual3_log : forall (base : R) (x : Dual3 R), 0 < Dual3_f_re x -> ln base <> 0 -> forall S, In S idx_Dual3 ->
  part_Dual3 (m_log x base) S = faa (tw3 (fun d => m_log d base) (Dual3_f_re x)) (part_Dual3 x) S.
Proof. exact faa_Dual3_log. Qed.
Theorem C01_sin_cos_Dual3 : forall x : Dual3 R, m_sin_cos x = (m_sin x, m_cos x).
Proof. exact sin_cos_Dual3. Qed.
Theorem C01_abs_Dual3 : forall x : Dual3 R, (0 < Dual3_f_re x -> m_abs x = x) /\ (Dual3_f_re x < 0 -> m_abs x = (- x)%rs).
Proof. exact abs_Dual3. Qed.
Theorem C01_signum_Dual3 : forall x : Dual3 R, (0 < Dual3_f_re x -> m_signum x = (Overload.one : Dual3 R)) /\ (Dual3_f_re x < 0 -> m_signum x = (- (Overload.one : Dual3 R))%rs).
Proof. exact signum_Dual3. Qed.
Theorem C01_faa_HyperDual_log : forall (base : R) (x : HyperDual R), 0 < HyperDual_f_re x -> ln base <> 0 -> forall S, In S idx_HyperDual ->
  part_HyperDual (m_log x base) S = faa (tw3 (fun d => m_log d base) (HyperDual_f_re x)) (part_HyperDual x) S.
Proof. exact faa_HyperDual_log. Qed.
Theorem C01_sin_cos_HyperDual : forall x : HyperDual R, m_sin_cos x = (m_sin x, m_cos x).
Proof. exact sin_cos_HyperDual. Qed.
Theorem C01_abs_HyperDual : forall x : HyperDual R, (0 < HyperDual_f_re x -> m_abs x = x) /\ (HyperDual_f_re x < 0 -> m_abs x = (- x)%rs).
Proof. exact abs_HyperDual. Qed.
Theorem C01_signum_HyperDual : forall x : HyperDual R, (0 < HyperDual_f_re x -> m_signum x = (Overload.one : HyperDual R)) /\ (HyperDual_f_re x < 0 -> m_signum x = (- (Overload.one : HyperDual R))%rs).
Proof. exact signum_HyperDual. Qed.
Theorem C01_faa_HyperHyperDual_log : forall (base : R) (x : HyperHyperDual R), 0 < HyperHyperDual_f_re x -> ln base <> 0 -> forall S, In S idx_HHD ->
  part_HHD (m_log x base) S = faa (tw3 (fun d => m_log d base) (HyperHyperDual_f_re x)) (part_HHD x) S.
Proof. exact faa_HyperHyperDual_log. Qed.
Theorem C01_sin_cos_HyperHyperDual : forall x : HyperHyperDual R, m_sin_cos x = (m_sin x, m_cos x).
Proof. exact sin_cos_HyperHyperDual. Qed.
Theorem C01_abs_HyperHyperDual : forall x : HyperHyperDual R, (0 < HyperHyperDual_f_re x -> m_abs x = x) /\ (HyperHyperDual_f_re x < 0 -> m_abs x = (- x)%rs).
Proof. exact abs_HyperHyperDual. Qed.
Theorem C01_signum_HyperHyperDual : forall x : HyperHyperDual R, (0 < HyperHyperDual_f_re x -> m_signum x = (Overload.one : HyperHyperDual R)) /\ (HyperHyperDual_f_re x < 0 -> m_signum x = (- (Overload.one : HyperHyperDual R))%rs).
Proof. exact signum_HyperHyperDual. Qed.
Theorem C01_faa_DualVec_log : forall i, forall (base : R) (x : DualVec R), 0 < DualVec_f_re x -> ln base <> 0 -> forall S, In S (idx_DualVec i) ->
  part_DualVec (m_log x base) S = faa (tw3 (fun d => m_log d base) (DualVec_f_re x)) (part_DualVec x) S.
Proof. exact faa_DualVec_log. Qed.
Theorem C01_sin_cos_DualVec : forall x : DualVec R, m_sin_cos x = (m_sin x, m_cos x).
Proof. exact sin_cos_DualVec. Qed.
Theorem C01_abs_DualVec : forall x : DualVec R, (0 < DualVec_f_re x -> m_abs x = x) /\ (DualVec_f_re x < 0 -> m_abs x = (- x)%rs).
Proof. exact abs_DualVec. Qed.
Theorem C01_signum_DualVec : forall x : DualVec R, (0 < DualVec_f_re x -> m_signum x = (Overload.one : DualVec R)) /\ (DualVec_f_re x < 0 -> m_signum x = (- (Overload.one : DualVec R))%rs).
Proof. exact signum_DualVec. Qed.
Theorem C01_faa_Dual2Vec_log : forall i j, forall (base : R) (x : Dual2Vec R), 0 < Dual2Vec_f_re x -> ln base <> 0 -> wf_Dual2Vec x -> forall S, In S (idx_Dual2Vec i j) ->
  part_Dual2Vec (m_log x base) S = faa (tw3 (fun d => m_log d base) (Dual2Vec_f_re x)) (part_Dual2Vec x) S.
Proof. exact faa_Dual2Vec_log. Qed.
Theorem C01_sin_cos_Dual2Vec : forall x : Dual2Vec R, m_sin_cos x = (m_sin x, m_cos x).
Proof. exact sin_cos_Dual2Vec. Qed.
Theorem C01_abs_Dual2Vec : forall x : Dual2Vec R, (0 < Dual2Vec_f_re x -> m_abs x = x) /\ (Dual2Vec_f_re x < 0 -> m_abs x = (- x)%rs).
Proof. exact abs_Dual2Vec. Qed.
Theorem C01_signum_Dual2Vec : forall x : Dual2Vec R, (0 < Dual2Vec_f_re x -> m_signum x = (Overload.one : Dual2Vec R)) /\ (Dual2Vec_f_re x < 0 -> m_signum x = (- (Overload.one : Dual2Vec R))%rs).
Proof. exact signum_Dual2Vec. Qed.
Theorem C01_faa_HyperDualVec_log : forall i j, forall (base : R) (x : HyperDualVec R), 0 < HyperDualVec_f_re x -> ln base <> 0 -> wf_HyperDualVec x -> forall S, In S (idx_HyperDualVec i j) ->
  part_HyperDualVec (m_log x base) S = faa (tw3 (fun d => m_log d base) (HyperDualVec_f_re x)) (part_HyperDualVec x) S.
Proof. exact faa_HyperDualVec_log. Qed.
Theorem C01_sin_cos_HyperDualVec : forall x : HyperDualVec R, m_sin_cos x = (m_sin x, m_cos x).
Proof. exact sin_cos_HyperDualVec. Qed.
Theorem C01_abs_HyperDualVec : forall x : HyperDualVec R, (0 < HyperDualVec_f_re x -> m_abs x = x) /\ (HyperDualVec_f_re x < 0 -> m_abs x = (- x)%rs).
Proof. exact abs_HyperDualVec. Qed.
Theorem C01_signum_HyperDualVec : forall x : HyperDualVec R, (0 < HyperDualVec_f_re x -> m_signum x = (Overload.one : HyperDualVec R)) /\ (HyperDualVec_f_re x < 0 -> m_signum x = (- (Overload.one : HyperDualVec R))%rs).
Proof. exact signum_HyperDualVec. Qed.

(* non-vacuity: a point inside every domain premise used above *)
Example C01_domains_inhabited : (/2 <> 0) /\ 0 < /2 /\ -1 < /2 < 1 /\ 1 < 2 /\ cos 0 <> 0 /\ ln 2 <> 0.
Proof. rewrite cos_0. pose proof ln2_pos. repeat split; lra. Qed.

(* one axiom report for the whole family (the union bounds every member; 239 separate reports take minutes) *)
Definition C01_bundle := (C01_tower_recip,
  C01_tower_sqrt,
  C01_tower_cbrt,
  C01_tower_exp,
  C01_tower_exp2,
  C01_tower_exp_m1,
  C01_tower_ln,
  C01_tower_log,
  C01_tower_log2,
  C01_tower_log10,
  C01_tower_ln_1p,
  C01_tower_sin,
  C01_tower_cos,
  C01_tower_tan,
  C01_tower_asin,
  C01_tower_acos,
  C01_tower_atan,
  C01_tower_sinh,
  C01_tower_cosh,
  C01_tower_tanh,
  C01_tower_asinh,
  C01_tower_atanh,
  C01_tower_acosh,
  C01_chain_Dual,
  C01_chain_Dual2,
  C01_chain_Dual3,
  C01_chain_HyperDual,
  C01_chain_HyperHyperDual,
  C01_chain_DualVec,
  C01_chain_Dual2Vec,
  C01_chain_HyperDualVec,
  C01_faa_Dual_recip,
  C01_faa_Dual2_recip,
  C01_faa_Dual3_recip,
  C01_faa_HyperDual_recip,
  C01_faa_HyperHyperDual_recip,
  C01_faa_DualVec_recip,
  C01_faa_Dual2Vec_recip,
  C01_faa_HyperDualVec_recip,
  C01_faa_Dual_sqrt,
  C01_faa_Dual2_sqrt,
  C01_faa_Dual3_sqrt,
  C01_faa_HyperDual_sqrt,
  C01_faa_HyperHyperDual_sqrt,
  C01_faa_DualVec_sqrt,
  C01_faa_Dual2Vec_sqrt,
  C01_faa_HyperDualVec_sqrt,
  C01_faa_Dual_cbrt,
  C01_faa_Dual2_cbrt,
  C01_faa_Dual3_cbrt,
  C01_faa_HyperDual_cbrt,
  C01_faa_HyperHyperDual_cbrt,
  C01_faa_DualVec_cbrt,
  C01_faa_Dual2Vec_cbrt,
  C01_faa_HyperDualVec_cbrt,
  C01_faa_Dual_exp,
  C01_faa_Dual2_exp,
  C01_faa_Dual3_exp,
  C01_faa_HyperDual_exp,
  C01_faa_HyperHyperDual_exp,
  C01_faa_DualVec_exp,
  C01_faa_Dual2Vec_exp,
  C01_faa_HyperDualVec_exp,
  C01_faa_Dual_exp2,
  C01_faa_Dual2_exp2,
  C01_faa_Dual3_exp2,
  C01_faa_HyperDual_exp2,
  C01_faa_HyperHyperDual_exp2,
  C01_faa_DualVec_exp2,
  C01_faa_Dual2Vec_exp2,
  C01_faa_HyperDualVec_exp2,
  C01_faa_Dual_exp_m1,
  C01_faa_Dual2_exp_m1,
  C01_faa_Dual3_exp_m1,
  C01_faa_HyperDual_exp_m1,
  C01_faa_HyperHyperDual_exp_m1,
  C01_faa_DualVec_exp_m1,
  C01_faa_Dual2Vec_exp_m1,
  C01_faa_HyperDualVec_exp_m1,
  C01_faa_Dual_ln,
  C01_faa_Dual2_ln,
  C01_faa_Dual3_ln,
  C01_faa_HyperDual_ln,
  C01_faa_HyperHyperDual_ln,
  C01_faa_DualVec_ln,
  C01_faa_Dual2Vec_ln,
  C01_faa_HyperDualVec_ln,
  C01_faa_Dual_log2,
  C01_faa_Dual2_log2,
  C01_faa_Dual3_log2,
  C01_faa_HyperDual_log2,
  C01_faa_HyperHyperDual_log2,
  C01_faa_DualVec_log2,
  C01_faa_Dual2Vec_log2,
  C01_faa_HyperDualVec_log2,
  C01_faa_Dual_log10,
  C01_faa_Dual2_log10,
  C01_faa_Dual3_log10,
  C01_faa_HyperDual_log10,
  C01_faa_HyperHyperDual_log10,
  C01_faa_DualVec_log10,
  C01_faa_Dual2Vec_log10,
  C01_faa_HyperDualVec_log10,
  C01_faa_Dual_ln_1p,
  C01_faa_Dual2_ln_1p,
  C01_faa_Dual3_ln_1p,
  C01_faa_HyperDual_ln_1p,
  C01_faa_HyperHyperDual_ln_1p,
  C01_faa_DualVec_ln_1p,
  C01_faa_Dual2Vec_ln_1p,
  C01_faa_HyperDualVec_ln_1p,
  C01_faa_Dual_sin,
  C01_faa_Dual2_sin,
  C01_faa_Dual3_sin,
  C01_faa_HyperDual_sin,
  C01_faa_HyperHyperDual_sin,
  C01_faa_DualVec_sin,
  C01_faa_Dual2Vec_sin,
  C01_faa_HyperDualVec_sin,
  C01_faa_Dual_cos,
  C01_faa_Dual2_cos,
  C01_faa_Dual3_cos,
  C01_faa_HyperDual_cos,
  C01_faa_HyperHyperDual_cos,
  C01_faa_DualVec_cos,
  C01_faa_Dual2Vec_cos,
  C01_faa_HyperDualVec_cos,
  C01_faa_Dual_tan,
  C01_faa_Dual2_tan,
  C01_faa_Dual3_tan,
  C01_faa_HyperDual_tan,
  C01_faa_HyperHyperDual_tan,
  C01_faa_DualVec_tan,
  C01_faa_Dual2Vec_tan,
  C01_faa_HyperDualVec_tan,
  C01_faa_Dual_asin,
  C01_faa_Dual2_asin,
  C01_faa_Dual3_asin,
  C01_faa_HyperDual_asin,
  C01_faa_HyperHyperDual_asin,
  C01_faa_DualVec_asin,
  C01_faa_Dual2Vec_asin,
  C01_faa_HyperDualVec_asin,
  C01_faa_Dual_acos,
  C01_faa_Dual2_acos,
  C01_faa_Dual3_acos,
  C01_faa_HyperDual_acos,
  C01_faa_HyperHyperDual_acos,
  C01_faa_DualVec_acos,
  C01_faa_Dual2Vec_acos,
  C01_faa_HyperDualVec_acos,
  C01_faa_Dual_atan,
  C01_faa_Dual2_atan,
  C01_faa_Dual3_atan,
  C01_faa_HyperDual_atan,
  C01_faa_HyperHyperDual_atan,
  C01_faa_DualVec_atan,
  C01_faa_Dual2Vec_atan,
  C01_faa_HyperDualVec_atan,
  C01_faa_Dual_sinh,
  C01_faa_Dual2_sinh,
  C01_faa_Dual3_sinh,
  C01_faa_HyperDual_sinh,
  C01_faa_HyperHyperDual_sinh,
  C01_faa_DualVec_sinh,
  C01_faa_Dual2Vec_sinh,
  C01_faa_HyperDualVec_sinh,
  C01_faa_Dual_cosh,
  C01_faa_Dual2_cosh,
  C01_faa_Dual3_cosh,
  C01_faa_HyperDual_cosh,
  C01_faa_HyperHyperDual_cosh,
  C01_faa_DualVec_cosh,
  C01_faa_Dual2Vec_cosh,
  C01_faa_HyperDualVec_cosh,
  C01_faa_Dual_tanh,
  C01_faa_Dual2_tanh,
  C01_faa_Dual3_tanh,
  C01_faa_HyperDual_tanh,
  C01_faa_HyperHyperDual_tanh,
  C01_faa_DualVec_tanh,
  C01_faa_Dual2Vec_tanh,
  C01_faa_HyperDualVec_tanh,
  C01_faa_Dual_asinh,
  C01_faa_Dual2_asinh,
  C01_faa_Dual3_asinh,
  C01_faa_HyperDual_asinh,
  C01_faa_HyperHyperDual_asinh,
  C01_faa_DualVec_asinh,
  C01_faa_Dual2Vec_asinh,
  C01_faa_HyperDualVec_asinh,
  C01_faa_Dual_acosh,
  C01_faa_Dual2_acosh,
  C01_faa_Dual3_acosh,
  C01_faa_HyperDual_acosh,
  C01_faa_HyperHyperDual_acosh,
  C01_faa_DualVec_acosh,
  C01_faa_Dual2Vec_acosh,
  C01_faa_HyperDualVec_acosh,
  C01_faa_Dual_atanh,
  C01_faa_Dual2_atanh,
  C01_faa_Dual3_atanh,
  C01_faa_HyperDual_atanh,
  C01_faa_HyperHyperDual_atanh,
  C01_faa_DualVec_atanh,
  C01_faa_Dual2Vec_atanh,
  C01_faa_HyperDualVec_atanh,
  C01_faa_Dual_log,
  C01_sin_cos_Dual,
  C01_abs_Dual,
  C01_signum_Dual,
  C01_faa_Dual2_log,
  C01_sin_cos_Dual2,
  C01_abs_Dual2,
  C01_signum_Dual2,
  C01_faa_Dual3_log,
  C01_sin_cos_Dual3,
  C01_abs_Dual3,
  C01_signum_Dual3,
  C01_faa_HyperDual_log,
  C01_sin_cos_HyperDual,
  C01_abs_HyperDual,
  C01_signum_HyperDual,
  C01_faa_HyperHyperDual_log,
  C01_sin_cos_HyperHyperDual,
  C01_abs_HyperHyperDual,
  C01_signum_HyperHyperDual,
  C01_faa_DualVec_log,
  C01_sin_cos_DualVec,
  C01_abs_DualVec,
  C01_signum_DualVec,
  C01_faa_Dual2Vec_log,
  C01_sin_cos_Dual2Vec,
  C01_abs_Dual2Vec,
  C01_signum_Dual2Vec,
  C01_faa_HyperDualVec_log,
  C01_sin_cos_HyperDualVec,
  C01_abs_HyperDualVec,
  C01_signum_HyperDualVec).
Print Assumptions C01_bundle.
