(* Props/C10.v -- property C10: smooth special points yield finite, correct derivatives (the part provable over the reals;
   finiteness on binary64 is decided by executing the generated model on primitive floats, see DESIGN.md). *)
From ND Require Import Tactics C01_towers C01_faa C09_proofs C10_proofs.
Local Open Scope R_scope.

Theorem C10_tower_powi_nonneg : forall (k : nat) x, (Z.of_nat (k + 3) <= 2147483647)%Z -> is_tower (fun t => t ^ (k + 3)) (tw3 (fun d => m_powi d (Z.of_nat (k + 3)))) x.
Proof. exact tower_powi_nonneg. Qed.
Theorem C10_atan2_Dual : forall (y x : Dual R), (Dual_f_re x <> 0 \/ Dual_f_re y <> 0) ->
  Dual_f_re (m_atan2 y x) = Ratan2 (Dual_f_re y) (Dual_f_re x) /\
  Dual_f_eps (m_atan2 y x) = atan2_grad (Dual_f_re y) (Dual_f_re x) (Dual_f_eps y) (Dual_f_eps x).
Proof. exact atan2_Dual. Qed.
Theorem C10_atan2_Dual2 : forall (y x : Dual2 R), (Dual2_f_re x <> 0 \/ Dual2_f_re y <> 0) ->
  Dual2_f_re (m_atan2 y x) = Ratan2 (Dual2_f_re y) (Dual2_f_re x) /\
  Dual2_f_v1 (m_atan2 y x) = atan2_grad (Dual2_f_re y) (Dual2_f_re x) (Dual2_f_v1 y) (Dual2_f_v1 x).
Proof. exact atan2_Dual2. Qed.
Theorem C10_atan2_Dual3 : forall (y x : Dual3 R), (Dual3_f_re x <> 0 \/ Dual3_f_re y <> 0) ->
  Dual3_f_re (m_atan2 y x) = Ratan2 (Dual3_f_re y) (Dual3_f_re x) /\
  Dual3_f_v1 (m_atan2 y x) = atan2_grad (Dual3_f_re y) (Dual3_f_re x) (Dual3_f_v1 y) (Dual3_f_v1 x).
Proof. exact atan2_Dual3. Qed.
Theorem C10_atan2_HyperDual : forall (y x : HyperDual R), (HyperDual_f_re x <> 0 \/ HyperDual_f_re y <> 0) ->
  HyperDual_f_re (m_atan2 y x) = Ratan2 (HyperDual_f_re y) (HyperDual_f_re x) /\
  HyperDual_f_eps1 (m_atan2 y x) = atan2_grad (HyperDual_f_re y) (HyperDual_f_re x) (HyperDual_f_eps1 y) (HyperDual_f_eps1 x) /\
  HyperDual_f_eps2 (m_atan2 y x) = atan2_grad (HyperDual_f_re y) (HyperDual_f_re x) (HyperDual_f_eps2 y) (HyperDual_f_eps2 x).
Proof. exact atan2_HyperDual. Qed.
Theorem C10_atan2_HyperHyperDual : forall (y x : HyperHyperDual R), (HyperHyperDual_f_re x <> 0 \/ HyperHyperDual_f_re y <> 0) ->
  HyperHyperDual_f_re (m_atan2 y x) = Ratan2 (HyperHyperDual_f_re y) (HyperHyperDual_f_re x) /\
  HyperHyperDual_f_eps1 (m_atan2 y x) = atan2_grad (HyperHyperDual_f_re y) (HyperHyperDual_f_re x) (HyperHyperDual_f_eps1 y) (HyperHyperDual_f_eps1 x) /\
  HyperHyperDual_f_eps2 (m_atan2 y x) = atan2_grad (HyperHyperDual_f_re y) (HyperHyperDual_f_re x) (HyperHyperDual_f_eps2 y) (HyperHyperDual_f_eps2 x) /\
  HyperHyperDual_f_eps3 (m_atan2 y x) = atan2_grad (HyperHyperDual_f_re y) (HyperHyperDual_f_re x) (HyperHyperDual_f_eps3 y) (HyperHyperDual_f_eps3 x).
Proof. exact atan2_HyperHyperDual. Qed.
Theorem C10_atan2_DualVec : forall i (y x : DualVec R), (DualVec_f_re x <> 0 \/ DualVec_f_re y <> 0) ->
  part_DualVec (m_atan2 y x) nil = Ratan2 (DualVec_f_re y) (DualVec_f_re x) /\
  part_DualVec (m_atan2 y x) (i :: nil) = atan2_grad (DualVec_f_re y) (DualVec_f_re x) (part_DualVec y (i :: nil)) (part_DualVec x (i :: nil)).
Proof. exact atan2_DualVec. Qed.
Theorem C10_atan2_Dual2Vec : forall i (y x : Dual2Vec R), (Dual2Vec_f_re x <> 0 \/ Dual2Vec_f_re y <> 0) ->
  part_Dual2Vec (m_atan2 y x) nil = Ratan2 (Dual2Vec_f_re y) (Dual2Vec_f_re x) /\
  part_Dual2Vec (m_atan2 y x) (i :: nil) = atan2_grad (Dual2Vec_f_re y) (Dual2Vec_f_re x) (part_Dual2Vec y (i :: nil)) (part_Dual2Vec x (i :: nil)).
Proof. exact atan2_Dual2Vec. Qed.
Theorem C10_atan2_HyperDualVec : forall i j (y x : HyperDualVec R), (HyperDualVec_f_re x <> 0 \/ HyperDualVec_f_re y <> 0) ->
  part_HyperDualVec (m_atan2 y x) nil = Ratan2 (HyperDualVec_f_re y) (HyperDualVec_f_re x) /\
  part_HyperDualVec (m_atan2 y x) (inl i :: nil) = atan2_grad (HyperDualVec_f_re y) (HyperDualVec_f_re x) (part_HyperDualVec y (inl i :: nil)) (part_HyperDualVec x (inl i :: nil)) /\
  part_HyperDualVec (m_atan2 y x) (inr j :: nil) = atan2_grad (HyperDualVec_f_re y) (HyperDualVec_f_re x) (part_HyperDualVec y (inr j :: nil)) (part_HyperDualVec x (inr j :: nil)).
Proof. exact atan2_HyperDualVec. Qed.
Theorem C10_sph_series_at_0 : (forall k, (k <= 3)%nat -> tw3 m_sph_j0 0 k = nth k [1; 0; - / 3; 0] 0) /\
  (forall k, (k <= 3)%nat -> tw3 m_sph_j1 0 k = nth k [0; / 3; 0; - / 5] 0) /\
  (forall k, (k <= 3)%nat -> tw3 m_sph_j2 0 k = nth k [0; 0; 2 / 15; 0] 0).
Proof. exact sph_series_at_0. Qed.
Theorem C10_tower_exp_m1_at_0 : is_tower g_exp_m1 (tw3 m_exp_m1) 0.
Proof. exact tower_exp_m1_at_0. Qed.
Theorem C10_tower_ln_1p_at_0 : is_tower g_ln_1p (tw3 m_ln_1p) 0.
Proof. exact tower_ln_1p_at_0. Qed.

(* non-vacuity: a point on the axis x = 0 satisfies the premise of the atan2 theorems *)
Example C10_axis_point : (0 <> 0 \/ 3 <> 0).
Proof. right; lra. Qed.

Definition C10_bundle := (C10_tower_powi_nonneg,
  C10_atan2_Dual,
  C10_atan2_Dual2,
  C10_atan2_Dual3,
  C10_atan2_HyperDual,
  C10_atan2_HyperHyperDual,
  C10_atan2_DualVec,
  C10_atan2_Dual2Vec,
  C10_atan2_HyperDualVec,
  C10_sph_series_at_0,
  C10_tower_exp_m1_at_0,
  C10_tower_ln_1p_at_0).
Print Assumptions C10_bundle.
