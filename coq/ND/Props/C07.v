(* Props/C07.v -- property C07: absent derivative parts behave exactly like all-zero derivative parts.
   veq x y : every part of x and y has the same numerical value (an absent part reads as zero), whatever representation
   each uses.  Written by tools/coqgen/gen_c07.py; only statements, `exact` proofs and the axiom report. *)
From ND Require Import Tactics C02_proofs C01_towers C01_faa C09_proofs C09_faa C07_proofs C07_inst.
Local Open Scope R_scope.

Theorem C07_cong_DualVec_add : forall a a' b b' : DualVec R, veq_DualVec a a' -> veq_DualVec b b' -> veq_DualVec (a + b)%rs (a' + b')%rs.
Proof. exact cong_DualVec_add. Qed.
Theorem C07_cong_DualVec_sub : forall a a' b b' : DualVec R, veq_DualVec a a' -> veq_DualVec b b' -> veq_DualVec (a - b)%rs (a' - b')%rs.
Proof. exact cong_DualVec_sub. Qed.
Theorem C07_cong_DualVec_neg : forall a a' : DualVec R, veq_DualVec a a' -> veq_DualVec (- a)%rs (- a')%rs.
Proof. exact cong_DualVec_neg. Qed.
Theorem C07_cong_DualVec_mul : forall a a' b b' : DualVec R, veq_DualVec a a' -> veq_DualVec b b' -> veq_DualVec (a * b)%rs (a' * b')%rs.
Proof. exact cong_DualVec_mul. Qed.
Theorem C07_cong_DualVec_div : forall a a' b b' : DualVec R, part_DualVec b nil <> 0 -> veq_DualVec a a' -> veq_DualVec b b' -> veq_DualVec (a / b)%rs (a' / b')%rs.
Proof. exact cong_DualVec_div. Qed.
Theorem C07_history_DualVec : forall (ops : list aop) (ys ys' : list (DualVec R)) (acc acc' : DualVec R), length ys = length ops -> length ys' = length ops -> (fun _ : DualVec R => True) acc -> (fun _ : DualVec R => True) acc' -> veq_DualVec acc acc' -> List.Forall2 veq_DualVec ys ys' -> List.Forall (@ok_step _ _ part_DualVec (fun _ : DualVec R => True)) (combine ops ys) -> List.Forall (@ok_step _ _ part_DualVec (fun _ : DualVec R => True)) (combine ops ys') -> veq_DualVec (fold_left (@step _ (fun a b : DualVec R => (a + b)%rs) (fun a b => (a - b)%rs) (fun a b => (a * b)%rs) (fun a b => (a / b)%rs)) (combine ops ys) acc) (fold_left (@step _ (fun a b : DualVec R => (a + b)%rs) (fun a b => (a - b)%rs) (fun a b => (a * b)%rs) (fun a b => (a / b)%rs)) (combine ops ys') acc').
Proof. exact history_DualVec. Qed.
Theorem C07_cong_DualVec_recip : forall x x' : DualVec R, (fun r : R => r <> 0) (DualVec_f_re x) -> veq_DualVec x x' -> veq_DualVec (m_recip x) (m_recip x').
Proof. exact cong_DualVec_recip. Qed.
Theorem C07_cong_DualVec_sqrt : forall x x' : DualVec R, (fun r : R => 0 < r) (DualVec_f_re x) -> veq_DualVec x x' -> veq_DualVec (m_sqrt x) (m_sqrt x').
Proof. exact cong_DualVec_sqrt. Qed.
Theorem C07_cong_DualVec_cbrt : forall x x' : DualVec R, (fun r : R => r <> 0) (DualVec_f_re x) -> veq_DualVec x x' -> veq_DualVec (m_cbrt x) (m_cbrt x').
Proof. exact cong_DualVec_cbrt. Qed.
Theorem C07_cong_DualVec_exp : forall x x' : DualVec R, (fun r : R => True) (DualVec_f_re x) -> veq_DualVec x x' -> veq_DualVec (m_exp x) (m_exp x').
Proof. exact cong_DualVec_exp. Qed.
Theorem C07_cong_DualVec_exp2 : forall x x' : DualVec R, (fun r : R => True) (DualVec_f_re x) -> veq_DualVec x x' -> veq_DualVec (m_exp2 x) (m_exp2 x').
Proof. exact cong_DualVec_exp2. Qed.
Theorem C07_cong_DualVec_exp_m1 : forall x x' : DualVec R, (fun r : R => True) (DualVec_f_re x) -> veq_DualVec x x' -> veq_DualVec (m_exp_m1 x) (m_exp_m1 x').
Proof. exact cong_DualVec_exp_m1. Qed.
Theorem C07_cong_DualVec_ln : forall x x' : DualVec R, (fun r : R => 0 < r) (DualVec_f_re x) -> veq_DualVec x x' -> veq_DualVec (m_ln x) (m_ln x').
Proof. exact cong_DualVec_ln. Qed.
Theorem C07_cong_DualVec_log2 : forall x x' : DualVec R, (fun r : R => 0 < r) (DualVec_f_re x) -> veq_DualVec x x' -> veq_DualVec (m_log2 x) (m_log2 x').
Proof. exact cong_DualVec_log2. Qed.
Theorem C07_cong_DualVec_log10 : forall x x' : DualVec R, (fun r : R => 0 < r) (DualVec_f_re x) -> veq_DualVec x x' -> veq_DualVec (m_log10 x) (m_log10 x').
Proof. exact cong_DualVec_log10. Qed.
Theorem C07_cong_DualVec_ln_1p : forall x x' : DualVec R, (fun r : R => -1 < r) (DualVec_f_re x) -> veq_DualVec x x' -> veq_DualVec (m_ln_1p x) (m_ln_1p x').
Proof. exact cong_DualVec_ln_1p. Qed.
Theorem C07_cong_DualVec_sin : forall x x' : DualVec R, (fun r : R => True) (DualVec_f_re x) -> veq_DualVec x x' -> veq_DualVec (m_sin x) (m_sin x').
Proof. exact cong_DualVec_sin. Qed.
Theorem C07_cong_DualVec_cos : forall x x' : DualVec R, (fun r : R => True) (DualVec_f_re x) -> veq_DualVec x x' -> veq_DualVec (m_cos x) (m_cos x').
Proof. exact cong_DualVec_cos. Qed.
Theorem C07_cong_DualVec_tan : forall x x' : DualVec R, (fun r : R => cos r <> 0) (DualVec_f_re x) -> veq_DualVec x x' -> veq_DualVec (m_tan x) (m_tan x').
Proof. exact cong_DualVec_tan. Qed.
Theorem C07_cong_DualVec_asin : forall x x' : DualVec R, (fun r : R => -1 < r < 1) (DualVec_f_re x) -> veq_DualVec x x' -> veq_DualVec (m_asin x) (m_asin x').
Proof. exact cong_DualVec_asin. Qed.
Theorem C07_cong_DualVec_acos : forall x x' : DualVec R, (fun r : R => -1 < r < 1) (DualVec_f_re x) -> veq_DualVec x x' -> veq_DualVec (m_acos x) (m_acos x').
Proof. exact cong_DualVec_acos. Qed.
Theorem C07_cong_DualVec_atan : forall x x' : DualVec R, (fun r : R => True) (DualVec_f_re x) -> veq_DualVec x x' -> veq_DualVec (m_atan x) (m_atan x').
Proof. exact cong_DualVec_atan. Qed.
Theorem C07_cong_DualVec_sinh : forall x x' : DualVec R, (fun r : R => True) (DualVec_f_re x) -> veq_DualVec x x' -> veq_DualVec (m_sinh x) (m_sinh x').
Proof. exact cong_DualVec_sinh. Qed.
Theorem C07_cong_DualVec_cosh : forall x x' : DualVec R, (fun r : R => True) (DualVec_f_re x) -> veq_DualVec x x' -> veq_DualVec (m_cosh x) (m_cosh x').
Proof. exact cong_DualVec_cosh. Qed.
Theorem C07_cong_DualVec_tanh : forall x x' : DualVec R, (fun r : R => True) (DualVec_f_re x) -> veq_DualVec x x' -> veq_DualVec (m_tanh x) (m_tanh x').
Proof. exact cong_DualVec_tanh. Qed.
Theorem C07_cong_DualVec_asinh : forall x x' : DualVec R, (fun r : R => True) (DualVec_f_re x) -> veq_DualVec x x' -> veq_DualVec (m_asinh x) (m_asinh x').
Proof. exact cong_DualVec_asinh. Qed.
Theorem C07_cong_DualVec_acosh : forall x x' : DualVec R, (fun r : R => 1 < r) (DualVec_f_re x) -> veq_DualVec x x' -> veq_DualVec (m_acosh x) (m_acosh x').
Proof. exact cong_DualVec_acosh. Qed.
Theorem C07_cong_DualVec_atanh : forall x x' : DualVec R, (fun r : R => -1 < r < 1) (DualVec_f_re x) -> veq_DualVec x x' -> veq_DualVec (m_atanh x) (m_atanh x').
Proof. exact cong_DualVec_atanh. Qed.
Theorem C07_cong_DualVec_powi : forall (n : Z) (x x' : DualVec R), veq_DualVec x x' -> veq_DualVec (m_powi x n) (m_powi x' n).
Proof. exact cong_DualVec_powi. Qed.
Theorem C07_cong_DualVec_powf : forall (n : R) (x x' : DualVec R), veq_DualVec x x' -> veq_DualVec (m_powf x n) (m_powf x' n).
Proof. exact cong_DualVec_powf. Qed.
Theorem C07_cong_Dual2Vec_add : forall a a' b b' : Dual2Vec R, veq_Dual2Vec a a' -> veq_Dual2Vec b b' -> veq_Dual2Vec (a + b)%rs (a' + b')%rs.
Proof. exact cong_Dual2Vec_add. Qed.
Theorem C07_cong_Dual2Vec_sub : forall a a' b b' : Dual2Vec R, veq_Dual2Vec a a' -> veq_Dual2Vec b b' -> veq_Dual2Vec (a - b)%rs (a' - b')%rs.
Proof. exact cong_Dual2Vec_sub. Qed.
Theorem C07_cong_Dual2Vec_neg : forall a a' : Dual2Vec R, veq_Dual2Vec a a' -> veq_Dual2Vec (- a)%rs (- a')%rs.
Proof. exact cong_Dual2Vec_neg. Qed.
Theorem C07_cong_Dual2Vec_mul : forall a a' b b' : Dual2Vec R, wf_Dual2Vec a -> wf_Dual2Vec a' -> wf_Dual2Vec b -> wf_Dual2Vec b' -> veq_Dual2Vec a a' -> veq_Dual2Vec b b' -> veq_Dual2Vec (a * b)%rs (a' * b')%rs.
Proof. exact cong_Dual2Vec_mul. Qed.
Theorem C07_cong_Dual2Vec_div : forall a a' b b' : Dual2Vec R, wf_Dual2Vec a -> wf_Dual2Vec a' -> wf_Dual2Vec b -> wf_Dual2Vec b' -> part_Dual2Vec b nil <> 0 -> veq_Dual2Vec a a' -> veq_Dual2Vec b b' -> veq_Dual2Vec (a / b)%rs (a' / b')%rs.
Proof. exact cong_Dual2Vec_div. Qed.
Theorem C07_history_Dual2Vec : forall (ops : list aop) (ys ys' : list (Dual2Vec R)) (acc acc' : Dual2Vec R), length ys = length ops -> length ys' = length ops -> wf_Dual2Vec acc -> wf_Dual2Vec acc' -> veq_Dual2Vec acc acc' -> List.Forall2 veq_Dual2Vec ys ys' -> List.Forall (@ok_step _ _ part_Dual2Vec wf_Dual2Vec) (combine ops ys) -> List.Forall (@ok_step _ _ part_Dual2Vec wf_Dual2Vec) (combine ops ys') -> veq_Dual2Vec (fold_left (@step _ (fun a b : Dual2Vec R => (a + b)%rs) (fun a b => (a - b)%rs) (fun a b => (a * b)%rs) (fun a b => (a / b)%rs)) (combine ops ys) acc) (fold_left (@step _ (fun a b : Dual2Vec R => (a + b)%rs) (fun a b => (a - b)%rs) (fun a b => (a * b)%rs) (fun a b => (a / b)%rs)) (combine ops ys') acc').
Proof. exact history_Dual2Vec. Qed.
Theorem C07_cong_Dual2Vec_recip : forall x x' : Dual2Vec R, wf_Dual2Vec x -> wf_Dual2Vec x' -> (fun r : R => r <> 0) (Dual2Vec_f_re x) -> veq_Dual2Vec x x' -> veq_Dual2Vec (m_recip x) (m_recip x').
Proof. exact cong_Dual2Vec_recip. Qed.
Theorem C07_cong_Dual2Vec_sqrt : forall x x' : Dual2Vec R, wf_Dual2Vec x -> wf_Dual2Vec x' -> (fun r : R => 0 < r) (Dual2Vec_f_re x) -> veq_Dual2Vec x x' -> veq_Dual2Vec (m_sqrt x) (m_sqrt x').
Proof. exact cong_Dual2Vec_sqrt. Qed.
Theorem C07_cong_Dual2Vec_cbrt : forall x x' : Dual2Vec R, wf_Dual2Vec x -> wf_Dual2Vec x' -> (fun r : R => r <> 0) (Dual2Vec_f_re x) -> veq_Dual2Vec x x' -> veq_Dual2Vec (m_cbrt x) (m_cbrt x').
Proof. exact cong_Dual2Vec_cbrt. Qed.
Theorem C07_cong_Dual2Vec_exp : forall x x' : Dual2Vec R, wf_Dual2Vec x -> wf_Dual2Vec x' -> (fun r : R => True) (Dual2Vec_f_re x) -> veq_Dual2Vec x x' -> veq_Dual2Vec (m_exp x) (m_exp x').
Proof. exact cong_Dual2Vec_exp. Qed.
Theorem C07_cong_Dual2Vec_exp2 : forall x x' : Dual2Vec R, wf_Dual2Vec x -> wf_Dual2Vec x' -> (fun r : R => True) (Dual2Vec_f_re x) -> veq_Dual2Vec x x' -> veq_Dual2Vec (m_exp2 x) (m_exp2 x').
Proof. exact cong_Dual2Vec_exp2. Qed.
Theorem C07_cong_Dual2Vec_exp_m1 : forall x x' : Dual2Vec R, wf_Dual2Vec x -> wf_Dual2Vec x' -> (fun r : R => True) (Dual2Vec_f_re x) -> veq_Dual2Vec x x' -> veq_Dual2Vec (m_exp_m1 x) (m_exp_m1 x').
Proof. exact cong_Dual2Vec_exp_m1. Qed.
Theorem C07_cong_Dual2Vec_ln : forall x x' : Dual2Vec R, wf_Dual2Vec x -> wf_Dual2Vec x' -> (fun r : R => 0 < r) (Dual2Vec_f_re x) -> veq_Dual2Vec x x' -> veq_Dual2Vec (m_ln x) (m_ln x').
Proof. exact cong_Dual2Vec_ln. Qed.
Theorem C07_cong_Dual2Vec_log2 : forall x x' : Dual2Vec R, wf_Dual2Vec x -> wf_Dual2Vec x' -> (fun r : R => 0 < r) (Dual2Vec_f_re x) -> veq_Dual2Vec x x' -> veq_Dual2Vec (m_log2 x) (m_log2 x').
Proof. exact cong_Dual2Vec_log2. Qed.
Theorem C07_cong_Dual2Vec_log10 : forall x x' : Dual2Vec R, wf_Dual2Vec x -> wf_Dual2Vec x' -> (fun r : R => 0 < r) (Dual2Vec_f_re x) -> veq_Dual2Vec x x' -> veq_Dual2Vec (m_log10 x) (m_log10 x').
Proof. exact cong_Dual2Vec_log10. Qed.
Theorem C07_cong_Dual2Vec_ln_1p : forall x x' : Dual2Vec R, wf_Dual2Vec x -> wf_Dual2Vec x' -> (fun r : R => -1 < r) (Dual2Vec_f_re x) -> veq_Dual2Vec x x' -> veq_Dual2Vec (m_ln_1p x) (m_ln_1p x').
Proof. exact cong_Dual2Vec_ln_1p. Qed.
Theorem C07_cong_Dual2Vec_sin : forall x x' : Dual2Vec R, wf_Dual2Vec x -> wf_Dual2Vec x' -> (fun r : R => True) (Dual2Vec_f_re x) -> veq_Dual2Vec x x' -> veq_Dual2Vec (m_sin x) (m_sin x').
Proof. exact cong_Dual2Vec_sin. Qed.
Theorem C07_cong_Dual2Vec_cos : forall x x' : Dual2Vec R, wf_Dual2Vec x -> wf_Dual2Vec x' -> (fun r : R => True) (Dual2Vec_f_re x) -> veq_Dual2Vec x x' -> veq_Dual2Vec (m_cos x) (m_cos x').
Proof. exact cong_Dual2Vec_cos. Qed.
Theorem C07_cong_Dual2Vec_tan : forall x x' : Dual2Vec R, wf_Dual2Vec x -> wf_Dual2Vec x' -> (fun r : R => cos r <> 0) (Dual2Vec_f_re x) -> veq_Dual2Vec x x' -> veq_Dual2Vec (m_tan x) (m_tan x').
Proof. exact cong_Dual2Vec_tan. Qed.
Theorem C07_cong_Dual2Vec_asin : forall x x' : Dual2Vec R, wf_Dual2Vec x -> wf_Dual2Vec x' -> (fun r : R => -1 < r < 1) (Dual2Vec_f_re x) -> veq_Dual2Vec x x' -> veq_Dual2Vec (m_asin x) (m_asin x').
Proof. exact cong_Dual2Vec_asin. Qed.
Theorem C07_cong_Dual2Vec_acos : forall x x' : Dual2Vec R, wf_Dual2Vec x -> wf_Dual2Vec x' -> (fun r : R => -1 < r < 1) (Dual2Vec_f_re x) -> veq_Dual2Vec x x' -> veq_Dual2Vec (m_acos x) (m_acos x').
Proof. exact cong_Dual2Vec_acos. Qed.
Theorem C07_cong_Dual2Vec_atan : forall x x' : Dual2Vec R, wf_Dual2Vec x -> wf_Dual2Vec x' -> (fun r : R => True) (Dual2Vec_f_re x) -> veq_Dual2Vec x x' -> veq_Dual2Vec (m_atan x) (m_atan x').
Proof. exact cong_Dual2Vec_atan. Qed.
Theorem C07_cong_Dual2Vec_sinh : forall x x' : Dual2Vec R, wf_Dual2Vec x -> wf_Dual2Vec x' -> (fun r : R => True) (Dual2Vec_f_re x) -> veq_Dual2Vec x x' -> veq_Dual2Vec (m_sinh x) (m_sinh x').
Proof. exact cong_Dual2Vec_sinh. Qed.
Theorem C07_cong_Dual2Vec_cosh : forall x x' : Dual2Vec R, wf_Dual2Vec x -> wf_Dual2Vec x' -> (fun r : R => True) (Dual2Vec_f_re x) -> veq_Dual2Vec x x' -> veq_Dual2Vec (m_cosh x) (m_cosh x').
Proof. exact cong_Dual2Vec_cosh. Qed.
Theorem C07_cong_Dual2Vec_tanh : forall x x' : Dual2Vec R, wf_Dual2Vec x -> wf_Dual2Vec x' -> (fun r : R => True) (Dual2Vec_f_re x) -> veq_Dual2Vec x x' -> veq_Dual2Vec (m_tanh x) (m_tanh x').
Proof. exact cong_Dual2Vec_tanh. Qed.
Theorem C07_cong_Dual2Vec_asinh : forall x x' : Dual2Vec R, wf_Dual2Vec x -> wf_Dual2Vec x' -> (fun r : R => True) (Dual2Vec_f_re x) -> veq_Dual2Vec x x' -> veq_Dual2Vec (m_asinh x) (m_asinh x').
Proof. exact cong_Dual2Vec_asinh. Qed.
Theorem C07_cong_Dual2Vec_acosh : forall x x' : Dual2Vec R, wf_Dual2Vec x -> wf_Dual2Vec x' -> (fun r : R => 1 < r) (Dual2Vec_f_re x) -> veq_Dual2Vec x x' -> veq_Dual2Vec (m_acosh x) (m_acosh x').
Proof. exact cong_Dual2Vec_acosh. Qed.
Theorem C07_cong_Dual2Vec_atanh : forall x x' : Dual2Vec R, wf_Dual2Vec x -> wf_Dual2Vec x' -> (fun r : R => -1 < r < 1) (Dual2Vec_f_re x) -> veq_Dual2Vec x x' -> veq_Dual2Vec (m_atanh x) (m_atanh x').
Proof. exact cong_Dual2Vec_atanh. Qed.
Theorem C07_cong_Dual2Vec_powi : forall (n : Z) (x x' : Dual2Vec R), wf_Dual2Vec x -> wf_Dual2Vec x' -> veq_Dual2Vec x x' -> veq_Dual2Vec (m_powi x n) (m_powi x' n).
Proof. exact cong_Dual2Vec_powi. Qed.
Theorem C07_cong_Dual2Vec_powf : forall (n : R) (x x' : Dual2Vec R), wf_Dual2Vec x -> wf_Dual2Vec x' -> veq_Dual2Vec x x' -> veq_Dual2Vec (m_powf x n) (m_powf x' n).
Proof. exact cong_Dual2Vec_powf. Qed.
Theorem C07_cong_HyperDualVec_add : forall a a' b b' : HyperDualVec R, veq_HyperDualVec a a' -> veq_HyperDualVec b b' -> veq_HyperDualVec (a + b)%rs (a' + b')%rs.
Proof. exact cong_HyperDualVec_add. Qed.
Theorem C07_cong_HyperDualVec_sub : forall a a' b b' : HyperDualVec R, veq_HyperDualVec a a' -> veq_HyperDualVec b b' -> veq_HyperDualVec (a - b)%rs (a' - b')%rs.
Proof. exact cong_HyperDualVec_sub. Qed.
Theorem C07_cong_HyperDualVec_neg : forall a a' : HyperDualVec R, veq_HyperDualVec a a' -> veq_HyperDualVec (- a)%rs (- a')%rs.
Proof. exact cong_HyperDualVec_neg. Qed.
Theorem C07_cong_HyperDualVec_mul : forall a a' b b' : HyperDualVec R, wf_HyperDualVec a -> wf_HyperDualVec a' -> wf_HyperDualVec b -> wf_HyperDualVec b' -> veq_HyperDualVec a a' -> veq_HyperDualVec b b' -> veq_HyperDualVec (a * b)%rs (a' * b')%rs.
Proof. exact cong_HyperDualVec_mul. Qed.
Theorem C07_cong_HyperDualVec_div : forall a a' b b' : HyperDualVec R, wf_HyperDualVec a -> wf_HyperDualVec a' -> wf_HyperDualVec b -> wf_HyperDualVec b' -> part_HyperDualVec b nil <> 0 -> veq_HyperDualVec a a' -> veq_HyperDualVec b b' -> veq_HyperDualVec (a / b)%rs (a' / b')%rs.
Proof. exact cong_HyperDualVec_div. Qed.
Theorem C07_history_HyperDualVec : forall (ops : list aop) (ys ys' : list (HyperDualVec R)) (acc acc' : HyperDualVec R), length ys = length ops -> length ys' = length ops -> wf_HyperDualVec acc -> wf_HyperDualVec acc' -> veq_HyperDualVec acc acc' -> List.Forall2 veq_HyperDualVec ys ys' -> List.Forall (@ok_step _ _ part_HyperDualVec wf_HyperDualVec) (combine ops ys) -> List.Forall (@ok_step _ _ part_HyperDualVec wf_HyperDualVec) (combine ops ys') -> veq_HyperDualVec (fold_left (@step _ (fun a b : HyperDualVec R => (a + b)%rs) (fun a b => (a - b)%rs) (fun a b => (a * b)%rs) (fun a b => (a / b)%rs)) (combine ops ys) acc) (fold_left (@step _ (fun a b : HyperDualVec R => (a + b)%rs) (fun a b => (a - b)%rs) (fun a b => (a * b)%rs) (fun a b => (a / b)%rs)) (combine ops ys') acc').
Proof. exact history_HyperDualVec. Qed.
Theorem C07_cong_HyperDualVec_recip : forall x x' : HyperDualVec R, wf_HyperDualVec x -> wf_HyperDualVec x' -> (fun r : R => r <> 0) (HyperDualVec_f_re x) -> veq_HyperDualVec x x' -> veq_HyperDualVec (m_recip x) (m_recip x').
Proof. exact cong_HyperDualVec_recip. Qed.
Theorem C07_cong_HyperDualVec_sqrt : forall x x' : HyperDualVec R, wf_HyperDualVec x -> wf_HyperDualVec x' -> (fun r : R => 0 < r) (HyperDualVec_f_re x) -> veq_HyperDualVec x x' -> veq_HyperDualVec (m_sqrt x) (m_sqrt x').
Proof. exact cong_HyperDualVec_sqrt. Qed.
Theorem C07_cong_HyperDualVec_cbrt : forall x x' : HyperDualVec R, wf_HyperDualVec x -> wf_HyperDualVec x' -> (fun r : R => r <> 0) (HyperDualVec_f_re x) -> veq_HyperDualVec x x' -> veq_HyperDualVec (m_cbrt x) (m_cbrt x').
Proof. exact cong_HyperDualVec_cbrt. Qed.
Theorem C07_cong_HyperDualVec_exp : forall x x' : HyperDualVec R, wf_HyperDualVec x -> wf_HyperDualVec x' -> (fun r : R => True) (HyperDualVec_f_re x) -> veq_HyperDualVec x x' -> veq_HyperDualVec (m_exp x) (m_exp x').
Proof. exact cong_HyperDualVec_exp. Qed.
Theorem C07_cong_HyperDualVec_exp2 : forall x x' : HyperDualVec R, wf_HyperDualVec x -> wf_HyperDualVec x' -> (fun r : R => True) (HyperDualVec_f_re x) -> veq_HyperDualVec x x' -> veq_HyperDualVec (m_exp2 x) (m_exp2 x').
Proof. exact cong_HyperDualVec_exp2. Qed.
Theorem C07_cong_HyperDualVec_exp_m1 : forall x x' : HyperDualVec R, wf_HyperDualVec x -> wf_HyperDualVec x' -> (fun r : R => True) (HyperDualVec_f_re x) -> veq_HyperDualVec x x' -> veq_HyperDualVec (m_exp_m1 x) (m_exp_m1 x').
Proof. exact cong_HyperDualVec_exp_m1. Qed.
Theorem C07_cong_HyperDualVec_ln : forall x x' : HyperDualVec R, wf_HyperDualVec x -> wf_HyperDualVec x' -> (fun r : R => 0 < r) (HyperDualVec_f_re x) -> veq_HyperDualVec x x' -> veq_HyperDualVec (m_ln x) (m_ln x').
Proof. exact cong_HyperDualVec_ln. Qed.
Theorem C07_cong_HyperDualVec_log2 : forall x x' : HyperDualVec R, wf_HyperDualVec x -> wf_HyperDualVec x' -> (fun r : R => 0 < r) (HyperDualVec_f_re x) -> veq_HyperDualVec x x' -> veq_HyperDualVec (m_log2 x) (m_log2 x').
Proof. exact cong_HyperDualVec_log2. Qed.
Theorem C07_cong_HyperDualVec_log10 : forall x x' : HyperDualVec R, wf_HyperDualVec x -> wf_HyperDualVec x' -> (fun r : R => 0 < r) (HyperDualVec_f_re x) -> veq_HyperDualVec x x' -> veq_HyperDualVec (m_log10 x) (m_log10 x').
Proof. exact cong_HyperDualVec_log10. Qed.
Theorem C07_cong_HyperDualVec_ln_1p : forall x x' : HyperDualVec R, wf_HyperDualVec x -> wf_HyperDualVec x' -> (fun r : R => -1 < r) (HyperDualVec_f_re x) -> veq_HyperDualVec x x' -> veq_HyperDualVec (m_ln_1p x) (m_ln_1p x').
Proof. exact cong_HyperDualVec_ln_1p. Qed.
Theorem C07_cong_HyperDualVec_sin : forall x x' : HyperDualVec R, wf_HyperDualVec x -> wf_HyperDualVec x' -> (fun r : R => True) (HyperDualVec_f_re x) -> veq_HyperDualVec x x' -> veq_HyperDualVec (m_sin x) (m_sin x').
Proof. exact cong_HyperDualVec_sin. Qed.
Theorem C07_cong_HyperDualVec_cos : forall x x' : HyperDualVec R, wf_HyperDualVec x -> wf_HyperDualVec x' -> (fun r : R => True) (HyperDualVec_f_re x) -> veq_HyperDualVec x x' -> veq_HyperDualVec (m_cos x) (m_cos x').
Proof. exact cong_HyperDualVec_cos. Qed.
Theorem C07_cong_HyperDualVec_tan : forall x x' : HyperDualVec R, wf_HyperDualVec x -> wf_HyperDualVec x' -> (fun r : R => cos r <> 0) (HyperDualVec_f_re x) -> veq_HyperDualVec x x' -> veq_HyperDualVec (m_tan x) (m_tan x').
Proof. exact cong_HyperDualVec_tan. Qed.
Theorem C07_cong_HyperDualVec_asin : forall x x' : HyperDualVec R, wf_HyperDualVec x -> wf_HyperDualVec x' -> (fun r : R => -1 < r < 1) (HyperDualVec_f_re x) -> veq_HyperDualVec x x' -> veq_HyperDualVec (m_asin x) (m_asin x').
Proof. exact cong_HyperDualVec_asin. Qed.
Theorem C07_cong_HyperDualVec_acos : forall x x' : HyperDualVec R, wf_HyperDualVec x -> wf_HyperDualVec x' -> (fun r : R => -1 < r < 1) (HyperDualVec_f_re x) -> veq_HyperDualVec x x' -> veq_HyperDualVec (m_acos x) (m_acos x').
Proof. exact cong_HyperDualVec_acos. Qed.
Theorem C07_cong_HyperDualVec_atan : forall x x' : HyperDualVec R, wf_HyperDualVec x -> wf_HyperDualVec x' -> (fun r : R => True) (HyperDualVec_f_re x) -> veq_HyperDualVec x x' -> veq_HyperDualVec (m_atan x) (m_atan x').
Proof. exact cong_HyperDualVec_atan. Qed.
Theorem C07_cong_HyperDualVec_sinh : forall x x' : HyperDualVec R, wf_HyperDualVec x -> wf_HyperDualVec x' -> (fun r : R => True) (HyperDualVec_f_re x) -> veq_HyperDualVec x x' -> veq_HyperDualVec (m_sinh x) (m_sinh x').
Proof. exact cong_HyperDualVec_sinh. Qed.
Theorem C07_cong_HyperDualVec_cosh : forall x x' : HyperDualVec R, wf_HyperDualVec x -> wf_HyperDualVec x' -> (fun r : R => True) (HyperDualVec_f_re x) -> veq_HyperDualVec x x' -> veq_HyperDualVec (m_cosh x) (m_cosh x').
Proof. exact cong_HyperDualVec_cosh. Qed.
Theorem C07_cong_HyperDualVec_tanh : forall x x' : HyperDualVec R, wf_HyperDualVec x -> wf_HyperDualVec x' -> (fun r : R => True) (HyperDualVec_f_re x) -> veq_HyperDualVec x x' -> veq_HyperDualVec (m_tanh x) (m_tanh x').
Proof. exact cong_HyperDualVec_tanh. Qed.
Theorem C07_cong_HyperDualVec_asinh : forall x x' : HyperDualVec R, wf_HyperDualVec x -> wf_HyperDualVec x' -> (fun r : R => True) (HyperDualVec_f_re x) -> veq_HyperDualVec x x' -> veq_HyperDualVec (m_asinh x) (m_asinh x').
Proof. exact cong_HyperDualVec_asinh. Qed.
Theorem C07_cong_HyperDualVec_acosh : forall x x' : HyperDualVec R, wf_HyperDualVec x -> wf_HyperDualVec x' -> (fun r : R => 1 < r) (HyperDualVec_f_re x) -> veq_HyperDualVec x x' -> veq_HyperDualVec (m_acosh x) (m_acosh x').
Proof. exact cong_HyperDualVec_acosh. Qed.
Theorem C07_cong_HyperDualVec_atanh : forall x x' : HyperDualVec R, wf_HyperDualVec x -> wf_HyperDualVec x' -> (fun r : R => -1 < r < 1) (HyperDualVec_f_re x) -> veq_HyperDualVec x x' -> veq_HyperDualVec (m_atanh x) (m_atanh x').
Proof. exact cong_HyperDualVec_atanh. Qed.
Theorem C07_cong_HyperDualVec_powi : forall (n : Z) (x x' : HyperDualVec R), wf_HyperDualVec x -> wf_HyperDualVec x' -> veq_HyperDualVec x x' -> veq_HyperDualVec (m_powi x n) (m_powi x' n).
Proof. exact cong_HyperDualVec_powi. Qed.
Theorem C07_cong_HyperDualVec_powf : forall (n : R) (x x' : HyperDualVec R), wf_HyperDualVec x -> wf_HyperDualVec x' -> veq_HyperDualVec x x' -> veq_HyperDualVec (m_powf x n) (m_powf x' n).
Proof. exact cong_HyperDualVec_powf. Qed.

(* non-vacuity: an absent gradient and an explicit zero gradient are numerically the same and both well formed *)
Example C07_absent_is_zero :
  veq_Dual2Vec (mkDual2Vec 2 (mkDerivative None) (mkDerivative None))
               (mkDual2Vec 2 (mkDerivative (Some (mkMat 1 3 (fun _ _ => 0)))) (mkDerivative None)) /\
  wf_Dual2Vec (mkDual2Vec 2 (mkDerivative (Some (mkMat 1 3 (fun _ _ => 0)))) (mkDerivative None)).
Proof. split; [intros [|i [|j [|k l]]]; reflexivity | reflexivity]. Qed.

Definition C07_bundle := (C07_cong_DualVec_add,
  C07_cong_DualVec_sub,
  C07_cong_DualVec_neg,
  C07_cong_DualVec_mul,
  C07_cong_DualVec_div,
  C07_history_DualVec,
  C07_cong_DualVec_recip,
  C07_cong_DualVec_sqrt,
  C07_cong_DualVec_cbrt,
  C07_cong_DualVec_exp,
  C07_cong_DualVec_exp2,
  C07_cong_DualVec_exp_m1,
  C07_cong_DualVec_ln,
  C07_cong_DualVec_log2,
  C07_cong_DualVec_log10,
  C07_cong_DualVec_ln_1p,
  C07_cong_DualVec_sin,
  C07_cong_DualVec_cos,
  C07_cong_DualVec_tan,
  C07_cong_DualVec_asin,
  C07_cong_DualVec_acos,
  C07_cong_DualVec_atan,
  C07_cong_DualVec_sinh,
  C07_cong_DualVec_cosh,
  C07_cong_DualVec_tanh,
  C07_cong_DualVec_asinh,
  C07_cong_DualVec_acosh,
  C07_cong_DualVec_atanh,
  C07_cong_DualVec_powi,
  C07_cong_DualVec_powf,
  C07_cong_Dual2Vec_add,
  C07_cong_Dual2Vec_sub,
  C07_cong_Dual2Vec_neg,
  C07_cong_Dual2Vec_mul,
  C07_cong_Dual2Vec_div,
  C07_history_Dual2Vec,
  C07_cong_Dual2Vec_recip,
  C07_cong_Dual2Vec_sqrt,
  C07_cong_Dual2Vec_cbrt,
  C07_cong_Dual2Vec_exp,
  C07_cong_Dual2Vec_exp2,
  C07_cong_Dual2Vec_exp_m1,
  C07_cong_Dual2Vec_ln,
  C07_cong_Dual2Vec_log2,
  C07_cong_Dual2Vec_log10,
  C07_cong_Dual2Vec_ln_1p,
  C07_cong_Dual2Vec_sin,
  C07_cong_Dual2Vec_cos,
  C07_cong_Dual2Vec_tan,
  C07_cong_Dual2Vec_asin,
  C07_cong_Dual2Vec_acos,
  C07_cong_Dual2Vec_atan,
  C07_cong_Dual2Vec_sinh,
  C07_cong_Dual2Vec_cosh,
  C07_cong_Dual2Vec_tanh,
  C07_cong_Dual2Vec_asinh,
  C07_cong_Dual2Vec_acosh,
  C07_cong_Dual2Vec_atanh,
  C07_cong_Dual2Vec_powi,
  C07_cong_Dual2Vec_powf,
  C07_cong_HyperDualVec_add,
  C07_cong_HyperDualVec_sub,
  C07_cong_HyperDualVec_neg,
  C07_cong_HyperDualVec_mul,
  C07_cong_HyperDualVec_div,
  C07_history_HyperDualVec,
  C07_cong_HyperDualVec_recip,
  C07_cong_HyperDualVec_sqrt,
  C07_cong_HyperDualVec_cbrt,
  C07_cong_HyperDualVec_exp,
  C07_cong_HyperDualVec_exp2,
  C07_cong_HyperDualVec_exp_m1,
  C07_cong_HyperDualVec_ln,
  C07_cong_HyperDualVec_log2,
  C07_cong_HyperDualVec_log10,
  C07_cong_HyperDualVec_ln_1p,
  C07_cong_HyperDualVec_sin,
  C07_cong_HyperDualVec_cos,
  C07_cong_HyperDualVec_tan,
  C07_cong_HyperDualVec_asin,
  C07_cong_HyperDualVec_acos,
  C07_cong_HyperDualVec_atan,
  C07_cong_HyperDualVec_sinh,
  C07_cong_HyperDualVec_cosh,
  C07_cong_HyperDualVec_tanh,
  C07_cong_HyperDualVec_asinh,
  C07_cong_HyperDualVec_acosh,
  C07_cong_HyperDualVec_atanh,
  C07_cong_HyperDualVec_powi,
  C07_cong_HyperDualVec_powf).
Print Assumptions C07_bundle.
