(* Proofs/C05_proofs.v -- the driver functions seed, extract and orient correctly (statements about Hand/Drivers.v, whose
   seeding helpers are the translated ones), for every input length n >= 0 and output length m. *)
From ND Require Import Tactics Drivers.
Local Open Scope R_scope.

Lemma nth_error_mapi_from {A B} (f : nat -> A -> B) i l k :
  nth_error (mapi_from f i l) k = option_map (f (i + k)%nat) (nth_error l k).
Proof.
  revert i k; induction l as [|a l IH]; intros i k; destruct k; simpl; try reflexivity.
  - rewrite Nat.add_0_r; reflexivity.
  - rewrite IH. replace (S i + k)%nat with (i + S k)%nat by lia. reflexivity.
Qed.
Lemma nth_error_mapi {A B} (f : nat -> A -> B) l k : nth_error (mapi f l) k = option_map (f k) (nth_error l k).
Proof. unfold mapi. rewrite nth_error_mapi_from. reflexivity. Qed.
Lemma length_mapi {A B} (f : nat -> A -> B) l : length (mapi f l) = length l.
Proof. unfold mapi. generalize 0%nat. induction l; intros; simpl; auto. Qed.

Definition delta (i j : nat) : R := if Nat.eqb i j then 1 else 0.

(* ---- seeding: the closure receives x_i with a unit derivative in direction i and nothing else ---- *)
Lemma seed_gradient_spec (x : list R) i xi : nth_error x i = Some xi ->
  exists s, nth_error (seed_gradient x) i = Some s /\ DualVec_f_re s = xi /\ forall j, (j < length x)%nat -> part_DualVec s (j :: nil) = delta j i.
Proof.
  intros H. unfold seed_gradient. rewrite nth_error_mapi, H. simpl. eexists; split; [reflexivity|]. split; [reflexivity|].
  intros j Hj. assert (Hi : (i < length x)%nat) by (apply nth_error_Some; congruence).
  rcbv. reflexivity.
Qed.
Lemma seed_hessian_spec (x : list R) i xi : nth_error x i = Some xi ->
  exists s, nth_error (seed_hessian x) i = Some s /\ Dual2Vec_f_re s = xi /\ wf_Dual2Vec s /\
            (forall j, part_Dual2Vec s (j :: nil) = delta j i) /\ (forall j k, part_Dual2Vec s (j :: k :: nil) = 0).
Proof.
  intros H. unfold seed_hessian. rewrite nth_error_mapi, H. simpl. eexists; split; [reflexivity|]. split; [reflexivity|].
  split; [reflexivity|]. split; [intros j|intros j k; reflexivity].
  unfold delta; cbn -[Nat.mul Nat.add Nat.eqb]. unfold mat_set_lin, mat_zeros, mat_const; cbn -[Nat.mul Nat.add Nat.eqb]. rewrite Nat.mul_1_r, Nat.add_0_r. reflexivity.
Qed.
Lemma seed_partial_hessian_spec (x y : list R) i xi : nth_error x i = Some xi ->
  exists s, nth_error (seed_ph_x x) i = Some s /\ HyperDualVec_f_re s = xi /\ wf_HyperDualVec s /\
            (forall j, (j < length x)%nat -> part_HyperDualVec s (inl j :: nil) = delta j i) /\
            (forall j, part_HyperDualVec s (inr j :: nil) = 0) /\ (forall j k, part_HyperDualVec s (inl j :: inr k :: nil) = 0).
Proof.
  intros H. unfold seed_ph_x. rewrite nth_error_mapi, H. simpl. eexists; split; [reflexivity|]. split; [reflexivity|]. split; [reflexivity|].
  split; [|split; intros; reflexivity]. intros j Hj. rcbv. reflexivity.
Qed.
Lemma seed_partial_hessian_spec_y (y : list R) i yi : nth_error y i = Some yi ->
  exists s, nth_error (seed_ph_y y) i = Some s /\ HyperDualVec_f_re s = yi /\ wf_HyperDualVec s /\
            (forall j, part_HyperDualVec s (inr j :: nil) = delta j i) /\
            (forall j, part_HyperDualVec s (inl j :: nil) = 0) /\ (forall j k, part_HyperDualVec s (inl j :: inr k :: nil) = 0).
Proof.
  intros H. unfold seed_ph_y. rewrite nth_error_mapi, H. simpl. eexists; split; [reflexivity|]. split; [reflexivity|]. split; [exact I|].
  split; [|split; intros; reflexivity]. intros j. unfold delta; cbn -[Nat.mul Nat.add Nat.eqb]. unfold mat_set_lin, mat_zeros, mat_const; cbn -[Nat.mul Nat.add Nat.eqb]. rewrite Nat.mul_1_r, Nat.add_0_r. reflexivity.
Qed.
(* third_partial_derivative_vec: element m carries eps1 = [m = i], eps2 = [m = j], eps3 = [m = k]; repeated indices included *)
Lemma nth_error_set_nth {A} (f : A -> A) n l m : nth_error (set_nth f n l) m = option_map (fun a => if Nat.eqb m n then f a else a) (nth_error l m).
Proof. unfold set_nth. rewrite nth_error_mapi. reflexivity. Qed.
Lemma seed_third_vec_spec (x : list R) i j k m xm : nth_error x m = Some xm ->
  exists s, nth_error (seed_third_vec x i j k) m = Some s /\
    part_HHD s nil = xm /\ part_HHD s (1 :: nil)%nat = delta m i /\ part_HHD s (2 :: nil)%nat = delta m j /\ part_HHD s (3 :: nil)%nat = delta m k /\
    part_HHD s (1 :: 2 :: nil)%nat = 0 /\ part_HHD s (1 :: 3 :: nil)%nat = 0 /\ part_HHD s (2 :: 3 :: nil)%nat = 0 /\ part_HHD s (1 :: 2 :: 3 :: nil)%nat = 0.
Proof.
  intros H. unfold seed_third_vec. rewrite !nth_error_set_nth, nth_error_map, H. simpl. eexists; split; [reflexivity|].
  unfold delta. destruct (Nat.eqb m i), (Nat.eqb m j), (Nat.eqb m k); rcbv; repeat split; reflexivity.
Qed.

(* ---- extraction and orientation ---- *)
Lemma gradient_extract E (g : list (DualVec R) -> result (DualVec R) E) x res : g (seed_gradient x) = Ok res ->
  exists v G, try_gradient E g x = Ok (v, G) /\ v = part_DualVec res nil /\ forall i, mget G i 0 = part_DualVec res (i :: nil).
Proof.
  intros H. unfold try_gradient. rewrite H. simpl. eexists; eexists; split; [reflexivity|].
  destruct res as [r [[m|]]]; simpl; split; try reflexivity; intros; try (destruct m; reflexivity); reflexivity.
Qed.
Lemma jacobian_extract E (g : list (DualVec R) -> result (list (DualVec R)) E) x res : g (seed_gradient x) = Ok res ->
  exists v J, try_jacobian E g x = Ok (v, J) /\ v = map (fun r => part_DualVec r nil) res /\ mrows J = length res /\ mcols J = length x /\
              forall i ri, nth_error res i = Some ri -> forall j, mget J i j = part_DualVec ri (j :: nil).
Proof.
  intros H. unfold try_jacobian. rewrite H. simpl. eexists; eexists; split; [reflexivity|]. repeat split; try reflexivity.
  intros i ri Hi j. simpl. rewrite Hi. destruct ri as [r [[m|]]]; simpl; [destruct m|]; reflexivity.
Qed.
Lemma hessian_extract E (g : list (Dual2Vec R) -> result (Dual2Vec R) E) x res : g (seed_hessian x) = Ok res ->
  exists v G H, try_hessian E g x = Ok (v, G, H) /\ v = part_Dual2Vec res nil /\
              (forall i, mget G i 0 = part_Dual2Vec res (i :: nil)) /\ (forall i j, mget H i j = part_Dual2Vec res (i :: j :: nil)).
Proof.
  intros Hg. unfold try_hessian. rewrite Hg. simpl. eexists; eexists; eexists; split; [reflexivity|].
  destruct res as [r [[m1|]] [[m2|]]]; simpl; repeat split; try reflexivity; try (destruct m1; reflexivity); try (destruct m2; reflexivity).
Qed.
Lemma partial_hessian_extract E (g : list (HyperDualVec R) -> list (HyperDualVec R) -> result (HyperDualVec R) E) x y res :
  g (seed_ph_x x) (seed_ph_y y) = Ok res ->
  exists v Gx Gy H, try_partial_hessian E g x y = Ok (v, Gx, Gy, H) /\ v = part_HyperDualVec res nil /\
     (forall i, mget Gx i 0 = part_HyperDualVec res (inl i :: nil)) /\ (forall j, mget Gy j 0 = part_HyperDualVec res (inr j :: nil)) /\
     (forall i j, mget H i j = part_HyperDualVec res (inl i :: inr j :: nil)).
Proof.
  intros Hg. unfold try_partial_hessian. rewrite Hg. simpl. do 4 eexists; split; [reflexivity|].
  destruct res as [r [[m1|]] [[m2|]] [[m3|]]]; simpl; repeat split; try reflexivity;
    try (destruct m1; reflexivity); try (destruct m2; reflexivity); try (destruct m3; reflexivity).
Qed.
Lemma scalar_extract E :
  (forall g x r, g (Dual_derivative (Dual_from_re x)) = Ok r -> try_first_derivative (T:=R) E g x = Ok (part_Dual r nil, part_Dual r (tt :: nil))) /\
  (forall g x r, g (Dual2_derivative (Dual2_from_re x)) = Ok r -> try_second_derivative (T:=R) E g x = Ok (part_Dual2 r nil, part_Dual2 r (tt :: nil), part_Dual2 r (tt :: tt :: nil))) /\
  (forall g x r, g (seed_third x) = Ok r ->
     try_third_derivative (T:=R) E g x = Ok (part_Dual3 r nil, part_Dual3 r (tt :: nil), part_Dual3 r (tt :: tt :: nil), part_Dual3 r (tt :: tt :: tt :: nil))) /\
  (forall g x y r, g (HyperDual_derivative1 (HyperDual_from_re x)) (HyperDual_derivative2 (HyperDual_from_re y)) = Ok r ->
     try_second_partial_derivative (T:=R) E g x y = Ok (part_HyperDual r nil, part_HyperDual r (1 :: nil)%nat, part_HyperDual r (2 :: nil)%nat, part_HyperDual r (1 :: 2 :: nil)%nat)).
Proof.
  split; [|split; [|split]].
  - intros g x r H. unfold try_first_derivative. rewrite H. destruct r; reflexivity.
  - intros g x r H. unfold try_second_derivative. rewrite H. destruct r; reflexivity.
  - intros g x r H. unfold try_third_derivative. rewrite H. destruct r; reflexivity.
  - intros g x y r H. unfold try_second_partial_derivative. rewrite H. destruct r; reflexivity.
Qed.
(* the scalar seeds *)
Lemma scalar_seeds (x : R) :
  Dual_derivative (Dual_from_re x) = mkDual x 1 /\ Dual2_derivative (Dual2_from_re x) = mkDual2 x 1 0 /\
  seed_third x = mkDual3 x 1 0 0 /\
  HyperDual_derivative1 (HyperDual_from_re x) = mkHyperDual x 1 0 0 /\ HyperDual_derivative2 (HyperDual_from_re x) = mkHyperDual x 0 1 0.
Proof. split; [|split; [|split; [|split]]]; reflexivity. Qed.
