(* Proofs/C03_proofs.v -- programs are differentiated correctly.
   (1) Analytic anchor, first order: for every program of Hand/Prog.v and differentiable input curves, the eps part of the evaluation over
       Dual is the derivative (Coquelicot is_derive) of the real function the program computes along the curve, and the real part is its value.
   (2) Every other first-order / directional part of every other type equals that of Dual on the same program (the agree_ theorems of C04_proofs), and the
       higher-order parts of all types are tied together by the same theorems; what each higher part is, is stated part-wise by C01/C02
       (Leibniz, Faa di Bruno with true derivative towers). *)
From ND Require Import Tactics C02_proofs C01_towers C01_faa C07_proofs C09_proofs Prog Agree C04_inst.
Local Open Scope R_scope.

(* the real function of each elementary operation is the 0-th coefficient of its tower, and the tower's first step is its derivative *)
Lemma eval_un_R u x : dom_un u x -> eval_un (T:=R) u x = (if unop_is_neg u then - x else tw_un u x 0).
Proof. intros H. destruct u; simpl in *; try reflexivity; unfold tw_un, tw3; rcbv; try reflexivity; unfold tan, tanh; field; side. Qed.
Ltac tw1 L := match goal with |- is_derive _ ?x _ => let H := fresh in pose proof L as H; destruct H as [_ [H _]]; exact H end.
Lemma tw_un_derive u x : u <> U_neg -> dom_un u x -> is_derive (fun t => tw_un u t 0) x (tw_un u x 1).
Proof.
  intros Hu Hd. destruct u; try (exfalso; apply Hu; reflexivity); simpl in Hd; unfold tw_un; cbn [eval_un].
  - tw1 (tower_recip x Hd). - tw1 (tower_sqrt x Hd). - tw1 (tower_cbrt x Hd). - tw1 (tower_exp x). - tw1 (tower_exp2 x). - tw1 (tower_exp_m1 x).
  - tw1 (tower_ln x Hd). - tw1 (tower_log2 x Hd). - tw1 (tower_log10 x Hd). - tw1 (tower_ln_1p x Hd). - tw1 (tower_sin x). - tw1 (tower_cos x).
  - tw1 (tower_tan x Hd). - tw1 (tower_asin x Hd). - tw1 (tower_acos x Hd). - tw1 (tower_atan x). - tw1 (tower_sinh x). - tw1 (tower_cosh x).
  - tw1 (tower_tanh x). - tw1 (tower_asinh x). - tw1 (tower_acosh x Hd). - tw1 (tower_atanh x Hd).
Qed.

(* ---- the first-order representation relation: d is the 1-jet of the curve v at t0 ---- *)
Definition Rep1 (t0 : R) (v : R -> R) (d : Dual R) : Prop := Dual_f_re d = v t0 /\ is_derive v t0 (Dual_f_eps d).

Lemma dual_parts (d : Dual R) : part_Dual d nil = Dual_f_re d /\ part_Dual d (tt :: nil) = Dual_f_eps d.
Proof. destruct d; split; reflexivity. Qed.
Lemma fam_Dual_nil : fam_c04_Dual nil. Proof. left; reflexivity. Qed.
Lemma fam_Dual_tt : fam_c04_Dual (tt :: nil). Proof. right; left; reflexivity. Qed.

Lemma faa_nil {L} f (p : @block L -> R) : faa f p nil = f 0%nat.
Proof. unfold faa; simpl. ring. Qed.
Lemma faa_one {L} f (p : @block L -> R) i : faa f p (i :: nil) = f 1%nat * p (i :: nil).
Proof. unfold faa; simpl. ring. Qed.

Section First.
  Variable t0 : R.
  Let J := JA_c04_Dual.

  Lemma rep_const c : Rep1 t0 (fun _ => c) (ofF c).
  Proof. split; [reflexivity|]. simpl. apply (is_derive_const (V:=R_NormedModule) c t0). Qed.

  Lemma rep_bin b v w x y : Rep1 t0 v x -> Rep1 t0 w y -> (b = B_div -> w t0 <> 0) ->
    Rep1 t0 (fun t => eval_bin (T:=R) b (v t) (w t)) (eval_bin b x y).
  Proof.
    intros [Hx Dx] [Hy Dy] Hd. destruct x as [x0 x1], y as [y0 y1]; simpl in *. subst x0 y0.
    destruct b; simpl; (split; [rcbv; try reflexivity|]).
    - apply (is_derive_plus (V:=R_NormedModule) v w t0 x1 y1 Dx Dy).
    - apply (is_derive_minus (V:=R_NormedModule) v w t0 x1 y1 Dx Dy).
    - eapply is_derive_val; [apply (is_derive_mult v w t0 x1 y1 Dx Dy); intros; apply Rmult_comm|]. rcbv. unfold plus, mult; simpl. ring.
    - field. apply Hd; reflexivity.
    - assert (Hw : w t0 <> 0) by (apply Hd; reflexivity).
      eapply is_derive_val; [apply (is_derive_div v w t0 x1 y1 Dx Dy Hw)|]. rcbv. unfold minus, plus, opp, mult, scal; simpl. unfold mult; simpl. field. assumption.
  Qed.

  Lemma rep_un u v x : Rep1 t0 v x -> dom_un u (v t0) -> Rep1 t0 (fun t => eval_un (T:=R) u (v t)) (eval_un u x).
  Proof.
    intros [Hx Dx] Hd. destruct (unop_eq_neg u) as [->|Hu].
    - destruct x as [x0 x1]; simpl in *; subst x0. split; [reflexivity|]. simpl. apply (is_derive_opp (V:=R_NormedModule) v t0 x1 Dx).
    - destruct x as [x0 x1]; simpl in Hx, Dx; subst x0.
      assert (Hdx : dom_un u (part_Dual (mkDual (v t0) x1) nil)) by exact Hd.
      pose proof (jf_un _ _ _ _ _ J u (mkDual (v t0) x1) Hu I Hdx nil fam_Dual_nil) as E0.
      pose proof (jf_un _ _ _ _ _ J u (mkDual (v t0) x1) Hu I Hdx (tt :: nil) fam_Dual_tt) as E1.
      pose proof (dual_parts (eval_un u (mkDual (v t0) x1))) as [Q0 Q1].
      rewrite Q0, faa_nil in E0. rewrite Q1, faa_one in E1. change (part_Dual {| Dual_f_re := v t0; Dual_f_eps := x1 |} nil) with (v t0) in E0, E1.
      change (part_Dual {| Dual_f_re := v t0; Dual_f_eps := x1 |} (tt :: nil)) with x1 in E1.
      split.
      + rewrite E0. rewrite (eval_un_R u (v t0) Hd). destruct u; try reflexivity; exfalso; apply Hu; reflexivity.
      + rewrite E1.
        apply (is_derive_ext (fun t => tw_un u (v t) 0)).
        * intros t. destruct u; try (exfalso; apply Hu; reflexivity); unfold tw_un, tw3; rcbv; try reflexivity; unfold tan, tanh; try reflexivity.
          all: try (unfold Rdiv; rewrite ?Rmult_1_l; reflexivity).
        * eapply is_derive_val; [apply (is_derive_comp (fun s => tw_un u s 0) v t0 (tw_un u (v t0) 1) x1); [apply tw_un_derive; assumption | exact Dx]|].
          unfold scal; simpl. unfold mult; simpl. ring.
  Qed.
End First.
