(* Props/C14.v -- property C14: cylindrical Bessel functions J0, J1, J2 (src/bessel.rs).
   Statements about the hand model Hand/Bessel.v, whose tables, constants and numeric literals are regenerated from the source on every run
   (gen/Gen_Bessel.v) and which is executed in Coq on binary64 against the implementation.  Rep1 t0 v d: d carries the value and the derivative of
   the curve v at t0.  NOT proved here (and not provable by these means): that the rational / asymptotic approximations are close to the true Bessel
   functions -- that clause is decided on the implementation against 60-digit references.  Only `exact` proofs here. *)
From ND Require Import Tactics C02_proofs C01_towers C01_faa C07_proofs C09_proofs Prog Agree C04_inst C03_proofs C03_second C03_third C03_mixed C03_mixed3 Bessel C14_proofs C14_prog.
From NDgen Require Import Gen_Bessel.
Local Open Scope R_scope.

(* the two evaluators are Horner schemes for the polynomials with the listed coefficients *)
Theorem C14_polevl_spec : forall (x c0 : R) (r : list R), polevl (T:=R) x (c0 :: r) = poly_sum x (c0 :: r).
Proof. exact polevl_spec. Qed.
Theorem C14_p1evl_spec : forall (x : R) (l : list R), p1evl (T:=R) x l = x ^ length l + poly_sum x l.
Proof. exact p1evl_spec. Qed.

(* over Dual, each branch returns the value and the derivative of the real function the same code computes, along any differentiable curve *)
Theorem C14_j0_small_derivative : forall t0 v x, Rep1 t0 v x -> Rep1 t0 (fun t => j0_small (T:=R) (v t)) (j0_small x).
Proof. exact rep_j0_small. Qed.
Theorem C14_j0_mid_derivative : forall t0 v x, Rep1 t0 v x -> Rep1 t0 (fun t => j0_mid (T:=R) (v t * v t)%rs) (j0_mid (x * x)%rs).
Proof. exact rep_j0_mid'. Qed.
Theorem C14_j0_asym_derivative : forall t0 v x, Rep1 t0 v x -> 0 < v t0 -> Rep1 t0 (fun t => j0_asym (T:=R) (v t)) (j0_asym x).
Proof. exact rep_j0_asym'. Qed.
Theorem C14_j1_mid_derivative : forall t0 v x, Rep1 t0 v x -> Rep1 t0 (fun t => j1_mid (T:=R) (v t)) (j1_mid x).
Proof. exact rep_j1_mid'. Qed.
Theorem C14_j2_series_derivative : forall t0 v x, Rep1 t0 v x -> Rep1 t0 (fun t => j2_series (T:=R) (v t)) (j2_series x).
Proof. exact rep_j2_series. Qed.

(* the functions themselves, on the open ranges between the switch points: value and derivative of the real function the code computes *)
Theorem C14_j0_derivative_mid : forall t0 v x, Rep1 t0 v x -> lk (T:=R) L_bessel_j0 1 < v t0 < lk (T:=R) L_bessel_j0 0 ->
  Rep1 t0 (fun t => bessel_j0 (T:=R) (v t)) (bessel_j0 x).
Proof. exact j0_derivative_mid. Qed.
Theorem C14_j0_derivative_outer : forall t0 v x, Rep1 t0 v x -> lk (T:=R) L_bessel_j0 0 < v t0 ->
  Rep1 t0 (fun t => bessel_j0 (T:=R) (v t)) (bessel_j0 x).
Proof. exact j0_derivative_outer. Qed.
Theorem C14_j1_derivative_mid : forall t0 v x, Rep1 t0 v x -> Rabs (v t0) < lk (T:=R) L_bessel_j1 0 ->
  Rep1 t0 (fun t => bessel_j1 (T:=R) (v t)) (bessel_j1 x).
Proof. exact j1_derivative_mid. Qed.
Theorem C14_j2_derivative_small : forall t0 v x, Rep1 t0 v x -> Rabs (v t0) < lk (T:=R) L_bessel_j2 0 ->
  Rep1 t0 (fun t => bessel_j2 (T:=R) (v t)) (bessel_j2 x).
Proof. exact j2_derivative_small. Qed.
Theorem C14_switch_points : lk (T:=R) L_bessel_j0 1 = 1 / 100000 /\ lk (T:=R) L_bessel_j0 0 = 5 /\ lk (T:=R) L_bessel_j1 0 = 5 /\ lk (T:=R) L_bessel_j2 0 = 1 / 4.
Proof. exact (conj (proj1 lits_j0) (conj (proj2 lits_j0) (conj lits_j1 lits_j2))). Qed.

(* the denominators never vanish on the ranges where they are used *)
Theorem C14_denominators_positive : forall z : R, 0 <= z ->
  0 < p1evl (T:=R) z B_RQ0 /\ 0 < polevl (T:=R) z B_PQ0 /\ 0 < p1evl (T:=R) z B_QQ0 /\
  0 < p1evl (T:=R) z B_RQ1 /\ 0 < polevl (T:=R) z B_PQ1 /\ 0 < p1evl (T:=R) z B_QQ1.
Proof. exact denominators_positive. Qed.

(* branch selection is by the real part alone *)
Theorem C14_j0_branches : forall d : Dual R,
  (0 <= m_re d < lk (T:=R) L_bessel_j0 1 -> lk (T:=R) L_bessel_j0 1 <= lk (T:=R) L_bessel_j0 0 -> bessel_j0 d = j0_small (d * d)%rs) /\
  (lk (T:=R) L_bessel_j0 1 <= m_re d <= lk (T:=R) L_bessel_j0 0 -> 0 <= m_re d -> bessel_j0 d = j0_mid (d * d)%rs) /\
  (lk (T:=R) L_bessel_j0 0 < m_re d -> 0 <= m_re d -> bessel_j0 d = j0_asym d).
Proof. exact j0_branches. Qed.
Theorem C14_j2_branches : forall d : Dual R,
  (Rabs (m_re d) < lk (T:=R) L_bessel_j2 0 -> bessel_j2 d = j2_series d) /\
  (lk (T:=R) L_bessel_j2 0 <= Rabs (m_re d) -> bessel_j2 d = (bessel_j1 d * lk (T:=Dual R) L_bessel_j2 2 / d - bessel_j0 d)%rs).
Proof. exact j2_branches. Qed.

(* parity, as dual numbers: every part of J0(-X) and J2(-X) equals that of J0(X), J2(X); J1(-X) = -J1(X) *)
Theorem C14_j0_even : forall d : Dual R, m_re d <> 0 -> bessel_j0 (- d)%rs = bessel_j0 d.
Proof. exact j0_even. Qed.
Theorem C14_j1_odd : forall d : Dual R, m_re d <> 0 -> bessel_j1 (- d)%rs = (- (bessel_j1 d))%rs.
Proof. exact j1_odd. Qed.
Theorem C14_j2_even : forall d : Dual R, m_re d <> 0 -> bessel_j2 (- d)%rs = bessel_j2 d.
Proof. exact j2_even. Qed.

(* non-vacuity: the seed of a first derivative at 2 is such a d, and 2 lies in the middle branch *)
Example C14_example : Rep1 2 (fun t => t) (mkDual 2 1) /\ lk (T:=R) L_bessel_j0 1 <= m_re (mkDual 2 1) <= lk (T:=R) L_bessel_j0 0.
Proof. exact example_c14. Qed.

(* ---- every order, every direction, every type: the branches reified as programs (Proofs/C14_prog.v) ----
   Each branch of the hand model is proved equal, in every real-number instance, to the evaluation of a program of Hand/Prog.v built from the
   regenerated tables; the program theorems of C03 then give, for the real function g the branch computes on its domain ok:
   the value and derivative over Dual (Rep1), the second derivative over Dual2 (Rep2), the third over Dual3 (Rep3), both first and the mixed
   second partial over HyperDual along two-parameter families (RepH), all eight parts incl. the mixed third partial over HyperHyperDual along
   three-parameter families (RepT, see C03_RepT_meaning), and every directional first derivative over HyperHyperDual, DualVec,
   Dual2Vec and HyperDualVec (RepX; any component, any dimension, any presence pattern).  BranchOK is exactly that conjunction: *)
Theorem C14_BranchOK_meaning : forall (g : R -> R) (ok : R -> Prop) (br : forall (T : Type) (dn : DN R T), T -> T),
  BranchOK g ok br <->
  ((forall t0 v (X : Dual R), Rep1 t0 v X -> ok (v t0) -> Rep1 t0 (fun t => g (v t)) (br _ _ X)) /\
   (forall t0 v (X : Dual2 R), Rep2 t0 v X -> ok (v t0) -> Rep2 t0 (fun t => g (v t)) (br _ _ X)) /\
   (forall t0 v (X : Dual3 R), Rep3 t0 v X -> ok (v t0) -> Rep3 t0 (fun t => g (v t)) (br _ _ X)) /\
   (forall s0 t0 v (X : HyperDual R), RepH s0 t0 v X -> ok (v s0 t0) -> RepH s0 t0 (fun s t => g (v s t)) (br _ _ X)) /\
   (forall s0 t0 u0 v (X : HyperHyperDual R), RepT s0 t0 u0 v X -> ok (v s0 t0 u0) -> RepT s0 t0 u0 (fun s t u => g (v s t u)) (br _ _ X)) /\
   (forall k, (k = 1 \/ k = 2 \/ k = 3)%nat -> forall t0 v (X : HyperHyperDual R),
      RepX (part:=part_HHD) (wf:=fun _ => True) k t0 v X -> ok (v t0) -> RepX (part:=part_HHD) (wf:=fun _ => True) k t0 (fun t => g (v t)) (br _ _ X)) /\
   (forall (i : nat) t0 v (X : DualVec R),
      RepX (part:=part_DualVec) (wf:=fun _ => True) i t0 v X -> ok (v t0) -> RepX (part:=part_DualVec) (wf:=fun _ => True) i t0 (fun t => g (v t)) (br _ _ X)) /\
   (forall (i : nat) t0 v (X : Dual2Vec R),
      RepX (part:=part_Dual2Vec) (wf:=wf_Dual2Vec) i t0 v X -> ok (v t0) -> RepX (part:=part_Dual2Vec) (wf:=wf_Dual2Vec) i t0 (fun t => g (v t)) (br _ _ X)) /\
   (forall (l : nat + nat) t0 v (X : HyperDualVec R),
      RepX (part:=part_HyperDualVec) (wf:=wf_HyperDualVec) l t0 v X -> ok (v t0) -> RepX (part:=part_HyperDualVec) (wf:=wf_HyperDualVec) l t0 (fun t => g (v t)) (br _ _ X))).
Proof. exact (fun g ok br => conj (fun H => H) (fun H => H)). Qed.
Theorem C14_j0_small_all_orders : BranchOK (fun r => j0_small (T:=R) (r * r)%rs) (fun _ => True) (fun T dn x => j0_small (x * x)%rs).
Proof. exact j0_small_branch. Qed.
Theorem C14_j0_mid_all_orders : BranchOK (fun r => j0_mid (T:=R) (r * r)%rs) (fun _ => True) (fun T dn x => j0_mid (x * x)%rs).
Proof. exact j0_mid_branch. Qed.
Theorem C14_j0_asym_all_orders : BranchOK (fun r => j0_asym (T:=R) r) (fun r => 0 < r) (fun T dn x => j0_asym x).
Proof. exact j0_asym_branch. Qed.
Theorem C14_j1_mid_all_orders : BranchOK (fun r => j1_mid (T:=R) r) (fun _ => True) (fun T dn x => j1_mid x).
Proof. exact j1_mid_branch. Qed.
(* the asymptotic branch of J1 on a positive real part: there it IS the one-input program j1_asym_pos_prog (signum = 1, |x| = x), in every type *)
Theorem C14_j1_asym_positive :
  (forall x : R, 0 < x -> j1_asym x = j1_asym_pos x) /\ (forall x : Dual R, 0 < Dual_f_re x -> j1_asym x = j1_asym_pos x) /\
  (forall x : Dual2 R, 0 < Dual2_f_re x -> j1_asym x = j1_asym_pos x) /\ (forall x : Dual3 R, 0 < Dual3_f_re x -> j1_asym x = j1_asym_pos x) /\
  (forall x : HyperDual R, 0 < HyperDual_f_re x -> j1_asym x = j1_asym_pos x) /\ (forall x : HyperHyperDual R, 0 < part_HHD x nil -> j1_asym x = j1_asym_pos x) /\
  (forall x : DualVec R, 0 < part_DualVec x nil -> j1_asym x = j1_asym_pos x) /\ (forall x : Dual2Vec R, 0 < part_Dual2Vec x nil -> j1_asym x = j1_asym_pos x) /\
  (forall x : HyperDualVec R, 0 < part_HyperDualVec x nil -> j1_asym x = j1_asym_pos x).
Proof. exact j1_asym_positive. Qed.
Theorem C14_j1_asym_all_orders : BranchOK (fun r => j1_asym_pos (T:=R) r) (fun r => 0 < r) (fun T dn x => j1_asym_pos x).
Proof. exact j1_asym_pos_branch. Qed.
Theorem C14_j2_series_all_orders : BranchOK (fun r => j2_series (T:=R) r) (fun _ => True) (fun T dn x => j2_series x).
Proof. exact j2_series_branch. Qed.
(* the recurrence 2 J1(x)/x - J0(x) where both functions take their rational branches (0.25 <= |x| <= 5) *)
Theorem C14_j2_recurrence_all_orders :
  BranchOK (fun r => (j1_mid (T:=R) r * (lk (T:=R) L_bessel_j2 2 : R) / r - j0_mid (T:=R) (r * r))%rs) (fun r => r <> 0)
           (fun T dn x => (j1_mid x * (lk (T:=T) L_bessel_j2 2 : R) / x - j0_mid (x * x))%rs).
Proof. exact j2_rec_mid_branch. Qed.

(* the functions themselves (branch selection included) at second and third order on the open ranges: the v2 / v3 parts are the second / third
   derivatives of the real function bessel_jN computes *)
Theorem C14_j0_second_mid : forall t0 v (x : Dual2 R), Rep2 t0 v x -> lk (T:=R) L_bessel_j0 1 < v t0 < lk (T:=R) L_bessel_j0 0 ->
  Rep2 t0 (fun t => bessel_j0 (T:=R) (v t)) (bessel_j0 x).
Proof. exact j0_second_mid. Qed.
Theorem C14_j0_second_outer : forall t0 v (x : Dual2 R), Rep2 t0 v x -> lk (T:=R) L_bessel_j0 0 < v t0 ->
  Rep2 t0 (fun t => bessel_j0 (T:=R) (v t)) (bessel_j0 x).
Proof. exact j0_second_outer. Qed.
Theorem C14_j0_third_mid : forall t0 v (x : Dual3 R), Rep3 t0 v x -> lk (T:=R) L_bessel_j0 1 < v t0 < lk (T:=R) L_bessel_j0 0 ->
  Rep3 t0 (fun t => bessel_j0 (T:=R) (v t)) (bessel_j0 x).
Proof. exact j0_third_mid. Qed.
Theorem C14_j0_third_outer : forall t0 v (x : Dual3 R), Rep3 t0 v x -> lk (T:=R) L_bessel_j0 0 < v t0 ->
  Rep3 t0 (fun t => bessel_j0 (T:=R) (v t)) (bessel_j0 x).
Proof. exact j0_third_outer. Qed.
Theorem C14_j1_second_mid : forall t0 v (x : Dual2 R), Rep2 t0 v x -> Rabs (v t0) < lk (T:=R) L_bessel_j1 0 ->
  Rep2 t0 (fun t => bessel_j1 (T:=R) (v t)) (bessel_j1 x).
Proof. exact j1_second_mid. Qed.
Theorem C14_j1_third_mid : forall t0 v (x : Dual3 R), Rep3 t0 v x -> Rabs (v t0) < lk (T:=R) L_bessel_j1 0 ->
  Rep3 t0 (fun t => bessel_j1 (T:=R) (v t)) (bessel_j1 x).
Proof. exact j1_third_mid. Qed.
Theorem C14_j2_second_small : forall t0 v (x : Dual2 R), Rep2 t0 v x -> Rabs (v t0) < lk (T:=R) L_bessel_j2 0 ->
  Rep2 t0 (fun t => bessel_j2 (T:=R) (v t)) (bessel_j2 x).
Proof. exact j2_second_small. Qed.
Theorem C14_j2_third_small : forall t0 v (x : Dual3 R), Rep3 t0 v x -> Rabs (v t0) < lk (T:=R) L_bessel_j2 0 ->
  Rep3 t0 (fun t => bessel_j2 (T:=R) (v t)) (bessel_j2 x).
Proof. exact j2_third_small. Qed.
Theorem C14_j2_derivative_rec_mid : forall t0 v (x : Dual R), Rep1 t0 v x -> 1 / 4 < v t0 < 5 ->
  Rep1 t0 (fun t => bessel_j2 (T:=R) (v t)) (bessel_j2 x).
Proof. exact j2_derivative_rec_mid. Qed.
Example C14_example_second : Rep2 2 (fun t => t) (mkDual2 2 1 0) /\ lk (T:=R) L_bessel_j0 1 < 2 < lk (T:=R) L_bessel_j0 0.
Proof. exact example_c14_second. Qed.

Definition C14_bundle := (C14_polevl_spec, C14_p1evl_spec, C14_j0_small_derivative, C14_j0_mid_derivative, C14_j0_asym_derivative,
  C14_j1_mid_derivative, C14_j2_series_derivative, C14_j0_derivative_mid, C14_j0_derivative_outer, C14_j1_derivative_mid, C14_j2_derivative_small, C14_switch_points, C14_denominators_positive, C14_j0_branches, C14_j2_branches, C14_j0_even, C14_j1_odd, C14_j2_even,
  C14_BranchOK_meaning, C14_j0_small_all_orders, C14_j0_mid_all_orders, C14_j0_asym_all_orders, C14_j1_mid_all_orders, C14_j1_asym_positive, C14_j1_asym_all_orders,
  C14_j2_series_all_orders, C14_j2_recurrence_all_orders, C14_j0_second_mid, C14_j0_second_outer, C14_j0_third_mid, C14_j0_third_outer, C14_j1_second_mid,
  C14_j1_third_mid, C14_j2_second_small, C14_j2_third_small, C14_j2_derivative_rec_mid).
Print Assumptions C14_bundle.
