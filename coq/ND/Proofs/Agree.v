(* Proofs/Agree.v -- the generic agreement theorem.  A "jet algebra" is a type of dual numbers together with a reading of its parts as
   blocks over some label type, such that its operations satisfy the jet specification (Leibniz, quotient, part-wise linear operations,
   Faa di Bruno with a COMMON tower per elementary function).  If the parts of y are the parts of x read through a relabelling f of the labels
   (a projection onto one direction, a diagonal, an isomorphism of nestings ...), then every program maps related inputs to related outputs. *)
From ND Require Import Tactics C02_proofs C01_towers C01_faa C07_proofs Prog.
Local Open Scope R_scope.

Lemma splits_map {L M} (f : L -> M) (S : @block L) :
  splits (map f S) = map (fun AB => (map f (fst AB), map f (snd AB))) (splits S).
Proof.
  induction S as [|x S IH]; [reflexivity|]. simpl. rewrite IH. rewrite flat_map_concat_map, map_map.
  rewrite flat_map_concat_map. rewrite concat_map. f_equal. rewrite map_map. apply map_ext. intros [A B]; reflexivity.
Qed.
Lemma leibniz_map {L M} (f : L -> M) (a b : @block M -> R) (S : @block L) :
  leibniz (fun B => a (map f B)) (fun B => b (map f B)) S = leibniz a b (map f S).
Proof. unfold leibniz. rewrite splits_map, map_map. reflexivity. Qed.
Lemma insert_each_map {L M} (f : L -> M) x (p : list (@block L)) :
  insert_each (f x) (map (map f) p) = map (map (map f)) (insert_each x p).
Proof.
  induction p as [|B p IH]; [reflexivity|]. simpl. rewrite IH. f_equal. rewrite !map_map. reflexivity.
Qed.
Lemma partitions_map {L M} (f : L -> M) (S : @block L) : partitions (map f S) = map (map (map f)) (partitions S).
Proof.
  induction S as [|x S IH]; [reflexivity|]. simpl. rewrite IH. rewrite !flat_map_concat_map, concat_map, !map_map. f_equal.
  apply map_ext. intros p. simpl. rewrite insert_each_map. reflexivity.
Qed.
Lemma faa_map {L M} (f : L -> M) (g : nat -> R) (a : @block M -> R) (S : @block L) :
  faa g (fun B => a (map f B)) S = faa g a (map f S).
Proof.
  unfold faa. rewrite partitions_map, map_map. f_equal. apply map_ext. intros p. rewrite map_length, map_map. reflexivity.
Qed.

(* ---- sub-blocks: everything a Leibniz / Faa di Bruno sum over S looks at is a sub-block of S ---- *)
Inductive subl {L} : @block L -> @block L -> Prop :=
| subl_nil : subl [] []
| subl_skip x A S : subl A S -> subl A (x :: S)
| subl_take x A S : subl A S -> subl (x :: A) (x :: S).
Lemma subl_refl {L} (S : @block L) : subl S S.
Proof. induction S; constructor; assumption. Qed.
Lemma subl_nil_l {L} (S : @block L) : subl [] S.
Proof. induction S; constructor; assumption. Qed.
Lemma splits_subl {L} (S A B : @block L) : In (A, B) (splits S) -> subl A S /\ subl B S.
Proof.
  revert A B; induction S as [|x S IH]; intros A B H; simpl in H.
  - destruct H as [H|[]]; injection H as <- <-; split; constructor.
  - apply in_flat_map in H. destruct H as [[A' B'] [H1 H2]]. destruct (IH _ _ H1) as [HA HB].
    simpl in H2. destruct H2 as [H2|[H2|[]]]; injection H2 as <- <-; split; try (apply subl_take; assumption); apply subl_skip; assumption.
Qed.
Lemma insert_each_subl {L} (x : L) (p : list (@block L)) S : (forall B, In B p -> subl B S) ->
  forall q, In q (insert_each x p) -> forall B, In B q -> subl B (x :: S).
Proof.
  induction p as [|B0 p IH]; intros Hp q Hq B HB; simpl in Hq; [destruct Hq|].
  destruct Hq as [<-|Hq].
  - destruct HB as [<-|HB]; [apply subl_take; apply Hp; left; reflexivity | apply subl_skip; apply Hp; right; assumption].
  - apply in_map_iff in Hq. destruct Hq as [q' [<- Hq']]. destruct HB as [<-|HB].
    + apply subl_skip; apply Hp; left; reflexivity.
    + apply (IH (fun B' HB' => Hp B' (or_intror HB')) q' Hq' B HB).
Qed.
Lemma partitions_subl {L} (S : @block L) : forall p, In p (partitions S) -> forall B, In B p -> subl B S.
Proof.
  induction S as [|x S IH]; intros p Hp B HB; simpl in Hp.
  - destruct Hp as [<-|[]]. destruct HB.
  - apply in_flat_map in Hp. destruct Hp as [p' [Hp' Hq]]. destruct Hq as [<-|Hq].
    + destruct HB as [<-|HB]; [apply subl_take, subl_nil_l | apply subl_skip; apply (IH p' Hp' B HB)].
    + apply (insert_each_subl x p' S (IH p' Hp') p Hq B HB).
Qed.
Lemma leibniz_ext_sub {L} (a a' b b' : @block L -> R) S :
  (forall A, subl A S -> a A = a' A) -> (forall B, subl B S -> b B = b' B) -> leibniz a b S = leibniz a' b' S.
Proof.
  intros Ha Hb. unfold leibniz. f_equal. apply map_ext_in. intros [A B] H. destruct (splits_subl _ _ _ H) as [HA HB]. simpl. rewrite Ha, Hb by assumption. reflexivity.
Qed.
Lemma faa_ext_sub {L} (f f' : nat -> R) (p p' : @block L -> R) S :
  (forall k, f k = f' k) -> (forall B, subl B S -> p B = p' B) -> faa f p S = faa f' p' S.
Proof.
  intros Hf Hp. unfold faa. f_equal. apply map_ext_in. intros q Hq. rewrite Hf. f_equal. f_equal.
  apply map_ext_in. intros B HB. apply Hp. apply (partitions_subl S q Hq B HB).
Qed.
Lemma subl_map {L M} (f : L -> M) (A S : @block L) : subl A S -> subl (map f A) (map f S).
Proof. induction 1; simpl; constructor; assumption. Qed.

(* ---- the towers and domains of the elementary functions, shared by every type (read off the generated Dual3 code, C01) ---- *)
Definition dom_un (u : unop) (r : R) : Prop :=
  match u with
  | U_neg | U_exp | U_exp2 | U_exp_m1 | U_sin | U_cos | U_atan | U_sinh | U_cosh | U_tanh | U_asinh => True
  | U_recip | U_cbrt => r <> 0
  | U_sqrt | U_ln | U_log2 | U_log10 => 0 < r
  | U_ln_1p => -1 < r
  | U_tan => cos r <> 0
  | U_asin | U_acos | U_atanh => -1 < r < 1
  | U_acosh => 1 < r
  end.
Definition tw_un (u : unop) : R -> nat -> R := tw3 (eval_un (T:=Dual3 R) u).

(* a type of dual numbers whose operations meet the jet specification on a family of blocks closed under sub-blocks *)
Record JetAlgF {L X : Type} (dn : DN R X) (part : X -> @block L -> R) (wf : X -> Prop) (fam : @block L -> Prop) (pw : Z -> Prop) : Prop := {
  jf_fl : dn_fl (T:=X) = FL_R;            (* the scalar interface is the real one *)
  jf_sub : forall S B, fam S -> subl B S -> fam B;
  jf_len : forall S, fam S -> (length S <= 3)%nat;
  jf_mul : forall a b, wf a -> wf b -> forall S, fam S -> part (a * b)%rs S = leibniz (part a) (part b) S;
  jf_div : forall a b, wf a -> wf b -> part b nil <> 0 -> forall S, fam S -> leibniz (part (a / b)%rs) (part b) S = part a S;
  jf_lin : forall a b S, fam S -> part (a + b)%rs S = part a S + part b S /\ part (a - b)%rs S = part a S - part b S /\ part (- a)%rs S = - part a S;
  jf_un : forall u x, u <> U_neg -> wf x -> dom_un u (part x nil) -> forall S, fam S -> part (eval_un u x) S = faa (tw_un u (part x nil)) (part x) S;
  jf_powi : forall n x, pw n -> wf x -> forall S, fam S -> part (m_powi x n) S = faa (tw3 (fun d => m_powi d n) (part x nil)) (part x) S;
  jf_const : forall (c : R) S, fam S -> part (ofF c) S = match S with nil => c | _ => 0 end;
  jf_scal : forall (b : binop) x (c : R) S, (b = B_div -> c <> 0) -> fam S -> part (eval_scal b x c) S = part (eval_bin b x (ofF c)) S;
  jf_wf_bin : forall b x y, wf x -> wf y -> wf (eval_bin b x y);
  jf_wf_un : forall u x, wf x -> wf (eval_un u x);
  jf_wf_powi : forall n x, wf x -> wf (m_powi x n);
  jf_wf_const : forall c : R, wf (ofF c);
  jf_wf_scal : forall b x (c : R), wf x -> wf (eval_scal b x c);
}.

Definition unop_is_neg (u : unop) : bool := match u with U_neg => true | _ => false end.
Lemma unop_eq_neg (u : unop) : u = U_neg \/ u <> U_neg.
Proof. destruct u; try (right; discriminate); left; reflexivity. Qed.

(* uniqueness of the quotient on a family of blocks of length <= 3 closed under sub-blocks *)
Lemma quot_unique3 {L} (fam : @block L -> Prop) (q q' b : @block L -> R) :
  (forall S, fam S -> (length S <= 3)%nat) -> (forall S B, fam S -> subl B S -> fam B) ->
  b nil <> 0 -> (forall S, fam S -> leibniz q b S = leibniz q' b S) -> forall S, fam S -> q S = q' S.
Proof.
  intros Hlen Hsub Hb E.
  assert (E0 : forall S, fam S -> q nil = q' nil).
  { intros S F. assert (F0 : fam nil) by (apply (Hsub S); [assumption|apply subl_nil_l]).
    specialize (E nil F0). unfold leibniz in E; simpl in E. nra. }
  assert (E1 : forall i, fam (i :: nil) -> q (i :: nil) = q' (i :: nil)).
  { intros i F. pose proof (E0 _ F) as E00. specialize (E _ F). unfold leibniz in E; simpl in E. rewrite E00 in E. nra. }
  assert (E2 : forall i j, fam (i :: j :: nil) -> q (i :: j :: nil) = q' (i :: j :: nil)).
  { intros i j F. pose proof (E0 _ F) as E00.
    assert (Fi : fam (i :: nil)) by (apply (Hsub _ _ F); repeat constructor).
    assert (Fj : fam (j :: nil)) by (apply (Hsub _ _ F); apply subl_skip; repeat constructor).
    pose proof (E1 _ Fi) as Ei. pose proof (E1 _ Fj) as Ej.
    specialize (E _ F). unfold leibniz in E; simpl in E. rewrite E00, Ei, Ej in E. nra. }
  intros S F. pose proof (Hlen S F) as HS. destruct S as [|i [|j [|k [|l S]]]]; try (simpl in HS; lia).
  - apply (E0 nil F). - apply E1; assumption. - apply E2; assumption.
  - pose proof (E0 _ F) as E00.
    assert (Fi : fam (i :: nil)) by (apply (Hsub _ _ F); repeat constructor).
    assert (Fj : fam (j :: nil)) by (apply (Hsub _ _ F); apply subl_skip; repeat constructor).
    assert (Fk : fam (k :: nil)) by (apply (Hsub _ _ F); do 2 apply subl_skip; repeat constructor).
    assert (Fij : fam (i :: j :: nil)) by (apply (Hsub _ _ F); repeat constructor).
    assert (Fik : fam (i :: k :: nil)) by (apply (Hsub _ _ F); apply subl_take; apply subl_skip; repeat constructor).
    assert (Fjk : fam (j :: k :: nil)) by (apply (Hsub _ _ F); apply subl_skip; repeat constructor).
    pose proof (E1 _ Fi) as Ei. pose proof (E1 _ Fj) as Ej. pose proof (E1 _ Fk) as Ek.
    pose proof (E2 _ _ Fij) as Eij. pose proof (E2 _ _ Fik) as Eik. pose proof (E2 _ _ Fjk) as Ejk.
    specialize (E _ F). unfold leibniz in E; simpl in E. rewrite E00, Ei, Ej, Ek, Eij, Eik, Ejk in E. nra.
Qed.

Section Agree.
  Context {LX LY X Y : Type} {dnX : DN R X} {dnY : DN R Y}.
  Context {partX : X -> @block LX -> R} {wfX : X -> Prop} {famX : @block LX -> Prop}.
  Context {partY : Y -> @block LY -> R} {wfY : Y -> Prop} {famY : @block LY -> Prop}.
  Context {pwX pwY : Z -> Prop} (JX : JetAlgF dnX partX wfX famX pwX) (JY : JetAlgF dnY partY wfY famY pwY).
  Variable f : LY -> LX.
  Hypothesis fam_f : forall S, famY S -> famX (map f S).

  (* y shows, on its own blocks, the parts x has on the relabelled blocks *)
  Definition rel (x : X) (y : Y) : Prop := wfX x /\ wfY y /\ forall S, famY S -> partY y S = partX x (map f S).

  Lemma rel_nil x y : rel x y -> famY nil -> partY y nil = partX x nil.
  Proof. intros [_ [_ H]] F. exact (H nil F). Qed.
  Lemma rel_sub x y S : rel x y -> famY S -> forall B, subl B S -> partY y B = partX x (map f B).
  Proof. intros [_ [_ H]] F B HB. apply H. apply (jf_sub _ _ _ _ _ JY S B F HB). Qed.

  Lemma rel_bin b x x' y y' : rel x y -> rel x' y' -> (b = B_div -> partX x' nil <> 0) -> rel (eval_bin b x x') (eval_bin b y y').
  Proof.
    intros Hr Hr' Hd. pose proof Hr as [Wx [Wy Hp]]. pose proof Hr' as [Wx' [Wy' Hp']].
    split; [apply (jf_wf_bin _ _ _ _ _ JX); assumption|]. split; [apply (jf_wf_bin _ _ _ _ _ JY); assumption|].
    intros S F. pose proof (fam_f S F) as FX.
    destruct b; simpl.
    - destruct (jf_lin _ _ _ _ _ JY y y' S F) as [-> _]. destruct (jf_lin _ _ _ _ _ JX x x' _ FX) as [-> _]. rewrite Hp, Hp' by assumption. reflexivity.
    - destruct (jf_lin _ _ _ _ _ JY y y' S F) as [_ [-> _]]. destruct (jf_lin _ _ _ _ _ JX x x' _ FX) as [_ [-> _]]. rewrite Hp, Hp' by assumption. reflexivity.
    - rewrite (jf_mul _ _ _ _ _ JY) by assumption. rewrite (jf_mul _ _ _ _ _ JX) by assumption. rewrite <- leibniz_map.
      apply leibniz_ext_sub; intros B HB; [apply (rel_sub x y S Hr F B HB) | apply (rel_sub x' y' S Hr' F B HB)].
    - (* both quotients solve the same equation on famY *)
      assert (F0 : famY nil) by (apply (jf_sub _ _ _ _ _ JY S); [assumption|apply subl_nil_l]).
      assert (Hb : partY y' nil <> 0) by (rewrite (rel_nil _ _ Hr' F0); apply Hd; reflexivity).
      apply (quot_unique3 famY (partY (y / y')%rs) (fun B => partX (x / x')%rs (map f B)) (partY y')
               (jf_len _ _ _ _ _ JY) (jf_sub _ _ _ _ _ JY) Hb); [|assumption].
      intros S' F'. rewrite (jf_div _ _ _ _ _ JY) by assumption.
      rewrite (leibniz_ext_sub (fun B => partX (x / x')%rs (map f B)) (fun B => partX (x / x')%rs (map f B)) (partY y') (fun B => partX x' (map f B)) S')
        by (intros; try reflexivity; apply (rel_sub x' y' S' Hr' F'); assumption).
      rewrite leibniz_map. assert (HbX : partX x' nil <> 0) by (apply Hd; reflexivity).
      rewrite (jf_div _ _ _ _ _ JX x x' Wx Wx' HbX _ (fam_f S' F')).
      apply Hp; assumption.
  Qed.

  Lemma rel_un u x y : rel x y -> dom_un u (partX x nil) -> rel (eval_un u x) (eval_un u y).
  Proof.
    intros Hr Hd. pose proof Hr as [Wx [Wy Hp]].
    split; [apply (jf_wf_un _ _ _ _ _ JX); assumption|]. split; [apply (jf_wf_un _ _ _ _ _ JY); assumption|].
    intros S F. pose proof (fam_f S F) as FX.
    assert (F0 : famY nil) by (apply (jf_sub _ _ _ _ _ JY S); [assumption|apply subl_nil_l]).
    destruct (unop_eq_neg u) as [->|Hu].
    - simpl. destruct (jf_lin _ _ _ _ _ JY y y S F) as [_ [_ ->]]. destruct (jf_lin _ _ _ _ _ JX x x _ FX) as [_ [_ ->]]. rewrite Hp by assumption. reflexivity.
    - rewrite (jf_un _ _ _ _ _ JY u y Hu Wy) by (try assumption; rewrite (rel_nil _ _ Hr F0); assumption).
      rewrite (jf_un _ _ _ _ _ JX u x Hu Wx Hd _ FX). rewrite (rel_nil _ _ Hr F0). rewrite <- faa_map.
      apply faa_ext_sub; [reflexivity|]. intros B HB. apply (rel_sub x y S Hr F B HB).
  Qed.

  Lemma rel_powi n x y : pwX n -> pwY n -> rel x y -> rel (m_powi x n) (m_powi y n).
  Proof.
    intros PX PY Hr. pose proof Hr as [Wx [Wy Hp]].
    split; [apply (jf_wf_powi _ _ _ _ _ JX); assumption|]. split; [apply (jf_wf_powi _ _ _ _ _ JY); assumption|].
    intros S F. pose proof (fam_f S F) as FX.
    assert (F0 : famY nil) by (apply (jf_sub _ _ _ _ _ JY S); [assumption|apply subl_nil_l]).
    rewrite (jf_powi _ _ _ _ _ JY n y PY Wy S F), (jf_powi _ _ _ _ _ JX n x PX Wx _ FX). rewrite (rel_nil _ _ Hr F0). rewrite <- faa_map.
    apply faa_ext_sub; [reflexivity|]. intros B HB. apply (rel_sub x y S Hr F B HB).
  Qed.

  Lemma rel_const (c : R) : rel (ofF c) (ofF c).
  Proof.
    split; [apply (jf_wf_const _ _ _ _ _ JX)|]. split; [apply (jf_wf_const _ _ _ _ _ JY)|].
    intros S F. rewrite (jf_const _ _ _ _ _ JY c S F), (jf_const _ _ _ _ _ JX c _ (fam_f S F)). destruct S; reflexivity.
  Qed.

  Lemma rel_scal b x y (c : R) : rel x y -> (b = B_div -> c <> 0) -> rel (eval_scal b x c) (eval_scal b y c).
  Proof.
    intros Hr Hc. pose proof Hr as [Wx [Wy Hp]].
    split; [apply (jf_wf_scal _ _ _ _ _ JX); assumption|]. split; [apply (jf_wf_scal _ _ _ _ _ JY); assumption|].
    intros S F. rewrite (jf_scal _ _ _ _ _ JY b y c S Hc F), (jf_scal _ _ _ _ _ JX b x c _ Hc (fam_f S F)).
    assert (Hd : b = B_div -> partX (ofF c : X) nil <> 0).
    { intros ->. assert (F0 : famY nil) by (apply (jf_sub _ _ _ _ _ JY S); [assumption|apply subl_nil_l]).
      rewrite (jf_const _ _ _ _ _ JX c nil (fam_f nil F0)). apply Hc; reflexivity. }
    destruct (rel_bin b x (ofF c) y (ofF c) Hr (rel_const c) Hd) as [_ [_ H]]. apply H; assumption.
  Qed.

  (* every intermediate real value lies in the domain of the operation applied to it (stated on the X evaluation) *)
  Fixpoint ok (env : list X) (p : prog) : Prop :=
    match p with
    | PVar i => (i < length env)%nat
    | PConst _ => True
    | PUn u a => ok env a /\ dom_un u (partX (eval env a) nil)
    | PBin b a c => ok env a /\ ok env c /\ (b = B_div -> partX (eval env c) nil <> 0)
    | PScal b a c => ok env a /\ (b = B_div -> cval (F:=R) c <> 0)
    | PPowi a n => ok env a /\ pwX n /\ pwY n
    | PLet a body => ok env a /\ ok (env ++ (eval env a :: nil)) body
    end.

  Theorem prog_agree p : forall envX envY, Forall2 rel envX envY -> ok envX p -> rel (eval envX p) (eval envY p).
  Proof.
    induction p as [i|c|u a IH|b a IHa c IHc|b a IH c|a IH n|a IHa body IHb]; intros envX envY HE Hok; simpl in *.
    - revert i Hok. induction HE as [|x y ex ey Hxy HE' IHE]; intros i Hi; simpl in *; [lia|]. destruct i; [assumption|]. apply IHE. lia.
    - assert (EX : @cval R (@flF_prog R X dnX) c = cval (F:=R) c) by (unfold flF_prog; rewrite (jf_fl _ _ _ _ _ JX); reflexivity).
      assert (EY : @cval R (@flF_prog R Y dnY) c = cval (F:=R) c) by (unfold flF_prog; rewrite (jf_fl _ _ _ _ _ JY); reflexivity).
      rewrite EX, EY. apply rel_const.
    - destruct Hok as [Ha Hd]. apply rel_un; [apply IH; assumption | assumption].
    - destruct Hok as [Ha [Hc Hd]]. apply rel_bin; [apply IHa | apply IHc | ]; assumption.
    - destruct Hok as [Ha Hc].
      assert (EX : @cval R (@flF_prog R X dnX) c = cval (F:=R) c) by (unfold flF_prog; rewrite (jf_fl _ _ _ _ _ JX); reflexivity).
      assert (EY : @cval R (@flF_prog R Y dnY) c = cval (F:=R) c) by (unfold flF_prog; rewrite (jf_fl _ _ _ _ _ JY); reflexivity).
      rewrite EX, EY. apply rel_scal; [apply IH; assumption | assumption].
    - destruct Hok as [Ha [PX PY]]. apply rel_powi; [assumption|assumption|]. apply IH; assumption.
    - destruct Hok as [Ha Hb]. apply IHb; [|assumption]. apply Forall2_app; [assumption|]. constructor; [|constructor]. apply IHa; assumption.
  Qed.
End Agree.
