(* Spec/Jet.v -- the specification of truncated Taylor ("jet") algebra, independent of the crate's formulas.
   A derivative part is indexed by a block: the list of differentiation labels it was differentiated by
   (labels may repeat: Dual2/Dual3 differentiate several times by the same variable).
   leibniz : general Leibniz rule (sum over all ways to split the block between the two factors)
   faa     : multivariate Faa di Bruno formula in set-partition form.
   Textbook statements; nothing here mentions the code.  Hand-written, static. *)
From Coq Require Import Reals List.
Import ListNotations.
Local Open Scope R_scope.

Fixpoint sumR (l : list R) : R := match l with [] => 0 | x :: r => x + sumR r end.
Fixpoint prodR (l : list R) : R := match l with [] => 1 | x :: r => x * prodR r end.

Section Jet.
  Context {L : Type}.
  Definition block := list L.

  (* all ordered pairs (A, B) of complementary sub-blocks of S, positions kept in order *)
  Fixpoint splits (S : block) : list (block * block) :=
    match S with
    | [] => [([], [])]
    | x :: r => flat_map (fun AB => [(x :: fst AB, snd AB); (fst AB, x :: snd AB)]) (splits r)
    end.

  Definition leibniz (a b : block -> R) (S : block) : R :=
    sumR (map (fun AB => a (fst AB) * b (snd AB)) (splits S)).

  (* all set partitions of the positions of S *)
  Fixpoint insert_each (x : L) (p : list block) : list (list block) :=
    match p with
    | [] => []
    | B :: r => ((x :: B) :: r) :: map (cons B) (insert_each x r)
    end.
  Fixpoint partitions (S : block) : list (list block) :=
    match S with
    | [] => [[]]
    | x :: r => flat_map (fun p => ([x] :: p) :: insert_each x p) (partitions r)
    end.

  (* f k = k-th derivative of the outer function at the real part of the operand *)
  Definition faa (f : nat -> R) (part : block -> R) (S : block) : R :=
    sumR (map (fun p => f (length p) * prodR (map part p)) (partitions S)).
End Jet.

(* sanity of the specification itself: counts are 2^n and the Bell numbers *)
Example splits_count : map (fun n => length (splits (repeat tt n))) [0;1;2;3]%nat = [1;2;4;8]%nat.
Proof. reflexivity. Qed.
Example partitions_count : map (fun n => length (partitions (repeat tt n))) [0;1;2;3;4]%nat = [1;1;2;5;15]%nat.
Proof. reflexivity. Qed.
