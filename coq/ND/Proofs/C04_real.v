(* Proofs/C04_real.v -- written by tools/coqgen/gen_c04r.py: the agreement theorems of C04_proofs / C04_nested with the domain condition stated on
   the real function the program computes (okR), through C03_proofs.prog_agree_R. *)
From ND Require Import Tactics C02_proofs C01_towers C01_faa C07_proofs Prog Agree C04_inst C04_proofs C04_nested C03_proofs.
Local Open Scope R_scope.

Lemma agreeR_DualVec_Dual : forall (i : nat) (p : prog) (envX : list (DualVec R)) (envY : list (Dual R)), Forall2 (rel_DualVec_Dual i) envX envY -> okR (map (fun x => part_DualVec x nil) envX) p -> rel_DualVec_Dual i (eval envX p) (eval envY p).
Proof.
  intros i p envX envY HE Hok.
  assert (fam_f : forall S, fam_c04_Dual S -> fam_c04_DualVec (map (fun _ : unit => i) S)) by (intros S F; unfold fam_c04_Dual in F; exists i; in_cases F; simpl; auto).
  assert (F0 : fam_c04_DualVec nil) by (exists 0%nat; simpl; auto).
  apply (prog_agree_R JA_c04_DualVec JA_c04_Dual (fun _ : unit => i) fam_f F0 i p envX envY HE Hok). apply (exps_imp (fun _ => True)); [tauto|apply exps_true].
Qed.
Lemma agreeR_Dual2Vec_HyperDual : forall (i j : nat) (p : prog) (envX : list (Dual2Vec R)) (envY : list (HyperDual R)), Forall2 (rel_Dual2Vec_HyperDual i j) envX envY -> okR (map (fun x => part_Dual2Vec x nil) envX) p -> rel_Dual2Vec_HyperDual i j (eval envX p) (eval envY p).
Proof.
  intros i j p envX envY HE Hok.
  assert (fam_f : forall S, fam_c04_HyperDual S -> fam_c04_Dual2Vec (map (f_ij i j) S)) by (intros S F; unfold fam_c04_HyperDual in F; in_cases F; simpl; [exists i, j | exists i, j | exists j, j | exists i, j]; simpl; auto).
  assert (F0 : fam_c04_Dual2Vec nil) by (exists 0%nat, 0%nat; simpl; auto).
  apply (prog_agree_R JA_c04_Dual2Vec JA_c04_HyperDual (f_ij i j) fam_f F0 i p envX envY HE Hok). apply (exps_imp (fun _ => True)); [tauto|apply exps_true].
Qed.
Lemma agreeR_HyperDualVec_HyperDual : forall (i j : nat) (p : prog) (envX : list (HyperDualVec R)) (envY : list (HyperDual R)), Forall2 (rel_HyperDualVec_HyperDual i j) envX envY -> okR (map (fun x => part_HyperDualVec x nil) envX) p -> rel_HyperDualVec_HyperDual i j (eval envX p) (eval envY p).
Proof.
  intros i j p envX envY HE Hok.
  assert (fam_f : forall S, fam_c04_HyperDual S -> fam_c04_HyperDualVec (map (f_ij (inl i) (inr j)) S)) by (intros S F; unfold fam_c04_HyperDual in F; exists i, j; in_cases F; simpl; auto).
  assert (F0 : fam_c04_HyperDualVec nil) by (exists 0%nat, 0%nat; simpl; auto).
  apply (prog_agree_R JA_c04_HyperDualVec JA_c04_HyperDual (f_ij (inl i) (inr j)) fam_f F0 (inl i) p envX envY HE Hok). apply (exps_imp (fun _ => True)); [tauto|apply exps_true].
Qed.
Lemma agreeR_Dual2_HyperDual : forall (p : prog) (envX : list (Dual2 R)) (envY : list (HyperDual R)), Forall2 (rel_Dual2_HyperDual) envX envY -> okR (map (fun x => part_Dual2 x nil) envX) p -> rel_Dual2_HyperDual (eval envX p) (eval envY p).
Proof.
  intros p envX envY HE Hok.
  assert (fam_f : forall S, fam_c04_HyperDual S -> fam_c04_Dual2 (map (fun _ : nat => tt) S)) by (intros S F; unfold fam_c04_HyperDual in F; unfold fam_c04_Dual2; in_cases F; simpl; auto).
  assert (F0 : fam_c04_Dual2 nil) by (unfold fam_c04_Dual2; simpl; auto).
  apply (prog_agree_R JA_c04_Dual2 JA_c04_HyperDual (fun _ : nat => tt) fam_f F0 tt p envX envY HE Hok). apply (exps_imp (fun _ => True)); [tauto|apply exps_true].
Qed.
Lemma agreeR_Dual3_HHD : forall (p : prog) (envX : list (Dual3 R)) (envY : list (HyperHyperDual R)), Forall2 (rel_Dual3_HHD) envX envY -> okR (map (fun x => part_Dual3 x nil) envX) p -> rel_Dual3_HHD (eval envX p) (eval envY p).
Proof.
  intros p envX envY HE Hok.
  assert (fam_f : forall S, fam_c04_HyperHyperDual S -> fam_c04_Dual3 (map (fun _ : nat => tt) S)) by (intros S F; unfold fam_c04_HyperHyperDual in F; unfold fam_c04_Dual3; in_cases F; simpl; auto 8).
  assert (F0 : fam_c04_Dual3 nil) by (unfold fam_c04_Dual3; simpl; auto).
  apply (prog_agree_R JA_c04_Dual3 JA_c04_HyperHyperDual (fun _ : nat => tt) fam_f F0 tt p envX envY HE Hok). apply (exps_imp (fun _ => True)); [tauto|apply exps_true].
Qed.
Lemma agreeR_Dual3_Dual2 : forall (p : prog) (envX : list (Dual3 R)) (envY : list (Dual2 R)), Forall2 (rel_Dual3_Dual2) envX envY -> okR (map (fun x => part_Dual3 x nil) envX) p -> rel_Dual3_Dual2 (eval envX p) (eval envY p).
Proof.
  intros p envX envY HE Hok.
  assert (fam_f : forall S, fam_c04_Dual2 S -> fam_c04_Dual3 (map (fun u : unit => u) S)) by (intros S F; unfold fam_c04_Dual2 in F; unfold fam_c04_Dual3; in_cases F; simpl; auto 8).
  assert (F0 : fam_c04_Dual3 nil) by (unfold fam_c04_Dual3; simpl; auto).
  apply (prog_agree_R JA_c04_Dual3 JA_c04_Dual2 (fun u : unit => u) fam_f F0 tt p envX envY HE Hok). apply (exps_imp (fun _ => True)); [tauto|apply exps_true].
Qed.
Lemma agreeR_Dual2_Dual : forall (p : prog) (envX : list (Dual2 R)) (envY : list (Dual R)), Forall2 (rel_Dual2_Dual) envX envY -> okR (map (fun x => part_Dual2 x nil) envX) p -> rel_Dual2_Dual (eval envX p) (eval envY p).
Proof.
  intros p envX envY HE Hok.
  assert (fam_f : forall S, fam_c04_Dual S -> fam_c04_Dual2 (map (fun u : unit => u) S)) by (intros S F; unfold fam_c04_Dual in F; unfold fam_c04_Dual2; in_cases F; simpl; auto 8).
  assert (F0 : fam_c04_Dual2 nil) by (unfold fam_c04_Dual2; simpl; auto).
  apply (prog_agree_R JA_c04_Dual2 JA_c04_Dual (fun u : unit => u) fam_f F0 tt p envX envY HE Hok). apply (exps_imp (fun _ => True)); [tauto|apply exps_true].
Qed.
Lemma agreeR_HyperDual_Dual : forall (k : nat) (p : prog) (envX : list (HyperDual R)) (envY : list (Dual R)), (k = 1 \/ k = 2)%nat -> Forall2 (rel_HyperDual_Dual k) envX envY -> okR (map (fun x => part_HyperDual x nil) envX) p -> rel_HyperDual_Dual k (eval envX p) (eval envY p).
Proof.
  intros k p envX envY Hk HE Hok.
  assert (fam_f : forall S, fam_c04_Dual S -> fam_c04_HyperDual (map (fun _ : unit => k) S)) by (intros S F; unfold fam_c04_Dual in F; unfold fam_c04_HyperDual; destruct Hk as [ -> | -> ]; in_cases F; simpl; auto 8).
  assert (F0 : fam_c04_HyperDual nil) by (unfold fam_c04_HyperDual; simpl; auto).
  apply (prog_agree_R JA_c04_HyperDual JA_c04_Dual (fun _ : unit => k) fam_f F0 k p envX envY HE Hok). apply (exps_imp (fun _ => True)); [tauto|apply exps_true].
Qed.
Lemma agreeR_HyperDual_DD : forall (p : prog) (envX : list (HyperDual R)) (envY : list (Dual (Dual R))), Forall2 (rel_HyperDual_DD) envX envY -> okR (map (fun x => part_HyperDual x nil) envX) p -> exps pw_nested p -> rel_HyperDual_DD (eval envX p) (eval envY p).
Proof.
  intros p envX envY HE Hok Hex.
  assert (fam_f : forall S, fam_c04_HyperDual S -> fam_c04_HyperDual (map (fun n : nat => n) S)) by (intros S F; rewrite map_id; exact F).
  assert (F0 : fam_c04_HyperDual nil) by (unfold fam_c04_HyperDual; simpl; auto).
  apply (prog_agree_R JA_c04_HyperDual JA_c04_DD (fun n : nat => n) fam_f F0 0%nat p envX envY HE Hok). apply (exps_imp pw_nested); [intros n H; split; [exact I|exact H]|exact Hex].
Qed.
Lemma agreeR_HHD_DDD : forall (p : prog) (envX : list (HyperHyperDual R)) (envY : list (Dual (Dual (Dual R)))), Forall2 (rel_HHD_DDD) envX envY -> okR (map (fun x => part_HHD x nil) envX) p -> exps pw_nested p -> rel_HHD_DDD (eval envX p) (eval envY p).
Proof.
  intros p envX envY HE Hok Hex.
  assert (fam_f : forall S, fam_c04_HyperHyperDual S -> fam_c04_HyperHyperDual (map (fun n : nat => n) S)) by (intros S F; rewrite map_id; exact F).
  assert (F0 : fam_c04_HyperHyperDual nil) by (unfold fam_c04_HyperHyperDual; simpl; auto).
  apply (prog_agree_R JA_c04_HyperHyperDual JA_c04_DDD (fun n : nat => n) fam_f F0 0%nat p envX envY HE Hok). apply (exps_imp pw_nested); [intros n H; split; [exact I|exact H]|exact Hex].
Qed.

Lemma example_c04 : Forall2 (rel_DualVec_Dual 1) (mkDualVec 3 (mkDerivative (Some (mkMat 2 1 (fun i _ => if Nat.eqb i 1 then 1 else 0)))) :: nil) (mkDual 3 1 :: nil) /\
  okR (3 :: nil) (PBin B_mul (PVar 0) (PUn U_sin (PVar 0))).
Proof.
  split.
  - constructor; [|constructor]. split; [exact I|]. split; [exact I|]. intros S F. unfold fam_c04_Dual in F. in_cases F; rcbv; reflexivity.
  - simpl. repeat split; try lia; discriminate.
Qed.
