(* Proofs/C09_faa.v -- written by tools/coqgen/gen_c09.py: for every type, every exponent and every branch, the parts of
   powi / powf are Faa di Bruno of the tower read off the generated third-order code (C09_proofs.v proves that tower to be
   the generalized binomial derivatives); powd is exp(n ln x) by definition, for every scalar instance. *)
From ND Require Import Tactics C01_towers C01_faa C09_proofs.
Local Open Scope R_scope.
Ltac zring := rcbvZ; ring.
Ltac cond_ring := rcbv; unfold Reqb, Rltb; repeat match goal with |- context [Req_EM_T ?a ?b] => destruct (Req_EM_T a b) end;
  repeat match goal with |- context [Rlt_dec ?a ?b] => destruct (Rlt_dec a b) end; ring.

Lemma faa_Dual_powi : forall (n : Z) (x : Dual R), forall S, In S idx_Dual ->
  part_Dual (m_powi x n) S = faa (tw3 (fun d => m_powi d n) (Dual_f_re x)) (part_Dual x) S.
Proof. intros  n x  S H; destruct x as [r ?]; destruct n as [|[[p|p|]|[p|p|]|]|p]; each_block H zring. Qed.
Lemma faa_Dual_powf : forall (n : R) (x : Dual R), forall S, In S idx_Dual ->
  part_Dual (m_powf x n) S = faa (tw3 (fun d => m_powf d n) (Dual_f_re x)) (part_Dual x) S.
Proof. intros  n x  S H; destruct x as [r ?]; each_block H cond_ring. Qed.
Lemma faa_Dual2_powi : forall (n : Z) (x : Dual2 R), forall S, In S idx_Dual2 ->
  part_Dual2 (m_powi x n) S = faa (tw3 (fun d => m_powi d n) (Dual2_f_re x)) (part_Dual2 x) S.
Proof. intros  n x  S H; destruct x as [r ? ?]; destruct n as [|[[p|p|]|[p|p|]|]|p]; each_block H zring. Qed.
Lemma faa_Dual2_powf : forall (n : R) (x : Dual2 R), forall S, In S idx_Dual2 ->
  part_Dual2 (m_powf x n) S = faa (tw3 (fun d => m_powf d n) (Dual2_f_re x)) (part_Dual2 x) S.
Proof. intros  n x  S H; destruct x as [r ? ?]; each_block H cond_ring. Qed.
Lemma faa_Dual3_powi : forall (n : Z) (x : Dual3 R), forall S, In S idx_Dual3 ->
  part_Dual3 (m_powi x n) S = faa (tw3 (fun d => m_powi d n) (Dual3_f_re x)) (part_Dual3 x) S.
Proof. intros  n x  S H; destruct x as [r ? ? ?]; destruct n as [|[[p|p|]|[p|p|]|]|p]; each_block H zring. Qed.
Lemma faa_Dual3_powf : forall (n : R) (x : Dual3 R), forall S, In S idx_Dual3 ->
  part_Dual3 (m_powf x n) S = faa (tw3 (fun d => m_powf d n) (Dual3_f_re x)) (part_Dual3 x) S.
Proof. intros  n x  S H; destruct x as [r ? ? ?]; each_block H cond_ring. Qed.
Lemma faa_HyperDual_powi : forall (n : Z) (x : HyperDual R), forall S, In S idx_HyperDual ->
  part_HyperDual (m_powi x n) S = faa (tw3 (fun d => m_powi d n) (HyperDual_f_re x)) (part_HyperDual x) S.
Proof. intros  n x  S H; destruct x as [r ? ? ?]; destruct n as [|[[p|p|]|[p|p|]|]|p]; each_block H zring. Qed.
Lemma faa_HyperDual_powf : forall (n : R) (x : HyperDual R), forall S, In S idx_HyperDual ->
  part_HyperDual (m_powf x n) S = faa (tw3 (fun d => m_powf d n) (HyperDual_f_re x)) (part_HyperDual x) S.
Proof. intros  n x  S H; destruct x as [r ? ? ?]; each_block H cond_ring. Qed.
Lemma faa_HyperHyperDual_powi : forall (n : Z) (x : HyperHyperDual R), forall S, In S idx_HHD ->
  part_HHD (m_powi x n) S = faa (tw3 (fun d => m_powi d n) (HyperHyperDual_f_re x)) (part_HHD x) S.
Proof. intros  n x  S H; destruct x as [r ? ? ? ? ? ? ?]; destruct n as [|[[p|p|]|[p|p|]|]|p]; each_block H zring. Qed.
Lemma faa_HyperHyperDual_powf : forall (n : R) (x : HyperHyperDual R), forall S, In S idx_HHD ->
  part_HHD (m_powf x n) S = faa (tw3 (fun d => m_powf d n) (HyperHyperDual_f_re x)) (part_HHD x) S.
Proof. intros  n x  S H; destruct x as [r ? ? ? ? ? ? ?]; each_block H cond_ring. Qed.
Lemma faa_DualVec_powi : forall i, forall (n : Z) (x : DualVec R), forall S, In S (idx_DualVec i) ->
  part_DualVec (m_powi x n) S = faa (tw3 (fun d => m_powi d n) (DualVec_f_re x)) (part_DualVec x) S.
Proof. intros i n x  S H; destruct x as [r [[?|]]]; dmat; destruct n as [|[[p|p|]|[p|p|]|]|p]; each_block H zring. Qed.
Lemma faa_DualVec_powf : forall i, forall (n : R) (x : DualVec R), forall S, In S (idx_DualVec i) ->
  part_DualVec (m_powf x n) S = faa (tw3 (fun d => m_powf d n) (DualVec_f_re x)) (part_DualVec x) S.
Proof. intros i n x  S H; destruct x as [r [[?|]]]; dmat; each_block H cond_ring. Qed.
Lemma faa_Dual2Vec_powi : forall i j, forall (n : Z) (x : Dual2Vec R), wf_Dual2Vec x -> forall S, In S (idx_Dual2Vec i j) ->
  part_Dual2Vec (m_powi x n) S = faa (tw3 (fun d => m_powi d n) (Dual2Vec_f_re x)) (part_Dual2Vec x) S.
Proof. intros i j n x Hwf S H; destruct x as [r [[?|]] [[?|]]]; dmat; unfold wf_Dual2Vec, wf_row in Hwf; simpl in Hwf; subst; destruct n as [|[[p|p|]|[p|p|]|]|p]; each_block H zring. Qed.
Lemma faa_Dual2Vec_powf : forall i j, forall (n : R) (x : Dual2Vec R), wf_Dual2Vec x -> forall S, In S (idx_Dual2Vec i j) ->
  part_Dual2Vec (m_powf x n) S = faa (tw3 (fun d => m_powf d n) (Dual2Vec_f_re x)) (part_Dual2Vec x) S.
Proof. intros i j n x Hwf S H; destruct x as [r [[?|]] [[?|]]]; dmat; unfold wf_Dual2Vec, wf_row in Hwf; simpl in Hwf; subst; each_block H cond_ring. Qed.
Lemma faa_HyperDualVec_powi : forall i j, forall (n : Z) (x : HyperDualVec R), wf_HyperDualVec x -> forall S, In S (idx_HyperDualVec i j) ->
  part_HyperDualVec (m_powi x n) S = faa (tw3 (fun d => m_powi d n) (HyperDualVec_f_re x)) (part_HyperDualVec x) S.
Proof. intros i j n x Hwf S H; destruct x as [r [[?|]] [[?|]] [[?|]]]; dmat; unfold wf_HyperDualVec, wf_col in Hwf; simpl in Hwf; subst; destruct n as [|[[p|p|]|[p|p|]|]|p]; each_block H zring. Qed.
Lemma faa_HyperDualVec_powf : forall i j, forall (n : R) (x : HyperDualVec R), wf_HyperDualVec x -> forall S, In S (idx_HyperDualVec i j) ->
  part_HyperDualVec (m_powf x n) S = faa (tw3 (fun d => m_powf d n) (HyperDualVec_f_re x)) (part_HyperDualVec x) S.
Proof. intros i j n x Hwf S H; destruct x as [r [[?|]] [[?|]] [[?|]]]; dmat; unfold wf_HyperDualVec, wf_col in Hwf; simpl in Hwf; subst; each_block H cond_ring. Qed.
