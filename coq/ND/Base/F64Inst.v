(* Base/F64Inst.v -- the executable binary64 interpretation of the float interface on Coq's primitive floats.
   + - * / sqrt abs neg and comparisons are computed (IEEE 754, round to nearest even -- the hardware);
   every libm function, powi, fma and the named constants are looked up in an oracle table produced by the
   harness from the same Rust build; a lookup that misses is recorded in the value so that the driver can
   complete the table and evaluate again. *)
From Coq Require Import ZArith List Floats Uint63.
From ND Require Import Overload Float Wire.
Import ListNotations.
Local Open Scope Z_scope.

(* ---- bit patterns ---- *)
Definition bits_of_SF (s : spec_float) : Z :=
  match s with
  | S754_zero sg => if sg then 9223372036854775808 else 0
  | S754_infinity sg => if sg then 18442240474082181120 else 9218868437227405312
  | S754_nan => 9221120237041090560
  | S754_finite sg m e =>
      let m := Zpos m in
      let body := if Z.leb 4503599627370496 m then (e + 1075) * 4503599627370496 + (m - 4503599627370496) else m in
      (if sg then 9223372036854775808 else 0) + body
  end.
Definition SF_of_bits (b : Z) : spec_float :=
  let sg := Z.leb 9223372036854775808 b in
  let b := if sg then b - 9223372036854775808 else b in
  let ex := b / 4503599627370496 in
  let fr := b mod 4503599627370496 in
  if Z.eqb ex 2047 then (if Z.eqb fr 0 then S754_infinity sg else S754_nan)
  else if Z.eqb ex 0 then (match fr with Zpos p => S754_finite sg p (-1074) | _ => S754_zero sg end)
  else match fr + 4503599627370496 with Zpos p => S754_finite sg p (ex - 1075) | _ => S754_nan end.
Definition f64_bits (x : float) : Z := bits_of_SF (Prim2SF x).
Definition f64_of_bits (b : Z) : float := SF2Prim (SF_of_bits b).

(* ---- oracle ---- *)
Definition oracle := list (okey * Z).
Definition okey_eqb (a b : okey) : bool :=
  let '(a1, a2, a3, a4) := a in let '(b1, b2, b3, b4) := b in
  Z.eqb a1 b1 && Z.eqb a2 b2 && Z.eqb a3 b3 && Z.eqb a4 b4.
Fixpoint olookup (t : oracle) (k : okey) : option Z :=
  match t with [] => None | (k', v) :: r => if okey_eqb k k' then Some v else olookup r k end.

Definition prim1_id (p : prim1) : Z :=
  match p with P_exp => 1 | P_exp2 => 2 | P_exp_m1 => 3 | P_ln => 4 | P_log2 => 5 | P_log10 => 6 | P_ln_1p => 7
  | P_sin => 8 | P_cos => 9 | P_tan => 10 | P_asin => 11 | P_acos => 12 | P_atan => 13 | P_sinh => 14 | P_cosh => 15
  | P_tanh => 16 | P_asinh => 17 | P_acosh => 18 | P_atanh => 19 | P_cbrt => 20 end.
Definition prim2_id (p : prim2) : Z :=
  match p with P_powf => 30 | P_atan2 => 31 | P_log => 32 | P_hypot => 33 | P_copysign => 34 end.
Definition powi_id : Z := 40.
Definition fma_id : Z := 41.
Definition fconst_id (c : fconst) : Z :=
  match c with C_E => 100 | C_FRAC_1_PI => 101 | C_FRAC_1_SQRT_2 => 102 | C_FRAC_2_PI => 103 | C_FRAC_2_SQRT_PI => 104
  | C_FRAC_PI_2 => 105 | C_FRAC_PI_3 => 106 | C_FRAC_PI_4 => 107 | C_FRAC_PI_6 => 108 | C_FRAC_PI_8 => 109 | C_LN_10 => 110
  | C_LN_2 => 111 | C_LOG10_E => 112 | C_LOG2_E => 113 | C_PI => 114 | C_SQRT_2 => 115 | C_TAU => 116 | C_LOG2_10 => 117
  | C_LOG10_2 => 118 end.

(* ---- values: a float and the oracle requests that could not be answered on the way to it ---- *)
Record xf := XF { xv : float; xmiss : list okey }.
Definition xpure (v : float) : xf := XF v [].
(* pending oracle requests are only hints for the next round: keep at most 12 of them, otherwise the lists double with
   every operation of a long computation *)
Definition xapp (a b : list okey) : list okey := match a with [] => b | _ => match b with [] => a | _ => firstn 12 (a ++ b) end end.
Definition x1 (f : float -> float) (a : xf) : xf := XF (f (xv a)) (xmiss a).
Definition x2 (f : float -> float -> float) (a b : xf) : xf := XF (f (xv a) (xv b)) (xapp (xmiss a) (xmiss b)).
Definition xcmp (f : float -> float -> bool) (a b : xf) : bool := f (xv a) (xv b).

Section WithOracle.
  Variable tbl : oracle.
  Definition ocall (k : okey) (pre : list okey) : xf :=
    match olookup tbl k with Some b => XF (f64_of_bits b) pre | None => XF nan (xapp pre [k]) end.
  Definition xprim1 (p : prim1) (a : xf) : xf := ocall (prim1_id p, f64_bits (xv a), 0, 0) (xmiss a).
  Definition xprim2 (p : prim2) (a b : xf) : xf :=
    ocall (prim2_id p, f64_bits (xv a), f64_bits (xv b), 0) (xapp (xmiss a) (xmiss b)).
  Definition xpowi (a : xf) (n : Z) : xf := ocall (powi_id, f64_bits (xv a), n, 0) (xmiss a).
  Definition xfma (a b c : xf) : xf :=
    ocall (fma_id, f64_bits (xv a), f64_bits (xv b), f64_bits (xv c)) (xapp (xmiss a) (xapp (xmiss b) (xmiss c))).
  Definition xconst (c : fconst) : xf := ocall (fconst_id c, 0, 0, 0) [].
  Definition f64_of_Z (z : Z) : float :=
    match z with Z0 => PrimFloat.zero | Zpos _ => of_uint63 (Uint63.of_Z z) | Zneg _ => PrimFloat.opp (of_uint63 (Uint63.of_Z (- z))) end.

  Definition FL_f64 : FL xf := {|
    fl_add := x2 PrimFloat.add; fl_sub := x2 PrimFloat.sub; fl_mul := x2 PrimFloat.mul; fl_div := x2 PrimFloat.div;
    fl_neg := x1 PrimFloat.opp;
    fl_zero := xpure PrimFloat.zero; fl_one := xpure PrimFloat.one;
    fl_eqb := xcmp PrimFloat.eqb; fl_ltb := xcmp PrimFloat.ltb; fl_leb := xcmp PrimFloat.leb;
    fl_lit := fun l => xpure (f64_of_bits (flit_b64 l)); fl_castZ := fun z => xpure (f64_of_Z z);
    fl_eps := xpure (f64_of_bits 4372995238176751616);      (* 2^-52 *)
    fl_abs := x1 PrimFloat.abs; fl_sqrt := x1 PrimFloat.sqrt;
    fl_prim1 := xprim1; fl_prim2 := xprim2;
    fl_powi := xpowi; fl_fma := xfma;
    fl_sign_pos := fun a => negb (get_sign (xv a));
    fl_is_nan := fun a => is_nan (xv a);
    fl_const := xconst;
    fl_max_value := xpure (f64_of_bits 9218868437227405311); fl_min_positive := xpure (f64_of_bits 4503599627370496);
    fl_infinity := xpure infinity; fl_nan := xpure nan;
  |}.
End WithOracle.

(* flattening / reading of floats for the comparison with the implementation *)
(* a value that depends on unanswered oracle requests is printed as their count (negated tag) followed by the requests *)
#[global] Instance Flat_xf : Flat xf := fun a => match xmiss a with [] => [OBits (f64_bits (xv a))] | m => OTag (- Z.of_nat (length m)) :: map OMiss m end.
#[global] Instance Rd_xf : Rd xf := fun l => let '(b, r) := rdZ l in (xpure (f64_of_bits b), r).
