#!/usr/bin/env python3
"""Writes coq/ND/Proofs/C11_proofs.v and coq/ND/Props/C11.v: the nalgebra ComplexField / RealField methods of the four
field-compatible types (translated into gen/Gen_Field.v) against a hand-written table of what each must be."""
TYPES = ['Dual', 'Dual2', 'DualVec', 'Dual2Vec']
CONSTS = [('pi', 'PI'), ('two_pi', 'TAU'), ('frac_pi_2', 'FRAC_PI_2'), ('frac_pi_3', 'FRAC_PI_3'), ('frac_pi_4', 'FRAC_PI_4'), ('frac_pi_6', 'FRAC_PI_6'),
          ('frac_pi_8', 'FRAC_PI_8'), ('frac_1_pi', 'FRAC_1_PI'), ('frac_2_pi', 'FRAC_2_PI'), ('frac_2_sqrt_pi', 'FRAC_2_SQRT_PI'), ('e', 'E'),
          ('log2_e', 'LOG2_E'), ('log10_e', 'LOG10_E'), ('ln_2', 'LN_2'), ('ln_10', 'LN_10')]
FWD = 'recip sin cos tan asin acos atan sinh cosh tanh asinh acosh atanh log2 log10 ln ln_1p sqrt exp exp2 exp_m1 cbrt'.split()
L = []
for S in TYPES:
    re_ = '%s_f_re' % S
    for m, c in CONSTS:
        L.append(('const_%s_%s' % (S, m), '%s_RealField_%s = %s_from_re (ofF (fl_const C_%s : F) : T)' % (S, m, S, c), 'reflexivity.'))
    for m in FWD:
        L.append(('fwd_%s_%s' % (S, m), 'forall x : %s T, %s_ComplexField_%s x = m_%s x' % (S, S, m, m), 'intros; reflexivity.'))
    L.append(('fwd_%s_sin_cos' % S, 'forall x : %s T, %s_ComplexField_sin_cos x = m_sin_cos x' % (S, S), 'intros; reflexivity.'))
    for m in ('real', 'conjugate', 'from_real'):
        L.append(('fwd_%s_%s' % (S, m), 'forall x : %s T, %s_ComplexField_%s x = x' % (S, S, m), 'intros; reflexivity.'))
    L.append(('fwd_%s_imaginary' % S, 'forall x : %s T, %s_ComplexField_imaginary x = (zero : %s T)' % (S, S, S), 'intros; reflexivity.'))
    for m in ('modulus', 'norm1', 'abs'):
        L.append(('fwd_%s_%s' % (S, m), 'forall x : %s T, %s_ComplexField_%s x = m_abs x' % (S, S, m), 'intros; reflexivity.'))
    L.append(('fwd_%s_modulus_squared' % S, 'forall x : %s T, %s_ComplexField_modulus_squared x = x * x' % (S, S), 'intros; reflexivity.'))
    L.append(('fwd_%s_argument' % S, 'forall x : %s T, %s_ComplexField_argument x = if ((zero : T) <=? %s x) then (zero : %s T) else %s_from_re (ofF (fl_const C_PI : F) : T)' % (S, S, re_, S, S),
              'intros; reflexivity.'))
    L.append(('fwd_%s_scale' % S, 'forall x f : %s T, %s_ComplexField_scale x f = x * f /\\ %s_ComplexField_unscale x f = x / f' % (S, S, S), 'intros; split; reflexivity.'))
    L.append(('fwd_%s_hypot' % S, 'forall x y : %s T, %s_ComplexField_hypot x y = m_sqrt (m_powi x 2%%Z + m_powi y 2%%Z)' % (S, S), 'intros; reflexivity.'))
    L.append(('fwd_%s_log' % S, 'forall x b : %s T, %s_ComplexField_log x b = m_ln x / m_ln b' % (S, S), 'intros; reflexivity.'))
    L.append(('fwd_%s_pow' % S, 'forall (x n : %s T) (k : Z), %s_ComplexField_powf x n = m_powd x n /\\ %s_ComplexField_powc x n = m_powd x n /\\ %s_ComplexField_powi x k = m_powi x k' % (S, S, S, S),
              'intros; repeat split; reflexivity.'))
    L.append(('fwd_%s_mul_add' % S, 'forall x a b : %s T, %s_ComplexField_mul_add x a b = m_mul_add x a b' % (S, S), 'intros; reflexivity.'))
    L.append(('fwd_%s_atan2' % S, 'forall y x : %s T, %s_RealField_atan2 y x = m_atan2 y x' % (S, S), 'intros; reflexivity.'))
    L.append(('sel_%s_max_min' % S, 'forall x y : %s T, (%s_RealField_max x y = x \\/ %s_RealField_max x y = y) /\\ (%s_RealField_min x y = x \\/ %s_RealField_min x y = y)' % (S, S, S, S, S),
              'intros; unfold %s_RealField_max, %s_RealField_min; split; match goal with |- context [if ?c then _ else _] => destruct c end; auto.' % (S, S)))
    L.append(('sel_%s_clamp' % S, 'forall x lo hi : %s T, %s_RealField_clamp x lo hi = x \\/ %s_RealField_clamp x lo hi = lo \\/ %s_RealField_clamp x lo hi = hi' % (S, S, S, S),
              'intros; unfold %s_RealField_clamp; repeat match goal with |- context [if ?c then _ else _] => destruct c end; auto.' % S))
    L.append(('sel_%s_copysign' % S, 'forall x s : %s T, %s_RealField_copysign x s = m_abs x \\/ %s_RealField_copysign x s = - (m_abs x)' % (S, S, S),
              'intros; unfold %s_RealField_copysign; match goal with |- context [if ?c then _ else _] => destruct c end; auto.' % S))
    L.append(('sign_%s' % S, 'forall x : %s T, %s_RealField_is_sign_positive x = fl_sign_pos (m_re (%s x)) /\\ %s_RealField_is_sign_negative x = negb (fl_sign_pos (m_re (%s x)))' % (S, S, re_, S, re_),
              'intros; split; reflexivity.'))
IMPORTS = '''From ND Require Import Overload Float Mat Opt Wire.
From NDgen Require Import Classes Gen_Float Gen_Derivative Gen_Dual Gen_Dual2 Gen_Dual3 Gen_HyperDual Gen_HyperHyperDual Gen_DualVec Gen_Dual2Vec Gen_HyperDualVec Gen_Field.
Local Open Scope rs_scope.'''
out = ['(* Proofs/C11_proofs.v -- written by tools/coqgen/gen_c11.py.  For an ARBITRARY scalar instance: each RealField constant is from_re of the float',
       '   constant of the same name; each ComplexField / RealField method is the generic dual operation it names; selection methods return one of the',
       '   operands (or +-abs) with its own parts. *)', IMPORTS, 'Section C11.', 'Context {F T : Type} {dnFT : DN F T} {ordT : DNOrd T}.', '#[local] Instance flF_c11 : FL F := dn_fl (T:=T).']
for n, st, pr in L:
    out.append('Lemma %s : %s.\nProof. %s Qed.' % (n, st, pr))
out.append('End C11.')
open('/verif/coq/ND/Proofs/C11_proofs.v', 'w').write('\n'.join(out) + '\n')
props = ['(* Props/C11.v -- property C11: dual numbers satisfy nalgebra\'s real-field contract.  Written by tools/coqgen/gen_c11.py. *)',
         'From ND Require Import C11_proofs.', IMPORTS, 'Section C11.', 'Context {F T : Type} {dnFT : DN F T} {ordT : DNOrd T}.', '#[local] Instance flF_c11p : FL F := dn_fl (T:=T).']
for n, st, pr in L:
    props.append('Theorem C11_%s : %s.\nProof. exact %s. Qed.' % (n, st, n))
props.append('End C11.')
props.append('Definition C11_bundle := (' + ',\n  '.join('@C11_' + n for n, _, _ in L) + ').\nPrint Assumptions C11_bundle.')
open('/verif/coq/ND/Props/C11.v', 'w').write('\n'.join(props) + '\n')
print(len(L), 'theorems')
