(* Hand/Serde.v -- HAND-WRITTEN structural model of what serde_derive generates for a struct with named fields:
   serialization writes a map with one entry per serialized field, in order; deserialization looks every expected key up
   and assigns it to a member.  The per-struct tables (which key goes with which member, on both sides) are EXTRACTED from the
   macro-expanded source (gen/Gen_Serde.v), so a renamed, skipped, duplicated or swapped field changes them.  serde_json and the
   leaf float codec are trusted (premise [leaf_ok]). *)
From Coq Require Import String List Bool Arith Lia.
Import ListNotations.

Section Serde.
  Variable F : Type.
  Inductive json := JNum (x : F) | JObj (o : list (string * json)).
  (* value of a (nested) scalar dual type: a leaf, or the members' values in declaration order *)
  Inductive val := VLeaf (x : F) | VRec (ms : list val).
  Record sdesc := { sd_members : list string; sd_ser : list (string * string); sd_de : list (string * string) }.
  Inductive ty := TLeaf | TStruct (d : sdesc) (inner : ty).

  (* leaf codec (serde_json numbers) *)
  Variable ser_leaf : F -> json.
  Variable de_leaf : json -> option F.
  Hypothesis leaf_ok : forall x, de_leaf (ser_leaf x) = Some x.

  Fixpoint lookup {A} (k : string) (l : list (string * A)) : option A :=
    match l with [] => None | (k', a) :: r => if String.eqb k k' then Some a else lookup k r end.
  Fixpoint key_of (m : string) (l : list (string * string)) : option string :=
    match l with [] => None | (k, m') :: r => if String.eqb m m' then Some k else key_of m r end.
  Fixpoint mapM {A B} (f : A -> option B) (l : list A) : option (list B) :=
    match l with [] => Some [] | a :: r => match f a, mapM f r with Some b, Some bs => Some (b :: bs) | _, _ => None end end.

  Fixpoint ser (t : ty) (v : val) : json :=
    match t, v with
    | TLeaf, VLeaf x => ser_leaf x
    | TStruct d i, VRec vs => JObj (combine (map fst (sd_ser d)) (map (ser i) vs))
    | _, _ => JObj []
    end.
  Fixpoint de (t : ty) (j : json) : option val :=
    match t, j with
    | TLeaf, _ => option_map VLeaf (de_leaf j)
    | TStruct d i, JObj o =>
        option_map VRec (mapM (fun m => match key_of m (sd_de d) with
                                        | Some k => match lookup k o with Some x => de i x | None => None end
                                        | None => None end) (sd_members d))
    | _, _ => None
    end.

  (* the keys of the serialized form, outermost first *)
  Fixpoint keys (t : ty) : list string :=
    match t with TLeaf => [] | TStruct d i => map fst (sd_ser d) end.

  (* all keys of the serialized text in order of appearance (pre-order), as the correspondence check observes them *)
  Fixpoint all_keys (t : ty) : list string :=
    match t with TLeaf => [] | TStruct d i => flat_map (fun k => k :: all_keys i) (map fst (sd_ser d)) end.

  (* what the extracted tables must satisfy (decidable; checked by computation on the generated tables) *)
  Fixpoint nodupb (l : list string) : bool :=
    match l with [] => true | x :: r => negb (existsb (String.eqb x) r) && nodupb r end.
  Definition list_eqb (a b : list string) : bool :=
    Nat.eqb (length a) (length b) && forallb (fun p => String.eqb (fst p) (snd p)) (combine a b).
  Definition pairs_eqb (a b : list (string * string)) : bool :=
    list_eqb (map fst a) (map fst b) && list_eqb (map snd a) (map snd b).
  Definition okb (d : sdesc) : bool :=
    pairs_eqb (sd_ser d) (sd_de d) && nodupb (map fst (sd_ser d)) && nodupb (sd_members d) && list_eqb (map snd (sd_ser d)) (sd_members d).
  Fixpoint okt (t : ty) : bool := match t with TLeaf => true | TStruct d i => okb d && okt i end.
  Fixpoint wt (t : ty) (v : val) : Prop :=
    match t, v with
    | TLeaf, VLeaf _ => True
    | TStruct d i, VRec vs => length vs = length (sd_members d) /\ (fix all (l : list val) : Prop := match l with [] => True | x :: r => wt i x /\ all r end) vs
    | _, _ => False
    end.

  Lemma list_eqb_eq a b : list_eqb a b = true -> a = b.
  Proof.
    unfold list_eqb. revert b; induction a as [|x a IH]; intros [|y b] H; simpl in *; try reflexivity; try discriminate.
    apply andb_prop in H; destruct H as [Hl H]. apply andb_prop in H; destruct H as [Hx H].
    apply String.eqb_eq in Hx; subst. f_equal. apply IH. rewrite Hl; exact H.
  Qed.
  Lemma nodupb_notin x l : nodupb (x :: l) = true -> forall y, In y l -> x <> y.
  Proof.
    simpl; intros H y Hy E; subst. apply andb_prop in H; destruct H as [H _]. apply negb_true_iff in H.
    assert (existsb (String.eqb y) l = true) by (apply existsb_exists; exists y; split; [assumption|apply String.eqb_refl]). congruence.
  Qed.
  Lemma nodupb_tl x l : nodupb (x :: l) = true -> nodupb l = true.
  Proof. simpl; intros H; apply andb_prop in H; tauto. Qed.

  (* reading back, by key, what was written positionally *)
  Lemma mapM_lookup (i : ty) (IHi : forall v, wt i v -> de i (ser i v) = Some v) :
    forall (ms ks : list string) (sdl : list (string * string)) (vs : list val) (pre : list (string * json)),
      map fst sdl = ks -> map snd sdl = ms -> nodupb ks = true -> nodupb ms = true -> length vs = length ms ->
      (fix all (l : list val) : Prop := match l with [] => True | x :: r => wt i x /\ all r end) vs ->
      (forall k, In k ks -> lookup k pre = None) ->
      forall full, (forall m k, key_of m sdl = Some k -> key_of m full = Some k) ->
      mapM (fun m => match key_of m full with
                     | Some k => match lookup k (pre ++ combine ks (map (ser i) vs)) with Some x => de i x | None => None end
                     | None => None end) ms = Some vs.
  Proof.
    induction ms as [|m ms IH]; intros ks sdl vs pre Hk Hm Nk Nm Hl Hw Hpre full Hfull.
    - destruct vs; [reflexivity|discriminate].
    - destruct sdl as [|[k m'] sdl]; [discriminate|]. simpl in Hk, Hm. injection Hm as -> Hm. subst ks.
      destruct vs as [|v vs]; [discriminate|]. simpl in Hl. injection Hl as Hl. destruct Hw as [Hv Hw].
      cbn [mapM map fst snd].
      assert (Kf : key_of m full = Some k) by (apply Hfull; simpl; rewrite String.eqb_refl; reflexivity).
      rewrite Kf.
      assert (L : lookup k (pre ++ combine (k :: map fst sdl) (ser i v :: map (ser i) vs)) = Some (ser i v)).
      { assert (Hp : lookup k pre = None) by (apply Hpre; left; reflexivity).
        clear -Hp. induction pre as [|[k' a] pre IHp]; simpl in *.
        - rewrite String.eqb_refl; reflexivity.
        - destruct (String.eqb k k'); [discriminate|]. apply IHp; assumption. }
      rewrite L, (IHi v Hv).
      specialize (IH (map fst sdl) sdl vs (pre ++ [(k, ser i v)]) eq_refl Hm (nodupb_tl _ _ Nk) (nodupb_tl _ _ Nm) Hl Hw).
      assert (Hpre' : forall k0, In k0 (map fst sdl) -> lookup k0 (pre ++ [(k, ser i v)]) = None).
      { intros k0 Hk0. assert (k <> k0) by (apply (nodupb_notin _ _ Nk); assumption).
        assert (Hp0 : lookup k0 pre = None) by (apply Hpre; right; assumption).
        clear -H Hp0. induction pre as [|[k' a] pre IHp]; simpl in *.
        - destruct (String.eqb k0 k) eqn:E; [apply String.eqb_eq in E; congruence | reflexivity].
        - destruct (String.eqb k0 k'); [discriminate|]. apply IHp; assumption. }
      specialize (IH Hpre' full).
      assert (Hfull' : forall m0 k0, key_of m0 sdl = Some k0 -> key_of m0 full = Some k0).
      { intros m0 k0 H0. apply Hfull. simpl. destruct (String.eqb m0 m) eqn:E; [|assumption].
        apply String.eqb_eq in E; subst m0. exfalso.
        (* m occurs again among the remaining members: contradicts nodup *)
        assert (In m ms).
        { rewrite <- Hm. clear -H0. induction sdl as [|[k1 m1] sdl IHs]; simpl in *; [discriminate|].
          destruct (String.eqb m m1) eqn:E1; [left; apply String.eqb_eq in E1; auto | right; apply IHs; assumption]. }
        apply (nodupb_notin _ _ Nm m H); reflexivity. }
      specialize (IH Hfull').
      replace (pre ++ combine (k :: map fst sdl) (ser i v :: map (ser i) vs)) with ((pre ++ [(k, ser i v)]) ++ combine (map fst sdl) (map (ser i) vs))
        by (rewrite <- app_assoc; reflexivity).
      rewrite IH. reflexivity.
  Qed.

  Theorem roundtrip : forall t v, okt t = true -> wt t v -> de t (ser t v) = Some v.
  Proof.
    induction t as [|d i IH]; intros v Hok Hw.
    - destruct v; [|contradiction]. simpl. rewrite leaf_ok. reflexivity.
    - destruct v as [|vs]; [contradiction|]. simpl in Hok. apply andb_prop in Hok; destruct Hok as [Hd Hi].
      destruct Hw as [Hl Hw]. unfold okb in Hd.
      apply andb_prop in Hd; destruct Hd as [Hd Hms]. apply andb_prop in Hd; destruct Hd as [Hd Nm]. apply andb_prop in Hd; destruct Hd as [Hp Nk].
      unfold pairs_eqb in Hp. apply andb_prop in Hp; destruct Hp as [Hp1 Hp2].
      apply list_eqb_eq in Hp1, Hp2, Hms.
      simpl.
      assert (E : sd_de d = sd_ser d).
      { clear -Hp1 Hp2. revert Hp1 Hp2. generalize (sd_ser d) (sd_de d). induction l as [|[a b] l IHl]; intros [|[a' b'] l'] H1 H2; simpl in *; try discriminate; try reflexivity.
        injection H1 as -> H1. injection H2 as -> H2. f_equal. apply IHl; auto. }
      rewrite E.
      pose proof (mapM_lookup i (fun v Hv => IH v Hi Hv) (sd_members d) (map fst (sd_ser d)) (sd_ser d) vs [] eq_refl Hms Nk Nm Hl Hw (fun _ _ => eq_refl) (sd_ser d) (fun _ _ H => H)) as M.
      simpl in M. rewrite M. reflexivity.
  Qed.
End Serde.
