"""C06 -- the real part is transparent and alone decides comparisons and branches."""
import vlib, genvals
from vlib import Case
from props.base import BaseProp, Violation
import props.c01 as c01

UNARY = [f for f in c01.DOM if f not in ('sin_cos', 'log', 'abs', 'signum')] + ['sph_j0', 'sph_j1', 'sph_j2']
DOM = dict(c01.DOM)
for k in ('sph_j0', 'sph_j1', 'sph_j2'):
    DOM[k] = lambda r: r.uniform(0.1, 20)
BIN = ['add', 'sub', 'mul', 'div', 'powd', 'atan2', 'abs_sub', 'eq']
PRED = ['is_zero', 'is_one', 'is_positive', 'is_negative', 'abs', 'signum']
# operations whose real part is computed by a different expression than the plain float operation (a few ulps allowed)
INEXACT = {'tan': 8, 'tanh': 8, 'div': 4, 'powd': 16, 'sph_j0': 8, 'sph_j1': 64, 'sph_j2': 256, 'powi': 16, 'powf': 16, 'recip': 0}


def with_re(v, src, ty):
    """copy of v whose whole real-part path equals that of src"""
    if ty.is_float:
        return src
    out = list(v)
    out[0] = with_re(v[0], src[0], ty.inner)
    return out


def field_compatible(ty):
    while not ty.is_float:
        if ty.struct not in ('Dual', 'Dual2', 'DualVec', 'Dual2Vec'):
            return False
        ty = ty.inner
    return True


def ulps(a, b):
    def key(x):
        return x if x < (1 << 63) else (1 << 63) - x
    return abs(key(a) - key(b))


class Prop(BaseProp):
    replay_whole = True
    coq_targets = ['ND/Proofs/C06_proofs.vo']
    extra_model_targets = ['gen/Gen_Field.vo']
    extra_imports = 'From NDgen Require Import Gen_Field.'
    n_quick, n_thorough = 1200, 12000

    def cases(self, rng, n):
        tys = genvals.type_list(self.tier, include32=False)
        F = vlib.types()['f64']
        out = []
        k = 0
        ops = UNARY + BIN + PRED + ['powi', 'powf']

        def triple(ty, op, a, aux):
            a2 = [with_re(genvals.gen_value(rng, ty, genvals.leaf_rand), x, ty) for x in a]
            base = 'c%d' % len(out)
            out.append(Case(base, ty, op, a, aux, tag='A'))
            out.append(Case(base + 'b', ty, op, a2, aux, tag='B'))
            fl = []
            for x in a:
                t, v = ty, x
                while not t.is_float:
                    v, t = v[0], t.inner
                fl.append(v)
            out.append(Case(base + 'f', F, op, fl, aux, tag='F'))
        # ordering comparisons, min, max and clamp on the four field-compatible types: ties, signed zeros and ordinary values
        T = vlib.types()
        ORD = ['po_lt', 'po_le', 'po_gt', 'po_ge', 'po_cmp_less', 'po_cmp_equal', 'po_cmp_greater', 'po_cmp_none', 'rf_max', 'rf_min', 'rf_clamp']
        for tn in ('Dual64', 'Dual2_64', 'DualSVec64_2', 'DualDVec64:3', 'Dual2SVec64_2', 'Dual2DVec64:3'):
            ty = T[tn]
            for op in ORD:
                for rep in (range(ORD.index(op) % 2, ORD.index(op) % 2 + 1) if self.tier == 'quick' else range(6)):
                    nargs = vlib.OPS[op][2]
                    pool = [0.0, -0.0, 1.0, -1.0, 2.5, -3.0] + ([float('nan')] if op.startswith('po_') else [])
                    res = [rng.choice(pool) for _ in range(nargs)]
                    if rep == 0:
                        res = [res[0]] * nargs                     # a tie
                    if op == 'rf_clamp':
                        res = [res[0]] + sorted(res[1:])           # min <= max
                    a = [genvals.gen_value(rng, ty, genvals.leaf_rand, re_leaf=lambda r, v=v: v) for v in res]
                    triple(ty, op, a, [])
        # the predicates and == on every type of the tier, with ties and special real parts, every run
        forced = [(ty, op) for ty in tys for op in PRED + ['eq']]
        while len(out) < n:
            if forced:
                ty, op = forced.pop(0)
            else:
                # every operation early (operation index runs fastest, the type advances with a stride)
                op = ops[k % len(ops)] if k < len(tys) * len(ops) else rng.choice(ops)
                ty = tys[(3 * k + k // len(ops)) % len(tys)]
                k += 1
            aux = []
            if op in UNARY:
                re_leaf = DOM[op]
            elif op in ('powd', 'powf'):
                re_leaf = lambda r: r.uniform(0.1, 5)
            elif op == 'div':
                re_leaf = lambda r: r.choice([1, -1]) * r.uniform(0.2, 4)
            elif op == 'eq':
                tie = rng.choice([0.0, 1.0, -0.0, -1.0, 2.5, -3.0])
                re_leaf = (lambda r, tie=tie: tie) if rng.below(2) else (lambda r: r.choice([0.0, 1.0, -0.0, -1.0, 2.5, -3.0, float('nan')]))
            elif op in ('is_zero', 'is_one', 'signum', 'abs', 'is_positive', 'is_negative'):
                re_leaf = lambda r: r.choice([0.0, 1.0, -0.0, -1.0, 2.5, -3.0, float('nan')])
            else:
                re_leaf = lambda r: r.choice([1, -1]) * r.uniform(0.2, 4)
            if op == 'powi':
                aux = [rng.choice([0, 1, 2, 3, 5, -1, -2, -3, 7])]
            if op == 'powf':
                aux = [vlib.f2b(rng.choice([0.0, 1.0, 2.0, 2.5, -1.5, 3.0, 0.5]))]
            nargs = vlib.OPS[op][2]
            a = [genvals.gen_value(rng, ty, genvals.leaf_rand, re_leaf=re_leaf) for _ in range(nargs)]
            triple(ty, op, a, aux)
        return out

    def model_applicable(self, case):
        # the comparison / selection methods of the field-compatible types have no plain-float counterpart in the generated model
        if case.ty.is_float and case.op.startswith(('po_', 'rf_')):
            return False
        return BaseProp.model_applicable(self, case)

    def re_of(self, case, res):
        kind = vlib.OPS[case.op][1]
        if kind != 'val':
            return res
        t, v = case.ty, res
        while not t.is_float:
            v, t = v[0], t.inner
        return v

    def oracle(self, case, impl):
        if case.tag != 'A':
            return None
        if case.op == 'eq' and not field_compatible(case.ty):
            # the property speaks of == only on the four field-compatible types; the derived PartialEq of Dual3, HyperDual*,
            # HyperHyperDual compares all fields by design (documented, not flagged)
            return None
        rb = self.impl_results[case.id + 'b']
        rf = self.impl_results[case.id + 'f']
        ra, rbb = self.re_of(case, impl), self.re_of(case, rb)
        if ra != rbb:
            return Violation('counterexample', '%s on %s: real part (or decision) changes when only derivative parts change: %r vs %r' % (case.op, case.ty, ra, rbb),
                             case=case, expected=ra, obtained=rbb, detail={'other_operands': self.case_by_id[case.id + 'b'].describe()})
        if impl == 'panic' or rf == 'panic':
            return None
        if ra != rf:
            tol = INEXACT.get(case.op)
            okk = False
            if tol is not None and isinstance(ra, int) and isinstance(rf, int):
                okk = ulps(ra, rf) <= tol
            if case.op in ('signum', 'abs', 'is_positive', 'is_negative') :
                # documented design choices, not flagged: signum(+-0) = 0 for duals, is_positive(+0) etc. follow num_traits on the inner number
                x = vlib.b2f(self.case_by_id[case.id + 'f'].args[0])
                okk = okk or x == 0 or x != x
            if not okk:
                return Violation('counterexample', '%s on %s: real part %r differs from the plain float result %r' % (case.op, case.ty, ra, rf), case=case,
                                 expected=rf, obtained=ra)
        return None

    def nontrivial(self, case, impl):
        return case.tag == 'A' and impl != 'panic'

    def rule_text(self):
        return ('triples per (type, operation): operands A, operands B with the same real parts and independent derivative parts, and the plain-float '
                'evaluation; ordering comparisons (<, <=, >, >=, partial_cmp), max, min, clamp on the field-compatible types at ties, signed zeros and NaN; checked: real part / boolean decision of A and B bit-identical, and equal to the float result (bit-identical for forwarded '
                'operations, within a few ulps for tan, tanh, /, powers, sph_j*); non-trivial = an A case that does not panic')
