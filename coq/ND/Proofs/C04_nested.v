(* Proofs/C04_nested.v -- written by tools/coqgen/gen_c04n.py *)
From ND Require Import Tactics C02_proofs C01_towers C01_faa C07_proofs C08_lift C09_proofs C09_faa Prog Agree C04_inst.
Local Open Scope R_scope.
Notation DD := (Dual (Dual R)).
Notation DDD := (Dual (Dual (Dual R))).
Definition part_DD (x : DD) (S : @block nat) : R :=
  match S with
  | nil => Dual_f_re (Dual_f_re x) | 1%nat :: nil => Dual_f_re (Dual_f_eps x) | 2%nat :: nil => Dual_f_eps (Dual_f_re x)
  | 1%nat :: 2%nat :: nil => Dual_f_eps (Dual_f_eps x) | _ => 0 end.
Definition part_DDD (x : DDD) (S : @block nat) : R :=
  match S with
  | nil => Dual_f_re (Dual_f_re (Dual_f_re x))
  | 1%nat :: nil => Dual_f_re (Dual_f_re (Dual_f_eps x)) | 2%nat :: nil => Dual_f_re (Dual_f_eps (Dual_f_re x)) | 3%nat :: nil => Dual_f_eps (Dual_f_re (Dual_f_re x))
  | 1%nat :: 2%nat :: nil => Dual_f_re (Dual_f_eps (Dual_f_eps x)) | 1%nat :: 3%nat :: nil => Dual_f_eps (Dual_f_re (Dual_f_eps x))
  | 2%nat :: 3%nat :: nil => Dual_f_eps (Dual_f_eps (Dual_f_re x))
  | 1%nat :: 2%nat :: 3%nat :: nil => Dual_f_eps (Dual_f_eps (Dual_f_eps x)) | _ => 0 end.
Ltac fldn := first [ rcbv; unfold tanh, tan; try replace (1 + 1) with 2 by lra; field; side
                   | rcbv; unfold tanh; match goal with H : 0 < cosh ?r |- _ => pose proof (cosh2_sinh2 r) end; rat_nsatz' ].
Ltac dDD x := destruct x as [[r ?] [? ?]].
Ltac dDDD x := destruct x as [[[r ?] [? ?]] [[? ?] [? ?]]].

Lemma mul_DD : mul_is_leibniz part_DD (fun a b : DD => (a * b)%rs) idx_HyperDual.
Proof. intros a b S H; dDD a; rename r into r1; dDD b; each_block H jet_ring. Qed.
Lemma div_DD : div_is_quotient part_DD (fun a b : DD => (a / b)%rs) idx_HyperDual.
Proof. intros a b S Hr H; dDD a; rename r into r1; dDD b; simpl in Hr; each_block H jet_field. Qed.
Lemma lin_DD : linear_ops part_DD (fun a b : DD => (a + b)%rs) (fun a b => (a - b)%rs) (fun a => (- a)%rs) idx_HyperDual.
Proof. intros a b S H; dDD a; rename r into r1; dDD b; each_block H ltac:(rcbv; repeat split; ring). Qed.
Lemma faa_DD_recip : forall x : DD, (Dual_f_re (Dual_f_re x)) <> 0 -> forall S, In S idx_HyperDual ->
  part_DD (m_recip x) S = faa (tw3 m_recip (Dual_f_re (Dual_f_re x))) (part_DD x) S.
Proof. intros x Hd S H; dDD x; simpl in Hd;  each_block H fldn. Qed.
Lemma faa_DD_sqrt : forall x : DD, 0 < (Dual_f_re (Dual_f_re x)) -> forall S, In S idx_HyperDual ->
  part_DD (m_sqrt x) S = faa (tw3 m_sqrt (Dual_f_re (Dual_f_re x))) (part_DD x) S.
Proof. intros x Hd S H; dDD x; simpl in Hd;  each_block H fldn. Qed.
Lemma faa_DD_cbrt : forall x : DD, (Dual_f_re (Dual_f_re x)) <> 0 -> forall S, In S idx_HyperDual ->
  part_DD (m_cbrt x) S = faa (tw3 m_cbrt (Dual_f_re (Dual_f_re x))) (part_DD x) S.
Proof. intros x Hd S H; dDD x; simpl in Hd;  each_block H fldn. Qed.
Lemma faa_DD_exp : forall x : DD, forall S, In S idx_HyperDual ->
  part_DD (m_exp x) S = faa (tw3 m_exp (Dual_f_re (Dual_f_re x))) (part_DD x) S.
Proof. intros x  S H; dDD x;   each_block H fldn. Qed.
Lemma faa_DD_exp2 : forall x : DD, forall S, In S idx_HyperDual ->
  part_DD (m_exp2 x) S = faa (tw3 m_exp2 (Dual_f_re (Dual_f_re x))) (part_DD x) S.
Proof. intros x  S H; dDD x;   each_block H fldn. Qed.
Lemma faa_DD_exp_m1 : forall x : DD, forall S, In S idx_HyperDual ->
  part_DD (m_exp_m1 x) S = faa (tw3 m_exp_m1 (Dual_f_re (Dual_f_re x))) (part_DD x) S.
Proof. intros x  S H; dDD x;   each_block H fldn. Qed.
Lemma faa_DD_ln : forall x : DD, 0 < (Dual_f_re (Dual_f_re x)) -> forall S, In S idx_HyperDual ->
  part_DD (m_ln x) S = faa (tw3 m_ln (Dual_f_re (Dual_f_re x))) (part_DD x) S.
Proof. intros x Hd S H; dDD x; simpl in Hd;  each_block H fldn. Qed.
Lemma faa_DD_log2 : forall x : DD, 0 < (Dual_f_re (Dual_f_re x)) -> forall S, In S idx_HyperDual ->
  part_DD (m_log2 x) S = faa (tw3 m_log2 (Dual_f_re (Dual_f_re x))) (part_DD x) S.
Proof. intros x Hd S H; dDD x; simpl in Hd; pose proof ln2_pos; each_block H fldn. Qed.
Lemma faa_DD_log10 : forall x : DD, 0 < (Dual_f_re (Dual_f_re x)) -> forall S, In S idx_HyperDual ->
  part_DD (m_log10 x) S = faa (tw3 m_log10 (Dual_f_re (Dual_f_re x))) (part_DD x) S.
Proof. intros x Hd S H; dDD x; simpl in Hd; pose proof ln10_pos; each_block H fldn. Qed.
Lemma faa_DD_ln_1p : forall x : DD, -1 < (Dual_f_re (Dual_f_re x)) -> forall S, In S idx_HyperDual ->
  part_DD (m_ln_1p x) S = faa (tw3 m_ln_1p (Dual_f_re (Dual_f_re x))) (part_DD x) S.
Proof. intros x Hd S H; dDD x; simpl in Hd;  each_block H fldn. Qed.
Lemma faa_DD_sin : forall x : DD, forall S, In S idx_HyperDual ->
  part_DD (m_sin x) S = faa (tw3 m_sin (Dual_f_re (Dual_f_re x))) (part_DD x) S.
Proof. intros x  S H; dDD x;   each_block H fldn. Qed.
Lemma faa_DD_cos : forall x : DD, forall S, In S idx_HyperDual ->
  part_DD (m_cos x) S = faa (tw3 m_cos (Dual_f_re (Dual_f_re x))) (part_DD x) S.
Proof. intros x  S H; dDD x;   each_block H fldn. Qed.
Lemma faa_DD_tan : forall x : DD, cos (Dual_f_re (Dual_f_re x)) <> 0 -> forall S, In S idx_HyperDual ->
  part_DD (m_tan x) S = faa (tw3 m_tan (Dual_f_re (Dual_f_re x))) (part_DD x) S.
Proof. intros x Hd S H; dDD x; simpl in Hd;  each_block H fldn. Qed.
Lemma faa_DD_asin : forall x : DD, -1 < (Dual_f_re (Dual_f_re x)) < 1 -> forall S, In S idx_HyperDual ->
  part_DD (m_asin x) S = faa (tw3 m_asin (Dual_f_re (Dual_f_re x))) (part_DD x) S.
Proof. intros x Hd S H; dDD x; simpl in Hd;  each_block H fldn. Qed.
Lemma faa_DD_acos : forall x : DD, -1 < (Dual_f_re (Dual_f_re x)) < 1 -> forall S, In S idx_HyperDual ->
  part_DD (m_acos x) S = faa (tw3 m_acos (Dual_f_re (Dual_f_re x))) (part_DD x) S.
Proof. intros x Hd S H; dDD x; simpl in Hd;  each_block H fldn. Qed.
Lemma faa_DD_atan : forall x : DD, forall S, In S idx_HyperDual ->
  part_DD (m_atan x) S = faa (tw3 m_atan (Dual_f_re (Dual_f_re x))) (part_DD x) S.
Proof. intros x  S H; dDD x;   each_block H fldn. Qed.
Lemma faa_DD_sinh : forall x : DD, forall S, In S idx_HyperDual ->
  part_DD (m_sinh x) S = faa (tw3 m_sinh (Dual_f_re (Dual_f_re x))) (part_DD x) S.
Proof. intros x  S H; dDD x;   each_block H fldn. Qed.
Lemma faa_DD_cosh : forall x : DD, forall S, In S idx_HyperDual ->
  part_DD (m_cosh x) S = faa (tw3 m_cosh (Dual_f_re (Dual_f_re x))) (part_DD x) S.
Proof. intros x  S H; dDD x;   each_block H fldn. Qed.
Lemma faa_DD_tanh : forall x : DD, forall S, In S idx_HyperDual ->
  part_DD (m_tanh x) S = faa (tw3 m_tanh (Dual_f_re (Dual_f_re x))) (part_DD x) S.
Proof. intros x  S H; dDD x;  pose proof (cosh_pos r); each_block H fldn. Qed.
Lemma faa_DD_asinh : forall x : DD, forall S, In S idx_HyperDual ->
  part_DD (m_asinh x) S = faa (tw3 m_asinh (Dual_f_re (Dual_f_re x))) (part_DD x) S.
Proof. intros x  S H; dDD x;   each_block H fldn. Qed.
Lemma faa_DD_acosh : forall x : DD, 1 < (Dual_f_re (Dual_f_re x)) -> forall S, In S idx_HyperDual ->
  part_DD (m_acosh x) S = faa (tw3 m_acosh (Dual_f_re (Dual_f_re x))) (part_DD x) S.
Proof. intros x Hd S H; dDD x; simpl in Hd;  each_block H fldn. Qed.
Lemma faa_DD_atanh : forall x : DD, -1 < (Dual_f_re (Dual_f_re x)) < 1 -> forall S, In S idx_HyperDual ->
  part_DD (m_atanh x) S = faa (tw3 m_atanh (Dual_f_re (Dual_f_re x))) (part_DD x) S.
Proof. intros x Hd S H; dDD x; simpl in Hd;  each_block H fldn. Qed.
Definition pw_nested (n : Z) : Prop := (0 <= n <= 8)%Z.
Lemma faa_DD_powi : forall (n : Z) (x : DD) S, pw_nested n -> In S idx_HyperDual -> part_DD (m_powi x n) S = faa (tw3 (fun d => m_powi d n) (Dual_f_re (Dual_f_re x))) (part_DD x) S.
Proof. intros n x S Hn H; dDD x; unfold pw_nested in Hn; assert (Hc : (n = 0 \/ n = 1 \/ n = 2 \/ n = 3 \/ n = 4 \/ n = 5 \/ n = 6 \/ n = 7 \/ n = 8)%Z) by lia;
  repeat (destruct Hc as [->|Hc]); try subst n; each_block H ltac:(rcbv; unfold powerRZ; simpl; ring). Qed.
Lemma lift_DD_add : forall (x : DD) (q : R) S, In S idx_HyperDual -> part_DD (x + q)%rs S = part_DD (x + (ofF q : DD))%rs S.
Proof. intros x q S  H; dDD x; each_block H ltac:(rcbv; try reflexivity; try ring; field; side). Qed.
Lemma lift_DD_sub : forall (x : DD) (q : R) S, In S idx_HyperDual -> part_DD (x - q)%rs S = part_DD (x - (ofF q : DD))%rs S.
Proof. intros x q S  H; dDD x; each_block H ltac:(rcbv; try reflexivity; try ring; field; side). Qed.
Lemma lift_DD_mul : forall (x : DD) (q : R) S, In S idx_HyperDual -> part_DD (x * q)%rs S = part_DD (x * (ofF q : DD))%rs S.
Proof. intros x q S  H; dDD x; each_block H ltac:(rcbv; try reflexivity; try ring; field; side). Qed.
Lemma lift_DD_div : forall (x : DD) (q : R) S, q <> 0 -> In S idx_HyperDual -> part_DD (x / q)%rs S = part_DD (x / (ofF q : DD))%rs S.
Proof. intros x q S Hq H; dDD x; each_block H ltac:(rcbv; try reflexivity; try ring; field; side). Qed.
Lemma JA_c04_DD : JetAlgF (DN_Dual (T:=Dual R)) part_DD (fun _ => True) fam_c04_HyperDual pw_nested.
Proof.
  constructor.
  - reflexivity.
  - exact fam_sub_HyperDual.
  - exact fam_len_HyperDual.
  - intros a b _ _ S F; exact (mul_DD a b S F).
  - intros a b _ _ Hb S F; exact (div_DD a b S Hb F).
  - intros a b S F; exact (lin_DD a b S F).
  - intros u x Hu Wx Hd S F; destruct u; try (exfalso; apply Hu; reflexivity); simpl in Hd;
    first [ exact (faa_DD_recip x Hd S F) | exact (faa_DD_sqrt x Hd S F) | exact (faa_DD_cbrt x Hd S F) | exact (faa_DD_exp x S F) | exact (faa_DD_exp2 x S F) | exact (faa_DD_exp_m1 x S F) | exact (faa_DD_ln x Hd S F) | exact (faa_DD_log2 x Hd S F) | exact (faa_DD_log10 x Hd S F) | exact (faa_DD_ln_1p x Hd S F) | exact (faa_DD_sin x S F) | exact (faa_DD_cos x S F) | exact (faa_DD_tan x Hd S F) | exact (faa_DD_asin x Hd S F) | exact (faa_DD_acos x Hd S F) | exact (faa_DD_atan x S F) | exact (faa_DD_sinh x S F) | exact (faa_DD_cosh x S F) | exact (faa_DD_tanh x S F) | exact (faa_DD_asinh x S F) | exact (faa_DD_acosh x Hd S F) | exact (faa_DD_atanh x Hd S F) ].
  - intros n x Pn Wx S F; exact (faa_DD_powi n x S Pn F).
  - intros c S F; unfold fam_c04_HyperDual in F; in_cases F; reflexivity.
  - intros b x c S Hc F; destruct b; simpl; [exact (lift_DD_add x c S F) | exact (lift_DD_sub x c S F) | exact (lift_DD_mul x c S F) | exact (lift_DD_div x c S (Hc eq_refl) F)].
  - intros; exact I.
  - intros; exact I.
  - intros; exact I.
  - intros; exact I.
  - intros; exact I.
Qed.

Lemma mul_DDD : mul_is_leibniz part_DDD (fun a b : DDD => (a * b)%rs) idx_HHD.
Proof. intros a b S H; dDDD a; rename r into r1; dDDD b; each_block H jet_ring. Qed.
Lemma div_DDD : div_is_quotient part_DDD (fun a b : DDD => (a / b)%rs) idx_HHD.
Proof. intros a b S Hr H; dDDD a; rename r into r1; dDDD b; simpl in Hr; each_block H jet_field. Qed.
Lemma lin_DDD : linear_ops part_DDD (fun a b : DDD => (a + b)%rs) (fun a b => (a - b)%rs) (fun a => (- a)%rs) idx_HHD.
Proof. intros a b S H; dDDD a; rename r into r1; dDDD b; each_block H ltac:(rcbv; repeat split; ring). Qed.
Lemma faa_DDD_recip : forall x : DDD, (Dual_f_re (Dual_f_re (Dual_f_re x))) <> 0 -> forall S, In S idx_HHD ->
  part_DDD (m_recip x) S = faa (tw3 m_recip (Dual_f_re (Dual_f_re (Dual_f_re x)))) (part_DDD x) S.
Proof. intros x Hd S H; dDDD x; simpl in Hd;  each_block H fldn. Qed.
Lemma faa_DDD_sqrt : forall x : DDD, 0 < (Dual_f_re (Dual_f_re (Dual_f_re x))) -> forall S, In S idx_HHD ->
  part_DDD (m_sqrt x) S = faa (tw3 m_sqrt (Dual_f_re (Dual_f_re (Dual_f_re x)))) (part_DDD x) S.
Proof. intros x Hd S H; dDDD x; simpl in Hd;  each_block H fldn. Qed.
Lemma faa_DDD_cbrt : forall x : DDD, (Dual_f_re (Dual_f_re (Dual_f_re x))) <> 0 -> forall S, In S idx_HHD ->
  part_DDD (m_cbrt x) S = faa (tw3 m_cbrt (Dual_f_re (Dual_f_re (Dual_f_re x)))) (part_DDD x) S.
Proof. intros x Hd S H; dDDD x; simpl in Hd;  each_block H fldn. Qed.
Lemma faa_DDD_exp : forall x : DDD, forall S, In S idx_HHD ->
  part_DDD (m_exp x) S = faa (tw3 m_exp (Dual_f_re (Dual_f_re (Dual_f_re x)))) (part_DDD x) S.
Proof. intros x  S H; dDDD x;   each_block H fldn. Qed.
Lemma faa_DDD_exp2 : forall x : DDD, forall S, In S idx_HHD ->
  part_DDD (m_exp2 x) S = faa (tw3 m_exp2 (Dual_f_re (Dual_f_re (Dual_f_re x)))) (part_DDD x) S.
Proof. intros x  S H; dDDD x;   each_block H fldn. Qed.
Lemma faa_DDD_exp_m1 : forall x : DDD, forall S, In S idx_HHD ->
  part_DDD (m_exp_m1 x) S = faa (tw3 m_exp_m1 (Dual_f_re (Dual_f_re (Dual_f_re x)))) (part_DDD x) S.
Proof. intros x  S H; dDDD x;   each_block H fldn. Qed.
Lemma faa_DDD_ln : forall x : DDD, 0 < (Dual_f_re (Dual_f_re (Dual_f_re x))) -> forall S, In S idx_HHD ->
  part_DDD (m_ln x) S = faa (tw3 m_ln (Dual_f_re (Dual_f_re (Dual_f_re x)))) (part_DDD x) S.
Proof. intros x Hd S H; dDDD x; simpl in Hd;  each_block H fldn. Qed.
Lemma faa_DDD_log2 : forall x : DDD, 0 < (Dual_f_re (Dual_f_re (Dual_f_re x))) -> forall S, In S idx_HHD ->
  part_DDD (m_log2 x) S = faa (tw3 m_log2 (Dual_f_re (Dual_f_re (Dual_f_re x)))) (part_DDD x) S.
Proof. intros x Hd S H; dDDD x; simpl in Hd; pose proof ln2_pos; each_block H fldn. Qed.
Lemma faa_DDD_log10 : forall x : DDD, 0 < (Dual_f_re (Dual_f_re (Dual_f_re x))) -> forall S, In S idx_HHD ->
  part_DDD (m_log10 x) S = faa (tw3 m_log10 (Dual_f_re (Dual_f_re (Dual_f_re x)))) (part_DDD x) S.
Proof. intros x Hd S H; dDDD x; simpl in Hd; pose proof ln10_pos; each_block H fldn. Qed.
Lemma faa_DDD_ln_1p : forall x : DDD, -1 < (Dual_f_re (Dual_f_re (Dual_f_re x))) -> forall S, In S idx_HHD ->
  part_DDD (m_ln_1p x) S = faa (tw3 m_ln_1p (Dual_f_re (Dual_f_re (Dual_f_re x)))) (part_DDD x) S.
Proof. intros x Hd S H; dDDD x; simpl in Hd;  each_block H fldn. Qed.
Lemma faa_DDD_sin : forall x : DDD, forall S, In S idx_HHD ->
  part_DDD (m_sin x) S = faa (tw3 m_sin (Dual_f_re (Dual_f_re (Dual_f_re x)))) (part_DDD x) S.
Proof. intros x  S H; dDDD x;   each_block H fldn. Qed.
Lemma faa_DDD_cos : forall x : DDD, forall S, In S idx_HHD ->
  part_DDD (m_cos x) S = faa (tw3 m_cos (Dual_f_re (Dual_f_re (Dual_f_re x)))) (part_DDD x) S.
Proof. intros x  S H; dDDD x;   each_block H fldn. Qed.
Lemma faa_DDD_tan : forall x : DDD, cos (Dual_f_re (Dual_f_re (Dual_f_re x))) <> 0 -> forall S, In S idx_HHD ->
  part_DDD (m_tan x) S = faa (tw3 m_tan (Dual_f_re (Dual_f_re (Dual_f_re x)))) (part_DDD x) S.
Proof. intros x Hd S H; dDDD x; simpl in Hd;  each_block H fldn. Qed.
Lemma faa_DDD_asin : forall x : DDD, -1 < (Dual_f_re (Dual_f_re (Dual_f_re x))) < 1 -> forall S, In S idx_HHD ->
  part_DDD (m_asin x) S = faa (tw3 m_asin (Dual_f_re (Dual_f_re (Dual_f_re x)))) (part_DDD x) S.
Proof. intros x Hd S H; dDDD x; simpl in Hd;  each_block H fldn. Qed.
Lemma faa_DDD_acos : forall x : DDD, -1 < (Dual_f_re (Dual_f_re (Dual_f_re x))) < 1 -> forall S, In S idx_HHD ->
  part_DDD (m_acos x) S = faa (tw3 m_acos (Dual_f_re (Dual_f_re (Dual_f_re x)))) (part_DDD x) S.
Proof. intros x Hd S H; dDDD x; simpl in Hd;  each_block H fldn. Qed.
Lemma faa_DDD_atan : forall x : DDD, forall S, In S idx_HHD ->
  part_DDD (m_atan x) S = faa (tw3 m_atan (Dual_f_re (Dual_f_re (Dual_f_re x)))) (part_DDD x) S.
Proof. intros x  S H; dDDD x;   each_block H fldn. Qed.
Lemma faa_DDD_sinh : forall x : DDD, forall S, In S idx_HHD ->
  part_DDD (m_sinh x) S = faa (tw3 m_sinh (Dual_f_re (Dual_f_re (Dual_f_re x)))) (part_DDD x) S.
Proof. intros x  S H; dDDD x;   each_block H fldn. Qed.
Lemma faa_DDD_cosh : forall x : DDD, forall S, In S idx_HHD ->
  part_DDD (m_cosh x) S = faa (tw3 m_cosh (Dual_f_re (Dual_f_re (Dual_f_re x)))) (part_DDD x) S.
Proof. intros x  S H; dDDD x;   each_block H fldn. Qed.
Lemma faa_DDD_tanh : forall x : DDD, forall S, In S idx_HHD ->
  part_DDD (m_tanh x) S = faa (tw3 m_tanh (Dual_f_re (Dual_f_re (Dual_f_re x)))) (part_DDD x) S.
Proof. intros x  S H; dDDD x;  pose proof (cosh_pos r); each_block H fldn. Qed.
Lemma faa_DDD_asinh : forall x : DDD, forall S, In S idx_HHD ->
  part_DDD (m_asinh x) S = faa (tw3 m_asinh (Dual_f_re (Dual_f_re (Dual_f_re x)))) (part_DDD x) S.
Proof. intros x  S H; dDDD x;   each_block H fldn. Qed.
Lemma faa_DDD_acosh : forall x : DDD, 1 < (Dual_f_re (Dual_f_re (Dual_f_re x))) -> forall S, In S idx_HHD ->
  part_DDD (m_acosh x) S = faa (tw3 m_acosh (Dual_f_re (Dual_f_re (Dual_f_re x)))) (part_DDD x) S.
Proof. intros x Hd S H; dDDD x; simpl in Hd;  each_block H fldn. Qed.
Lemma faa_DDD_atanh : forall x : DDD, -1 < (Dual_f_re (Dual_f_re (Dual_f_re x))) < 1 -> forall S, In S idx_HHD ->
  part_DDD (m_atanh x) S = faa (tw3 m_atanh (Dual_f_re (Dual_f_re (Dual_f_re x)))) (part_DDD x) S.
Proof. intros x Hd S H; dDDD x; simpl in Hd;  each_block H fldn. Qed.

Lemma faa_DDD_powi : forall (n : Z) (x : DDD) S, pw_nested n -> In S idx_HHD -> part_DDD (m_powi x n) S = faa (tw3 (fun d => m_powi d n) (Dual_f_re (Dual_f_re (Dual_f_re x)))) (part_DDD x) S.
Proof. intros n x S Hn H; dDDD x; unfold pw_nested in Hn; assert (Hc : (n = 0 \/ n = 1 \/ n = 2 \/ n = 3 \/ n = 4 \/ n = 5 \/ n = 6 \/ n = 7 \/ n = 8)%Z) by lia;
  repeat (destruct Hc as [->|Hc]); try subst n; each_block H ltac:(rcbv; unfold powerRZ; simpl; ring). Qed.
Lemma lift_DDD_add : forall (x : DDD) (q : R) S, In S idx_HHD -> part_DDD (x + q)%rs S = part_DDD (x + (ofF q : DDD))%rs S.
Proof. intros x q S  H; dDDD x; each_block H ltac:(rcbv; try reflexivity; try ring; field; side). Qed.
Lemma lift_DDD_sub : forall (x : DDD) (q : R) S, In S idx_HHD -> part_DDD (x - q)%rs S = part_DDD (x - (ofF q : DDD))%rs S.
Proof. intros x q S  H; dDDD x; each_block H ltac:(rcbv; try reflexivity; try ring; field; side). Qed.
Lemma lift_DDD_mul : forall (x : DDD) (q : R) S, In S idx_HHD -> part_DDD (x * q)%rs S = part_DDD (x * (ofF q : DDD))%rs S.
Proof. intros x q S  H; dDDD x; each_block H ltac:(rcbv; try reflexivity; try ring; field; side). Qed.
Lemma lift_DDD_div : forall (x : DDD) (q : R) S, q <> 0 -> In S idx_HHD -> part_DDD (x / q)%rs S = part_DDD (x / (ofF q : DDD))%rs S.
Proof. intros x q S Hq H; dDDD x; each_block H ltac:(rcbv; try reflexivity; try ring; field; side). Qed.
Lemma JA_c04_DDD : JetAlgF (DN_Dual (T:=Dual (Dual R))) part_DDD (fun _ => True) fam_c04_HyperHyperDual pw_nested.
Proof.
  constructor.
  - reflexivity.
  - exact fam_sub_HyperHyperDual.
  - exact fam_len_HyperHyperDual.
  - intros a b _ _ S F; exact (mul_DDD a b S F).
  - intros a b _ _ Hb S F; exact (div_DDD a b S Hb F).
  - intros a b S F; exact (lin_DDD a b S F).
  - intros u x Hu Wx Hd S F; destruct u; try (exfalso; apply Hu; reflexivity); simpl in Hd;
    first [ exact (faa_DDD_recip x Hd S F) | exact (faa_DDD_sqrt x Hd S F) | exact (faa_DDD_cbrt x Hd S F) | exact (faa_DDD_exp x S F) | exact (faa_DDD_exp2 x S F) | exact (faa_DDD_exp_m1 x S F) | exact (faa_DDD_ln x Hd S F) | exact (faa_DDD_log2 x Hd S F) | exact (faa_DDD_log10 x Hd S F) | exact (faa_DDD_ln_1p x Hd S F) | exact (faa_DDD_sin x S F) | exact (faa_DDD_cos x S F) | exact (faa_DDD_tan x Hd S F) | exact (faa_DDD_asin x Hd S F) | exact (faa_DDD_acos x Hd S F) | exact (faa_DDD_atan x S F) | exact (faa_DDD_sinh x S F) | exact (faa_DDD_cosh x S F) | exact (faa_DDD_tanh x S F) | exact (faa_DDD_asinh x S F) | exact (faa_DDD_acosh x Hd S F) | exact (faa_DDD_atanh x Hd S F) ].
  - intros n x Pn Wx S F; exact (faa_DDD_powi n x S Pn F).
  - intros c S F; unfold fam_c04_HyperHyperDual in F; in_cases F; reflexivity.
  - intros b x c S Hc F; destruct b; simpl; [exact (lift_DDD_add x c S F) | exact (lift_DDD_sub x c S F) | exact (lift_DDD_mul x c S F) | exact (lift_DDD_div x c S (Hc eq_refl) F)].
  - intros; exact I.
  - intros; exact I.
  - intros; exact I.
  - intros; exact I.
  - intros; exact I.
Qed.

(* nested first-order numbers agree with the hyper-dual types on every program (labels: outermost level first) *)
Definition rel_HyperDual_DD := rel (partX:=part_HyperDual) (wfX:=fun _ => True) (partY:=part_DD) (wfY:=fun _ => True) (famY:=fam_c04_HyperDual) (fun n : nat => n).
Theorem agree_HyperDual_DD p envX envY : Forall2 rel_HyperDual_DD envX envY -> ok (pwX:=fun _ => True) (pwY:=pw_nested) (partX:=part_HyperDual) envX p -> rel_HyperDual_DD (eval envX p) (eval envY p).
Proof. apply (prog_agree JA_c04_HyperDual JA_c04_DD (fun n => n)). intros S F. rewrite map_id. exact F. Qed.
Definition rel_HHD_DDD := rel (partX:=part_HHD) (wfX:=fun _ => True) (partY:=part_DDD) (wfY:=fun _ => True) (famY:=fam_c04_HyperHyperDual) (fun n : nat => n).
Theorem agree_HHD_DDD p envX envY : Forall2 rel_HHD_DDD envX envY -> ok (pwX:=fun _ => True) (pwY:=pw_nested) (partX:=part_HHD) envX p -> rel_HHD_DDD (eval envX p) (eval envY p).
Proof. apply (prog_agree JA_c04_HyperHyperDual JA_c04_DDD (fun n => n)). intros S F. rewrite map_id. exact F. Qed.

