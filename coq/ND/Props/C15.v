(* Props/C15.v -- property C15: spherical Bessel functions j0, j1, j2.  Written by tools/coqgen/gen_c15.py. *)
From ND Require Import Tactics C01_towers C01_faa C09_proofs C15_proofs C15_faa.
Local Open Scope R_scope.

Theorem C15_not_small_nz : forall x, ~ Rabs x < eps64 -> x <> 0.
Proof. exact not_small_nz. Qed.
Theorem C15_tower_closed_j0 : forall x, x <> 0 -> is_tower g_j0 (tw3 closed_j0) x.
Proof. exact tower_closed_j0. Qed.
Theorem C15_tower_closed_j1 : forall x, x <> 0 -> is_tower g_j1 (tw3 closed_j1) x.
Proof. exact tower_closed_j1. Qed.
Theorem C15_tower_closed_j2 : forall x, x <> 0 -> is_tower g_j2 (tw3 closed_j2) x.
Proof. exact tower_closed_j2. Qed.
Theorem C15_sph_branches : forall (d : Dual3 R), (~ Rabs (Dual3_f_re d) < eps64 -> m_sph_j0 d = closed_j0 d /\ m_sph_j1 d = closed_j1 d /\ m_sph_j2 d = closed_j2 d) /\
  (Rabs (Dual3_f_re d) < eps64 -> m_sph_j0 d = series_j0 d /\ m_sph_j1 d = series_j1 d /\ m_sph_j2 d = series_j2 d).
Proof. exact sph_branches. Qed.
Theorem C15_tower_series_j0 : forall x, is_tower p_j0 (tw3 series_j0) x.
Proof. exact tower_series_j0. Qed.
Theorem C15_tower_series_j1 : forall x, is_tower p_j1 (tw3 series_j1) x.
Proof. exact tower_series_j1. Qed.
Theorem C15_tower_series_j2 : forall x, is_tower p_j2 (tw3 series_j2) x.
Proof. exact tower_series_j2. Qed.
Theorem C15_tw3_sph_closed : forall x k, ~ Rabs x < eps64 ->
  tw3 m_sph_j0 x k = tw3 closed_j0 x k /\ tw3 m_sph_j1 x k = tw3 closed_j1 x k /\ tw3 m_sph_j2 x k = tw3 closed_j2 x k.
Proof. exact tw3_sph_closed. Qed.
Theorem C15_tw3_sph_series : forall x k, Rabs x < eps64 ->
  tw3 m_sph_j0 x k = tw3 series_j0 x k /\ tw3 m_sph_j1 x k = tw3 series_j1 x k /\ tw3 m_sph_j2 x k = tw3 series_j2 x k.
Proof. exact tw3_sph_series. Qed.
Theorem C15_float_impl_agrees : forall (d : Dual3 R), ~ Rabs (Dual3_f_re d) < eps64 ->
  Dual3_f_re (m_sph_j0 d) = Float_sph_j0 (Dual3_f_re d) /\
  Dual3_f_re (m_sph_j1 d) = Float_sph_j1 (Dual3_f_re d) /\
  Dual3_f_re (m_sph_j2 d) = Float_sph_j2 (Dual3_f_re d).
Proof. exact float_impl_agrees. Qed.
Theorem C15_faa_Dual_sph_j0 : forall (x : Dual R), forall S, In S idx_Dual ->
  part_Dual (m_sph_j0 x) S = faa (tw3 m_sph_j0 (Dual_f_re x)) (part_Dual x) S.
Proof. exact faa_Dual_sph_j0. Qed.
Theorem C15_faa_Dual_sph_j1 : forall (x : Dual R), forall S, In S idx_Dual ->
  part_Dual (m_sph_j1 x) S = faa (tw3 m_sph_j1 (Dual_f_re x)) (part_Dual x) S.
Proof. exact faa_Dual_sph_j1. Qed.
Theorem C15_faa_Dual_sph_j2 : forall (x : Dual R), forall S, In S idx_Dual ->
  part_Dual (m_sph_j2 x) S = faa (tw3 m_sph_j2 (Dual_f_re x)) (part_Dual x) S.
Proof. exact faa_Dual_sph_j2. Qed.
Theorem C15_faa_Dual2_sph_j0 : forall (x : Dual2 R), forall S, In S idx_Dual2 ->
  part_Dual2 (m_sph_j0 x) S = faa (tw3 m_sph_j0 (Dual2_f_re x)) (part_Dual2 x) S.
Proof. exact faa_Dual2_sph_j0. Qed.
Theorem C15_faa_Dual2_sph_j1 : forall (x : Dual2 R), forall S, In S idx_Dual2 ->
  part_Dual2 (m_sph_j1 x) S = faa (tw3 m_sph_j1 (Dual2_f_re x)) (part_Dual2 x) S.
Proof. exact faa_Dual2_sph_j1. Qed.
Theorem C15_faa_Dual2_sph_j2 : forall (x : Dual2 R), forall S, In S idx_Dual2 ->
  part_Dual2 (m_sph_j2 x) S = faa (tw3 m_sph_j2 (Dual2_f_re x)) (part_Dual2 x) S.
Proof. exact faa_Dual2_sph_j2. Qed.
Theorem C15_faa_Dual3_sph_j0 : forall (x : Dual3 R), forall S, In S idx_Dual3 ->
  part_Dual3 (m_sph_j0 x) S = faa (tw3 m_sph_j0 (Dual3_f_re x)) (part_Dual3 x) S.
Proof. exact faa_Dual3_sph_j0. Qed.
Theorem C15_faa_Dual3_sph_j1 : forall (x : Dual3 R), forall S, In S idx_Dual3 ->
  part_Dual3 (m_sph_j1 x) S = faa (tw3 m_sph_j1 (Dual3_f_re x)) (part_Dual3 x) S.
Proof. exact faa_Dual3_sph_j1. Qed.
Theorem C15_faa_Dual3_sph_j2 : forall (x : Dual3 R), forall S, In S idx_Dual3 ->
  part_Dual3 (m_sph_j2 x) S = faa (tw3 m_sph_j2 (Dual3_f_re x)) (part_Dual3 x) S.
Proof. exact faa_Dual3_sph_j2. Qed.
Theorem C15_faa_HyperDual_sph_j0 : forall (x : HyperDual R), forall S, In S idx_HyperDual ->
  part_HyperDual (m_sph_j0 x) S = faa (tw3 m_sph_j0 (HyperDual_f_re x)) (part_HyperDual x) S.
Proof. exact faa_HyperDual_sph_j0. Qed.
Theorem C15_faa_HyperDual_sph_j1 : forall (x : HyperDual R), forall S, In S idx_HyperDual ->
  part_HyperDual (m_sph_j1 x) S = faa (tw3 m_sph_j1 (HyperDual_f_re x)) (part_HyperDual x) S.
Proof. exact faa_HyperDual_sph_j1. Qed.
Theorem C15_faa_HyperDual_sph_j2 : forall (x : HyperDual R), forall S, In S idx_HyperDual ->
  part_HyperDual (m_sph_j2 x) S = faa (tw3 m_sph_j2 (HyperDual_f_re x)) (part_HyperDual x) S.
Proof. exact faa_HyperDual_sph_j2. Qed.
Theorem C15_faa_HyperHyperDual_sph_j0 : forall (x : HyperHyperDual R), forall S, In S idx_HHD ->
  part_HHD (m_sph_j0 x) S = faa (tw3 m_sph_j0 (HyperHyperDual_f_re x)) (part_HHD x) S.
Proof. exact faa_HyperHyperDual_sph_j0. Qed.
Theorem C15_faa_HyperHyperDual_sph_j1 : forall (x : HyperHyperDual R), forall S, In S idx_HHD ->
  part_HHD (m_sph_j1 x) S = faa (tw3 m_sph_j1 (HyperHyperDual_f_re x)) (part_HHD x) S.
Proof. exact faa_HyperHyperDual_sph_j1. Qed.
Theorem C15_faa_HyperHyperDual_sph_j2 : forall (x : HyperHyperDual R), forall S, In S idx_HHD ->
  part_HHD (m_sph_j2 x) S = faa (tw3 m_sph_j2 (HyperHyperDual_f_re x)) (part_HHD x) S.
Proof. exact faa_HyperHyperDual_sph_j2. Qed.
Theorem C15_faa_DualVec_sph_j0 : forall i, forall (x : DualVec R), forall S, In S (idx_DualVec i) ->
  part_DualVec (m_sph_j0 x) S = faa (tw3 m_sph_j0 (DualVec_f_re x)) (part_DualVec x) S.
Proof. exact faa_DualVec_sph_j0. Qed.
Theorem C15_faa_DualVec_sph_j1 : forall i, forall (x : DualVec R), forall S, In S (idx_DualVec i) ->
  part_DualVec (m_sph_j1 x) S = faa (tw3 m_sph_j1 (DualVec_f_re x)) (part_DualVec x) S.
Proof. exact faa_DualVec_sph_j1. Qed.
Theorem C15_faa_DualVec_sph_j2 : forall i, forall (x : DualVec R), forall S, In S (idx_DualVec i) ->
  part_DualVec (m_sph_j2 x) S = faa (tw3 m_sph_j2 (DualVec_f_re x)) (part_DualVec x) S.
Proof. exact faa_DualVec_sph_j2. Qed.
Theorem C15_faa_Dual2Vec_sph_j0 : forall i j, forall (x : Dual2Vec R), wf_Dual2Vec x -> forall S, In S (idx_Dual2Vec i j) ->
  part_Dual2Vec (m_sph_j0 x) S = faa (tw3 m_sph_j0 (Dual2Vec_f_re x)) (part_Dual2Vec x) S.
Proof. exact faa_Dual2Vec_sph_j0. Qed.
Theorem C15_faa_Dual2Vec_sph_j1 : forall i j, forall (x : Dual2Vec R), wf_Dual2Vec x -> forall S, In S (idx_Dual2Vec i j) ->
  part_Dual2Vec (m_sph_j1 x) S = faa (tw3 m_sph_j1 (Dual2Vec_f_re x)) (part_Dual2Vec x) S.
Proof. exact faa_Dual2Vec_sph_j1. Qed.
Theorem C15_faa_Dual2Vec_sph_j2 : forall i j, forall (x : Dual2Vec R), wf_Dual2Vec x -> forall S, In S (idx_Dual2Vec i j) ->
  part_Dual2Vec (m_sph_j2 x) S = faa (tw3 m_sph_j2 (Dual2Vec_f_re x)) (part_Dual2Vec x) S.
Proof. exact faa_Dual2Vec_sph_j2. Qed.
Theorem C15_faa_HyperDualVec_sph_j0 : forall i j, forall (x : HyperDualVec R), wf_HyperDualVec x -> forall S, In S (idx_HyperDualVec i j) ->
  part_HyperDualVec (m_sph_j0 x) S = faa (tw3 m_sph_j0 (HyperDualVec_f_re x)) (part_HyperDualVec x) S.
Proof. exact faa_HyperDualVec_sph_j0. Qed.
Theorem C15_faa_HyperDualVec_sph_j1 : forall i j, forall (x : HyperDualVec R), wf_HyperDualVec x -> forall S, In S (idx_HyperDualVec i j) ->
  part_HyperDualVec (m_sph_j1 x) S = faa (tw3 m_sph_j1 (HyperDualVec_f_re x)) (part_HyperDualVec x) S.
Proof. exact faa_HyperDualVec_sph_j1. Qed.
Theorem C15_faa_HyperDualVec_sph_j2 : forall i j, forall (x : HyperDualVec R), wf_HyperDualVec x -> forall S, In S (idx_HyperDualVec i j) ->
  part_HyperDualVec (m_sph_j2 x) S = faa (tw3 m_sph_j2 (HyperDualVec_f_re x)) (part_HyperDualVec x) S.
Proof. exact faa_HyperDualVec_sph_j2. Qed.

(* non-vacuity: 1.2 and -1.2 are above the switch, 0 is below *)
Example C15_premises_hold : ~ Rabs (-12 / 10) < eps64 /\ Rabs 0 < eps64.
Proof. unfold eps64. split. - rewrite Rabs_left by lra. lra. - rewrite Rabs_R0. apply Rinv_0_lt_compat. lra. Qed.
(* the defect repaired in /repo: testing the signed value sends every negative argument to the series *)
Example C15_signed_test_was_wrong : -12 / 10 < eps64.
Proof. unfold eps64. assert (0 < / 4503599627370496) by (apply Rinv_0_lt_compat; lra). lra. Qed.

Definition C15_bundle := (C15_not_small_nz,
  C15_tower_closed_j0,
  C15_tower_closed_j1,
  C15_tower_closed_j2,
  C15_sph_branches,
  C15_tower_series_j0,
  C15_tower_series_j1,
  C15_tower_series_j2,
  C15_tw3_sph_closed,
  C15_tw3_sph_series,
  C15_float_impl_agrees,
  C15_faa_Dual_sph_j0,
  C15_faa_Dual_sph_j1,
  C15_faa_Dual_sph_j2,
  C15_faa_Dual2_sph_j0,
  C15_faa_Dual2_sph_j1,
  C15_faa_Dual2_sph_j2,
  C15_faa_Dual3_sph_j0,
  C15_faa_Dual3_sph_j1,
  C15_faa_Dual3_sph_j2,
  C15_faa_HyperDual_sph_j0,
  C15_faa_HyperDual_sph_j1,
  C15_faa_HyperDual_sph_j2,
  C15_faa_HyperHyperDual_sph_j0,
  C15_faa_HyperHyperDual_sph_j1,
  C15_faa_HyperHyperDual_sph_j2,
  C15_faa_DualVec_sph_j0,
  C15_faa_DualVec_sph_j1,
  C15_faa_DualVec_sph_j2,
  C15_faa_Dual2Vec_sph_j0,
  C15_faa_Dual2Vec_sph_j1,
  C15_faa_Dual2Vec_sph_j2,
  C15_faa_HyperDualVec_sph_j0,
  C15_faa_HyperDualVec_sph_j1,
  C15_faa_HyperDualVec_sph_j2).
Print Assumptions C15_bundle.
