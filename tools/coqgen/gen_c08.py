#!/usr/bin/env python3
"""Writes coq/ND/Proofs/C08_proofs.v and coq/ND/Props/C08.v (statements repeat over 8 types x ~50 forms)."""
TYPES = {  # struct -> (fields, part fn, idx, binders, destruct)
    'Dual': (['re', 'eps'], 'part_Dual', 'idx_Dual', '', 'destruct x as [r ?]'),
    'Dual2': (['re', 'v1', 'v2'], 'part_Dual2', 'idx_Dual2', '', 'destruct x as [r ? ?]'),
    'Dual3': (['re', 'v1', 'v2', 'v3'], 'part_Dual3', 'idx_Dual3', '', 'destruct x as [r ? ? ?]'),
    'HyperDual': (['re', 'eps1', 'eps2', 'eps1eps2'], 'part_HyperDual', 'idx_HyperDual', '', 'destruct x as [r ? ? ?]'),
    'HyperHyperDual': (['re'] + ['e'] * 7, 'part_HHD', 'idx_HHD', '', 'destruct x as [r ? ? ? ? ? ? ?]'),
    'DualVec': (['re', 'D'], 'part_DualVec', '(idx_DualVec i)', 'i', 'destruct x as [r [[?|]]]; dmat'),
    'Dual2Vec': (['re', 'D', 'D'], 'part_Dual2Vec', '(idx_Dual2Vec i j)', 'i j', 'destruct x as [r [[?|]] [[?|]]]; dmat'),
    'HyperDualVec': (['re', 'D', 'D', 'D'], 'part_HyperDualVec', '(idx_HyperDualVec i j)', 'i j', 'destruct x as [r [[?|]] [[?|]] [[?|]]]; dmat'),
}
FCONSTS = ("E FRAC_1_PI FRAC_1_SQRT_2 FRAC_2_PI FRAC_2_SQRT_PI FRAC_PI_2 FRAC_PI_3 FRAC_PI_4 FRAC_PI_6 FRAC_PI_8 "
           "LN_10 LN_2 LOG10_E LOG2_E PI SQRT_2").split()
PRIMS = 'isize i8 i16 i32 i64 i128 u8 u16 u32 u64 u128'.split()
OPSYM = {'add': '+', 'sub': '-', 'mul': '*', 'div': '/'}

G = []  # generic lemmas (abstract F T)
for S, (flds, part, idx, bind, destr) in TYPES.items():
    for op, sym in OPSYM.items():
        for form in ('rv', 'vr', 'vv'):
            G.append(('form_%s_%s_%s' % (S, op, form), 'forall x y : %s T, %s_%s_%s x y = x %s y' % (S, S, op, form, sym), 'intros; reflexivity.'))
    G.append(('form_%s_neg_v' % S, 'forall x : %s T, %s_neg_v x = - x' % (S, S), 'intros; reflexivity.'))
    G.append(('form_%s_mul_assign' % S, 'forall x y : %s T, hmul_assign x y = x * y' % S, 'intros; reflexivity.'))
    G.append(('form_%s_div_assign' % S, 'forall x y : %s T, hdiv_assign x y = x / y' % S, 'intros; reflexivity.'))
    for op, sym in OPSYM.items():
        G.append(('form_%s_%s_F' % (S, op), 'forall (x : %s T) (q : F), x %s q = h%s_assign x q' % (S, sym, op), 'intros; reflexivity.'))
    G.append(('form_%s_inv' % S, 'forall x : %s T, m_inv x = m_recip x' % S, 'intros; reflexivity.'))
    G.append(('form_%s_mul_add' % S, 'forall x a b : %s T, m_mul_add x a b = x * a + b' % S, 'intros; reflexivity.'))
    G.append(('form_%s_sum' % S, 'forall l : list (%s T), %s_Sum_sum l = fold_left (fun acc c => acc + c) l (zero : %s T) /\\ %s_Sum_sum_2 l = fold_left (fun acc c => acc + c) l (zero : %s T)' % ((S,) * 5),
              'intros; split; reflexivity.'))
    G.append(('form_%s_product' % S, 'forall l : list (%s T), %s_Product_product l = fold_left (fun acc c => acc * c) l (one : %s T) /\\ %s_Product_product_2 l = fold_left (fun acc c => acc * c) l (one : %s T)' % ((S,) * 5),
              'intros; split; reflexivity.'))
    consts = 'fun r : T => mk%s r %s' % (S, ' '.join('zero' if f != 'D' else 'Derivative_none' for f in flds[1:]))
    G.append(('const_%s_from_re' % S, 'forall r : T, %s_from_re r = (%s) r' % (S, consts), 'intros; reflexivity.'))
    G.append(('const_%s_from' % S, 'forall q : F, (ofF q : %s T) = %s_from_re (ofF q : T)' % (S, S), 'intros; reflexivity.'))
    G.append(('const_%s_zero_one' % S, '(zero : %s T) = %s_from_re (zero : T) /\\ (one : %s T) = %s_from_re (one : T)' % ((S,) * 4), 'split; reflexivity.'))
    for c in FCONSTS:
        G.append(('const_%s_%s' % (S, c), '%s_FloatConst_%s = (ofF (fl_const C_%s : F) : %s T)' % (S, c, c, S), 'reflexivity.'))
    for p in PRIMS:
        G.append(('const_%s_from_%s' % (S, p), 'forall n : Z, %s_FromPrimitive_from_%s n = Some (ofF (castZ n : F) : %s T)' % (S, p, S), 'intros; reflexivity.'))

Rl = []  # lemmas over the reals (T = R)
for S, (flds, part, idx, bind, destr) in TYPES.items():
    b = ('forall %s, ' % bind) if bind else ''
    for op, sym in (('add', '+'), ('sub', '-')):
        Rl.append(('assign_%s_%s' % (S, op), '%sforall (x y : %s R) S, In S %s -> %s (h%s_assign x y) S = %s (x %s y) S' % (b, S, idx, part, op, part, sym),
                   'intros %s x y S H; %s; rename r into r1; destruct y as %s; dmat; each_block H ltac:(rcbv; try reflexivity; ring).' % (bind, destr, destr.split(' as ')[1].split(';')[0])))
    for op, sym in OPSYM.items():
        prem = 'q <> 0 -> ' if op == 'div' else ''
        Rl.append(('lift_%s_%s' % (S, op), '%sforall (x : %s R) (q : R) S, %sIn S %s -> %s (x %s q) S = %s (x %s (ofF q : %s R)) S' % (b, S, prem, idx, part, sym, part, sym, S),
                   'intros %s x q S %s H; %s; each_block H ltac:(rcbv; try reflexivity; try ring; field; side).' % (bind, 'Hq' if op == 'div' else '', destr)))

hdr = '''(* %s -- written by tools/coqgen/gen_c08.py.  All syntactic forms of an operation give the same result. *)
'''
GEN_IMPORTS = """From ND Require Import Overload Float Mat Opt.
From NDgen Require Import Classes Gen_Float Gen_Derivative Gen_Dual Gen_Dual2 Gen_Dual3 Gen_HyperDual Gen_HyperHyperDual Gen_DualVec Gen_Dual2Vec Gen_HyperDualVec.
Local Open Scope rs_scope."""
out = [hdr % 'Proofs/C08_forms.v', GEN_IMPORTS, """
(* ---- forwarding forms and constants: for an ARBITRARY scalar instance, hence bit-exact and at every nesting level ---- *)
Section C08_generic.
Context {F T : Type} {dnFT : DN F T} {ordT : DNOrd T}.
#[local] Instance flF : FL F := dn_fl (T:=T)."""]
for n, st, pr in G:
    out.append('Lemma %s : %s.\nProof. %s Qed.' % (n, st, pr))
out.append('End C08_generic.')
open('/verif/coq/ND/Proofs/C08_forms.v', 'w').write('\n'.join(out) + '\n')

def rs(st, S):
    for a in ('(x + y)', '(x - y)', '(x + q)', '(x - q)', '(x * q)', '(x / q)'):
        st = st.replace(a, a + '%rs')
    st = st.replace(': %s R))' % S, ': %s R))%%rs' % S)
    return st

out = [hdr % 'Proofs/C08_lift.v', 'From ND Require Import Tactics.\nLocal Open Scope R_scope.',
       '(* ---- compound assignment and scalar operands against the lifted constant: over the reals, every part ---- *)']
Rl2 = []
for n, st, pr in Rl:
    S = n.split('_')[1]
    st2 = rs(st, S)
    Rl2.append((n, st2, pr))
    out.append('Lemma %s : %s.\nProof. %s Qed.' % (n, st2, pr))
open('/verif/coq/ND/Proofs/C08_lift.v', 'w').write('\n'.join(out) + '\n')

props = [hdr % 'Props/C08.v -- property C08', 'From ND Require Import C08_forms.', GEN_IMPORTS, '']
names = []
props.append('Section Generic.\nContext {F T : Type} {dnFT : DN F T} {ordT : DNOrd T}.\n#[local] Instance flF : FL F := dn_fl (T:=T).')
for n, st, pr in G:
    props.append('Theorem C08_%s : %s.\nProof. exact %s. Qed.' % (n, st, n))
    names.append('@C08_' + n)
props.append('End Generic.')
props.append('From ND Require Import Tactics C08_lift.\nLocal Open Scope R_scope.')
for n, st, pr in Rl2:
    props.append('Theorem C08_%s : %s.\nProof. exact %s. Qed.' % (n, st, n))
    names.append('C08_' + n)
props.append('\nDefinition C08_bundle := (' + ',\n  '.join(names) + ').\nPrint Assumptions C08_bundle.')
open('/verif/coq/ND/Props/C08.v', 'w').write('\n'.join(props) + '\n')
print(len(names), 'theorems')
