(* Proofs/C12_proofs.v -- linear algebra (hand model Hand/LinAlg.v, executed in Coq against the implementation).
   Proved for ANY size n, over any number type whose + - * form a commutative ring and whose division satisfies (x / y) * y = x for the
   divisors that occur (for dual numbers: real part <> 0) -- instantiated for Dual, Dual2, Dual3, HyperDual, HyperHyperDual over R:
   (1) forward substitution solves the unit-lower-triangular system, (2) back substitution solves the upper-triangular system, so
       LU::solve returns x with  L (U x) = P b  for the stored factors: the identity holds in the real part and in EVERY derivative part at once,
       because it is an identity of the ring of dual numbers;
   (3) a pivot column whose real parts are all zero makes LU::new return the error.
   NOT proved: that the elimination loop produces L, U with P A = L U (decided by the bit-exact correspondence plus the residual identities on the
   implementation), and the Jacobi iteration (identities on the implementation only; one open finding). *)
From Coq Require Import List Arith Lia Ring.
From ND Require Import Tactics LinAlg.
From NDgen Require Import Classes.
Import ListNotations.

Lemma upd_length {A} (l : list A) i v : length (upd l i v) = length l.
Proof. revert i; induction l as [|x r IH]; intros [|i]; simpl; auto. Qed.
Lemma nth_upd_same {A} (l : list A) i v d : (i < length l)%nat -> nth i (upd l i v) d = v.
Proof. revert i; induction l as [|x r IH]; intros [|i] H; simpl in *; try lia; auto. apply IH. lia. Qed.
Lemma nth_upd_other {A} (l : list A) i j v d : i <> j -> nth j (upd l i v) d = nth j l d.
Proof. revert i j; induction l as [|x r IH]; intros [|i] [|j] H; simpl; auto; try congruence. Qed.

Section Subst.
  Context {F T : Type} {dn : DN F T}.
  Local Open Scope rs_scope.
  Hypothesis RT : ring_theory (Overload.zero : T) (Overload.one : T) (@hadd T T T dn_add) (@hmul T T T dn_mul) (@hsub T T T dn_sub) (@hneg T T dn_neg) eq.
  Add Ring TRing : RT.
  Variable isunit : T -> Prop.
  Hypothesis div_mul : forall x y : T, isunit y -> (x / y) * y = x.

  Fixpoint sum_list (f : nat -> T) (ks : list nat) : T := match ks with nil => (Overload.zero : T) | k :: r => f k + sum_list f r end.

  Lemma sub_dot_spec (a : list (list T)) i ks : forall x, (i < length x)%nat -> ~ In i ks ->
    length (sub_dot a i ks x) = length x /\
    vg (sub_dot a i ks x) i = vg x i - sum_list (fun k => mg a i k * vg x k) ks /\
    forall j, j <> i -> vg (sub_dot a i ks x) j = vg x j.
  Proof.
    induction ks as [|k r IH]; intros x Hi Hn; simpl.
    - repeat split; auto. ring.
    - assert (Hk : k <> i) by (intros ->; apply Hn; left; reflexivity).
      assert (Hr : ~ In i r) by (intros H; apply Hn; right; exact H).
      set (x1 := upd x i (vg x i - mg a i k * vg x k)).
      assert (L1 : length x1 = length x) by apply upd_length.
      destruct (IH x1 ltac:(rewrite L1; exact Hi) Hr) as [A [B C]].
      assert (E1 : vg x1 i = vg x i - mg a i k * vg x k) by (unfold vg, x1; apply nth_upd_same; exact Hi).
      assert (E2 : forall j, j <> i -> vg x1 j = vg x j) by (intros j Hj; unfold vg, x1; apply nth_upd_other; auto).
      split; [rewrite A; exact L1|]. split.
      + unfold sub_dot in *. simpl. fold x1. rewrite B, E1.
        assert (S : sum_list (fun k0 => mg a i k0 * vg x1 k0) r = sum_list (fun k0 => mg a i k0 * vg x k0) r).
        { clear -E2 Hr. induction r as [|q r IHr]; simpl; [reflexivity|]. rewrite E2 by (intros ->; apply Hr; left; reflexivity).
          rewrite IHr by (intros H; apply Hr; right; exact H). reflexivity. }
        rewrite S. ring.
      + intros j Hj. unfold sub_dot in *. simpl. fold x1. rewrite (C j Hj). apply E2; exact Hj.
  Qed.

  Lemma range_S a b : (a <= b)%nat -> range a (S b) = range a b ++ (b :: nil).
  Proof. intros H. unfold range. replace (S b - a)%nat with (S (b - a)) by lia. rewrite seq_S. f_equal. f_equal. lia. Qed.
  Lemma in_range k a b : In k (range a b) <-> (a <= k < b)%nat.
  Proof. unfold range. rewrite in_seq. lia. Qed.
  Lemma sum_list_ext (f g : nat -> T) ks : (forall k, In k ks -> f k = g k) -> sum_list f ks = sum_list g ks.
  Proof. induction ks as [|k r IH]; intros H; simpl; [reflexivity|]. rewrite (H k) by (left; reflexivity). rewrite IH; [reflexivity|]. intros q Hq; apply H; right; exact Hq. Qed.

  (* ---- forward substitution: y_i + sum_{k<i} a_ik y_k = b_{p i} ---- *)
  Definition fwd_step (a : list (list T)) (p : list nat) (b : list T) (x : list T) (i : nat) : list T :=
    sub_dot a i (range 0 i) (upd x i (vg b (nth i p O))).
  Definition fwd (a : list (list T)) (p : list nat) (b : list T) : list T :=
    fold_left (fwd_step a p b) (range 0 (length b)) (repeat (Overload.zero : T) (length b)).

  Lemma fwd_inv a p b (x0 : list T) m : (m <= length x0)%nat ->
    let x := fold_left (fwd_step a p b) (range 0 m) x0 in
    length x = length x0 /\
    (forall i, (i < m)%nat -> vg x i + sum_list (fun k => mg a i k * vg x k) (range 0 i) = vg b (nth i p O)) /\
    (forall j, (m <= j)%nat -> vg x j = vg x0 j).
  Proof.
    induction m as [|m IH]; intros Hm.
    - unfold range; simpl. repeat split; auto. intros i Hi; lia.
    - cbv zeta. rewrite range_S by lia. rewrite fold_left_app. cbn [fold_left].
      destruct (IH ltac:(lia)) as [L [E U]]. set (x := fold_left (fwd_step a p b) (range 0 m) x0) in *.
      set (x1 := upd x m (vg b (nth m p O))).
      change (fwd_step a p b x m) with (sub_dot a m (range 0 m) x1).
      assert (L1 : length x1 = length x) by apply upd_length.
      assert (Nin : ~ In m (range 0 m)) by (rewrite in_range; lia).
      destruct (sub_dot_spec a m (range 0 m) x1 ltac:(rewrite L1, L; lia) Nin) as [A [B C]].
      assert (E1 : vg x1 m = vg b (nth m p O)) by (unfold vg, x1; apply nth_upd_same; rewrite L; lia).
      assert (E2 : forall j, j <> m -> vg x1 j = vg x j) by (intros j Hj; unfold vg, x1; apply nth_upd_other; auto).
      split; [rewrite A, L1; exact L|]. split.
      + intros i Hi. destruct (Nat.eq_dec i m) as [->|Hne].
        * rewrite B, E1.
          rewrite (sum_list_ext (fun k => mg a m k * vg (sub_dot a m (range 0 m) x1) k) (fun k => mg a m k * vg x1 k)).
          { ring. }
          intros k Hk. rewrite in_range in Hk. rewrite C by lia. reflexivity.
        * assert (Hi' : (i < m)%nat) by lia. rewrite <- (E i Hi').
          rewrite (C i Hne), (E2 i Hne). f_equal. apply sum_list_ext. intros k Hk. rewrite in_range in Hk.
          rewrite C by lia. rewrite E2 by lia. reflexivity.
      + intros j Hj. rewrite C by lia. rewrite E2 by lia. apply U. lia.
  Qed.

  Theorem forward_spec a p b : let y := fwd a p b in
    length y = length b /\ forall i, (i < length b)%nat -> vg y i + sum_list (fun k => mg a i k * vg y k) (range 0 i) = vg b (nth i p O).
  Proof.
    unfold fwd. pose proof (fwd_inv a p b (repeat (Overload.zero : T) (length b)) (length b)) as H.
    rewrite repeat_length in H. destruct (H ltac:(lia)) as [L [E _]]. split; [exact L|exact E].
  Qed.

  (* ---- back substitution: sum_{k>=i} a_ik x_k = y_i ---- *)
  Definition bwd_step (a : list (list T)) (n : nat) (x : list T) (i : nat) : list T :=
    let x1 := sub_dot a i (range (S i) n) x in upd x1 i (vg x1 i / mg a i i).
  Definition bwd (a : list (list T)) (y : list T) : list T := fold_left (bwd_step a (length y)) (rev (range 0 (length y))) y.

  Lemma bwd_inv a (y : list T) n d : n = length y -> (d <= n)%nat -> (forall i, (i < n)%nat -> isunit (mg a i i)) ->
    let x := fold_left (bwd_step a n) (rev (range (n - d) n)) y in
    length x = n /\
    (forall i, (n - d <= i < n)%nat -> sum_list (fun k => mg a i k * vg x k) (range i n) = vg y i) /\
    (forall j, (j < n - d)%nat -> vg x j = vg y j).
  Proof.
    intros Hn. induction d as [|d IH]; intros Hd Hu.
    - cbv zeta. replace (n - 0)%nat with n by lia. unfold range. replace (n - n)%nat with 0%nat by lia. simpl. repeat split; auto. intros i Hi; lia.
    - cbv zeta. destruct (IH ltac:(lia) Hu) as [L [E U]].
      set (m := (n - S d)%nat).
      assert (Hm : (n - d = S m)%nat) by (unfold m; lia).
      assert (R : range m n = m :: range (S m) n).
      { unfold range. replace (n - m)%nat with (S (n - S m)) by (unfold m; lia). reflexivity. }
      rewrite R. cbn [rev]. rewrite fold_left_app. cbn [fold_left]. rewrite Hm in *.
      set (x := fold_left (bwd_step a n) (rev (range (S m) n)) y) in *.
      assert (Nin : ~ In m (range (S m) n)) by (rewrite in_range; lia).
      destruct (sub_dot_spec a m (range (S m) n) x ltac:(rewrite L; unfold m; lia) Nin) as [A [B C]].
      set (x1 := sub_dot a m (range (S m) n) x) in *.
      set (x2 := upd x1 m (vg x1 m / mg a m m)).
      change (bwd_step a n x m) with x2.
      assert (E1 : vg x2 m = vg x1 m / mg a m m) by (unfold vg at 1, x2; apply nth_upd_same; rewrite A, L; unfold m; lia).
      assert (E2 : forall j, j <> m -> vg x2 j = vg x j) by (intros j Hj; unfold vg at 1, x2; rewrite nth_upd_other by auto; apply C; exact Hj).
      split; [unfold x2; rewrite upd_length, A; exact L|]. split.
      + intros i Hi. destruct (Nat.eq_dec i m) as [->|Hne].
        * rewrite R. simpl. rewrite E1.
          rewrite (sum_list_ext (fun k => mg a m k * vg x2 k) (fun k => mg a m k * vg x k)) by (intros k Hk; rewrite in_range in Hk; rewrite E2 by lia; reflexivity).
          rewrite B. rewrite (U m ltac:(lia)).
          pose proof (div_mul (vg y m - sum_list (fun k => mg a m k * vg x k) (range (S m) n)) (mg a m m) (Hu m ltac:(unfold m; lia))) as D.
          set (q := (vg y m - sum_list (fun k => mg a m k * vg x k) (range (S m) n)) / mg a m m) in *.
          set (S0 := sum_list (fun k => mg a m k * vg x k) (range (S m) n)) in *.
          transitivity (q * mg a m m + S0); [ring|]. rewrite D. ring.
        * rewrite <- (E i ltac:(lia)). apply sum_list_ext. intros k Hk. rewrite in_range in Hk. rewrite E2 by lia. reflexivity.
      + intros j Hj. rewrite E2 by (unfold m in *; lia). apply U. lia.
  Qed.

  Theorem backward_spec a (y : list T) : (forall i, (i < length y)%nat -> isunit (mg a i i)) -> let x := bwd a y in
    length x = length y /\ forall i, (i < length y)%nat -> sum_list (fun k => mg a i k * vg x k) (range i (length y)) = vg y i.
  Proof.
    intros Hu. unfold bwd. pose proof (bwd_inv a y (length y) (length y) eq_refl ltac:(lia) Hu) as H.
    replace (length y - length y)%nat with 0%nat in H by lia. destruct H as [L [E _]]. split; [exact L|]. intros i Hi. apply E. lia.
  Qed.

  (* LU::solve is forward substitution with the row order p followed by back substitution *)
  Theorem solve_is_fwd_bwd (l : lu) (b : list T) : lu_solve l b = bwd (lu_a l) (fwd (lu_a l) (lu_p l) b).
  Proof.
    unfold lu_solve, bwd, fwd. destruct (forward_spec (lu_a l) (lu_p l) b) as [L _]. unfold fwd in L. rewrite L. reflexivity.
  Qed.
End Subst.

(* ---- the dual number types over R are such rings; a divisor is a unit when its real part is not 0 ---- *)
Local Open Scope R_scope.
Ltac rt_tac := constructor; intros; repeat match goal with d : _ R |- _ => destruct d end; rcbv; f_equal; ring.
Lemma RT_Dual : ring_theory (Overload.zero : Dual R) (Overload.one : Dual R) (@hadd _ _ _ dn_add) (@hmul _ _ _ dn_mul) (@hsub _ _ _ dn_sub) (@hneg _ _ dn_neg) eq.
Proof. rt_tac. Qed.
Lemma RT_Dual2 : ring_theory (Overload.zero : Dual2 R) (Overload.one : Dual2 R) (@hadd _ _ _ dn_add) (@hmul _ _ _ dn_mul) (@hsub _ _ _ dn_sub) (@hneg _ _ dn_neg) eq.
Proof. rt_tac. Qed.
Lemma RT_Dual3 : ring_theory (Overload.zero : Dual3 R) (Overload.one : Dual3 R) (@hadd _ _ _ dn_add) (@hmul _ _ _ dn_mul) (@hsub _ _ _ dn_sub) (@hneg _ _ dn_neg) eq.
Proof. rt_tac. Qed.
Lemma RT_HyperDual : ring_theory (Overload.zero : HyperDual R) (Overload.one : HyperDual R) (@hadd _ _ _ dn_add) (@hmul _ _ _ dn_mul) (@hsub _ _ _ dn_sub) (@hneg _ _ dn_neg) eq.
Proof. rt_tac. Qed.
Lemma RT_HHD : ring_theory (Overload.zero : HyperHyperDual R) (Overload.one : HyperHyperDual R) (@hadd _ _ _ dn_add) (@hmul _ _ _ dn_mul) (@hsub _ _ _ dn_sub) (@hneg _ _ dn_neg) eq.
Proof. rt_tac. Qed.
Ltac dm_tac := intros x y H; destruct x, y; assert (H' : _ <> 0) by exact H; rcbv; f_equal; field; exact H'.
Lemma div_mul_Dual : forall x y : Dual R, m_re y <> 0 -> ((x / y) * y)%rs = x.  Proof. dm_tac. Qed.
Lemma div_mul_Dual2 : forall x y : Dual2 R, m_re y <> 0 -> ((x / y) * y)%rs = x.  Proof. dm_tac. Qed.
Lemma div_mul_Dual3 : forall x y : Dual3 R, m_re y <> 0 -> ((x / y) * y)%rs = x.  Proof. dm_tac. Qed.
Lemma div_mul_HyperDual : forall x y : HyperDual R, m_re y <> 0 -> ((x / y) * y)%rs = x.  Proof. dm_tac. Qed.
Lemma div_mul_HHD : forall x y : HyperHyperDual R, m_re y <> 0 -> ((x / y) * y)%rs = x.  Proof. dm_tac. Qed.

(* ---- singular matrices: a pivot column whose real parts all vanish makes LU::new fail at that step ---- *)
Lemma pivot_all_zero (a : list (list (Dual R))) n i : (forall k, m_re (m_abs (mg a k i)) = 0) -> fst (pivot a n i) = 0.
Proof.
  intros H. unfold pivot. generalize (range i n); intros ks.
  assert (G : forall st : R * nat, fst st = 0 -> fst (fold_left (fun (st : R * nat) k => let abs_a := m_abs (mg a k i) in
              if ((m_re abs_a : R) >? fst st)%rs then ((m_re abs_a : R), k) else st) ks st) = 0).
  { induction ks as [|k r IH]; intros st Hst; cbn [fold_left]; [exact Hst|]. apply IH. cbv zeta.
    assert (E : ((0 : R) >? 0)%rs = false) by (rcbv; unfold Rltb; destruct (Rlt_dec 0 0); [lra|reflexivity]).
    match goal with |- context [if (?t >? ?m)%rs then _ else _] => replace t with (0 : R) by (symmetry; exact (H k)); replace m with (0 : R) by (symmetry; exact Hst) end.
    rewrite E. exact Hst. }
  apply G. reflexivity.
Qed.
Theorem singular_detected (l : lu (T:=Dual R)) n i : (forall k, m_re (m_abs (mg (lu_a l) k i)) = 0) -> lu_step (Some l) n i = None.
Proof.
  intros H. unfold lu_step. pose proof (pivot_all_zero (lu_a l) n i H) as E. destruct (pivot (lu_a l) n i) as [mx imax]. simpl in E. subst mx.
  assert (Z : nt_is_zero (0 : R) = true) by (unfold nt_is_zero; rcbv; unfold Reqb; destruct (Req_EM_T 0 0); [reflexivity|lra]).
  match goal with |- context [@nt_is_zero ?F ?fl ?r] => change (@nt_is_zero F fl r) with (nt_is_zero (0 : R)) end. rewrite Z. reflexivity.
Qed.
Lemma lu_step_none n i : lu_step (T:=Dual R) None n i = None.  Proof. reflexivity. Qed.
Lemma fold_none (ks : list nat) n : fold_left (fun st i => lu_step (T:=Dual R) st n i) ks None = None.
Proof. induction ks; simpl; auto. Qed.

(* ---- LU::solve over Dual R: the two triangular systems hold, in the real part and the derivative part at once ---- *)
Theorem solve_correct_Dual (l : lu (T:=Dual R)) (b : list (Dual R)) : (forall i, (i < length b)%nat -> m_re (mg (lu_a l) i i) <> 0) ->
  let a := lu_a l in let x := lu_solve l b in
  exists y, length y = length b /\ length x = length b /\
    (forall i, (i < length b)%nat -> (vg y i + sum_list (fun k => mg a i k * vg y k) (range 0 i))%rs = vg b (nth i (lu_p l) O)) /\
    (forall i, (i < length b)%nat -> sum_list (fun k => (mg a i k * vg x k)%rs) (range i (length b)) = vg y i).
Proof.
  intros Hu. cbv zeta. rewrite (solve_is_fwd_bwd RT_Dual).
  destruct (forward_spec RT_Dual (lu_a l) (lu_p l) b) as [Ly Ey].
  set (y := fwd (lu_a l) (lu_p l) b) in *.
  assert (Hu' : forall i, (i < length y)%nat -> m_re (mg (lu_a l) i i) <> 0) by (rewrite Ly; exact Hu).
  destruct (backward_spec RT_Dual (fun d => m_re d <> 0) div_mul_Dual (lu_a l) y Hu') as [Lx Ex].
  exists y. rewrite Ly in *. repeat split; assumption.
Qed.
Lemma example_c12 : forall i, (i < 2)%nat -> m_re (mg ((mkDual 2 1 :: mkDual 1 0 :: nil) :: (mkDual 0.5 0 :: mkDual 3 1 :: nil) :: nil) i i) <> 0.
Proof. intros [|[|i]] H; try lia; rcbv; lra. Qed.
