"""C11 -- dual numbers satisfy nalgebra's real-field contract."""
import math
import vlib, pyjet, genvals
from vlib import Case, f2b, b2f
from props.base import BaseProp, Violation
import props.c01 as c01
from props.c06 import ulps

CONST_VALUES = {'pi': math.pi, 'two_pi': 2 * math.pi, 'frac_pi_2': math.pi / 2, 'frac_pi_3': math.pi / 3, 'frac_pi_4': math.pi / 4, 'frac_pi_6': math.pi / 6,
                'frac_pi_8': math.pi / 8, 'frac_1_pi': 1 / math.pi, 'frac_2_pi': 2 / math.pi, 'frac_2_sqrt_pi': 2 / math.sqrt(math.pi), 'e': math.e,
                'log2_e': math.log2(math.e), 'log10_e': math.log10(math.e), 'ln_2': math.log(2), 'ln_10': math.log(10)}
# field method -> generic dual operation (harness `dual` family) it must equal bit for bit
SAME = {'cf_' + m: m for m in 'recip sin cos tan asin acos atan sinh cosh tanh asinh acosh atanh log2 log10 ln ln_1p sqrt exp exp2 exp_m1 cbrt abs'.split()}
SAME.update({'cf_modulus': 'abs', 'cf_norm1': 'abs', 'cf_powf': 'powd', 'cf_powc': 'powd', 'cf_scale': 'mul', 'cf_unscale': 'div', 'cf_mul_add': 'mul_add',
             'rf_atan2': 'atan2', 'cf_powi': 'powi', 'cf_sin_cos': 'sin_cos'})
TYPES = ['Dual64', 'Dual2_64', 'DualSVec64_2', 'DualDVec64:3', 'Dual2SVec64_2', 'Dual2DVec64:3']
SIMD = ['simd_splat_extract', 'simd_replace_extract', 'simd_select_true', 'simd_select_false']
OTHER = SIMD + ['cf_real', 'cf_conjugate', 'cf_from_real', 'cf_imaginary', 'cf_modulus_squared', 'cf_argument', 'cf_hypot', 'cf_log', 'rf_copysign', 'rf_max', 'rf_min', 'rf_clamp',
         'rf_is_sign_positive', 'rf_is_sign_negative']


def re_bits(v, ty):
    while not ty.is_float:
        v, ty = v[0], ty.inner
    return v


class Prop(BaseProp):
    coq_targets = ['ND/Proofs/C11_proofs.vo']
    extra_model_targets = ['gen/Gen_Field.vo']
    extra_imports = 'From NDgen Require Import Gen_Field.'
    n_quick, n_thorough = 700, 10000

    def cases(self, rng, n):
        T = vlib.types()
        tys = [T[t] for t in TYPES]
        F = T['f64']
        out = []
        self.groups = []
        ops = ['rf_' + c for c in CONST_VALUES] + list(SAME) + OTHER
        def emit(ty, op, a, aux):
            ids = []
            def add(t, o, args, aux=()):
                c = Case('c%d' % len(out), t, o, args, aux, tag=op)
                out.append(c)
                ids.append(c.id)
            nargs = vlib.OPS[op][2]
            add(ty, op, a, aux)
            if op in SAME:
                add(ty, SAME[op], a, aux)
            if op.startswith('simd_'):
                pass
            elif nargs >= 1 and not op.startswith('rf_is') and op not in ('cf_from_real',):
                add(F, op, [re_bits(x, ty) for x in a], aux)           # the same method on plain floats
            elif op.startswith('rf_is'):
                add(F, op, [re_bits(x, ty) for x in a], aux)
            self.groups.append((op, ids))
        # selection methods at the sign / zero special values of the deciding operand (every type, every run): a signed zero or an infinity as the
        # sign of copysign, ties and signed zeros for max / min / clamp, signed zeros for the sign predicates
        INF = float('inf')
        specials = [('rf_copysign', (None, s)) for s in (-0.0, 0.0, -INF, INF, -1.0, 1.0)]
        specials += [(m, pr) for m in ('rf_max', 'rf_min') for pr in ((0.0, -0.0), (-0.0, 0.0), (1.0, 1.0), (-2.0, -2.0))]
        specials += [('rf_clamp', pr) for pr in ((-0.0, 0.0, 1.0), (0.0, -1.0, -0.0), (1.0, 1.0, 2.0), (2.0, 1.0, 2.0))]
        specials += [(m, (z,)) for m in ('rf_is_sign_positive', 'rf_is_sign_negative', 'cf_abs') for z in (0.0, -0.0)]
        specials += [(m, (z,)) for m in ('cf_exp_m1', 'cf_ln_1p', 'cf_sin', 'cf_tanh', 'cf_asinh') for z in (1e-20, -3e-17, 1e-12, 2.5e-9)]
        for ty in tys:
            for op, res in specials:
                a = [genvals.gen_value(rng, ty, genvals.leaf_rand, re_leaf=(lambda r, v=v: r.choice([r.uniform(-3, 3), -r.uniform(0.5, 3)]) if v is None else v)) for v in res]
                emit(ty, op, a, [])
        # two-operand methods on the vector types with one operand a constant (no derivative part at all) and the other carrying one, both ways round
        for ty in tys:
            if ty.struct not in ('DualVec', 'Dual2Vec'):
                continue
            for op in ('cf_powf', 'cf_powc', 'cf_log', 'cf_hypot', 'rf_atan2', 'cf_scale', 'cf_unscale', 'rf_copysign', 'rf_max', 'rf_min', 'simd_replace_extract',
                       'simd_select_true', 'simd_select_false'):
                for pa, pb in ((False, True), (True, False)):
                    a = [genvals.gen_value(rng, ty, genvals.leaf_rand, re_leaf=lambda r: r.uniform(0.3, 3), presence=pp) for pp in (pa, pb)]
                    emit(ty, op, a, [])
        k = 0
        while len(out) < n:
            # every operation early: the operation index runs fastest, the type advances with a stride
            op = ops[k % len(ops)] if k < len(tys) * len(ops) else rng.choice(ops)
            ty = tys[(3 * k + k // len(ops)) % len(tys)]
            k += 1
            nargs = vlib.OPS[op][2]
            base = SAME.get(op, op[3:])
            dom = c01.DOM.get(base)
            if op in ('cf_powf', 'cf_powc', 'cf_log', 'cf_hypot', 'cf_scale', 'cf_unscale', 'cf_powi'):
                dom = lambda r: r.uniform(0.3, 3)
            if dom is None:
                dom = lambda r: r.choice([r.uniform(-3, 3), r.uniform(-3, 3), 0.0, -0.0, 1.0, -1.0])
            aux = [rng.choice([0, 1, 2, 3, -2, 5])] if op == 'cf_powi' else []
            a = [genvals.gen_value(rng, ty, genvals.leaf_rand, re_leaf=dom) for _ in range(nargs)]
            emit(ty, op, a, aux)
        return out

    def model_applicable(self, case):
        return not case.op.startswith('simd_') and (not case.ty.is_float or case.op in vlib.OPS and not case.op.startswith(('cf_', 'rf_')))

    def extra_checks(self):
        impl = getattr(self, 'impl_results', None)
        if not impl:
            return
        C = self.case_by_id
        for op, ids in self.groups:
            c0 = C[ids[0]]
            r0 = impl[ids[0]]
            ty = c0.ty
            if r0 == 'panic':
                self.violations.append(Violation('counterexample', '%s on %s panics' % (op, ty), case=c0, obtained='panic'))
                continue
            rest = ids[1:]
            if op.startswith('rf_') and op[3:] in CONST_VALUES:
                want = self.float_const(op[3:])
                lv = vlib.leaves(r0, ty)
                if lv[0] != want or any(x != 0 for x in lv[1:]):
                    self.violations.append(Violation('counterexample', 'RealField::%s() on %s is not the float constant of that name with zero derivative parts (real part %r, expected %r)' % (
                        op[3:], ty, b2f(lv[0]) if isinstance(lv[0], int) else lv[0], CONST_VALUES[op[3:]]), case=c0, expected=want, obtained=r0))
                continue
            if op in SAME:
                if impl[rest[0]] != r0:
                    self.violations.append(Violation('counterexample', '%s on %s differs from the generic dual operation %s' % (op, ty, SAME[op]), case=c0, expected=impl[rest[0]], obtained=r0))
                rest = rest[1:]
            if rest:
                rf = impl[rest[0]]
                if rf == 'panic':
                    continue
                if vlib.OPS[op][1] == 'bool':
                    if rf != r0:
                        self.violations.append(Violation('counterexample', '%s on %s differs from the float result' % (op, ty), case=c0, expected=rf, obtained=r0))
                    continue
                if op == 'cf_sin_cos':
                    continue
                got = re_bits(r0, ty)
                # the real part against the same method on plain floats (a few ulps where the dual formula differs)
                tol = {'cf_tan': 8, 'cf_tanh': 8, 'cf_unscale': 4, 'cf_powf': 32, 'cf_powc': 32, 'cf_powi': 16, 'cf_log': 8, 'cf_hypot': 8, 'rf_atan2': 0,
                       'cf_mul_add': 2}.get(op, 0)      # the float method is fused (one rounding), the dual one is x*a+b (two roundings; C08 proves that form)
                okk = got == rf or (isinstance(got, int) and isinstance(rf, int) and ulps(got, rf) <= tol)
                if not okk:
                    self.violations.append(Violation('counterexample', '%s on %s: real part %r differs from the same method on plain floats %r' % (
                        op, ty, b2f(got) if isinstance(got, int) else got, b2f(rf) if isinstance(rf, int) else rf), case=c0, expected=rf, obtained=got))
            if op.startswith('simd_'):
                # single lane: splat/extract and replace/extract round-trip the value, select picks the whole operand (absent ~ zero)
                want = c0.args[0] if op in ('simd_splat_extract', 'simd_select_true') else c0.args[1]
                from props.c07 import num_equal
                okk, S = num_equal(vlib.canon_val(want, ty), r0, ty)
                if not okk:
                    self.violations.append(Violation('counterexample', '%s on %s does not round-trip the value (part %s)' % (op, ty, S), case=c0, expected=vlib.canon_val(want, ty), obtained=r0))
            if op in ('rf_max', 'rf_min', 'rf_clamp'):
                cands = [vlib.canon_val(x, ty) for x in c0.args]
                if r0 not in cands:
                    self.violations.append(Violation('counterexample', '%s on %s does not return one of its operands with its own derivative parts' % (op, ty), case=c0, obtained=r0))

    CONST_IDS = {'pi': 114, 'two_pi': 116, 'frac_pi_2': 105, 'frac_pi_3': 106, 'frac_pi_4': 107, 'frac_pi_6': 108, 'frac_pi_8': 109, 'frac_1_pi': 101, 'frac_2_pi': 103,
                 'frac_2_sqrt_pi': 104, 'e': 100, 'log2_e': 113, 'log10_e': 112, 'ln_2': 111, 'ln_10': 110}

    def float_const(self, name):
        """the f64 constant of that name, from the same Rust build (num_traits::FloatConst)"""
        if not hasattr(self, '_consts'):
            ans = vlib.run_oracle(self.exe, set((64, i, 0, 0, 0) for i in self.CONST_IDS.values()))
            self._consts = {n: ans[(64, i, 0, 0, 0)] for n, i in self.CONST_IDS.items()}
        return self._consts[name]

    def nontrivial(self, case, impl):
        return impl != 'panic' and not case.ty.is_float

    def rule_text(self):
        return ('every non-panicking ComplexField / RealField constant and method through the nalgebra traits on Dual64, Dual2_64, DualSVec64<2>, DualDVec64, Dual2SVec64<2>, Dual2DVec64; '
                'compared with the float constant of the same name, bit for bit with the generic dual operation it forwards to, with the same method on plain floats in the real part, '
                'selection methods must return an operand; and with the translated model (gen/Gen_Field.v) bit for bit')
