"""C05 -- derivative driver functions seed, extract and orient results correctly."""
import os, itertools
from fractions import Fraction
import vlib, genvals
from vlib import InfraError, f2b, b2f
from props.base import BaseProp, Violation

HEADER = '''From Coq Require Import ZArith List Floats. Import ListNotations.
From ND Require Import Overload Float Mat Opt Wire F64Inst Drivers DriverFns.
From NDgen Require Import Classes Gen_Float Gen_Derivative Gen_Dual Gen_Dual2 Gen_Dual3 Gen_HyperDual Gen_HyperHyperDual Gen_DualVec Gen_Dual2Vec Gen_HyperDualVec.
Local Open Scope Z_scope.
#[local] Instance FLx : FL xf := FL_f64 [].
#[local] Instance DNx : DN xf xf := DN_Float.
#[local] Instance Ordx : DNOrd xf := DNOrd_F.
Definition X (l : list Z) : list xf := map (fun b => xpure (f64_of_bits b)) l.
Definition x1 (b : Z) : xf := xpure (f64_of_bits b).
Definition fl {A} `{Flat A} (a : A) : list Z := enc (flat a).
Definition flr {A} `{Flat A} (r : result A Z) : list Z := match r with Ok a => 7 :: enc (flat a) | Err e => [8; e] end.
Definition guard {A} (fail : Z) (a : A) : result A Z := if Z.eqb fail 0 then Ok a else Err fail.
'''


def cji(j, i):
    return 1 + (3 * j + 5 * i) % 7


def poly_expr(xs, j):
    import sympy as sp
    n = len(xs)
    e = sp.Rational(j, 2)
    if j >= 3 and j % 2 == 1:
        return e + 0 * sum(xs, sp.Integer(0))
    for i in range(n):
        e += cji(j, i) * xs[i] * xs[i] * xs[(i + 1) % n]
    if n >= 2:
        e += xs[0] / (xs[1] * xs[1] + 3)
    if n:
        e += (2 + j) * xs[j % n]
    return e


def poly2_expr(xs, ys):
    import sympy as sp
    e = sp.Rational(1, 4)
    for i in range(len(xs)):
        for k in range(len(ys)):
            e += cji(i, k) * xs[i] * ys[k] * ys[k]
    if len(xs) and len(ys):
        e += xs[0] / (ys[0] * ys[0] + 3)
    for i in range(len(xs)):
        e += (2 + i) * xs[i]
    return e


class Prop(BaseProp):
    coq_targets = ['ND/Proofs/C05_proofs.vo', 'ND/Proofs/C05_try.vo', 'ND/Proofs/C05_programs.vo', 'ND/Proofs/C05_hessian.vo']
    extra_model_targets = ['ND/Hand/Drivers.vo', 'ND/Hand/DriverFns.vo']
    n_quick, n_thorough = 260, 3000

    def gen_cases(self, rng, n):
        def pt(k):
            return [float(rng.below(33) - 16) / 8 for _ in range(k)]
        cases = []
        names = ['first_derivative', 'second_derivative', 'third_derivative', 'second_partial_derivative', 'third_partial_derivative', 'gradient', 'try_gradient',
                 'jacobian', 'try_jacobian', 'hessian', 'try_hessian', 'partial_hessian', 'try_partial_hessian', 'third_partial_derivative_vec',
                 'try_third_partial_derivative_vec', 'gradient_s3', 'jacobian_s2x3', 'hessian_s2', 'jacobian', 'third_partial_derivative_vec', 'partial_hessian']
        for k in range(n):
            name = names[k % len(names)]
            c = {'id': 'c%d' % k, 'name': name, 'm': 1, 'fail': 0, 'ijk': None, 'y': []}
            if name in ('first_derivative', 'second_derivative', 'third_derivative'):
                c['x'] = pt(1)
            elif name == 'second_partial_derivative':
                c['x'], c['y'] = pt(1), pt(1)
            elif name == 'third_partial_derivative':
                c['x'] = pt(3)
            elif name in ('gradient_s3', 'jacobian_s2x3'):
                c['x'] = pt(3); c['m'] = 2
            elif name == 'hessian_s2':
                c['x'] = pt(2)
            elif 'partial_hessian' in name:
                c['x'], c['y'] = pt(rng.below(5)), pt(rng.below(5))
            elif 'third_partial_derivative_vec' in name:
                nn = 1 + rng.below(4)
                c['x'] = pt(nn)
                c['ijk'] = (rng.below(nn), rng.below(nn), rng.below(nn))
            else:
                c['x'] = pt(rng.below(7))
                c['m'] = 1 + rng.below(6)
            if name.startswith('try_') and rng.below(3) == 0:
                c['fail'] = 1 + rng.below(1000)
            cases.append(c)
        return cases

    def harness_line(self, c):
        aux = [str(c['m']), str(c['fail'])] + ([str(v) for v in c['ijk']] if c['ijk'] else [])
        hx = lambda l: ' '.join('%016x' % f2b(v) for v in l)
        return '%s driver %s %s | %s | %s' % (c['id'], c['name'], ' '.join(aux), hx(c['x']), hx(c['y']))

    def coq_term(self, c):
        zl = lambda l: '[' + '; '.join(str(f2b(v)) for v in l) + ']'
        n, x, y, m, fail = c['name'], c['x'], c['y'], c['m'], c['fail']
        X, Y = '(X %s)' % zl(x), '(X %s)' % zl(y)
        P = lambda j: '(fun v => poly v %d%%nat)' % j
        if n == 'first_derivative':
            return 'fl (first_derivative (fun d => poly [d] 1%%nat) (x1 %d))' % f2b(x[0])
        if n == 'second_derivative':
            return 'fl (second_derivative (fun d => poly [d] 1%%nat) (x1 %d))' % f2b(x[0])
        if n == 'third_derivative':
            return 'fl (third_derivative (fun d => poly [d] 1%%nat) (x1 %d))' % f2b(x[0])
        if n == 'second_partial_derivative':
            return 'fl (second_partial_derivative (fun p q => poly2 [p] [q]) (x1 %d) (x1 %d))' % (f2b(x[0]), f2b(y[0]))
        if n == 'third_partial_derivative':
            return 'fl (third_partial_derivative (fun p q s => poly [p; q; s] 2%%nat) (x1 %d) (x1 %d) (x1 %d))' % tuple(f2b(v) for v in x)
        if n == 'third_partial_derivative_vec':
            return 'fl (third_partial_derivative_vec %s %s %d%%nat %d%%nat %d%%nat)' % ((P(1), X) + c['ijk'])
        if n == 'try_third_partial_derivative_vec':
            return 'flr (try_third_partial_derivative_vec Z (fun v => guard %d (poly v 1%%nat)) %s %d%%nat %d%%nat %d%%nat)' % ((fail, X) + c['ijk'])
        if n in ('gradient', 'gradient_s3'):
            return 'fl (gradient %s %s)' % (P(1), X)
        if n == 'try_gradient':
            return 'flr (try_gradient Z (fun v => guard %d (poly v 1%%nat)) %s)' % (fail, X)
        if n in ('jacobian', 'jacobian_s2x3'):
            return 'fl (jacobian (fun v => map (poly v) (seq 0 %d)) %s)' % (m, X)
        if n == 'try_jacobian':
            return 'flr (try_jacobian Z (fun v => guard %d (map (poly v) (seq 0 %d))) %s)' % (fail, m, X)
        if n in ('hessian', 'hessian_s2'):
            return 'fl (hessian %s %s)' % (P(1), X)
        if n == 'try_hessian':
            return 'flr (try_hessian Z (fun v => guard %d (poly v 1%%nat)) %s)' % (fail, X)
        if n == 'partial_hessian':
            return 'fl (partial_hessian (fun p q => poly2 p q) %s %s)' % (X, Y)
        if n == 'try_partial_hessian':
            return 'flr (try_partial_hessian Z (fun p q => guard %d (poly2 p q)) %s %s)' % (fail, X, Y)
        raise KeyError(n)

    def decode_model(self, zs):
        """generic token stream -> ('err', code) | list of numbers with matrices flattened ROW-major"""
        if zs and zs[0] == 8:
            return ('err', zs[1])
        if zs and zs[0] == 7:
            zs = zs[1:]
        toks = vlib.decode_otoks(zs)
        out = []
        i = 0
        while i < len(toks):
            t = toks[i]
            if t[0] == 'bits':
                out.append(vlib.canon_bits(t[1])); i += 1
            elif t[0] == 'some':
                r, c = t[1], t[2]
                ent = [vlib.canon_bits(toks[i + 1 + k][1]) for k in range(r * c)]
                out += [ent[j * r + a] for a in range(r) for j in range(c)]
                i += 1 + r * c
            elif t[0] == 'int':
                i += 1            # list length
            else:
                raise ValueError(t)
        return out

    def decode_impl(self, st, toks):
        if st != 'ok':
            return 'panic'
        if toks and toks[0] == 'err':
            return ('err', int(toks[1][1:]))
        if toks and toks[0] == 'okv':
            toks = toks[1:]
        return [vlib.canon_bits(int(t, 16)) for t in toks]

    def expected(self, c):
        """the property's statement evaluated exactly: the named partial derivatives of the closure, in the documented order"""
        import sympy as sp
        name = c['name'].replace('try_', '')
        if c['fail']:
            return ('err', c['fail'])
        X = [sp.Rational(Fraction(v)) for v in c['x']]
        Y = [sp.Rational(Fraction(v)) for v in c['y']]
        xs = sp.symbols('x0:%d' % max(len(X), 1))[:len(X)]
        ys = sp.symbols('y0:%d' % max(len(Y), 1))[:len(Y)]
        sub = dict(zip(xs, X))
        sub.update(dict(zip(ys, Y)))
        def ev(e):
            v = sp.Rational(sp.sympify(e).subs(sub))
            return Fraction(int(v.p), int(v.q))
        if name in ('first_derivative', 'second_derivative', 'third_derivative'):
            f = poly_expr(list(xs), 1)
            k = {'first_derivative': 1, 'second_derivative': 2, 'third_derivative': 3}[name]
            return [ev(sp.diff(f, xs[0], d)) if d else ev(f) for d in range(k + 1)]
        if name == 'second_partial_derivative':
            f = poly2_expr(list(xs), list(ys))
            return [ev(f), ev(sp.diff(f, xs[0])), ev(sp.diff(f, ys[0])), ev(sp.diff(f, xs[0], ys[0]))]
        if name == 'third_partial_derivative':
            f = poly_expr(list(xs), 2)
            a, b, d = xs
            return [ev(f), ev(sp.diff(f, a)), ev(sp.diff(f, b)), ev(sp.diff(f, d)), ev(sp.diff(f, a, b)), ev(sp.diff(f, a, d)), ev(sp.diff(f, b, d)), ev(sp.diff(f, a, b, d))]
        if name == 'third_partial_derivative_vec':
            f = poly_expr(list(xs), 1)
            a, b, d = (xs[t] for t in c['ijk'])
            return [ev(f), ev(sp.diff(f, a)), ev(sp.diff(f, b)), ev(sp.diff(f, d)), ev(sp.diff(f, a, b)), ev(sp.diff(f, a, d)), ev(sp.diff(f, b, d)), ev(sp.diff(f, a, b, d))]
        if name in ('gradient', 'gradient_s3'):
            f = poly_expr(list(xs), 1)
            return [ev(f)] + [ev(sp.diff(f, v)) for v in xs]
        if name in ('jacobian', 'jacobian_s2x3'):
            fs = [poly_expr(list(xs), j) for j in range(c['m'])]
            return [ev(f) for f in fs] + [ev(sp.diff(f, v)) for f in fs for v in xs]
        if name in ('hessian', 'hessian_s2'):
            f = poly_expr(list(xs), 1)
            return [ev(f)] + [ev(sp.diff(f, v)) for v in xs] + [ev(sp.diff(f, a, b)) for a in xs for b in xs]
        if name == 'partial_hessian':
            f = poly2_expr(list(xs), list(ys))
            return [ev(f)] + [ev(sp.diff(f, v)) for v in xs] + [ev(sp.diff(f, v)) for v in ys] + [ev(sp.diff(f, a, b)) for a in xs for b in ys]
        raise KeyError(name)

    def step_correspondence(self):
        rng = self.rng.fork('cases')
        n = self.n_quick if self.tier == 'quick' else self.n_thorough
        exe = vlib.build_harness('dev')
        self.exe = exe
        cases = self.gen_cases(rng, n)
        raw = vlib.run_harness(exe, [self.harness_line(c) for c in cases])
        cdir = vlib.CACHE + '/cases/C05'
        os.makedirs(cdir, exist_ok=True)
        src = [HEADER]
        terms = [self.coq_term(c) for c in cases]
        for i in range(0, len(terms), 40):
            src.append('Eval vm_compute in [' + ';\n '.join(terms[i:i + 40]) + '].')
        open(cdir + '/drv.v', 'w').write('\n'.join(src) + '\n')
        rc, o, e = vlib.sh(['coqc', '-noglob'] + vlib.COQFLAGS + [cdir + '/drv.v'], 1200, cwd=cdir)
        if rc != 0:
            raise InfraError('driver model evaluation failed: ' + (e or o)[-1200:])
        lists = [x for blk in vlib.parse_coq_lists(o) for x in blk]
        if len(lists) != len(cases):
            raise InfraError('driver model: %d results for %d cases' % (len(lists), len(cases)))
        agree = 0
        for c, zs in zip(cases, lists):
            st, toks = raw[c['id']]
            impl = self.decode_impl(st, toks)
            model = self.decode_model(zs)
            if impl != model:
                self.broken.append(Violation('correspondence-broken', 'hand model of %s and implementation differ' % c['name'], case=c,
                                             expected={'model': model}, obtained={'implementation': impl}, name='correspondence:Drivers:%s' % c['name']))
            else:
                agree += 1
            want = self.expected(c)
            if isinstance(want, tuple):
                okk = impl == want
            elif impl == 'panic' or isinstance(impl, tuple):
                okk = False
            else:
                got = [Fraction(b2f(b)) if isinstance(b, int) else None for b in impl]
                # the polynomial part of the closures is exact on the dyadic inputs; the quotient term is not: 2^-40 relative to max(1, |value|)
                okk = len(got) == len(want) and all(g is not None and (g == w or abs(g - w) <= Fraction(1, 2 ** 40) * max(1, abs(w))) for g, w in zip(got, want))
            if not okk:
                self.violations.append(Violation('counterexample', '%s (n=%d, m=%d%s) does not return the named partial derivatives of the closure in the documented order' % (
                    c['name'], len(c['x']), c['m'], ', ijk=%s' % (c['ijk'],) if c['ijk'] else ''), case=c,
                    expected=[str(w) for w in want] if isinstance(want, list) else want, obtained=[b2f(b) if isinstance(b, int) else b for b in impl] if isinstance(impl, list) else impl))
        self.cases_run = cases
        dist = {}
        for c in cases:
            dist[c['name']] = dist.get(c['name'], 0) + 1
        self.cov.update({'evaluations': len(cases), 'distinct_nontrivial': agree, 'distribution': dist,
                         'correspondence': {'cases': len(cases), 'agree': agree, 'disagree': len(cases) - agree, 'model_errors': 0},
                         'samples': cases[:5]})
        vlib.log('%s: %d driver calls, %d agree with the hand model, %d property violations' % (self.pid, len(cases), agree, len(self.violations)))

    def step_search(self):
        pass

    def rule_text(self):
        return ('all twenty drivers on asymmetric cubic closures R^n -> R^m that exist on both sides (Rust harness and Gallina), n in 0..6, m in 1..6, static 2/3 and dynamic '
                'vectors, all index triples incl. repeated ones for third_partial_derivative_vec, try_ variants with closures returning distinct error codes; points on a dyadic grid so '
                'that the polynomial part of every result is exact; with two or more variables the closures also contain a quotient of expressions with non-parallel gradients and, from the fourth output on, constant outputs without derivative parts: compared bit for bit with the hand model evaluated in Coq and with sympy partial derivatives in the documented orientation (exactly, or to 2^-40 relative where the quotient term makes the result inexact)')
