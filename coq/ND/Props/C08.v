(* Props/C08.v -- property C08 -- written by tools/coqgen/gen_c08.py.  All syntactic forms of an operation give the same result. *)

From ND Require Import C08_forms.
From ND Require Import Overload Float Mat Opt.
From NDgen Require Import Classes Gen_Float Gen_Derivative Gen_Dual Gen_Dual2 Gen_Dual3 Gen_HyperDual Gen_HyperHyperDual Gen_DualVec Gen_Dual2Vec Gen_HyperDualVec.
Local Open Scope rs_scope.

Section Generic.
Context {F T : Type} {dnFT : DN F T} {ordT : DNOrd T}.
#[local] Instance flF : FL F := dn_fl (T:=T).
Theorem C08_form_Dual_add_rv : forall x y : Dual T, Dual_add_rv x y = x + y.
Proof. exact form_Dual_add_rv. Qed.
Theorem C08_form_Dual_add_vr : forall x y : Dual T, Dual_add_vr x y = x + y.
Proof. exact form_Dual_add_vr. Qed.
Theorem C08_form_Dual_add_vv : forall x y : Dual T, Dual_add_vv x y = x + y.
Proof. exact form_Dual_add_vv. Qed.
Theorem C08_form_Dual_sub_rv : forall x y : Dual T, Dual_sub_rv x y = x - y.
Proof. exact form_Dual_sub_rv. Qed.
Theorem C08_form_Dual_sub_vr : forall x y : Dual T, Dual_sub_vr x y = x - y.
Proof. exact form_Dual_sub_vr. Qed.
Theorem C08_form_Dual_sub_vv : forall x y : Dual T, Dual_sub_vv x y = x - y.
Proof. exact form_Dual_sub_vv. Qed.
Theorem C08_form_Dual_mul_rv : forall x y : Dual T, Dual_mul_rv x y = x * y.
Proof. exact form_Dual_mul_rv. Qed.
Theorem C08_form_Dual_mul_vr : forall x y : Dual T, Dual_mul_vr x y = x * y.
Proof. exact form_Dual_mul_vr. Qed.
Theorem C08_form_Dual_mul_vv : forall x y : Dual T, Dual_mul_vv x y = x * y.
Proof. exact form_Dual_mul_vv. Qed.
Theorem C08_form_Dual_div_rv : forall x y : Dual T, Dual_div_rv x y = x / y.
Proof. exact form_Dual_div_rv. Qed.
Theorem C08_form_Dual_div_vr : forall x y : Dual T, Dual_div_vr x y = x / y.
Proof. exact form_Dual_div_vr. Qed.
Theorem C08_form_Dual_div_vv : forall x y : Dual T, Dual_div_vv x y = x / y.
Proof. exact form_Dual_div_vv. Qed.
Theorem C08_form_Dual_neg_v : forall x : Dual T, Dual_neg_v x = - x.
Proof. exact form_Dual_neg_v. Qed.
Theorem C08_form_Dual_mul_assign : forall x y : Dual T, hmul_assign x y = x * y.
Proof. exact form_Dual_mul_assign. Qed.
Theorem C08_form_Dual_div_assign : forall x y : Dual T, hdiv_assign x y = x / y.
Proof. exact form_Dual_div_assign. Qed.
Theorem C08_form_Dual_add_F : forall (x : Dual T) (q : F), x + q = hadd_assign x q.
Proof. exact form_Dual_add_F. Qed.
Theorem C08_form_Dual_sub_F : forall (x : Dual T) (q : F), x - q = hsub_assign x q.
Proof. exact form_Dual_sub_F. Qed.
Theorem C08_form_Dual_mul_F : forall (x : Dual T) (q : F), x * q = hmul_assign x q.
Proof. exact form_Dual_mul_F. Qed.
Theorem C08_form_Dual_div_F : forall (x : Dual T) (q : F), x / q = hdiv_assign x q.
Proof. exact form_Dual_div_F. Qed.
Theorem C08_form_Dual_inv : forall x : Dual T, m_inv x = m_recip x.
Proof. exact form_Dual_inv. Qed.
Theorem C08_form_Dual_mul_add : forall x a b : Dual T, m_mul_add x a b = x * a + b.
Proof. exact form_Dual_mul_add. Qed.
Theorem C08_form_Dual_sum : forall l : list (Dual T), Dual_Sum_sum l = fold_left (fun acc c => acc + c) l (zero : Dual T) /\ Dual_Sum_sum_2 l = fold_left (fun acc c => acc + c) l (zero : Dual T).
Proof. exact form_Dual_sum. Qed.
Theorem C08_form_Dual_product : forall l : list (Dual T), Dual_Product_product l = fold_left (fun acc c => acc * c) l (one : Dual T) /\ Dual_Product_product_2 l = fold_left (fun acc c => acc * c) l (one : Dual T).
Proof. exact form_Dual_product. Qed.
Theorem C08_const_Dual_from_re : forall r : T, Dual_from_re r = (fun r : T => mkDual r zero) r.
Proof. exact const_Dual_from_re. Qed.
Theorem C08_const_Dual_from : forall q : F, (ofF q : Dual T) = Dual_from_re (ofF q : T).
Proof. exact const_Dual_from. Qed.
Theorem C08_const_Dual_zero_one : (zero : Dual T) = Dual_from_re (zero : T) /\ (one : Dual T) = Dual_from_re (one : T).
Proof. exact const_Dual_zero_one. Qed.
Theorem C08_const_Dual_E : Dual_FloatConst_E = (ofF (fl_const C_E : F) : Dual T).
Proof. exact const_Dual_E. Qed.
Theorem C08_const_Dual_FRAC_1_PI : Dual_FloatConst_FRAC_1_PI = (ofF (fl_const C_FRAC_1_PI : F) : Dual T).
Proof. exact const_Dual_FRAC_1_PI. Qed.
Theorem C08_const_Dual_FRAC_1_SQRT_2 : Dual_FloatConst_FRAC_1_SQRT_2 = (ofF (fl_const C_FRAC_1_SQRT_2 : F) : Dual T).
Proof. exact const_Dual_FRAC_1_SQRT_2. Qed.
Theorem C08_const_Dual_FRAC_2_PI : Dual_FloatConst_FRAC_2_PI = (ofF (fl_const C_FRAC_2_PI : F) : Dual T).
Proof. exact const_Dual_FRAC_2_PI. Qed.
Theorem C08_const_Dual_FRAC_2_SQRT_PI : Dual_FloatConst_FRAC_2_SQRT_PI = (ofF (fl_const C_FRAC_2_SQRT_PI : F) : Dual T).
Proof. exact const_Dual_FRAC_2_SQRT_PI. Qed.
Theorem C08_const_Dual_FRAC_PI_2 : Dual_FloatConst_FRAC_PI_2 = (ofF (fl_const C_FRAC_PI_2 : F) : Dual T).
Proof. exact const_Dual_FRAC_PI_2. Qed.
Theorem C08_const_Dual_FRAC_PI_3 : Dual_FloatConst_FRAC_PI_3 = (ofF (fl_const C_FRAC_PI_3 : F) : Dual T).
Proof. exact const_Dual_FRAC_PI_3. Qed.
Theorem C08_const_Dual_FRAC_PI_4 : Dual_FloatConst_FRAC_PI_4 = (ofF (fl_const C_FRAC_PI_4 : F) : Dual T).
Proof. exact const_Dual_FRAC_PI_4. Qed.
Theorem C08_const_Dual_FRAC_PI_6 : Dual_FloatConst_FRAC_PI_6 = (ofF (fl_const C_FRAC_PI_6 : F) : Dual T).
Proof. exact const_Dual_FRAC_PI_6. Qed.
Theorem C08_const_Dual_FRAC_PI_8 : Dual_FloatConst_FRAC_PI_8 = (ofF (fl_const C_FRAC_PI_8 : F) : Dual T).
Proof. exact const_Dual_FRAC_PI_8. Qed.
Theorem C08_const_Dual_LN_10 : Dual_FloatConst_LN_10 = (ofF (fl_const C_LN_10 : F) : Dual T).
Proof. exact const_Dual_LN_10. Qed.
Theorem C08_const_Dual_LN_2 : Dual_FloatConst_LN_2 = (ofF (fl_const C_LN_2 : F) : Dual T).
Proof. exact const_Dual_LN_2. Qed.
Theorem C08_const_Dual_LOG10_E : Dual_FloatConst_LOG10_E = (ofF (fl_const C_LOG10_E : F) : Dual T).
Proof. exact const_Dual_LOG10_E. Qed.
Theorem C08_const_Dual_LOG2_E : Dual_FloatConst_LOG2_E = (ofF (fl_const C_LOG2_E : F) : Dual T).
Proof. exact const_Dual_LOG2_E. Qed.
Theorem C08_const_Dual_PI : Dual_FloatConst_PI = (ofF (fl_const C_PI : F) : Dual T).
Proof. exact const_Dual_PI. Qed.
Theorem C08_const_Dual_SQRT_2 : Dual_FloatConst_SQRT_2 = (ofF (fl_const C_SQRT_2 : F) : Dual T).
Proof. exact const_Dual_SQRT_2. Qed.
Theorem C08_const_Dual_from_isize : forall n : Z, Dual_FromPrimitive_from_isize n = Some (ofF (castZ n : F) : Dual T).
Proof. exact const_Dual_from_isize. Qed.
Theorem C08_const_Dual_from_i8 : forall n : Z, Dual_FromPrimitive_from_i8 n = Some (ofF (castZ n : F) : Dual T).
Proof. exact const_Dual_from_i8. Qed.
Theorem C08_const_Dual_from_i16 : forall n : Z, Dual_FromPrimitive_from_i16 n = Some (ofF (castZ n : F) : Dual T).
Proof. exact const_Dual_from_i16. Qed.
Theorem C08_const_Dual_from_i32 : forall n : Z, Dual_FromPrimitive_from_i32 n = Some (ofF (castZ n : F) : Dual T).
Proof. exact const_Dual_from_i32. Qed.
Theorem C08_const_Dual_from_i64 : forall n : Z, Dual_FromPrimitive_from_i64 n = Some (ofF (castZ n : F) : Dual T).
Proof. exact const_Dual_from_i64. Qed.
Theorem C08_const_Dual_from_i128 : forall n : Z, Dual_FromPrimitive_from_i128 n = Some (ofF (castZ n : F) : Dual T).
Proof. exact const_Dual_from_i128. Qed.
Theorem C08_const_Dual_from_u8 : forall n : Z, Dual_FromPrimitive_from_u8 n = Some (ofF (castZ n : F) : Dual T).
Proof. exact const_Dual_from_u8. Qed.
Theorem C08_const_Dual_from_u16 : forall n : Z, Dual_FromPrimitive_from_u16 n = Some (ofF (castZ n : F) : Dual T).
Proof. exact const_Dual_from_u16. Qed.
Theorem C08_const_Dual_from_u32 : forall n : Z, Dual_FromPrimitive_from_u32 n = Some (ofF (castZ n : F) : Dual T).
Proof. exact const_Dual_from_u32. Qed.
Theorem C08_const_Dual_from_u64 : forall n : Z, Dual_FromPrimitive_from_u64 n = Some (ofF (castZ n : F) : Dual T).
Proof. exact const_Dual_from_u64. Qed.
Theorem C08_const_Dual_from_u128 : forall n : Z, Dual_FromPrimitive_from_u128 n = Some (ofF (castZ n : F) : Dual T).
Proof. exact const_Dual_from_u128. Qed.
Theorem C08_form_Dual2_add_rv : forall x y : Dual2 T, Dual2_add_rv x y = x + y.
Proof. exact form_Dual2_add_rv. Qed.
Theorem C08_form_Dual2_add_vr : forall x y : Dual2 T, Dual2_add_vr x y = x + y.
Proof. exact form_Dual2_add_vr. Qed.
Theorem C08_form_Dual2_add_vv : forall x y : Dual2 T, Dual2_add_vv x y = x + y.
Proof. exact form_Dual2_add_vv. Qed.
Theorem C08_form_Dual2_sub_rv : forall x y : Dual2 T, Dual2_sub_rv x y = x - y.
Proof. exact form_Dual2_sub_rv. Qed.
Theorem C08_form_Dual2_sub_vr : forall x y : Dual2 T, Dual2_sub_vr x y = x - y.
Proof. exact form_Dual2_sub_vr. Qed.
Theorem C08_form_Dual2_sub_vv : forall x y : Dual2 T, Dual2_sub_vv x y = x - y.
Proof. exact form_Dual2_sub_vv. Qed.
Theorem C08_form_Dual2_mul_rv : forall x y : Dual2 T, Dual2_mul_rv x y = x * y.
Proof. exact form_Dual2_mul_rv. Qed.
Theorem C08_form_Dual2_mul_vr : forall x y : Dual2 T, Dual2_mul_vr x y = x * y.
Proof. exact form_Dual2_mul_vr. Qed.
Theorem C08_form_Dual2_mul_vv : forall x y : Dual2 T, Dual2_mul_vv x y = x * y.
Proof. exact form_Dual2_mul_vv. Qed.
Theorem C08_form_Dual2_div_rv : forall x y : Dual2 T, Dual2_div_rv x y = x / y.
Proof. exact form_Dual2_div_rv. Qed.
Theorem C08_form_Dual2_div_vr : forall x y : Dual2 T, Dual2_div_vr x y = x / y.
Proof. exact form_Dual2_div_vr. Qed.
Theorem C08_form_Dual2_div_vv : forall x y : Dual2 T, Dual2_div_vv x y = x / y.
Proof. exact form_Dual2_div_vv. Qed.
Theorem C08_form_Dual2_neg_v : forall x : Dual2 T, Dual2_neg_v x = - x.
Proof. exact form_Dual2_neg_v. Qed.
Theorem C08_form_Dual2_mul_assign : forall x y : Dual2 T, hmul_assign x y = x * y.
Proof. exact form_Dual2_mul_assign. Qed.
Theorem C08_form_Dual2_div_assign : forall x y : Dual2 T, hdiv_assign x y = x / y.
Proof. exact form_Dual2_div_assign. Qed.
Theorem C08_form_Dual2_add_F : forall (x : Dual2 T) (q : F), x + q = hadd_assign x q.
Proof. exact form_Dual2_add_F. Qed.
Theorem C08_form_Dual2_sub_F : forall (x : Dual2 T) (q : F), x - q = hsub_assign x q.
Proof. exact form_Dual2_sub_F. Qed.
Theorem C08_form_Dual2_mul_F : forall (x : Dual2 T) (q : F), x * q = hmul_assign x q.
Proof. exact form_Dual2_mul_F. Qed.
Theorem C08_form_Dual2_div_F : forall (x : Dual2 T) (q : F), x / q = hdiv_assign x q.
Proof. exact form_Dual2_div_F. Qed.
Theorem C08_form_Dual2_inv : forall x : Dual2 T, m_inv x = m_recip x.
Proof. exact form_Dual2_inv. Qed.
Theorem C08_form_Dual2_mul_add : forall x a b : Dual2 T, m_mul_add x a b = x * a + b.
Proof. exact form_Dual2_mul_add. Qed.
Theorem C08_form_Dual2_sum : forall l : list (Dual2 T), Dual2_Sum_sum l = fold_left (fun acc c => acc + c) l (zero : Dual2 T) /\ Dual2_Sum_sum_2 l = fold_left (fun acc c => acc + c) l (zero : Dual2 T).
Proof. exact form_Dual2_sum. Qed.
Theorem C08_form_Dual2_product : forall l : list (Dual2 T), Dual2_Product_product l = fold_left (fun acc c => acc * c) l (one : Dual2 T) /\ Dual2_Product_product_2 l = fold_left (fun acc c => acc * c) l (one : Dual2 T).
Proof. exact form_Dual2_product. Qed.
Theorem C08_const_Dual2_from_re : forall r : T, Dual2_from_re r = (fun r : T => mkDual2 r zero zero) r.
Proof. exact const_Dual2_from_re. Qed.
Theorem C08_const_Dual2_from : forall q : F, (ofF q : Dual2 T) = Dual2_from_re (ofF q : T).
Proof. exact const_Dual2_from. Qed.
Theorem C08_const_Dual2_zero_one : (zero : Dual2 T) = Dual2_from_re (zero : T) /\ (one : Dual2 T) = Dual2_from_re (one : T).
Proof. exact const_Dual2_zero_one. Qed.
Theorem C08_const_Dual2_E : Dual2_FloatConst_E = (ofF (fl_const C_E : F) : Dual2 T).
Proof. exact const_Dual2_E. Qed.
Theorem C08_const_Dual2_FRAC_1_PI : Dual2_FloatConst_FRAC_1_PI = (ofF (fl_const C_FRAC_1_PI : F) : Dual2 T).
Proof. exact const_Dual2_FRAC_1_PI. Qed.
Theorem C08_const_Dual2_FRAC_1_SQRT_2 : Dual2_FloatConst_FRAC_1_SQRT_2 = (ofF (fl_const C_FRAC_1_SQRT_2 : F) : Dual2 T).
Proof. exact const_Dual2_FRAC_1_SQRT_2. Qed.
Theorem C08_const_Dual2_FRAC_2_PI : Dual2_FloatConst_FRAC_2_PI = (ofF (fl_const C_FRAC_2_PI : F) : Dual2 T).
Proof. exact const_Dual2_FRAC_2_PI. Qed.
Theorem C08_const_Dual2_FRAC_2_SQRT_PI : Dual2_FloatConst_FRAC_2_SQRT_PI = (ofF (fl_const C_FRAC_2_SQRT_PI : F) : Dual2 T).
Proof. exact const_Dual2_FRAC_2_SQRT_PI. Qed.
Theorem C08_const_Dual2_FRAC_PI_2 : Dual2_FloatConst_FRAC_PI_2 = (ofF (fl_const C_FRAC_PI_2 : F) : Dual2 T).
Proof. exact const_Dual2_FRAC_PI_2. Qed.
Theorem C08_const_Dual2_FRAC_PI_3 : Dual2_FloatConst_FRAC_PI_3 = (ofF (fl_const C_FRAC_PI_3 : F) : Dual2 T).
Proof. exact const_Dual2_FRAC_PI_3. Qed.
Theorem C08_const_Dual2_FRAC_PI_4 : Dual2_FloatConst_FRAC_PI_4 = (ofF (fl_const C_FRAC_PI_4 : F) : Dual2 T).
Proof. exact const_Dual2_FRAC_PI_4. Qed.
Theorem C08_const_Dual2_FRAC_PI_6 : Dual2_FloatConst_FRAC_PI_6 = (ofF (fl_const C_FRAC_PI_6 : F) : Dual2 T).
Proof. exact const_Dual2_FRAC_PI_6. Qed.
Theorem C08_const_Dual2_FRAC_PI_8 : Dual2_FloatConst_FRAC_PI_8 = (ofF (fl_const C_FRAC_PI_8 : F) : Dual2 T).
Proof. exact const_Dual2_FRAC_PI_8. Qed.
Theorem C08_const_Dual2_LN_10 : Dual2_FloatConst_LN_10 = (ofF (fl_const C_LN_10 : F) : Dual2 T).
Proof. exact const_Dual2_LN_10. Qed.
Theorem C08_const_Dual2_LN_2 : Dual2_FloatConst_LN_2 = (ofF (fl_const C_LN_2 : F) : Dual2 T).
Proof. exact const_Dual2_LN_2. Qed.
Theorem C08_const_Dual2_LOG10_E : Dual2_FloatConst_LOG10_E = (ofF (fl_const C_LOG10_E : F) : Dual2 T).
Proof. exact const_Dual2_LOG10_E. Qed.
Theorem C08_const_Dual2_LOG2_E : Dual2_FloatConst_LOG2_E = (ofF (fl_const C_LOG2_E : F) : Dual2 T).
Proof. exact const_Dual2_LOG2_E. Qed.
Theorem C08_const_Dual2_PI : Dual2_FloatConst_PI = (ofF (fl_const C_PI : F) : Dual2 T).
Proof. exact const_Dual2_PI. Qed.
Theorem C08_const_Dual2_SQRT_2 : Dual2_FloatConst_SQRT_2 = (ofF (fl_const C_SQRT_2 : F) : Dual2 T).
Proof. exact const_Dual2_SQRT_2. Qed.
Theorem C08_const_Dual2_from_isize : forall n : Z, Dual2_FromPrimitive_from_isize n = Some (ofF (castZ n : F) : Dual2 T).
Proof. exact const_Dual2_from_isize. Qed.
Theorem C08_const_Dual2_from_i8 : forall n : Z, Dual2_FromPrimitive_from_i8 n = Some (ofF (castZ n : F) : Dual2 T).
Proof. exact const_Dual2_from_i8. Qed.
Theorem C08_const_Dual2_from_i16 : forall n : Z, Dual2_FromPrimitive_from_i16 n = Some (ofF (castZ n : F) : Dual2 T).
Proof. exact const_Dual2_from_i16. Qed.
Theorem C08_const_Dual2_from_i32 : forall n : Z, Dual2_FromPrimitive_from_i32 n = Some (ofF (castZ n : F) : Dual2 T).
Proof. exact const_Dual2_from_i32. Qed.
Theorem C08_const_Dual2_from_i64 : forall n : Z, Dual2_FromPrimitive_from_i64 n = Some (ofF (castZ n : F) : Dual2 T).
Proof. exact const_Dual2_from_i64. Qed.
Theorem C08_const_Dual2_from_i128 : forall n : Z, Dual2_FromPrimitive_from_i128 n = Some (ofF (castZ n : F) : Dual2 T).
Proof. exact const_Dual2_from_i128. Qed.
Theorem C08_const_Dual2_from_u8 : forall n : Z, Dual2_FromPrimitive_from_u8 n = Some (ofF (castZ n : F) : Dual2 T).
Proof. exact const_Dual2_from_u8. Qed.
Theorem C08_const_Dual2_from_u16 : forall n : Z, Dual2_FromPrimitive_from_u16 n = Some (ofF (castZ n : F) : Dual2 T).
Proof. exact const_Dual2_from_u16. Qed.
Theorem C08_const_Dual2_from_u32 : forall n : Z, Dual2_FromPrimitive_from_u32 n = Some (ofF (castZ n : F) : Dual2 T).
Proof. exact const_Dual2_from_u32. Qed.
Theorem C08_const_Dual2_from_u64 : forall n : Z, Dual2_FromPrimitive_from_u64 n = Some (ofF (castZ n : F) : Dual2 T).
Proof. exact const_Dual2_from_u64. Qed.
Theorem C08_const_Dual2_from_u128 : forall n : Z, Dual2_FromPrimitive_from_u128 n = Some (ofF (castZ n : F) : Dual2 T).
Proof. exact const_Dual2_from_u128. Qed.
Theorem C08_form_Dual3_add_rv : forall x y : Dual3 T, Dual3_add_rv x y = x + y.
Proof. exact form_Dual3_add_rv. Qed.
Theorem C08_form_Dual3_add_vr : forall x y : Dual3 T, Dual3_add_vr x y = x + y.
Proof. exact form_Dual3_add_vr. Qed.
Theorem C08_form_Dual3_add_vv : forall x y : Dual3 T, Dual3_add_vv x y = x + y.
Proof. exact form_Dual3_add_vv. Qed.
Theorem C08_form_Dual3_sub_rv : forall x y : Dual3 T, Dual3_sub_rv x y = x - y.
Proof. exact form_Dual3_sub_rv. Qed.
Theorem C08_form_Dual3_sub_vr : forall x y : Dual3 T, Dual3_sub_vr x y = x - y.
Proof. exact form_Dual3_sub_vr. Qed.
Theorem C08_form_Dual3_sub_vv : forall x y : Dual3 T, Dual3_sub_vv x y = x - y.
Proof. exact form_Dual3_sub_vv. Qed.
Theorem C08_form_Dual3_mul_rv : forall x y : Dual3 T, Dual3_mul_rv x y = x * y.
Proof. exact form_Dual3_mul_rv. Qed.
Theorem C08_form_Dual3_mul_vr : forall x y : Dual3 T, Dual3_mul_vr x y = x * y.
Proof. exact form_Dual3_mul_vr. Qed.
Theorem C08_form_Dual3_mul_vv : forall x y : Dual3 T, Dual3_mul_vv x y = x * y.
Proof. exact form_Dual3_mul_vv. Qed.
Theorem C08_form_Dual3_div_rv : forall x y : Dual3 T, Dual3_div_rv x y = x / y.
Proof. exact form_Dual3_div_rv. Qed.
Theorem C08_form_Dual3_div_vr : forall x y : Dual3 T, Dual3_div_vr x y = x / y.
Proof. exact form_Dual3_div_vr. Qed.
Theorem C08_form_Dual3_div_vv : forall x y : Dual3 T, Dual3_div_vv x y = x / y.
Proof. exact form_Dual3_div_vv. Qed.
Theorem C08_form_Dual3_neg_v : forall x : Dual3 T, Dual3_neg_v x = - x.
Proof. exact form_Dual3_neg_v. Qed.
Theorem C08_form_Dual3_mul_assign : forall x y : Dual3 T, hmul_assign x y = x * y.
Proof. exact form_Dual3_mul_assign. Qed.
Theorem C08_form_Dual3_div_assign : forall x y : Dual3 T, hdiv_assign x y = x / y.
Proof. exact form_Dual3_div_assign. Qed.
Theorem C08_form_Dual3_add_F : forall (x : Dual3 T) (q : F), x + q = hadd_assign x q.
Proof. exact form_Dual3_add_F. Qed.
Theorem C08_form_Dual3_sub_F : forall (x : Dual3 T) (q : F), x - q = hsub_assign x q.
Proof. exact form_Dual3_sub_F. Qed.
Theorem C08_form_Dual3_mul_F : forall (x : Dual3 T) (q : F), x * q = hmul_assign x q.
Proof. exact form_Dual3_mul_F. Qed.
Theorem C08_form_Dual3_div_F : forall (x : Dual3 T) (q : F), x / q = hdiv_assign x q.
Proof. exact form_Dual3_div_F. Qed.
Theorem C08_form_Dual3_inv : forall x : Dual3 T, m_inv x = m_recip x.
Proof. exact form_Dual3_inv. Qed.
Theorem C08_form_Dual3_mul_add : forall x a b : Dual3 T, m_mul_add x a b = x * a + b.
Proof. exact form_Dual3_mul_add. Qed.
Theorem C08_form_Dual3_sum : forall l : list (Dual3 T), Dual3_Sum_sum l = fold_left (fun acc c => acc + c) l (zero : Dual3 T) /\ Dual3_Sum_sum_2 l = fold_left (fun acc c => acc + c) l (zero : Dual3 T).
Proof. exact form_Dual3_sum. Qed.
Theorem C08_form_Dual3_product : forall l : list (Dual3 T), Dual3_Product_product l = fold_left (fun acc c => acc * c) l (one : Dual3 T) /\ Dual3_Product_product_2 l = fold_left (fun acc c => acc * c) l (one : Dual3 T).
Proof. exact form_Dual3_product. Qed.
Theorem C08_const_Dual3_from_re : forall r : T, Dual3_from_re r = (fun r : T => mkDual3 r zero zero zero) r.
Proof. exact const_Dual3_from_re. Qed.
Theorem C08_const_Dual3_from : forall q : F, (ofF q : Dual3 T) = Dual3_from_re (ofF q : T).
Proof. exact const_Dual3_from. Qed.
Theorem C08_const_Dual3_zero_one : (zero : Dual3 T) = Dual3_from_re (zero : T) /\ (one : Dual3 T) = Dual3_from_re (one : T).
Proof. exact const_Dual3_zero_one. Qed.
Theorem C08_const_Dual3_E : Dual3_FloatConst_E = (ofF (fl_const C_E : F) : Dual3 T).
Proof. exact const_Dual3_E. Qed.
Theorem C08_const_Dual3_FRAC_1_PI : Dual3_FloatConst_FRAC_1_PI = (ofF (fl_const C_FRAC_1_PI : F) : Dual3 T).
Proof. exact const_Dual3_FRAC_1_PI. Qed.
Theorem C08_const_Dual3_FRAC_1_SQRT_2 : Dual3_FloatConst_FRAC_1_SQRT_2 = (ofF (fl_const C_FRAC_1_SQRT_2 : F) : Dual3 T).
Proof. exact const_Dual3_FRAC_1_SQRT_2. Qed.
Theorem C08_const_Dual3_FRAC_2_PI : Dual3_FloatConst_FRAC_2_PI = (ofF (fl_const C_FRAC_2_PI : F) : Dual3 T).
Proof. exact const_Dual3_FRAC_2_PI. Qed.
Theorem C08_const_Dual3_FRAC_2_SQRT_PI : Dual3_FloatConst_FRAC_2_SQRT_PI = (ofF (fl_const C_FRAC_2_SQRT_PI : F) : Dual3 T).
Proof. exact const_Dual3_FRAC_2_SQRT_PI. Qed.
Theorem C08_const_Dual3_FRAC_PI_2 : Dual3_FloatConst_FRAC_PI_2 = (ofF (fl_const C_FRAC_PI_2 : F) : Dual3 T).
Proof. exact const_Dual3_FRAC_PI_2. Qed.
Theorem C08_const_Dual3_FRAC_PI_3 : Dual3_FloatConst_FRAC_PI_3 = (ofF (fl_const C_FRAC_PI_3 : F) : Dual3 T).
Proof. exact const_Dual3_FRAC_PI_3. Qed.
Theorem C08_const_Dual3_FRAC_PI_4 : Dual3_FloatConst_FRAC_PI_4 = (ofF (fl_const C_FRAC_PI_4 : F) : Dual3 T).
Proof. exact const_Dual3_FRAC_PI_4. Qed.
Theorem C08_const_Dual3_FRAC_PI_6 : Dual3_FloatConst_FRAC_PI_6 = (ofF (fl_const C_FRAC_PI_6 : F) : Dual3 T).
Proof. exact const_Dual3_FRAC_PI_6. Qed.
Theorem C08_const_Dual3_FRAC_PI_8 : Dual3_FloatConst_FRAC_PI_8 = (ofF (fl_const C_FRAC_PI_8 : F) : Dual3 T).
Proof. exact const_Dual3_FRAC_PI_8. Qed.
Theorem C08_const_Dual3_LN_10 : Dual3_FloatConst_LN_10 = (ofF (fl_const C_LN_10 : F) : Dual3 T).
Proof. exact const_Dual3_LN_10. Qed.
Theorem C08_const_Dual3_LN_2 : Dual3_FloatConst_LN_2 = (ofF (fl_const C_LN_2 : F) : Dual3 T).
Proof. exact const_Dual3_LN_2. Qed.
Theorem C08_const_Dual3_LOG10_E : Dual3_FloatConst_LOG10_E = (ofF (fl_const C_LOG10_E : F) : Dual3 T).
Proof. exact const_Dual3_LOG10_E. Qed.
Theorem C08_const_Dual3_LOG2_E : Dual3_FloatConst_LOG2_E = (ofF (fl_const C_LOG2_E : F) : Dual3 T).
Proof. exact const_Dual3_LOG2_E. Qed.
Theorem C08_const_Dual3_PI : Dual3_FloatConst_PI = (ofF (fl_const C_PI : F) : Dual3 T).
Proof. exact const_Dual3_PI. Qed.
Theorem C08_const_Dual3_SQRT_2 : Dual3_FloatConst_SQRT_2 = (ofF (fl_const C_SQRT_2 : F) : Dual3 T).
Proof. exact const_Dual3_SQRT_2. Qed.
Theorem C08_const_Dual3_from_isize : forall n : Z, Dual3_FromPrimitive_from_isize n = Some (ofF (castZ n : F) : Dual3 T).
Proof. exact const_Dual3_from_isize. Qed.
Theorem C08_const_Dual3_from_i8 : forall n : Z, Dual3_FromPrimitive_from_i8 n = Some (ofF (castZ n : F) : Dual3 T).
Proof. exact const_Dual3_from_i8. Qed.
Theorem C08_const_Dual3_from_i16 : forall n : Z, Dual3_FromPrimitive_from_i16 n = Some (ofF (castZ n : F) : Dual3 T).
Proof. exact const_Dual3_from_i16. Qed.
Theorem C08_const_Dual3_from_i32 : forall n : Z, Dual3_FromPrimitive_from_i32 n = Some (ofF (castZ n : F) : Dual3 T).
Proof. exact const_Dual3_from_i32. Qed.
Theorem C08_const_Dual3_from_i64 : forall n : Z, Dual3_FromPrimitive_from_i64 n = Some (ofF (castZ n : F) : Dual3 T).
Proof. exact const_Dual3_from_i64. Qed.
Theorem C08_const_Dual3_from_i128 : forall n : Z, Dual3_FromPrimitive_from_i128 n = Some (ofF (castZ n : F) : Dual3 T).
Proof. exact const_Dual3_from_i128. Qed.
Theorem C08_const_Dual3_from_u8 : forall n : Z, Dual3_FromPrimitive_from_u8 n = Some (ofF (castZ n : F) : Dual3 T).
Proof. exact const_Dual3_from_u8. Qed.
Theorem C08_const_Dual3_from_u16 : forall n : Z, Dual3_FromPrimitive_from_u16 n = Some (ofF (castZ n : F) : Dual3 T).
Proof. exact const_Dual3_from_u16. Qed.
Theorem C08_const_Dual3_from_u32 : forall n : Z, Dual3_FromPrimitive_from_u32 n = Some (ofF (castZ n : F) : Dual3 T).
Proof. exact const_Dual3_from_u32. Qed.
Theorem C08_const_Dual3_from_u64 : forall n : Z, Dual3_FromPrimitive_from_u64 n = Some (ofF (castZ n : F) : Dual3 T).
Proof. exact const_Dual3_from_u64. Qed.
Theorem C08_const_Dual3_from_u128 : forall n : Z, Dual3_FromPrimitive_from_u128 n = Some (ofF (castZ n : F) : Dual3 T).
Proof. exact const_Dual3_from_u128. Qed.
Theorem C08_form_HyperDual_add_rv : forall x y : HyperDual T, HyperDual_add_rv x y = x + y.
Proof. exact form_HyperDual_add_rv. Qed.
Theorem C08_form_HyperDual_add_vr : forall x y : HyperDual T, HyperDual_add_vr x y = x + y.
Proof. exact form_HyperDual_add_vr. Qed.
Theorem C08_form_HyperDual_add_vv : forall x y : HyperDual T, HyperDual_add_vv x y = x + y.
Proof. exact form_HyperDual_add_vv. Qed.
Theorem C08_form_HyperDual_sub_rv : forall x y : HyperDual T, HyperDual_sub_rv x y = x - y.
Proof. exact form_HyperDual_sub_rv. Qed.
Theorem C08_form_HyperDual_sub_vr : forall x y : HyperDual T, HyperDual_sub_vr x y = x - y.
Proof. exact form_HyperDual_sub_vr. Qed.
Theorem C08_form_HyperDual_sub_vv : forall x y : HyperDual T, HyperDual_sub_vv x y = x - y.
Proof. exact form_HyperDual_sub_vv. Qed.
Theorem C08_form_HyperDual_mul_rv : forall x y : HyperDual T, HyperDual_mul_rv x y = x * y.
Proof. exact form_HyperDual_mul_rv. Qed.
Theorem C08_form_HyperDual_mul_vr : forall x y : HyperDual T, HyperDual_mul_vr x y = x * y.
Proof. exact form_HyperDual_mul_vr. Qed.
Theorem C08_form_HyperDual_mul_vv : forall x y : HyperDual T, HyperDual_mul_vv x y = x * y.
Proof. exact form_HyperDual_mul_vv. Qed.
Theorem C08_form_HyperDual_div_rv : forall x y : HyperDual T, HyperDual_div_rv x y = x / y.
Proof. exact form_HyperDual_div_rv. Qed.
Theorem C08_form_HyperDual_div_vr : forall x y : HyperDual T, HyperDual_div_vr x y = x / y.
Proof. exact form_HyperDual_div_vr. Qed.
Theorem C08_form_HyperDual_div_vv : forall x y : HyperDual T, HyperDual_div_vv x y = x / y.
Proof. exact form_HyperDual_div_vv. Qed.
Theorem C08_form_HyperDual_neg_v : forall x : HyperDual T, HyperDual_neg_v x = - x.
Proof. exact form_HyperDual_neg_v. Qed.
Theorem C08_form_HyperDual_mul_assign : forall x y : HyperDual T, hmul_assign x y = x * y.
Proof. exact form_HyperDual_mul_assign. Qed.
Theorem C08_form_HyperDual_div_assign : forall x y : HyperDual T, hdiv_assign x y = x / y.
Proof. exact form_HyperDual_div_assign. Qed.
Theorem C08_form_HyperDual_add_F : forall (x : HyperDual T) (q : F), x + q = hadd_assign x q.
Proof. exact form_HyperDual_add_F. Qed.
Theorem C08_form_HyperDual_sub_F : forall (x : HyperDual T) (q : F), x - q = hsub_assign x q.
Proof. exact form_HyperDual_sub_F. Qed.
Theorem C08_form_HyperDual_mul_F : forall (x : HyperDual T) (q : F), x * q = hmul_assign x q.
Proof. exact form_HyperDual_mul_F. Qed.
Theorem C08_form_HyperDual_div_F : forall (x : HyperDual T) (q : F), x / q = hdiv_assign x q.
Proof. exact form_HyperDual_div_F. Qed.
Theorem C08_form_HyperDual_inv : forall x : HyperDual T, m_inv x = m_recip x.
Proof. exact form_HyperDual_inv. Qed.
Theorem C08_form_HyperDual_mul_add : forall x a b : HyperDual T, m_mul_add x a b = x * a + b.
Proof. exact form_HyperDual_mul_add. Qed.
Theorem C08_form_HyperDual_sum : forall l : list (HyperDual T), HyperDual_Sum_sum l = fold_left (fun acc c => acc + c) l (zero : HyperDual T) /\ HyperDual_Sum_sum_2 l = fold_left (fun acc c => acc + c) l (zero : HyperDual T).
Proof. exact form_HyperDual_sum. Qed.
Theorem C08_form_HyperDual_product : forall l : list (HyperDual T), HyperDual_Product_product l = fold_left (fun acc c => acc * c) l (one : HyperDual T) /\ HyperDual_Product_product_2 l = fold_left (fun acc c => acc * c) l (one : HyperDual T).
Proof. exact form_HyperDual_product. Qed.
Theorem C08_const_HyperDual_from_re : forall r : T, HyperDual_from_re r = (fun r : T => mkHyperDual r zero zero zero) r.
Proof. exact const_HyperDual_from_re. Qed.
Theorem C08_const_HyperDual_from : forall q : F, (ofF q : HyperDual T) = HyperDual_from_re (ofF q : T).
Proof. exact const_HyperDual_from. Qed.
Theorem C08_const_HyperDual_zero_one : (zero : HyperDual T) = HyperDual_from_re (zero : T) /\ (one : HyperDual T) = HyperDual_from_re (one : T).
Proof. exact const_HyperDual_zero_one. Qed.
Theorem C08_const_HyperDual_E : HyperDual_FloatConst_E = (ofF (fl_const C_E : F) : HyperDual T).
Proof. exact const_HyperDual_E. Qed.
Theorem C08_const_HyperDual_FRAC_1_PI : HyperDual_FloatConst_FRAC_1_PI = (ofF (fl_const C_FRAC_1_PI : F) : HyperDual T).
Proof. exact const_HyperDual_FRAC_1_PI. Qed.
Theorem C08_const_HyperDual_FRAC_1_SQRT_2 : HyperDual_FloatConst_FRAC_1_SQRT_2 = (ofF (fl_const C_FRAC_1_SQRT_2 : F) : HyperDual T).
Proof. exact const_HyperDual_FRAC_1_SQRT_2. Qed.
Theorem C08_const_HyperDual_FRAC_2_PI : HyperDual_FloatConst_FRAC_2_PI = (ofF (fl_const C_FRAC_2_PI : F) : HyperDual T).
Proof. exact const_HyperDual_FRAC_2_PI. Qed.
Theorem C08_const_HyperDual_FRAC_2_SQRT_PI : HyperDual_FloatConst_FRAC_2_SQRT_PI = (ofF (fl_const C_FRAC_2_SQRT_PI : F) : HyperDual T).
Proof. exact const_HyperDual_FRAC_2_SQRT_PI. Qed.
Theorem C08_const_HyperDual_FRAC_PI_2 : HyperDual_FloatConst_FRAC_PI_2 = (ofF (fl_const C_FRAC_PI_2 : F) : HyperDual T).
Proof. exact const_HyperDual_FRAC_PI_2. Qed.
Theorem C08_const_HyperDual_FRAC_PI_3 : HyperDual_FloatConst_FRAC_PI_3 = (ofF (fl_const C_FRAC_PI_3 : F) : HyperDual T).
Proof. exact const_HyperDual_FRAC_PI_3. Qed.
Theorem C08_const_HyperDual_FRAC_PI_4 : HyperDual_FloatConst_FRAC_PI_4 = (ofF (fl_const C_FRAC_PI_4 : F) : HyperDual T).
Proof. exact const_HyperDual_FRAC_PI_4. Qed.
Theorem C08_const_HyperDual_FRAC_PI_6 : HyperDual_FloatConst_FRAC_PI_6 = (ofF (fl_const C_FRAC_PI_6 : F) : HyperDual T).
Proof. exact const_HyperDual_FRAC_PI_6. Qed.
Theorem C08_const_HyperDual_FRAC_PI_8 : HyperDual_FloatConst_FRAC_PI_8 = (ofF (fl_const C_FRAC_PI_8 : F) : HyperDual T).
Proof. exact const_HyperDual_FRAC_PI_8. Qed.
Theorem C08_const_HyperDual_LN_10 : HyperDual_FloatConst_LN_10 = (ofF (fl_const C_LN_10 : F) : HyperDual T).
Proof. exact const_HyperDual_LN_10. Qed.
Theorem C08_const_HyperDual_LN_2 : HyperDual_FloatConst_LN_2 = (ofF (fl_const C_LN_2 : F) : HyperDual T).
Proof. exact const_HyperDual_LN_2. Qed.
Theorem C08_const_HyperDual_LOG10_E : HyperDual_FloatConst_LOG10_E = (ofF (fl_const C_LOG10_E : F) : HyperDual T).
Proof. exact const_HyperDual_LOG10_E. Qed.
Theorem C08_const_HyperDual_LOG2_E : HyperDual_FloatConst_LOG2_E = (ofF (fl_const C_LOG2_E : F) : HyperDual T).
Proof. exact const_HyperDual_LOG2_E. Qed.
Theorem C08_const_HyperDual_PI : HyperDual_FloatConst_PI = (ofF (fl_const C_PI : F) : HyperDual T).
Proof. exact const_HyperDual_PI. Qed.
Theorem C08_const_HyperDual_SQRT_2 : HyperDual_FloatConst_SQRT_2 = (ofF (fl_const C_SQRT_2 : F) : HyperDual T).
Proof. exact const_HyperDual_SQRT_2. Qed.
Theorem C08_const_HyperDual_from_isize : forall n : Z, HyperDual_FromPrimitive_from_isize n = Some (ofF (castZ n : F) : HyperDual T).
Proof. exact const_HyperDual_from_isize. Qed.
Theorem C08_const_HyperDual_from_i8 : forall n : Z, HyperDual_FromPrimitive_from_i8 n = Some (ofF (castZ n : F) : HyperDual T).
Proof. exact const_HyperDual_from_i8. Qed.
Theorem C08_const_HyperDual_from_i16 : forall n : Z, HyperDual_FromPrimitive_from_i16 n = Some (ofF (castZ n : F) : HyperDual T).
Proof. exact const_HyperDual_from_i16. Qed.
Theorem C08_const_HyperDual_from_i32 : forall n : Z, HyperDual_FromPrimitive_from_i32 n = Some (ofF (castZ n : F) : HyperDual T).
Proof. exact const_HyperDual_from_i32. Qed.
Theorem C08_const_HyperDual_from_i64 : forall n : Z, HyperDual_FromPrimitive_from_i64 n = Some (ofF (castZ n : F) : HyperDual T).
Proof. exact const_HyperDual_from_i64. Qed.
Theorem C08_const_HyperDual_from_i128 : forall n : Z, HyperDual_FromPrimitive_from_i128 n = Some (ofF (castZ n : F) : HyperDual T).
Proof. exact const_HyperDual_from_i128. Qed.
Theorem C08_const_HyperDual_from_u8 : forall n : Z, HyperDual_FromPrimitive_from_u8 n = Some (ofF (castZ n : F) : HyperDual T).
Proof. exact const_HyperDual_from_u8. Qed.
Theorem C08_const_HyperDual_from_u16 : forall n : Z, HyperDual_FromPrimitive_from_u16 n = Some (ofF (castZ n : F) : HyperDual T).
Proof. exact const_HyperDual_from_u16. Qed.
Theorem C08_const_HyperDual_from_u32 : forall n : Z, HyperDual_FromPrimitive_from_u32 n = Some (ofF (castZ n : F) : HyperDual T).
Proof. exact const_HyperDual_from_u32. Qed.
Theorem C08_const_HyperDual_from_u64 : forall n : Z, HyperDual_FromPrimitive_from_u64 n = Some (ofF (castZ n : F) : HyperDual T).
Proof. exact const_HyperDual_from_u64. Qed.
Theorem C08_const_HyperDual_from_u128 : forall n : Z, HyperDual_FromPrimitive_from_u128 n = Some (ofF (castZ n : F) : HyperDual T).
Proof. exact const_HyperDual_from_u128. Qed.
Theorem C08_form_HyperHyperDual_add_rv : forall x y : HyperHyperDual T, HyperHyperDual_add_rv x y = x + y.
Proof. exact form_HyperHyperDual_add_rv. Qed.
Theorem C08_form_HyperHyperDual_add_vr : forall x y : HyperHyperDual T, HyperHyperDual_add_vr x y = x + y.
Proof. exact form_HyperHyperDual_add_vr. Qed.
Theorem C08_form_HyperHyperDual_add_vv : forall x y : HyperHyperDual T, HyperHyperDual_add_vv x y = x + y.
Proof. exact form_HyperHyperDual_add_vv. Qed.
Theorem C08_form_HyperHyperDual_sub_rv : forall x y : HyperHyperDual T, HyperHyperDual_sub_rv x y = x - y.
Proof. exact form_HyperHyperDual_sub_rv. Qed.
Theorem C08_form_HyperHyperDual_sub_vr : forall x y : HyperHyperDual T, HyperHyperDual_sub_vr x y = x - y.
Proof. exact form_HyperHyperDual_sub_vr. Qed.
Theorem C08_form_HyperHyperDual_sub_vv : forall x y : HyperHyperDual T, HyperHyperDual_sub_vv x y = x - y.
Proof. exact form_HyperHyperDual_sub_vv. Qed.
Theorem C08_form_HyperHyperDual_mul_rv : forall x y : HyperHyperDual T, HyperHyperDual_mul_rv x y = x * y.
Proof. exact form_HyperHyperDual_mul_rv. Qed.
Theorem C08_form_HyperHyperDual_mul_vr : forall x y : HyperHyperDual T, HyperHyperDual_mul_vr x y = x * y.
Proof. exact form_HyperHyperDual_mul_vr. Qed.
Theorem C08_form_HyperHyperDual_mul_vv : forall x y : HyperHyperDual T, HyperHyperDual_mul_vv x y = x * y.
Proof. exact form_HyperHyperDual_mul_vv. Qed.
Theorem C08_form_HyperHyperDual_div_rv : forall x y : HyperHyperDual T, HyperHyperDual_div_rv x y = x / y.
Proof. exact form_HyperHyperDual_div_rv. Qed.
Theorem C08_form_HyperHyperDual_div_vr : forall x y : HyperHyperDual T, HyperHyperDual_div_vr x y = x / y.
Proof. exact form_HyperHyperDual_div_vr. Qed.
Theorem C08_form_HyperHyperDual_div_vv : forall x y : HyperHyperDual T, HyperHyperDual_div_vv x y = x / y.
Proof. exact form_HyperHyperDual_div_vv. Qed.
Theorem C08_form_HyperHyperDual_neg_v : forall x : HyperHyperDual T, HyperHyperDual_neg_v x = - x.
Proof. exact form_HyperHyperDual_neg_v. Qed.
Theorem C08_form_HyperHyperDual_mul_assign : forall x y : HyperHyperDual T, hmul_assign x y = x * y.
Proof. exact form_HyperHyperDual_mul_assign. Qed.
Theorem C08_form_HyperHyperDual_div_assign : forall x y : HyperHyperDual T, hdiv_assign x y = x / y.
Proof. exact form_HyperHyperDual_div_assign. Qed.
Theorem C08_form_HyperHyperDual_add_F : forall (x : HyperHyperDual T) (q : F), x + q = hadd_assign x q.
Proof. exact form_HyperHyperDual_add_F. Qed.
Theorem C08_form_HyperHyperDual_sub_F : forall (x : HyperHyperDual T) (q : F), x - q = hsub_assign x q.
Proof. exact form_HyperHyperDual_sub_F. Qed.
Theorem C08_form_HyperHyperDual_mul_F : forall (x : HyperHyperDual T) (q : F), x * q = hmul_assign x q.
Proof. exact form_HyperHyperDual_mul_F. Qed.
Theorem C08_form_HyperHyperDual_div_F : forall (x : HyperHyperDual T) (q : F), x / q = hdiv_assign x q.
Proof. exact form_HyperHyperDual_div_F. Qed.
Theorem C08_form_HyperHyperDual_inv : forall x : HyperHyperDual T, m_inv x = m_recip x.
Proof. exact form_HyperHyperDual_inv. Qed.
Theorem C08_form_HyperHyperDual_mul_add : forall x a b : HyperHyperDual T, m_mul_add x a b = x * a + b.
Proof. exact form_HyperHyperDual_mul_add. Qed.
Theorem C08_form_HyperHyperDual_sum : forall l : list (HyperHyperDual T), HyperHyperDual_Sum_sum l = fold_left (fun acc c => acc + c) l (zero : HyperHyperDual T) /\ HyperHyperDual_Sum_sum_2 l = fold_left (fun acc c => acc + c) l (zero : HyperHyperDual T).
Proof. exact form_HyperHyperDual_sum. Qed.
Theorem C08_form_HyperHyperDual_product : forall l : list (HyperHyperDual T), HyperHyperDual_Product_product l = fold_left (fun acc c => acc * c) l (one : HyperHyperDual T) /\ HyperHyperDual_Product_product_2 l = fold_left (fun acc c => acc * c) l (one : HyperHyperDual T).
Proof. exact form_HyperHyperDual_product. Qed.
Theorem C08_const_HyperHyperDual_from_re : forall r : T, HyperHyperDual_from_re r = (fun r : T => mkHyperHyperDual r zero zero zero zero zero zero zero) r.
Proof. exact const_HyperHyperDual_from_re. Qed.
Theorem C08_const_HyperHyperDual_from : forall q : F, (ofF q : HyperHyperDual T) = HyperHyperDual_from_re (ofF q : T).
Proof. exact const_HyperHyperDual_from. Qed.
Theorem C08_const_HyperHyperDual_zero_one : (zero : HyperHyperDual T) = HyperHyperDual_from_re (zero : T) /\ (one : HyperHyperDual T) = HyperHyperDual_from_re (one : T).
Proof. exact const_HyperHyperDual_zero_one. Qed.
Theorem C08_const_HyperHyperDual_E : HyperHyperDual_FloatConst_E = (ofF (fl_const C_E : F) : HyperHyperDual T).
Proof. exact const_HyperHyperDual_E. Qed.
Theorem C08_const_HyperHyperDual_FRAC_1_PI : HyperHyperDual_FloatConst_FRAC_1_PI = (ofF (fl_const C_FRAC_1_PI : F) : HyperHyperDual T).
Proof. exact const_HyperHyperDual_FRAC_1_PI. Qed.
Theorem C08_const_HyperHyperDual_FRAC_1_SQRT_2 : HyperHyperDual_FloatConst_FRAC_1_SQRT_2 = (ofF (fl_const C_FRAC_1_SQRT_2 : F) : HyperHyperDual T).
Proof. exact const_HyperHyperDual_FRAC_1_SQRT_2. Qed.
Theorem C08_const_HyperHyperDual_FRAC_2_PI : HyperHyperDual_FloatConst_FRAC_2_PI = (ofF (fl_const C_FRAC_2_PI : F) : HyperHyperDual T).
Proof. exact const_HyperHyperDual_FRAC_2_PI. Qed.
Theorem C08_const_HyperHyperDual_FRAC_2_SQRT_PI : HyperHyperDual_FloatConst_FRAC_2_SQRT_PI = (ofF (fl_const C_FRAC_2_SQRT_PI : F) : HyperHyperDual T).
Proof. exact const_HyperHyperDual_FRAC_2_SQRT_PI. Qed.
Theorem C08_const_HyperHyperDual_FRAC_PI_2 : HyperHyperDual_FloatConst_FRAC_PI_2 = (ofF (fl_const C_FRAC_PI_2 : F) : HyperHyperDual T).
Proof. exact const_HyperHyperDual_FRAC_PI_2. Qed.
Theorem C08_const_HyperHyperDual_FRAC_PI_3 : HyperHyperDual_FloatConst_FRAC_PI_3 = (ofF (fl_const C_FRAC_PI_3 : F) : HyperHyperDual T).
Proof. exact const_HyperHyperDual_FRAC_PI_3. Qed.
Theorem C08_const_HyperHyperDual_FRAC_PI_4 : HyperHyperDual_FloatConst_FRAC_PI_4 = (ofF (fl_const C_FRAC_PI_4 : F) : HyperHyperDual T).
Proof. exact const_HyperHyperDual_FRAC_PI_4. Qed.
Theorem C08_const_HyperHyperDual_FRAC_PI_6 : HyperHyperDual_FloatConst_FRAC_PI_6 = (ofF (fl_const C_FRAC_PI_6 : F) : HyperHyperDual T).
Proof. exact const_HyperHyperDual_FRAC_PI_6. Qed.
Theorem C08_const_HyperHyperDual_FRAC_PI_8 : HyperHyperDual_FloatConst_FRAC_PI_8 = (ofF (fl_const C_FRAC_PI_8 : F) : HyperHyperDual T).
Proof. exact const_HyperHyperDual_FRAC_PI_8. Qed.
Theorem C08_const_HyperHyperDual_LN_10 : HyperHyperDual_FloatConst_LN_10 = (ofF (fl_const C_LN_10 : F) : HyperHyperDual T).
Proof. exact const_HyperHyperDual_LN_10. Qed.
Theorem C08_const_HyperHyperDual_LN_2 : HyperHyperDual_FloatConst_LN_2 = (ofF (fl_const C_LN_2 : F) : HyperHyperDual T).
Proof. exact const_HyperHyperDual_LN_2. Qed.
Theorem C08_const_HyperHyperDual_LOG10_E : HyperHyperDual_FloatConst_LOG10_E = (ofF (fl_const C_LOG10_E : F) : HyperHyperDual T).
Proof. exact const_HyperHyperDual_LOG10_E. Qed.
Theorem C08_const_HyperHyperDual_LOG2_E : HyperHyperDual_FloatConst_LOG2_E = (ofF (fl_const C_LOG2_E : F) : HyperHyperDual T).
Proof. exact const_HyperHyperDual_LOG2_E. Qed.
Theorem C08_const_HyperHyperDual_PI : HyperHyperDual_FloatConst_PI = (ofF (fl_const C_PI : F) : HyperHyperDual T).
Proof. exact const_HyperHyperDual_PI. Qed.
Theorem C08_const_HyperHyperDual_SQRT_2 : HyperHyperDual_FloatConst_SQRT_2 = (ofF (fl_const C_SQRT_2 : F) : HyperHyperDual T).
Proof. exact const_HyperHyperDual_SQRT_2. Qed.
Theorem C08_const_HyperHyperDual_from_isize : forall n : Z, HyperHyperDual_FromPrimitive_from_isize n = Some (ofF (castZ n : F) : HyperHyperDual T).
Proof. exact const_HyperHyperDual_from_isize. Qed.
Theorem C08_const_HyperHyperDual_from_i8 : forall n : Z, HyperHyperDual_FromPrimitive_from_i8 n = Some (ofF (castZ n : F) : HyperHyperDual T).
Proof. exact const_HyperHyperDual_from_i8. Qed.
Theorem C08_const_HyperHyperDual_from_i16 : forall n : Z, HyperHyperDual_FromPrimitive_from_i16 n = Some (ofF (castZ n : F) : HyperHyperDual T).
Proof. exact const_HyperHyperDual_from_i16. Qed.
Theorem C08_const_HyperHyperDual_from_i32 : forall n : Z, HyperHyperDual_FromPrimitive_from_i32 n = Some (ofF (castZ n : F) : HyperHyperDual T).
Proof. exact const_HyperHyperDual_from_i32. Qed.
Theorem C08_const_HyperHyperDual_from_i64 : forall n : Z, HyperHyperDual_FromPrimitive_from_i64 n = Some (ofF (castZ n : F) : HyperHyperDual T).
Proof. exact const_HyperHyperDual_from_i64. Qed.
Theorem C08_const_HyperHyperDual_from_i128 : forall n : Z, HyperHyperDual_FromPrimitive_from_i128 n = Some (ofF (castZ n : F) : HyperHyperDual T).
Proof. exact const_HyperHyperDual_from_i128. Qed.
Theorem C08_const_HyperHyperDual_from_u8 : forall n : Z, HyperHyperDual_FromPrimitive_from_u8 n = Some (ofF (castZ n : F) : HyperHyperDual T).
Proof. exact const_HyperHyperDual_from_u8. Qed.
Theorem C08_const_HyperHyperDual_from_u16 : forall n : Z, HyperHyperDual_FromPrimitive_from_u16 n = Some (ofF (castZ n : F) : HyperHyperDual T).
Proof. exact const_HyperHyperDual_from_u16. Qed.
Theorem C08_const_HyperHyperDual_from_u32 : forall n : Z, HyperHyperDual_FromPrimitive_from_u32 n = Some (ofF (castZ n : F) : HyperHyperDual T).
Proof. exact const_HyperHyperDual_from_u32. Qed.
Theorem C08_const_HyperHyperDual_from_u64 : forall n : Z, HyperHyperDual_FromPrimitive_from_u64 n = Some (ofF (castZ n : F) : HyperHyperDual T).
Proof. exact const_HyperHyperDual_from_u64. Qed.
Theorem C08_const_HyperHyperDual_from_u128 : forall n : Z, HyperHyperDual_FromPrimitive_from_u128 n = Some (ofF (castZ n : F) : HyperHyperDual T).
Proof. exact const_HyperHyperDual_from_u128. Qed.
Theorem C08_form_DualVec_add_rv : forall x y : DualVec T, DualVec_add_rv x y = x + y.
Proof. exact form_DualVec_add_rv. Qed.
Theorem C08_form_DualVec_add_vr : forall x y : DualVec T, DualVec_add_vr x y = x + y.
Proof. exact form_DualVec_add_vr. Qed.
Theorem C08_form_DualVec_add_vv : forall x y : DualVec T, DualVec_add_vv x y = x + y.
Proof. exact form_DualVec_add_vv. Qed.
Theorem C08_form_DualVec_sub_rv : forall x y : DualVec T, DualVec_sub_rv x y = x - y.
Proof. exact form_DualVec_sub_rv. Qed.
Theorem C08_form_DualVec_sub_vr : forall x y : DualVec T, DualVec_sub_vr x y = x - y.
Proof. exact form_DualVec_sub_vr. Qed.
Theorem C08_form_DualVec_sub_vv : forall x y : DualVec T, DualVec_sub_vv x y = x - y.
Proof. exact form_DualVec_sub_vv. Qed.
Theorem C08_form_DualVec_mul_rv : forall x y : DualVec T, DualVec_mul_rv x y = x * y.
Proof. exact form_DualVec_mul_rv. Qed.
Theorem C08_form_DualVec_mul_vr : forall x y : DualVec T, DualVec_mul_vr x y = x * y.
Proof. exact form_DualVec_mul_vr. Qed.
Theorem C08_form_DualVec_mul_vv : forall x y : DualVec T, DualVec_mul_vv x y = x * y.
Proof. exact form_DualVec_mul_vv. Qed.
Theorem C08_form_DualVec_div_rv : forall x y : DualVec T, DualVec_div_rv x y = x / y.
Proof. exact form_DualVec_div_rv. Qed.
Theorem C08_form_DualVec_div_vr : forall x y : DualVec T, DualVec_div_vr x y = x / y.
Proof. exact form_DualVec_div_vr. Qed.
Theorem C08_form_DualVec_div_vv : forall x y : DualVec T, DualVec_div_vv x y = x / y.
Proof. exact form_DualVec_div_vv. Qed.
Theorem C08_form_DualVec_neg_v : forall x : DualVec T, DualVec_neg_v x = - x.
Proof. exact form_DualVec_neg_v. Qed.
Theorem C08_form_DualVec_mul_assign : forall x y : DualVec T, hmul_assign x y = x * y.
Proof. exact form_DualVec_mul_assign. Qed.
Theorem C08_form_DualVec_div_assign : forall x y : DualVec T, hdiv_assign x y = x / y.
Proof. exact form_DualVec_div_assign. Qed.
Theorem C08_form_DualVec_add_F : forall (x : DualVec T) (q : F), x + q = hadd_assign x q.
Proof. exact form_DualVec_add_F. Qed.
Theorem C08_form_DualVec_sub_F : forall (x : DualVec T) (q : F), x - q = hsub_assign x q.
Proof. exact form_DualVec_sub_F. Qed.
Theorem C08_form_DualVec_mul_F : forall (x : DualVec T) (q : F), x * q = hmul_assign x q.
Proof. exact form_DualVec_mul_F. Qed.
Theorem C08_form_DualVec_div_F : forall (x : DualVec T) (q : F), x / q = hdiv_assign x q.
Proof. exact form_DualVec_div_F. Qed.
Theorem C08_form_DualVec_inv : forall x : DualVec T, m_inv x = m_recip x.
Proof. exact form_DualVec_inv. Qed.
Theorem C08_form_DualVec_mul_add : forall x a b : DualVec T, m_mul_add x a b = x * a + b.
Proof. exact form_DualVec_mul_add. Qed.
Theorem C08_form_DualVec_sum : forall l : list (DualVec T), DualVec_Sum_sum l = fold_left (fun acc c => acc + c) l (zero : DualVec T) /\ DualVec_Sum_sum_2 l = fold_left (fun acc c => acc + c) l (zero : DualVec T).
Proof. exact form_DualVec_sum. Qed.
Theorem C08_form_DualVec_product : forall l : list (DualVec T), DualVec_Product_product l = fold_left (fun acc c => acc * c) l (one : DualVec T) /\ DualVec_Product_product_2 l = fold_left (fun acc c => acc * c) l (one : DualVec T).
Proof. exact form_DualVec_product. Qed.
Theorem C08_const_DualVec_from_re : forall r : T, DualVec_from_re r = (fun r : T => mkDualVec r Derivative_none) r.
Proof. exact const_DualVec_from_re. Qed.
Theorem C08_const_DualVec_from : forall q : F, (ofF q : DualVec T) = DualVec_from_re (ofF q : T).
Proof. exact const_DualVec_from. Qed.
Theorem C08_const_DualVec_zero_one : (zero : DualVec T) = DualVec_from_re (zero : T) /\ (one : DualVec T) = DualVec_from_re (one : T).
Proof. exact const_DualVec_zero_one. Qed.
Theorem C08_const_DualVec_E : DualVec_FloatConst_E = (ofF (fl_const C_E : F) : DualVec T).
Proof. exact const_DualVec_E. Qed.
Theorem C08_const_DualVec_FRAC_1_PI : DualVec_FloatConst_FRAC_1_PI = (ofF (fl_const C_FRAC_1_PI : F) : DualVec T).
Proof. exact const_DualVec_FRAC_1_PI. Qed.
Theorem C08_const_DualVec_FRAC_1_SQRT_2 : DualVec_FloatConst_FRAC_1_SQRT_2 = (ofF (fl_const C_FRAC_1_SQRT_2 : F) : DualVec T).
Proof. exact const_DualVec_FRAC_1_SQRT_2. Qed.
Theorem C08_const_DualVec_FRAC_2_PI : DualVec_FloatConst_FRAC_2_PI = (ofF (fl_const C_FRAC_2_PI : F) : DualVec T).
Proof. exact const_DualVec_FRAC_2_PI. Qed.
Theorem C08_const_DualVec_FRAC_2_SQRT_PI : DualVec_FloatConst_FRAC_2_SQRT_PI = (ofF (fl_const C_FRAC_2_SQRT_PI : F) : DualVec T).
Proof. exact const_DualVec_FRAC_2_SQRT_PI. Qed.
Theorem C08_const_DualVec_FRAC_PI_2 : DualVec_FloatConst_FRAC_PI_2 = (ofF (fl_const C_FRAC_PI_2 : F) : DualVec T).
Proof. exact const_DualVec_FRAC_PI_2. Qed.
Theorem C08_const_DualVec_FRAC_PI_3 : DualVec_FloatConst_FRAC_PI_3 = (ofF (fl_const C_FRAC_PI_3 : F) : DualVec T).
Proof. exact const_DualVec_FRAC_PI_3. Qed.
Theorem C08_const_DualVec_FRAC_PI_4 : DualVec_FloatConst_FRAC_PI_4 = (ofF (fl_const C_FRAC_PI_4 : F) : DualVec T).
Proof. exact const_DualVec_FRAC_PI_4. Qed.
Theorem C08_const_DualVec_FRAC_PI_6 : DualVec_FloatConst_FRAC_PI_6 = (ofF (fl_const C_FRAC_PI_6 : F) : DualVec T).
Proof. exact const_DualVec_FRAC_PI_6. Qed.
Theorem C08_const_DualVec_FRAC_PI_8 : DualVec_FloatConst_FRAC_PI_8 = (ofF (fl_const C_FRAC_PI_8 : F) : DualVec T).
Proof. exact const_DualVec_FRAC_PI_8. Qed.
Theorem C08_const_DualVec_LN_10 : DualVec_FloatConst_LN_10 = (ofF (fl_const C_LN_10 : F) : DualVec T).
Proof. exact const_DualVec_LN_10. Qed.
Theorem C08_const_DualVec_LN_2 : DualVec_FloatConst_LN_2 = (ofF (fl_const C_LN_2 : F) : DualVec T).
Proof. exact const_DualVec_LN_2. Qed.
Theorem C08_const_DualVec_LOG10_E : DualVec_FloatConst_LOG10_E = (ofF (fl_const C_LOG10_E : F) : DualVec T).
Proof. exact const_DualVec_LOG10_E. Qed.
Theorem C08_const_DualVec_LOG2_E : DualVec_FloatConst_LOG2_E = (ofF (fl_const C_LOG2_E : F) : DualVec T).
Proof. exact const_DualVec_LOG2_E. Qed.
Theorem C08_const_DualVec_PI : DualVec_FloatConst_PI = (ofF (fl_const C_PI : F) : DualVec T).
Proof. exact const_DualVec_PI. Qed.
Theorem C08_const_DualVec_SQRT_2 : DualVec_FloatConst_SQRT_2 = (ofF (fl_const C_SQRT_2 : F) : DualVec T).
Proof. exact const_DualVec_SQRT_2. Qed.
Theorem C08_const_DualVec_from_isize : forall n : Z, DualVec_FromPrimitive_from_isize n = Some (ofF (castZ n : F) : DualVec T).
Proof. exact const_DualVec_from_isize. Qed.
Theorem C08_const_DualVec_from_i8 : forall n : Z, DualVec_FromPrimitive_from_i8 n = Some (ofF (castZ n : F) : DualVec T).
Proof. exact const_DualVec_from_i8. Qed.
Theorem C08_const_DualVec_from_i16 : forall n : Z, DualVec_FromPrimitive_from_i16 n = Some (ofF (castZ n : F) : DualVec T).
Proof. exact const_DualVec_from_i16. Qed.
Theorem C08_const_DualVec_from_i32 : forall n : Z, DualVec_FromPrimitive_from_i32 n = Some (ofF (castZ n : F) : DualVec T).
Proof. exact const_DualVec_from_i32. Qed.
Theorem C08_const_DualVec_from_i64 : forall n : Z, DualVec_FromPrimitive_from_i64 n = Some (ofF (castZ n : F) : DualVec T).
Proof. exact const_DualVec_from_i64. Qed.
Theorem C08_const_DualVec_from_i128 : forall n : Z, DualVec_FromPrimitive_from_i128 n = Some (ofF (castZ n : F) : DualVec T).
Proof. exact const_DualVec_from_i128. Qed.
Theorem C08_const_DualVec_from_u8 : forall n : Z, DualVec_FromPrimitive_from_u8 n = Some (ofF (castZ n : F) : DualVec T).
Proof. exact const_DualVec_from_u8. Qed.
Theorem C08_const_DualVec_from_u16 : forall n : Z, DualVec_FromPrimitive_from_u16 n = Some (ofF (castZ n : F) : DualVec T).
Proof. exact const_DualVec_from_u16. Qed.
Theorem C08_const_DualVec_from_u32 : forall n : Z, DualVec_FromPrimitive_from_u32 n = Some (ofF (castZ n : F) : DualVec T).
Proof. exact const_DualVec_from_u32. Qed.
Theorem C08_const_DualVec_from_u64 : forall n : Z, DualVec_FromPrimitive_from_u64 n = Some (ofF (castZ n : F) : DualVec T).
Proof. exact const_DualVec_from_u64. Qed.
Theorem C08_const_DualVec_from_u128 : forall n : Z, DualVec_FromPrimitive_from_u128 n = Some (ofF (castZ n : F) : DualVec T).
Proof. exact const_DualVec_from_u128. Qed.
Theorem C08_form_Dual2Vec_add_rv : forall x y : Dual2Vec T, Dual2Vec_add_rv x y = x + y.
Proof. exact form_Dual2Vec_add_rv. Qed.
Theorem C08_form_Dual2Vec_add_vr : forall x y : Dual2Vec T, Dual2Vec_add_vr x y = x + y.
Proof. exact form_Dual2Vec_add_vr. Qed.
Theorem C08_form_Dual2Vec_add_vv : forall x y : Dual2Vec T, Dual2Vec_add_vv x y = x + y.
Proof. exact form_Dual2Vec_add_vv. Qed.
Theorem C08_form_Dual2Vec_sub_rv : forall x y : Dual2Vec T, Dual2Vec_sub_rv x y = x - y.
Proof. exact form_Dual2Vec_sub_rv. Qed.
Theorem C08_form_Dual2Vec_sub_vr : forall x y : Dual2Vec T, Dual2Vec_sub_vr x y = x - y.
Proof. exact form_Dual2Vec_sub_vr. Qed.
Theorem C08_form_Dual2Vec_sub_vv : forall x y : Dual2Vec T, Dual2Vec_sub_vv x y = x - y.
Proof. exact form_Dual2Vec_sub_vv. Qed.
Theorem C08_form_Dual2Vec_mul_rv : forall x y : Dual2Vec T, Dual2Vec_mul_rv x y = x * y.
Proof. exact form_Dual2Vec_mul_rv. Qed.
Theorem C08_form_Dual2Vec_mul_vr : forall x y : Dual2Vec T, Dual2Vec_mul_vr x y = x * y.
Proof. exact form_Dual2Vec_mul_vr. Qed.
Theorem C08_form_Dual2Vec_mul_vv : forall x y : Dual2Vec T, Dual2Vec_mul_vv x y = x * y.
Proof. exact form_Dual2Vec_mul_vv. Qed.
Theorem C08_form_Dual2Vec_div_rv : forall x y : Dual2Vec T, Dual2Vec_div_rv x y = x / y.
Proof. exact form_Dual2Vec_div_rv. Qed.
Theorem C08_form_Dual2Vec_div_vr : forall x y : Dual2Vec T, Dual2Vec_div_vr x y = x / y.
Proof. exact form_Dual2Vec_div_vr. Qed.
Theorem C08_form_Dual2Vec_div_vv : forall x y : Dual2Vec T, Dual2Vec_div_vv x y = x / y.
Proof. exact form_Dual2Vec_div_vv. Qed.
Theorem C08_form_Dual2Vec_neg_v : forall x : Dual2Vec T, Dual2Vec_neg_v x = - x.
Proof. exact form_Dual2Vec_neg_v. Qed.
Theorem C08_form_Dual2Vec_mul_assign : forall x y : Dual2Vec T, hmul_assign x y = x * y.
Proof. exact form_Dual2Vec_mul_assign. Qed.
Theorem C08_form_Dual2Vec_div_assign : forall x y : Dual2Vec T, hdiv_assign x y = x / y.
Proof. exact form_Dual2Vec_div_assign. Qed.
Theorem C08_form_Dual2Vec_add_F : forall (x : Dual2Vec T) (q : F), x + q = hadd_assign x q.
Proof. exact form_Dual2Vec_add_F. Qed.
Theorem C08_form_Dual2Vec_sub_F : forall (x : Dual2Vec T) (q : F), x - q = hsub_assign x q.
Proof. exact form_Dual2Vec_sub_F. Qed.
Theorem C08_form_Dual2Vec_mul_F : forall (x : Dual2Vec T) (q : F), x * q = hmul_assign x q.
Proof. exact form_Dual2Vec_mul_F. Qed.
Theorem C08_form_Dual2Vec_div_F : forall (x : Dual2Vec T) (q : F), x / q = hdiv_assign x q.
Proof. exact form_Dual2Vec_div_F. Qed.
Theorem C08_form_Dual2Vec_inv : forall x : Dual2Vec T, m_inv x = m_recip x.
Proof. exact form_Dual2Vec_inv. Qed.
Theorem C08_form_Dual2Vec_mul_add : forall x a b : Dual2Vec T, m_mul_add x a b = x * a + b.
Proof. exact form_Dual2Vec_mul_add. Qed.
Theorem C08_form_Dual2Vec_sum : forall l : list (Dual2Vec T), Dual2Vec_Sum_sum l = fold_left (fun acc c => acc + c) l (zero : Dual2Vec T) /\ Dual2Vec_Sum_sum_2 l = fold_left (fun acc c => acc + c) l (zero : Dual2Vec T).
Proof. exact form_Dual2Vec_sum. Qed.
Theorem C08_form_Dual2Vec_product : forall l : list (Dual2Vec T), Dual2Vec_Product_product l = fold_left (fun acc c => acc * c) l (one : Dual2Vec T) /\ Dual2Vec_Product_product_2 l = fold_left (fun acc c => acc * c) l (one : Dual2Vec T).
Proof. exact form_Dual2Vec_product. Qed.
Theorem C08_const_Dual2Vec_from_re : forall r : T, Dual2Vec_from_re r = (fun r : T => mkDual2Vec r Derivative_none Derivative_none) r.
Proof. exact const_Dual2Vec_from_re. Qed.
Theorem C08_const_Dual2Vec_from : forall q : F, (ofF q : Dual2Vec T) = Dual2Vec_from_re (ofF q : T).
Proof. exact const_Dual2Vec_from. Qed.
Theorem C08_const_Dual2Vec_zero_one : (zero : Dual2Vec T) = Dual2Vec_from_re (zero : T) /\ (one : Dual2Vec T) = Dual2Vec_from_re (one : T).
Proof. exact const_Dual2Vec_zero_one. Qed.
Theorem C08_const_Dual2Vec_E : Dual2Vec_FloatConst_E = (ofF (fl_const C_E : F) : Dual2Vec T).
Proof. exact const_Dual2Vec_E. Qed.
Theorem C08_const_Dual2Vec_FRAC_1_PI : Dual2Vec_FloatConst_FRAC_1_PI = (ofF (fl_const C_FRAC_1_PI : F) : Dual2Vec T).
Proof. exact const_Dual2Vec_FRAC_1_PI. Qed.
Theorem C08_const_Dual2Vec_FRAC_1_SQRT_2 : Dual2Vec_FloatConst_FRAC_1_SQRT_2 = (ofF (fl_const C_FRAC_1_SQRT_2 : F) : Dual2Vec T).
Proof. exact const_Dual2Vec_FRAC_1_SQRT_2. Qed.
Theorem C08_const_Dual2Vec_FRAC_2_PI : Dual2Vec_FloatConst_FRAC_2_PI = (ofF (fl_const C_FRAC_2_PI : F) : Dual2Vec T).
Proof. exact const_Dual2Vec_FRAC_2_PI. Qed.
Theorem C08_const_Dual2Vec_FRAC_2_SQRT_PI : Dual2Vec_FloatConst_FRAC_2_SQRT_PI = (ofF (fl_const C_FRAC_2_SQRT_PI : F) : Dual2Vec T).
Proof. exact const_Dual2Vec_FRAC_2_SQRT_PI. Qed.
Theorem C08_const_Dual2Vec_FRAC_PI_2 : Dual2Vec_FloatConst_FRAC_PI_2 = (ofF (fl_const C_FRAC_PI_2 : F) : Dual2Vec T).
Proof. exact const_Dual2Vec_FRAC_PI_2. Qed.
Theorem C08_const_Dual2Vec_FRAC_PI_3 : Dual2Vec_FloatConst_FRAC_PI_3 = (ofF (fl_const C_FRAC_PI_3 : F) : Dual2Vec T).
Proof. exact const_Dual2Vec_FRAC_PI_3. Qed.
Theorem C08_const_Dual2Vec_FRAC_PI_4 : Dual2Vec_FloatConst_FRAC_PI_4 = (ofF (fl_const C_FRAC_PI_4 : F) : Dual2Vec T).
Proof. exact const_Dual2Vec_FRAC_PI_4. Qed.
Theorem C08_const_Dual2Vec_FRAC_PI_6 : Dual2Vec_FloatConst_FRAC_PI_6 = (ofF (fl_const C_FRAC_PI_6 : F) : Dual2Vec T).
Proof. exact const_Dual2Vec_FRAC_PI_6. Qed.
Theorem C08_const_Dual2Vec_FRAC_PI_8 : Dual2Vec_FloatConst_FRAC_PI_8 = (ofF (fl_const C_FRAC_PI_8 : F) : Dual2Vec T).
Proof. exact const_Dual2Vec_FRAC_PI_8. Qed.
Theorem C08_const_Dual2Vec_LN_10 : Dual2Vec_FloatConst_LN_10 = (ofF (fl_const C_LN_10 : F) : Dual2Vec T).
Proof. exact const_Dual2Vec_LN_10. Qed.
Theorem C08_const_Dual2Vec_LN_2 : Dual2Vec_FloatConst_LN_2 = (ofF (fl_const C_LN_2 : F) : Dual2Vec T).
Proof. exact const_Dual2Vec_LN_2. Qed.
Theorem C08_const_Dual2Vec_LOG10_E : Dual2Vec_FloatConst_LOG10_E = (ofF (fl_const C_LOG10_E : F) : Dual2Vec T).
Proof. exact const_Dual2Vec_LOG10_E. Qed.
Theorem C08_const_Dual2Vec_LOG2_E : Dual2Vec_FloatConst_LOG2_E = (ofF (fl_const C_LOG2_E : F) : Dual2Vec T).
Proof. exact const_Dual2Vec_LOG2_E. Qed.
Theorem C08_const_Dual2Vec_PI : Dual2Vec_FloatConst_PI = (ofF (fl_const C_PI : F) : Dual2Vec T).
Proof. exact const_Dual2Vec_PI. Qed.
Theorem C08_const_Dual2Vec_SQRT_2 : Dual2Vec_FloatConst_SQRT_2 = (ofF (fl_const C_SQRT_2 : F) : Dual2Vec T).
Proof. exact const_Dual2Vec_SQRT_2. Qed.
Theorem C08_const_Dual2Vec_from_isize : forall n : Z, Dual2Vec_FromPrimitive_from_isize n = Some (ofF (castZ n : F) : Dual2Vec T).
Proof. exact const_Dual2Vec_from_isize. Qed.
Theorem C08_const_Dual2Vec_from_i8 : forall n : Z, Dual2Vec_FromPrimitive_from_i8 n = Some (ofF (castZ n : F) : Dual2Vec T).
Proof. exact const_Dual2Vec_from_i8. Qed.
Theorem C08_const_Dual2Vec_from_i16 : forall n : Z, Dual2Vec_FromPrimitive_from_i16 n = Some (ofF (castZ n : F) : Dual2Vec T).
Proof. exact const_Dual2Vec_from_i16. Qed.
Theorem C08_const_Dual2Vec_from_i32 : forall n : Z, Dual2Vec_FromPrimitive_from_i32 n = Some (ofF (castZ n : F) : Dual2Vec T).
Proof. exact const_Dual2Vec_from_i32. Qed.
Theorem C08_const_Dual2Vec_from_i64 : forall n : Z, Dual2Vec_FromPrimitive_from_i64 n = Some (ofF (castZ n : F) : Dual2Vec T).
Proof. exact const_Dual2Vec_from_i64. Qed.
Theorem C08_const_Dual2Vec_from_i128 : forall n : Z, Dual2Vec_FromPrimitive_from_i128 n = Some (ofF (castZ n : F) : Dual2Vec T).
Proof. exact const_Dual2Vec_from_i128. Qed.
Theorem C08_const_Dual2Vec_from_u8 : forall n : Z, Dual2Vec_FromPrimitive_from_u8 n = Some (ofF (castZ n : F) : Dual2Vec T).
Proof. exact const_Dual2Vec_from_u8. Qed.
Theorem C08_const_Dual2Vec_from_u16 : forall n : Z, Dual2Vec_FromPrimitive_from_u16 n = Some (ofF (castZ n : F) : Dual2Vec T).
Proof. exact const_Dual2Vec_from_u16. Qed.
Theorem C08_const_Dual2Vec_from_u32 : forall n : Z, Dual2Vec_FromPrimitive_from_u32 n = Some (ofF (castZ n : F) : Dual2Vec T).
Proof. exact const_Dual2Vec_from_u32. Qed.
Theorem C08_const_Dual2Vec_from_u64 : forall n : Z, Dual2Vec_FromPrimitive_from_u64 n = Some (ofF (castZ n : F) : Dual2Vec T).
Proof. exact const_Dual2Vec_from_u64. Qed.
Theorem C08_const_Dual2Vec_from_u128 : forall n : Z, Dual2Vec_FromPrimitive_from_u128 n = Some (ofF (castZ n : F) : Dual2Vec T).
Proof. exact const_Dual2Vec_from_u128. Qed.
Theorem C08_form_HyperDualVec_add_rv : forall x y : HyperDualVec T, HyperDualVec_add_rv x y = x + y.
Proof. exact form_HyperDualVec_add_rv. Qed.
Theorem C08_form_HyperDualVec_add_vr : forall x y : HyperDualVec T, HyperDualVec_add_vr x y = x + y.
Proof. exact form_HyperDualVec_add_vr. Qed.
Theorem C08_form_HyperDualVec_add_vv : forall x y : HyperDualVec T, HyperDualVec_add_vv x y = x + y.
Proof. exact form_HyperDualVec_add_vv. Qed.
Theorem C08_form_HyperDualVec_sub_rv : forall x y : HyperDualVec T, HyperDualVec_sub_rv x y = x - y.
Proof. exact form_HyperDualVec_sub_rv. Qed.
Theorem C08_form_HyperDualVec_sub_vr : forall x y : HyperDualVec T, HyperDualVec_sub_vr x y = x - y.
Proof. exact form_HyperDualVec_sub_vr. Qed.
Theorem C08_form_HyperDualVec_sub_vv : forall x y : HyperDualVec T, HyperDualVec_sub_vv x y = x - y.
Proof. exact form_HyperDualVec_sub_vv. Qed.
Theorem C08_form_HyperDualVec_mul_rv : forall x y : HyperDualVec T, HyperDualVec_mul_rv x y = x * y.
Proof. exact form_HyperDualVec_mul_rv. Qed.
Theorem C08_form_HyperDualVec_mul_vr : forall x y : HyperDualVec T, HyperDualVec_mul_vr x y = x * y.
Proof. exact form_HyperDualVec_mul_vr. Qed.
Theorem C08_form_HyperDualVec_mul_vv : forall x y : HyperDualVec T, HyperDualVec_mul_vv x y = x * y.
Proof. exact form_HyperDualVec_mul_vv. Qed.
Theorem C08_form_HyperDualVec_div_rv : forall x y : HyperDualVec T, HyperDualVec_div_rv x y = x / y.
Proof. exact form_HyperDualVec_div_rv. Qed.
Theorem C08_form_HyperDualVec_div_vr : forall x y : HyperDualVec T, HyperDualVec_div_vr x y = x / y.
Proof. exact form_HyperDualVec_div_vr. Qed.
Theorem C08_form_HyperDualVec_div_vv : forall x y : HyperDualVec T, HyperDualVec_div_vv x y = x / y.
Proof. exact form_HyperDualVec_div_vv. Qed.
Theorem C08_form_HyperDualVec_neg_v : forall x : HyperDualVec T, HyperDualVec_neg_v x = - x.
Proof. exact form_HyperDualVec_neg_v. Qed.
Theorem C08_form_HyperDualVec_mul_assign : forall x y : HyperDualVec T, hmul_assign x y = x * y.
Proof. exact form_HyperDualVec_mul_assign. Qed.
Theorem C08_form_HyperDualVec_div_assign : forall x y : HyperDualVec T, hdiv_assign x y = x / y.
Proof. exact form_HyperDualVec_div_assign. Qed.
Theorem C08_form_HyperDualVec_add_F : forall (x : HyperDualVec T) (q : F), x + q = hadd_assign x q.
Proof. exact form_HyperDualVec_add_F. Qed.
Theorem C08_form_HyperDualVec_sub_F : forall (x : HyperDualVec T) (q : F), x - q = hsub_assign x q.
Proof. exact form_HyperDualVec_sub_F. Qed.
Theorem C08_form_HyperDualVec_mul_F : forall (x : HyperDualVec T) (q : F), x * q = hmul_assign x q.
Proof. exact form_HyperDualVec_mul_F. Qed.
Theorem C08_form_HyperDualVec_div_F : forall (x : HyperDualVec T) (q : F), x / q = hdiv_assign x q.
Proof. exact form_HyperDualVec_div_F. Qed.
Theorem C08_form_HyperDualVec_inv : forall x : HyperDualVec T, m_inv x = m_recip x.
Proof. exact form_HyperDualVec_inv. Qed.
Theorem C08_form_HyperDualVec_mul_add : forall x a b : HyperDualVec T, m_mul_add x a b = x * a + b.
Proof. exact form_HyperDualVec_mul_add. Qed.
Theorem C08_form_HyperDualVec_sum : forall l : list (HyperDualVec T), HyperDualVec_Sum_sum l = fold_left (fun acc c => acc + c) l (zero : HyperDualVec T) /\ HyperDualVec_Sum_sum_2 l = fold_left (fun acc c => acc + c) l (zero : HyperDualVec T).
Proof. exact form_HyperDualVec_sum. Qed.
Theorem C08_form_HyperDualVec_product : forall l : list (HyperDualVec T), HyperDualVec_Product_product l = fold_left (fun acc c => acc * c) l (one : HyperDualVec T) /\ HyperDualVec_Product_product_2 l = fold_left (fun acc c => acc * c) l (one : HyperDualVec T).
Proof. exact form_HyperDualVec_product. Qed.
Theorem C08_const_HyperDualVec_from_re : forall r : T, HyperDualVec_from_re r = (fun r : T => mkHyperDualVec r Derivative_none Derivative_none Derivative_none) r.
Proof. exact const_HyperDualVec_from_re. Qed.
Theorem C08_const_HyperDualVec_from : forall q : F, (ofF q : HyperDualVec T) = HyperDualVec_from_re (ofF q : T).
Proof. exact const_HyperDualVec_from. Qed.
Theorem C08_const_HyperDualVec_zero_one : (zero : HyperDualVec T) = HyperDualVec_from_re (zero : T) /\ (one : HyperDualVec T) = HyperDualVec_from_re (one : T).
Proof. exact const_HyperDualVec_zero_one. Qed.
Theorem C08_const_HyperDualVec_E : HyperDualVec_FloatConst_E = (ofF (fl_const C_E : F) : HyperDualVec T).
Proof. exact const_HyperDualVec_E. Qed.
Theorem C08_const_HyperDualVec_FRAC_1_PI : HyperDualVec_FloatConst_FRAC_1_PI = (ofF (fl_const C_FRAC_1_PI : F) : HyperDualVec T).
Proof. exact const_HyperDualVec_FRAC_1_PI. Qed.
Theorem C08_const_HyperDualVec_FRAC_1_SQRT_2 : HyperDualVec_FloatConst_FRAC_1_SQRT_2 = (ofF (fl_const C_FRAC_1_SQRT_2 : F) : HyperDualVec T).
Proof. exact const_HyperDualVec_FRAC_1_SQRT_2. Qed.
Theorem C08_const_HyperDualVec_FRAC_2_PI : HyperDualVec_FloatConst_FRAC_2_PI = (ofF (fl_const C_FRAC_2_PI : F) : HyperDualVec T).
Proof. exact const_HyperDualVec_FRAC_2_PI. Qed.
Theorem C08_const_HyperDualVec_FRAC_2_SQRT_PI : HyperDualVec_FloatConst_FRAC_2_SQRT_PI = (ofF (fl_const C_FRAC_2_SQRT_PI : F) : HyperDualVec T).
Proof. exact const_HyperDualVec_FRAC_2_SQRT_PI. Qed.
Theorem C08_const_HyperDualVec_FRAC_PI_2 : HyperDualVec_FloatConst_FRAC_PI_2 = (ofF (fl_const C_FRAC_PI_2 : F) : HyperDualVec T).
Proof. exact const_HyperDualVec_FRAC_PI_2. Qed.
Theorem C08_const_HyperDualVec_FRAC_PI_3 : HyperDualVec_FloatConst_FRAC_PI_3 = (ofF (fl_const C_FRAC_PI_3 : F) : HyperDualVec T).
Proof. exact const_HyperDualVec_FRAC_PI_3. Qed.
Theorem C08_const_HyperDualVec_FRAC_PI_4 : HyperDualVec_FloatConst_FRAC_PI_4 = (ofF (fl_const C_FRAC_PI_4 : F) : HyperDualVec T).
Proof. exact const_HyperDualVec_FRAC_PI_4. Qed.
Theorem C08_const_HyperDualVec_FRAC_PI_6 : HyperDualVec_FloatConst_FRAC_PI_6 = (ofF (fl_const C_FRAC_PI_6 : F) : HyperDualVec T).
Proof. exact const_HyperDualVec_FRAC_PI_6. Qed.
Theorem C08_const_HyperDualVec_FRAC_PI_8 : HyperDualVec_FloatConst_FRAC_PI_8 = (ofF (fl_const C_FRAC_PI_8 : F) : HyperDualVec T).
Proof. exact const_HyperDualVec_FRAC_PI_8. Qed.
Theorem C08_const_HyperDualVec_LN_10 : HyperDualVec_FloatConst_LN_10 = (ofF (fl_const C_LN_10 : F) : HyperDualVec T).
Proof. exact const_HyperDualVec_LN_10. Qed.
Theorem C08_const_HyperDualVec_LN_2 : HyperDualVec_FloatConst_LN_2 = (ofF (fl_const C_LN_2 : F) : HyperDualVec T).
Proof. exact const_HyperDualVec_LN_2. Qed.
Theorem C08_const_HyperDualVec_LOG10_E : HyperDualVec_FloatConst_LOG10_E = (ofF (fl_const C_LOG10_E : F) : HyperDualVec T).
Proof. exact const_HyperDualVec_LOG10_E. Qed.
Theorem C08_const_HyperDualVec_LOG2_E : HyperDualVec_FloatConst_LOG2_E = (ofF (fl_const C_LOG2_E : F) : HyperDualVec T).
Proof. exact const_HyperDualVec_LOG2_E. Qed.
Theorem C08_const_HyperDualVec_PI : HyperDualVec_FloatConst_PI = (ofF (fl_const C_PI : F) : HyperDualVec T).
Proof. exact const_HyperDualVec_PI. Qed.
Theorem C08_const_HyperDualVec_SQRT_2 : HyperDualVec_FloatConst_SQRT_2 = (ofF (fl_const C_SQRT_2 : F) : HyperDualVec T).
Proof. exact const_HyperDualVec_SQRT_2. Qed.
Theorem C08_const_HyperDualVec_from_isize : forall n : Z, HyperDualVec_FromPrimitive_from_isize n = Some (ofF (castZ n : F) : HyperDualVec T).
Proof. exact const_HyperDualVec_from_isize. Qed.
Theorem C08_const_HyperDualVec_from_i8 : forall n : Z, HyperDualVec_FromPrimitive_from_i8 n = Some (ofF (castZ n : F) : HyperDualVec T).
Proof. exact const_HyperDualVec_from_i8. Qed.
Theorem C08_const_HyperDualVec_from_i16 : forall n : Z, HyperDualVec_FromPrimitive_from_i16 n = Some (ofF (castZ n : F) : HyperDualVec T).
Proof. exact const_HyperDualVec_from_i16. Qed.
Theorem C08_const_HyperDualVec_from_i32 : forall n : Z, HyperDualVec_FromPrimitive_from_i32 n = Some (ofF (castZ n : F) : HyperDualVec T).
Proof. exact const_HyperDualVec_from_i32. Qed.
Theorem C08_const_HyperDualVec_from_i64 : forall n : Z, HyperDualVec_FromPrimitive_from_i64 n = Some (ofF (castZ n : F) : HyperDualVec T).
Proof. exact const_HyperDualVec_from_i64. Qed.
Theorem C08_const_HyperDualVec_from_i128 : forall n : Z, HyperDualVec_FromPrimitive_from_i128 n = Some (ofF (castZ n : F) : HyperDualVec T).
Proof. exact const_HyperDualVec_from_i128. Qed.
Theorem C08_const_HyperDualVec_from_u8 : forall n : Z, HyperDualVec_FromPrimitive_from_u8 n = Some (ofF (castZ n : F) : HyperDualVec T).
Proof. exact const_HyperDualVec_from_u8. Qed.
Theorem C08_const_HyperDualVec_from_u16 : forall n : Z, HyperDualVec_FromPrimitive_from_u16 n = Some (ofF (castZ n : F) : HyperDualVec T).
Proof. exact const_HyperDualVec_from_u16. Qed.
Theorem C08_const_HyperDualVec_from_u32 : forall n : Z, HyperDualVec_FromPrimitive_from_u32 n = Some (ofF (castZ n : F) : HyperDualVec T).
Proof. exact const_HyperDualVec_from_u32. Qed.
Theorem C08_const_HyperDualVec_from_u64 : forall n : Z, HyperDualVec_FromPrimitive_from_u64 n = Some (ofF (castZ n : F) : HyperDualVec T).
Proof. exact const_HyperDualVec_from_u64. Qed.
Theorem C08_const_HyperDualVec_from_u128 : forall n : Z, HyperDualVec_FromPrimitive_from_u128 n = Some (ofF (castZ n : F) : HyperDualVec T).
Proof. exact const_HyperDualVec_from_u128. Qed.
End Generic.
From ND Require Import Tactics C08_lift.
Local Open Scope R_scope.
Theorem C08_assign_Dual_add : forall (x y : Dual R) S, In S idx_Dual -> part_Dual (hadd_assign x y) S = part_Dual (x + y)%rs S.
Proof. exact assign_Dual_add. Qed.
Theorem C08_assign_Dual_sub : forall (x y : Dual R) S, In S idx_Dual -> part_Dual (hsub_assign x y) S = part_Dual (x - y)%rs S.
Proof. exact assign_Dual_sub. Qed.
Theorem C08_lift_Dual_add : forall (x : Dual R) (q : R) S, In S idx_Dual -> part_Dual (x + q)%rs S = part_Dual (x + (ofF q : Dual R))%rs S.
Proof. exact lift_Dual_add. Qed.
Theorem C08_lift_Dual_sub : forall (x : Dual R) (q : R) S, In S idx_Dual -> part_Dual (x - q)%rs S = part_Dual (x - (ofF q : Dual R))%rs S.
Proof. exact lift_Dual_sub. Qed.
Theorem C08_lift_Dual_mul : forall (x : Dual R) (q : R) S, In S idx_Dual -> part_Dual (x * q)%rs S = part_Dual (x * (ofF q : Dual R))%rs S.
Proof. exact lift_Dual_mul. Qed.
Theorem C08_lift_Dual_div : forall (x : Dual R) (q : R) S, q <> 0 -> In S idx_Dual -> part_Dual (x / q)%rs S = part_Dual (x / (ofF q : Dual R))%rs S.
Proof. exact lift_Dual_div. Qed.
Theorem C08_assign_Dual2_add : forall (x y : Dual2 R) S, In S idx_Dual2 -> part_Dual2 (hadd_assign x y) S = part_Dual2 (x + y)%rs S.
Proof. exact assign_Dual2_add. Qed.
Theorem C08_assign_Dual2_sub : forall (x y : Dual2 R) S, In S idx_Dual2 -> part_Dual2 (hsub_assign x y) S = part_Dual2 (x - y)%rs S.
Proof. exact assign_Dual2_sub. Qed.
Theorem C08_lift_Dual2_add : forall (x : Dual2 R) (q : R) S, In S idx_Dual2 -> part_Dual2 (x + q)%rs S = part_Dual2 (x + (ofF q : Dual2 R))%rs S.
Proof. exact lift_Dual2_add. Qed.
Theorem C08_lift_Dual2_sub : forall (x : Dual2 R) (q : R) S, In S idx_Dual2 -> part_Dual2 (x - q)%rs S = part_Dual2 (x - (ofF q : Dual2 R))%rs S.
Proof. exact lift_Dual2_sub. Qed.
Theorem C08_lift_Dual2_mul : forall (x : Dual2 R) (q : R) S, In S idx_Dual2 -> part_Dual2 (x * q)%rs S = part_Dual2 (x * (ofF q : Dual2 R))%rs S.
Proof. exact lift_Dual2_mul. Qed.
Theorem C08_lift_Dual2_div : forall (x : Dual2 R) (q : R) S, q <> 0 -> In S idx_Dual2 -> part_Dual2 (x / q)%rs S = part_Dual2 (x / (ofF q : Dual2 R))%rs S.
Proof. exact lift_Dual2_div. Qed.
Theorem C08_assign_Dual3_add : forall (x y : Dual3 R) S, In S idx_Dual3 -> part_Dual3 (hadd_assign x y) S = part_Dual3 (x + y)%rs S.
Proof. exact assign_Dual3_add. Qed.
Theorem C08_assign_Dual3_sub : forall (x y : Dual3 R) S, In S idx_Dual3 -> part_Dual3 (hsub_assign x y) S = part_Dual3 (x - y)%rs S.
Proof. exact assign_Dual3_sub. Qed.
Theorem C08_lift_Dual3_add : forall (x : Dual3 R) (q : R) S, In S idx_Dual3 -> part_Dual3 (x + q)%rs S = part_Dual3 (x + (ofF q : Dual3 R))%rs S.
Proof. exact lift_Dual3_add. Qed.
Theorem C08_lift_Dual3_sub : forall (x : Dual3 R) (q : R) S, In S idx_Dual3 -> part_Dual3 (x - q)%rs S = part_Dual3 (x - (ofF q : Dual3 R))%rs S.
Proof. exact lift_Dual3_sub. Qed.
Theorem C08_lift_Dual3_mul : forall (x : Dual3 R) (q : R) S, In S idx_Dual3 -> part_Dual3 (x * q)%rs S = part_Dual3 (x * (ofF q : Dual3 R))%rs S.
Proof. exact lift_Dual3_mul. Qed.
Theorem C08_lift_Dual3_div : forall (x : Dual3 R) (q : R) S, q <> 0 -> In S idx_Dual3 -> part_Dual3 (x / q)%rs S = part_Dual3 (x / (ofF q : Dual3 R))%rs S.
Proof. exact lift_Dual3_div. Qed.
Theorem C08_assign_HyperDual_add : forall (x y : HyperDual R) S, In S idx_HyperDual -> part_HyperDual (hadd_assign x y) S = part_HyperDual (x + y)%rs S.
Proof. exact assign_HyperDual_add. Qed.
Theorem C08_assign_HyperDual_sub : forall (x y : HyperDual R) S, In S idx_HyperDual -> part_HyperDual (hsub_assign x y) S = part_HyperDual (x - y)%rs S.
Proof. exact assign_HyperDual_sub. Qed.
Theorem C08_lift_HyperDual_add : forall (x : HyperDual R) (q : R) S, In S idx_HyperDual -> part_HyperDual (x + q)%rs S = part_HyperDual (x + (ofF q : HyperDual R))%rs S.
Proof. exact lift_HyperDual_add. Qed.
Theorem C08_lift_HyperDual_sub : forall (x : HyperDual R) (q : R) S, In S idx_HyperDual -> part_HyperDual (x - q)%rs S = part_HyperDual (x - (ofF q : HyperDual R))%rs S.
Proof. exact lift_HyperDual_sub. Qed.
Theorem C08_lift_HyperDual_mul : forall (x : HyperDual R) (q : R) S, In S idx_HyperDual -> part_HyperDual (x * q)%rs S = part_HyperDual (x * (ofF q : HyperDual R))%rs S.
Proof. exact lift_HyperDual_mul. Qed.
Theorem C08_lift_HyperDual_div : forall (x : HyperDual R) (q : R) S, q <> 0 -> In S idx_HyperDual -> part_HyperDual (x / q)%rs S = part_HyperDual (x / (ofF q : HyperDual R))%rs S.
Proof. exact lift_HyperDual_div. Qed.
Theorem C08_assign_HyperHyperDual_add : forall (x y : HyperHyperDual R) S, In S idx_HHD -> part_HHD (hadd_assign x y) S = part_HHD (x + y)%rs S.
Proof. exact assign_HyperHyperDual_add. Qed.
Theorem C08_assign_HyperHyperDual_sub : forall (x y : HyperHyperDual R) S, In S idx_HHD -> part_HHD (hsub_assign x y) S = part_HHD (x - y)%rs S.
Proof. exact assign_HyperHyperDual_sub. Qed.
Theorem C08_lift_HyperHyperDual_add : forall (x : HyperHyperDual R) (q : R) S, In S idx_HHD -> part_HHD (x + q)%rs S = part_HHD (x + (ofF q : HyperHyperDual R))%rs S.
Proof. exact lift_HyperHyperDual_add. Qed.
Theorem C08_lift_HyperHyperDual_sub : forall (x : HyperHyperDual R) (q : R) S, In S idx_HHD -> part_HHD (x - q)%rs S = part_HHD (x - (ofF q : HyperHyperDual R))%rs S.
Proof. exact lift_HyperHyperDual_sub. Qed.
Theorem C08_lift_HyperHyperDual_mul : forall (x : HyperHyperDual R) (q : R) S, In S idx_HHD -> part_HHD (x * q)%rs S = part_HHD (x * (ofF q : HyperHyperDual R))%rs S.
Proof. exact lift_HyperHyperDual_mul. Qed.
Theorem C08_lift_HyperHyperDual_div : forall (x : HyperHyperDual R) (q : R) S, q <> 0 -> In S idx_HHD -> part_HHD (x / q)%rs S = part_HHD (x / (ofF q : HyperHyperDual R))%rs S.
Proof. exact lift_HyperHyperDual_div. Qed.
Theorem C08_assign_DualVec_add : forall i, forall (x y : DualVec R) S, In S (idx_DualVec i) -> part_DualVec (hadd_assign x y) S = part_DualVec (x + y)%rs S.
Proof. exact assign_DualVec_add. Qed.
Theorem C08_assign_DualVec_sub : forall i, forall (x y : DualVec R) S, In S (idx_DualVec i) -> part_DualVec (hsub_assign x y) S = part_DualVec (x - y)%rs S.
Proof. exact assign_DualVec_sub. Qed.
Theorem C08_lift_DualVec_add : forall i, forall (x : DualVec R) (q : R) S, In S (idx_DualVec i) -> part_DualVec (x + q)%rs S = part_DualVec (x + (ofF q : DualVec R))%rs S.
Proof. exact lift_DualVec_add. Qed.
Theorem C08_lift_DualVec_sub : forall i, forall (x : DualVec R) (q : R) S, In S (idx_DualVec i) -> part_DualVec (x - q)%rs S = part_DualVec (x - (ofF q : DualVec R))%rs S.
Proof. exact lift_DualVec_sub. Qed.
Theorem C08_lift_DualVec_mul : forall i, forall (x : DualVec R) (q : R) S, In S (idx_DualVec i) -> part_DualVec (x * q)%rs S = part_DualVec (x * (ofF q : DualVec R))%rs S.
Proof. exact lift_DualVec_mul. Qed.
Theorem C08_lift_DualVec_div : forall i, forall (x : DualVec R) (q : R) S, q <> 0 -> In S (idx_DualVec i) -> part_DualVec (x / q)%rs S = part_DualVec (x / (ofF q : DualVec R))%rs S.
Proof. exact lift_DualVec_div. Qed.
Theorem C08_assign_Dual2Vec_add : forall i j, forall (x y : Dual2Vec R) S, In S (idx_Dual2Vec i j) -> part_Dual2Vec (hadd_assign x y) S = part_Dual2Vec (x + y)%rs S.
Proof. exact assign_Dual2Vec_add. Qed.
Theorem C08_assign_Dual2Vec_sub : forall i j, forall (x y : Dual2Vec R) S, In S (idx_Dual2Vec i j) -> part_Dual2Vec (hsub_assign x y) S = part_Dual2Vec (x - y)%rs S.
Proof. exact assign_Dual2Vec_sub. Qed.
Theorem C08_lift_Dual2Vec_add : forall i j, forall (x : Dual2Vec R) (q : R) S, In S (idx_Dual2Vec i j) -> part_Dual2Vec (x + q)%rs S = part_Dual2Vec (x + (ofF q : Dual2Vec R))%rs S.
Proof. exact lift_Dual2Vec_add. Qed.
Theorem C08_lift_Dual2Vec_sub : forall i j, forall (x : Dual2Vec R) (q : R) S, In S (idx_Dual2Vec i j) -> part_Dual2Vec (x - q)%rs S = part_Dual2Vec (x - (ofF q : Dual2Vec R))%rs S.
Proof. exact lift_Dual2Vec_sub. Qed.
Theorem C08_lift_Dual2Vec_mul : forall i j, forall (x : Dual2Vec R) (q : R) S, In S (idx_Dual2Vec i j) -> part_Dual2Vec (x * q)%rs S = part_Dual2Vec (x * (ofF q : Dual2Vec R))%rs S.
Proof. exact lift_Dual2Vec_mul. Qed.
Theorem C08_lift_Dual2Vec_div : forall i j, forall (x : Dual2Vec R) (q : R) S, q <> 0 -> In S (idx_Dual2Vec i j) -> part_Dual2Vec (x / q)%rs S = part_Dual2Vec (x / (ofF q : Dual2Vec R))%rs S.
Proof. exact lift_Dual2Vec_div. Qed.
Theorem C08_assign_HyperDualVec_add : forall i j, forall (x y : HyperDualVec R) S, In S (idx_HyperDualVec i j) -> part_HyperDualVec (hadd_assign x y) S = part_HyperDualVec (x + y)%rs S.
Proof. exact assign_HyperDualVec_add. Qed.
Theorem C08_assign_HyperDualVec_sub : forall i j, forall (x y : HyperDualVec R) S, In S (idx_HyperDualVec i j) -> part_HyperDualVec (hsub_assign x y) S = part_HyperDualVec (x - y)%rs S.
Proof. exact assign_HyperDualVec_sub. Qed.
Theorem C08_lift_HyperDualVec_add : forall i j, forall (x : HyperDualVec R) (q : R) S, In S (idx_HyperDualVec i j) -> part_HyperDualVec (x + q)%rs S = part_HyperDualVec (x + (ofF q : HyperDualVec R))%rs S.
Proof. exact lift_HyperDualVec_add. Qed.
Theorem C08_lift_HyperDualVec_sub : forall i j, forall (x : HyperDualVec R) (q : R) S, In S (idx_HyperDualVec i j) -> part_HyperDualVec (x - q)%rs S = part_HyperDualVec (x - (ofF q : HyperDualVec R))%rs S.
Proof. exact lift_HyperDualVec_sub. Qed.
Theorem C08_lift_HyperDualVec_mul : forall i j, forall (x : HyperDualVec R) (q : R) S, In S (idx_HyperDualVec i j) -> part_HyperDualVec (x * q)%rs S = part_HyperDualVec (x * (ofF q : HyperDualVec R))%rs S.
Proof. exact lift_HyperDualVec_mul. Qed.
Theorem C08_lift_HyperDualVec_div : forall i j, forall (x : HyperDualVec R) (q : R) S, q <> 0 -> In S (idx_HyperDualVec i j) -> part_HyperDualVec (x / q)%rs S = part_HyperDualVec (x / (ofF q : HyperDualVec R))%rs S.
Proof. exact lift_HyperDualVec_div. Qed.

Definition C08_bundle := (@C08_form_Dual_add_rv,
  @C08_form_Dual_add_vr,
  @C08_form_Dual_add_vv,
  @C08_form_Dual_sub_rv,
  @C08_form_Dual_sub_vr,
  @C08_form_Dual_sub_vv,
  @C08_form_Dual_mul_rv,
  @C08_form_Dual_mul_vr,
  @C08_form_Dual_mul_vv,
  @C08_form_Dual_div_rv,
  @C08_form_Dual_div_vr,
  @C08_form_Dual_div_vv,
  @C08_form_Dual_neg_v,
  @C08_form_Dual_mul_assign,
  @C08_form_Dual_div_assign,
  @C08_form_Dual_add_F,
  @C08_form_Dual_sub_F,
  @C08_form_Dual_mul_F,
  @C08_form_Dual_div_F,
  @C08_form_Dual_inv,
  @C08_form_Dual_mul_add,
  @C08_form_Dual_sum,
  @C08_form_Dual_product,
  @C08_const_Dual_from_re,
  @C08_const_Dual_from,
  @C08_const_Dual_zero_one,
  @C08_const_Dual_E,
  @C08_const_Dual_FRAC_1_PI,
  @C08_const_Dual_FRAC_1_SQRT_2,
  @C08_const_Dual_FRAC_2_PI,
  @C08_const_Dual_FRAC_2_SQRT_PI,
  @C08_const_Dual_FRAC_PI_2,
  @C08_const_Dual_FRAC_PI_3,
  @C08_const_Dual_FRAC_PI_4,
  @C08_const_Dual_FRAC_PI_6,
  @C08_const_Dual_FRAC_PI_8,
  @C08_const_Dual_LN_10,
  @C08_const_Dual_LN_2,
  @C08_const_Dual_LOG10_E,
  @C08_const_Dual_LOG2_E,
  @C08_const_Dual_PI,
  @C08_const_Dual_SQRT_2,
  @C08_const_Dual_from_isize,
  @C08_const_Dual_from_i8,
  @C08_const_Dual_from_i16,
  @C08_const_Dual_from_i32,
  @C08_const_Dual_from_i64,
  @C08_const_Dual_from_i128,
  @C08_const_Dual_from_u8,
  @C08_const_Dual_from_u16,
  @C08_const_Dual_from_u32,
  @C08_const_Dual_from_u64,
  @C08_const_Dual_from_u128,
  @C08_form_Dual2_add_rv,
  @C08_form_Dual2_add_vr,
  @C08_form_Dual2_add_vv,
  @C08_form_Dual2_sub_rv,
  @C08_form_Dual2_sub_vr,
  @C08_form_Dual2_sub_vv,
  @C08_form_Dual2_mul_rv,
  @C08_form_Dual2_mul_vr,
  @C08_form_Dual2_mul_vv,
  @C08_form_Dual2_div_rv,
  @C08_form_Dual2_div_vr,
  @C08_form_Dual2_div_vv,
  @C08_form_Dual2_neg_v,
  @C08_form_Dual2_mul_assign,
  @C08_form_Dual2_div_assign,
  @C08_form_Dual2_add_F,
  @C08_form_Dual2_sub_F,
  @C08_form_Dual2_mul_F,
  @C08_form_Dual2_div_F,
  @C08_form_Dual2_inv,
  @C08_form_Dual2_mul_add,
  @C08_form_Dual2_sum,
  @C08_form_Dual2_product,
  @C08_const_Dual2_from_re,
  @C08_const_Dual2_from,
  @C08_const_Dual2_zero_one,
  @C08_const_Dual2_E,
  @C08_const_Dual2_FRAC_1_PI,
  @C08_const_Dual2_FRAC_1_SQRT_2,
  @C08_const_Dual2_FRAC_2_PI,
  @C08_const_Dual2_FRAC_2_SQRT_PI,
  @C08_const_Dual2_FRAC_PI_2,
  @C08_const_Dual2_FRAC_PI_3,
  @C08_const_Dual2_FRAC_PI_4,
  @C08_const_Dual2_FRAC_PI_6,
  @C08_const_Dual2_FRAC_PI_8,
  @C08_const_Dual2_LN_10,
  @C08_const_Dual2_LN_2,
  @C08_const_Dual2_LOG10_E,
  @C08_const_Dual2_LOG2_E,
  @C08_const_Dual2_PI,
  @C08_const_Dual2_SQRT_2,
  @C08_const_Dual2_from_isize,
  @C08_const_Dual2_from_i8,
  @C08_const_Dual2_from_i16,
  @C08_const_Dual2_from_i32,
  @C08_const_Dual2_from_i64,
  @C08_const_Dual2_from_i128,
  @C08_const_Dual2_from_u8,
  @C08_const_Dual2_from_u16,
  @C08_const_Dual2_from_u32,
  @C08_const_Dual2_from_u64,
  @C08_const_Dual2_from_u128,
  @C08_form_Dual3_add_rv,
  @C08_form_Dual3_add_vr,
  @C08_form_Dual3_add_vv,
  @C08_form_Dual3_sub_rv,
  @C08_form_Dual3_sub_vr,
  @C08_form_Dual3_sub_vv,
  @C08_form_Dual3_mul_rv,
  @C08_form_Dual3_mul_vr,
  @C08_form_Dual3_mul_vv,
  @C08_form_Dual3_div_rv,
  @C08_form_Dual3_div_vr,
  @C08_form_Dual3_div_vv,
  @C08_form_Dual3_neg_v,
  @C08_form_Dual3_mul_assign,
  @C08_form_Dual3_div_assign,
  @C08_form_Dual3_add_F,
  @C08_form_Dual3_sub_F,
  @C08_form_Dual3_mul_F,
  @C08_form_Dual3_div_F,
  @C08_form_Dual3_inv,
  @C08_form_Dual3_mul_add,
  @C08_form_Dual3_sum,
  @C08_form_Dual3_product,
  @C08_const_Dual3_from_re,
  @C08_const_Dual3_from,
  @C08_const_Dual3_zero_one,
  @C08_const_Dual3_E,
  @C08_const_Dual3_FRAC_1_PI,
  @C08_const_Dual3_FRAC_1_SQRT_2,
  @C08_const_Dual3_FRAC_2_PI,
  @C08_const_Dual3_FRAC_2_SQRT_PI,
  @C08_const_Dual3_FRAC_PI_2,
  @C08_const_Dual3_FRAC_PI_3,
  @C08_const_Dual3_FRAC_PI_4,
  @C08_const_Dual3_FRAC_PI_6,
  @C08_const_Dual3_FRAC_PI_8,
  @C08_const_Dual3_LN_10,
  @C08_const_Dual3_LN_2,
  @C08_const_Dual3_LOG10_E,
  @C08_const_Dual3_LOG2_E,
  @C08_const_Dual3_PI,
  @C08_const_Dual3_SQRT_2,
  @C08_const_Dual3_from_isize,
  @C08_const_Dual3_from_i8,
  @C08_const_Dual3_from_i16,
  @C08_const_Dual3_from_i32,
  @C08_const_Dual3_from_i64,
  @C08_const_Dual3_from_i128,
  @C08_const_Dual3_from_u8,
  @C08_const_Dual3_from_u16,
  @C08_const_Dual3_from_u32,
  @C08_const_Dual3_from_u64,
  @C08_const_Dual3_from_u128,
  @C08_form_HyperDual_add_rv,
  @C08_form_HyperDual_add_vr,
  @C08_form_HyperDual_add_vv,
  @C08_form_HyperDual_sub_rv,
  @C08_form_HyperDual_sub_vr,
  @C08_form_HyperDual_sub_vv,
  @C08_form_HyperDual_mul_rv,
  @C08_form_HyperDual_mul_vr,
  @C08_form_HyperDual_mul_vv,
  @C08_form_HyperDual_div_rv,
  @C08_form_HyperDual_div_vr,
  @C08_form_HyperDual_div_vv,
  @C08_form_HyperDual_neg_v,
  @C08_form_HyperDual_mul_assign,
  @C08_form_HyperDual_div_assign,
  @C08_form_HyperDual_add_F,
  @C08_form_HyperDual_sub_F,
  @C08_form_HyperDual_mul_F,
  @C08_form_HyperDual_div_F,
  @C08_form_HyperDual_inv,
  @C08_form_HyperDual_mul_add,
  @C08_form_HyperDual_sum,
  @C08_form_HyperDual_product,
  @C08_const_HyperDual_from_re,
  @C08_const_HyperDual_from,
  @C08_const_HyperDual_zero_one,
  @C08_const_HyperDual_E,
  @C08_const_HyperDual_FRAC_1_PI,
  @C08_const_HyperDual_FRAC_1_SQRT_2,
  @C08_const_HyperDual_FRAC_2_PI,
  @C08_const_HyperDual_FRAC_2_SQRT_PI,
  @C08_const_HyperDual_FRAC_PI_2,
  @C08_const_HyperDual_FRAC_PI_3,
  @C08_const_HyperDual_FRAC_PI_4,
  @C08_const_HyperDual_FRAC_PI_6,
  @C08_const_HyperDual_FRAC_PI_8,
  @C08_const_HyperDual_LN_10,
  @C08_const_HyperDual_LN_2,
  @C08_const_HyperDual_LOG10_E,
  @C08_const_HyperDual_LOG2_E,
  @C08_const_HyperDual_PI,
  @C08_const_HyperDual_SQRT_2,
  @C08_const_HyperDual_from_isize,
  @C08_const_HyperDual_from_i8,
  @C08_const_HyperDual_from_i16,
  @C08_const_HyperDual_from_i32,
  @C08_const_HyperDual_from_i64,
  @C08_const_HyperDual_from_i128,
  @C08_const_HyperDual_from_u8,
  @C08_const_HyperDual_from_u16,
  @C08_const_HyperDual_from_u32,
  @C08_const_HyperDual_from_u64,
  @C08_const_HyperDual_from_u128,
  @C08_form_HyperHyperDual_add_rv,
  @C08_form_HyperHyperDual_add_vr,
  @C08_form_HyperHyperDual_add_vv,
  @C08_form_HyperHyperDual_sub_rv,
  @C08_form_HyperHyperDual_sub_vr,
  @C08_form_HyperHyperDual_sub_vv,
  @C08_form_HyperHyperDual_mul_rv,
  @C08_form_HyperHyperDual_mul_vr,
  @C08_form_HyperHyperDual_mul_vv,
  @C08_form_HyperHyperDual_div_rv,
  @C08_form_HyperHyperDual_div_vr,
  @C08_form_HyperHyperDual_div_vv,
  @C08_form_HyperHyperDual_neg_v,
  @C08_form_HyperHyperDual_mul_assign,
  @C08_form_HyperHyperDual_div_assign,
  @C08_form_HyperHyperDual_add_F,
  @C08_form_HyperHyperDual_sub_F,
  @C08_form_HyperHyperDual_mul_F,
  @C08_form_HyperHyperDual_div_F,
  @C08_form_HyperHyperDual_inv,
  @C08_form_HyperHyperDual_mul_add,
  @C08_form_HyperHyperDual_sum,
  @C08_form_HyperHyperDual_product,
  @C08_const_HyperHyperDual_from_re,
  @C08_const_HyperHyperDual_from,
  @C08_const_HyperHyperDual_zero_one,
  @C08_const_HyperHyperDual_E,
  @C08_const_HyperHyperDual_FRAC_1_PI,
  @C08_const_HyperHyperDual_FRAC_1_SQRT_2,
  @C08_const_HyperHyperDual_FRAC_2_PI,
  @C08_const_HyperHyperDual_FRAC_2_SQRT_PI,
  @C08_const_HyperHyperDual_FRAC_PI_2,
  @C08_const_HyperHyperDual_FRAC_PI_3,
  @C08_const_HyperHyperDual_FRAC_PI_4,
  @C08_const_HyperHyperDual_FRAC_PI_6,
  @C08_const_HyperHyperDual_FRAC_PI_8,
  @C08_const_HyperHyperDual_LN_10,
  @C08_const_HyperHyperDual_LN_2,
  @C08_const_HyperHyperDual_LOG10_E,
  @C08_const_HyperHyperDual_LOG2_E,
  @C08_const_HyperHyperDual_PI,
  @C08_const_HyperHyperDual_SQRT_2,
  @C08_const_HyperHyperDual_from_isize,
  @C08_const_HyperHyperDual_from_i8,
  @C08_const_HyperHyperDual_from_i16,
  @C08_const_HyperHyperDual_from_i32,
  @C08_const_HyperHyperDual_from_i64,
  @C08_const_HyperHyperDual_from_i128,
  @C08_const_HyperHyperDual_from_u8,
  @C08_const_HyperHyperDual_from_u16,
  @C08_const_HyperHyperDual_from_u32,
  @C08_const_HyperHyperDual_from_u64,
  @C08_const_HyperHyperDual_from_u128,
  @C08_form_DualVec_add_rv,
  @C08_form_DualVec_add_vr,
  @C08_form_DualVec_add_vv,
  @C08_form_DualVec_sub_rv,
  @C08_form_DualVec_sub_vr,
  @C08_form_DualVec_sub_vv,
  @C08_form_DualVec_mul_rv,
  @C08_form_DualVec_mul_vr,
  @C08_form_DualVec_mul_vv,
  @C08_form_DualVec_div_rv,
  @C08_form_DualVec_div_vr,
  @C08_form_DualVec_div_vv,
  @C08_form_DualVec_neg_v,
  @C08_form_DualVec_mul_assign,
  @C08_form_DualVec_div_assign,
  @C08_form_DualVec_add_F,
  @C08_form_DualVec_sub_F,
  @C08_form_DualVec_mul_F,
  @C08_form_DualVec_div_F,
  @C08_form_DualVec_inv,
  @C08_form_DualVec_mul_add,
  @C08_form_DualVec_sum,
  @C08_form_DualVec_product,
  @C08_const_DualVec_from_re,
  @C08_const_DualVec_from,
  @C08_const_DualVec_zero_one,
  @C08_const_DualVec_E,
  @C08_const_DualVec_FRAC_1_PI,
  @C08_const_DualVec_FRAC_1_SQRT_2,
  @C08_const_DualVec_FRAC_2_PI,
  @C08_const_DualVec_FRAC_2_SQRT_PI,
  @C08_const_DualVec_FRAC_PI_2,
  @C08_const_DualVec_FRAC_PI_3,
  @C08_const_DualVec_FRAC_PI_4,
  @C08_const_DualVec_FRAC_PI_6,
  @C08_const_DualVec_FRAC_PI_8,
  @C08_const_DualVec_LN_10,
  @C08_const_DualVec_LN_2,
  @C08_const_DualVec_LOG10_E,
  @C08_const_DualVec_LOG2_E,
  @C08_const_DualVec_PI,
  @C08_const_DualVec_SQRT_2,
  @C08_const_DualVec_from_isize,
  @C08_const_DualVec_from_i8,
  @C08_const_DualVec_from_i16,
  @C08_const_DualVec_from_i32,
  @C08_const_DualVec_from_i64,
  @C08_const_DualVec_from_i128,
  @C08_const_DualVec_from_u8,
  @C08_const_DualVec_from_u16,
  @C08_const_DualVec_from_u32,
  @C08_const_DualVec_from_u64,
  @C08_const_DualVec_from_u128,
  @C08_form_Dual2Vec_add_rv,
  @C08_form_Dual2Vec_add_vr,
  @C08_form_Dual2Vec_add_vv,
  @C08_form_Dual2Vec_sub_rv,
  @C08_form_Dual2Vec_sub_vr,
  @C08_form_Dual2Vec_sub_vv,
  @C08_form_Dual2Vec_mul_rv,
  @C08_form_Dual2Vec_mul_vr,
  @C08_form_Dual2Vec_mul_vv,
  @C08_form_Dual2Vec_div_rv,
  @C08_form_Dual2Vec_div_vr,
  @C08_form_Dual2Vec_div_vv,
  @C08_form_Dual2Vec_neg_v,
  @C08_form_Dual2Vec_mul_assign,
  @C08_form_Dual2Vec_div_assign,
  @C08_form_Dual2Vec_add_F,
  @C08_form_Dual2Vec_sub_F,
  @C08_form_Dual2Vec_mul_F,
  @C08_form_Dual2Vec_div_F,
  @C08_form_Dual2Vec_inv,
  @C08_form_Dual2Vec_mul_add,
  @C08_form_Dual2Vec_sum,
  @C08_form_Dual2Vec_product,
  @C08_const_Dual2Vec_from_re,
  @C08_const_Dual2Vec_from,
  @C08_const_Dual2Vec_zero_one,
  @C08_const_Dual2Vec_E,
  @C08_const_Dual2Vec_FRAC_1_PI,
  @C08_const_Dual2Vec_FRAC_1_SQRT_2,
  @C08_const_Dual2Vec_FRAC_2_PI,
  @C08_const_Dual2Vec_FRAC_2_SQRT_PI,
  @C08_const_Dual2Vec_FRAC_PI_2,
  @C08_const_Dual2Vec_FRAC_PI_3,
  @C08_const_Dual2Vec_FRAC_PI_4,
  @C08_const_Dual2Vec_FRAC_PI_6,
  @C08_const_Dual2Vec_FRAC_PI_8,
  @C08_const_Dual2Vec_LN_10,
  @C08_const_Dual2Vec_LN_2,
  @C08_const_Dual2Vec_LOG10_E,
  @C08_const_Dual2Vec_LOG2_E,
  @C08_const_Dual2Vec_PI,
  @C08_const_Dual2Vec_SQRT_2,
  @C08_const_Dual2Vec_from_isize,
  @C08_const_Dual2Vec_from_i8,
  @C08_const_Dual2Vec_from_i16,
  @C08_const_Dual2Vec_from_i32,
  @C08_const_Dual2Vec_from_i64,
  @C08_const_Dual2Vec_from_i128,
  @C08_const_Dual2Vec_from_u8,
  @C08_const_Dual2Vec_from_u16,
  @C08_const_Dual2Vec_from_u32,
  @C08_const_Dual2Vec_from_u64,
  @C08_const_Dual2Vec_from_u128,
  @C08_form_HyperDualVec_add_rv,
  @C08_form_HyperDualVec_add_vr,
  @C08_form_HyperDualVec_add_vv,
  @C08_form_HyperDualVec_sub_rv,
  @C08_form_HyperDualVec_sub_vr,
  @C08_form_HyperDualVec_sub_vv,
  @C08_form_HyperDualVec_mul_rv,
  @C08_form_HyperDualVec_mul_vr,
  @C08_form_HyperDualVec_mul_vv,
  @C08_form_HyperDualVec_div_rv,
  @C08_form_HyperDualVec_div_vr,
  @C08_form_HyperDualVec_div_vv,
  @C08_form_HyperDualVec_neg_v,
  @C08_form_HyperDualVec_mul_assign,
  @C08_form_HyperDualVec_div_assign,
  @C08_form_HyperDualVec_add_F,
  @C08_form_HyperDualVec_sub_F,
  @C08_form_HyperDualVec_mul_F,
  @C08_form_HyperDualVec_div_F,
  @C08_form_HyperDualVec_inv,
  @C08_form_HyperDualVec_mul_add,
  @C08_form_HyperDualVec_sum,
  @C08_form_HyperDualVec_product,
  @C08_const_HyperDualVec_from_re,
  @C08_const_HyperDualVec_from,
  @C08_const_HyperDualVec_zero_one,
  @C08_const_HyperDualVec_E,
  @C08_const_HyperDualVec_FRAC_1_PI,
  @C08_const_HyperDualVec_FRAC_1_SQRT_2,
  @C08_const_HyperDualVec_FRAC_2_PI,
  @C08_const_HyperDualVec_FRAC_2_SQRT_PI,
  @C08_const_HyperDualVec_FRAC_PI_2,
  @C08_const_HyperDualVec_FRAC_PI_3,
  @C08_const_HyperDualVec_FRAC_PI_4,
  @C08_const_HyperDualVec_FRAC_PI_6,
  @C08_const_HyperDualVec_FRAC_PI_8,
  @C08_const_HyperDualVec_LN_10,
  @C08_const_HyperDualVec_LN_2,
  @C08_const_HyperDualVec_LOG10_E,
  @C08_const_HyperDualVec_LOG2_E,
  @C08_const_HyperDualVec_PI,
  @C08_const_HyperDualVec_SQRT_2,
  @C08_const_HyperDualVec_from_isize,
  @C08_const_HyperDualVec_from_i8,
  @C08_const_HyperDualVec_from_i16,
  @C08_const_HyperDualVec_from_i32,
  @C08_const_HyperDualVec_from_i64,
  @C08_const_HyperDualVec_from_i128,
  @C08_const_HyperDualVec_from_u8,
  @C08_const_HyperDualVec_from_u16,
  @C08_const_HyperDualVec_from_u32,
  @C08_const_HyperDualVec_from_u64,
  @C08_const_HyperDualVec_from_u128,
  C08_assign_Dual_add,
  C08_assign_Dual_sub,
  C08_lift_Dual_add,
  C08_lift_Dual_sub,
  C08_lift_Dual_mul,
  C08_lift_Dual_div,
  C08_assign_Dual2_add,
  C08_assign_Dual2_sub,
  C08_lift_Dual2_add,
  C08_lift_Dual2_sub,
  C08_lift_Dual2_mul,
  C08_lift_Dual2_div,
  C08_assign_Dual3_add,
  C08_assign_Dual3_sub,
  C08_lift_Dual3_add,
  C08_lift_Dual3_sub,
  C08_lift_Dual3_mul,
  C08_lift_Dual3_div,
  C08_assign_HyperDual_add,
  C08_assign_HyperDual_sub,
  C08_lift_HyperDual_add,
  C08_lift_HyperDual_sub,
  C08_lift_HyperDual_mul,
  C08_lift_HyperDual_div,
  C08_assign_HyperHyperDual_add,
  C08_assign_HyperHyperDual_sub,
  C08_lift_HyperHyperDual_add,
  C08_lift_HyperHyperDual_sub,
  C08_lift_HyperHyperDual_mul,
  C08_lift_HyperHyperDual_div,
  C08_assign_DualVec_add,
  C08_assign_DualVec_sub,
  C08_lift_DualVec_add,
  C08_lift_DualVec_sub,
  C08_lift_DualVec_mul,
  C08_lift_DualVec_div,
  C08_assign_Dual2Vec_add,
  C08_assign_Dual2Vec_sub,
  C08_lift_Dual2Vec_add,
  C08_lift_Dual2Vec_sub,
  C08_lift_Dual2Vec_mul,
  C08_lift_Dual2Vec_div,
  C08_assign_HyperDualVec_add,
  C08_assign_HyperDualVec_sub,
  C08_lift_HyperDualVec_add,
  C08_lift_HyperDualVec_sub,
  C08_lift_HyperDualVec_mul,
  C08_lift_HyperDualVec_div).
Print Assumptions C08_bundle.
